(* C04: characterisation of certificate verification and incremental assembly. *)
From Coq Require Import ZArith List Bool Lia Permutation.
From EC Require Import Lib.Outcome Lib.U64 Lib.ListW Model.Msgs Proofs.ListWFacts Proofs.MsgsFacts.
Import ListNotations.
Open Scope Z_scope.

Definition view_ok (g e : Z) (v : view) : Prop := vgen v = g /\ vepoch v = e.

Lemma view_verify_iff g e v : view_verify g e v = Ok tt <-> view_ok g e v.
Proof.
  unfold view_verify, view_ok.
  destruct (vgen v =? g) eqn:Eg; cbn [negb]; [|split; [discriminate|lia]].
  destruct (vepoch v =? e) eqn:Ee; cbn [negb]; [|split; [discriminate|lia]].
  split; [lia|reflexivity].
Qed.

Lemma view_verify_total g e v : view_verify g e v = Ok tt \/ exists x, view_verify g e v = Err x.
Proof.
  unfold view_verify. destruct (negb (vgen v =? g)); [right; eauto|].
  destruct (negb (vepoch v =? e)); [right; eauto|left; reflexivity].
Qed.

Definition cqc_claimed (C : committee) (q : cqc) : list (Z * sigref) :=
  map (fun k => (k, RCommit (qmsg q))) (selected_keys C (qsigners q)).

(* A commit certificate is accepted iff it belongs to this chain and epoch, its bitmap has the
   committee's length, the selected members weigh at least the quorum, and the aggregate is
   exactly (as a multiset) those members' signatures over the certified vote. *)
Theorem cqc_verify_iff g e C q :
  cqc_verify g e C q = Ok tt <->
  view_ok g e (cview (qmsg q)) /\ length (qsigners q) = length C /\
  quorum C <= weight (cweights C) (qsigners q) /\ Permutation (qagg q) (cqc_claimed C q).
Proof.
  unfold cqc_verify, commit_verify.
  destruct (view_verify_total g e (cview (qmsg q))) as [Hv|[x Hv]]; rewrite Hv; cbn [map_err bind].
  2:{ split; [discriminate|]. intros (Hok & _). apply view_verify_iff in Hok. congruence. }
  apply view_verify_iff in Hv.
  destruct (Nat.eqb (length (qsigners q)) (length C)) eqn:El; cbn [negb].
  2:{ apply Nat.eqb_neq in El. split; [discriminate|tauto]. }
  apply Nat.eqb_eq in El. unfold signers_weight. rewrite (proj2 (Nat.eqb_eq _ _) El). cbn [bind].
  destruct (weight (cweights C) (qsigners q) <? quorum C) eqn:Ew.
  { split; [discriminate|]. intros (_ & _ & Hq & _). lia. }
  fold (cqc_claimed C q).
  destruct (mset_eqb (ksig_eqb sigref_eqb) (qagg q) (cqc_claimed C q)) eqn:Em.
  - apply (mset_eqb_spec _ (ksig_eqb_spec _ sigref_eqb_spec)) in Em. split; [|reflexivity].
    intros _. repeat split; try assumption; try apply Hv; lia.
  - split; [discriminate|]. intros (_ & _ & _ & Hp).
    apply (mset_eqb_spec _ (ksig_eqb_spec _ sigref_eqb_spec)) in Hp. congruence.
Qed.

(* verification never panics: the length check precedes the weight computation *)
Theorem cqc_verify_no_panic g e C q : is_panic (cqc_verify g e C q) = false.
Proof.
  unfold cqc_verify, commit_verify.
  destruct (view_verify_total g e (cview (qmsg q))) as [Hv|[x Hv]]; rewrite Hv; cbn [map_err bind]; [|reflexivity].
  destruct (Nat.eqb (length (qsigners q)) (length C)) eqn:El; cbn [negb]; [|reflexivity].
  unfold signers_weight. rewrite El. cbn [bind].
  destruct (_ <? _); [reflexivity|]. destruct (mset_eqb _ _ _); reflexivity.
Qed.

Lemma cqc_verify_total g e C q : cqc_verify g e C q = Ok tt \/ exists x, cqc_verify g e C q = Err x.
Proof.
  pose proof (cqc_verify_no_panic g e C q) as H.
  destruct (cqc_verify g e C q) as [[]|x|p]; [left; reflexivity|right; eauto|discriminate].
Qed.

(* ---------- ReplicaTimeout ---------- *)
Theorem timeout_verify_iff g e C t :
  timeout_verify g e C t = Ok tt <->
  view_ok g e (tview t) /\
  (forall v, thv t = Some v -> view_ok g e (cview v)) /\
  (forall q, thq t = Some q -> cqc_verify g e C q = Ok tt).
Proof.
  unfold timeout_verify.
  destruct (view_verify_total g e (tview t)) as [Hv|[x Hv]]; rewrite Hv; cbn [map_err bind].
  2:{ split; [discriminate|]. intros (Hok & _). apply view_verify_iff in Hok. congruence. }
  apply view_verify_iff in Hv.
  destruct (thv t) as [v|] eqn:Ehv.
  - unfold commit_verify.
    destruct (view_verify_total g e (cview v)) as [Hc|[x Hc]]; rewrite Hc; cbn [map_err bind].
    2:{ split; [discriminate|]. intros (_ & Hok & _). specialize (Hok v eq_refl).
        apply view_verify_iff in Hok. congruence. }
    apply view_verify_iff in Hc.
    destruct (thq t) as [q|] eqn:Ehq.
    + destruct (cqc_verify_total g e C q) as [Hq|[x Hq]]; rewrite Hq; cbn [map_err].
      * split; [|reflexivity]. intros _. split; [exact Hv|]. split.
        -- intros v' Hv'; inversion Hv'; subst; exact Hc.
        -- intros q' Hq'; inversion Hq'; subst; exact Hq.
      * split; [discriminate|]. intros (_ & _ & Hok). specialize (Hok q eq_refl). congruence.
    + split; [|reflexivity]. intros _. split; [exact Hv|]. split.
      * intros v' Hv'; inversion Hv'; subst; exact Hc.
      * discriminate.
  - cbn [bind]. destruct (thq t) as [q|] eqn:Ehq.
    + destruct (cqc_verify_total g e C q) as [Hq|[x Hq]]; rewrite Hq; cbn [map_err].
      * split; [|reflexivity]. intros _. split; [exact Hv|]. split; [discriminate|].
        intros q' Hq'; inversion Hq'; subst; exact Hq.
      * split; [discriminate|]. intros (_ & _ & Hok). specialize (Hok q eq_refl). congruence.
    + split; [|reflexivity]. intros _. split; [exact Hv|]. split; discriminate.
Qed.

Lemma timeout_verify_total g e C t :
  timeout_verify g e C t = Ok tt \/ exists x, timeout_verify g e C t = Err x.
Proof.
  unfold timeout_verify.
  destruct (view_verify_total g e (tview t)) as [Hv|[x Hv]]; rewrite Hv; cbn [map_err bind]; [|right; eauto].
  destruct (thv t) as [v|].
  - unfold commit_verify. destruct (view_verify_total g e (cview v)) as [Hc|[x Hc]]; rewrite Hc; cbn [map_err bind]; [|right; eauto].
    destruct (thq t) as [q|]; [|left; reflexivity].
    destruct (cqc_verify_total g e C q) as [Hq|[x Hq]]; rewrite Hq; cbn [map_err]; [left; reflexivity|right; eauto].
  - cbn [bind]. destruct (thq t) as [q|]; [|left; reflexivity].
    destruct (cqc_verify_total g e C q) as [Hq|[x Hq]]; rewrite Hq; cbn [map_err]; [left; reflexivity|right; eauto].
Qed.

(* ---------- FinalBlock ---------- *)
Theorem final_block_verify_iff g e C p q :
  final_block_verify g e C p q = Ok tt <-> p = hpay (cprop (qmsg q)) /\ cqc_verify g e C q = Ok tt.
Proof.
  unfold final_block_verify. destruct (p =? hpay (cprop (qmsg q))) eqn:E; cbn [negb].
  - apply Z.eqb_eq in E. destruct (cqc_verify_total g e C q) as [Hq|[x Hq]]; rewrite Hq; cbn [map_err].
    + tauto.
    + split; [discriminate|]. intros [_ H]; discriminate.
  - apply Z.eqb_neq in E. split; [discriminate|tauto].
Qed.

(* ---------- incremental assembly of a commit certificate ---------- *)

Definition sig_valid_commit (s : signed commit sigref) : Prop := ssig s = (skey s, RCommit (smsg s)).

(* add succeeds exactly for a committee member not yet in the certificate, with a valid
   signature, over the certificate's own vote, for this chain and epoch *)
Theorem cqc_add_ok_iff g e C q s q' :
  length (qsigners q) = length C ->
  (cqc_add g e C q s = Ok q' <->
   exists i, cindex C (skey s) = Some i /\ nth_error (qsigners q) i = Some false /\
     sig_valid_commit s /\ qmsg q = smsg s /\ view_ok g e (cview (smsg s)) /\
     q' = {| qmsg := qmsg q; qsigners := bv_set (qsigners q) i; qagg := qagg q ++ [ssig s] |}).
Proof.
  intros Hlen. unfold cqc_add.
  destruct (cindex C (skey s)) as [i|] eqn:Ei.
  2:{ split; [discriminate|]. intros (i & H & _). discriminate. }
  destruct (nth_error (qsigners q) i) as [[|]|] eqn:En.
  - split; [discriminate|]. intros (i' & H & Hn & _). inversion H; subst. congruence.
  - destruct (ksig_eqb sigref_eqb (ssig s) (skey s, RCommit (smsg s))) eqn:Es; cbn [negb].
    2:{ split; [discriminate|]. intros (_ & _ & _ & Hs & _). unfold sig_valid_commit in Hs.
        rewrite Hs in Es. rewrite (decides_refl _ (ksig_eqb_spec _ sigref_eqb_spec)) in Es. discriminate. }
    apply (ksig_eqb_spec _ sigref_eqb_spec) in Es.
    destruct (commit_eqb (qmsg q) (smsg s)) eqn:Em; cbn [negb].
    2:{ split; [discriminate|]. intros (_ & _ & _ & _ & Hm & _). rewrite Hm in Em.
        rewrite (decides_refl _ commit_eqb_spec) in Em. discriminate. }
    apply commit_eqb_spec in Em. unfold commit_verify.
    destruct (view_verify_total g e (cview (smsg s))) as [Hv|[x Hv]]; rewrite Hv; cbn [map_err bind].
    + apply view_verify_iff in Hv. split.
      * intros H; inversion H; subst. exists i. repeat split; try assumption; apply Hv.
      * intros (i' & Hi & _ & _ & _ & _ & ->). inversion Hi; subst. reflexivity.
    + split; [discriminate|]. intros (_ & _ & _ & _ & _ & Hok & _). apply view_verify_iff in Hok. congruence.
  - exfalso. apply nth_error_None in En. apply cindex_spec in Ei. destruct Ei as (m & Hm & _).
    assert (i < length C)%nat by (apply nth_error_Some; congruence). lia.
Qed.

(* the invariant of a certificate under construction *)
Definition cqc_inv (C : committee) (q : cqc) : Prop :=
  length (qsigners q) = length C /\ Permutation (qagg q) (cqc_claimed C q).

Lemma cqc_new_inv m C : cqc_inv C (cqc_new m C).
Proof.
  unfold cqc_inv, cqc_new, cqc_claimed; cbn [qsigners qagg qmsg].
  rewrite bv_new_length, selected_keys_bv_new. split; reflexivity.
Qed.

Lemma cqc_add_inv g e C q s q' : cqc_inv C q -> cqc_add g e C q s = Ok q' ->
  cqc_inv C q' /\ qmsg q' = qmsg q.
Proof.
  intros [Hlen Hperm] H. apply (cqc_add_ok_iff g e C q s q' Hlen) in H.
  destruct H as (i & Hi & Hn & Hs & Hm & Hv & ->). split; [|reflexivity].
  unfold cqc_inv, cqc_claimed; cbn [qsigners qagg qmsg]. split; [rewrite bv_set_length; exact Hlen|].
  destruct (cindex_spec C (skey s) i Hi) as (m & Hcm & Hk).
  rewrite (Permutation_map _ (selected_keys_set C (qsigners q) i m Hcm Hn)). cbn [map].
  unfold sig_valid_commit in Hs. rewrite Hs, Hk, <- Hm. unfold cqc_claimed in Hperm.
  rewrite <- Permutation_cons_append. constructor. exact Hperm.
Qed.

Lemma cqc_add_no_panic g e C q s : length (qsigners q) = length C -> is_panic (cqc_add g e C q s) = false.
Proof.
  intros Hlen. unfold cqc_add. destruct (cindex C (skey s)) as [i|] eqn:Ei; [|reflexivity].
  destruct (nth_error (qsigners q) i) as [[|]|] eqn:En; [reflexivity| |].
  - destruct (negb _); [reflexivity|]. destruct (negb _); [reflexivity|].
    unfold commit_verify. destruct (view_verify_total g e (cview (smsg s))) as [Hv|[x Hv]]; rewrite Hv; reflexivity.
  - exfalso. apply nth_error_None in En. apply cindex_spec in Ei. destruct Ei as (m & Hm & _).
    assert (i < length C)%nat by (apply nth_error_Some; congruence). lia.
Qed.

(* folding [add] over any list of signed votes, ignoring the refused ones *)
Fixpoint cqc_assemble (g e : Z) (C : committee) (q : cqc) (votes : list (signed commit sigref)) : cqc :=
  match votes with
  | [] => q
  | s :: rest => cqc_assemble g e C (match cqc_add g e C q s with Ok q' => q' | _ => q end) rest
  end.

Lemma cqc_assemble_inv g e C votes : forall q, cqc_inv C q ->
  cqc_inv C (cqc_assemble g e C q votes) /\ qmsg (cqc_assemble g e C q votes) = qmsg q.
Proof.
  induction votes as [|s rest IH]; intros q Hinv; cbn [cqc_assemble]; [split; [assumption|reflexivity]|].
  destruct (cqc_add g e C q s) as [q'| |] eqn:Ea.
  - destruct (cqc_add_inv g e C q s q' Hinv Ea) as [Hinv' Hm].
    destruct (IH q' Hinv') as [H1 H2]. split; [assumption|congruence].
  - apply IH; assumption.
  - apply IH; assumption.
Qed.

(* Every certificate assembled incrementally from any sequence of signed votes verifies as soon as
   (and only if) the accepted votes reach the quorum — and its aggregate is exactly the multiset
   of the accepted members' signatures. *)
Theorem cqc_assembled_verifies g e C m votes :
  let q := cqc_assemble g e C (cqc_new m C) votes in
  cqc_inv C q /\ qmsg q = m /\
  (cqc_verify g e C q = Ok tt <->
   view_ok g e (cview m) /\ quorum C <= weight (cweights C) (qsigners q)).
Proof.
  cbn zeta. destruct (cqc_assemble_inv g e C votes (cqc_new m C) (cqc_new_inv m C)) as [[Hlen Hperm] Hm].
  cbn [cqc_new qmsg] in Hm. split; [split; assumption|]. split; [exact Hm|].
  rewrite cqc_verify_iff, Hm. tauto.
Qed.

(* ---------- TimeoutQC ---------- *)

Definition disjoint (a b : list bool) : Prop := bv_none (band a b) = true.
Definition entry_ok (g e : Z) (C : committee) (v : view) (en : timeout * list bool) : Prop :=
  tview (fst en) = v /\ length (snd en) = length C /\ bv_none (snd en) = false /\
  timeout_verify g e C (fst en) = Ok tt.
Definition union_from (sum : list bool) (entries : list (timeout * list bool)) : list bool :=
  fold_left bor (map snd entries) sum.

Lemma band_none_l a : forall b, bv_none a = true -> bv_none (band a b) = true.
Proof.
  induction a as [|x a IH]; intros [|y b] H; cbn [band]; try reflexivity.
  apply bv_none_spec in H. inversion H as [|? ? Hx Ha]; subst. apply bv_none_spec. cbn [andb].
  constructor; [reflexivity|]. apply bv_none_spec, IH, bv_none_spec, Ha.
Qed.

Lemma bv_none_new n : bv_none (bv_new n) = true.
Proof. apply bv_none_spec. unfold bv_new. induction n; cbn [repeat]; constructor; auto. Qed.

Lemma disjoint_bor a : forall b c, length a = length b -> length b = length c ->
  (disjoint (bor a b) c <-> disjoint a c /\ disjoint b c).
Proof.
  unfold disjoint. induction a as [|x a IH]; intros [|y b] [|z c] H1 H2; cbn [length] in *; try lia;
    cbn [bor band].
  - split; [intros _; split; reflexivity|reflexivity].
  - rewrite !bv_none_spec. split.
    + intros H. inversion H as [|? ? Hx Hr]; subst.
      apply bv_none_spec, IH in Hr; try lia. destruct Hr as [Ha Hb].
      destruct x, y, z; cbn in Hx; try discriminate;
        (split; (constructor; [reflexivity|apply bv_none_spec; assumption])).
    + intros [Ha Hb]. inversion Ha as [|? ? Hxa Hra]; inversion Hb as [|? ? Hxb Hrb]; subst.
      constructor.
      * destruct x, y, z; cbn in *; congruence.
      * apply bv_none_spec, IH; try lia. split; apply bv_none_spec; assumption.
Qed.

Lemma union_from_length entries : forall sum, Forall (fun en => length (snd en) = length sum) entries ->
  length (union_from sum entries) = length sum.
Proof.
  unfold union_from. induction entries as [|en rest IH]; intros sum H; cbn [map fold_left]; [reflexivity|].
  inversion H as [|? ? Hl Hr]; subst. rewrite IH.
  - apply bor_length. lia.
  - rewrite bor_length by lia. exact Hr.
Qed.

Lemma tqc_verify_entries_no_panic g e C v entries : forall i sum,
  is_panic (tqc_verify_entries g e C v i entries sum) = false.
Proof.
  induction entries as [|[msg s] rest IH]; intros i sum; cbn [tqc_verify_entries]; [reflexivity|].
  destruct (negb _); [reflexivity|]. destruct (negb _); [reflexivity|].
  destruct (bv_none s); [reflexivity|]. destruct (negb _); [reflexivity|].
  destruct (timeout_verify_total g e C msg) as [H|[x H]]; rewrite H; cbn [map_err bind]; [apply IH|reflexivity].
Qed.

Lemma tqc_verify_entries_iff g e C v entries : forall i sum sum', length sum = length C ->
  (tqc_verify_entries g e C v i entries sum = Ok sum' <->
   Forall (entry_ok g e C v) entries /\
   Forall (fun en => disjoint sum (snd en)) entries /\
   ForallOrdPairs disjoint (map snd entries) /\
   sum' = union_from sum entries).
Proof.
  induction entries as [|[msg s] rest IH]; intros i sum sum' Hlen; cbn [tqc_verify_entries].
  - unfold union_from; cbn. split.
    + intros H; inversion H; subst. repeat split; constructor.
    + intros (_ & _ & _ & ->). reflexivity.
  - destruct (view_eqb (tview msg) v) eqn:Ev; cbn [negb].
    2:{ split; [discriminate|]. intros (H & _). apply Forall_inv in H. destruct H as (Hv0 & _). cbn [fst] in Hv0.
        rewrite Hv0, (decides_refl _ view_eqb_spec) in Ev. discriminate. }
    apply view_eqb_spec in Ev.
    destruct (Nat.eqb (length s) (length sum)) eqn:El; cbn [negb].
    2:{ apply Nat.eqb_neq in El. split; [discriminate|]. intros (H & _).
        apply Forall_inv in H. destruct H as (_ & Hl & _). cbn [snd] in Hl. lia. }
    apply Nat.eqb_eq in El.
    destruct (bv_none s) eqn:En.
    { split; [discriminate|]. intros (H & _). apply Forall_inv in H. destruct H as (_ & _ & Hn & _).
      cbn [snd] in Hn. congruence. }
    destruct (bv_none (band sum s)) eqn:Ed; cbn [negb].
    2:{ split; [discriminate|]. intros (_ & H & _). apply Forall_inv in H.
        unfold disjoint in H. cbn [snd] in H. congruence. }
    destruct (timeout_verify_total g e C msg) as [Ht|[x Ht]]; rewrite Ht; cbn [map_err bind].
    2:{ split; [discriminate|]. intros (H & _). apply Forall_inv in H. destruct H as (_ & _ & _ & Hv0).
        cbn [fst] in Hv0. congruence. }
    rewrite (IH (S i) (bor sum s) sum') by (rewrite bor_length; lia).
    unfold union_from. cbn [map fold_left snd].
    split.
    + intros (Hall & Hdis & Hpair & ->). repeat split.
      * constructor; [|exact Hall]. repeat split; cbn [fst snd]; try assumption; lia.
      * constructor; [exact Ed|].
        rewrite Forall_forall in *. intros en Hin. specialize (Hdis en Hin). specialize (Hall en Hin).
        destruct Hall as (_ & Hl & _). apply (disjoint_bor sum s (snd en)) in Hdis; [tauto|lia|lia].
      * constructor; [|exact Hpair]. rewrite Forall_forall in *. intros x Hx.
        apply in_map_iff in Hx. destruct Hx as (en & <- & Hin).
        specialize (Hdis en Hin). specialize (Hall en Hin). destruct Hall as (_ & Hl & _).
        apply (disjoint_bor sum s (snd en)) in Hdis; [tauto|lia|lia].
    + intros (Hall & Hdis & Hpair & ->). inversion Hall as [|? ? _ Hall']; subst.
      inversion Hdis as [|? ? _ Hdis']; subst. inversion Hpair as [|? ? Hs Hpair']; subst.
      repeat split; try assumption.
      rewrite Forall_forall in *. intros en Hin. specialize (Hall' en Hin). destruct Hall' as (_ & Hl & _).
      apply (disjoint_bor sum s (snd en)); [lia|lia|]. split; [apply Hdis'; exact Hin|].
      apply Hs. apply in_map. exact Hin.
Qed.

(* A timeout certificate is accepted iff it belongs to this chain and epoch, every entry is for
   the certificate's view, has a bitmap of the committee's length with at least one signer and a
   message that verifies (incl. its nested commit certificate), the signer sets of different
   entries are pairwise disjoint, their union weighs at least the quorum, and the aggregate is
   exactly the multiset of each signer's signature over the entry it is listed under. *)
Theorem tqc_verify_iff g e C t :
  tqc_verify g e C t = Ok tt <->
  view_ok g e (tqview t) /\
  Forall (entry_ok g e C (tqview t)) (tqmap t) /\
  ForallOrdPairs disjoint (map snd (tqmap t)) /\
  quorum C <= weight (cweights C) (union_from (bv_new (length C)) (tqmap t)) /\
  Permutation (tqagg t) (tqc_claimed C (tqmap t)).
Proof.
  unfold tqc_verify.
  destruct (view_verify_total g e (tqview t)) as [Hv|[x Hv]]; rewrite Hv; cbn [map_err bind].
  2:{ split; [discriminate|]. intros (Hok & _). apply view_verify_iff in Hok. congruence. }
  apply view_verify_iff in Hv.
  pose proof (tqc_verify_entries_no_panic g e C (tqview t) (tqmap t) 0 (bv_new (length C))) as Hnp.
  destruct (tqc_verify_entries g e C (tqview t) 0 (tqmap t) (bv_new (length C))) as [sum| |] eqn:Een;
    cbn [bind]; [| |discriminate].
  - apply (tqc_verify_entries_iff g e C (tqview t) (tqmap t) 0 (bv_new (length C)) sum (bv_new_length _)) in Een.
    destruct Een as (Hall & Hdis & Hpair & ->).
    assert (Hl : length (union_from (bv_new (length C)) (tqmap t)) = length C).
    { rewrite union_from_length; [apply bv_new_length|]. rewrite bv_new_length.
      rewrite Forall_forall in *. intros en Hin. apply (Hall en Hin). }
    unfold signers_weight. rewrite (proj2 (Nat.eqb_eq _ _) Hl). cbn [bind].
    destruct (_ <? quorum C) eqn:Ew.
    { split; [discriminate|]. intros (_ & _ & _ & Hq & _). lia. }
    destruct (mset_eqb (ksig_eqb tsigref_eqb) (tqagg t) (tqc_claimed C (tqmap t))) eqn:Em.
    + apply (mset_eqb_spec _ (ksig_eqb_spec _ tsigref_eqb_spec)) in Em. split; [|reflexivity].
      intros _. repeat split; try assumption; try apply Hv. lia.
    + split; [discriminate|]. intros (_ & _ & _ & _ & Hp).
      apply (mset_eqb_spec _ (ksig_eqb_spec _ tsigref_eqb_spec)) in Hp. congruence.
  - split; [discriminate|]. intros (_ & Hall & Hpair & _). exfalso.
    assert (Hx : tqc_verify_entries g e C (tqview t) 0 (tqmap t) (bv_new (length C))
                 = Ok (union_from (bv_new (length C)) (tqmap t))).
    { apply tqc_verify_entries_iff; [apply bv_new_length|]. repeat split; try assumption.
      rewrite Forall_forall. intros en _. unfold disjoint. apply band_none_l, bv_none_new. }
    congruence.
Qed.

Theorem tqc_verify_no_panic g e C t : is_panic (tqc_verify g e C t) = false.
Proof.
  unfold tqc_verify.
  destruct (view_verify_total g e (tqview t)) as [Hv|[x Hv]]; rewrite Hv; cbn [map_err bind]; [|reflexivity].
  pose proof (tqc_verify_entries_no_panic g e C (tqview t) (tqmap t) 0 (bv_new (length C))) as Hnp.
  destruct (tqc_verify_entries g e C (tqview t) 0 (tqmap t) (bv_new (length C))) as [sum| |] eqn:Een;
    cbn [bind]; [|reflexivity|discriminate].
  apply (tqc_verify_entries_iff g e C (tqview t) (tqmap t) 0 (bv_new (length C)) sum (bv_new_length _)) in Een.
  destruct Een as (Hall & _ & _ & ->).
  assert (Hl : length (union_from (bv_new (length C)) (tqmap t)) = length C).
  { rewrite union_from_length; [apply bv_new_length|]. rewrite bv_new_length.
    rewrite Forall_forall in *. intros en Hin. apply (Hall en Hin). }
  unfold signers_weight. rewrite (proj2 (Nat.eqb_eq _ _) Hl). cbn [bind].
  destruct (_ <? _); [reflexivity|]. destruct (mset_eqb _ _ _); reflexivity.
Qed.

Theorem justification_verify_no_panic g e C j : is_panic (justification_verify g e C j) = false.
Proof.
  destruct j as [q|t]; cbn [justification_verify].
  - pose proof (cqc_verify_no_panic g e C q). destruct (cqc_verify g e C q); auto.
  - pose proof (tqc_verify_no_panic g e C t). destruct (tqc_verify g e C t); auto.
Qed.

Lemma justification_verify_iff g e C j :
  justification_verify g e C j = Ok tt <->
  match j with
  | JCommit q => cqc_verify g e C q = Ok tt
  | JTimeout t => tqc_verify g e C t = Ok tt
  end.
Proof.
  destruct j as [q|t]; cbn [justification_verify].
  - destruct (cqc_verify g e C q) as [[]| |]; cbn [map_err]; split; intros H; try discriminate; reflexivity.
  - destruct (tqc_verify g e C t) as [[]| |]; cbn [map_err]; split; intros H; try discriminate; reflexivity.
Qed.
