(* C05 (second part): the certificates a replica holds always verify; every message it emits
   is self-justifying (verifies in isolation); a view change is backed by a held certificate
   for the preceding view. *)
From Coq Require Import ZArith List Bool Lia Permutation.
From EC Require Import Lib.Outcome Lib.U64 Lib.ListW Lib.Obs Model.Msgs Model.Replica.
From EC Require Import Proofs.MsgsFacts Proofs.QCProofs Proofs.TqcAssembly Proofs.ReplicaMono Proofs.ReplicaCaches.
Import ListNotations.
Open Scope Z_scope.

Section Justified.
  Variable cfg : config.
  Let g := cg cfg.
  Let e := ce cfg.
  Let C := cC cfg.

  Definition certs_ok (s : rstate) : Prop :=
    (forall q, r_high_cqc s = Some q -> cqc_verify g e C q = Ok tt) /\
    (forall t, r_high_tqc s = Some t -> tqc_verify g e C t = Ok tt) /\
    (forall c, r_high_vote s = Some c -> view_ok g e (cview c)).

  Definition msg_ok (m : cmsg) : Prop :=
    match m with
    | MCommit c => commit_verify g e c = Ok tt
    | MTimeout t => timeout_verify g e C t = Ok tt
    | MNewView j => justification_verify g e C j = Ok tt
    | MProposal _ j => justification_verify g e C j = Ok tt
    end.
  Definition durable_ok (d : durable) : Prop :=
    (forall q, d_high_cqc d = Some q -> cqc_verify g e C q = Ok tt) /\
    (forall t, d_high_tqc d = Some t -> tqc_verify g e C t = Ok tt) /\
    (forall c, d_high_vote d = Some c -> view_ok g e (cview c)).
  Definition eff_ok (x : effect) : Prop :=
    match x with ESend m => msg_ok m | EPersist d => durable_ok d | _ => True end.

  Definition effs_of {A} (x : hres A) : list effect := snd (fst x).
  Definition st := @ReplicaMono.st_of.

  (* the property carried through the handler monad *)
  Definition good {A} (x : hres A) : Prop := certs_ok (ReplicaMono.st_of x) /\ Forall eff_ok (effs_of x).

  Lemma hbind_good {A B} (x : hres A) (f : rstate -> A -> hres B) :
    good x -> (forall s1 a, certs_ok s1 -> good (f s1 a)) -> good (hbind x f).
  Proof.
    destruct x as [[s1 es] r]. unfold good, ReplicaMono.st_of, effs_of; cbn [fst snd]. intros [H1 H2] Hf.
    unfold hbind. destruct r as [a| |]; cbn [fst snd]; try (split; assumption).
    specialize (Hf s1 a H1). destruct (f s1 a) as [[s2 es2] r2]. cbn [fst snd] in *.
    destruct Hf as [Hf1 Hf2]. split; [exact Hf1|]. apply Forall_app; split; assumption.
  Qed.

  Lemma good_ret {A} s (a : A) : certs_ok s -> good (hret s a).
  Proof. intros H. split; [exact H|constructor]. Qed.
  Lemma good_fail {A} s x : certs_ok s -> good (@hfail A s x).
  Proof. intros H. split; [exact H|constructor]. Qed.
  Lemma good_panic {A} s p : certs_ok s -> good (@hpanic A s p).
  Proof. intros H. split; [exact H|constructor]. Qed.
  Lemma good_lift {A} s (x : outcome unit A) : certs_ok s -> good (lift s x).
  Proof. intros H. destruct x; [apply good_ret|apply good_fail|apply good_panic]; exact H. Qed.
  Lemma good_emit s x : certs_ok s -> eff_ok x -> good (hemit s x).
  Proof. intros H Hx. split; [exact H|]. constructor; [exact Hx|constructor]. Qed.

  Lemma save_block_good s q : certs_ok s -> good (save_block cfg s q).
  Proof.
    intros H. unfold save_block. destruct (cache_has _ _ _); [|apply good_ret; exact H].
    destruct (_ <? _); [apply good_fail; exact H|].
    destruct (_ =? _); [|apply good_ret; exact H].
    split; [exact H|]. constructor; [exact I|constructor].
  Qed.

  Lemma process_commit_qc_good s q : certs_ok s -> cqc_verify g e C q = Ok tt ->
    good (process_commit_qc cfg s q).
  Proof.
    intros H Hq. unfold process_commit_qc.
    destruct (match r_high_cqc s with Some _ => _ | None => _ end); [|apply good_ret; exact H].
    apply save_block_good. destruct H as (H1 & H2 & H3). split; [|split]; cbn; try assumption.
    intros q' Hq'. inversion Hq'; subst. exact Hq.
  Qed.

  (* every certificate reported inside a verifying timeout certificate verifies *)
  Lemma high_qc_from_in entries : forall best q, high_qc_from entries best = Some q ->
    best = Some q \/ exists en, In en entries /\ thq (fst en) = Some q.
  Proof.
    induction entries as [|[m s] rest IH]; intros best q H; cbn [high_qc_from] in H; [left; exact H|].
    destruct (thq m) as [q'|] eqn:Eq.
    - destruct best as [b|].
      + destruct (_ <=? _).
        * apply IH in H. destruct H as [H|(en & Hin & Hen)].
          -- inversion H; subst. right. exists (m, s). split; [left; reflexivity|exact Eq].
          -- right. exists en. split; [right; exact Hin|exact Hen].
        * apply IH in H. destruct H as [H|(en & Hin & Hen)]; [left; exact H|].
          right. exists en. split; [right; exact Hin|exact Hen].
      + apply IH in H. destruct H as [H|(en & Hin & Hen)].
        * inversion H; subst. right. exists (m, s). split; [left; reflexivity|exact Eq].
        * right. exists en. split; [right; exact Hin|exact Hen].
    - apply IH in H. destruct H as [H|(en & Hin & Hen)]; [left; exact H|].
      right. exists en. split; [right; exact Hin|exact Hen].
  Qed.

  Lemma high_qc_verifies t q : tqc_verify g e C t = Ok tt -> high_qc t = Some q ->
    cqc_verify g e C q = Ok tt.
  Proof.
    intros Ht Hq. apply tqc_verify_iff in Ht. destruct Ht as (_ & Hall & _).
    unfold high_qc in Hq. apply high_qc_from_in in Hq. destruct Hq as [Hq|(en & Hin & Hen)]; [discriminate|].
    rewrite Forall_forall in Hall. destruct (Hall en Hin) as (_ & _ & _ & Hv).
    apply timeout_verify_iff in Hv. destruct Hv as (_ & _ & Hv). exact (Hv q Hen).
  Qed.

  Lemma process_timeout_qc_good s t : certs_ok s -> tqc_verify g e C t = Ok tt ->
    good (process_timeout_qc cfg s t).
  Proof.
    intros H Ht. unfold process_timeout_qc. apply hbind_good.
    - destruct (high_qc t) as [q|] eqn:Eq; [|apply good_ret; exact H].
      apply process_commit_qc_good; [exact H|]. eapply high_qc_verifies; eassumption.
    - intros s1 _ H1. apply good_ret.
      destruct (match r_high_tqc s1 with Some _ => _ | None => _ end); [|exact H1].
      destruct H1 as (H1 & H2 & H3). split; [|split]; cbn; try assumption.
      intros t' Ht'. inversion Ht'; subst. exact Ht.
  Qed.

  Lemma process_justification_good s j : certs_ok s -> justification_verify g e C j = Ok tt ->
    good (process_justification cfg s j).
  Proof.
    intros H Hj. apply justification_verify_iff in Hj. destruct j; cbn [process_justification].
    - apply process_commit_qc_good; assumption.
    - apply process_timeout_qc_good; assumption.
  Qed.

  Lemma get_justification_ok s j : certs_ok s -> get_justification s = Ok j ->
    justification_verify g e C j = Ok tt.
  Proof.
    intros (H1 & H2 & _) Hj. unfold get_justification in Hj. apply justification_verify_iff.
    destruct (r_high_cqc s) as [q|] eqn:Eq; destruct (r_high_tqc s) as [t|] eqn:Et;
      cbv beta iota in Hj; try discriminate;
      destruct (view_cmp_ge _ _); cbv beta iota in Hj; try discriminate;
      inversion Hj; subst; auto.
  Qed.

  Lemma certs_ok_set_view s v : certs_ok s -> certs_ok (set_view s v).
  Proof. intros H; exact H. Qed.
  Lemma certs_ok_set_phase s p : certs_ok s -> certs_ok (set_phase s p).
  Proof. intros H; exact H. Qed.
  Lemma certs_ok_set_cache s c : certs_ok s -> certs_ok (set_cache s c).
  Proof. intros H; exact H. Qed.

  Lemma start_new_view_good s v : certs_ok s -> good (start_new_view cfg s v).
  Proof.
    intros H. unfold start_new_view.
    set (s0 := set_phase (set_view s v) Prepare). assert (H0 : certs_ok s0) by exact H.
    destruct (get_justification s0) as [j| |] eqn:Ej; [|apply good_fail; exact H0|apply good_panic; exact H0].
    pose proof (get_justification_ok s0 j H0 Ej) as Hj.
    apply hbind_good; [apply good_emit; [exact H0|exact I]|]. intros s1 _ H1.
    apply hbind_good.
    - unfold backup_state. apply good_emit; [destruct (r_high_cqc s1); exact H1|].
      destruct (r_high_cqc s1); exact H1.
    - intros s2 _ H2. apply good_emit; [exact H2|exact Hj].
  Qed.

  Lemma start_timeout_good s : certs_ok s -> good (start_timeout cfg s).
  Proof.
    intros H. unfold start_timeout. apply hbind_good.
    - unfold backup_state. apply good_emit; [exact H|exact H].
    - intros s1 _ H1. apply hbind_good.
      + destruct (r_view s1 =? 0); [apply good_ret; exact H1|].
        destruct (get_justification s1) as [j| |] eqn:Ej; [|apply good_fail; exact H1|apply good_panic; exact H1].
        apply good_emit; [exact H1|]. exact (get_justification_ok s1 j H1 Ej).
      + intros s2 _ H2. apply good_emit; [exact H2|].
        cbn [eff_ok msg_ok]. apply timeout_verify_iff. cbn [tview thv thq].
        destruct H2 as (Hq & _ & Hv). split; [split; reflexivity|]. split; [exact Hv|exact Hq].
  Qed.

  Lemma just_view_ok j mv : justification_verify g e C j = Ok tt ->
    justification_view (E := unit) (cchk cfg) j = Ok mv -> view_ok g e mv.
  Proof.
    intros Hj Hv. apply justification_verify_iff in Hj. unfold justification_view in Hv.
    destruct (num_next _ _) as [n| |]; cbn [bind] in Hv; try discriminate. inversion Hv; subst. cbn.
    destruct j as [q|t].
    - apply cqc_verify_iff in Hj. exact (proj1 Hj).
    - apply tqc_verify_iff in Hj. exact (proj1 Hj).
  Qed.

  Lemma hbind_lift_good {A B} s (x : outcome unit A) (f : rstate -> A -> hres B) :
    certs_ok s -> (forall a, x = Ok a -> good (f s a)) -> good (hbind (lift s x) f).
  Proof.
    intros H Hf. destruct x as [a| |]; cbn [lift].
    - specialize (Hf a eq_refl). unfold hbind, hret. destruct (f s a) as [[s2 es2] r2]. exact Hf.
    - apply good_fail; exact H.
    - apply good_panic; exact H.
  Qed.

  Lemma on_proposal_good s key sig_ok payload j : certs_ok s -> good (on_proposal cfg s key sig_ok payload j).
  Proof.
    intros H. unfold on_proposal. apply hbind_lift_good; [exact H|]. intros mv Ev.
    destruct (_ || _); [apply good_fail; exact H|].
    destruct (negb (key =? _)); [apply good_fail; exact H|].
    destruct (negb sig_ok); [apply good_fail; exact H|].
    destruct (justification_verify (cg cfg) (ce cfg) (cC cfg) j) as [[]| |] eqn:Ej;
      [|apply good_fail; exact H|apply good_panic; exact H].
    pose proof (just_view_ok j mv Ej Ev) as Hmv.
    apply hbind_lift_good; [exact H|]. intros [n oh] _.
    destruct (n <? r_store_first s); [apply good_fail; exact H|].
    apply hbind_good.
    - destruct oh as [h|].
      + destruct payload; [apply good_fail|apply good_ret]; exact H.
      + destruct payload as [p|]; [|apply good_fail; exact H].
        destruct (_ <? _); [apply good_fail; exact H|].
        destruct (_ && _); [apply good_fail; exact H|].
        destruct (negb _); [apply good_fail; exact H|apply good_ret; exact H].
    - intros s3 hash H3. apply hbind_good.
      + apply process_justification_good; [|exact Ej].
        destruct H3 as (Hq & Ht & Hv). split; [|split]; cbn; try assumption.
        intros c Hc. inversion Hc; subst. cbn. exact Hmv.
      + intros s4 _ H4. apply hbind_good.
        * unfold backup_state. apply good_emit; [exact H4|exact H4].
        * intros s5 _ H5. apply good_emit; [exact H5|]. cbn [eff_ok msg_ok].
          unfold commit_verify. cbn [cview]. apply view_verify_iff. exact Hmv.
  Qed.

  (* tail of on_commit / on_timeout *)
  Lemma tail_good (x : hres unit) v : good x ->
    good (hbind x (fun s _ => hbind (lift s (num_next (cchk cfg) v)) (fun s nv => start_new_view cfg s nv))).
  Proof.
    intros Hx. apply hbind_good; [exact Hx|]. intros s1 _ H1.
    apply hbind_lift_good; [exact H1|]. intros nv _. apply start_new_view_good; exact H1.
  Qed.

  Lemma certs_ok_commit_caches s a b : certs_ok s -> certs_ok (set_commit_caches s a b).
  Proof. intros H; exact H. Qed.
  Lemma certs_ok_timeout_caches s a b : certs_ok s -> certs_ok (set_timeout_caches s a b).
  Proof. intros H; exact H. Qed.

  Lemma on_commit_good s key sig_ok c : cache_inv cfg s -> certs_ok s -> good (on_commit cfg s key sig_ok c).
  Proof.
    intros Hinv H.
    destruct (cindex (cC cfg) key) as [i0|] eqn:Hk.
    2:{ unfold on_commit, ccontains. rewrite Hk. cbn [negb]. apply good_fail; exact H. }
    destruct (vnum (cview c) <? r_view s) eqn:Hold.
    { unfold on_commit, ccontains. cbv zeta. rewrite Hk. cbn [negb]. rewrite Hold. apply good_fail; exact H. }
    destruct (match zmap_get (r_commit_views s) key with Some v' => vnum (cview c) <=? v' | None => false end) eqn:Efresh.
    { unfold on_commit, ccontains. cbv zeta. rewrite Hk. cbn [negb]. rewrite Hold, Efresh. apply good_fail; exact H. }
    destruct sig_ok.
    2:{ unfold on_commit, ccontains. cbv zeta. rewrite Hk. cbn [negb]. rewrite Hold, Efresh. apply good_fail; exact H. }
    destruct (commit_verify (cg cfg) (ce cfg) c) as [[]|x|p] eqn:Ev.
    - rewrite (on_commit_eq cfg s key c i0 Hinv Hk Hold Efresh Ev). unfold on_commit_accept. cbv zeta.
      destruct (_ <? quorum (cC cfg)) eqn:Ew; [apply good_ret; exact H|].
      apply Z.ltb_ge in Ew.
      destruct (on_commit_qc_verifies cfg s key c i0 Hinv Hk Efresh Ev Ew) as (_ & _ & Hver).
      apply tail_good. apply process_commit_qc_good; [exact H|exact Hver].
    - unfold on_commit, ccontains. cbv zeta. rewrite Hk. cbn [negb]. rewrite Hold, Efresh, Ev. apply good_fail; exact H.
    - unfold on_commit, ccontains. cbv zeta. rewrite Hk. cbn [negb]. rewrite Hold, Efresh, Ev. apply good_panic; exact H.
  Qed.

  Lemma on_timeout_good s key sig_ok t : cache_inv cfg s -> certs_ok s -> good (on_timeout cfg s key sig_ok t).
  Proof.
    intros Hinv H.
    destruct (cindex (cC cfg) key) as [i0|] eqn:Hk.
    2:{ unfold on_timeout, ccontains. rewrite Hk. cbn [negb]. apply good_fail; exact H. }
    destruct (vnum (tview t) <? r_view s) eqn:Hold.
    { unfold on_timeout, ccontains. cbv zeta. rewrite Hk. cbn [negb]. rewrite Hold. apply good_fail; exact H. }
    destruct (match zmap_get (r_timeout_views s) key with Some v' => vnum (tview t) <=? v' | None => false end) eqn:Efresh.
    { unfold on_timeout, ccontains. cbv zeta. rewrite Hk. cbn [negb]. rewrite Hold, Efresh. apply good_fail; exact H. }
    destruct sig_ok.
    2:{ unfold on_timeout, ccontains. cbv zeta. rewrite Hk. cbn [negb]. rewrite Hold, Efresh. apply good_fail; exact H. }
    destruct (timeout_verify (cg cfg) (ce cfg) (cC cfg) t) as [[]|x|p] eqn:Ev.
    - rewrite (on_timeout_eq cfg s key t i0 Hinv Hk Hold Efresh Ev). unfold on_timeout_accept. cbv zeta.
      destruct (_ <? quorum (cC cfg)) eqn:Ew; [apply good_ret; exact H|].
      apply Z.ltb_ge in Ew.
      destruct (on_timeout_qc_verifies cfg s key t i0 Hinv Hk Efresh Ev Ew) as (_ & _ & Hver).
      apply tail_good. apply process_timeout_qc_good; [exact H|exact Hver].
    - unfold on_timeout, ccontains. cbv zeta. rewrite Hk. cbn [negb]. rewrite Hold, Efresh, Ev. apply good_fail; exact H.
    - unfold on_timeout, ccontains. cbv zeta. rewrite Hk. cbn [negb]. rewrite Hold, Efresh, Ev. apply good_panic; exact H.
  Qed.

  Lemma on_new_view_good s key sig_ok j : certs_ok s -> good (on_new_view cfg s key sig_ok j).
  Proof.
    intros H. unfold on_new_view. apply hbind_lift_good; [exact H|]. intros mv _.
    destruct (_ || _); [apply good_fail; exact H|].
    destruct (negb (ccontains cfg key)); [apply good_fail; exact H|].
    destruct (negb sig_ok); [apply good_fail; exact H|].
    destruct (justification_verify (cg cfg) (ce cfg) (cC cfg) j) as [[]| |] eqn:Ej;
      [|apply good_fail; exact H|apply good_panic; exact H].
    apply hbind_good; [apply process_justification_good; assumption|]. intros s1 _ H1.
    destruct (_ <? _); [apply start_new_view_good; exact H1|apply good_ret; exact H1].
  Qed.

  Theorem rstep_good s i : cache_inv cfg s -> certs_ok s -> good (rstep cfg s i).
  Proof.
    intros Hinv H. destruct i as [m| |n h]; cbn [rstep].
    - destruct (m_msg m); [apply on_proposal_good|apply on_commit_good|apply on_timeout_good|apply on_new_view_good];
        assumption.
    - apply start_timeout_good; exact H.
    - destruct (_ =? _); [|apply good_ret; exact H]. split; [exact H|]. constructor; [exact I|constructor].
  Qed.

  Lemma rprologue_good s : certs_ok s -> good (rprologue cfg s).
  Proof. intros H. unfold rprologue. destruct (_ =? _); [apply start_timeout_good|apply good_ret]; exact H. Qed.

  (* (re)start from a persisted state *)

  Lemma durable_default_ok : durable_ok durable_default.
  Proof. repeat split; cbn; intros; discriminate. Qed.
  Lemma backup_ok s : certs_ok s -> durable_ok (backup cfg s).
  Proof. intros H; exact H. Qed.
  Lemma rstart_certs_ok d first next : durable_ok d -> certs_ok (rstart cfg d first next).
  Proof.
    intros H. unfold rstart. destruct (d_epoch d =? ce cfg); [exact H|exact durable_default_ok].
  Qed.

End Justified.

(* ------------------------------------------------------------------ *)
(* Runs with crashes and restarts (Model/ReplicaRun.v)                  *)
From EC Require Import Model.ReplicaRun Proofs.ReplicaCrash.

Section Runs.
  Variable cfg : config.

  Lemma good_rstep_t s i : cache_inv cfg s -> certs_ok cfg s -> good cfg (rstep_t cfg s i).
  Proof.
    intros Hinv H. unfold rstep_t. pose proof (rstep_good cfg s i Hinv H) as Hg.
    destruct (rstep cfg s i) as [[s' es] r]. destruct r as [a|x|p]; try exact Hg.
    destruct x; try exact Hg.
    destruct Hg as [Hs He]. cbn [ReplicaMono.st_of fst effs_of snd] in Hs, He.
    pose proof (start_timeout_good cfg s' Hs) as Ht.
    destruct (start_timeout cfg s') as [[s2 es2] r2]. destruct Ht as [Ht1 Ht2].
    split; cbn [ReplicaMono.st_of fst effs_of snd] in *; [exact Ht1|]. apply Forall_app; split; assumption.
  Qed.

  Lemma rstep_t_inv' s i : cache_inv cfg s -> cache_inv cfg (ReplicaMono.st_of (rstep_t cfg s i)).
  Proof.
    intros H. unfold rstep_t. pose proof (rstep_inv cfg s i H) as Hi.
    destruct (rstep cfg s i) as [[s' es] r]. unfold ReplicaCaches.st_of in Hi. cbn [fst] in Hi.
    destruct r as [a|x|p]; try exact Hi. destruct x; try exact Hi.
    pose proof (start_timeout_inv cfg s' Hi) as Ht. unfold ReplicaCaches.st_of in Ht.
    destruct (start_timeout cfg s') as [[s2 es2] r2]. exact Ht.
  Qed.

  Lemma last_persist_ok es : forall d, Forall (eff_ok cfg) es -> durable_ok cfg d ->
    durable_ok cfg (last_persist es d).
  Proof.
    unfold last_persist. induction es as [|x es IH]; intros d Hall Hd; cbn [fold_left]; [exact Hd|].
    inversion Hall as [|? ? Hx Hr]; subst. apply IH; [exact Hr|]. destruct x; try exact Hd. exact Hx.
  Qed.

  Lemma cut_at_persist_ok es : forall k a pre, Forall (eff_ok cfg) es ->
    cut_at_persist es k a = Some pre -> Forall (eff_ok cfg) pre.
  Proof.
    induction es as [|x es IH]; intros k a pre Hall Hc; cbn [cut_at_persist] in Hc; [discriminate|].
    inversion Hall as [|? ? Hx Hr]; subst.
    destruct x as [d|m|n h|j].
    - destruct k as [|k'].
      + inversion Hc; subst. destruct a; constructor; [exact Hx|constructor].
      + destruct (cut_at_persist es k' a) as [p|] eqn:Ep; [|discriminate]. inversion Hc; subst.
        constructor; [exact Hx|]. eapply IH; eassumption.
    - destruct (cut_at_persist es k a) as [p|] eqn:Ep; [|discriminate]. inversion Hc; subst.
      constructor; [exact Hx|]. eapply IH; eassumption.
    - destruct (cut_at_persist es k a) as [p|] eqn:Ep; [|discriminate]. inversion Hc; subst.
      constructor; [exact Hx|]. eapply IH; eassumption.
    - destruct (cut_at_persist es k a) as [p|] eqn:Ep; [|discriminate]. inversion Hc; subst.
      constructor; [exact Hx|]. eapply IH; eassumption.
  Qed.

  Lemma sends_ok es : Forall (eff_ok cfg) es -> Forall (msg_ok cfg) (sends es).
  Proof.
    unfold sends. induction 1 as [|x es Hx _ IH]; cbn [flat_map]; [constructor|].
    destruct x; cbn [app]; try exact IH. constructor; [exact Hx|exact IH].
  Qed.

  Record RInv (st : run_state) : Prop := {
    ri_cache : cache_inv cfg (rs_s st);
    ri_certs : certs_ok cfg (rs_s st);
    ri_dur : durable_ok cfg (rs_d st)
  }.

  Lemma restart_inv d first next :
    durable_ok cfg d ->
    let s0 := rstart cfg d first next in
    cache_inv cfg (ReplicaMono.st_of (rprologue cfg s0)) /\ good cfg (rprologue cfg s0).
  Proof.
    intros Hd s0. split.
    - pose proof (rprologue_inv cfg s0 (rstart_inv cfg d first next)) as H. exact H.
    - apply rprologue_good. apply rstart_certs_ok. exact Hd.
  Qed.

  (* one operation: the invariant is kept and everything sent verifies *)
  Lemma run_op_inv st o : RInv st ->
    RInv (fst (run_op cfg st o)) /\ Forall (msg_ok cfg) (op_log cfg st o).
  Proof.
    intros [Hc Hs Hd]. unfold op_log, op_effects, run_op.
    destruct (rs_dead st); [split; [constructor; assumption|constructor]|].
    destruct o as [i|i k a|].
    - pose proof (good_rstep_t (rs_s st) i Hc Hs) as [Hg1 Hg2].
      pose proof (rstep_t_inv' (rs_s st) i Hc) as Hi.
      destruct (rstep_t cfg (rs_s st) i) as [[s' es] r]. cbn [ReplicaMono.st_of fst snd effs_of] in *.
      pose proof (apply_effects_last es (rs_d st) (r_store_next (rs_s st))) as Hl.
      destruct (apply_effects (rs_d st) (r_store_next (rs_s st)) es) as [d' n']. cbn [fst snd] in *.
      split.
      + constructor; cbn [rs_s rs_d]; try assumption. rewrite Hl. apply last_persist_ok; assumption.
      + cbn [concat]. rewrite app_nil_r. apply sends_ok; exact Hg2.
    - pose proof (good_rstep_t (rs_s st) i Hc Hs) as [Hg1 Hg2].
      pose proof (rstep_t_inv' (rs_s st) i Hc) as Hi.
      destruct (rstep_t cfg (rs_s st) i) as [[s' es] r]. cbn [ReplicaMono.st_of fst snd effs_of] in *.
      destruct (cut_at_persist es k a) as [pre|] eqn:Ecut.
      + pose proof (cut_at_persist_ok es k a pre Hg2 Ecut) as Hpre.
        pose proof (apply_effects_last pre (rs_d st) (r_store_next (rs_s st))) as Hl.
        destruct (apply_effects (rs_d st) (r_store_next (rs_s st)) pre) as [d' n']. cbn [fst snd] in Hl.
        assert (Hd' : durable_ok cfg d') by (rewrite Hl; apply last_persist_ok; assumption).
        destruct (restart_inv d' (r_store_first (rs_s st)) n' Hd') as [Hri [Hrg1 Hrg2]].
        destruct (rprologue cfg (rstart cfg d' (r_store_first (rs_s st)) n')) as [[s1 es1] r1].
        cbn [ReplicaMono.st_of fst snd effs_of] in *.
        pose proof (apply_effects_last es1 d' n') as Hl1.
        destruct (apply_effects d' n' es1) as [d1 n1]. cbn [fst snd] in *.
        split.
        * constructor; cbn [rs_s rs_d]; try assumption. rewrite Hl1. apply last_persist_ok; assumption.
        * cbn [concat]. rewrite app_nil_r. apply sends_ok. apply Forall_app; split; assumption.
      + pose proof (apply_effects_last es (rs_d st) (r_store_next (rs_s st))) as Hl.
        destruct (apply_effects (rs_d st) (r_store_next (rs_s st)) es) as [d' n']. cbn [fst snd] in *.
        split.
        * constructor; cbn [rs_s rs_d]; try assumption. rewrite Hl. apply last_persist_ok; assumption.
        * cbn [concat]. rewrite app_nil_r. apply sends_ok; exact Hg2.
    - destruct (restart_inv (rs_d st) (r_store_first (rs_s st)) (r_store_next (rs_s st)) Hd) as [Hri [Hrg1 Hrg2]].
      destruct (rprologue cfg (rstart cfg (rs_d st) (r_store_first (rs_s st)) (r_store_next (rs_s st)))) as [[s1 es1] r1].
      cbn [ReplicaMono.st_of fst snd effs_of] in *.
      pose proof (apply_effects_last es1 (rs_d st) (r_store_next (rstart cfg (rs_d st) (r_store_first (rs_s st)) (r_store_next (rs_s st))))) as Hl1.
      destruct (apply_effects (rs_d st) _ es1) as [d1 n1]. cbn [fst snd] in *.
      split.
      + constructor; cbn [rs_s rs_d]; try assumption. rewrite Hl1. apply last_persist_ok; assumption.
      + cbn [concat]. rewrite app_nil_r. apply sends_ok; exact Hrg2.
  Qed.

  Lemma run_log_ok ops : forall st, RInv st -> Forall (msg_ok cfg) (run_log cfg st ops).
  Proof.
    induction ops as [|o rest IH]; intros st Hi; cbn [run_log]; [constructor|].
    destruct (run_op_inv st o Hi) as [Hi' Hl]. apply Forall_app; split; [exact Hl|apply IH; exact Hi'].
  Qed.

  (* C05: every message a replica ever emits, along any operation sequence with crashes at any
     persist point and restarts, starting from any verified durable state, is self-justifying *)
  Theorem emitted_self_justifying d first next ops : durable_ok cfg d ->
    Forall (msg_ok cfg) (case_log (cfg, d, first, next, ops)).
  Proof.
    intros Hd. unfold case_log, case_init.
    destruct (restart_inv d first next Hd) as [Hri [Hrg1 Hrg2]].
    destruct (rprologue cfg (rstart cfg d first next)) as [[s1 es] r].
    cbn [ReplicaMono.st_of fst snd effs_of] in *.
    pose proof (apply_effects_last es d next) as Hl.
    destruct (apply_effects d next es) as [d1 n1]. cbn [fst snd] in Hl.
    apply Forall_app; split; [apply sends_ok; exact Hrg2|].
    apply run_log_ok. constructor; cbn [rs_s rs_d]; try assumption.
    rewrite Hl. apply last_persist_ok; assumption.
  Qed.
End Runs.

(* ------------------------------------------------------------------ *)
(* A view change is backed by a held certificate for the preceding view *)
Section ViewChange.
  Variable cfg : config.
  Hypothesis Hchk : cchk cfg = true.

  Definition held_at_least (s : rstate) (w : Z) : Prop :=
    ole (Some w) (cqc_view (r_high_cqc s)) \/ ole (Some w) (tqc_view (r_high_tqc s)).
  Definition justified (s : rstate) : Prop := held_at_least s (r_view s - 1).

  Lemma held_mono s s' w : st_le s s' -> held_at_least s w -> held_at_least s' w.
  Proof.
    intros (_ & Hc & Ht) [H|H]; [left|right]; eapply ole_trans; eassumption.
  Qed.

  Lemma process_commit_qc_holds s q :
    held_at_least (ReplicaMono.st_of (process_commit_qc cfg s q)) (vnum (cview (qmsg q))).
  Proof.
    unfold process_commit_qc.
    destruct (r_high_cqc s) as [cur|] eqn:E.
    - destruct (vnum (cview (qmsg cur)) <? vnum (cview (qmsg q))) eqn:El.
      + eapply held_mono; [apply save_block_le|]. left. cbn. lia.
      + apply Z.ltb_ge in El. left. cbn. rewrite E. cbn. exact El.
    - eapply held_mono; [apply save_block_le|]. left. cbn. lia.
  Qed.

  Lemma hbind_ok_inv {A B} (x : hres A) (f : rstate -> A -> hres B) b :
    ReplicaMono.res_of (hbind x f) = Ok b ->
    exists a, ReplicaMono.res_of x = Ok a /\
              ReplicaMono.res_of (f (ReplicaMono.st_of x) a) = Ok b /\
              ReplicaMono.st_of (hbind x f) = ReplicaMono.st_of (f (ReplicaMono.st_of x) a).
  Proof.
    destruct x as [[s1 es] r]. unfold hbind, ReplicaMono.res_of, ReplicaMono.st_of. cbn [fst snd].
    destruct r as [a| |]; cbn [snd]; try discriminate.
    destruct (f s1 a) as [[s2 es2] r2] eqn:Ef. cbn [fst snd]. intros ->. exists a.
    split; [reflexivity|]. rewrite Ef. cbn [fst snd]. split; reflexivity.
  Qed.

  Lemma process_timeout_qc_holds s t :
    ReplicaMono.res_of (process_timeout_qc cfg s t) = Ok tt ->
    held_at_least (ReplicaMono.st_of (process_timeout_qc cfg s t)) (vnum (tqview t)).
  Proof.
    unfold process_timeout_qc. intros Hok. apply hbind_ok_inv in Hok.
    destruct Hok as ([] & _ & _ & ->). unfold hret, ReplicaMono.st_of at 1. cbn [fst].
    set (s1 := ReplicaMono.st_of _).
    destruct (r_high_tqc s1) as [old|] eqn:E.
    - destruct (vnum (tqview old) <? vnum (tqview t)) eqn:El.
      + right. cbn. lia.
      + apply Z.ltb_ge in El. right. cbn. rewrite E. cbn. exact El.
    - right. cbn. lia.
  Qed.

  Lemma process_justification_holds s j :
    ReplicaMono.res_of (process_justification cfg s j) = Ok tt ->
    held_at_least (ReplicaMono.st_of (process_justification cfg s j))
      (vnum (match j with JCommit q => cview (qmsg q) | JTimeout t => tqview t end)).
  Proof.
    destruct j; cbn [process_justification]; intros H; [apply process_commit_qc_holds|apply process_timeout_qc_holds; exact H].
  Qed.

  (* start_new_view keeps the certificates and moves to view v *)
  Lemma start_new_view_certs s v :
    let s' := ReplicaMono.st_of (start_new_view cfg s v) in
    r_view s' = v /\ r_high_cqc s' = r_high_cqc s /\ r_high_tqc s' = r_high_tqc s.
  Proof.
    unfold start_new_view. set (s0 := set_phase (set_view s v) Prepare).
    destruct (get_justification s0) as [j| |]; try (cbn; auto).
    unfold hbind, hemit, backup_state. cbn [fst snd ReplicaMono.st_of].
    destruct (r_high_cqc s0) eqn:E; cbn; cbn in E; rewrite E; cbn; auto.
  Qed.

  Lemma start_new_view_justified s v : held_at_least s (v - 1) ->
    justified (ReplicaMono.st_of (start_new_view cfg s v)).
  Proof.
    intros H. destruct (start_new_view_certs s v) as (Hv & Hc & Ht). unfold justified, held_at_least.
    rewrite Hv, Hc, Ht. exact H.
  Qed.

  (* the common tail: certificate processed at view v, then view v + 1 *)
  Lemma tail_justified (x : hres unit) v :
    (ReplicaMono.res_of x = Ok tt -> held_at_least (ReplicaMono.st_of x) v) ->
    let y := hbind x (fun s _ => hbind (lift s (num_next (cchk cfg) v)) (fun s nv => start_new_view cfg s nv)) in
    ReplicaMono.res_of y = Ok tt -> justified (ReplicaMono.st_of y).
  Proof.
    intros Hx y Hok. unfold y in *. apply hbind_ok_inv in Hok. destruct Hok as ([] & Hxo & Hok & ->).
    specialize (Hx Hxo). set (s1 := ReplicaMono.st_of x) in *.
    rewrite Hchk in *. destruct (num_next true v) as [nv| |] eqn:En; cbn [lift] in *.
    - apply num_next_chk in En. subst nv.
      unfold hbind, hret in *. cbn [fst snd] in *.
      destruct (start_new_view cfg s1 (v + 1)) as [[s2 es2] r2] eqn:Es.
      pose proof (start_new_view_justified s1 (v + 1)) as Hj. rewrite Es in Hj.
      cbn [ReplicaMono.st_of fst]. apply Hj. replace (v + 1 - 1) with v by lia. exact Hx.
    - unfold hbind, hfail, ReplicaMono.res_of in Hok. cbn in Hok. discriminate.
    - unfold hbind, hpanic, ReplicaMono.res_of in Hok. cbn in Hok. discriminate.
  Qed.

  Definition vj (s0 : rstate) (x : hres unit) : Prop :=
    ReplicaMono.res_of x = Ok tt ->
    r_view (ReplicaMono.st_of x) = r_view s0 \/ justified (ReplicaMono.st_of x).

  Lemma vj_same s0 s (r : outcome rerr unit) es : r_view s = r_view s0 -> vj s0 (s, es, r).
  Proof. intros H _. left. exact H. Qed.

  Lemma on_commit_vj s key sig_ok c : cache_inv cfg s -> vj s (on_commit cfg s key sig_ok c).
  Proof.
    intros Hinv.
    destruct (cindex (cC cfg) key) as [i0|] eqn:Hk.
    2:{ unfold on_commit, ccontains. rewrite Hk. cbn [negb]. apply vj_same; reflexivity. }
    destruct (vnum (cview c) <? r_view s) eqn:Hold.
    { unfold on_commit, ccontains. cbv zeta. rewrite Hk. cbn [negb]. rewrite Hold. apply vj_same; reflexivity. }
    destruct (match zmap_get (r_commit_views s) key with Some v' => vnum (cview c) <=? v' | None => false end) eqn:Efresh.
    { unfold on_commit, ccontains. cbv zeta. rewrite Hk. cbn [negb]. rewrite Hold, Efresh. apply vj_same; reflexivity. }
    destruct sig_ok.
    2:{ unfold on_commit, ccontains. cbv zeta. rewrite Hk. cbn [negb]. rewrite Hold, Efresh. apply vj_same; reflexivity. }
    destruct (commit_verify (cg cfg) (ce cfg) c) as [[]|x|p] eqn:Ev.
    - rewrite (on_commit_eq cfg s key c i0 Hinv Hk Hold Efresh Ev). unfold on_commit_accept. cbv zeta.
      destruct (_ <? quorum (cC cfg)) eqn:Ew; [apply vj_same; reflexivity|].
      apply Z.ltb_ge in Ew.
      destruct (on_commit_qc_verifies cfg s key c i0 Hinv Hk Efresh Ev Ew) as (Hqm & _ & _).
      intros Hok. right. apply (tail_justified _ (vnum (cview c))); [|exact Hok].
      intros _. pose proof (process_commit_qc_holds (set_commit_caches s
        (zmap_set (r_commit_views s) key (vnum (cview c)))
        (zmap_remove (retain_views (zmap_set (r_commit_qcs s) (vnum (cview c))
           (cmap_set (bucket_of (r_commit_qcs s) (vnum (cview c))) c
              (cupd key c i0 (q0_of (cC cfg) (bucket_of (r_commit_qcs s) (vnum (cview c))) c))))
           (zmap_set (r_commit_views s) key (vnum (cview c)))) (vnum (cview c))))
        (cupd key c i0 (q0_of (cC cfg) (bucket_of (r_commit_qcs s) (vnum (cview c))) c))) as Hh.
      rewrite Hqm in Hh. exact Hh.
    - unfold on_commit, ccontains. cbv zeta. rewrite Hk. cbn [negb]. rewrite Hold, Efresh, Ev. apply vj_same; reflexivity.
    - unfold on_commit, ccontains. cbv zeta. rewrite Hk. cbn [negb]. rewrite Hold, Efresh, Ev. apply vj_same; reflexivity.
  Qed.

  Lemma on_timeout_vj s key sig_ok t : cache_inv cfg s -> vj s (on_timeout cfg s key sig_ok t).
  Proof.
    intros Hinv.
    destruct (cindex (cC cfg) key) as [i0|] eqn:Hk.
    2:{ unfold on_timeout, ccontains. rewrite Hk. cbn [negb]. apply vj_same; reflexivity. }
    destruct (vnum (tview t) <? r_view s) eqn:Hold.
    { unfold on_timeout, ccontains. cbv zeta. rewrite Hk. cbn [negb]. rewrite Hold. apply vj_same; reflexivity. }
    destruct (match zmap_get (r_timeout_views s) key with Some v' => vnum (tview t) <=? v' | None => false end) eqn:Efresh.
    { unfold on_timeout, ccontains. cbv zeta. rewrite Hk. cbn [negb]. rewrite Hold, Efresh. apply vj_same; reflexivity. }
    destruct sig_ok.
    2:{ unfold on_timeout, ccontains. cbv zeta. rewrite Hk. cbn [negb]. rewrite Hold, Efresh. apply vj_same; reflexivity. }
    destruct (timeout_verify (cg cfg) (ce cfg) (cC cfg) t) as [[]|x|p] eqn:Ev.
    - rewrite (on_timeout_eq cfg s key t i0 Hinv Hk Hold Efresh Ev). unfold on_timeout_accept. cbv zeta.
      destruct (_ <? quorum (cC cfg)) eqn:Ew; [apply vj_same; reflexivity|].
      apply Z.ltb_ge in Ew.
      destruct (on_timeout_qc_verifies cfg s key t i0 Hinv Hk Efresh Ev Ew) as (_ & Hvw & _).
      intros Hok. right. apply (tail_justified _ (vnum (tview t))); [|exact Hok].
      intros Hx. apply process_timeout_qc_holds in Hx. rewrite Hvw in Hx. exact Hx.
    - unfold on_timeout, ccontains. cbv zeta. rewrite Hk. cbn [negb]. rewrite Hold, Efresh, Ev. apply vj_same; reflexivity.
    - unfold on_timeout, ccontains. cbv zeta. rewrite Hk. cbn [negb]. rewrite Hold, Efresh, Ev. apply vj_same; reflexivity.
  Qed.

  Lemma hbind_lift_ok_inv {A} s (x : outcome unit A) (f : rstate -> A -> hres unit) :
    ReplicaMono.res_of (hbind (lift s x) f) = Ok tt ->
    exists a, x = Ok a /\ ReplicaMono.res_of (f s a) = Ok tt /\
              ReplicaMono.st_of (hbind (lift s x) f) = ReplicaMono.st_of (f s a).
  Proof.
    intros H. apply hbind_ok_inv in H. destruct H as (a & Ha & Hf & Hs).
    rewrite lift_st in Hf, Hs. exists a. split; [|split; assumption].
    destruct x; cbn in Ha; inversion Ha; reflexivity.
  Qed.

  Lemma on_new_view_vj s key sig_ok j : vj s (on_new_view cfg s key sig_ok j).
  Proof.
    unfold vj, on_new_view. intros Hok. apply hbind_lift_ok_inv in Hok.
    destruct Hok as (mv & Hmv & Hok & ->). rewrite Hchk in Hmv. apply justification_view_chk in Hmv.
    destruct (_ || _); [left; reflexivity|].
    destruct (negb (ccontains cfg key)); [left; reflexivity|].
    destruct (negb sig_ok); [left; reflexivity|].
    destruct (justification_verify (cg cfg) (ce cfg) (cC cfg) j) as [[]| |]; try (left; reflexivity).
    apply hbind_ok_inv in Hok. destruct Hok as ([] & Hpo & Hok & ->).
    pose proof (process_justification_holds s j Hpo) as Hh.
    pose proof (process_justification_view cfg s j) as Hv.
    set (s1 := ReplicaMono.st_of (process_justification cfg s j)) in *.
    destruct (r_view s1 <? vnum mv); [|left; exact Hv].
    right. apply start_new_view_justified. rewrite Hmv. replace (_ + 1 - 1) with
      (vnum match j with JCommit q => cview (qmsg q) | JTimeout t => tqview t end) by lia. exact Hh.
  Qed.

  Lemma on_proposal_vj s key sig_ok payload j : vj s (on_proposal cfg s key sig_ok payload j).
  Proof.
    unfold vj, on_proposal. intros Hok. apply hbind_lift_ok_inv in Hok.
    destruct Hok as (mv & Hmv & Hok & ->). rewrite Hchk in Hmv. apply justification_view_chk in Hmv.
    destruct (_ || _); [left; reflexivity|].
    destruct (negb (key =? _)); [left; reflexivity|].
    destruct (negb sig_ok); [left; reflexivity|].
    destruct (justification_verify (cg cfg) (ce cfg) (cC cfg) j) as [[]| |]; try (left; reflexivity).
    apply hbind_lift_ok_inv in Hok. destruct Hok as ([n oh] & _ & Hok & ->).
    destruct (n <? r_store_first s); [left; reflexivity|].
    apply hbind_ok_inv in Hok. destruct Hok as (hash & _ & Hok & ->).
    match goal with |- context [ReplicaMono.st_of (match oh with Some _ => _ | None => _ end)] =>
      set (s3 := ReplicaMono.st_of (match oh with Some h => _ | None => _ end)) in * end.
    apply hbind_ok_inv in Hok. destruct Hok as ([] & Hpo & Hok & ->).
    apply hbind_ok_inv in Hok. destruct Hok as ([] & _ & _ & ->).
    right. unfold backup_state.
    assert (Hem : forall s0 x, ReplicaMono.st_of (hemit s0 x) = s0) by reflexivity.
    rewrite !Hem.
    match type of Hpo with ReplicaMono.res_of (process_justification cfg ?sv j) = _ =>
      pose proof (process_justification_holds sv j Hpo) as Hh;
      pose proof (process_justification_view cfg sv j) as Hv end.
    unfold justified. rewrite Hv. cbn [r_view set_high_vote set_phase set_view]. rewrite Hmv in *.
    replace (_ + 1 - 1) with
      (vnum match j with JCommit q => cview (qmsg q) | JTimeout t => tqview t end) by lia. exact Hh.
  Qed.

  (* C05: whenever a step that completes moves the replica to a higher view, it then holds a
     commit or timeout certificate for (at least) the preceding view; by [rstep_good] that
     certificate verifies. *)
  Theorem view_change_justified s i s' es :
    cache_inv cfg s -> rstep cfg s i = (s', es, Ok tt) -> r_view s < r_view s' -> justified s'.
  Proof.
    intros Hinv Hstep Hlt.
    assert (Hvj : vj s (rstep cfg s i)).
    { destruct i as [m| |n h]; cbn [rstep].
      - destruct (m_msg m); [apply on_proposal_vj|apply on_commit_vj; exact Hinv
                            |apply on_timeout_vj; exact Hinv|apply on_new_view_vj].
      - intros _. left. destruct (start_timeout_le cfg s) as (H1 & _).
        pose proof (Proofs.ReplicaCaches.start_timeout_keeps cfg s _ eq_refl) as _.
        unfold start_timeout, hbind, backup_state, hemit. cbn [fst snd ReplicaMono.st_of].
        destruct (r_view (set_phase s PTimeout) =? 0); cbn; [reflexivity|].
        destruct (get_justification (set_phase s PTimeout)); reflexivity.
      - intros _. left. destruct (_ =? _); reflexivity. }
    rewrite Hstep in Hvj. destruct (Hvj eq_refl) as [H|H]; cbn [ReplicaMono.st_of fst] in H; [lia|exact H].
  Qed.
End ViewChange.

(* the justification a replica uses is its highest certificate, the commit one on a tie *)
Lemma get_justification_highest cfg s j : certs_ok cfg s -> get_justification s = Ok j ->
  match j with
  | JCommit q => r_high_cqc s = Some q /\
                 forall t, r_high_tqc s = Some t -> vnum (tqview t) <= vnum (cview (qmsg q))
  | JTimeout t => r_high_tqc s = Some t /\
                  forall q, r_high_cqc s = Some q -> vnum (cview (qmsg q)) < vnum (tqview t)
  end.
Proof.
  intros (H1 & H2 & _) Hj. unfold get_justification in Hj.
  destruct (r_high_cqc s) as [q|] eqn:Eq; destruct (r_high_tqc s) as [t|] eqn:Et;
    cbv beta iota in Hj; try discriminate.
  - pose proof (proj1 (proj1 (cqc_verify_iff _ _ _ _) (H1 q eq_refl))) as [Hg1 He1].
    pose proof (proj1 (proj1 (tqc_verify_iff _ _ _ _) (H2 t eq_refl))) as [Hg2 He2].
    unfold view_cmp_ge in Hj. cbn [option_map] in Hj.
    rewrite Hg1, Hg2, He1, He2, !Z.eqb_refl in Hj.
    destruct (vnum (tqview t) <=? vnum (cview (qmsg q))) eqn:E; inversion Hj; subst.
    + split; [reflexivity|]. intros t' Ht'; inversion Ht'; subst. lia.
    + split; [reflexivity|]. intros q' Hq'; inversion Hq'; subst. lia.
  - cbn in Hj. inversion Hj; subst. split; [reflexivity|intros; discriminate].
  - cbn in Hj. inversion Hj; subst. split; [reflexivity|intros; discriminate].
Qed.
