(* C05, "follows the specification": refinement between the implementation model
   (Model/Replica.v, rstep) and the transcription of the specification (Model/Spec.v, spec_step).
   One step of the implementation from a state s is compared with one step of the specification
   from [abs s]. *)
From Coq Require Import ZArith List Bool Lia Permutation.
From EC Require Import Lib.Outcome Lib.U64 Lib.ListW Lib.Obs Model.Msgs Model.Replica Model.Spec.
From EC Require Import Proofs.ListWFacts Proofs.MsgsFacts Proofs.QCProofs Proofs.TqcAssembly Proofs.ReplicaCaches Proofs.ReplicaJustified.
Import ListNotations.
Open Scope Z_scope.

(* ================================================================== *)
(* 1. abstraction, agreement                                           *)

(* the votes recoverable from the certificates under construction *)
Definition abs_commits (C : committee) (qcs : list (Z * list (commit * cqc))) : list (Z * commit) :=
  flat_map (fun vb => flat_map (fun cq => map (fun k => (k, fst cq)) (selected_keys C (qsigners (snd cq)))) (snd vb)) qcs.
Definition abs_timeouts (C : committee) (tqcs : list (Z * tqc)) : list (Z * timeout) :=
  flat_map (fun vt => flat_map (fun en => map (fun k => (k, fst en)) (selected_keys C (snd en))) (tqmap (snd vt))) tqcs.

Definition abs (cfg : config) (s : rstate) : sstate :=
  {| sp_view := r_view s; sp_phase := r_phase s; sp_high_vote := r_high_vote s;
     sp_high_cqc := r_high_cqc s; sp_high_tqc := r_high_tqc s;
     sp_cached := proposals_of (r_cache s); sp_next := r_store_next s;
     sp_commits := abs_commits (cC cfg) (r_commit_qcs s);
     sp_timeouts := abs_timeouts (cC cfg) (r_timeout_qcs s) |}.

(* agreement of certificates "up to the signer set where the specification leaves it open":
   a commit certificate is identified by its vote, a timeout certificate by its view and the
   sequence of distinct timeout messages it lists *)
Definition cqc_sim (q q' : cqc) : Prop := qmsg q = qmsg q'.
Definition tqc_sim (t t' : tqc) : Prop := tqview t = tqview t' /\ map fst (tqmap t) = map fst (tqmap t').
Definition opt_rel {A} (R : A -> A -> Prop) (x y : option A) : Prop :=
  match x, y with Some a, Some b => R a b | None, None => True | _, _ => False end.
Definition just_sim (j j' : justification) : Prop :=
  match j, j' with JCommit q, JCommit q' => cqc_sim q q' | JTimeout t, JTimeout t' => tqc_sim t t' | _, _ => False end.
Definition msg_sim (m m' : cmsg) : Prop :=
  match m, m' with
  | MCommit c, MCommit c' => c = c'
  | MTimeout t, MTimeout t' => tview t = tview t' /\ thv t = thv t' /\ opt_rel cqc_sim (thq t) (thq t')
  | MNewView j, MNewView j' => just_sim j j'
  | MProposal p j, MProposal p' j' => p = p' /\ just_sim j j'
  | _, _ => False
  end.

(* (view, phase, high vote, both high certificates) *)
Definition core_sim (s : rstate) (a : sstate) : Prop :=
  r_view s = sp_view a /\ r_phase s = sp_phase a /\ r_high_vote s = sp_high_vote a /\
  opt_rel cqc_sim (r_high_cqc s) (sp_high_cqc a) /\ opt_rel tqc_sim (r_high_tqc s) (sp_high_tqc a).

Fixpoint sent (es : list effect) : list cmsg :=
  match es with
  | [] => []
  | ESend m :: es' => m :: sent es'
  | _ :: es' => sent es'
  end.
Definition effs {A} (x : hres A) : list effect := snd (fst x).

Lemma cqc_sim_refl q : cqc_sim q q. Proof. reflexivity. Qed.
Lemma tqc_sim_refl t : tqc_sim t t. Proof. split; reflexivity. Qed.
Lemma opt_rel_refl {A} (R : A -> A -> Prop) (x : option A) : (forall a, R a a) -> opt_rel R x x.
Proof. intros H. destruct x; cbn; auto. Qed.
Lemma core_sim_abs cfg s : core_sim s (abs cfg s).
Proof.
  repeat split; cbn [abs sp_high_cqc sp_high_tqc];
    [apply opt_rel_refl, cqc_sim_refl|apply opt_rel_refl; intros t; apply tqc_sim_refl].
Qed.
Lemma sent_app a b : sent (a ++ b) = sent a ++ sent b.
Proof.
  induction a as [|x a IH]; [reflexivity|]. destruct x; cbn [app sent]; try exact IH. rewrite IH. reflexivity.
Qed.

(* ================================================================== *)
(* 2. the sub-procedures                                               *)
Section Sim.
  Variable cfg : config.
  Let g := cg cfg.
  Let e := ce cfg.
  Let C := cC cfg.
  Hypothesis Hchk : cchk cfg = true.

  (* the held certificates are for this chain and epoch *)
  Definition held_views_ok (s : rstate) : Prop :=
    (forall q, r_high_cqc s = Some q -> view_ok g e (cview (qmsg q))) /\
    (forall t, r_high_tqc s = Some t -> view_ok g e (tqview t)).

  Lemma certs_ok_views s : certs_ok cfg s -> held_views_ok s.
  Proof.
    intros (H1 & H2 & _). split.
    - intros q Hq. apply H1 in Hq. apply cqc_verify_iff in Hq. apply Hq.
    - intros t Ht. apply H2 in Ht. apply tqc_verify_iff in Ht. apply Ht.
  Qed.

  (* ---- process_commit_qc ---- *)
  Lemma save_block_core s q : let x := save_block cfg s q in
    r_view (st_of x) = r_view s /\ r_phase (st_of x) = r_phase s /\ r_high_vote (st_of x) = r_high_vote s /\
    r_high_cqc (st_of x) = r_high_cqc s /\ r_high_tqc (st_of x) = r_high_tqc s /\ sent (effs x) = [] /\
    (forall err, res_of x = Err err -> err = RBlocked) /\ (forall p, res_of x <> Panic p).
  Proof.
    unfold save_block. destruct (cache_has _ _ _); [|cbn; repeat split; intros; discriminate].
    destruct (_ <? _); [cbn; repeat split; try (intros; discriminate); intros err H; inversion H; reflexivity|].
    destruct (_ =? _); cbn; repeat split; intros; discriminate.
  Qed.

  Lemma process_commit_qc_sim s a q q' : core_sim s a -> cqc_sim q q' ->
    let x := process_commit_qc cfg s q in
    core_sim (st_of x) (sprocess_commit_qc a (Some q')) /\ sent (effs x) = [] /\
    (forall err, res_of x = Err err -> err = RBlocked) /\ (forall p, res_of x <> Panic p).
  Proof.
    intros (Hv & Hp & Hhv & Hc & Ht) Hq. unfold process_commit_qc.
    assert (Hcore : forall a0, sp_view a0 = sp_view a -> sp_phase a0 = sp_phase a -> sp_high_vote a0 = sp_high_vote a ->
              sp_high_tqc a0 = sp_high_tqc a -> forall s0, r_view s0 = r_view s -> r_phase s0 = r_phase s ->
              r_high_vote s0 = r_high_vote s -> r_high_tqc s0 = r_high_tqc s ->
              opt_rel cqc_sim (r_high_cqc s0) (sp_high_cqc a0) -> core_sim s0 a0).
    { intros a0 A1 A2 A3 A4 s0 S1 S2 S3 S4 S5. unfold core_sim. rewrite S1, S2, S3, S4, A1, A2, A3, A4. tauto. }
    assert (Hspec : forall hc, let a1 := sp_set_high_cqc a hc in
              let a2 := (if existsb (fun p => (fst p =? hnum (cprop (qmsg q'))) && (snd p =? hpay (cprop (qmsg q')))) (sp_cached a1)
                         then if sp_next a1 =? hnum (cprop (qmsg q')) then sp_set_next a1 (hnum (cprop (qmsg q')) + 1) else a1 else a1) in
              sp_view a2 = sp_view a /\ sp_phase a2 = sp_phase a /\ sp_high_vote a2 = sp_high_vote a /\
              sp_high_tqc a2 = sp_high_tqc a /\ sp_high_cqc a2 = hc).
    { intros hc a1 a2. unfold a2. destruct (existsb _ _); [destruct (_ =? _)|]; cbn; tauto. }
    unfold sprocess_commit_qc, smax_cqc.
    destruct (r_high_cqc s) as [cur|] eqn:Ec; destruct (sp_high_cqc a) as [cur'|] eqn:Ec'; cbn [opt_rel] in Hc; try contradiction.
    - assert (Etest : (vnum (cview (qmsg cur')) <? vnum (cview (qmsg q'))) = (vnum (cview (qmsg cur)) <? vnum (cview (qmsg q)))).
      { unfold cqc_sim in Hc, Hq. rewrite Hc, Hq. reflexivity. }
      rewrite Etest.
      destruct (vnum (cview (qmsg cur)) <? vnum (cview (qmsg q))) eqn:En.
      + destruct (save_block_core (set_high_cqc s (Some q)) q) as (B1 & B2 & B3 & B4 & B5 & B6 & B7 & B8).
        split; [|split; [exact B6|split; [exact B7|exact B8]]].
        destruct (Hspec (Some q')) as (A1 & A2 & A3 & A4 & A5).
        apply Hcore; try assumption. rewrite B4, A5. cbn. exact Hq.
      + cbn [st_of hret fst snd effs res_of sent]. split; [|split; [reflexivity|split; intros; discriminate]].
        destruct (Hspec (Some cur')) as (A1 & A2 & A3 & A4 & A5).
        apply Hcore; try assumption; try reflexivity. rewrite Ec, A5. cbn. exact Hc.
    - destruct (save_block_core (set_high_cqc s (Some q)) q) as (B1 & B2 & B3 & B4 & B5 & B6 & B7 & B8).
      split; [|split; [exact B6|split; [exact B7|exact B8]]].
      destruct (Hspec (Some q')) as (A1 & A2 & A3 & A4 & A5).
      apply Hcore; try assumption. rewrite B4, A5. cbn. exact Hq.
  Qed.

  Lemma sprocess_none a : sprocess_commit_qc a None = a. Proof. reflexivity. Qed.

  (* ---- process_timeout_qc ---- *)
  Lemma high_qc_from_fst es : forall es' best, map fst es = map fst es' ->
    high_qc_from es best = high_qc_from es' best.
  Proof.
    induction es as [|[m s] es IH]; intros [|[m' s'] es'] best H; cbn [map fst] in H; try discriminate; [reflexivity|].
    inversion H; subst. cbn [high_qc_from]. destruct (thq m') as [q|]; [|apply IH; assumption].
    destruct best as [b|]; [destruct (_ <=? _)|]; apply IH; assumption.
  Qed.
  Lemma high_qc_sim t t' : tqc_sim t t' -> high_qc t = high_qc t'.
  Proof. intros [_ H]. apply high_qc_from_fst. exact H. Qed.

  Lemma process_timeout_qc_sim s a t t' s' es r : core_sim s a -> tqc_sim t t' ->
    process_timeout_qc cfg s t = (s', es, r) ->
    sent es = [] /\ (forall err, r = Err err -> err = RBlocked) /\ (forall p, r <> Panic p) /\
    (r = Ok tt -> core_sim s' (sprocess_justification a (JTimeout t'))).
  Proof.
    intros Hs Ht. unfold process_timeout_qc. cbn [sprocess_justification].
    rewrite <- (high_qc_sim t t' Ht).
    set (x := match high_qc t with Some q => process_commit_qc cfg s q | None => hret s tt end).
    assert (Hx : core_sim (st_of x) (sprocess_commit_qc a (high_qc t)) /\ sent (effs x) = [] /\
                 (forall err, res_of x = Err err -> err = RBlocked) /\ (forall p, res_of x <> Panic p)).
    { unfold x. destruct (high_qc t) as [q|].
      - apply process_commit_qc_sim; [exact Hs|reflexivity].
      - cbn. repeat split; try apply Hs; intros; discriminate. }
    destruct x as [[s1 es1] r1]. cbn [st_of res_of effs fst snd] in Hx. destruct Hx as (X1 & X2 & X3 & X4).
    unfold hbind. destruct r1 as [[]|err|p].
    - unfold hret. intros H; inversion H; subst. rewrite app_nil_r.
      split; [exact X2|]. split; [intros; discriminate|]. split; [intros; discriminate|]. intros _.
      destruct X1 as (Hv & Hp & Hhv & Hc & Htq). destruct Ht as [Ht1 Ht2].
      unfold smax_tqc.
      destruct (r_high_tqc s1) as [old|] eqn:Eo; destruct (sp_high_tqc (sprocess_commit_qc a (high_qc t))) as [old'|] eqn:Eo';
        cbn [opt_rel] in Htq; try contradiction.
      + destruct Htq as [Hq1 Hq2]. rewrite <- Hq1, <- Ht1.
        destruct (vnum (tqview old) <? vnum (tqview t)); repeat split; cbn; try assumption; try congruence;
          rewrite Eo; cbn; split; assumption.
      + repeat split; cbn; assumption.
    - intros H; inversion H; subst. split; [exact X2|]. split; [intros err' H'; inversion H'; subst; apply X3; reflexivity|].
      split; intros; discriminate.
    - exfalso. exact (X4 p eq_refl).
  Qed.

  Lemma process_justification_sim s a j s' es r : core_sim s a ->
    process_justification cfg s j = (s', es, r) ->
    sent es = [] /\ (forall err, r = Err err -> err = RBlocked) /\ (forall p, r <> Panic p) /\
    (r = Ok tt -> core_sim s' (sprocess_justification a j)).
  Proof.
    intros Hs. destruct j as [q|t]; cbn [process_justification].
    - intros H. destruct (process_commit_qc_sim s a q q Hs eq_refl) as (X1 & X2 & X3 & X4).
      rewrite H in X1, X2, X3, X4. cbn [st_of res_of effs fst snd] in *.
      split; [exact X2|]. split; [exact X3|]. split; [exact X4|]. intros _. exact X1.
    - apply process_timeout_qc_sim; [exact Hs|apply tqc_sim_refl].
  Qed.

  (* ---- get_justification / create_justification ---- *)
  Lemma get_justification_sim s a : core_sim s a -> held_views_ok s ->
    (exists j j', get_justification s = Ok j /\ screate_justification a = Some j' /\ just_sim j j') \/
    (get_justification s = Panic PAssert /\ screate_justification a = None).
  Proof.
    intros (_ & _ & _ & Hc & Ht) [V1 V2]. unfold get_justification, screate_justification.
    destruct (r_high_cqc s) as [q|]; destruct (sp_high_cqc a) as [q'|]; cbn [opt_rel] in Hc; try contradiction;
      destruct (r_high_tqc s) as [t|]; destruct (sp_high_tqc a) as [t'|]; cbn [opt_rel] in Ht; try contradiction;
      cbn [option_map view_cmp_ge sopt_ge].
    - specialize (V1 q eq_refl). specialize (V2 t eq_refl). destruct V1 as [G1 E1]. destruct V2 as [G2 E2].
      rewrite G1, G2, E1, E2, !Z.eqb_refl. unfold cqc_sim in Hc. destruct Ht as [Ht1 Ht2]. rewrite <- Hc, <- Ht1.
      left. destruct (_ <=? _); do 2 eexists; (split; [reflexivity|split; [reflexivity|]]); cbn; [exact Hc|split; assumption].
    - left. do 2 eexists. split; [reflexivity|split; [reflexivity|exact Hc]].
    - left. do 2 eexists. split; [reflexivity|split; [reflexivity|exact Ht]].
    - right. split; reflexivity.
  Qed.

  (* ---- start_new_view ---- *)
  Lemma start_new_view_sim s a v s' es r : core_sim s a -> held_views_ok s ->
    start_new_view cfg s v = (s', es, r) ->
    (r = Ok tt /\ exists a' ms, sstart_new_view a v = Some (a', ms) /\ core_sim s' a' /\ Forall2 msg_sim (sent es) ms) \/
    (r = Panic PAssert /\ sstart_new_view a v = None).
  Proof.
    intros Hs Hv. unfold start_new_view, sstart_new_view.
    set (s0 := set_phase (set_view s v) Prepare). set (a0 := sp_set_phase (sp_set_view a v) Prepare).
    assert (H0 : core_sim s0 a0).
    { destruct Hs as (A1 & A2 & A3 & A4 & A5). repeat split; cbn; assumption. }
    assert (Hv0 : held_views_ok s0) by exact Hv.
    destruct (get_justification_sim s0 a0 H0 Hv0) as [(j & j' & Hj & Hj' & Hsim)|[Hj Hj']]; rewrite Hj, Hj'.
    - intros H. left. unfold hbind, hemit, backup_state in H. cbn in H. inversion H; subst. split; [reflexivity|].
      do 2 eexists. split; [reflexivity|]. split.
      + assert (Hc0 : forall c0, core_sim (set_cache s0 c0) a0) by (intros c0; exact H0).
        destruct (r_high_cqc s); [apply Hc0|exact H0].
      + cbn. constructor; [exact Hsim|constructor].
    - intros H. right. inversion H; subst. split; reflexivity.
  Qed.

  (* ---- view arithmetic (overflow checks on) ---- *)
  Lemma justification_view_cases j :
    justification_view (E := unit) (cchk cfg) j = Ok (sjust_view j) \/
    justification_view (E := unit) (cchk cfg) j = Panic POverflow.
  Proof.
    rewrite Hchk. unfold justification_view, num_next, u64_add, sjust_view.
    destruct (_ <? U64); cbn [bind]; [left; reflexivity|right; reflexivity].
  Qed.
  Lemma num_next_cases v :
    num_next (E := unit) (cchk cfg) v = Ok (v + 1) \/ num_next (E := unit) (cchk cfg) v = Panic POverflow.
  Proof. rewrite Hchk. unfold num_next, u64_add. destruct (_ <? U64); [left|right]; reflexivity. Qed.
End Sim.

(* ================================================================== *)
(* 3. the statement                                                    *)

Definition impl_implied (cfg : config) (j : justification) : outcome unit (Z * option Z) :=
  get_implied_block (cchk cfg) (cC cfg) (cfirst cfg) j.
(* the two get_implied_block computations differ on this certificate (sub-quorum of high votes
   counted per block in the implementation, per vote in the specification) *)
Definition implied_differs (cfg : config) (j : justification) : Prop :=
  impl_implied cfg j <> Ok (simplied_block (cC cfg) (cfirst cfg) j).
Definition spec_block (cfg : config) (j : justification) : Z := fst (simplied_block (cC cfg) (cfirst cfg) j).

(* the documented refinements: the specification accepts the input, the implementation refuses
   it with error [err] *)
Inductive refinement (cfg : config) (s : rstate) : rinput -> rerr -> Prop :=
| ref_dup_commit m c v' :        (* duplicate-signer suppression by per-validator latest view *)
    m_msg m = MCommit c -> zmap_get (r_commit_views s) (m_key m) = Some v' -> vnum (cview c) <= v' ->
    refinement cfg s (IMsg m) RDuplicateSigner
| ref_dup_timeout m t v' :
    m_msg m = MTimeout t -> zmap_get (r_timeout_views s) (m_key m) = Some v' -> vnum (tview t) <= v' ->
    refinement cfg s (IMsg m) RDuplicateSigner
| ref_newview_nonleader m j :    (* only the leader's new-view for the current view is processed *)
    m_msg m = MNewView j -> vnum (sjust_view j) = r_view s -> m_key m <> cleader cfg (r_view s) ->
    refinement cfg s (IMsg m) ROld
| ref_pruned m p j :             (* proposals for pruned block numbers refused *)
    m_msg m = MProposal p j -> spec_block cfg j < r_store_first s ->
    refinement cfg s (IMsg m) RProposalAlreadyPruned
| ref_oversized m pl j :         (* payload size *)
    m_msg m = MProposal (Some pl) j -> cmaxpay cfg < cpsize cfg pl ->
    refinement cfg s (IMsg m) ROversizedPayload
| ref_prev_missing m pl j :      (* previous block not yet stored *)
    m_msg m = MProposal (Some pl) j -> 0 < spec_block cfg j -> r_store_next s <= spec_block cfg j - 1 ->
    refinement cfg s (IMsg m) RMissingPreviousPayload
| ref_before_epoch m pl j :      (* execution-layer verdict: block below the first block of the epoch *)
    m_msg m = MProposal (Some pl) j -> spec_block cfg j < cfirst cfg ->
    refinement cfg s (IMsg m) RInvalidPayload
| ref_store_gap i :              (* the block store has a gap below the certified block: the handler waits *)
    refinement cfg s i RBlocked
| ref_internal i :               (* ctx::Error::Internal (cancellation, storage failure): outside the specification *)
    refinement cfg s i RInternal
| ref_implied m p j err :        (* sub-quorum counted per block rather than per vote *)
    m_msg m = MProposal p j -> implied_differs cfg j ->
    refinement cfg s (IMsg m) err.

(* the other direction: the implementation accepts, the specification refuses *)
Inductive relaxation (cfg : config) (s : rstate) : rinput -> Prop :=
| rel_implied m p j :            (* sub-quorum counted per block rather than per vote *)
    m_msg m = MProposal p j -> implied_differs cfg j -> relaxation cfg s (IMsg m)
| rel_not_next m p j :           (* votes although the implied block is not its next uncommitted block *)
    m_msg m = MProposal p j -> spec_block cfg j <> r_store_next s -> relaxation cfg s (IMsg m).

Definition matches (cfg : config) (s : rstate) (i : rinput) (x : hres unit) (y : sres) : Prop :=
  match res_of x with
  | Ok _ => (exists a' ms, y = Some (a', ms) /\ core_sim (st_of x) a' /\ Forall2 msg_sim (sent (effs x)) ms)
            \/ relaxation cfg s i
  | Err err => y = None \/ refinement cfg s i err
  | Panic p => y = None \/ p = POverflow
  end.

Definition refines (cfg : config) (s : rstate) (i : rinput) : Prop :=
  let '(s', es, r) := rstep cfg s i in
  let '(a', ms, acc) := spec_step cfg (abs cfg s) i in
  match r with
  | Ok _ => (acc = true /\ core_sim s' a' /\ Forall2 msg_sim (sent es) ms) \/ relaxation cfg s i
  | Err err => acc = false \/ refinement cfg s i err
  | Panic p => acc = false \/ p = POverflow
  end.

Lemma matches_refines cfg s i :
  matches cfg s i (rstep cfg s i) (spec_handle cfg (abs cfg s) i) -> refines cfg s i.
Proof.
  unfold matches, refines, spec_step. destruct (rstep cfg s i) as [[s' es] r]. cbn [res_of st_of effs fst snd].
  destruct (spec_handle cfg (abs cfg s) i) as [[a' ms]|]; destruct r as [[]|err|p]; intros H.
  - destruct H as [(a2 & ms2 & Heq & H1 & H2)|H]; [|right; exact H]. inversion Heq; subst. left. auto.
  - destruct H as [H|H]; [discriminate|right; exact H].
  - destruct H as [H|H]; [discriminate|right; exact H].
  - destruct H as [(a2 & ms2 & Heq & _)|H]; [discriminate|right; exact H].
  - left; reflexivity.
  - left; reflexivity.
Qed.

(* ================================================================== *)
(* 4. timer, block sync, new-view                                      *)
Section Handlers.
  Variable cfg : config.
  Hypothesis Hchk : cchk cfg = true.

  Lemma timer_matches s : certs_ok cfg s -> matches cfg s ITimer (start_timeout cfg s) (son_timer cfg (abs cfg s)).
  Proof.
    intros Hc. unfold start_timeout, son_timer, matches.
    set (s0 := set_phase s PTimeout).
    assert (H0 : core_sim s0 (sp_set_phase (abs cfg s) PTimeout)).
    { destruct (core_sim_abs cfg s) as (A1 & A2 & A3 & A4 & A5). repeat split; assumption. }
    assert (Hv0 : held_views_ok cfg s0) by (apply certs_ok_views; exact Hc).
    unfold hbind, backup_state, hemit. cbn [fst snd sp_view sp_set_phase abs].
    change (r_view s0) with (r_view s).
    destruct (r_view s =? 0) eqn:E0.
    - cbn. left. do 2 eexists. split; [reflexivity|]. split; [exact H0|].
      constructor; [|constructor]. cbn. repeat split. apply opt_rel_refl, cqc_sim_refl.
    - destruct (get_justification_sim cfg s0 _ H0 Hv0) as [(j & j' & Hj & Hj' & Hsim)|[Hj Hj']]; rewrite Hj, Hj'.
      + cbn. left. do 2 eexists. split; [reflexivity|]. split; [exact H0|].
        constructor; [exact Hsim|]. constructor; [|constructor]. cbn. repeat split. apply opt_rel_refl, cqc_sim_refl.
      + cbn. left; reflexivity.
  Qed.

  Lemma sync_matches s n h :
    matches cfg s (ISync n h) (rstep cfg s (ISync n h)) (son_sync (abs cfg s) n).
  Proof.
    unfold matches, son_sync. cbn [rstep abs sp_next].
    destruct (r_store_next s =? n); cbn; left; do 2 eexists; (split; [reflexivity|]);
      (split; [|constructor]); destruct (core_sim_abs cfg s) as (A1 & A2 & A3 & A4 & A5); repeat split; assumption.
  Qed.

  (* shared by on_new_view and on_proposal *)
  Lemma sassert_false (k : sres) : sassert false k = None. Proof. reflexivity. Qed.
  Lemma sassert_true (k : sres) : sassert true k = k. Proof. reflexivity. Qed.

  Ltac mres := unfold matches, hfail, hret, hpanic, res_of, st_of, effs; cbn [fst snd].

  Lemma new_view_matches s m j : certs_ok cfg s -> m_msg m = MNewView j ->
    matches cfg s (IMsg m) (on_new_view cfg s (m_key m) (m_sig_ok m) j)
                           (son_new_view cfg (abs cfg s) (m_key m) (m_sig_ok m) j).
  Proof.
    intros Hc Hm. unfold on_new_view, son_new_view. cbv zeta.
    destruct (justification_view_cases cfg Hchk j) as [Ej|Ej]; rewrite Ej.
    2:{ mres. right; reflexivity. }
    cbn [lift hbind hret]. cbn [sp_view abs].
    set (v := vnum (sjust_view j)).
    destruct (v <? r_view s) eqn:E1.
    { replace (r_view s <=? v) with false by (symmetry; apply Z.leb_gt; apply Z.ltb_lt in E1; lia).
      cbn [orb]. mres. left. reflexivity. }
    cbn [orb]. destruct ((v =? r_view s) && negb (m_key m =? cleader cfg (r_view s))) eqn:E2.
    { mres. right. apply andb_true_iff in E2. destruct E2 as [E2 E3].
      apply Z.eqb_eq in E2. apply negb_true_iff, Z.eqb_neq in E3. eapply ref_newview_nonleader; eassumption. }
    replace (r_view s <=? v) with true by (symmetry; apply Z.leb_le; apply Z.ltb_ge in E1; lia).
    rewrite sassert_true. unfold sverify_sig.
    destruct (ccontains cfg (m_key m)) eqn:E3; cbn [negb].
    2:{ rewrite andb_false_r. mres. left. reflexivity. }
    destruct (m_sig_ok m) eqn:E4; cbn [negb andb].
    2:{ mres. left. reflexivity. }
    destruct (justification_verify (cg cfg) (ce cfg) (cC cfg) j) as [[]|err|p] eqn:E5; cbn [is_ok_tt].
    2:{ mres. left; reflexivity. }
    2:{ mres. left; reflexivity. }
    rewrite sassert_true.
    destruct (process_justification cfg s j) as [[s1 es1] r1] eqn:Ep.
    destruct (process_justification_sim cfg s (abs cfg s) j s1 es1 r1 (core_sim_abs cfg s) Ep) as (P1 & P2 & P3 & P4).
    pose proof (process_justification_good cfg s j Hc E5) as [Hc1 _]. rewrite Ep in Hc1. cbn in Hc1.
    unfold hbind. destruct r1 as [[]|err|p].
    - specialize (P4 eq_refl). set (a1 := sprocess_justification (abs cfg s) j) in *.
      assert (Ev : sp_view a1 = r_view s1) by (symmetry; apply P4). rewrite Ev.
      destruct (r_view s1 <? v) eqn:E6.
      + destruct (start_new_view cfg s1 v) as [[s2 es2] r2] eqn:Es.
        destruct (start_new_view_sim cfg s1 a1 v s2 es2 r2 P4 (certs_ok_views cfg s1 Hc1) Es)
          as [(-> & a' & ms & Ha & Hcs & Hms)|(-> & Ha)]; rewrite Ha; mres.
        * left. do 2 eexists. split; [reflexivity|]. split; [exact Hcs|]. cbn [app]. rewrite sent_app, P1. exact Hms.
        * left; reflexivity.
      + mres. left. do 2 eexists. split; [reflexivity|]. split; [exact P4|].
        cbn [app]. rewrite app_nil_r, P1. constructor.
    - mres. right. rewrite (P2 err eq_refl). apply ref_store_gap.
    - exfalso. exact (P3 p eq_refl).
  Qed.

  (* ---------------- on_proposal ---------------- *)
  Lemma old_cond v rv pe :
    ((v =? rv) && pe) || (rv <? v) = negb ((v <? rv) || ((v =? rv) && negb pe)).
  Proof.
    destruct (v <? rv) eqn:E1; destruct (v =? rv) eqn:E2; destruct (rv <? v) eqn:E3; destruct pe; cbn; try reflexivity;
      try apply Z.ltb_lt in E1; try apply Z.ltb_ge in E1; try apply Z.eqb_eq in E2; try apply Z.eqb_neq in E2;
      try apply Z.ltb_lt in E3; try apply Z.ltb_ge in E3; lia.
  Qed.

  Lemma implied_cases j : justification_verify (cg cfg) (ce cfg) (cC cfg) j = Ok tt ->
    (exists r, impl_implied cfg j = Ok r) \/ impl_implied cfg j = Panic POverflow.
  Proof.
    intros Hv. apply justification_verify_iff in Hv. unfold impl_implied. destruct j as [q|t]; cbn [get_implied_block].
    - destruct (num_next_cases cfg Hchk (hnum (cprop (qmsg q)))) as [E|E]; rewrite E; cbn [bind]; eauto.
    - apply tqc_verify_iff in Hv. destruct Hv as (_ & Hall & _).
      assert (Hlen : Forall (fun en => length (snd en) = length (cC cfg)) (tqmap t)).
      { eapply Forall_impl; [|exact Hall]. intros en (_ & Hl & _). exact Hl. }
      unfold high_vote. destruct (high_vote_count_ok unit (cC cfg) (tqmap t) Hlen []) as (cnt & Hcnt). rewrite Hcnt. cbn [bind].
      assert (Hq : forall q, (exists r, (let* n := num_next (E := unit) (cchk cfg) (hnum (cprop (qmsg q))) in Ok (n, @None Z)) = Ok r) \/
                              (let* n := num_next (E := unit) (cchk cfg) (hnum (cprop (qmsg q))) in Ok (n, @None Z)) = Panic POverflow).
      { intros q. destruct (num_next_cases cfg Hchk (hnum (cprop (qmsg q)))) as [E|E]; rewrite E; cbn [bind]; eauto. }
      destruct (filter _ cnt) as [|x [|y l]]; cbn [bind];
        destruct (high_qc t) as [q|]; try destruct (_ <? _); eauto.
  Qed.

  (* the common end of on_proposal: record the vote, process the justification, persist, send *)
  Lemma proposal_tail s0 a0 vote j : core_sim s0 a0 ->
    let x := hbind (process_justification cfg s0 j) (fun s _ =>
             hbind (backup_state cfg s) (fun s _ => hemit s (ESend (MCommit vote)))) in
    match res_of x with
    | Ok _ => core_sim (st_of x) (sprocess_justification a0 j) /\ sent (effs x) = [MCommit vote]
    | Err err => err = RBlocked
    | Panic _ => False
    end.
  Proof.
    intros H0. destruct (process_justification cfg s0 j) as [[s1 es1] r1] eqn:Ep.
    destruct (process_justification_sim cfg s0 a0 j s1 es1 r1 H0 Ep) as (P1 & P2 & P3 & P4).
    unfold hbind, backup_state, hemit. destruct r1 as [[]|err|p]; cbn [res_of st_of effs fst snd].
    - split; [exact (P4 eq_refl)|]. rewrite sent_app, P1. reflexivity.
    - exact (P2 err eq_refl).
    - exact (P3 p eq_refl).
  Qed.

  Lemma pair_dec (x y : Z * option Z) : {x = y} + {x <> y}.
  Proof. decide equality; [decide equality; apply Z.eq_dec|apply Z.eq_dec]. Qed.

  Lemma matches_bind_ret {A} s i s0 (a : A) (f : rstate -> A -> hres unit) y :
    matches cfg s i (f s0 a) y -> matches cfg s i (hbind (hret s0 a) f) y.
  Proof. unfold hbind, hret. destruct (f s0 a) as [[s2 es2] r2]. exact (fun H => H). Qed.
  Lemma hbind_fail {A B} s0 err (f : rstate -> A -> hres B) : hbind (hfail s0 err) f = hfail s0 err.
  Proof. reflexivity. Qed.
  Lemma hbind_panic {A B} s0 p (f : rstate -> A -> hres B) : hbind (hpanic s0 p) f = hpanic s0 p.
  Proof. reflexivity. Qed.

  Lemma proposal_matches s m payload j : m_msg m = MProposal payload j ->
    matches cfg s (IMsg m) (on_proposal cfg s (m_key m) (m_sig_ok m) payload j)
                           (son_proposal cfg (abs cfg s) (m_key m) (m_sig_ok m) payload j).
  Proof.
    intros Hm. unfold on_proposal, son_proposal. cbv zeta.
    destruct (justification_view_cases cfg Hchk j) as [Ej|Ej]; rewrite Ej; cbn [lift].
    2:{ rewrite hbind_panic. mres. right; reflexivity. }
    apply matches_bind_ret. cbn [sp_view sp_phase abs].
    set (pv := sjust_view j). set (v := vnum pv).
    rewrite old_cond.
    destruct ((v <? r_view s) || ((v =? r_view s) && negb (phase_eqb (r_phase s) Prepare))); cbn [negb].
    { mres. left; reflexivity. }
    rewrite sassert_true.
    destruct (m_key m =? cleader cfg v); cbn [negb]; [|mres; left; reflexivity].
    rewrite sassert_true.
    destruct (m_sig_ok m); cbn [negb andb]; [|mres; left; reflexivity].
    destruct (justification_verify (cg cfg) (ce cfg) (cC cfg) j) as [[]|err|p] eqn:E5; cbn [is_ok_tt];
      [|mres; left; reflexivity|mres; left; reflexivity].
    rewrite sassert_true.
    fold (impl_implied cfg j).
    destruct (implied_cases j E5) as [[[n oh] Ei]|Ei]; rewrite Ei; cbn [lift].
    2:{ rewrite hbind_panic. mres. right; reflexivity. }
    apply matches_bind_ret.
    destruct (pair_dec (n, oh) (simplied_block (cC cfg) (cfirst cfg) j)) as [Eq|Hne].
    2:{ (* the two implied-block computations differ *)
      assert (Hd : implied_differs cfg j) by (unfold implied_differs; rewrite Ei; intros H; inversion H; congruence).
      assert (Hd1 : forall err, refinement cfg s (IMsg m) err) by (intros err; eapply ref_implied; eassumption).
      assert (Hd2 : relaxation cfg s (IMsg m)) by (eapply rel_implied; eassumption).
      assert (Htail : forall s0 vote (y : sres), matches cfg s (IMsg m)
                (hbind (process_justification cfg s0 j) (fun s1 _ =>
                    hbind (backup_state cfg s1) (fun s3 _ => hemit s3 (ESend (MCommit vote))))) y).
      { intros s0 vote y. pose proof (proposal_tail s0 (abs cfg s0) vote j (core_sim_abs cfg s0)) as Ht. cbv zeta in Ht.
        destruct (hbind _ _) as [[s2 es2] r2]. mres. cbn [res_of snd] in Ht.
        destruct r2 as [[]|err|p]; [right; exact Hd2|right; apply Hd1|contradiction]. }
      destruct (n <? r_store_first s); [mres; right; apply Hd1|].
      destruct oh as [h|]; destruct payload as [pl|]; rewrite ?hbind_fail; try (mres; right; apply Hd1).
      - apply matches_bind_ret. apply Htail.
      - destruct (cmaxpay cfg <? cpsize cfg pl); [rewrite hbind_fail; mres; right; apply Hd1|].
        destruct ((0 <? n) && negb (n - 1 <? r_store_next s)); [rewrite hbind_fail; mres; right; apply Hd1|].
        destruct (negb ((cfirst cfg <=? n) && cpok cfg n pl)); [rewrite hbind_fail; mres; right; apply Hd1|].
        apply matches_bind_ret. apply Htail. }
    rewrite <- Eq.
    assert (Esb : spec_block cfg j = n) by (unfold spec_block; rewrite <- Eq; reflexivity).
    destruct (n <? r_store_first s) eqn:E6.
    { mres. right. eapply ref_pruned; [eassumption|]. rewrite Esb. apply Z.ltb_lt; exact E6. }
    cbn [sp_next abs].
    (* the vote tail, once the block number is the next one *)
    assert (Htail : forall s0 a0 h, core_sim s0 a0 ->
              matches cfg s (IMsg m)
                (hbind (process_justification cfg
                       (set_high_vote (set_phase (set_view s0 v) PCommit) (Some {| cview := pv; cprop := {| hnum := n; hpay := h |} |})) j)
                     (fun s1 _ => hbind (backup_state cfg s1) (fun s3 _ =>
                        hemit s3 (ESend (MCommit {| cview := pv; cprop := {| hnum := n; hpay := h |} |})))))
                (sassert (n =? r_store_next s)
                   (Some (sprocess_justification
                            (sp_set_high_vote (sp_set_phase (sp_set_view a0 v) PCommit)
                               (Some {| cview := pv; cprop := {| hnum := n; hpay := h |} |})) j,
                          [MCommit {| cview := pv; cprop := {| hnum := n; hpay := h |} |}])))).
    { intros s0 a0 h H0.
      set (vote := {| cview := pv; cprop := {| hnum := n; hpay := h |} |}).
      set (s1 := set_high_vote (set_phase (set_view s0 v) PCommit) (Some vote)).
      set (a1 := sp_set_high_vote (sp_set_phase (sp_set_view a0 v) PCommit) (Some vote)).
      assert (H1 : core_sim s1 a1).
      { destruct H0 as (A1 & A2 & A3 & A4 & A5). repeat split; cbn; assumption. }
      pose proof (proposal_tail s1 a1 vote j H1) as Ht. cbv zeta in Ht.
      destruct (hbind _ _) as [[s2 es2] r2]. mres. cbn [res_of st_of effs fst snd] in Ht.
      destruct r2 as [[]|err|p]; [|right; rewrite Ht; apply ref_store_gap|contradiction].
      destruct (n =? r_store_next s) eqn:E7.
      - left. do 2 eexists. split; [reflexivity|]. destruct Ht as [Ht1 Ht2]. split; [exact Ht1|].
        rewrite Ht2. constructor; [reflexivity|constructor].
      - right. eapply rel_not_next; [eassumption|]. rewrite Esb. apply Z.eqb_neq; exact E7. }
    destruct oh as [h|]; destruct payload as [pl|]; rewrite ?hbind_fail.
    - mres. left. destruct (n =? r_store_next s); reflexivity.
    - apply matches_bind_ret. apply (Htail s (abs cfg s) h (core_sim_abs cfg s)).
    - destruct (cmaxpay cfg <? cpsize cfg pl) eqn:E8.
      { rewrite hbind_fail. mres. right. eapply ref_oversized; [eassumption|]. apply Z.ltb_lt; exact E8. }
      destruct ((0 <? n) && negb (n - 1 <? r_store_next s)) eqn:E9.
      { rewrite hbind_fail. mres. right. apply andb_true_iff in E9. destruct E9 as [E9 E10].
        apply Z.ltb_lt in E9. apply negb_true_iff, Z.ltb_ge in E10.
        eapply ref_prev_missing; [eassumption|rewrite Esb; lia|rewrite Esb; lia]. }
      destruct (cpok cfg n pl) eqn:E11.
      + destruct (cfirst cfg <=? n) eqn:E12; cbn [andb negb].
        * apply matches_bind_ret.
          apply (Htail (set_cache s (cache_insert (r_cache s) n pl))
                       (sp_set_cached (abs cfg s) ((n, pl) :: sp_cached (abs cfg s))) pl).
          destruct (core_sim_abs cfg s) as (A1 & A2 & A3 & A4 & A5). repeat split; assumption.
        * rewrite hbind_fail. mres. right. eapply ref_before_epoch; [eassumption|]. rewrite Esb. apply Z.leb_gt; exact E12.
      + rewrite andb_false_r. cbn [negb]. rewrite hbind_fail. mres. left. destruct (n =? r_store_next s); reflexivity.
    - mres. left. destruct (n =? r_store_next s); reflexivity.
  Qed.
End Handlers.

(* ================================================================== *)
(* 5. votes: the store recovered from the caches                       *)
Section Votes.
  Variable cfg : config.
  Let C := cC cfg.

  (* ---- signer bitmaps of sets of senders ---- *)
  Definition vb_step (b : list bool) (k : Z) : list bool :=
    match cindex C k with Some i => bv_set b i | None => b end.

  Lemma vb_len keys : forall b, length (fold_left vb_step keys b) = length b.
  Proof.
    induction keys as [|k keys IH]; intros b; cbn [fold_left]; [reflexivity|].
    rewrite IH. unfold vb_step. destruct (cindex C k); [apply bv_set_length|reflexivity].
  Qed.

  Lemma vb_bit keys : forall b j, length b = length C ->
    (bit (fold_left vb_step keys b) j = true <-> bit b j = true \/ exists k, In k keys /\ cindex C k = Some j).
  Proof.
    induction keys as [|k keys IH]; intros b j Hl; cbn [fold_left].
    - split; [auto|]. intros [H|(k & [] & _)]; exact H.
    - rewrite IH.
      2:{ unfold vb_step. destruct (cindex C k); [rewrite bv_set_length|]; exact Hl. }
      unfold vb_step. destruct (cindex C k) as [i|] eqn:Ei.
      + pose proof (cindex_lt _ _ _ Ei) as Hlt. split.
        * intros [H|(k' & Hin & Hk')].
          -- destruct (Nat.eq_dec i j) as [->|Hne].
             ++ right. exists k. split; [left; reflexivity|exact Ei].
             ++ rewrite bit_set_other in H by exact Hne. left; exact H.
          -- right. exists k'. split; [right; exact Hin|exact Hk'].
        * intros [H|(k' & [<-|Hin] & Hk')].
          -- left. destruct (Nat.eq_dec i j) as [->|Hne]; [apply bit_set_same; lia|rewrite bit_set_other by exact Hne; exact H].
          -- left. rewrite Ei in Hk'. inversion Hk'; subst. apply bit_set_same. lia.
          -- right. exists k'. auto.
      + split.
        * intros [H|(k' & Hin & Hk')]; [left; exact H|right; exists k'; split; [right; exact Hin|exact Hk']].
        * intros [H|(k' & [<-|Hin] & Hk')]; [left; exact H|congruence|right; exists k'; auto].
  Qed.

  Lemma bits_ext (a b : list bool) : length a = length b -> (forall j, bit a j = bit b j) -> a = b.
  Proof. intros Hl H. apply (nth_ext a b false false Hl). intros n _. apply H. Qed.

  Lemma sel_in : forall (C0 : committee) sg k,
    In k (selected_keys C0 sg) <-> exists i m, nth_error C0 i = Some m /\ bit sg i = true /\ mkey m = k.
  Proof.
    induction C0 as [|m0 C0 IH]; intros sg k; cbn [selected_keys].
    - split; [intros []|]. intros (i & m & H & _). destruct i; discriminate.
    - destruct sg as [|b sg].
      + split; [intros []|]. intros (i & m & _ & H & _). unfold bit in H. destruct i; discriminate.
      + assert (Hrest : In k (selected_keys C0 sg) <->
                  exists i m, nth_error (m0 :: C0) (S i) = Some m /\ bit (b :: sg) (S i) = true /\ mkey m = k).
        { rewrite IH. reflexivity. }
        destruct b.
        * cbn [In]. rewrite Hrest. split.
          -- intros [<-|(i & m & H)]; [exists 0%nat, m0; repeat split|exists (S i), m; exact H].
          -- intros ([|i] & m & H1 & H2 & H3); [left; cbn in H1; inversion H1; subst m0; exact H3|right; exists i, m; auto].
        * rewrite Hrest. split.
          -- intros (i & m & H). exists (S i), m. exact H.
          -- intros ([|i] & m & H1 & H2 & H3); [discriminate|exists i, m; auto].
  Qed.

  (* a bitmap whose set bits are all positions of committee keys (true of every bitmap in the caches) *)
  Definition wf_bits (sg : list bool) : Prop := forall i, bit sg i = true -> exists k, cindex C k = Some i.

  Lemma sel_cindex sg k : wf_bits sg -> In k (selected_keys C sg) ->
    exists i, cindex C k = Some i /\ bit sg i = true.
  Proof.
    intros Hwf Hin. apply sel_in in Hin. destruct Hin as (i & m & Hm & Hb & Hk).
    destruct (Hwf i Hb) as (k' & Hk'). pose proof (cindex_spec _ _ _ Hk') as (m' & Hm' & Hkm).
    assert (m' = m) by congruence. subst m'. exists i. split; [congruence|exact Hb].
  Qed.
  Lemma bit_sel sg j : wf_bits sg -> bit sg j = true -> exists k, In k (selected_keys C sg) /\ cindex C k = Some j.
  Proof.
    intros Hwf Hb. destruct (Hwf j Hb) as (k & Hk). pose proof (cindex_spec _ _ _ Hk) as (m & Hm & Hkm).
    exists k. split; [|exact Hk]. apply sel_in. exists j, m. auto.
  Qed.

  Lemma owned_wf views v bms sg : fam_ok C views v bms -> In sg bms -> wf_bits sg.
  Proof. intros (_ & _ & H3) Hin i Hb. destruct (H3 sg i Hin Hb) as (k & _ & Hk & _). exists k; exact Hk. Qed.

  Lemma bool_iff (x y : bool) : (x = true <-> y = true) -> x = y.
  Proof. destruct x, y; intros [H1 H2]; try reflexivity; [symmetry; apply H1|apply H2]; reflexivity. Qed.

  (* ---- association lists under their invariants ---- *)
  Lemma zmap_in_get {A} (m : list (Z * A)) k a : zsorted m -> In (k, a) m -> zmap_get m k = Some a.
  Proof.
    unfold zsorted. induction m as [|[k1 a1] m IH]; intros Hs Hin; [destruct Hin|].
    inversion Hs as [|x l Hs' Hall]; subst. cbn [zmap_get]. destruct Hin as [Heq|Hin].
    - inversion Heq; subst. rewrite Z.eqb_refl. reflexivity.
    - rewrite Forall_forall in Hall. specialize (Hall _ Hin). cbn [fst] in Hall.
      replace (k1 =? k) with false by (symmetry; apply Z.eqb_neq; lia). apply IH; assumption.
  Qed.
  Lemma cmap_in_get b c q : NoDup (map fst b) -> In (c, q) b -> cmap_get b c = Some q.
  Proof.
    induction b as [|[c1 q1] b IH]; intros Hnd Hin; [destruct Hin|].
    cbn [map fst] in Hnd. inversion Hnd as [|x l Hnin Hnd']; subst. cbn [cmap_get]. destruct Hin as [Heq|Hin].
    - inversion Heq; subst. rewrite commit_eqb_refl. reflexivity.
    - destruct (commit_eqb c1 c) eqn:E; [|apply IH; assumption].
      apply commit_eqb_spec in E; subst c1. exfalso. apply Hnin. apply in_map_iff. exists (c, q). auto.
  Qed.

  (* ---- the commit store ---- *)
  Lemma in_abs_commits qcs k c : In (k, c) (abs_commits C qcs) <->
    exists v b q, In (v, b) qcs /\ In (c, q) b /\ In k (selected_keys C (qsigners q)).
  Proof.
    unfold abs_commits. rewrite in_flat_map. split.
    - intros ([v b] & Hvb & H). cbn [snd] in H. apply in_flat_map in H. destruct H as ([c' q] & Hcq & H).
      cbn [fst snd] in H. apply in_map_iff in H. destruct H as (k' & Heq & Hk). inversion Heq; subst.
      exists v, b, q. auto.
    - intros (v & b & q & Hvb & Hcq & Hk). exists (v, b). split; [exact Hvb|]. cbn [snd].
      apply in_flat_map. exists (c, q). split; [exact Hcq|]. cbn [fst snd]. apply in_map_iff. exists k. auto.
  Qed.

  Lemma commit_not_stored s key c i0 : cache_inv cfg s -> cindex C key = Some i0 ->
    fresh (r_commit_views s) key (vnum (cview c)) ->
    sstored_commit (abs cfg s) key (vnum (cview c)) = false.
  Proof.
    intros [(_ & _ & _ & Hall) _] Hk Hfr. unfold sstored_commit. cbn [abs sp_commits].
    destruct (existsb _ _) eqn:E; [|reflexivity]. exfalso.
    apply existsb_exists in E. destruct E as ([k c'] & Hin & Hc). cbn [fst snd] in Hc.
    apply andb_true_iff in Hc. destruct Hc as [Hc1 Hc2]. apply Z.eqb_eq in Hc1, Hc2. subst k.
    apply in_abs_commits in Hin. destruct Hin as (v & b & q & Hvb & Hcq & Hsel).
    destruct (Hall _ Hvb) as (Hm & Hf & _). cbn [fst snd] in Hm, Hf.
    destruct (Hm _ _ Hcq) as (_ & _ & _ & Hv). subst v.
    assert (Hinb : In (qsigners q) (cbms b)) by (unfold cbms; apply in_map_iff; exists (c', q); auto).
    destruct (sel_cindex _ _ (owned_wf _ _ _ _ Hf Hinb) Hsel) as (i & Hi & Hb).
    destruct Hf as (_ & _ & H3). destruct (H3 _ i Hinb Hb) as (k' & v'' & Hk' & Hg & Hle).
    assert (k' = key) by (eapply cindex_inj; eassumption). subst k'.
    unfold fresh in Hfr. rewrite Hg in Hfr. apply Z.leb_gt in Hfr. lia.
  Qed.

  (* the senders of the stored votes identical to [c], plus the new sender, as a bitmap: exactly
     the bitmap of the certificate under construction after CommitQC::add *)
  Lemma commit_group_bitmap s key c i0 : cache_inv cfg s -> cindex C key = Some i0 ->
    fresh (r_commit_views s) key (vnum (cview c)) ->
    let q0 := q0_of C (bucket_of (r_commit_qcs s) (vnum (cview c))) c in
    voters_bitmap cfg (map fst (filter (fun kc => commit_eqb (snd kc) c) (abs_commits C (r_commit_qcs s) ++ [(key, c)])))
    = bv_set (qsigners q0) i0.
  Proof.
    intros Hinv Hk Hfr q0. pose proof Hinv as [Hc _]. pose proof Hc as (_ & Hsort & _ & Hall).
    set (v := vnum (cview c)) in *.
    pose proof (bucket_of_ok _ _ _ _ _ v Hc) as Hbok.
    pose proof (q0_facts _ _ C (r_commit_views s) v _ c key i0 Hbok Hk Hfr) as (Hq0m & [Hq0l _] & Hq0n). fold q0 in Hq0m, Hq0l, Hq0n.
    pose proof (cindex_lt _ _ _ Hk) as Hlt.
    unfold voters_bitmap. fold C. change (fun b k => match cindex C k with Some i => bv_set b i | None => b end) with vb_step.
    apply bits_ext; [rewrite vb_len, bv_new_length, bv_set_length; symmetry; exact Hq0l|].
    intros j. apply bool_iff. rewrite vb_bit by apply bv_new_length. rewrite bit_bv_new.
    (* membership in the group *)
    assert (Hgrp : forall k, In k (map fst (filter (fun kc => commit_eqb (snd kc) c) (abs_commits C (r_commit_qcs s) ++ [(key, c)])))
                      <-> k = key \/ In (k, c) (abs_commits C (r_commit_qcs s))).
    { intros k. rewrite in_map_iff. split.
      - intros ([k' c'] & Heq & Hin). cbn [fst] in Heq. subst k'. apply filter_In in Hin. destruct Hin as [Hin Hc'].
        cbn [snd] in Hc'. apply commit_eqb_spec in Hc'. subst c'. apply in_app_iff in Hin.
        destruct Hin as [Hin|[Heq|[]]]; [right; exact Hin|left; inversion Heq; reflexivity].
      - intros [->|Hin]; exists (k, c) || exists (key, c); (split; [reflexivity|]); apply filter_In; cbn [snd];
          (split; [apply in_app_iff|apply commit_eqb_refl]); [right; left; reflexivity|left; exact Hin]. }
    (* the stored votes identical to c are those of the certificate found under c *)
    assert (Hent : forall k, In (k, c) (abs_commits C (r_commit_qcs s)) ->
              exists i, cindex C k = Some i /\ bit (qsigners q0) i = true).
    { intros k Hin. apply in_abs_commits in Hin. destruct Hin as (v' & b & q & Hvb & Hcq & Hsel).
      destruct (Hall _ Hvb) as (Hm & Hf & Hnd). cbn [fst snd] in Hm, Hf, Hnd.
      destruct (Hm _ _ Hcq) as (_ & _ & _ & Hv). fold v in Hv. subst v'.
      assert (Hq : q0 = q).
      { unfold q0, q0_of, bucket_of. rewrite (zmap_in_get _ _ _ Hsort Hvb), (cmap_in_get _ _ _ Hnd Hcq). reflexivity. }
      rewrite Hq. apply sel_cindex; [|exact Hsel].
      eapply owned_wf; [exact Hf|]. unfold cbms. apply in_map_iff. exists (c, q). auto. }
    assert (Hent' : forall j', bit (qsigners q0) j' = true -> exists k, In (k, c) (abs_commits C (r_commit_qcs s)) /\ cindex C k = Some j').
    { intros j' Hb. unfold q0, q0_of, bucket_of in Hb.
      destruct (zmap_get (r_commit_qcs s) v) as [b|] eqn:Eb.
      2:{ cbn [cmap_get] in Hb. unfold cqc_new in Hb; cbn [qsigners] in Hb. rewrite bit_bv_new in Hb. discriminate. }
      destruct (cmap_get b c) as [q|] eqn:Eq.
      2:{ unfold cqc_new in Hb; cbn [qsigners] in Hb. rewrite bit_bv_new in Hb. discriminate. }
      apply zmap_get_in in Eb. apply cmap_get_in in Eq.
      destruct (Hall _ Eb) as (_ & Hf & _). cbn [fst snd] in Hf.
      assert (Hinb : In (qsigners q) (cbms b)) by (unfold cbms; apply in_map_iff; exists (c, q); auto).
      destruct (bit_sel _ _ (owned_wf _ _ _ _ Hf Hinb) Hb) as (k & Hsel & Hkj).
      exists k. split; [|exact Hkj]. apply in_abs_commits. exists v, b, q. auto. }
    destruct (Nat.eq_dec j i0) as [->|Hne].
    - rewrite bit_set_same by lia. split; [reflexivity|]. intros _. right. exists key. split; [apply Hgrp; left; reflexivity|exact Hk].
    - rewrite bit_set_other by congruence. split.
      + intros [H|(k & Hin & Hkj)]; [discriminate|]. apply Hgrp in Hin. destruct Hin as [->|Hin]; [congruence|].
        destruct (Hent k Hin) as (i & Hi & Hb). congruence.
      + intros Hb. right. destruct (Hent' j Hb) as (k & Hin & Hkj). exists k. split; [apply Hgrp; right; exact Hin|exact Hkj].
  Qed.
End Votes.

(* ================================================================== *)
(* 6. on_commit                                                        *)
Section Commit.
  Variable cfg : config.
  Hypothesis Hchk : cchk cfg = true.
  Ltac mres := unfold matches, hfail, hret, hpanic, res_of, st_of, effs; cbn [fst snd].

  (* the end shared by on_commit and on_timeout: start_new_view(view.next()) *)
  Lemma next_view_tail (s : rstate) (i : rinput) s3 es3 r3 a3 v : certs_ok cfg s3 ->
    sent es3 = [] -> (forall err, r3 = Err err -> err = RBlocked) -> (forall p, r3 <> Panic p) ->
    (r3 = Ok tt -> core_sim s3 a3) ->
    matches cfg s i
      (hbind (s3, es3, r3) (fun s1 _ => hbind (lift s1 (num_next (cchk cfg) v)) (fun s2 nv => start_new_view cfg s2 nv)))
      (sstart_new_view a3 (v + 1)).
  Proof.
    intros Hc3 X2 X3 X4 X1. unfold hbind at 1. destruct r3 as [[]|err|p].
    - specialize (X1 eq_refl).
      destruct (num_next_cases cfg Hchk v) as [En|En]; rewrite En; cbn [lift].
      2:{ rewrite hbind_panic. mres. right; reflexivity. }
      unfold hbind, hret.
      destruct (start_new_view cfg s3 (v + 1)) as [[s4 es4] r4] eqn:Es.
      destruct (start_new_view_sim cfg s3 a3 (v + 1) s4 es4 r4 X1 (certs_ok_views cfg s3 Hc3) Es)
        as [(-> & a' & ms & Ha & Hcs & Hms)|(-> & Ha)]; rewrite Ha; mres.
      + left. do 2 eexists. split; [reflexivity|]. split; [exact Hcs|]. cbn [app]. rewrite sent_app, X2. exact Hms.
      + left; reflexivity.
    - mres. right. rewrite (X3 err eq_refl). apply ref_store_gap.
    - exfalso. exact (X4 p eq_refl).
  Qed.

  Lemma commit_matches s m c : cache_inv cfg s -> certs_ok cfg s -> m_msg m = MCommit c ->
    matches cfg s (IMsg m) (on_commit cfg s (m_key m) (m_sig_ok m) c)
                           (son_commit cfg (abs cfg s) (m_key m) (m_sig_ok m) c).
  Proof.
    intros Hinv Hc Hm. unfold son_commit. cbv zeta. cbn [sp_view abs].
    set (key := m_key m). set (v := vnum (cview c)).
    destruct (cindex (cC cfg) key) as [i0|] eqn:Hk.
    2:{ unfold on_commit, ccontains, sverify_sig, ccontains. rewrite Hk. cbn [negb]. mres. left.
        rewrite andb_false_r. destruct (_ <=? _); reflexivity. }
    destruct (v <? r_view s) eqn:Hold.
    { unfold on_commit, ccontains. cbv zeta. rewrite Hk. cbn [negb]. fold v. rewrite Hold. mres. left.
      replace (r_view s <=? v) with false by (symmetry; apply Z.leb_gt; apply Z.ltb_lt in Hold; lia). reflexivity. }
    destruct (match zmap_get (r_commit_views s) key with Some v' => v <=? v' | None => false end) eqn:Efresh.
    { unfold on_commit, ccontains. cbv zeta. rewrite Hk. cbn [negb]. fold v. rewrite Hold, Efresh. mres. right.
      destruct (zmap_get (r_commit_views s) key) as [v'|] eqn:Eg; [|discriminate].
      eapply ref_dup_commit; [eassumption|exact Eg|apply Z.leb_le; exact Efresh]. }
    destruct (m_sig_ok m) eqn:Esig.
    2:{ unfold on_commit, ccontains, sverify_sig. cbv zeta. rewrite Hk. cbn [negb]. fold v. rewrite Hold, Efresh. mres. left.
        cbn [andb]. destruct (_ <=? _); reflexivity. }
    destruct (commit_verify (cg cfg) (ce cfg) c) as [[]|err|p] eqn:Ev.
    2:{ unfold on_commit, ccontains. cbv zeta. rewrite Hk. cbn [negb]. fold v. rewrite Hold, Efresh, Ev. mres. left.
        cbn [is_ok_tt]. rewrite andb_false_r. destruct (_ <=? _); reflexivity. }
    2:{ unfold on_commit, ccontains. cbv zeta. rewrite Hk. cbn [negb]. fold v. rewrite Hold, Efresh, Ev. mres. left.
        cbn [is_ok_tt]. rewrite andb_false_r. destruct (_ <=? _); reflexivity. }
    (* the handler's checks have passed *)
    rewrite (on_commit_eq cfg s key c i0 Hinv Hk Hold Efresh Ev). unfold on_commit_accept. cbv zeta. fold v.
    replace (r_view s <=? v) with true by (symmetry; apply Z.leb_le; apply Z.ltb_ge in Hold; lia).
    unfold sverify_sig, ccontains. rewrite Hk. cbn [andb is_ok_tt]. rewrite !sassert_true.
    pose proof (commit_not_stored cfg s key c i0 Hinv Hk Efresh) as Hns. fold v in Hns. rewrite Hns.
    cbn [negb]. rewrite sassert_true.
    unfold sget_commit_qc. cbn [sp_commits sp_set_commits abs].
    pose proof (commit_group_bitmap cfg s key c i0 Hinv Hk Efresh) as Hgb. cbv zeta in Hgb. fold v in Hgb. rewrite Hgb.
    set (q0 := q0_of (cC cfg) (bucket_of (r_commit_qcs s) v) c).
    cbn [cupd qsigners].
    destruct (core_sim_abs cfg s) as (A1 & A2 & A3 & A4 & A5).
    destruct (weight (cweights (cC cfg)) (bv_set (qsigners q0) i0) <? quorum (cC cfg)) eqn:Ew.
    - mres. left. do 2 eexists. split; [reflexivity|]. split; [repeat split; assumption|constructor].
    - set (q := cupd key c i0 q0).
      set (qc := {| qmsg := c; qsigners := bv_set (qsigners q0) i0; qagg := _ |}).
      set (s2 := set_commit_caches s _ _). set (a2 := sp_set_commits (abs cfg s) _).
      assert (H2 : core_sim s2 a2) by (repeat split; assumption).
      destruct (on_commit_qc_verifies cfg s key c i0 Hinv Hk Efresh Ev) as (Hqm & _ & Hqv).
      { cbn [cupd qsigners]. apply Z.ltb_ge in Ew. exact Ew. }
      fold v in Hqm, Hqv. fold q0 in Hqm, Hqv. fold q in Hqm, Hqv.
      assert (Hsim : cqc_sim q qc) by (unfold cqc_sim; rewrite Hqm; reflexivity).
      pose proof (process_commit_qc_sim cfg s2 a2 q qc H2 Hsim) as (X1 & X2 & X3 & X4). cbv zeta in X1, X2, X3, X4.
      pose proof (process_commit_qc_good cfg s2 q (certs_ok_commit_caches cfg s _ _ Hc) Hqv) as [Hc3 _].
      destruct (process_commit_qc cfg s2 q) as [[s3 es3] r3].
      cbn [st_of res_of effs fst snd] in X1, X2, X3, X4, Hc3.
      apply next_view_tail; try assumption. intros _; exact X1.
  Qed.
End Commit.

(* ================================================================== *)
(* 7. on_timeout                                                       *)
Section TimeoutStore.
  Variable cfg : config.
  Let C := cC cfg.
  Let g := cg cfg.
  Let e := ce cfg.

  Definition entry_votes (en : timeout * list bool) : list (Z * timeout) :=
    map (fun k => (k, fst en)) (selected_keys C (snd en)).

  Lemma abs_timeouts_cons vt rest :
    abs_timeouts C (vt :: rest) = flat_map entry_votes (tqmap (snd vt)) ++ abs_timeouts C rest.
  Proof. reflexivity. Qed.

  Lemma in_entry_votes en k m : In (k, m) (entry_votes en) <-> m = fst en /\ In k (selected_keys C (snd en)).
  Proof.
    unfold entry_votes. rewrite in_map_iff. split.
    - intros (k' & Heq & Hin). inversion Heq; subst. auto.
    - intros [-> Hin]. exists k. auto.
  Qed.

  Lemma in_abs_timeouts tqcs k m : In (k, m) (abs_timeouts C tqcs) <->
    exists v t sg, In (v, t) tqcs /\ In (m, sg) (tqmap t) /\ In k (selected_keys C sg).
  Proof.
    unfold abs_timeouts. rewrite in_flat_map. split.
    - intros ([v t] & Hvt & H). cbn [snd] in H. apply in_flat_map in H. destruct H as ([m' sg] & Hen & H).
      apply (in_entry_votes (m', sg)) in H. cbn [fst snd] in H. destruct H as [-> Hk]. exists v, t, sg. auto.
    - intros (v & t & sg & Hvt & Hen & Hk). exists (v, t). split; [exact Hvt|]. cbn [snd].
      apply in_flat_map. exists (m, sg). split; [exact Hen|]. apply (in_entry_votes (m, sg)). auto.
  Qed.

  (* every entry of the TimeoutQC cached for view v is a vote for view v *)
  Lemma entry_view views x m sg : tentry_ok g e C views x -> In (m, sg) (tqmap (snd x)) -> vnum (tview m) = fst x.
  Proof.
    intros (Hv & Hi & _) Hin. destruct Hi as (Hall & _). rewrite Forall_forall in Hall.
    destruct (Hall _ Hin) as (Htv & _). cbn [fst] in Htv. rewrite Htv, Hv. reflexivity.
  Qed.

  Lemma timeout_not_stored s key t i0 : cache_inv cfg s -> cindex C key = Some i0 ->
    fresh (r_timeout_views s) key (vnum (tview t)) ->
    sstored_timeout (abs cfg s) key (vnum (tview t)) = false.
  Proof.
    intros [_ (_ & _ & _ & Hall)] Hk Hfr. unfold sstored_timeout. cbn [abs sp_timeouts].
    destruct (existsb _ _) eqn:E; [|reflexivity]. exfalso.
    apply existsb_exists in E. destruct E as ([k m] & Hin & Hc). cbn [fst snd] in Hc.
    apply andb_true_iff in Hc. destruct Hc as [Hc1 Hc2]. apply Z.eqb_eq in Hc1, Hc2. subst k.
    apply in_abs_timeouts in Hin. destruct Hin as (v & t1 & sg & Hvt & Hen & Hsel).
    pose proof (Hall _ Hvt) as Hok. pose proof (entry_view _ _ _ _ Hok Hen) as Hv. cbn [fst] in Hv.
    destruct Hok as (_ & _ & Hf). cbn [fst snd] in Hf.
    assert (Hinb : In sg (map snd (tqmap t1))) by (apply in_map_iff; exists (m, sg); auto).
    destruct (sel_cindex cfg _ _ (owned_wf cfg _ _ _ _ Hf Hinb) Hsel) as (i & Hi & Hb).
    destruct Hf as (_ & _ & H3). destruct (H3 _ i Hinb Hb) as (k' & v'' & Hk' & Hg & Hle).
    assert (k' = key) by (eapply cindex_inj; eassumption). subst k'.
    unfold fresh in Hfr. rewrite Hg in Hfr. apply Z.leb_gt in Hfr. lia.
  Qed.

  (* the stored votes of view v are those of the TimeoutQC cached for view v *)
  Lemma filter_all {A} (p : A -> bool) l : (forall x, In x l -> p x = true) -> filter p l = l.
  Proof.
    induction l as [|x l IH]; intros H; cbn [filter]; [reflexivity|].
    rewrite (H x (or_introl eq_refl)), IH; [reflexivity|]. intros y Hy. apply H. right; exact Hy.
  Qed.
  Lemma filter_none {A} (p : A -> bool) l : (forall x, In x l -> p x = false) -> filter p l = [].
  Proof.
    induction l as [|x l IH]; intros H; cbn [filter]; [reflexivity|].
    rewrite (H x (or_introl eq_refl)). apply IH. intros y Hy. apply H. right; exact Hy.
  Qed.

  Lemma votes_of_view views tqcs vw : zsorted tqcs -> (forall x, In x tqcs -> tentry_ok g e C views x) ->
    filter (fun kt => vnum (tview (snd kt)) =? vnum vw) (abs_timeouts C tqcs)
    = flat_map entry_votes (tqmap (t0_of tqcs vw)).
  Proof.
    unfold zsorted, t0_of. induction tqcs as [|[v1 t1] rest IH]; intros Hs Hall; [reflexivity|].
    inversion Hs as [|x l Hs' Hlt]; subst. rewrite abs_timeouts_cons, filter_app. cbn [snd zmap_get].
    assert (Hent : forall kt, In kt (flat_map entry_votes (tqmap t1)) -> vnum (tview (snd kt)) = v1).
    { intros [k m] Hin. apply in_flat_map in Hin. destruct Hin as ([m' sg] & Hen & Hin).
      apply (in_entry_votes (m', sg)) in Hin. cbn [fst snd] in Hin. destruct Hin as [-> _]. cbn [snd].
      apply (entry_view views (v1, t1) m' sg (Hall _ (or_introl eq_refl)) Hen). }
    destruct (v1 =? vnum vw) eqn:E.
    - apply Z.eqb_eq in E. rewrite filter_all.
      2:{ intros kt Hin. apply Z.eqb_eq. rewrite (Hent kt Hin). exact E. }
      rewrite filter_none; [apply app_nil_r|].
      intros [k m] Hin. apply Z.eqb_neq. cbn [snd]. apply in_abs_timeouts in Hin.
      destruct Hin as (v & t & sg & Hvt & Hen & _). rewrite Forall_forall in Hlt. specialize (Hlt _ Hvt). cbn [fst] in Hlt.
      pose proof (entry_view views (v, t) m sg (Hall _ (or_intror Hvt)) Hen) as Hv. cbn [fst] in Hv. lia.
    - apply Z.eqb_neq in E. rewrite filter_none.
      2:{ intros kt Hin. apply Z.eqb_neq. rewrite (Hent kt Hin). exact E. }
      cbn [app]. apply IH; [exact Hs'|]. intros x Hx. apply Hall. right; exact Hx.
  Qed.

  (* ---- union of signer sets, pointwise ---- *)
  Definition has_bit (bms : list (list bool)) (j : nat) : Prop := exists sg, In sg bms /\ bit sg j = true.

  Lemma has_bit_col bms j : has_bit bms j <-> (1 <= col j bms)%nat.
  Proof.
    split.
    - intros (sg & Hin & Hb). eapply col_pos; eassumption.
    - induction bms as [|sg bms IH]; [cbn; lia|]. rewrite col_cons. destruct (bit sg j) eqn:E.
      + intros _. exists sg. split; [left; reflexivity|exact E].
      + intros H. destruct (IH H) as (sg' & Hin & Hb). exists sg'. split; [right; exact Hin|exact Hb].
  Qed.

  Lemma bit_bor : forall a b j, length a = length b -> bit (bor a b) j = bit a j || bit b j.
  Proof.
    unfold bit. induction a as [|x a IH]; intros [|y b] j H; cbn [length] in H; try discriminate.
    - destruct j; reflexivity.
    - destruct j as [|j]; cbn [bor nth]; [reflexivity|]. apply IH. lia.
  Qed.

  Lemma union_bit n j : forall bms sum, length sum = n -> Forall (fun sg => length sg = n) bms ->
    (bit (fold_left bor bms sum) j = true <-> bit sum j = true \/ has_bit bms j).
  Proof.
    induction bms as [|sg bms IH]; intros sum Hl Hall; cbn [fold_left].
    - split; [auto|]. intros [H|(sg & [] & _)]; exact H.
    - inversion Hall as [|x l Hsg Hall']; subst. rewrite IH; [|rewrite bor_length; congruence|exact Hall'].
      rewrite bit_bor by congruence. rewrite orb_true_iff. split.
      + intros [[H|H]|(sg' & Hin & Hb)]; [left; exact H|right; exists sg; split; [left; reflexivity|exact H]|
                                            right; exists sg'; split; [right; exact Hin|exact Hb]].
      + intros [H|(sg' & [<-|Hin] & Hb)]; [left; left; exact H|left; right; exact Hb|right; exists sg'; auto].
  Qed.

  Lemma tqmap_set_has_bit es m n i0 : (i0 < n)%nat -> Forall (fun sg => length sg = n) (map snd es) ->
    has_bit (map snd (tqmap_set es m n i0)) i0.
  Proof.
    intros Hlt. induction es as [|[m1 s1] es IH]; intros Hall; cbn [tqmap_set map snd].
    - exists (bv_set (bv_new n) i0). split; [left; reflexivity|]. apply bit_set_same. rewrite bv_new_length. exact Hlt.
    - cbn [map snd] in Hall. inversion Hall as [|x l Hs Hall']; subst. destruct (timeout_eqb m1 m); cbn [map snd].
      + exists (bv_set s1 i0). split; [left; reflexivity|]. apply bit_set_same. lia.
      + destruct (IH Hall') as (sg & Hin & Hb). exists sg. split; [right; exact Hin|exact Hb].
  Qed.

  Lemma tqmap_set_lengths es m n i0 : Forall (fun sg => length sg = n) (map snd es) ->
    Forall (fun sg => length sg = n) (map snd (tqmap_set es m n i0)).
  Proof.
    intros Hall. apply Forall_forall. intros sg Hin. apply in_map_iff in Hin. destruct Hin as (en & <- & Hin).
    rewrite Forall_forall in Hall. apply tqmap_set_in in Hin. destruct Hin as [Hin|(s0 & Hs0 & ->)].
    - apply Hall. apply in_map; exact Hin.
    - rewrite bv_set_length. destruct Hs0 as [->|Hs0]; [apply bv_new_length|apply Hall; exact Hs0].
  Qed.

  (* the senders of the stored votes of the view, plus the new sender, as a bitmap: the union of
     the entries of the TimeoutQC under construction after TimeoutQC::add *)
  Lemma timeout_group_bitmap views v es key t i0 : fam_ok C views v (map snd es) -> cindex C key = Some i0 ->
    fresh views key v ->
    voters_bitmap cfg (map fst (flat_map entry_votes es ++ [(key, t)]))
    = union_from (bv_new (length C)) (tqmap_set es t (length C) i0).
  Proof.
    intros Hf Hk Hfr. pose proof (cindex_lt _ _ _ Hk) as Hlt.
    assert (Hlen : Forall (fun sg => length sg = length C) (map snd es)).
    { destruct Hf as (H1 & _). eapply Forall_impl; [|exact H1]. intros sg [Hl _]. exact Hl. }
    pose proof (tqmap_set_lengths es t (length C) i0 Hlen) as Hlen'.
    unfold voters_bitmap, union_from. fold C.
    change (fun b k => match cindex C k with Some i => bv_set b i | None => b end) with (vb_step cfg).
    assert (Hul : length (fold_left bor (map snd (tqmap_set es t (length C) i0)) (bv_new (length C))) = length C).
    { clear -Hlen'. generalize (bv_new_length (length C)). generalize (bv_new (length C)).
      induction (map snd (tqmap_set es t (length C) i0)) as [|sg l IH]; intros sum Hs; cbn [fold_left]; [exact Hs|].
      inversion Hlen' as [|x l' Hsg Hl']; subst. apply IH; [exact Hl'|]. rewrite bor_length; congruence. }
    apply bits_ext; [rewrite vb_len, bv_new_length, Hul; reflexivity|].
    intros j. apply bool_iff. rewrite (vb_bit cfg) by apply bv_new_length.
    rewrite (union_bit (length C) j) by (try apply bv_new_length; exact Hlen').
    rewrite !bit_bv_new.
    assert (Hkeys : forall k, In k (map fst (flat_map entry_votes es ++ [(key, t)])) <->
                      k = key \/ exists en, In en es /\ In k (selected_keys C (snd en))).
    { intros k. rewrite in_map_iff. split.
      - intros ([k' m] & Heq & Hin). cbn [fst] in Heq. subst k'. apply in_app_iff in Hin.
        destruct Hin as [Hin|[Heq|[]]]; [|left; inversion Heq; reflexivity].
        apply in_flat_map in Hin. destruct Hin as (en & Hen & Hin). apply in_entry_votes in Hin. right. exists en. tauto.
      - intros [->|(en & Hen & Hin)].
        + exists (key, t). split; [reflexivity|]. apply in_app_iff. right; left; reflexivity.
        + exists (k, fst en). split; [reflexivity|]. apply in_app_iff. left. apply in_flat_map. exists en.
          split; [exact Hen|]. apply in_entry_votes. auto. }
    assert (Hwf : forall en, In en es -> wf_bits cfg (snd en)).
    { intros en Hen. eapply owned_wf; [exact Hf|]. apply in_map; exact Hen. }
    destruct (Nat.eq_dec j i0) as [->|Hne].
    - split; intros _.
      + right. apply tqmap_set_has_bit; assumption.
      + right. exists key. split; [apply Hkeys; left; reflexivity|exact Hk].
    - rewrite has_bit_col, (tqmap_set_col_other es t (length C) i0 j Hne), <- has_bit_col. split.
      + intros [H|(k & Hin & Hkj)]; [discriminate|]. right. apply Hkeys in Hin. destruct Hin as [->|(en & Hen & Hsel)].
        { exfalso. assert (Heq : Some i0 = Some j) by (rewrite <- Hk; exact Hkj). inversion Heq; congruence. }
        destruct (sel_cindex cfg _ _ (Hwf en Hen) Hsel) as (i & Hi & Hb).
        exists (snd en). split; [apply in_map; exact Hen|].
        assert (Heq : Some i = Some j) by (rewrite <- Hi; exact Hkj). inversion Heq; subst; exact Hb.
      + intros [H|(sg & Hin & Hb)]; [discriminate|]. right. apply in_map_iff in Hin. destruct Hin as (en & <- & Hen).
        destruct (bit_sel cfg _ _ (Hwf en Hen) Hb) as (k & Hsel & Hkj). exists k. split; [|exact Hkj].
        apply Hkeys. right. exists en. auto.
  Qed.

  (* ---- the TimeoutQC the specification builds from these votes ---- *)
  Definition ins (t : tqc) (kt : Z * timeout) : tqc :=
    match cindex C (fst kt) with
    | Some i => {| tqview := tqview t; tqmap := tqmap_set (tqmap t) (snd kt) (length C) i;
                   tqagg := tqagg t ++ [(fst kt, TTimeout (snd kt))] |}
    | None => t
    end.

  Lemma fold_ins_view votes : forall acc, tqview (fold_left ins votes acc) = tqview acc.
  Proof.
    induction votes as [|kt votes IH]; intros acc; cbn [fold_left]; [reflexivity|].
    rewrite IH. unfold ins. destruct (cindex C (fst kt)); reflexivity.
  Qed.

  Lemma fold_entry m keys : (forall k, In k keys -> cindex C k <> None) -> keys <> [] -> forall acc,
    let r := map fst (tqmap (fold_left ins (map (fun k => (k, m)) keys) acc)) in
    (In m (map fst (tqmap acc)) -> r = map fst (tqmap acc)) /\
    (~ In m (map fst (tqmap acc)) -> r = map fst (tqmap acc) ++ [m]).
  Proof.
    induction keys as [|k keys IH]; intros Hk Hne acc; [congruence|]. cbv zeta. cbn [map fold_left].
    assert (Hk0 : cindex C k <> None) by (apply Hk; left; reflexivity).
    destruct (cindex C k) as [i|] eqn:Ei; [|congruence].
    set (acc1 := {| tqview := tqview acc; tqmap := tqmap_set (tqmap acc) m (length C) i;
                    tqagg := tqagg acc ++ [(k, TTimeout m)] |}).
    assert (Eins : ins acc (k, m) = acc1) by (unfold ins; cbn [fst snd]; rewrite Ei; reflexivity).
    rewrite Eins.
    assert (H1 : ((In m (map fst (tqmap acc)) -> map fst (tqmap acc1) = map fst (tqmap acc)) /\
                  (~ In m (map fst (tqmap acc)) -> map fst (tqmap acc1) = map fst (tqmap acc) ++ [m])) /\
                 In m (map fst (tqmap acc1))).
    { unfold acc1; cbn [tqmap]. destruct (tqmap_set_fst (tqmap acc) m (length C) i) as [[Hin Heq]|[Hnin Heq]].
      - split; [split; intros H; tauto|]. rewrite Heq. exact Hin.
      - split; [split; intros H; tauto|]. rewrite Heq. apply in_app_iff. right; left; reflexivity. }
    destruct H1 as [H1 Hin1].
    destruct keys as [|k2 keys].
    - cbn [map fold_left]. exact H1.
    - destruct (IH (fun k' Hk' => Hk k' (or_intror Hk')) ltac:(discriminate) acc1) as [IH1 _]. cbv zeta in IH1.
      rewrite (IH1 Hin1). exact H1.
  Qed.

  Lemma fold_entries es : NoDup (map fst es) ->
    (forall en, In en es -> selected_keys C (snd en) <> [] /\ forall k, In k (selected_keys C (snd en)) -> cindex C k <> None) ->
    forall acc, (forall m, In m (map fst es) -> ~ In m (map fst (tqmap acc))) ->
    map fst (tqmap (fold_left ins (flat_map entry_votes es) acc)) = map fst (tqmap acc) ++ map fst es.
  Proof.
    induction es as [|[m sg] es IH]; intros Hnd Hen acc Hacc; cbn [flat_map map fst fold_left]; [symmetry; apply app_nil_r|].
    rewrite fold_left_app. cbn [map fst] in Hnd. inversion Hnd as [|x l Hnin Hnd']; subst.
    destruct (Hen (m, sg) (or_introl eq_refl)) as [Hne Hks]. cbn [snd] in Hne, Hks.
    destruct (fold_entry m (selected_keys C sg) Hks Hne acc) as [_ H2]. cbv zeta in H2.
    assert (Hm : ~ In m (map fst (tqmap acc))) by (apply Hacc; left; reflexivity).
    specialize (H2 Hm). unfold entry_votes at 2. cbn [fst snd].
    rewrite IH; [rewrite H2, <- app_assoc; reflexivity|exact Hnd'|intros en H; apply Hen; right; exact H|].
    intros m' Hm' Hin. rewrite H2 in Hin. apply in_app_iff in Hin. destruct Hin as [Hin|[<-|[]]].
    - exact (Hacc m' (or_intror Hm') Hin).
    - exact (Hnin Hm').
  Qed.

  Lemma tqmap_set_fst_congr a b m n n' i i' : map fst a = map fst b ->
    map fst (tqmap_set a m n i) = map fst (tqmap_set b m n' i').
  Proof.
    intros H. destruct (tqmap_set_fst a m n i) as [[Hin Heq]|[Hnin Heq]];
      destruct (tqmap_set_fst b m n' i') as [[Hin' Heq']|[Hnin' Heq']]; rewrite Heq, Heq'; try (rewrite H; reflexivity).
    - exfalso. apply Hnin'. rewrite <- H. exact Hin.
    - exfalso. apply Hnin. rewrite H. exact Hin'.
  Qed.

  (* the TimeoutQC built by the specification lists the same messages in the same order *)
  Lemma spec_tqc_sim views v vw es key t i0 : fam_ok C views v (map snd es) -> NoDup (map fst es) ->
    cindex C key = Some i0 ->
    let qc := sbuild_tqc cfg vw (flat_map entry_votes es ++ [(key, t)]) in
    tqview qc = vw /\ map fst (tqmap qc) = map fst (tqmap_set es t (length C) i0).
  Proof.
    intros Hf Hnd Hk qc. unfold qc, sbuild_tqc. fold C.
    change (fun (t1 : tqc) (kt : Z * timeout) => match cindex C (fst kt) with
              | Some i => {| tqview := tqview t1; tqmap := tqmap_set (tqmap t1) (snd kt) (length C) i;
                             tqagg := tqagg t1 ++ [(fst kt, TTimeout (snd kt))] |}
              | None => t1 end) with ins.
    split; [rewrite fold_ins_view; reflexivity|].
    rewrite fold_left_app. cbn [fold_left]. unfold ins at 1. cbn [fst snd]. rewrite Hk. cbn [tqmap].
    apply tqmap_set_fst_congr. rewrite fold_entries; [reflexivity|exact Hnd| |intros m _ []].
    intros en Hen. assert (Hin : In (snd en) (map snd es)) by (apply in_map; exact Hen).
    pose proof (owned_wf cfg _ _ _ _ Hf Hin) as Hwf. split.
    - destruct Hf as (H1 & _). rewrite Forall_forall in H1. destruct (H1 _ Hin) as [_ [i Hi]].
      destruct (bit_sel cfg _ _ Hwf Hi) as (k & Hsel & _). intros E. apply (in_nil (a := k)). rewrite <- E. exact Hsel.
    - intros k Hsel. destruct (sel_cindex cfg _ _ Hwf Hsel) as (i & Hi & _). fold C in Hi. congruence.
  Qed.
End TimeoutStore.

Section Timeout.
  Variable cfg : config.
  Hypothesis Hchk : cchk cfg = true.
  Ltac mres := unfold matches, hfail, hret, hpanic, res_of, st_of, effs; cbn [fst snd].

  Lemma timeout_matches s m t : cache_inv cfg s -> certs_ok cfg s -> m_msg m = MTimeout t ->
    matches cfg s (IMsg m) (on_timeout cfg s (m_key m) (m_sig_ok m) t)
                           (son_timeout cfg (abs cfg s) (m_key m) (m_sig_ok m) t).
  Proof.
    intros Hinv Hc Hm. unfold son_timeout. cbv zeta. cbn [sp_view abs].
    set (key := m_key m). set (v := vnum (tview t)).
    destruct (cindex (cC cfg) key) as [i0|] eqn:Hk.
    2:{ unfold on_timeout, ccontains, sverify_sig, ccontains. rewrite Hk. cbn [negb]. mres. left.
        rewrite andb_false_r. destruct (_ <=? _); reflexivity. }
    destruct (v <? r_view s) eqn:Hold.
    { unfold on_timeout, ccontains. cbv zeta. rewrite Hk. cbn [negb]. fold v. rewrite Hold. mres. left.
      replace (r_view s <=? v) with false by (symmetry; apply Z.leb_gt; apply Z.ltb_lt in Hold; lia). reflexivity. }
    destruct (match zmap_get (r_timeout_views s) key with Some v' => v <=? v' | None => false end) eqn:Efresh.
    { unfold on_timeout, ccontains. cbv zeta. rewrite Hk. cbn [negb]. fold v. rewrite Hold, Efresh. mres. right.
      destruct (zmap_get (r_timeout_views s) key) as [v'|] eqn:Eg; [|discriminate].
      eapply ref_dup_timeout; [eassumption|exact Eg|apply Z.leb_le; exact Efresh]. }
    destruct (m_sig_ok m) eqn:Esig.
    2:{ unfold on_timeout, ccontains, sverify_sig. cbv zeta. rewrite Hk. cbn [negb]. fold v. rewrite Hold, Efresh. mres. left.
        cbn [andb]. destruct (_ <=? _); reflexivity. }
    destruct (timeout_verify_total (cg cfg) (ce cfg) (cC cfg) t) as [Ev|[x Ev]].
    2:{ unfold on_timeout, ccontains. cbv zeta. rewrite Hk. cbn [negb]. fold v. rewrite Hold, Efresh, Ev. mres. left.
        cbn [is_ok_tt]. rewrite andb_false_r. destruct (_ <=? _); reflexivity. }
    (* the handler's checks have passed *)
    rewrite (on_timeout_eq cfg s key t i0 Hinv Hk Hold Efresh Ev). unfold on_timeout_accept. cbv zeta. fold v.
    replace (r_view s <=? v) with true by (symmetry; apply Z.leb_le; apply Z.ltb_ge in Hold; lia).
    unfold sverify_sig, ccontains. rewrite Hk, Ev. cbn [andb is_ok_tt]. rewrite !sassert_true.
    pose proof (timeout_not_stored cfg s key t i0 Hinv Hk Efresh) as Hns. fold v in Hns. rewrite Hns.
    cbn [negb]. rewrite sassert_true.
    (* the stored votes of the view *)
    pose proof Hinv as [_ Ht]. pose proof Ht as (_ & Hsort & _ & Hall).
    pose proof (proj1 (timeout_verify_iff _ _ _ _) Ev) as ([Hg He] & _).
    pose proof (t0_ok _ _ _ _ _ (tview t) Ht Hg He) as (Hvw & Hti & Hf). cbn [fst snd] in Hvw, Hti, Hf.
    set (t0 := t0_of (r_timeout_qcs s) (tview t)) in *.
    unfold sget_timeout_qc. cbn [sp_timeouts sp_set_timeouts abs].
    rewrite filter_app. cbn [filter snd]. rewrite Z.eqb_refl.
    rewrite (votes_of_view cfg (r_timeout_views s) (r_timeout_qcs s) (tview t) Hsort Hall). fold t0.
    fold v in Hf.
    rewrite (timeout_group_bitmap cfg (r_timeout_views s) v (tqmap t0) key t i0 Hf Hk Efresh).
    set (t' := tupd cfg key t i0 t0).
    change (tqmap_set (tqmap t0) t (length (cC cfg)) i0) with (tqmap t').
    destruct (core_sim_abs cfg s) as (A1 & A2 & A3 & A4 & A5).
    destruct (weight (cweights (cC cfg)) (union_from (bv_new (length (cC cfg))) (tqmap t')) <? quorum (cC cfg)) eqn:Ew.
    - mres. left. do 2 eexists. split; [reflexivity|]. split; [repeat split; assumption|constructor].
    - set (qc := sbuild_tqc cfg (tview t) _).
      set (s2 := set_timeout_caches s _ _). set (a2 := sp_set_timeouts (abs cfg s) _).
      assert (H2 : core_sim s2 a2) by (repeat split; assumption).
      destruct (on_timeout_qc_verifies cfg s key t i0 Hinv Hk Efresh Ev) as (_ & Hview & Hqv).
      { fold t0. fold t'. apply Z.ltb_ge in Ew. exact Ew. }
      fold t0 in Hview, Hqv. fold t' in Hview, Hqv.
      assert (Hsim : tqc_sim t' qc).
      { destruct Hti as (_ & Hnd & _).
        destruct (spec_tqc_sim cfg (r_timeout_views s) v (tview t) (tqmap t0) key t i0 Hf Hnd Hk) as [S1 S2].
        split; [rewrite Hview; symmetry; exact S1|symmetry; exact S2]. }
      destruct (process_timeout_qc cfg s2 t') as [[s3 es3] r3] eqn:Ep.
      destruct (process_timeout_qc_sim cfg s2 a2 t' qc s3 es3 r3 H2 Hsim Ep) as (X2 & X3 & X4 & X1).
      pose proof (process_timeout_qc_good cfg s2 t' (certs_ok_timeout_caches cfg s _ _ Hc) Hqv) as [Hc3 _].
      rewrite Ep in Hc3. cbn in Hc3.
      change (sp_set_high_tqc (sprocess_commit_qc a2 (high_qc qc)) (smax_tqc qc (sp_high_tqc (sprocess_commit_qc a2 (high_qc qc)))))
        with (sprocess_justification a2 (JTimeout qc)).
      apply next_view_tail; assumption.
  Qed.
End Timeout.

(* ================================================================== *)
(* 8. the refinement theorem                                           *)
Theorem refines_spec cfg s i : cchk cfg = true -> cache_inv cfg s -> certs_ok cfg s -> refines cfg s i.
Proof.
  intros Hchk Hinv Hc. apply matches_refines. destruct i as [m| |n h]; cbn [rstep spec_handle].
  - destruct (m_msg m) as [p j|c|t|j] eqn:Em.
    + apply proposal_matches; assumption.
    + apply commit_matches; assumption.
    + apply timeout_matches; assumption.
    + apply new_view_matches; assumption.
  - apply timer_matches; assumption.
  - apply sync_matches.
Qed.

(* ... in every state reachable from a (verified) persisted state by any inputs *)
Lemma rrun_certs_ok cfg ops : forall s, cache_inv cfg s -> certs_ok cfg s -> certs_ok cfg (rrun cfg s ops).
Proof.
  unfold rrun. induction ops as [|i ops IH]; intros s Hinv Hc; cbn [fold_left]; [exact Hc|].
  apply IH; [apply rstep_inv; exact Hinv|]. apply (rstep_good cfg s i Hinv Hc).
Qed.

Theorem refines_spec_reachable cfg d first next ops i : cchk cfg = true -> durable_ok cfg d ->
  refines cfg (rrun cfg (rstart cfg d first next) ops) i.
Proof.
  intros Hchk Hd. apply refines_spec; [exact Hchk|apply rrun_inv, rstart_inv|].
  apply rrun_certs_ok; [apply rstart_inv|apply rstart_certs_ok; exact Hd].
Qed.

(* ================================================================== *)
(* 9. an executable classifier (for the sanity check of gen/c05.py; a test, not a proof)  *)
From EC Require Import Model.ReplicaRun.

Definition cqc_simb (q q' : cqc) : bool := commit_eqb (qmsg q) (qmsg q').
Definition tqc_simb (t t' : tqc) : bool :=
  view_eqb (tqview t) (tqview t') && list_eqb timeout_eqb (map fst (tqmap t)) (map fst (tqmap t')).
Definition just_simb (j j' : justification) : bool :=
  match j, j' with JCommit q, JCommit q' => cqc_simb q q' | JTimeout t, JTimeout t' => tqc_simb t t' | _, _ => false end.
Definition msg_simb (m m' : cmsg) : bool :=
  match m, m' with
  | MCommit c, MCommit c' => commit_eqb c c'
  | MTimeout t, MTimeout t' => view_eqb (tview t) (tview t') && opt_eqb commit_eqb (thv t) (thv t') && opt_eqb cqc_simb (thq t) (thq t')
  | MNewView j, MNewView j' => just_simb j j'
  | MProposal p j, MProposal p' j' => opt_eqb Z.eqb p p' && just_simb j j'
  | _, _ => false
  end.
Definition core_simb (s : rstate) (a : sstate) : bool :=
  (r_view s =? sp_view a) && phase_eqb (r_phase s) (sp_phase a) && opt_eqb commit_eqb (r_high_vote s) (sp_high_vote a)
  && opt_eqb cqc_simb (r_high_cqc s) (sp_high_cqc a) && opt_eqb tqc_simb (r_high_tqc s) (sp_high_tqc a).
Definition implied_differs_b (cfg : config) (j : justification) : bool :=
  match impl_implied cfg j with
  | Ok (n, oh) => let '(n', oh') := simplied_block (cC cfg) (cfirst cfg) j in negb ((n =? n') && opt_eqb Z.eqb oh oh')
  | _ => true
  end.

(* 0 both refuse; 1 both accept and agree; 10.. the specification accepts, the implementation
   refuses (documented refinement); 20.. the implementation accepts, the specification refuses;
   99 unexplained (excluded by refines_spec) *)
Definition classify (cfg : config) (s : rstate) (i : rinput) : Z :=
  let '(s', es, r) := rstep cfg s i in
  let '(a', ms, acc) := spec_step cfg (abs cfg s) i in
  let prop := match i with IMsg m => match m_msg m with MProposal p j => Some (p, j) | _ => None end | _ => None end in
  let differs := match prop with Some (_, j) => implied_differs_b cfg j | None => false end in
  match r with
  | Ok _ =>
      if acc then (if core_simb s' a' && list_eqb msg_simb (sent es) ms then 1 else 99)
      else if differs then 21
      else match prop with
           | Some (_, j) => if negb (spec_block cfg j =? r_store_next s) then 20 else 99
           | None => 99
           end
  | Err err =>
      if negb acc then 0
      else if differs then 19
      else match err with
           | RDuplicateSigner => 10
           | ROld => 11
           | RProposalAlreadyPruned => 12
           | ROversizedPayload => 13
           | RMissingPreviousPayload => 14
           | RInvalidPayload => 15
           | RBlocked => 16
           | RInternal => 18
           | _ => 99
           end
  | Panic p => if negb acc then 0 else match p with POverflow => 17 | _ => 99 end
  end.

(* the codes along a run of Model.ReplicaRun (the same cases as the replica correspondence):
   -1 the replica is dead, -2 restart *)
Fixpoint classify_ops (cfg : config) (st : run_state) (ops : list rop) : list Z :=
  match ops with
  | [] => []
  | o :: rest =>
      let code := if rs_dead st then -1 else
                  match o with
                  | OpIn i | OpCrash i _ _ => classify cfg (rs_s st) i
                  | OpRestart => -2
                  end in
      code :: classify_ops cfg (fst (run_op cfg st o)) rest
  end.
Definition classify_case (c : config * durable * Z * Z * list rop) : obsv :=
  let '(cfg, d, first, next, ops) := c in
  let s0 := rstart cfg d first next in
  let '(s1, es, r) := rprologue cfg s0 in
  let '(d1, _) := apply_effects d next es in
  OL (map OZ (classify_ops cfg {| rs_s := s1; rs_d := d1; rs_dead := negb (is_ok r) |} ops)).
