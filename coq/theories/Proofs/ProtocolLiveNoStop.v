(* C06 on the protocol model, part 4: honest nodes do not stop during a synchronous suffix with
   arithmetic headroom.  (1) a replica's cached proposals are never ahead of its block store, so
   save_block never blocks; (2) with headroom on the numbers it increments, and in a state
   satisfying the invariants of all reachable states, no handler invocation ends in Panic,
   RBlocked or RInternal. *)
From Coq Require Import ZArith List Bool Lia.
From EC Require Import Lib.Outcome Lib.U64 Lib.ListW Lib.Obs Model.Msgs Model.Replica Model.ReplicaRun
  Model.Protocol Model.ProtocolSync Proofs.QCProofs Proofs.ReplicaMono Proofs.ReplicaLive
  Proofs.ReplicaCrash Proofs.ProtocolLive Proofs.ProtocolLiveInv Proofs.ProtocolLiveCatch.
From EC Require Proofs.ProtocolRefinesAbs Proofs.ProtocolRefinesInv Proofs.SafetyAbsNumbers.
From EC Require Proofs.ReplicaCaches Proofs.ReplicaJustified Proofs.ProtocolRefinesStep.
Import ListNotations.
Open Scope Z_scope.

Module RC := ReplicaCaches.

(* ================================================================== *)
(* 1. the proposal cache is never ahead of the block store             *)
(* ================================================================== *)
Definition CLI (s : rstate) : Prop :=
  (forall e, In e (r_cache s) -> fst e <= r_store_next s) /\
  r_store_first s <= r_store_next s /\ 0 <= r_store_first s.

Definition SIP {A} (Q : rstate -> Prop) (x : hres A) : Prop := Q (fst (fst x)).

Lemma SIP_bind {A B} (Q : rstate -> Prop) (x : hres A) (f : rstate -> A -> hres B) :
  SIP Q x -> (forall s1 a, Q s1 -> SIP Q (f s1 a)) -> SIP Q (hbind x f).
Proof.
  destruct x as [[s1 es1] r1]. unfold SIP; cbn [fst]. intros H Hf. unfold hbind.
  destruct r1 as [a|e|p]; cbn [fst]; try exact H.
  specialize (Hf s1 a H). destruct (f s1 a) as [[s2 es2] r2]. exact Hf.
Qed.

Lemma CLI_same s s' : r_cache s' = r_cache s -> r_store_next s' = r_store_next s ->
  r_store_first s' = r_store_first s -> CLI s -> CLI s'.
Proof. unfold CLI. intros -> -> ->. auto. Qed.

Ltac cli_same := apply (CLI_same _ _); cbn; auto.

Lemma save_block_CLI cfg s q : CLI s -> SIP CLI (save_block cfg s q).
Proof.
  intros H. unfold save_block, SIP. destruct (cache_has _ _ _); [|exact H].
  destruct (_ <? _); [exact H|]. destruct (r_store_next s =? _) eqn:E; [|exact H].
  apply Z.eqb_eq in E. destruct H as (H1 & H2 & H3). unfold CLI. cbn [fst set_store_next r_cache r_store_next r_store_first].
  split; [intros e He; specialize (H1 e He); lia|]. split; [lia|exact H3].
Qed.

Lemma process_commit_qc_CLI cfg s q : CLI s -> SIP CLI (process_commit_qc cfg s q).
Proof.
  intros H. unfold process_commit_qc.
  match goal with |- SIP _ (if ?c then _ else _) => destruct c end; [|exact H].
  apply save_block_CLI. revert H. cli_same.
Qed.

Lemma process_timeout_qc_CLI cfg s t : CLI s -> SIP CLI (process_timeout_qc cfg s t).
Proof.
  intros H. unfold process_timeout_qc. apply SIP_bind.
  - destruct (high_qc t); [apply process_commit_qc_CLI; exact H|exact H].
  - intros s1 _ H1. unfold SIP, hret; cbn [fst].
    match goal with |- CLI (if ?c then _ else _) => destruct c end; [revert H1; cli_same|exact H1].
Qed.

Lemma process_justification_CLI cfg s j : CLI s -> SIP CLI (process_justification cfg s j).
Proof. intros H. destruct j; [apply process_commit_qc_CLI|apply process_timeout_qc_CLI]; exact H. Qed.

Lemma start_new_view_CLI cfg s v : CLI s -> SIP CLI (start_new_view cfg s v).
Proof.
  intros H. unfold start_new_view.
  assert (H1 : CLI (set_phase (set_view s v) Prepare)) by (revert H; cli_same).
  destruct (get_justification _); try exact H1.
  unfold hbind, hemit, backup_state, SIP. destruct (r_high_cqc _) eqn:E; cbn [fst]; [|exact H1].
  destruct H1 as (A1 & A2 & A3). split; [|split; assumption].
  intros e He. cbn [set_cache r_cache r_store_next] in *. apply filter_In in He. apply A1. apply He.
Qed.

Lemma start_timeout_CLI cfg s : CLI s -> SIP CLI (start_timeout cfg s).
Proof.
  intros H. unfold start_timeout, hbind, backup_state, hemit, SIP.
  destruct (r_view (set_phase s PTimeout) =? 0); cbn [fst hret]; [revert H; cli_same|].
  destruct (get_justification _); cbn [fst]; revert H; cli_same.
Qed.

Ltac cli_match :=
  match goal with
  | |- SIP _ (if ?c then _ else _) => destruct c eqn:?
  | |- SIP _ (match ?x with _ => _ end) => destruct x eqn:?
  end; try (unfold hfail, hpanic, hret, SIP; cbn [fst]; first [assumption | (eapply CLI_same; [| | |eassumption]; reflexivity)]).

Lemma tail_CLI cfg s v : CLI s ->
  SIP CLI (hbind (lift s (num_next (cchk cfg) v)) (fun s nv => start_new_view cfg s nv)).
Proof.
  intros H. apply SIP_bind; [destruct (num_next _ _); exact H|]. intros. apply start_new_view_CLI. assumption.
Qed.

Lemma on_commit_CLI cfg s key sig_ok c : CLI s -> SIP CLI (on_commit cfg s key sig_ok c).
Proof.
  intros H. unfold on_commit. cli_match. cbv zeta. repeat cli_match.
  match goal with |- SIP _ (hbind (process_commit_qc cfg ?s2 ?q) _) =>
    apply SIP_bind; [apply process_commit_qc_CLI; revert H; cli_same|] end.
  intros. apply tail_CLI. assumption.
Qed.

Lemma on_timeout_CLI cfg s key sig_ok t : CLI s -> SIP CLI (on_timeout cfg s key sig_ok t).
Proof.
  intros H. unfold on_timeout. cli_match. cbv zeta. repeat cli_match.
  match goal with |- SIP _ (hbind (process_timeout_qc cfg ?s2 ?q) _) =>
    apply SIP_bind; [apply process_timeout_qc_CLI; revert H; cli_same|] end.
  intros. apply tail_CLI. assumption.
Qed.

Lemma on_new_view_CLI cfg s key sig_ok j : CLI s -> SIP CLI (on_new_view cfg s key sig_ok j).
Proof.
  intros H. unfold on_new_view. apply SIP_bind; [destruct (justification_view _ _); exact H|].
  intros s1 mv H1. cbv zeta. do 4 cli_match.
  apply SIP_bind; [apply process_justification_CLI; exact H1|]. intros s2 _ H2.
  cli_match. apply start_new_view_CLI. exact H2.
Qed.

Lemma cache_insert_in c n p e : In e (cache_insert c n p) -> fst e = n \/ In e c.
Proof.
  unfold cache_insert. intros H. apply ProtocolRefinesStep.zset_in in H. destruct H as [->|H]; [left; reflexivity|right; exact H].
Qed.

Lemma on_proposal_CLI cfg s key sig_ok payload j : CLI s -> SIP CLI (on_proposal cfg s key sig_ok payload j).
Proof.
  intros H. unfold on_proposal. apply SIP_bind; [destruct (justification_view _ _); exact H|].
  intros s1 mv H1. cbv zeta. do 4 cli_match.
  apply SIP_bind; [destruct (get_implied_block _ _ _ _); exact H1|]. intros s2 [n oh] H2.
  destruct (n <? r_store_first s2) eqn:Ef; [exact H2|]. apply Z.ltb_ge in Ef.
  apply SIP_bind.
  - destruct oh; destruct payload; try exact H2.
    destruct (cmaxpay cfg <? cpsize cfg z); [exact H2|].
    destruct ((0 <? n) && negb (n - 1 <? r_store_next s2)) eqn:Ep; [exact H2|].
    destruct (negb ((cfirst cfg <=? n) && cpok cfg n z)); [exact H2|].
    unfold SIP, hret; cbn [fst]. destruct H2 as (A1 & A2 & A3).
    split; [|split; assumption]. cbn [set_cache r_cache r_store_next]. intros e He.
    apply cache_insert_in in He. destruct He as [->|He]; [|auto].
    apply andb_false_iff in Ep. destruct Ep as [Ep|Ep].
    + apply Z.ltb_ge in Ep. lia.
    + apply negb_false_iff in Ep. apply Z.ltb_lt in Ep. lia.
  - intros s3 hash H3.
    apply SIP_bind; [apply process_justification_CLI; revert H3; cli_same|].
    intros s4 _ H4. exact H4.
Qed.

Lemma rstep_CLI cfg s i : CLI s -> SIP CLI (rstep cfg s i).
Proof.
  intros H. destruct i as [m| |n h]; cbn [rstep].
  - destruct (m_msg m); [apply on_proposal_CLI|apply on_commit_CLI|apply on_timeout_CLI|apply on_new_view_CLI]; exact H.
  - apply start_timeout_CLI; exact H.
  - destruct (r_store_next s =? n) eqn:E; [|exact H]. apply Z.eqb_eq in E.
    unfold SIP, CLI; cbn [fst]. destruct H as (H1 & H2 & H3). cbn [set_store_next r_cache r_store_next r_store_first].
    split; [intros e He; specialize (H1 e He); lia|]. split; [lia|exact H3].
Qed.

Lemma rstep_t_CLI cfg s i : CLI s -> SIP CLI (rstep_t cfg s i).
Proof.
  intros H. unfold rstep_t. pose proof (rstep_CLI cfg s i H) as H1.
  destruct (rstep cfg s i) as [[s' es] r]. unfold SIP in *; cbn [fst] in *.
  destruct r as [a|err|p]; try exact H1. destruct err; try exact H1.
  pose proof (start_timeout_CLI cfg s' H1) as H2. destruct (start_timeout cfg s') as [[s2 es2] r2]. exact H2.
Qed.

(* no gap *)
Lemma CLI_not_blocks s q : CLI s -> ~ blocks_on s q.
Proof.
  intros (H1 & _) [Hc Hlt]. unfold cache_has in Hc.
  destruct (zmap_get (r_cache s) (hnum (cprop (qmsg q)))) as [l|] eqn:E; [|discriminate].
  apply ProtocolRefinesStep.zget_in in E. specialize (H1 _ E). cbn [fst] in H1. lia.
Qed.

(* ================================================================== *)
(* 2. no handler invocation stops                                      *)
(* ================================================================== *)
Definition nostop {A} (x : hres A) : Prop := stopsA (snd x) = false.

Lemma num_next_ok v : v + 1 < U64 -> @num_next unit true v = Ok (v + 1).
Proof. intros H. unfold num_next, u64_add. destruct (Z.ltb_spec (v + 1) U64); [reflexivity|lia]. Qed.

Lemma cert_of_process_justification cfg s j :
  cert (fst (fst (process_justification cfg s j))).
Proof. apply (process_justification_cert cfg s j). Qed.

Lemma start_new_view_nostop cfg s v : cert s -> nostop (start_new_view cfg s v).
Proof.
  intros Hc. destruct (get_justification_ok s Hc) as [j Ej].
  rewrite (start_new_view_ok cfg s v j Ej). reflexivity.
Qed.

(* the tail of on_commit / on_timeout / on_new_view once the certificate is processed *)
Lemma tail_nostop cfg (x : hres unit) v : cchk cfg = true -> v + 1 < U64 ->
  snd x = Ok tt -> cert (fst (fst x)) ->
  nostop (hbind x (fun s _ => hbind (lift s (num_next (cchk cfg) v)) (fun s nv => start_new_view cfg s nv))).
Proof.
  intros Hchk Hv Hr Hc. destruct x as [[s1 es1] r1]. cbn [fst snd] in *. subst r1. unfold hbind at 1.
  rewrite Hchk, (num_next_ok v Hv). cbn [lift]. rewrite hbind_hret.
  pose proof (start_new_view_nostop cfg s1 (v + 1) Hc) as H.
  destruct (start_new_view cfg s1 (v + 1)) as [[s2 es2] r2]. exact H.
Qed.

Lemma cert_set_commit_caches s a b : cert (set_commit_caches s a b) <-> cert s.
Proof. unfold cert; cbn; tauto. Qed.

Lemma on_commit_nostop cfg s key sig_ok c :
  cchk cfg = true -> RC.cache_inv cfg s -> CLI s -> vnum (cview c) + 1 < U64 ->
  nostop (on_commit cfg s key sig_ok c).
Proof.
  intros Hchk Hinv Hcli Hv.
  destruct (cindex (cC cfg) key) as [i0|] eqn:Hk.
  2:{ unfold on_commit, ccontains. rewrite Hk. reflexivity. }
  destruct (vnum (cview c) <? r_view s) eqn:Hold.
  { unfold on_commit, ccontains. cbv zeta. rewrite Hk. cbn [negb]. rewrite Hold. reflexivity. }
  destruct (match zmap_get (r_commit_views s) key with Some v' => vnum (cview c) <=? v' | None => false end) eqn:Efresh.
  { unfold on_commit, ccontains. cbv zeta. rewrite Hk. cbn [negb]. rewrite Hold, Efresh. reflexivity. }
  destruct sig_ok.
  2:{ unfold on_commit, ccontains. cbv zeta. rewrite Hk. cbn [negb]. rewrite Hold, Efresh. reflexivity. }
  destruct (commit_verify (cg cfg) (ce cfg) c) as [[]|e|p] eqn:Ev.
  - rewrite (RC.on_commit_eq cfg s key c i0 Hinv Hk Hold Efresh Ev). unfold RC.on_commit_accept. cbv zeta.
    destruct (_ <? quorum (cC cfg)); [reflexivity|].
    apply tail_nostop; try assumption.
    + apply process_commit_qc_ok. apply CLI_not_blocks. revert Hcli. apply CLI_same; reflexivity.
    + apply (process_commit_qc_cert cfg).
  - unfold on_commit, ccontains. cbv zeta. rewrite Hk. cbn [negb]. rewrite Hold, Efresh, Ev. reflexivity.
  - exfalso. unfold commit_verify, view_verify in Ev.
    destruct (negb _); [discriminate|]. destruct (negb _); discriminate.
Qed.

Lemma on_timeout_nostop cfg s key sig_ok t :
  cchk cfg = true -> RC.cache_inv cfg s -> CLI s -> vnum (tview t) + 1 < U64 ->
  nostop (on_timeout cfg s key sig_ok t).
Proof.
  intros Hchk Hinv Hcli Hv.
  destruct (cindex (cC cfg) key) as [i0|] eqn:Hk.
  2:{ unfold on_timeout, ccontains. rewrite Hk. reflexivity. }
  destruct (vnum (tview t) <? r_view s) eqn:Hold.
  { unfold on_timeout, ccontains. cbv zeta. rewrite Hk. cbn [negb]. rewrite Hold. reflexivity. }
  destruct (match zmap_get (r_timeout_views s) key with Some v' => vnum (tview t) <=? v' | None => false end) eqn:Efresh.
  { unfold on_timeout, ccontains. cbv zeta. rewrite Hk. cbn [negb]. rewrite Hold, Efresh. reflexivity. }
  destruct sig_ok.
  2:{ unfold on_timeout, ccontains. cbv zeta. rewrite Hk. cbn [negb]. rewrite Hold, Efresh. reflexivity. }
  destruct (timeout_verify_total (cg cfg) (ce cfg) (cC cfg) t) as [Ev|[x Ev]].
  - rewrite (RC.on_timeout_eq cfg s key t i0 Hinv Hk Hold Efresh Ev). unfold RC.on_timeout_accept. cbv zeta.
    destruct (_ <? quorum (cC cfg)); [reflexivity|].
    apply tail_nostop; try assumption.
    + apply process_timeout_qc_ok. intros q _. apply CLI_not_blocks. revert Hcli. apply CLI_same; reflexivity.
    + apply (process_timeout_qc_cert cfg).
  - unfold on_timeout, ccontains. cbv zeta. rewrite Hk. cbn [negb]. rewrite Hold, Efresh, Ev. reflexivity.
Qed.

Lemma justification_view_ok' cfg j : cchk cfg = true -> just_vnum j + 1 < U64 ->
  exists mv, justification_view (E := unit) (cchk cfg) j = Ok mv.
Proof. intros -> H. destruct (justification_view_ok j H) as (mv & E & _). eauto. Qed.

Lemma on_new_view_nostop cfg s key sig_ok j :
  cchk cfg = true -> CLI s -> just_vnum j + 1 < U64 -> nostop (on_new_view cfg s key sig_ok j).
Proof.
  intros Hchk Hcli Hv. unfold on_new_view.
  destruct (justification_view_ok' cfg j Hchk Hv) as [mv Emv]. rewrite Emv. cbn [lift]. rewrite hbind_hret. cbv zeta.
  destruct (_ || _); [reflexivity|]. destruct (negb (ccontains cfg key)); [reflexivity|].
  destruct (negb sig_ok); [reflexivity|].
  pose proof (justification_verify_no_panic (cg cfg) (ce cfg) (cC cfg) j) as Hnp.
  destruct (justification_verify (cg cfg) (ce cfg) (cC cfg) j) as [[]|e|p]; [|reflexivity|discriminate].
  pose proof (process_justification_ok cfg s j (fun q _ => CLI_not_blocks s q Hcli)) as Hr.
  pose proof (cert_of_process_justification cfg s j) as Hc.
  destruct (process_justification cfg s j) as [[s2 es2] r2]. unfold res_of in Hr. cbn [fst snd] in *. subst r2.
  unfold hbind. destruct (r_view s2 <? vnum mv).
  - pose proof (start_new_view_nostop cfg s2 (vnum mv) Hc) as H.
    destruct (start_new_view cfg s2 (vnum mv)) as [[s3 es3] r3]. exact H.
  - reflexivity.
Qed.

Lemma on_proposal_nostop cfg s key sig_ok payload j :
  cchk cfg = true -> CLI s -> just_vnum j + 1 < U64 ->
  (justification_verify (cg cfg) (ce cfg) (cC cfg) j = Ok tt ->
   exists r, @get_implied_block unit true (cC cfg) (cfirst cfg) j = Ok r) ->
  nostop (on_proposal cfg s key sig_ok payload j).
Proof.
  intros Hchk Hcli Hv Himp. unfold on_proposal.
  destruct (justification_view_ok' cfg j Hchk Hv) as [mv Emv]. rewrite Emv. cbn [lift]. rewrite hbind_hret. cbv zeta.
  destruct (_ || _); [reflexivity|]. destruct (negb (key =? _)); [reflexivity|].
  destruct (negb sig_ok); [reflexivity|].
  pose proof (justification_verify_no_panic (cg cfg) (ce cfg) (cC cfg) j) as Hnp.
  destruct (justification_verify (cg cfg) (ce cfg) (cC cfg) j) as [[]|e|p]; [|reflexivity|discriminate].
  destruct (Himp eq_refl) as [[n oh] Er]. rewrite Hchk, Er. cbn [lift]. rewrite hbind_hret.
  destruct (n <? r_store_first s) eqn:Ef; [reflexivity|]. apply Z.ltb_ge in Ef.
  (* the payload checks: failures are ordinary errors; success leaves a state with CLI *)
  assert (Hgen : forall s3 hash, CLI s3 ->
            nostop (let vote := {| cview := mv; cprop := {| hnum := n; hpay := hash |} |} in
                    let s4 := set_high_vote (set_phase (set_view s3 (vnum mv)) PCommit) (Some vote) in
                    hbind (process_justification cfg s4 j) (fun s _ =>
                    hbind (backup_state cfg s) (fun s _ => hemit s (ESend (MCommit vote)))))).
  { intros s3 hash H3. cbv zeta.
    set (s4 := set_high_vote (set_phase (set_view s3 (vnum mv)) PCommit) _).
    assert (H4 : CLI s4) by (revert H3; apply CLI_same; reflexivity).
    pose proof (process_justification_ok cfg s4 j (fun q _ => CLI_not_blocks s4 q H4)) as Hr.
    destruct (process_justification cfg s4 j) as [[s5 es5] r5]. unfold res_of in Hr. cbn [snd] in Hr. subst r5.
    reflexivity. }
  destruct oh as [h|]; destruct payload as [p|]; try reflexivity.
  - rewrite hbind_hret. apply Hgen. exact Hcli.
  - destruct (cmaxpay cfg <? cpsize cfg p); [reflexivity|].
    destruct ((0 <? n) && negb (n - 1 <? r_store_next s)) eqn:Ep; [reflexivity|].
    destruct (negb ((cfirst cfg <=? n) && cpok cfg n p)); [reflexivity|].
    rewrite hbind_hret. apply Hgen.
    destruct Hcli as (A1 & A2 & A3). split; [|split; assumption].
    cbn [set_cache r_cache r_store_next]. intros e He. apply cache_insert_in in He.
    destruct He as [->|He]; [|auto].
    apply andb_false_iff in Ep. destruct Ep as [Ep|Ep].
    + apply Z.ltb_ge in Ep. lia.
    + apply negb_false_iff in Ep. apply Z.ltb_lt in Ep. lia.
Qed.

(* arithmetic headroom of an input *)
Definition arith_ok (cfg : config) (i : rinput) : Prop :=
  match i with
  | IMsg m =>
      match m_msg m with
      | MProposal _ j => just_vnum j + 1 < U64 /\
          (justification_verify (cg cfg) (ce cfg) (cC cfg) j = Ok tt ->
           exists r, @get_implied_block unit true (cC cfg) (cfirst cfg) j = Ok r)
      | MNewView j => just_vnum j + 1 < U64
      | MCommit c => vnum (cview c) + 1 < U64
      | MTimeout t => vnum (tview t) + 1 < U64
      end
  | _ => True
  end.

Theorem rstep_t_nostop cfg s i :
  cchk cfg = true -> RC.cache_inv cfg s -> just_ok s -> CLI s -> arith_ok cfg i ->
  nostop (rstep_t cfg s i).
Proof.
  intros Hchk Hinv Hj Hcli Ha. unfold rstep_t.
  assert (H : nostop (rstep cfg s i)).
  { destruct i as [m| |n h]; cbn [rstep arith_ok] in *.
    - destruct (m_msg m) as [p j|c|t|j].
      + destruct Ha as [A1 A2]. apply on_proposal_nostop; assumption.
      + apply on_commit_nostop; assumption.
      + apply on_timeout_nostop; assumption.
      + apply on_new_view_nostop; assumption.
    - destruct (timer_always_enabled cfg s Hj) as (d & E & _). rewrite E. reflexivity.
    - destruct (_ =? _); reflexivity. }
  pose proof (rstep_just_ok cfg s i) as Hjo.
  destruct (rstep cfg s i) as [[s' es] r]. destruct r as [a|err|p]; try exact H.
  destruct err; try exact H.
  destruct (Hjo s' es _ Hj eq_refl) as [Hj' _].
  destruct (timer_always_enabled cfg s' Hj') as (d & E & _). rewrite E. reflexivity.
Qed.

(* ================================================================== *)
(* 3. the proposer is only ever notified of a justification that is also sent as a new-view *)
(* ================================================================== *)
Definition NN {A} (x : hres A) : Prop :=
  forall j, In (ENotifyProposer j) (snd (fst x)) -> In (ESend (MNewView j)) (snd (fst x)).

Lemma NN_nil {A} s (r : outcome rerr A) : NN (s, [], r).
Proof. intros j []. Qed.

Lemma NN_bind {A B} (x : hres A) (f : rstate -> A -> hres B) :
  NN x -> (forall s1 a, NN (f s1 a)) -> NN (hbind x f).
Proof.
  destruct x as [[s1 es1] r1]. unfold NN; cbn [fst snd]. intros H Hf. unfold hbind.
  destruct r1 as [a|e|p]; cbn [fst snd]; try exact H.
  specialize (Hf s1 a). destruct (f s1 a) as [[s2 es2] r2]. cbn [fst snd] in *.
  intros j Hin. apply in_app_or in Hin. apply in_or_app. destruct Hin; [left|right]; auto.
Qed.

Lemma NN_quiet {A} (x : hres A) : (forall j, ~ In (ENotifyProposer j) (snd (fst x))) -> NN x.
Proof. intros H j Hin. destruct (H j Hin). Qed.

Lemma save_block_NN cfg s q : NN (save_block cfg s q).
Proof.
  unfold save_block. destruct (cache_has _ _ _); [|apply NN_nil]. destruct (_ <? _); [apply NN_nil|].
  destruct (_ =? _); [|apply NN_nil]. intros j [H|[]]; discriminate.
Qed.

Lemma process_commit_qc_NN cfg s q : NN (process_commit_qc cfg s q).
Proof.
  unfold process_commit_qc.
  match goal with |- NN (if ?c then _ else _) => destruct c end; [apply save_block_NN|apply NN_nil].
Qed.

Lemma process_timeout_qc_NN cfg s t : NN (process_timeout_qc cfg s t).
Proof.
  unfold process_timeout_qc. apply NN_bind; [destruct (high_qc t); [apply process_commit_qc_NN|apply NN_nil]|].
  intros. apply NN_nil.
Qed.

Lemma process_justification_NN cfg s j : NN (process_justification cfg s j).
Proof. destruct j; [apply process_commit_qc_NN|apply process_timeout_qc_NN]. Qed.

Lemma start_new_view_NN cfg s v : NN (start_new_view cfg s v).
Proof.
  unfold start_new_view. destruct (get_justification _) as [j|e|p]; try apply NN_nil.
  unfold hbind, hemit, backup_state. destruct (r_high_cqc _); cbn [fst snd];
    intros j0 [H|[H|[H|[]]]]; try discriminate; inversion H; subst; right; right; left; reflexivity.
Qed.

Lemma start_timeout_NN cfg s : NN (start_timeout cfg s).
Proof.
  unfold start_timeout, hbind, backup_state, hemit. apply NN_quiet. intros j.
  destruct (r_view (set_phase s PTimeout) =? 0); cbn [fst snd hret].
  - intros [H|[H|[]]]; discriminate.
  - destruct (get_justification _); cbn [fst snd]; intros H;
      repeat (destruct H as [H|H]; [discriminate|]); destruct H.
Qed.

Ltac nn_match :=
  match goal with
  | |- NN (if ?c then _ else _) => destruct c
  | |- NN (match ?x with _ => _ end) => destruct x
  end; try (unfold hfail, hpanic, hret; apply NN_nil).

Lemma tail_NN cfg s v : NN (hbind (lift s (num_next (cchk cfg) v)) (fun s nv => start_new_view cfg s nv)).
Proof. apply NN_bind; [destruct (num_next _ _); apply NN_nil|]. intros. apply start_new_view_NN. Qed.

Lemma rstep_NN cfg s i : NN (rstep cfg s i).
Proof.
  destruct i as [m| |n h]; cbn [rstep].
  - destruct (m_msg m) as [p j|c|t|j].
    + unfold on_proposal. apply NN_bind; [destruct (justification_view _ _); apply NN_nil|]. intros s1 mv. cbv zeta.
      do 4 nn_match. apply NN_bind; [destruct (get_implied_block _ _ _ _); apply NN_nil|]. intros s2 [n oh].
      nn_match. apply NN_bind; [repeat nn_match|]. intros s3 hash.
      apply NN_bind; [apply process_justification_NN|]. intros s4 _.
      unfold hbind, backup_state, hemit. intros j0 [H|[H|[]]]; discriminate.
    + unfold on_commit. nn_match. cbv zeta. repeat nn_match.
      apply NN_bind; [apply process_commit_qc_NN|]. intros. apply tail_NN.
    + unfold on_timeout. nn_match. cbv zeta. repeat nn_match.
      apply NN_bind; [apply process_timeout_qc_NN|]. intros. apply tail_NN.
    + unfold on_new_view. apply NN_bind; [destruct (justification_view _ _); apply NN_nil|]. intros s1 mv. cbv zeta.
      do 4 nn_match. apply NN_bind; [apply process_justification_NN|]. intros s2 _.
      nn_match. apply start_new_view_NN.
  - apply start_timeout_NN.
  - destruct (_ =? _); [|apply NN_nil]. intros j [H|[]]; discriminate.
Qed.

Lemma rstep_t_NN cfg s i : NN (rstep_t cfg s i).
Proof.
  unfold rstep_t. pose proof (rstep_NN cfg s i) as H. destruct (rstep cfg s i) as [[s' es] r].
  destruct r as [a|err|p]; try exact H. destruct err; try exact H.
  pose proof (start_timeout_NN cfg s') as H2. destruct (start_timeout cfg s') as [[s2 es2] r2].
  unfold NN in *; cbn [fst snd] in *. intros j Hin. apply in_app_or in Hin. apply in_or_app.
  destruct Hin; [left|right]; auto.
Qed.

Lemma last_notify_none es : (forall j, ~ In (ENotifyProposer j) es) -> last_notify es = None.
Proof.
  intros H. destruct (last_notify es) as [j|] eqn:E; [|reflexivity].
  apply ProtocolRefinesInv.last_notify_in in E. destruct (H j E).
Qed.

Lemma start_timeout_no_notify cfg s j : ~ In (ENotifyProposer j) (snd (fst (start_timeout cfg s))).
Proof.
  unfold start_timeout, hbind, backup_state, hemit.
  destruct (r_view (set_phase s PTimeout) =? 0); cbn [fst snd hret].
  - intros [H|[H|[]]]; discriminate.
  - destruct (get_justification _); cbn [fst snd]; intros H;
      repeat (destruct H as [H|H]; [discriminate|]); destruct H.
Qed.

Lemma node_boot_notify c d f n : n_notify (fst (node_boot c d f n)) = None.
Proof.
  unfold node_boot. destruct (rprologue c (rstart c d f n)) as [[s1 es] r] eqn:E.
  destruct (apply_effects d n es). cbn [fst n_notify]. apply last_notify_none. intros j Hin.
  unfold rprologue in E. destruct (r_view (rstart c d f n) =? 0).
  - pose proof (start_timeout_no_notify c (rstart c d f n) j) as H. rewrite E in H. exact (H Hin).
  - unfold hret in E. inversion E; subst. destruct Hin.
Qed.

Theorem preach_notify_ok P s : preach P s -> forall k j, n_notify (g_node s k) = Some j ->
  justification_verify (p_g P) (p_e P) (p_C P) j = Ok tt.
Proof.
  induction 1 as [|s s' Hr IH Hs]; intros k0 j0.
  - cbn [ginit g_node]. unfold boot0. rewrite node_boot_notify. discriminate.
  - assert (Hin : forall k i, n_alive (g_node s k) = true ->
              n_notify (fst (node_input (pcfg P k) (g_node s k) i)) = Some j0 ->
              justification_verify (p_g P) (p_e P) (p_C P) j0 = Ok tt).
    { intros k i Hal. unfold node_input.
      destruct (preach_LI P s Hr k) as [_ HI]. destruct (HI Hal) as (Hc & Hk & _).
      pose proof (ReplicaJustified.good_rstep_t (pcfg P k) (n_live (g_node s k)) i Hc Hk) as [_ Hg].
      pose proof (rstep_t_NN (pcfg P k) (n_live (g_node s k)) i) as Hnn.
      destruct (rstep_t (pcfg P k) (n_live (g_node s k)) i) as [[s1 es] r].
      destruct (apply_effects _ _ es). cbn [fst n_notify]. unfold notify_upd.
      destruct (last_notify es) as [j'|] eqn:El.
      - intros Hj. inversion Hj; subst j'. apply ProtocolRefinesInv.last_notify_in in El.
        specialize (Hnn j0 El). unfold ReplicaJustified.effs_of in Hg. cbn [fst snd] in Hg, Hnn.
        rewrite Forall_forall in Hg. exact (Hg _ Hnn).
      - apply IH. }
    destruct Hs as [s k m Hk Hal Hin0|s k Hk Hal|s k i j applied x Hk Hal Hci Hcr|s k Hk
                   |s k n h q Hk Hal Hv Hkn Hn Hh|s k p j Hk Hal Hnt|s m Ha];
      cbn [absorb add_msg g_node]; try (apply IH); unfold set_node;
      (destruct (k0 =? k) eqn:E; [|apply IH]).
    + apply Hin; exact Hal.
    + apply Hin; exact Hal.
    + unfold node_crash in Hcr.
      destruct (rstep_t (pcfg P k) (n_live (g_node s k)) i) as [[s1 es] r].
      destruct (cut_at_persist es j applied) as [pre|]; [|discriminate].
      destruct (apply_effects _ _ pre) as [d' next'].
      pose proof (node_boot_notify (pcfg P k) d' (r_store_first (n_live (g_node s k))) next') as Hb.
      destruct (node_boot (pcfg P k) d' (r_store_first (n_live (g_node s k))) next') as [nd' es1].
      inversion Hcr; subst x. cbn [fst] in *. rewrite Hb. discriminate.
    + unfold node_restart. rewrite node_boot_notify. discriminate.
    + apply Hin; exact Hal.
Qed.

(* ================================================================== *)
(* 4. arithmetic headroom of the messages of a round                   *)
(* ================================================================== *)
Section Arith.
  Variable P : params.
  Hypothesis HP : params_ok P.
  Notation hon := (honestb P).
  Notation cfg := (pcfg P).
  Notation C := (p_C P).

  Lemma high_qc_in t q : high_qc t = Some q -> In q (just_cqcs (JTimeout t)).
  Proof.
    unfold high_qc. intros H.
    destruct (ProtocolRefinesAbs.high_qc_from_spec (tqmap t) None _ H) as ([H1|(en & q' & Hin & Hq & Heq)] & _);
      [discriminate|]. inversion Heq; subst q'. cbn [just_cqcs]. apply in_flat_map. exists en.
    split; [exact Hin|]. rewrite Hq. left. reflexivity.
  Qed.

  Lemma implied_ok j :
    justification_verify (p_g P) (p_e P) C j = Ok tt ->
    (forall q, In q (just_cqcs j) -> hnum (cprop (qmsg q)) + 1 < U64) ->
    exists r, @get_implied_block unit true C (p_first P) j = Ok r.
  Proof.
    intros Hv Hb. apply justification_verify_iff in Hv. destruct j as [q|t]; cbn [get_implied_block].
    - rewrite (num_next_ok _ (Hb q (or_introl eq_refl))). cbn [bind]. eauto.
    - destruct (ProtocolRefinesAbs.tqc_verify_parts P t Hv) as (Hen & _).
      assert (Hl : Forall (fun en => length (snd en) = length C) (tqmap t)).
      { eapply Forall_impl; [|exact Hen]. intros en H. apply H. }
      unfold high_vote. destruct (ProtocolRefinesAbs.high_vote_count_spec P (tqmap t) Hl []) as (cnt & Hc & _).
      rewrite Hc. cbn [bind].
      assert (Hq : forall q, high_qc t = Some q -> @num_next unit true (hnum (cprop (qmsg q))) = Ok (hnum (cprop (qmsg q)) + 1)).
      { intros q Hq. apply num_next_ok. apply Hb. apply high_qc_in. exact Hq. }
      destruct (filter _ cnt) as [|x [|y l]]; cbn [bind];
        destruct (high_qc t) as [q|] eqn:Eq; try (rewrite (Hq q eq_refl); cbn [bind]); eauto;
        destruct (hnum (cprop (qmsg q)) <? hnum (fst x)); try (rewrite (Hq q eq_refl); cbn [bind]); eauto.
  Qed.

  Lemma gq_number_bound s q :
    preach P s -> ProtocolRefinesStep.gq (cfg 0) hon (g_soup s) q ->
    hnum (cprop (qmsg q)) <= p_first P + vnum (cview (qmsg q)).
  Proof.
    intros Hr Hq. destruct (ProtocolRefinesInv.preach_inv P HP s Hr) as [a G].
    pose proof (ProtocolRefinesInv.gq_valid P (g_soup s) (g_plog s) a q
                  (ProtocolRefinesInv.gi_commit _ _ _ G) (ProtocolRefinesInv.gi_votes _ _ _ G) Hq) as Hv.
    exact (SafetyAbsNumbers.cert_number_bound (cweights C) (ProtocolRefinesAbs.abyz P) (p_first P)
             (ProtocolRefinesAbs.committee_ok_W P HP) a _ (ProtocolRefinesInv.gi_reach _ _ _ G) Hv).
  Qed.

  (* certificates of a justification that verifies and contains only known signatures *)
  Lemma just_cqcs_good s j q :
    justification_verify (p_g P) (p_e P) C j = Ok tt -> ProtocolRefinesStep.kj hon (g_soup s) j ->
    In q (just_cqcs j) -> ProtocolRefinesStep.gq (cfg 0) hon (g_soup s) q.
  Proof.
    intros Hv Hk Hin. apply justification_verify_iff in Hv. destruct j as [q0|t]; cbn [just_cqcs ProtocolRefinesStep.kj] in *.
    - destruct Hin as [<-|[]]. split; assumption.
    - apply in_flat_map in Hin. destruct Hin as (en & Hen & Hq).
      destruct (thq (fst en)) as [q'|] eqn:Eq; [|destruct Hq]. destruct Hq as [<-|[]].
      destruct (ProtocolRefinesAbs.tqc_verify_parts P t Hv) as (Hall & _). rewrite Forall_forall in Hall.
      destruct (Hall en Hen) as (_ & _ & _ & Htv). apply timeout_verify_iff in Htv. destruct Htv as (_ & _ & Htv).
      split; [apply Htv; exact Eq|]. destruct Hk as [_ Hk]. exact (Hk en Hen q' Eq).
  Qed.

  Lemma just_view_bound s j B :
    preach P s -> justification_verify (p_g P) (p_e P) C j = Ok tt ->
    ProtocolRefinesStep.kj hon (g_soup s) j -> (forall k, hon k = true -> dview s k <= B) ->
    just_vnum j <= B.
  Proof.
    intros Hr Hv Hk HB. apply justification_verify_iff in Hv. destruct j as [q|t]; cbn [just_vnum ProtocolRefinesStep.kj] in *.
    - destruct (cqc_view_bound P HP s q Hr (conj Hv Hk)) as (k' & Hk' & Hle). specialize (HB k' Hk'). lia.
    - destruct (tqc_view_bound P HP s t Hr Hv Hk) as (k' & Hk' & Hle). specialize (HB k' Hk'). lia.
  Qed.

  Lemma proposal_arith s j B :
    preach P s -> ProtocolRefinesStep.kj hon (g_soup s) j -> (forall k, hon k = true -> dview s k <= B) ->
    p_first P + B + 1 < U64 ->
    justification_verify (p_g P) (p_e P) C j = Ok tt ->
    exists r, @get_implied_block unit true C (p_first P) j = Ok r.
  Proof.
    intros Hr Hk HB Hh Hv. apply implied_ok; [exact Hv|]. intros q Hin.
    pose proof (just_cqcs_good s j q Hv Hk Hin) as Hg.
    pose proof (gq_number_bound s q Hr Hg) as Hn.
    destruct (cqc_view_bound P HP s q Hr Hg) as (k' & Hk' & Hle). specialize (HB k' Hk'). lia.
  Qed.
End Arith.

(* ================================================================== *)
(* 5. the block store's next number follows the queued blocks; the cache invariant holds in
      every reachable state                                              *)
(* ================================================================== *)
Definition nxt (es : list effect) (n : Z) : Z := snd (apply_effects durable_default n es).

Lemma snd_apply es : forall d n, snd (apply_effects d n es) = nxt es n.
Proof.
  unfold nxt. induction es as [|e es IH]; intros d n; [reflexivity|].
  destruct e; cbn [apply_effects].
  - rewrite (IH d0 n). reflexivity.
  - apply IH.
  - apply IH.
  - apply IH.
Qed.

Lemma nxt_cons_q n0 h es n : nxt (EQueueBlock n0 h :: es) n = nxt es (if n =? n0 then n0 + 1 else n).
Proof. reflexivity. Qed.

Lemma nxt_cons_other e es n : (forall n0 h, e <> EQueueBlock n0 h) -> nxt (e :: es) n = nxt es n.
Proof.
  intros H. unfold nxt. destruct e; cbn [apply_effects]; try reflexivity.
  - rewrite !snd_apply. reflexivity.
  - exfalso. eapply H. reflexivity.
Qed.

Lemma nxt_app a : forall b n, nxt (a ++ b) n = nxt b (nxt a n).
Proof.
  induction a as [|e a IH]; intros b n; [reflexivity|]. cbn [app].
  destruct e as [d|m|n0 h|j].
  - rewrite !nxt_cons_other by (intros; discriminate). apply IH.
  - rewrite !nxt_cons_other by (intros; discriminate). apply IH.
  - rewrite !nxt_cons_q. apply IH.
  - rewrite !nxt_cons_other by (intros; discriminate). apply IH.
Qed.

Lemma nxt_mono es : forall n, n <= nxt es n.
Proof.
  induction es as [|e es IH]; intros n; [unfold nxt; cbn; lia|].
  destruct e as [d|m|n0 h|j].
  - rewrite nxt_cons_other by (intros; discriminate). apply IH.
  - rewrite nxt_cons_other by (intros; discriminate). apply IH.
  - rewrite nxt_cons_q. specialize (IH (if n =? n0 then n0 + 1 else n)).
    destruct (n =? n0) eqn:E; [apply Z.eqb_eq in E|]; lia.
  - rewrite nxt_cons_other by (intros; discriminate). apply IH.
Qed.

Definition QB {A} (s0 : rstate) (x : hres A) : Prop := nxt (snd (fst x)) (r_store_next s0) = r_store_next (fst (fst x)).

Lemma QB_bind {A B} s0 (x : hres A) (f : rstate -> A -> hres B) :
  QB s0 x -> (forall s1 a, QB s1 (f s1 a)) -> QB s0 (hbind x f).
Proof.
  destruct x as [[s1 es1] r1]. unfold QB; cbn [fst snd]. intros H Hf. unfold hbind.
  destruct r1 as [a|e|p]; cbn [fst snd]; try exact H.
  specialize (Hf s1 a). destruct (f s1 a) as [[s2 es2] r2]. cbn [fst snd] in *.
  rewrite nxt_app, H. exact Hf.
Qed.

Lemma QB_nil {A} s0 s (r : outcome rerr A) : r_store_next s = r_store_next s0 -> QB s0 (s, [], r).
Proof. intros H. unfold QB, nxt; cbn. auto. Qed.

Lemma save_block_QB cfg s q : QB s (save_block cfg s q).
Proof.
  unfold save_block. destruct (cache_has _ _ _); [|apply QB_nil; reflexivity].
  destruct (_ <? _); [apply QB_nil; reflexivity|].
  destruct (r_store_next s =? _) eqn:E; [|apply QB_nil; reflexivity].
  unfold QB, nxt; cbn [fst snd apply_effects set_store_next r_store_next]. rewrite E. reflexivity.
Qed.

Lemma process_commit_qc_QB cfg s q : QB s (process_commit_qc cfg s q).
Proof.
  unfold process_commit_qc.
  match goal with |- QB _ (if ?c then _ else _) => destruct c end; [|apply QB_nil; reflexivity].
  exact (save_block_QB cfg (set_high_cqc s (Some q)) q).
Qed.

Lemma process_timeout_qc_QB cfg s t : QB s (process_timeout_qc cfg s t).
Proof.
  unfold process_timeout_qc. apply QB_bind; [destruct (high_qc t); [apply process_commit_qc_QB|apply QB_nil; reflexivity]|].
  intros s1 _. unfold hret. apply QB_nil.
  match goal with |- r_store_next (if ?c then _ else _) = _ => destruct c end; reflexivity.
Qed.

Lemma process_justification_QB cfg s j : QB s (process_justification cfg s j).
Proof. destruct j; [apply process_commit_qc_QB|apply process_timeout_qc_QB]. Qed.

Lemma QB_noq {A} s0 s es (r : outcome rerr A) : r_store_next s = r_store_next s0 ->
  (forall n h, ~ In (EQueueBlock n h) es) -> QB s0 (s, es, r).
Proof.
  intros Hn Hq. unfold QB; cbn [fst snd]. rewrite <- Hn. clear Hn.
  generalize (r_store_next s). induction es as [|e es IH]; intros n; [reflexivity|].
  destruct e as [d|m|n0 h|j]; try (rewrite nxt_cons_other by (intros; discriminate);
    apply IH; intros n1 h1 Hin; apply (Hq n1 h1); right; exact Hin).
  exfalso. apply (Hq n0 h). left. reflexivity.
Qed.

Lemma start_new_view_QB cfg s v : QB s (start_new_view cfg s v).
Proof.
  unfold start_new_view. destruct (get_justification _); try (apply QB_nil; reflexivity).
  unfold hbind, hemit, backup_state. destruct (r_high_cqc _); cbn [fst snd]; apply QB_noq; try reflexivity;
    intros n h H; repeat (destruct H as [H|H]; [discriminate|]); destruct H.
Qed.

Lemma start_timeout_QB cfg s : QB s (start_timeout cfg s).
Proof.
  unfold start_timeout, hbind, backup_state, hemit.
  destruct (r_view (set_phase s PTimeout) =? 0); cbn [fst snd hret].
  - apply QB_noq; [reflexivity|]. intros n h H; repeat (destruct H as [H|H]; [discriminate|]); destruct H.
  - destruct (get_justification _); cbn [fst snd]; apply QB_noq; try reflexivity;
      intros n h H; repeat (destruct H as [H|H]; [discriminate|]); destruct H.
Qed.

Ltac qb_match :=
  match goal with
  | |- QB _ (if ?c then _ else _) => destruct c
  | |- QB _ (match ?x with _ => _ end) => destruct x
  end; try (unfold hfail, hpanic, hret; apply QB_nil; reflexivity).

Lemma tail_QB cfg s v : QB s (hbind (lift s (num_next (cchk cfg) v)) (fun s nv => start_new_view cfg s nv)).
Proof. apply QB_bind; [destruct (num_next _ _); apply QB_nil; reflexivity|]. intros. apply start_new_view_QB. Qed.

Lemma QB_rebase {A} s0 s1 (x : hres A) : r_store_next s1 = r_store_next s0 -> QB s1 x -> QB s0 x.
Proof. unfold QB. intros ->. auto. Qed.

Lemma rstep_QB cfg s i : QB s (rstep cfg s i).
Proof.
  destruct i as [m| |n h]; cbn [rstep].
  - destruct (m_msg m) as [p j|c|t|j].
    + unfold on_proposal. apply QB_bind; [destruct (justification_view _ _); apply QB_nil; reflexivity|]. intros s1 mv. cbv zeta.
      do 4 qb_match. apply QB_bind; [destruct (get_implied_block _ _ _ _); apply QB_nil; reflexivity|]. intros s2 [n oh].
      qb_match. apply QB_bind; [repeat qb_match|]. intros s3 hash.
      match goal with |- QB _ (hbind (process_justification cfg ?s4 j) _) =>
        apply (QB_rebase s3 s4); [reflexivity|]; apply QB_bind; [apply process_justification_QB|] end.
      intros s5 _. unfold hbind, backup_state, hemit. apply QB_noq; [reflexivity|].
      intros n0 h0 H; repeat (destruct H as [H|H]; [discriminate|]); destruct H.
    + unfold on_commit. qb_match. cbv zeta. repeat qb_match.
      match goal with |- QB _ (hbind (process_commit_qc cfg ?s2 ?q) _) =>
        apply (QB_rebase s s2); [reflexivity|]; apply QB_bind; [apply process_commit_qc_QB|] end.
      intros. apply tail_QB.
    + unfold on_timeout. qb_match. cbv zeta. repeat qb_match.
      match goal with |- QB _ (hbind (process_timeout_qc cfg ?s2 ?q) _) =>
        apply (QB_rebase s s2); [reflexivity|]; apply QB_bind; [apply process_timeout_qc_QB|] end.
      intros. apply tail_QB.
    + unfold on_new_view. apply QB_bind; [destruct (justification_view _ _); apply QB_nil; reflexivity|]. intros s1 mv. cbv zeta.
      do 4 qb_match. apply QB_bind; [apply process_justification_QB|]. intros s2 _.
      qb_match. apply start_new_view_QB.
  - apply start_timeout_QB.
  - destruct (r_store_next s =? n) eqn:E; [|apply QB_nil; reflexivity].
    unfold QB, nxt; cbn [fst snd apply_effects set_store_next r_store_next]. rewrite E. reflexivity.
Qed.

Lemma rstep_t_QB cfg s i : QB s (rstep_t cfg s i).
Proof.
  unfold rstep_t. pose proof (rstep_QB cfg s i) as H. destruct (rstep cfg s i) as [[s' es] r].
  destruct r as [a|err|p]; try exact H. destruct err; try exact H.
  pose proof (start_timeout_QB cfg s') as H2. destruct (start_timeout cfg s') as [[s2 es2] r2].
  unfold QB in *; cbn [fst snd] in *. rewrite nxt_app, H. exact H2.
Qed.

(* ---------- the cache invariant in every reachable state ---------- *)
Definition DLI (d : durable) (x : Z) : Prop := forall e, In e (d_proposals d) -> fst e <= x.

Lemma proposals_of_key c e : In e (proposals_of c) -> exists e0, In e0 c /\ fst e0 = fst e.
Proof.
  unfold proposals_of. intros H. apply in_flat_map in H. destruct H as (e0 & H0 & H1).
  apply in_map_iff in H1. destruct H1 as (p & <- & _). exists e0. auto.
Qed.

Lemma CLI_backup cfg s : CLI s -> DLI (backup cfg s) (r_store_next s).
Proof.
  intros (H1 & _) e He. cbn [backup d_proposals] in He. apply proposals_of_key in He.
  destruct He as (e0 & H0 & <-). auto.
Qed.

Lemma fold_insert_key l : forall c e,
  In e (fold_left (fun c p => cache_insert c (fst p) (snd p)) l c) ->
  In e c \/ exists p, In p l /\ fst p = fst e.
Proof.
  induction l as [|p l IH]; intros c e H; cbn [fold_left] in H; [left; exact H|].
  destruct (IH _ _ H) as [H1|(p' & Hp & Hf)].
  - apply cache_insert_in in H1. destruct H1 as [H1|H1]; [right; exists p; split; [left; reflexivity|auto]|left; exact H1].
  - right. exists p'. split; [right; exact Hp|exact Hf].
Qed.

Lemma CLI_rstart cfg d f n : DLI d n -> f <= n -> 0 <= f -> CLI (rstart cfg d f n).
Proof.
  intros Hd Hf H0. unfold rstart, CLI. cbn [r_cache r_store_next r_store_first]. split; [|auto].
  intros e He. apply fold_insert_key in He. destruct He as [[]|(p & Hp & <-)].
  destruct (d_epoch d =? ce cfg); [exact (Hd p Hp)|destruct Hp].
Qed.

Lemma last_persist_cases es : forall d, last_persist es d = d \/ In (EPersist (last_persist es d)) es.
Proof.
  induction es as [|e es IH]; intros d; [left; reflexivity|].
  destruct e as [d'|m|n h|j]; cbn [last_persist fold_left]; fold (last_persist es).
  - fold (last_persist es d'). destruct (IH d') as [H|H]; [right; left; rewrite H; reflexivity|right; right; exact H].
  - fold (last_persist es d). destruct (IH d) as [H|H]; [left; exact H|right; right; exact H].
  - fold (last_persist es d). destruct (IH d) as [H|H]; [left; exact H|right; right; exact H].
  - fold (last_persist es d). destruct (IH d) as [H|H]; [left; exact H|right; right; exact H].
Qed.

(* node-level: volatile and durable parts *)
Definition NC (nd : node) : Prop := CLI (n_live nd) /\ DLI (n_dur nd) (r_store_next (n_live nd)).

Lemma step_NC cfg s i d : cchk cfg = true -> CLI s -> DLI d (r_store_next s) ->
  let '(s', es, r) := rstep_t cfg s i in
  CLI s' /\ DLI (last_persist es d) (r_store_next s') /\ r_store_next s' = nxt es (r_store_next s).
Proof.
  intros Hchk Hc Hd. pose proof (rstep_t_CLI cfg s i Hc) as H1. pose proof (rstep_t_QB cfg s i) as H2.
  pose proof (rstep_t_shape cfg s i) as Hsh.
  destruct (rstep_t cfg s i) as [[s' es] r]. unfold SIP, QB in *; cbn [fst snd] in *.
  split; [exact H1|]. split; [|symmetry; exact H2].
  destruct (last_persist_cases es d) as [E|Hin].
  - rewrite E. intros e He. specialize (Hd e He). pose proof (nxt_mono es (r_store_next s)). lia.
  - destruct (shape_persist _ _ _ _ _ _ _ _ Hsh Hin) as [E _]. rewrite E. apply CLI_backup. exact H1.
Qed.

Lemma prologue_NC cfg s d : cchk cfg = true -> CLI s -> DLI d (r_store_next s) ->
  let '(s', es, r) := rprologue cfg s in
  CLI s' /\ DLI (last_persist es d) (r_store_next s') /\ r_store_next s' = r_store_next s.
Proof.
  intros Hchk Hc Hd. unfold rprologue. destruct (r_view s =? 0).
  - pose proof (start_timeout_CLI cfg s Hc) as H1. pose proof (start_timeout_QB cfg s) as H2.
    pose proof (start_timeout_shape (cchk cfg) cfg s s (core_eq_refl s)) as Hsh.
    assert (Hnx : r_store_next (fst (fst (start_timeout cfg s))) = r_store_next s).
    { unfold start_timeout, hbind, backup_state, hemit. destruct (_ =? 0); cbn [fst hret]; [reflexivity|].
      destruct (get_justification _); reflexivity. }
    destruct (start_timeout cfg s) as [[s' es] r]. unfold SIP, QB in *; cbn [fst snd] in *.
    split; [exact H1|]. split; [|exact Hnx].
    destruct (last_persist_cases es d) as [E|Hin].
    + rewrite E, Hnx. exact Hd.
    + assert (Hsh' : shape Rany (cchk cfg) cfg s (s', es, r)) by (eapply shape_weaken; [|exact Hsh]; intros; exact I).
      destruct (shape_persist _ _ _ _ _ _ _ _ Hsh' Hin) as [E _]. rewrite E. apply CLI_backup. exact H1.
  - unfold hret. cbn [last_persist fold_left]. auto.
Qed.

Lemma node_boot_NC cfg d f n : cchk cfg = true -> DLI d n -> f <= n -> 0 <= f ->
  NC (fst (node_boot cfg d f n)).
Proof.
  intros Hchk Hd Hf H0. unfold node_boot.
  pose proof (prologue_NC cfg (rstart cfg d f n) d Hchk (CLI_rstart cfg d f n Hd Hf H0) Hd) as H.
  destruct (rprologue cfg (rstart cfg d f n)) as [[s1 es] r].
  pose proof (apply_effects_last es d n) as Hl. destruct (apply_effects d n es) as [d1 n1].
  cbn [fst n_live n_dur] in *. subst d1. destruct H as (H1 & H2 & H3). split; assumption.
Qed.

Lemma node_input_NC cfg nd i : cchk cfg = true -> NC nd -> NC (fst (node_input cfg nd i)).
Proof.
  intros Hchk [Hc Hd]. unfold node_input.
  pose proof (step_NC cfg (n_live nd) i (n_dur nd) Hchk Hc Hd) as H.
  destruct (rstep_t cfg (n_live nd) i) as [[s' es] r].
  pose proof (apply_effects_last es (n_dur nd) (r_store_next (n_live nd))) as Hl.
  destruct (apply_effects (n_dur nd) (r_store_next (n_live nd)) es) as [d' n'].
  cbn [fst n_live n_dur] in *. subst d'. destruct H as (H1 & H2 & _). split; assumption.
Qed.

Lemma node_crash_NC cfg nd i j applied x : cchk cfg = true -> NC nd ->
  node_crash cfg nd i j applied = Some x -> NC (fst x).
Proof.
  intros Hchk [Hc Hd] Hcr. unfold node_crash in Hcr.
  pose proof (step_NC cfg (n_live nd) i (n_dur nd) Hchk Hc Hd) as H.
  pose proof (rstep_t_shape cfg (n_live nd) i) as Hsh.
  destruct (rstep_t cfg (n_live nd) i) as [[s' es] r]. destruct H as (H1 & _ & H3).
  destruct (cut_at_persist es j applied) as [pre|] eqn:Ecut; [|discriminate].
  pose proof (apply_effects_last pre (n_dur nd) (r_store_next (n_live nd))) as Hl.
  pose proof (snd_apply pre (n_dur nd) (r_store_next (n_live nd))) as Hn.
  destruct (apply_effects (n_dur nd) (r_store_next (n_live nd)) pre) as [d' next']. cbn [fst snd] in Hl, Hn. subst d' next'.
  assert (Hfirst : r_store_first (n_live nd) <= nxt pre (r_store_next (n_live nd)) /\ 0 <= r_store_first (n_live nd)).
  { destruct Hc as (_ & A2 & A3). pose proof (nxt_mono pre (r_store_next (n_live nd))). lia. }
  assert (Hdl : DLI (last_persist pre (n_dur nd)) (nxt pre (r_store_next (n_live nd)))).
  { destruct (last_persist_cases pre (n_dur nd)) as [E|Hin].
    - rewrite E. intros e He. specialize (Hd e He). pose proof (nxt_mono pre (r_store_next (n_live nd))). lia.
    - (* the persisted state is the final state of the step, and the prefix contains all its queued blocks *)
      assert (Hin' : In (EPersist (last_persist pre (n_dur nd))) es) by (eapply cut_at_persist_incl; eassumption).
      destruct (shape_persist _ _ _ _ _ _ _ _ Hsh Hin') as [E _]. rewrite E.
      assert (Hnx : nxt pre (r_store_next (n_live nd)) = r_store_next s').
      { rewrite H3. unfold shape in Hsh.
        destruct Hsh as [(Hq & _)|[(qs & c & -> & Hq & _)|(qs & rest & -> & Hq & _ & Hr & _)]].
        - rewrite (cut_quiet_none _ _ _ Hq) in Ecut. discriminate.
        - assert (Hs : Forall is_send [ESend (MCommit c)]) by (repeat constructor).
          destruct (cut_one_persist _ _ _ _ _ _ Hq Hs Ecut) as (_ & ->).
          rewrite !nxt_app. destruct applied; reflexivity.
        - assert (Hs : Forall is_send rest) by (eapply Forall_impl; [|exact Hr]; apply send_ok_is_send).
          destruct (cut_one_persist _ _ _ _ _ _ Hq Hs Ecut) as (_ & ->).
          rewrite !nxt_app. assert (Hrest : forall n, nxt rest n = n).
          { clear - Hs. induction Hs as [|e rest He _ IH]; intros n; [reflexivity|].
            destruct e; try destruct He. rewrite nxt_cons_other by (intros; discriminate). apply IH. }
          destruct applied; cbn [app]; rewrite ?nxt_cons_other by (intros; discriminate); rewrite ?Hrest; reflexivity. }
      rewrite Hnx. apply CLI_backup. exact H1. }
  pose proof (node_boot_NC cfg _ (r_store_first (n_live nd)) _ Hchk Hdl (proj1 Hfirst) (proj2 Hfirst)) as Hb.
  destruct (node_boot cfg _ (r_store_first (n_live nd)) _) as [nd' es1].
  inversion Hcr; subst x. exact Hb.
Qed.

Theorem preach_NC P s : 0 <= p_first P -> preach P s -> forall k, NC (g_node s k).
Proof.
  intros H0. induction 1 as [|s s' Hr IH Hs]; intros k0.
  - cbn [ginit g_node]. unfold boot0. apply node_boot_NC; [reflexivity|intros e []|lia|exact H0].
  - destruct Hs as [s k m Hk Hal Hin0|s k Hk Hal|s k i j applied x Hk Hal Hci Hcr|s k Hk
                   |s k n h q Hk Hal Hv Hkn Hn Hh|s k p j Hk Hal Hnt|s m Ha];
      cbn [absorb add_msg g_node]; try (apply IH); unfold set_node;
      (destruct (k0 =? k) eqn:E; [|apply IH]).
    + apply node_input_NC; [reflexivity|apply IH].
    + apply node_input_NC; [reflexivity|apply IH].
    + exact (node_crash_NC (pcfg P k) (g_node s k) i j applied x eq_refl (IH k) Hcr).
    + unfold node_restart. destruct (IH k) as [Hc Hd]. apply node_boot_NC; [reflexivity|exact Hd|apply Hc|apply Hc].
    + apply node_input_NC; [reflexivity|apply IH].
Qed.

(* ================================================================== *)
(* 6. no honest node stops during a round with headroom                *)
(* ================================================================== *)
Import ProtocolRefinesStep.

Definition msg_view (x : cmsg) : Z :=
  match x with
  | MProposal _ j | MNewView j => just_vnum j
  | MCommit c => vnum (cview c)
  | MTimeout t => vnum (tview t)
  end.

Section NoStopRound.
  Variable P : params.
  Hypothesis HP : params_ok P.
  Variable pay : Z -> Z.
  Variable fetch : gstate -> Z -> option cqc.
  Hypothesis Hfirst : 0 <= p_first P.
  Notation hon := (honestb P).
  Notation cfg := (pcfg P).

  Variable s0 : gstate.
  Hypothesis Hr0 : preach P s0.
  Variables B Bs : Z.
  Hypothesis HB : forall k, hon k = true -> dview s0 k <= B.
  Hypothesis Hh1 : p_first P + B + 2 < U64.
  Hypothesis Hh2 : Bs + 1 < U64.
  Hypothesis Hle : B + 1 <= Bs.

  Definition NSI (t : gstate) : Prop :=
    RInv P (g_soup s0) t /\ (forall k, hon k = true -> up t k) /\
    (forall m, In m (g_soup t) -> msg_view (m_msg m) <= Bs).

  (* what the messages sent by a step can be *)
  Lemma sends_view_bound k live s' es r :
    Sum (cfg k) hon (g_soup s0) live (s', es, r) ->
    Forall (ReplicaJustified.eff_ok (cfg k)) es -> r_view s' <= B + 1 ->
    forall x, In (ESend x) es -> msg_view x <= B + 1.
  Proof.
    intros (Hev & _ & Ht) Hg Hv x Hin.
    assert (Hnv : forall j, In (ESend (MNewView j)) es -> ProtocolRefinesStep.kj hon (g_soup s0) j -> just_vnum j <= B).
    { intros j Hj Hk. rewrite Forall_forall in Hg. specialize (Hg _ Hj). cbn in Hg.
      exact (just_view_bound P HP s0 j B Hr0 Hg Hk HB). }
    destruct Ht as [(Hqe & _)|[(qs & c & j0 & Hes & Hqe & Hvs)|(qs & rest & Hes & Hqe & (_ & _ & Hrest))]].
    - rewrite Forall_forall in Hqe. destruct (Hqe _ Hin).
    - rewrite Hes in Hin. apply in_app_or in Hin. destruct Hin as [Hin|[Hin|[Hin|[]]]].
      + rewrite Forall_forall in Hqe. destruct (Hqe _ Hin).
      + discriminate.
      + inversion Hin; subst x. cbn [msg_view]. destruct Hvs as (_ & _ & _ & _ & Hv' & _). lia.
    - pose proof Hin as Hin0. rewrite Hes in Hin. apply in_app_or in Hin. destruct Hin as [Hin|[Hin|Hin]].
      + rewrite Forall_forall in Hqe. destruct (Hqe _ Hin).
      + discriminate.
      + rewrite Forall_forall in Hrest. specialize (Hrest _ Hin). cbn [send_spec] in Hrest.
        destruct x as [? ?|?|t|j]; try contradiction; cbn [msg_view].
        * destruct Hrest as [_ ->]. cbn [tview vnum]. exact Hv.
        * specialize (Hnv j Hin0 Hrest). lia.
  Qed.

  Lemma NSI_prim t t' : NSI t -> rprim P (length (g_soup s0)) s0 t t' -> NSI t'.
  Proof.
    intros (HR & Hup & Hsb) Hp.
    pose proof (RInv_prim P (g_soup s0) s0 t t' HR Hp) as HR'.
    destruct HR as (Hr & (l & Hl) & HF).
    destruct Hp as [t|t k i Hlive Hi|t k p j Hlive Hn]; [split; [exact HR'|split; assumption]| |].
    - apply live_node_true in Hlive. destruct Hlive as [Hk Hal].
      set (nd := g_node t k) in *.
      destruct (preach_LI P t Hr k) as [_ HI]. destruct (HI Hal) as (Hc & Hcerts & Hjo & _). fold nd in Hc, Hcerts, Hjo.
      destruct (preach_NC P t Hfirst Hr k) as [Hcli _]. fold nd in Hcli.
      (* arithmetic headroom of the input *)
      assert (Har : arith_ok (cfg k) i).
      { destruct i as [m| |nn h]; cbn [arith_ok]; try exact I.
        destruct Hi as (idx & Hidx & Hm).
        assert (Hint : In m (g_soup t)) by (eapply nth_error_In; exact Hm).
        assert (HinS : In m (g_soup s0)).
        { rewrite Hl, nth_error_app1 in Hm by exact Hidx. eapply nth_error_In; exact Hm. }
        pose proof (Hsb m Hint) as Hmv. pose proof (fi_soup _ _ _ HF m Hint) as Hkm.
        destruct (m_msg m) as [pp j|c|tt0|j]; cbn [msg_view ProtocolRefinesStep.kmsg] in *; try lia.
        split; [lia|]. intros Hv. apply (proposal_arith P HP s0 j B Hr0 Hkm HB); [lia|exact Hv]. }
      pose proof (rstep_t_nostop (cfg k) (n_live nd) i eq_refl Hc Hjo Hcli Har) as Hns.
      assert (Hnode : g_node (absorb t k (node_input (cfg k) nd i)) k = fst (node_input (cfg k) nd i)).
      { cbn [absorb g_node]. unfold set_node. rewrite Z.eqb_refl. reflexivity. }
      assert (Hal' : n_alive (fst (node_input (cfg k) nd i)) = true).
      { unfold node_input. destruct (rstep_t (cfg k) (n_live nd) i) as [[s1 es1] r1]. destruct (apply_effects _ _ es1).
        cbn [fst n_alive]. unfold nostop in Hns. cbn [snd] in Hns. apply negb_true_iff. exact Hns. }
      assert (Hup' : forall k', hon k' = true -> up (absorb t k (node_input (cfg k) nd i)) k').
      { intros k' Hk'. unfold up. cbn [absorb g_node]. unfold set_node.
        destruct (k' =? k) eqn:E; [exact Hal'|apply Hup; exact Hk']. }
      split; [exact HR'|]. split; [exact Hup'|].
      intros m' Hin'. rewrite absorb_soup in Hin'. apply in_app_or in Hin'. destruct Hin' as [Hin'|Hin']; [auto|].
      apply ProtocolRefinesInv.in_sends_of in Hin'. destruct Hin' as (x & Hx & ->). cbn [m_msg].
      destruct (round_cert_bound P HP pay fetch s0 _ k B Hr0 HR' HB Hk (Hup' k Hk)) as (Hvb & _).
      unfold hview in Hvb. rewrite Hnode in Hvb.
      destruct i as [m| |nn h].
      + destruct Hi as (idx & Hidx & Hm).
        assert (HinS : In m (g_soup s0)).
        { rewrite Hl, nth_error_app1 in Hm by exact Hidx. eapply nth_error_In; exact Hm. }
        assert (HS : Sum (cfg k) hon (g_soup s0) (n_live nd) (rstep_t (cfg k) (n_live nd) (IMsg m))).
        { apply rstep_t_Sum; [reflexivity|apply (fi_certs _ _ _ HF k Hk)|]. split.
          - apply (fi_soup _ _ _ HF). eapply nth_error_In; exact Hm.
          - intros Hs _. unfold ProtocolRefinesStep.sent. destruct m as [mk ms mm]. cbn in *. subst ms. exact HinS. }
        pose proof (ReplicaJustified.good_rstep_t (cfg k) (n_live nd) (IMsg m) Hc Hcerts) as [_ Hg].
        unfold node_input in Hx, Hvb. destruct (rstep_t (cfg k) (n_live nd) (IMsg m)) as [[s1 es1] r1].
        destruct (apply_effects _ _ es1). cbn [fst snd n_live] in *.
        pose proof (sends_view_bound k _ s1 es1 r1 HS Hg Hvb x Hx). lia.
      + assert (HS : Sum (cfg k) hon (g_soup s0) (n_live nd) (rstep_t (cfg k) (n_live nd) ITimer)).
        { apply rstep_t_Sum; [reflexivity|apply (fi_certs _ _ _ HF k Hk)|exact I]. }
        pose proof (ReplicaJustified.good_rstep_t (cfg k) (n_live nd) ITimer Hc Hcerts) as [_ Hg].
        unfold node_input in Hx, Hvb. destruct (rstep_t (cfg k) (n_live nd) ITimer) as [[s1 es1] r1].
        destruct (apply_effects _ _ es1). cbn [fst snd n_live] in *.
        pose proof (sends_view_bound k _ s1 es1 r1 HS Hg Hvb x Hx). lia.
      + exfalso. unfold node_input in Hx. rewrite rstep_t_sync in Hx.
        destruct (r_store_next (n_live nd) =? nn); cbn [apply_effects snd] in Hx;
          repeat (destruct Hx as [Hx|Hx]; [discriminate|]); destruct Hx.
    - apply live_node_true in Hlive. destruct Hlive as [Hk Hal].
      split; [exact HR'|]. split; [exact Hup|].
      intros m' Hin'. cbn [add_msg g_soup] in Hin'. apply in_app_or in Hin'. destruct Hin' as [Hin'|[<-|[]]]; [auto|].
      cbn [m_msg msg_view].
      pose proof (just_view_bound P HP s0 j B Hr0 (preach_notify_ok P t Hr k j Hn) (fi_notify _ _ _ HF k j Hk Hn) HB). lia.
  Qed.

  Lemma NSI_round : NSI s0 -> NSI (round_body P pay fetch s0).
  Proof.
    intros H0. eapply (rstar_inv P (length (g_soup s0)) s0 NSI).
    - intros t t'. apply NSI_prim.
    - exact H0.
    - apply round_body_star.
  Qed.
End NoStopRound.

(* ================================================================== *)
(* 7. rounds                                                           *)
(* ================================================================== *)
Section NoStopRounds.
  Variable P : params.
  Hypothesis HP : params_ok P.
  Variable pay : Z -> Z.
  Variable fetch : gstate -> Z -> option cqc.
  Hypothesis Hfirst : 0 <= p_first P.
  Notation hon := (honestb P).
  Notation cfg := (pcfg P).

  (* the restart of a node only (re)sends view-0 timeout votes *)
  Lemma node_boot_sends c d f n x : ReplicaLive.dur_ok d ->
    In (ESend x) (snd (node_boot c d f n)) -> msg_view x = 0.
  Proof.
    intros Hd. unfold node_boot. pose proof (rstart_just_ok c d f n Hd) as Hj.
    unfold rprologue. destruct (r_view (rstart c d f n) =? 0) eqn:E0.
    - destruct (timer_always_enabled c (rstart c d f n) Hj) as (d' & E & _). rewrite E.
      rewrite E0. destruct (apply_effects d n _). cbn [snd app]. apply Z.eqb_eq in E0.
      intros [H|[H|[]]]; [discriminate|]. inversion H; subst x. cbn [msg_view tview vnum]. exact E0.
    - unfold hret. cbn [apply_effects snd]. intros [].
  Qed.

  Lemma revive_soup s : preach P s -> forall m, In m (g_soup (revive_all P s)) ->
    In m (g_soup s) \/ msg_view (m_msg m) = 0.
  Proof.
    intros Hr. unfold revive_all.
    assert (H : forall ks t, preach P t -> forall m, In m (g_soup (fold_left (revive1 P) ks t)) ->
              In m (g_soup t) \/ msg_view (m_msg m) = 0).
    { induction ks as [|k ks IH]; intros t Ht m Hin; cbn [fold_left] in Hin; [left; exact Hin|].
      destruct (IH (revive1 P t k) (revive1_reach P t k Ht) m Hin) as [H1|H1]; [|right; exact H1].
      unfold revive1 in H1. destruct (hon k && negb (n_alive (g_node t k))); [|left; exact H1].
      rewrite absorb_soup in H1. apply in_app_or in H1. destruct H1 as [H1|H1]; [left; exact H1|right].
      apply ProtocolRefinesInv.in_sends_of in H1. destruct H1 as (x & Hx & ->). cbn [m_msg].
      unfold node_restart in Hx. eapply node_boot_sends; [|exact Hx]. apply (preach_just_ok P t Ht k). }
    apply H. exact Hr.
  Qed.

  (* one round *)
  Lemma round_no_stop s B Bs :
    preach P s ->
    (forall k, hon k = true -> dview s k <= B) ->
    (forall m, In m (g_soup s) -> msg_view (m_msg m) <= Bs) ->
    p_first P + B + 2 < U64 -> Bs + 1 < U64 -> B + 1 <= Bs -> 0 <= B ->
    let s1 := sync_round P pay fetch s in
    (forall k, hon k = true -> up s1 k) /\
    (forall k, hon k = true -> dview s1 k <= B + 1) /\
    (forall m, In m (g_soup s1) -> msg_view (m_msg m) <= Bs).
  Proof.
    intros Hr HB Hsb Hh1 Hh2 Hle Hnn s1. set (s0 := revive_all P s).
    assert (Hr0 : preach P s0) by (apply revive_all_reach; exact Hr).
    assert (HB0 : forall k, hon k = true -> dview s0 k <= B).
    { intros k Hk. destruct (revive_all_facts P HP s k Hr Hk) as (_ & Hd & _). fold s0 in Hd. rewrite Hd. auto. }
    assert (H0 : NSI P s0 Bs s0).
    { split; [apply RInv_start; assumption|]. split.
      - intros k Hk. apply (revive_all_facts P HP s k Hr Hk).
      - intros m Hin. destruct (revive_soup s Hr m Hin) as [H|H]; [auto|]. lia. }
    pose proof (NSI_round P HP pay fetch Hfirst s0 Hr0 B Bs HB0 Hh1 Hh2 Hle H0) as (HR1 & Hup1 & Hsb1).
    change (round_body P pay fetch s0) with s1 in *.
    split; [exact Hup1|]. split; [|exact Hsb1].
    intros k Hk. assert (Hr1 : preach P s1) by (apply sync_round_reach; exact Hr).
    rewrite (up_dview P HP s1 k Hr1 Hk (Hup1 k Hk)).
    destruct (round_cert_bound P HP pay fetch s0 s1 k B Hr0 HR1 HB0 Hk (Hup1 k Hk)) as (Hb & _). exact Hb.
  Qed.
End NoStopRounds.

Section NoStopIter.
  Variable P : params.
  Hypothesis HP : params_ok P.
  Variable pay : Z -> Z.
  Variable fetch : gstate -> Z -> option cqc.
  Hypothesis Hfirst : 0 <= p_first P.
  Notation hon := (honestb P).

  Lemma no_stop_rounds R : forall s B Bs,
    preach P s ->
    (forall k, hon k = true -> dview s k <= B) ->
    (forall m, In m (g_soup s) -> msg_view (m_msg m) <= Bs) ->
    p_first P + B + Z.of_nat R + 1 < U64 -> Bs + Z.of_nat R < U64 -> B + 1 <= Bs -> 0 <= B ->
    forall r, (1 <= r <= R)%nat -> forall k, hon k = true -> up (sync_rounds P pay fetch r s) k.
  Proof.
    induction R as [|R IH]; intros s B Bs Hr HB Hsb Hh1 Hh2 Hle Hnn r Hrr k Hk; [lia|].
    destruct (round_no_stop P HP pay fetch Hfirst s B Bs Hr HB Hsb ltac:(lia) ltac:(lia) Hle Hnn) as (Hup & HB1 & Hsb1).
    destruct r as [|r]; [lia|]. cbn [sync_rounds]. destruct r as [|r].
    - cbn [sync_rounds]. apply Hup. exact Hk.
    - assert (Hr1 : preach P (sync_round P pay fetch s)) by (apply sync_round_reach; exact Hr).
      assert (Hsb1' : forall m, In m (g_soup (sync_round P pay fetch s)) -> msg_view (m_msg m) <= Bs + 1)
        by (intros m Hin; specialize (Hsb1 m Hin); lia).
      exact (IH (sync_round P pay fetch s) (B + 1) (Bs + 1) Hr1 HB1 Hsb1' ltac:(lia) ltac:(lia) ltac:(lia) ltac:(lia)
                (S r) ltac:(lia) k Hk).
  Qed.
End NoStopIter.
