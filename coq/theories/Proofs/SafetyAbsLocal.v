(* Layer A of the safety argument, part 2: the local facts L1, LT, LQ, LF of DESIGN.md
   Appendix A as one inductive invariant [linv] of the abstract vote-history system, and
   monotonicity of certificate validity. *)
From Coq Require Import ZArith List Bool Lia Arith.
From EC Require Import Model.SafetyAbs Proofs.SafetyAbsLib.
Import ListNotations.
Open Scope Z_scope.
Ltac Zify.zify_post_hook ::= Z.div_mod_to_equations.

Fixpoint votes_increasing (l : list vote) : Prop :=
  match l with
  | [] => True
  | vt :: l' =>
      (forall vt', In vt' l' -> v_who vt' = v_who vt -> v_view vt' < v_view vt) /\
      votes_increasing l'
  end.

Section Local.
  Variable weights : list Z.
  Variable byz : nat -> bool.
  Variable first_block : Z.
  Hypothesis Hok : committee_ok weights byz.

  Notation wsum := (wsum weights).
  Notation member := (member weights).
  Notation honest := (honest weights byz).
  Notation n_total := (n_total weights).
  Notation f_max := (f_max weights).
  Notation q_thr := (q_thr weights).
  Notation s_thr := (s_thr weights).
  Notation valid_cqc := (valid_cqc weights byz).
  Notation valid_tqc := (valid_tqc weights byz).
  Notation valid_just := (valid_just weights byz).
  Notation step := (step weights byz first_block).
  Notation reachable := (reachable weights byz first_block).
  Notation is_implied := (is_implied weights first_block).
  Notation is_high_vote := (is_high_vote weights).
  Notation subquorum_block := (subquorum_block weights).
  Notation implied_of := (implied_of first_block).

  (* ---------------- validity is monotone in the history ---------------- *)
  Lemma valid_cqc_mono st st' c :
    incl (votes st) (votes st') -> valid_cqc st c -> valid_cqc st' c.
  Proof.
    intros Hi [H1 [H2 [H3 H4]]]. split; [|split; [|split]]; auto.
    intros i Hin Hh. destruct (H4 i Hin Hh) as [cq Hc]. exists cq. auto.
  Qed.

  Lemma valid_tqc_mono st st' t :
    incl (votes st) (votes st') -> incl (timeouts st) (timeouts st') ->
    valid_tqc st t -> valid_tqc st' t.
  Proof.
    intros Hv Ht [H1 [H2 [H3 [H4 H5]]]]. split; [|split; [|split; [|split]]]; auto.
    intros i r c Hin Hr. eapply valid_cqc_mono; eauto.
  Qed.

  Lemma valid_just_mono st st' j :
    incl (votes st) (votes st') -> incl (timeouts st) (timeouts st') ->
    valid_just st j -> valid_just st' j.
  Proof.
    destruct j; cbn [SafetyAbs.valid_just]; intros; [eapply valid_cqc_mono|eapply valid_tqc_mono]; eauto.
  Qed.

  Lemma step_incl st st' :
    step st st' -> incl (votes st) (votes st') /\ incl (timeouts st) (timeouts st').
  Proof.
    intros Hs. destruct Hs; cbn [votes timeouts]; split;
      auto using incl_refl, incl_tl.
  Qed.

  Lemma valid_cqc_step st st' c : step st st' -> valid_cqc st c -> valid_cqc st' c.
  Proof. intros Hs. apply valid_cqc_mono. apply (step_incl _ _ Hs). Qed.

  Lemma valid_tqc_step st st' t : step st st' -> valid_tqc st t -> valid_tqc st' t.
  Proof. intros Hs. apply valid_tqc_mono; apply (step_incl _ _ Hs). Qed.

  (* ---------------- every valid certificate has an honest signer ---------------- *)
  Lemma valid_cqc_honest_vote st c :
    valid_cqc st c ->
    exists i cq, In i (aq_signers c) /\ honest i /\
      In {| v_who := i; v_view := aq_view c; v_block := aq_block c; v_cq := cq |} (votes st).
  Proof.
    intros [H1 [H2 [H3 H4]]].
    destruct (quorum_has_honest weights byz Hok _ H1 H2 H3) as [i [Hi Hh]].
    destruct (H4 i Hi Hh) as [cq Hc]. exists i, cq. auto.
  Qed.

  Lemma processed_valid st j c : valid_just st j -> processed_cq j (Some c) -> valid_cqc st c.
  Proof.
    destruct j as [c0|t]; cbn [SafetyAbs.valid_just processed_cq].
    - intros Hv He. inversion He; subst; auto.
    - intros Hv [[i [r [Hin Hr]]] _]. destruct Hv as [_ [_ [_ [_ Hn]]]]. eapply Hn; eauto.
  Qed.

  (* ---------------- the local invariant ---------------- *)
  Definition hvote_ok (st : astate) (i : nat) : Prop :=
    match hvote st i with
    | Some (u, b) =>
        (exists cq, In {| v_who := i; v_view := u; v_block := b; v_cq := cq |} (votes st)) /\
        (forall vt, In vt (votes st) -> v_who vt = i -> v_view vt <= u)
    | None => forall vt, In vt (votes st) -> v_who vt <> i
    end.

  (* LT: the reported high vote is the latest vote at a view <= the timeout view, and no
     vote of that validator at a view <= the timeout view is later than it *)
  Definition tmo_hv_ok (st : astate) (tm : tmo) : Prop :=
    match ar_hv (t_report tm) with
    | Some (u, b) =>
        u <= t_view tm /\
        (exists cq, In {| v_who := t_who tm; v_view := u; v_block := b; v_cq := cq |} (votes st)) /\
        (forall vt, In vt (votes st) -> v_who vt = t_who tm -> v_view vt <= t_view tm ->
                    v_view vt <= u)
    | None => forall vt, In vt (votes st) -> v_who vt = t_who tm -> t_view tm < v_view vt
    end.

  (* LQ for timeouts: the reported certificate is valid and at least as high as the
     certificate processed with any vote at a view <= the timeout view *)
  Definition tmo_hq_ok (st : astate) (tm : tmo) : Prop :=
    (forall c, ar_hq (t_report tm) = Some c -> valid_cqc st c) /\
    (forall vt c, In vt (votes st) -> v_who vt = t_who tm -> v_view vt <= t_view tm ->
       v_cq vt = Some c ->
       exists c', ar_hq (t_report tm) = Some c' /\ aq_view c <= aq_view c').

  Record linv (st : astate) : Prop := {
    li_vhon : forall vt, In vt (votes st) -> honest (v_who vt);
    li_vcur : forall vt, In vt (votes st) -> pos_le (v_view vt, Commit) (cur st (v_who vt));
    li_hvote : forall i, hvote_ok st i;
    li_sorted : votes_increasing (votes st);
    li_l1 : forall vt vt', In vt (votes st) -> In vt' (votes st) ->
              v_who vt = v_who vt' -> v_view vt = v_view vt' -> vt = vt';
    li_thon : forall tm, In tm (timeouts st) -> honest (t_who tm);
    li_tcur : forall tm, In tm (timeouts st) -> pos_le (t_view tm, Timeout) (cur st (t_who tm));
    li_thv : forall tm, In tm (timeouts st) -> tmo_hv_ok st tm;
    li_hqvalid : forall i c, hq st i = Some c -> valid_cqc st c;
    li_vcq : forall vt c, In vt (votes st) -> v_cq vt = Some c ->
               valid_cqc st c /\
               exists c', hq st (v_who vt) = Some c' /\ aq_view c <= aq_view c';
    li_thq : forall tm, In tm (timeouts st) -> tmo_hq_ok st tm;
    li_first : forall vt, In vt (votes st) -> first_block <= bnum (v_block vt)
  }.

  Lemma linv_init : linv init.
  Proof.
    constructor; cbn [init cur hvote hq votes timeouts votes_increasing];
      try (intros; contradiction); try exact I.
    - intros i. unfold hvote_ok. cbn. intros vt [].
    - intros i c Hc. discriminate.
  Qed.

  Lemma cur_mono_upd st i x :
    pos_le (cur st i) x -> forall k, pos_le (cur st k) (upd (cur st) i x k).
  Proof.
    intros H k. destruct (upd_cases (cur st) i x k) as [[E1 E2]|[E1 E2]]; rewrite E2;
      [subst; auto|apply pos_le_refl].
  Qed.

  (* LF: the block implied by a valid justification has number >= first_block *)
  Lemma implied_ge_first st j r b :
    linv st -> valid_just st j -> is_implied j r -> agrees b r -> first_block <= bnum b.
  Proof.
    intros L Hv Himp [Hn _]. destruct j as [c|t]; cbn [SafetyAbs.valid_just SafetyAbs.is_implied] in *.
    - subst r. cbn [fst] in Hn.
      destruct (valid_cqc_honest_vote st c Hv) as [i [cq [_ [_ Hin]]]].
      pose proof (li_first _ L _ Hin) as Hf. cbn [v_block] in Hf. lia.
    - destruct Himp as [hv [hqc [Hhv [Hhq Hr]]]].
      assert (Ha : forall b', hv = Some b' -> first_block <= bnum b').
      { intros b' E. subst hv. destruct Hhv as [Hsub _].
        destruct Hv as [V1 [V2 [V3 [V4 V5]]]].
        destruct (heavy_has_honest weights byz Hok (reporters t b')) as [i [Hi Hh]].
        - apply reporters_NoDup; auto.
        - apply reporters_Forall; auto.
        - unfold SafetyAbs.subquorum_block in Hsub. pose proof (thr_facts weights byz Hok). lia.
        - apply reporters_in in Hi. destruct Hi as [rp [u [Hin Hrp]]].
          pose proof (li_thv _ L _ (V4 i rp Hin Hh)) as Ht. unfold tmo_hv_ok in Ht.
          cbn [t_report t_who t_view] in Ht. rewrite Hrp in Ht.
          destruct Ht as [_ [[cq Hvin] _]].
          pose proof (li_first _ L _ Hvin) as Hf. cbn [v_block] in Hf. exact Hf. }
      assert (Hb : forall c, hqc = Some c -> first_block <= bnum (aq_block c)).
      { intros c E. subst hqc. destruct Hhq as [[i [rp [Hin Hrp]]] _].
        destruct Hv as [V1 [V2 [V3 [V4 V5]]]].
        destruct (valid_cqc_honest_vote st c (V5 i rp c Hin Hrp)) as [i' [cq [_ [_ Hvin]]]].
        pose proof (li_first _ L _ Hvin) as Hf. cbn [v_block] in Hf. exact Hf. }
      subst r. unfold SafetyAbs.implied_of in Hn.
      destruct hv as [b'|]; destruct hqc as [c|].
      + specialize (Ha b' eq_refl). specialize (Hb c eq_refl).
        destruct (bnum (aq_block c) <? bnum b'); cbn [fst] in Hn; lia.
      + specialize (Ha b' eq_refl). cbn [fst] in Hn. lia.
      + specialize (Hb c eq_refl). cbn [fst] in Hn. lia.
      + cbn [fst] in Hn. lia.
  Qed.

  (* ---------------- preservation, step by step ---------------- *)
  Lemma linv_vote st i w b j cq :
    linv st -> honest i -> pos_lt (cur st i) (w, Commit) ->
    valid_just st j -> just_view j + 1 = w ->
    (exists r, is_implied j r /\ agrees b r) -> processed_cq j cq ->
    linv {| cur := upd (cur st) i (w, Commit);
            hvote := upd (hvote st) i (Some (w, b));
            hq := upd (hq st) i (max_cq (hq st i) cq);
            votes := {| v_who := i; v_view := w; v_block := b; v_cq := cq |} :: votes st;
            timeouts := timeouts st |}.
  Proof.
    intros L Hhon Hcur Hvj Hjv [r [Himp Hagr]] Hpc.
    assert (Hold : forall vt, In vt (votes st) -> v_who vt = i -> v_view vt < w).
    { intros vt Hin Hw. pose proof (li_vcur _ L vt Hin) as Hc. rewrite Hw in Hc.
      eapply vote_then_vote; eauto. }
    assert (Holdt : forall tm, In tm (timeouts st) -> t_who tm = i -> t_view tm < w).
    { intros tm Hin Hw. pose proof (li_tcur _ L tm Hin) as Hc. rewrite Hw in Hc.
      eapply timeout_then_vote; eauto. }
    assert (Hmono : forall k, pos_le (cur st k) (upd (cur st) i (w, Commit) k)).
    { apply cur_mono_upd. apply pos_lt_le. exact Hcur. }
    assert (Hinc : forall c, valid_cqc st c ->
              SafetyAbs.valid_cqc weights byz
                {| cur := upd (cur st) i (w, Commit);
                   hvote := upd (hvote st) i (Some (w, b));
                   hq := upd (hq st) i (max_cq (hq st i) cq);
                   votes := {| v_who := i; v_view := w; v_block := b; v_cq := cq |} :: votes st;
                   timeouts := timeouts st |} c).
    { intros c. apply valid_cqc_mono. cbn [votes]. apply incl_tl, incl_refl. }
    constructor; cbn [cur hvote hq votes timeouts].
    - intros vt [E|Hin]; [subst vt; exact Hhon|eapply li_vhon; eauto].
    - intros vt [E|Hin].
      + subst vt. cbn [v_who v_view]. rewrite upd_same. apply pos_le_refl.
      + eapply pos_le_trans; [apply (li_vcur _ L); exact Hin|apply Hmono].
    - intros i0. unfold hvote_ok. cbn [hvote votes].
      destruct (upd_cases (hvote st) i (Some (w, b)) i0) as [[E1 E2]|[E1 E2]]; rewrite E2.
      + subst i0. split.
        * exists cq. left. reflexivity.
        * intros vt [E|Hin] Hw; [subst vt; cbn [v_view]; lia|].
          specialize (Hold vt Hin Hw). lia.
      + pose proof (li_hvote _ L i0) as Hh. unfold hvote_ok in Hh.
        destruct (hvote st i0) as [[u b']|].
        * destruct Hh as [[cq' Hin'] Hmax]. split.
          -- exists cq'. right. exact Hin'.
          -- intros vt [E|Hin] Hw; [subst vt; cbn [v_who] in Hw; congruence|]. auto.
        * intros vt [E|Hin]; [subst vt; cbn [v_who]; congruence|]. auto.
    - cbn [votes_increasing v_who v_view]. split; [|apply (li_sorted _ L)].
      intros vt' Hin Hw. apply Hold; auto.
    - intros vt vt' [E|Hin] [E'|Hin'] Hw Hv.
      + congruence.
      + subst vt. cbn [v_who v_view] in *. specialize (Hold vt' Hin' (eq_sym Hw)). lia.
      + subst vt'. cbn [v_who v_view] in *. specialize (Hold vt Hin Hw). lia.
      + eapply li_l1; eauto.
    - intros tm Hin. eapply li_thon; eauto.
    - intros tm Hin. eapply pos_le_trans; [apply (li_tcur _ L); exact Hin|apply Hmono].
    - intros tm Hin. pose proof (li_thv _ L tm Hin) as Ht. unfold tmo_hv_ok in *. cbn [votes].
      destruct (ar_hv (t_report tm)) as [[u b']|].
      + destruct Ht as [Hu [[cq' Hin'] Hmax]]. split; [exact Hu|]. split.
        * exists cq'. right. exact Hin'.
        * intros vt [E|Hinv] Hw Hle; [|auto]. subst vt. cbn [v_who v_view] in *.
          specialize (Holdt tm Hin (eq_sym Hw)). lia.
      + intros vt [E|Hinv] Hw; [|auto]. subst vt. cbn [v_who v_view] in *.
        specialize (Holdt tm Hin (eq_sym Hw)). lia.
    - intros i0 c Hc. apply Hinc.
      destruct (upd_cases (hq st) i (max_cq (hq st i) cq) i0) as [[E1 E2]|[E1 E2]];
        rewrite E2 in Hc.
      + apply max_cq_cases in Hc. destruct Hc as [Hc|Hc].
        * eapply li_hqvalid; eauto.
        * subst cq. eapply processed_valid; eauto.
      + eapply li_hqvalid; eauto.
    - intros vt c [E|Hin] Hc.
      + subst vt. cbn [v_cq v_who] in *. subst cq. split.
        * apply Hinc. eapply processed_valid; eauto.
        * rewrite upd_same. apply max_cq_ge_r.
      + destruct (li_vcq _ L vt c Hin Hc) as [Hval [c' [Hq Hle]]]. split; [apply Hinc; exact Hval|].
        destruct (upd_cases (hq st) i (max_cq (hq st i) cq) (v_who vt)) as [[E1 E2]|[E1 E2]];
          rewrite E2.
        * rewrite <- E1, Hq. destruct (max_cq_ge_l c' cq) as [c'' [H1 H2]].
          exists c''. split; auto. lia.
        * eauto.
    - intros tm Hin. destruct (li_thq _ L tm Hin) as [Hv Hm]. split.
      + intros c Hc. apply Hinc. auto.
      + intros vt c [E|Hinv] Hw Hle Hc; [|eauto]. subst vt. cbn [v_who v_view] in *.
        specialize (Holdt tm Hin (eq_sym Hw)). lia.
    - intros vt [E|Hin]; [|eapply li_first; eauto].
      subst vt. cbn [v_block]. eapply implied_ge_first; eauto.
  Qed.

  Lemma linv_timeout st i :
    linv st -> honest i ->
    linv {| cur := upd (cur st) i (fst (cur st i), Timeout);
            hvote := hvote st; hq := hq st; votes := votes st;
            timeouts := {| t_who := i; t_view := fst (cur st i);
                           t_report := {| ar_hv := hvote st i; ar_hq := hq st i |} |}
                        :: timeouts st |}.
  Proof.
    intros L Hhon.
    assert (Hmono : forall k, pos_le (cur st k) (upd (cur st) i (fst (cur st i), Timeout) k)).
    { apply cur_mono_upd. apply pos_le_to_timeout. }
    constructor; cbn [cur hvote hq votes timeouts].
    - exact (li_vhon _ L).
    - intros vt Hin. eapply pos_le_trans; [apply (li_vcur _ L); exact Hin|apply Hmono].
    - exact (li_hvote _ L).
    - exact (li_sorted _ L).
    - exact (li_l1 _ L).
    - intros tm [E|Hin]; [subst tm; exact Hhon|eapply li_thon; eauto].
    - intros tm [E|Hin].
      + subst tm. cbn [t_who t_view]. rewrite upd_same. apply pos_le_refl.
      + eapply pos_le_trans; [apply (li_tcur _ L); exact Hin|apply Hmono].
    - intros tm [E|Hin]; [|exact (li_thv _ L tm Hin)].
      subst tm. unfold tmo_hv_ok. cbn [t_report ar_hv t_who t_view votes].
      pose proof (li_hvote _ L i) as Hh. unfold hvote_ok in Hh.
      destruct (hvote st i) as [[u b']|].
      + destruct Hh as [[cq' Hin'] Hmax]. split; [|split].
        * pose proof (li_vcur _ L _ Hin') as Hc. cbn [v_who v_view] in Hc.
          apply pos_le_fst in Hc. cbn [fst] in Hc. exact Hc.
        * eauto.
        * intros vt Hin Hw _. auto.
      + intros vt Hin Hw. exfalso. eapply Hh; eauto.
    - exact (li_hqvalid _ L).
    - exact (li_vcq _ L).
    - intros tm [E|Hin]; [|exact (li_thq _ L tm Hin)].
      subst tm. split; cbn [t_report ar_hq t_who t_view votes].
      + intros c Hc. exact (li_hqvalid _ L i c Hc).
      + intros vt c Hin Hw _ Hc. destruct (li_vcq _ L vt c Hin Hc) as [_ H].
        rewrite Hw in H. exact H.
    - exact (li_first _ L).
  Qed.

  Lemma linv_advance st i w :
    linv st -> honest i -> fst (cur st i) < w ->
    linv {| cur := upd (cur st) i (w, Prepare);
            hvote := hvote st; hq := hq st; votes := votes st; timeouts := timeouts st |}.
  Proof.
    intros L Hhon Hw.
    assert (Hmono : forall k, pos_le (cur st k) (upd (cur st) i (w, Prepare) k)).
    { apply cur_mono_upd. apply pos_lt_le. apply pos_lt_advance. exact Hw. }
    constructor; cbn [cur hvote hq votes timeouts].
    - exact (li_vhon _ L).
    - intros vt Hin. eapply pos_le_trans; [apply (li_vcur _ L); exact Hin|apply Hmono].
    - exact (li_hvote _ L).
    - exact (li_sorted _ L).
    - exact (li_l1 _ L).
    - exact (li_thon _ L).
    - intros tm Hin. eapply pos_le_trans; [apply (li_tcur _ L); exact Hin|apply Hmono].
    - exact (li_thv _ L).
    - exact (li_hqvalid _ L).
    - exact (li_vcq _ L).
    - exact (li_thq _ L).
    - exact (li_first _ L).
  Qed.

  Lemma linv_learn st i c :
    linv st -> honest i -> valid_cqc st c ->
    linv {| cur := cur st; hvote := hvote st;
            hq := upd (hq st) i (max_cq (hq st i) (Some c));
            votes := votes st; timeouts := timeouts st |}.
  Proof.
    intros L Hhon Hval.
    constructor; cbn [cur hvote hq votes timeouts].
    - exact (li_vhon _ L).
    - exact (li_vcur _ L).
    - exact (li_hvote _ L).
    - exact (li_sorted _ L).
    - exact (li_l1 _ L).
    - exact (li_thon _ L).
    - exact (li_tcur _ L).
    - exact (li_thv _ L).
    - intros i0 c0 Hc.
      destruct (upd_cases (hq st) i (max_cq (hq st i) (Some c)) i0) as [[E1 E2]|[E1 E2]];
        rewrite E2 in Hc.
      + apply max_cq_cases in Hc. destruct Hc as [Hc|Hc].
        * exact (li_hqvalid _ L i c0 Hc).
        * inversion Hc; subst. exact Hval.
      + exact (li_hqvalid _ L i0 c0 Hc).
    - intros vt c0 Hin Hc. destruct (li_vcq _ L vt c0 Hin Hc) as [Hv [c' [Hq Hle]]].
      split; [exact Hv|].
      destruct (upd_cases (hq st) i (max_cq (hq st i) (Some c)) (v_who vt)) as [[E1 E2]|[E1 E2]];
        rewrite E2.
      + rewrite <- E1, Hq. destruct (max_cq_ge_l c' (Some c)) as [c'' [H1 H2]].
        exists c''. split; auto. lia.
      + eauto.
    - exact (li_thq _ L).
    - exact (li_first _ L).
  Qed.

  Lemma linv_step st st' : linv st -> step st st' -> linv st'.
  Proof.
    intros L Hs. destruct Hs.
    - eapply linv_vote; eauto.
    - apply linv_timeout; auto.
    - apply linv_advance; auto.
    - apply linv_learn; auto.
  Qed.

  Lemma linv_reachable st : reachable st -> linv st.
  Proof. induction 1; [apply linv_init|eapply linv_step; eauto]. Qed.

  (* ---------------- monotonicity of cur and hq along steps ---------------- *)
  Lemma step_cur_mono st st' : step st st' -> forall k, pos_le (cur st k) (cur st' k).
  Proof.
    intros Hs. destruct Hs; cbn [cur].
    - apply cur_mono_upd. apply pos_lt_le. assumption.
    - apply cur_mono_upd. apply pos_le_to_timeout.
    - apply cur_mono_upd. apply pos_lt_le. apply pos_lt_advance. assumption.
    - intros k. apply pos_le_refl.
  Qed.

  Lemma step_hq_mono st st' :
    step st st' -> forall k c, hq st k = Some c ->
    exists c', hq st' k = Some c' /\ aq_view c <= aq_view c'.
  Proof.
    intros Hs k c0 Hk. destruct Hs; cbn [hq]; try (exists c0; split; [exact Hk|lia]).
    - destruct (upd_cases (hq st) i (max_cq (hq st i) cq) k) as [[E1 E2]|[E1 E2]]; rewrite E2.
      + subst k. rewrite Hk. apply max_cq_ge_l.
      + exists c0. split; [exact Hk|lia].
    - destruct (upd_cases (hq st) i (max_cq (hq st i) (Some c)) k) as [[E1 E2]|[E1 E2]]; rewrite E2.
      + subst k. rewrite Hk. apply max_cq_ge_l.
      + exists c0. split; [exact Hk|lia].
  Qed.

  (* what a step adds to the vote history *)
  Lemma step_new_vote st st' vt :
    step st st' -> In vt (votes st') -> ~ In vt (votes st) ->
    honest (v_who vt) /\ pos_lt (cur st (v_who vt)) (v_view vt, Commit) /\
    cur st' (v_who vt) = (v_view vt, Commit) /\ votes st' = vt :: votes st.
  Proof.
    intros Hs Hin Hnin. destruct Hs; cbn [votes cur] in *; try contradiction.
    destruct Hin as [E|Hin]; [|contradiction]. subst vt. cbn [v_who v_view].
    rewrite upd_same. auto.
  Qed.

  (* LT, transition form: after a timeout at t a validator never votes at a view <= t *)
  Lemma no_vote_at_or_below_timeout st st' tm vt :
    linv st -> In tm (timeouts st) -> step st st' ->
    In vt (votes st') -> ~ In vt (votes st) -> v_who vt = t_who tm ->
    t_view tm < v_view vt.
  Proof.
    intros L Htm Hs Hin Hnin Hw.
    destruct (step_new_vote _ _ _ Hs Hin Hnin) as [_ [Hlt _]].
    pose proof (li_tcur _ L tm Htm) as Hc. rewrite <- Hw in Hc.
    eapply timeout_then_vote; eauto.
  Qed.
End Local.
