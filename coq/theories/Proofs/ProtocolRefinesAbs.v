(* Layer B, part 1: the abstraction of concrete certificates (Model/Msgs.v) to the abstract
   certificates of Layer A (Model/SafetyAbs.v), and the two key lemma families:
   (i)  a verifying certificate whose honest signers are backed by the abstract history is
        semantically valid in Layer A;
   (ii) the concrete high_vote / high_qc / get_implied_block of a verifying timeout certificate
        agree with is_high_vote / is_high_qc / is_implied of its abstraction. *)
From Coq Require Import ZArith List Bool Lia Arith Permutation.
From EC Require Import Lib.Outcome Lib.U64 Lib.ListW Model.Msgs Model.Replica Model.Protocol
  Model.SafetyAbs Proofs.ListWFacts Proofs.MsgsFacts Proofs.QCProofs Proofs.TqcAssembly
  Proofs.SafetyAbsLib.
Import ListNotations.
Open Scope Z_scope.
Ltac Zify.zify_post_hook ::= Z.div_mod_to_equations.

(* ---------- indices of the set bits of a bitmap ---------- *)
Fixpoint bits_from (o : nat) (s : list bool) : list nat :=
  match s with
  | [] => []
  | b :: s' => if b then o :: bits_from (S o) s' else bits_from (S o) s'
  end.
Definition bits_idx (s : list bool) : list nat := bits_from 0 s.

Lemma in_bits_from s : forall o i, In i (bits_from o s) <-> exists j, i = (o + j)%nat /\ nth_error s j = Some true.
Proof.
  induction s as [|b s IH]; intros o i; cbn [bits_from].
  - split; [intros []|intros (j & _ & H); destruct j; discriminate].
  - assert (Hrec : In i (bits_from (S o) s) <-> exists j, i = (o + S j)%nat /\ nth_error s j = Some true).
    { rewrite IH. split; intros (j & -> & H); exists j; split; auto; lia. }
    destruct b.
    + cbn [In]. rewrite Hrec. split.
      * intros [<-|(j & -> & H)]; [exists 0%nat; split; [lia|reflexivity]|exists (S j); auto].
      * intros ([|j] & -> & H); [left; lia|right; exists j; auto].
    + rewrite Hrec. split.
      * intros (j & -> & H). exists (S j). auto.
      * intros ([|j] & -> & H); [discriminate|exists j; auto].
Qed.

Lemma in_bits_idx s i : In i (bits_idx s) <-> nth_error s i = Some true.
Proof.
  unfold bits_idx. rewrite in_bits_from. split.
  - intros (j & -> & H). exact H.
  - intros H. exists i. auto.
Qed.

Lemma bits_from_ge s : forall o i, In i (bits_from o s) -> (o <= i)%nat.
Proof. intros o i H. apply in_bits_from in H. destruct H as (j & -> & _). lia. Qed.

Lemma bits_from_NoDup s : forall o, NoDup (bits_from o s).
Proof.
  induction s as [|b s IH]; intros o; cbn [bits_from]; [constructor|].
  destruct b; [|apply IH]. constructor; [|apply IH].
  intros H. apply bits_from_ge in H. lia.
Qed.

Lemma bits_idx_NoDup s : NoDup (bits_idx s).
Proof. apply bits_from_NoDup. Qed.

Lemma bits_idx_lt s i : In i (bits_idx s) -> (i < length s)%nat.
Proof. intros H. apply in_bits_idx in H. apply nth_error_Some. congruence. Qed.

Lemma bits_idx_nonempty s : bv_none s = false -> exists i, In i (bits_idx s).
Proof.
  intros H. destruct (bits_idx s) as [|i l] eqn:E; [|exists i; left; reflexivity].
  exfalso. assert (Hn : bv_none s = true); [|congruence].
  apply bv_none_nth. intros j Hj. apply in_bits_idx in Hj. rewrite E in Hj. destruct Hj.
Qed.

Lemma wsum_bits_from ws : forall s pre, length s = length ws ->
  wsum (pre ++ ws) (bits_from (length pre) s) = weight ws s.
Proof.
  induction ws as [|w ws IH]; intros [|b s] pre Hl; cbn [length] in Hl; try discriminate; try reflexivity.
  cbn [bits_from weight].
  specialize (IH s (pre ++ [w])). rewrite <- app_assoc in IH. cbn [app] in IH.
  rewrite app_length in IH. cbn [length] in IH.
  replace (length pre + 1)%nat with (S (length pre)) in IH by lia.
  destruct b.
  - unfold wsum at 1. cbn [fold_right]. fold (wsum (pre ++ w :: ws) (bits_from (S (length pre)) s)).
    unfold wt. rewrite nth_middle. rewrite IH by lia. reflexivity.
  - rewrite IH by lia. lia.
Qed.

Lemma wsum_bits ws s : length s = length ws -> wsum ws (bits_idx s) = weight ws s.
Proof. intros H. exact (wsum_bits_from ws s [] H). Qed.

Lemma n_total_total ws : n_total ws = total ws.
Proof. unfold n_total. induction ws as [|w ws IH]; cbn [fold_right total]; [reflexivity|]. rewrite IH. reflexivity. Qed.

Lemma selected_keys_in C : forall s i m, nth_error C i = Some m -> nth_error s i = Some true ->
  In (mkey m) (selected_keys C s).
Proof.
  induction C as [|m0 C IH]; intros s i m HC Hs; [destruct i; discriminate|].
  destruct s as [|b s]; [destruct i; discriminate|].
  destruct i as [|i]; cbn [nth_error] in HC, Hs.
  - inversion HC; inversion Hs; subst. cbn [selected_keys]. left. reflexivity.
  - cbn [selected_keys]. destruct b; [right|]; eapply IH; eassumption.
Qed.

(* ---------- the abstraction ---------- *)
Definition abs_hdr (h : header) : block := {| bnum := hnum h; bhash := hpay h |}.
Definition abs_cqc (q : cqc) : acqc :=
  {| aq_view := vnum (cview (qmsg q)); aq_block := abs_hdr (cprop (qmsg q));
     aq_signers := bits_idx (qsigners q) |}.
Definition abs_hv (o : option commit) : option (Z * block) :=
  option_map (fun c => (vnum (cview c), abs_hdr (cprop c))) o.
Definition abs_report (t : timeout) : areport :=
  {| ar_hv := abs_hv (thv t); ar_hq := option_map abs_cqc (thq t) |}.
Definition abs_entries (m : list (timeout * list bool)) : list (nat * areport) :=
  flat_map (fun en => map (fun i => (i, abs_report (fst en))) (bits_idx (snd en))) m.
Definition abs_tqc (t : tqc) : atqc :=
  {| at_view := vnum (tqview t); at_entries := abs_entries (tqmap t) |}.
Definition abs_just (j : justification) : ajust :=
  match j with JCommit q => AJCommit (abs_cqc q) | JTimeout t => AJTimeout (abs_tqc t) end.
Definition abs_phase (p : Replica.phase) : SafetyAbs.phase :=
  match p with Replica.Prepare => SafetyAbs.Prepare | PCommit => Commit | PTimeout => Timeout end.

Lemma abs_hdr_inj a b : abs_hdr a = abs_hdr b -> a = b.
Proof. destruct a, b. unfold abs_hdr; cbn. intros H; inversion H; reflexivity. Qed.

Lemma in_abs_entries m i r :
  In (i, r) (abs_entries m) <->
  exists en, In en m /\ nth_error (snd en) i = Some true /\ r = abs_report (fst en).
Proof.
  unfold abs_entries. rewrite in_flat_map. split.
  - intros (en & Hin & H). apply in_map_iff in H. destruct H as (i' & Heq & Hi).
    inversion Heq; subst. exists en. split; auto. split; auto. apply in_bits_idx. exact Hi.
  - intros (en & Hin & Hb & ->). exists en. split; auto. apply in_map_iff. exists i.
    split; auto. apply in_bits_idx. exact Hb.
Qed.

Definition sig_idx (m : list (timeout * list bool)) : list nat :=
  flat_map (fun en => bits_idx (snd en)) m.

Lemma abs_entries_fst m : map fst (abs_entries m) = sig_idx m.
Proof.
  unfold abs_entries, sig_idx. induction m as [|en m IH]; [reflexivity|].
  cbn [flat_map]. rewrite map_app, IH, map_map. cbn [fst]. rewrite map_id. reflexivity.
Qed.

Section Abs.
  Variable P : params.
  Hypothesis HP : params_ok P.

  Notation C := (p_C P).
  Notation W := (cweights (p_C P)).
  Notation g := (p_g P).
  Notation e := (p_e P).

  Definition key_of (i : nat) : Z := match nth_error C i with Some m => mkey m | None => -1 end.
  Definition abyz (i : nat) : bool := p_byz P (key_of i).

  Lemma W_length : length W = length C.
  Proof. apply map_length. Qed.

  Lemma W_pos : Forall (fun w => 0 < w) W.
  Proof.
    destruct HP as (_ & Hpos & _). unfold cweights. rewrite Forall_forall in *.
    intros w Hw. apply in_map_iff in Hw. destruct Hw as (m & <- & Hm). auto.
  Qed.

  Lemma n_total_W : n_total W = ctotal C.
  Proof. apply n_total_total. Qed.
  Lemma q_thr_W : q_thr W = quorum C.
  Proof. unfold q_thr, f_max, quorum. rewrite n_total_W. reflexivity. Qed.
  Lemma s_thr_W : s_thr W = subquorum C.
  Proof. unfold s_thr, f_max, subquorum. rewrite n_total_W. reflexivity. Qed.
  Lemma f_max_W : f_max W = (ctotal C - 1) / 5.
  Proof. unfold f_max. rewrite n_total_W. reflexivity. Qed.

  (* the committee with nobody Byzantine: used to reuse the weight library *)
  Lemma committee_ok_nobyz : committee_ok W (fun _ => false).
  Proof.
    split; [exact W_pos|]. split; [rewrite n_total_W; apply HP|].
    intros l _ _ Hb. destruct l as [|i l]; [|inversion Hb; discriminate].
    unfold wsum; cbn [fold_right]. rewrite f_max_W. destruct HP as (_ & _ & Hn & _). lia.
  Qed.

  Lemma committee_ok_W : committee_ok W abyz.
  Proof.
    split; [exact W_pos|]. split; [rewrite n_total_W; apply HP|].
    intros l Hnd Hm Hb.
    assert (Hincl : incl l (bits_idx (byz_bitmap P))).
    { intros i Hi. rewrite Forall_forall in Hm, Hb. specialize (Hm i Hi). specialize (Hb i Hi).
      unfold member in Hm. rewrite W_length in Hm. apply in_bits_idx. unfold byz_bitmap.
      rewrite nth_error_map. unfold abyz, key_of in Hb.
      destruct (nth_error C i) as [m|] eqn:E; cbn [option_map].
      - rewrite Hb. reflexivity.
      - apply nth_error_None in E. lia. }
    pose proof (wsum_incl_le W (fun _ => false) committee_ok_nobyz l _ Hnd Hincl) as Hle.
    rewrite wsum_bits in Hle by (unfold byz_bitmap; rewrite map_length, W_length; reflexivity).
    rewrite f_max_W. destruct HP as (_ & _ & _ & Hw). lia.
  Qed.

  Lemma key_of_nth i m : nth_error C i = Some m -> key_of i = mkey m.
  Proof. unfold key_of. intros ->. reflexivity. Qed.

  Lemma key_of_member i : (i < length C)%nat -> is_member P (key_of i) = true.
  Proof.
    intros Hi. unfold is_member, key_of. destruct (nth_error C i) as [m|] eqn:E.
    - apply existsb_exists. exists m. split; [eapply nth_error_In; eauto|apply Z.eqb_refl].
    - apply nth_error_None in E. lia.
  Qed.

  Lemma honest_key i : honest W abyz i -> honestb P (key_of i) = true.
  Proof.
    intros [Hm Hb]. unfold member in Hm. rewrite W_length in Hm. unfold honestb.
    rewrite key_of_member by exact Hm. unfold abyz in Hb. rewrite Hb. reflexivity.
  Qed.

  Lemma key_of_inj i j : (i < length C)%nat -> (j < length C)%nat -> key_of i = key_of j -> i = j.
  Proof.
    intros Hi Hj Hk. destruct HP as (Hnd & _).
    assert (H1 : nth_error (map mkey C) i = Some (key_of i)).
    { rewrite nth_error_map. unfold key_of. destruct (nth_error C i) eqn:E; [reflexivity|].
      apply nth_error_None in E. lia. }
    assert (H2 : nth_error (map mkey C) j = Some (key_of j)).
    { rewrite nth_error_map. unfold key_of. destruct (nth_error C j) eqn:E; [reflexivity|].
      apply nth_error_None in E. lia. }
    rewrite Hk in H1. rewrite <- H2 in H1.
    apply (proj1 (NoDup_nth_error (map mkey C)) Hnd); [rewrite map_length; exact Hi|exact H1].
  Qed.

  (* every member key has an index *)
  Lemma member_index k : is_member P k = true -> exists i, (i < length C)%nat /\ key_of i = k.
  Proof.
    unfold is_member. intros H. apply existsb_exists in H. destruct H as (m & Hin & Hk).
    apply Z.eqb_eq in Hk. apply In_nth_error in Hin. destruct Hin as [i Hi]. exists i. split.
    - apply nth_error_Some. congruence.
    - rewrite (key_of_nth _ _ Hi). exact Hk.
  Qed.

  Lemma honestb_index k : honestb P k = true -> exists i, honest W abyz i /\ key_of i = k.
  Proof.
    unfold honestb. intros H. apply andb_true_iff in H. destruct H as [Hm Hb].
    destruct (member_index k Hm) as (i & Hi & Hk). exists i. split; [|exact Hk]. split.
    - unfold member. rewrite W_length. exact Hi.
    - unfold abyz. rewrite Hk. apply negb_true_iff. exact Hb.
  Qed.

  (* ================= (i) validity of abstracted certificates ================= *)
  Lemma signer_sig q i :
    cqc_verify g e C q = Ok tt -> nth_error (qsigners q) i = Some true ->
    In (key_of i, RCommit (qmsg q)) (qagg q).
  Proof.
    intros Hv Hb. apply cqc_verify_iff in Hv. destruct Hv as (_ & Hl & _ & Hp).
    assert (Hi : (i < length C)%nat) by (rewrite <- Hl; apply nth_error_Some; congruence).
    destruct (nth_error C i) as [m|] eqn:E; [|apply nth_error_None in E; lia].
    eapply Permutation_in; [symmetry; exact Hp|]. unfold cqc_claimed. apply in_map_iff.
    exists (mkey m). rewrite (key_of_nth _ _ E). split; [reflexivity|].
    eapply selected_keys_in; eassumption.
  Qed.

  Lemma abs_cqc_valid a q :
    cqc_verify g e C q = Ok tt ->
    (forall i, honest W abyz i -> nth_error (qsigners q) i = Some true ->
       exists cq, In {| v_who := i; v_view := vnum (cview (qmsg q));
                        v_block := abs_hdr (cprop (qmsg q)); v_cq := cq |} (votes a)) ->
    valid_cqc W abyz a (abs_cqc q).
  Proof.
    intros Hv Hs. pose proof Hv as Hv'. apply cqc_verify_iff in Hv'.
    destruct Hv' as (_ & Hl & Hq & _). unfold valid_cqc, abs_cqc; cbn [aq_signers aq_view aq_block].
    split; [apply bits_idx_NoDup|]. split; [|split].
    - rewrite Forall_forall. intros i Hi. apply bits_idx_lt in Hi. unfold member.
      rewrite W_length. lia.
    - rewrite q_thr_W, wsum_bits by (rewrite W_length; exact Hl). exact Hq.
    - intros i Hi Hh. apply in_bits_idx in Hi. apply Hs; assumption.
  Qed.

  (* --- timeout certificates --- *)
  Definition sumw (m : list (timeout * list bool)) : Z :=
    fold_right (fun en a => weight W (snd en) + a) 0 m.

  Lemma wsum_sig_idx m : Forall (fun en => length (snd en) = length C) m ->
    wsum W (sig_idx m) = sumw m.
  Proof.
    induction 1 as [|en m Hl _ IH]; [reflexivity|].
    unfold sig_idx. cbn [flat_map sumw fold_right]. fold (sig_idx m).
    rewrite wsum_app, IH.
    rewrite wsum_bits by (rewrite W_length; exact Hl). reflexivity.
  Qed.

  Lemma union_weight m : forall sum, length sum = length C ->
    Forall (fun en => length (snd en) = length C) m ->
    Forall (fun en => disjoint sum (snd en)) m ->
    ForallOrdPairs disjoint (map snd m) ->
    weight W (union_from sum m) = weight W sum + sumw m.
  Proof.
    intros sum Hs Hl Hd Hp.
    destruct (tqc_weight_entries_union unit C m sum Hs Hl Hd Hp) as (r & Hr & Hw).
    rewrite Hw. f_equal. clear Hw Hd Hp Hs sum.
    revert r Hr. induction Hl as [|[t s] m Hl _ IH]; intros r Hr; cbn [tqc_weight_entries] in Hr.
    - inversion Hr; reflexivity.
    - cbn [snd] in Hl. unfold signers_weight in Hr. rewrite (proj2 (Nat.eqb_eq _ _) Hl) in Hr.
      cbn [bind] in Hr. destruct (tqc_weight_entries C m) as [r'| |] eqn:E; cbn [bind] in Hr;
        try discriminate. inversion Hr; subst. cbn [sumw fold_right snd]. rewrite (IH r' eq_refl).
      reflexivity.
  Qed.

  Lemma sig_idx_NoDup m :
    ForallOrdPairs disjoint (map snd m) -> NoDup (sig_idx m).
  Proof.
    induction m as [|en m IH]; intros Hp; [constructor|].
    cbn [map] in Hp. inversion Hp as [|? ? Hh Ht]; subst.
    unfold sig_idx. cbn [flat_map]. fold (sig_idx m). apply NoDup_app_disj.
    - apply bits_idx_NoDup.
    - apply IH; exact Ht.
    - intros i Hi Hin. apply in_bits_idx in Hi. unfold sig_idx in Hin. apply in_flat_map in Hin.
      destruct Hin as (en' & Hen' & Hi'). apply in_bits_idx in Hi'.
      rewrite Forall_forall in Hh. specialize (Hh (snd en') (in_map snd _ _ Hen')).
      apply (proj1 (disjoint_nth _ _) Hh i Hi Hi').
  Qed.

  Lemma tqc_verify_parts t :
    tqc_verify g e C t = Ok tt ->
    Forall (fun en => tview (fst en) = tqview t /\ length (snd en) = length C /\
                      bv_none (snd en) = false /\ timeout_verify g e C (fst en) = Ok tt) (tqmap t) /\
    ForallOrdPairs disjoint (map snd (tqmap t)) /\
    quorum C <= sumw (tqmap t) /\
    Permutation (tqagg t) (tqc_claimed C (tqmap t)).
  Proof.
    intros Hv. apply tqc_verify_iff in Hv. destruct Hv as (_ & Hen & Hd & Hq & Hp).
    assert (Hl : Forall (fun en => length (snd en) = length C) (tqmap t)).
    { eapply Forall_impl; [|exact Hen]. intros en H. apply H. }
    split; [exact Hen|]. split; [exact Hd|]. split; [|exact Hp].
    rewrite union_weight in Hq; auto.
    - rewrite weight_bv_new in Hq. lia.
    - apply bv_new_length.
    - rewrite Forall_forall. intros en _. unfold disjoint. apply band_none_l, bv_none_new.
  Qed.

  Lemma tsigner_sig t en i :
    tqc_verify g e C t = Ok tt -> In en (tqmap t) -> nth_error (snd en) i = Some true ->
    In (key_of i, TTimeout (fst en)) (tqagg t).
  Proof.
    intros Hv Hin Hb. destruct (tqc_verify_parts t Hv) as (Hen & _ & _ & Hp).
    rewrite Forall_forall in Hen. destruct (Hen en Hin) as (_ & Hl & _).
    assert (Hi : (i < length C)%nat) by (rewrite <- Hl; apply nth_error_Some; congruence).
    destruct (nth_error C i) as [m|] eqn:E; [|apply nth_error_None in E; lia].
    eapply Permutation_in; [symmetry; exact Hp|]. unfold tqc_claimed. apply in_flat_map.
    exists en. split; [exact Hin|]. apply in_map_iff. exists (mkey m).
    rewrite (key_of_nth _ _ E). split; [reflexivity|]. eapply selected_keys_in; eassumption.
  Qed.

  Lemma abs_tqc_valid a t :
    tqc_verify g e C t = Ok tt ->
    (forall en i, In en (tqmap t) -> honest W abyz i -> nth_error (snd en) i = Some true ->
       In {| t_who := i; t_view := vnum (tqview t); t_report := abs_report (fst en) |} (timeouts a)) ->
    (forall en q, In en (tqmap t) -> thq (fst en) = Some q -> valid_cqc W abyz a (abs_cqc q)) ->
    valid_tqc W abyz a (abs_tqc t).
  Proof.
    intros Hv Hs Hn. destruct (tqc_verify_parts t Hv) as (Hen & Hd & Hq & _).
    assert (Hl : Forall (fun en => length (snd en) = length C) (tqmap t)).
    { eapply Forall_impl; [|exact Hen]. intros en H. apply H. }
    unfold valid_tqc, abs_tqc; cbn [at_entries at_view]. rewrite abs_entries_fst.
    split; [apply sig_idx_NoDup; exact Hd|]. split; [|split; [|split]].
    - rewrite Forall_forall. intros i Hi. unfold sig_idx in Hi. apply in_flat_map in Hi.
      destruct Hi as (en & Hin & Hi). apply bits_idx_lt in Hi. rewrite Forall_forall in Hl.
      rewrite (Hl en Hin) in Hi. unfold member. rewrite W_length. exact Hi.
    - rewrite q_thr_W, wsum_sig_idx by exact Hl. exact Hq.
    - intros i r Hin Hh. apply in_abs_entries in Hin. destruct Hin as (en & Hin & Hb & ->).
      apply Hs; assumption.
    - intros i r c Hin Hr. apply in_abs_entries in Hin. destruct Hin as (en & Hin & Hb & ->).
      cbn [abs_report ar_hq] in Hr. destruct (thq (fst en)) as [q|] eqn:Eq; [|discriminate].
      cbn [option_map] in Hr. inversion Hr; subst. eapply Hn; eassumption.
  Qed.

  (* ================= (ii) high vote / high qc / implied block ================= *)
  Fixpoint clookup (cnt : list (header * Z)) (h : header) : Z :=
    match cnt with
    | [] => 0
    | (h', w) :: r => if header_eqb h' h then w else clookup r h
    end.

  Lemma clookup_add h w cnt h' :
    clookup (count_add h w cnt) h' = clookup cnt h' + (if header_eqb h h' then w else 0).
  Proof.
    induction cnt as [|[h1 w1] r IH]; cbn [count_add clookup].
    - destruct (header_eqb h h'); lia.
    - destruct (header_eqb h1 h) eqn:E1; cbn [clookup].
      + apply header_eqb_spec in E1. subst h1. destruct (header_eqb h h'); lia.
      + rewrite IH. destruct (header_eqb h1 h') eqn:E2; [|reflexivity].
        apply header_eqb_spec in E2. subst h1. destruct (header_eqb h h') eqn:E3; [|lia].
        apply header_eqb_spec in E3. subst h'. rewrite (decides_refl _ header_eqb_spec) in E1.
        discriminate.
  Qed.

  Lemma count_add_keys h w cnt : NoDup (map fst cnt) -> NoDup (map fst (count_add h w cnt)).
  Proof.
    induction cnt as [|[h1 w1] r IH]; cbn [count_add map fst]; intros Hnd.
    - constructor; [intros []|constructor].
    - inversion Hnd as [|? ? Hnin Hnd']; subst.
      destruct (header_eqb h1 h) eqn:E1; cbn [map fst].
      + constructor; assumption.
      + constructor; [|apply IH; exact Hnd'].
        intros Hin. apply Hnin. clear IH Hnd Hnd' Hnin.
        induction r as [|[h2 w2] r IHr]; cbn [count_add map fst] in *.
        * destruct Hin as [Hin|[]]. subst h1.
          rewrite (decides_refl _ header_eqb_spec) in E1. discriminate.
        * destruct (header_eqb h2 h); cbn [map fst] in Hin; destruct Hin as [Hin|Hin];
            solve [left; exact Hin | right; auto].
  Qed.

  Lemma clookup_in cnt h : clookup cnt h <> 0 -> In (h, clookup cnt h) cnt.
  Proof.
    induction cnt as [|[h1 w1] r IH]; cbn [clookup]; [congruence|].
    destruct (header_eqb h1 h) eqn:E.
    - apply header_eqb_spec in E. subst. intros _. left. reflexivity.
    - intros H. right. auto.
  Qed.

  Lemma clookup_nodup cnt h w : NoDup (map fst cnt) -> In (h, w) cnt -> clookup cnt h = w.
  Proof.
    induction cnt as [|[h1 w1] r IH]; cbn [clookup map fst]; intros Hnd Hin; [destruct Hin|].
    inversion Hnd as [|? ? Hnin Hnd']; subst. destruct Hin as [Hin|Hin].
    - inversion Hin; subst. rewrite (decides_refl _ header_eqb_spec). reflexivity.
    - destruct (header_eqb h1 h) eqn:E; [|auto].
      apply header_eqb_spec in E. subst. exfalso. apply Hnin.
      apply in_map_iff. exists (h, w). auto.
  Qed.

  Definition cnt_of (m : list (timeout * list bool)) (h : header) : Z :=
    fold_right (fun en a =>
      (match thv (fst en) with
       | Some v => if header_eqb (cprop v) h then weight W (snd en) else 0
       | None => 0
       end) + a) 0 m.

  Lemma high_vote_count_spec m : Forall (fun en => length (snd en) = length C) m ->
    forall cnt, exists cnt', @high_vote_count unit C m cnt = Ok cnt' /\
      (forall h, clookup cnt' h = clookup cnt h + cnt_of m h) /\
      (NoDup (map fst cnt) -> NoDup (map fst cnt')).
  Proof.
    induction 1 as [|[msg sg] m Hl _ IH]; intros cnt; cbn [high_vote_count].
    - exists cnt. split; [reflexivity|]. split; [intros h; cbn; lia|auto].
    - cbn [snd] in Hl. destruct (thv msg) as [v|] eqn:Ev.
      + unfold signers_weight. rewrite (proj2 (Nat.eqb_eq _ _) Hl). cbn [bind].
        destruct (IH (count_add (cprop v) (weight W sg) cnt)) as (cnt' & H1 & H2 & H3).
        exists cnt'. split; [exact H1|]. split.
        * intros h. rewrite H2, clookup_add. cbn [cnt_of fold_right fst snd]. rewrite Ev.
          fold (cnt_of m h). lia.
        * intros Hnd. apply H3. apply count_add_keys. exact Hnd.
      + destruct (IH cnt) as (cnt' & H1 & H2 & H3). exists cnt'. split; [exact H1|].
        split; [|exact H3]. intros h. rewrite H2. cbn [cnt_of fold_right fst snd]. rewrite Ev.
        fold (cnt_of m h). lia.
  Qed.

  Lemma filter_const {A} (p : A -> bool) (l : list A) b :
    (forall x, In x l -> p x = b) -> filter p l = if b then l else [].
  Proof.
    induction l as [|x l IH]; intros H; cbn [filter]; [destruct b; reflexivity|].
    rewrite (H x (or_introl eq_refl)). rewrite IH by (intros y Hy; apply H; right; exact Hy).
    destruct b; reflexivity.
  Qed.

  Lemma block_eqb_abs a b : block_eqb (abs_hdr a) (abs_hdr b) = header_eqb a b.
  Proof. reflexivity. Qed.

  Lemma reporters_weight v m h : Forall (fun en => length (snd en) = length C) m ->
    wsum W (reporters {| at_view := v; at_entries := abs_entries m |} (abs_hdr h)) = cnt_of m h.
  Proof.
    unfold reporters; cbn [at_entries].
    induction 1 as [|en m Hl _ IH]; [reflexivity|].
    unfold abs_entries. cbn [flat_map]. fold (abs_entries m).
    rewrite filter_app, map_app, wsum_app, IH. cbn [cnt_of fold_right]. fold (cnt_of m h). f_equal.
    rewrite (filter_const _ _
      (match thv (fst en) with Some v0 => header_eqb (cprop v0) h | None => false end)).
    - destruct (thv (fst en)) as [v0|]; [|reflexivity].
      destruct (header_eqb (cprop v0) h); [|reflexivity].
      rewrite map_map. cbn [fst]. rewrite map_id. apply wsum_bits. rewrite W_length. exact Hl.
    - intros [i r] Hin. apply in_map_iff in Hin. destruct Hin as (i' & Heq & _).
      inversion Heq; subst. cbn [snd abs_report ar_hv abs_hv].
      destruct (thv (fst en)) as [v0|]; cbn [option_map]; [apply block_eqb_abs|reflexivity].
  Qed.

  Lemma block_is_abs b : b = abs_hdr {| hnum := bnum b; hpay := bhash b |}.
  Proof. destruct b; reflexivity. Qed.

  Lemma s_thr_pos : 0 < s_thr W.
  Proof.
    pose proof (thr_facts W abyz committee_ok_W). lia.
  Qed.

  Lemma high_vote_abs t hv :
    tqc_verify g e C t = Ok tt -> @high_vote unit C t = Ok hv ->
    is_high_vote W (abs_tqc t) (option_map abs_hdr hv).
  Proof.
    intros Hv Hhv. destruct (tqc_verify_parts t Hv) as (Hen & _).
    assert (Hl : Forall (fun en => length (snd en) = length C) (tqmap t)).
    { eapply Forall_impl; [|exact Hen]. intros en H. apply H. }
    unfold high_vote in Hhv.
    destruct (high_vote_count_spec (tqmap t) Hl []) as (cnt & Hc & Hlk & Hnd).
    rewrite Hc in Hhv. cbn [bind] in Hhv. specialize (Hnd (NoDup_nil _)).
    set (F := filter (fun x => subquorum C <=? snd x) cnt) in *.
    assert (Hrep : forall h, wsum W (reporters (abs_tqc t) (abs_hdr h)) = clookup cnt h).
    { intros h. unfold abs_tqc. rewrite reporters_weight by exact Hl. rewrite Hlk. cbn [clookup]. lia. }
    assert (Ha : forall x, In x F -> subquorum_block W (abs_tqc t) (abs_hdr (fst x))).
    { intros [h w] Hx. apply filter_In in Hx. destruct Hx as [Hin Hw]. cbn [fst snd] in *.
      unfold subquorum_block. rewrite Hrep, (clookup_nodup cnt h w Hnd Hin), s_thr_W. lia. }
    assert (Hb : forall b, subquorum_block W (abs_tqc t) b -> exists x, In x F /\ abs_hdr (fst x) = b).
    { intros b Hs. rewrite (block_is_abs b) in Hs |- *. set (h := {| hnum := bnum b; hpay := bhash b |}) in *.
      unfold subquorum_block in Hs. rewrite Hrep in Hs. pose proof s_thr_pos as Hp.
      exists (h, clookup cnt h). split; [|reflexivity]. apply filter_In. split.
      - apply clookup_in. lia.
      - cbn [snd]. rewrite <- s_thr_W. lia. }
    assert (HndF : NoDup (map fst F)) by (apply NoDup_map_filter; exact Hnd).
    destruct F as [|x1 [|x2 F']] eqn:EF; inversion Hhv; subst hv; cbn [option_map is_high_vote].
    - left. intros b Hs. destruct (Hb b Hs) as (x & [] & _).
    - split; [apply Ha; left; reflexivity|]. intros b' Hs.
      destruct (Hb b' Hs) as (x & [Hx|[]] & Hxb). subst x. auto.
    - right. exists (abs_hdr (fst x1)), (abs_hdr (fst x2)). split; [|split].
      + intros Heq. apply abs_hdr_inj in Heq. cbn [map] in HndF.
        inversion HndF as [|? ? Hnin _]; subst. apply Hnin. left. auto.
      + apply Ha. left. reflexivity.
      + apply Ha. right. left. reflexivity.
  Qed.

  Lemma high_qc_from_spec m : forall best r, high_qc_from m best = r ->
    (r = best \/ exists en q, In en m /\ thq (fst en) = Some q /\ r = Some q) /\
    (forall en q, In en m -> thq (fst en) = Some q ->
       exists r', r = Some r' /\ vnum (cview (qmsg q)) <= vnum (cview (qmsg r'))) /\
    (forall b, best = Some b -> exists r', r = Some r' /\ vnum (cview (qmsg b)) <= vnum (cview (qmsg r'))).
  Proof.
    induction m as [|[msg sg] m IH]; intros best r Hr; cbn [high_qc_from] in Hr.
    - subst r. split; [left; reflexivity|]. split; [intros en q []|].
      intros b ->. exists b. split; [reflexivity|lia].
    - destruct (thq msg) as [q0|] eqn:Eq.
      + assert (Hcase : exists nb, high_qc_from m (Some nb) = r /\
                  vnum (cview (qmsg q0)) <= vnum (cview (qmsg nb)) /\
                  (forall b, best = Some b -> vnum (cview (qmsg b)) <= vnum (cview (qmsg nb))) /\
                  (Some nb = best \/ nb = q0)).
        { destruct best as [b|].
          - destruct (Z.leb_spec (vnum (cview (qmsg b))) (vnum (cview (qmsg q0)))).
            + exists q0. split; [exact Hr|]. split; [lia|]. split; [|right; reflexivity].
              intros b' Hb'. inversion Hb'; subst. lia.
            + exists b. split; [exact Hr|]. split; [lia|]. split; [|left; reflexivity].
              intros b' Hb'. inversion Hb'; subst. lia.
          - exists q0. split; [exact Hr|]. split; [lia|]. split; [discriminate|right; reflexivity]. }
        destruct Hcase as (nb & Hrec & Hq0 & Hbest & Hnb).
        destruct (IH (Some nb) r Hrec) as (I1 & I2 & I3).
        destruct (I3 nb eq_refl) as (r' & Hr' & Hle).
        split; [|split].
        * destruct I1 as [I1|(en & q & Hin & Hq & Hrq)].
          -- destruct Hnb as [Hnb|Hnb]; [left; congruence|].
             right. exists (msg, sg), q0. subst nb. split; [left; reflexivity|]. split; [exact Eq|exact I1].
          -- right. exists en, q. split; [right; exact Hin|]. auto.
        * intros en q [Hin|Hin] Hq.
          -- subst en. cbn [fst] in Hq. rewrite Eq in Hq. inversion Hq; subst.
             exists r'. split; [exact Hr'|lia].
          -- eapply I2; eassumption.
        * intros b Hb. exists r'. split; [exact Hr'|]. specialize (Hbest b Hb). lia.
      + destruct (IH best r Hr) as (I1 & I2 & I3). split; [|split].
        * destruct I1 as [I1|(en & q & Hin & Hq & Hrq)]; [left; exact I1|].
          right. exists en, q. split; [right; exact Hin|]. auto.
        * intros en q [Hin|Hin] Hq; [subst en; cbn [fst] in Hq; congruence|].
          eapply I2; eassumption.
        * exact I3.
  Qed.

  Lemma high_qc_abs t :
    tqc_verify g e C t = Ok tt -> is_high_qc (abs_tqc t) (option_map abs_cqc (high_qc t)).
  Proof.
    intros Hv. destruct (tqc_verify_parts t Hv) as (Hen & _). rewrite Forall_forall in Hen.
    unfold high_qc. destruct (high_qc_from_spec (tqmap t) None _ eq_refl) as (I1 & I2 & _).
    destruct (high_qc_from (tqmap t) None) as [q|] eqn:E; cbn [option_map is_high_qc abs_tqc at_entries].
    - split.
      + destruct I1 as [I1|(en & q' & Hin & Hq & Hrq)]; [discriminate|]. inversion Hrq; subst q'.
        destruct (Hen en Hin) as (_ & _ & Hne & _).
        destruct (bits_idx_nonempty _ Hne) as [i Hi]. apply in_bits_idx in Hi.
        exists i, (abs_report (fst en)). split.
        * apply in_abs_entries. exists en. auto.
        * cbn [abs_report ar_hq]. rewrite Hq. reflexivity.
      + intros i r c' Hin Hr. apply in_abs_entries in Hin. destruct Hin as (en & Hin & _ & ->).
        cbn [abs_report ar_hq] in Hr. destruct (thq (fst en)) as [q'|] eqn:Eq; [|discriminate].
        cbn [option_map] in Hr. inversion Hr; subst c'.
        destruct (I2 en q' Hin Eq) as (r' & Hr' & Hle). inversion Hr'; subst r'.
        cbn [abs_cqc aq_view]. exact Hle.
    - intros i r Hin. apply in_abs_entries in Hin. destruct Hin as (en & Hin & _ & ->).
      cbn [abs_report ar_hq]. destruct (thq (fst en)) as [q'|] eqn:Eq; [|reflexivity].
      destruct (I2 en q' Hin Eq) as (r' & Hr' & _). discriminate.
  Qed.

  Lemma num_next_true v r : @num_next unit true v = Ok r -> r = v + 1.
  Proof. unfold num_next, u64_add. destruct (_ <? _); intros H; inversion H; reflexivity. Qed.

  Lemma implied_abs j n oh :
    justification_verify g e C j = Ok tt ->
    @get_implied_block unit true C (p_first P) j = Ok (n, oh) ->
    is_implied W (p_first P) (abs_just j) (n, oh).
  Proof.
    intros Hv Hi. apply justification_verify_iff in Hv. destruct j as [q|t]; cbn [get_implied_block] in Hi.
    - destruct (num_next true (hnum (cprop (qmsg q)))) as [n'| |] eqn:En; cbn [bind] in Hi; try discriminate.
      inversion Hi; subst. apply num_next_true in En. subst.
      cbn [abs_just is_implied abs_cqc aq_block abs_hdr bnum]. reflexivity.
    - destruct (high_vote C t) as [hv| |] eqn:Ehv; cbn [bind] in Hi; try discriminate.
      cbn [abs_just is_implied].
      exists (option_map abs_hdr hv), (option_map abs_cqc (high_qc t)).
      split; [apply high_vote_abs; assumption|]. split; [apply high_qc_abs; assumption|].
      unfold implied_of.
      destruct hv as [v|]; destruct (high_qc t) as [q|]; cbn [option_map abs_hdr abs_cqc aq_block bnum bhash] in *.
      + destruct (hnum (cprop (qmsg q)) <? hnum v).
        * inversion Hi; reflexivity.
        * destruct (num_next true (hnum (cprop (qmsg q)))) as [n'| |] eqn:En; cbn [bind] in Hi; try discriminate.
          inversion Hi; subst. apply num_next_true in En. subst. reflexivity.
      + inversion Hi; reflexivity.
      + destruct (num_next true (hnum (cprop (qmsg q)))) as [n'| |] eqn:En; cbn [bind] in Hi; try discriminate.
        inversion Hi; subst. apply num_next_true in En. subst. reflexivity.
      + inversion Hi; reflexivity.
  Qed.

  Lemma agrees_abs (c : commit) n (oh : option Z) :
    hnum (cprop c) = n -> (forall h, oh = Some h -> hpay (cprop c) = h) ->
    agrees (abs_hdr (cprop c)) (n, oh).
  Proof.
    intros Hn Hh. split; [exact Hn|]. cbn [snd]. destruct oh as [h|]; [apply Hh; reflexivity|exact I].
  Qed.
End Abs.
