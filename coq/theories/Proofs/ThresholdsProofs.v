From Coq Require Import ZArith List Lia Bool.
From EC Require Import Lib.Outcome Lib.U64 Lib.ListW Model.Thresholds Proofs.ListWFacts.
Import ListNotations.
Open Scope Z_scope.

Ltac Zify.zify_post_hook ::= Z.div_mod_to_equations.

(* The arithmetic core: values computed without wrap for every 1 <= n < 2^64. *)
Lemma max_faulty_ok chk n : 1 <= n < U64 -> max_faulty_weight chk n = Ok ((n - 1) / 5).
Proof.
  intros H. unfold max_faulty_weight, u64_sub, u64_div, bind.
  destruct (1 <=? n) eqn:E; [|lia]. reflexivity.
Qed.

Lemma quorum_ok chk n : 1 <= n < U64 -> quorum_threshold chk n = Ok (n - (n - 1) / 5).
Proof.
  intros H. unfold quorum_threshold. rewrite max_faulty_ok by assumption. cbn [bind].
  unfold u64_sub. destruct ((n - 1) / 5 <=? n) eqn:E; [reflexivity|lia].
Qed.

Lemma subquorum_ok chk n : 1 <= n < U64 -> subquorum_threshold chk n = Ok (n - 3 * ((n - 1) / 5)).
Proof.
  intros H. unfold subquorum_threshold. rewrite max_faulty_ok by assumption. cbn [bind].
  unfold u64_mul. unfold U64 in *.
  destruct (3 * ((n - 1) / 5) <? 18446744073709551616) eqn:E; [|lia]. cbn [bind].
  unfold u64_sub. destruct (3 * ((n - 1) / 5) <=? n) eqn:E2; [reflexivity|lia].
Qed.

Record thresholds_spec (n f q s : Z) : Prop := {
  ts_f_nonneg : 0 <= f;
  ts_5f1 : 5 * f + 1 <= n;
  ts_5f5 : n <= 5 * f + 5;
  ts_q : q = n - f;
  ts_s : s = n - 3 * f;
  ts_s_pos : 0 < s;
  ts_s_le_q : s <= q;
  ts_q_le_n : q <= n;
  ts_two_quorums : 2 * q - n > f;          (* two quorums share more than f weight *)
  ts_commit_timeout : 2 * q - n - f >= s;  (* ... and at least s of correct weight *)
  ts_conflict_below : 2 * f < s;           (* weight able to report a conflicting block < s *)
  ts_no_overflow : 3 * f < U64 /\ q < U64 /\ s < U64
}.

Lemma thresholds_all chk n : 1 <= n < U64 ->
  exists f q s,
    max_faulty_weight chk n = Ok f /\ quorum_threshold chk n = Ok q /\
    subquorum_threshold chk n = Ok s /\ thresholds_spec n f q s.
Proof.
  intros H. exists ((n - 1) / 5), (n - (n - 1) / 5), (n - 3 * ((n - 1) / 5)).
  rewrite max_faulty_ok, quorum_ok, subquorum_ok by assumption.
  repeat split; unfold U64 in *; lia.
Qed.

Lemma no_panic chk n : 1 <= n < U64 ->
  is_panic (max_faulty_weight chk n) = false /\
  is_panic (quorum_threshold chk n) = false /\
  is_panic (subquorum_threshold chk n) = false.
Proof.
  intros H. rewrite max_faulty_ok, quorum_ok, subquorum_ok by assumption. auto.
Qed.

(* n = 0 is outside the domain: the dev profile panics, the release profile wraps. *)
Lemma max_faulty_zero_dev : max_faulty_weight true 0 = Panic POverflow.
Proof. reflexivity. Qed.
Lemma max_faulty_zero_release : max_faulty_weight false 0 = Ok 3689348814741910323.
Proof. vm_compute. reflexivity. Qed.

(* Schedule::new only produces totals in [1, 2^64). *)
Lemma total_weight_from_spec ws : forall acc t, 0 <= acc < U64 ->
  total_weight_from acc ws = Ok t ->
  t = acc + total ws /\ all_pos ws /\ acc <= t < U64.
Proof.
  induction ws as [|w ws IH]; intros acc t Hacc H; cbn [total_weight_from total] in *.
  - inversion H; subst. repeat split; try lia. constructor.
  - destruct (w <=? 0) eqn:Ew; [discriminate|].
    unfold u64_checked_add in H. destruct (acc + w <? U64) eqn:Es; [|discriminate].
    apply IH in H; [|lia]. destruct H as (Ht & Hp & Hr).
    repeat split; try lia. constructor; [lia|exact Hp].
Qed.

Lemma schedule_total_spec ws t : schedule_total ws = Ok t ->
  t = total ws /\ all_pos ws /\ 1 <= t < U64 /\ ws <> [].
Proof.
  unfold schedule_total. destruct (total_weight_from 0 ws) as [t0| |] eqn:E; cbn [bind]; try discriminate.
  destruct ws as [|w ws]; [discriminate|]. intros H; inversion H; subst.
  pose proof (total_weight_from_spec (w :: ws) 0 t ltac:(unfold U64; lia) E) as (Ht & Hp & Hr).
  repeat split; try lia; try assumption; try discriminate.
  inversion Hp as [|? ? Hw Hall]; subst. cbn [total] in *.
  pose proof (weight_nonneg ws Hall []). 
  assert (0 <= total ws).
  { clear - Hall. induction Hall; cbn [total]; lia. }
  lia.
Qed.

(* Set-level corollaries for every committee whose weights sum to n. *)
Section Sets.
  Variable ws : list Z.
  Hypothesis Hpos : all_pos ws.
  Let n := total ws.
  Hypothesis Hn : 1 <= n < U64.
  Let f := (n - 1) / 5.
  Let q := n - f.
  Let s := n - 3 * f.

  Lemma two_quorums_share_more_than_f a b :
    length a = length ws -> length b = length ws ->
    q <= weight ws a -> q <= weight ws b -> f < weight ws (band a b).
  Proof.
    intros Ha Hb Hqa Hqb. pose proof (weight_inter_ge ws Hpos a b q Ha Hb Hqa Hqb).
    subst q f n. lia.
  Qed.

  (* commit quorum and timeout quorum share >= s of correct weight when faulty weight <= f *)
  Lemma quorums_share_subquorum_of_correct a b byz :
    length a = length ws -> length b = length ws -> length byz = length ws ->
    q <= weight ws a -> q <= weight ws b -> weight ws byz <= f ->
    s <= weight ws (band (band a b) (bnot byz)).
  Proof.
    intros Ha Hb Hz Hqa Hqb Hbz.
    pose proof (weight_inter_ge ws Hpos a b q Ha Hb Hqa Hqb) as Hab.
    assert (Hlab : length (band a b) = length ws) by (rewrite band_length; lia).
    assert (Hlnb : length (bnot byz) = length ws) by (rewrite bnot_length; lia).
    pose proof (weight_and_or ws (band a b) (bnot byz) Hlab Hlnb) as Hao.
    pose proof (weight_le_total ws Hpos (bor (band a b) (bnot byz))).
    rewrite (weight_not ws byz Hz) in Hao. subst q s f n. lia.
  Qed.

  (* the weight outside a quorum plus the faulty weight is at most 2f < s *)
  Lemma conflicting_reporters_below_subquorum a byz :
    length a = length ws -> length byz = length ws ->
    q <= weight ws a -> weight ws byz <= f ->
    weight ws (bor (bnot a) byz) <= 2 * f /\ 2 * f < s.
  Proof.
    intros Ha Hz Hqa Hbz.
    assert (Hlna : length (bnot a) = length ws) by (rewrite bnot_length; lia).
    pose proof (weight_or_le ws Hpos (bnot a) byz Hlna Hz) as Hor.
    rewrite (weight_not ws a Ha) in Hor. subst q s f n. lia.
  Qed.
End Sets.
