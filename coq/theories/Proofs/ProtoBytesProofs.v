(* From "the built message is structurally well formed and the encoding is below 4 GiB" to the
   closed byte-level round trip decode_T (encode_T v) = Ok v; lemmas about messages written as
   [flatten segments]. *)
From Coq Require Import String ZArith List Bool Lia.
From EC Require Import Lib.Outcome Model.Wire Model.ProtoSchema Model.ProtoTyped Model.ProtoTyped2 Gen.Schema.
From EC Require Import Proofs.WireProofs Proofs.ProtoSchemaProofs Proofs.ProtoCanonProofs Proofs.ProtoTypedProofs.
Import ListNotations.
Open Scope list_scope.
Open Scope Z_scope.

(* ---- structural well-formedness (no size conditions) ---- *)

Definition val_struct (P : nat -> dmsg -> Prop) (fd : field) (v : dval) : Prop :=
  match wire_of_kind (fkind fd), fkind fd, v with
  | WVarint, _, DVar z => 0 <= z < two64
  | WI64, _, DFix raw => length raw = 8%nat
  | WI32, _, DFix raw => length raw = 4%nat
  | WLen, KMessage mi', DMsg d' => P mi' d'
  | WLen, KString, DBytes _ | WLen, KBytes, DBytes _ => True
  | _, _, _ => False
  end.

Definition entry_struct (P : nat -> dmsg -> Prop) (fs : list field) (e : Z * dval) : Prop :=
  exists fd, find_field fs (fst e) = Some fd /\ val_struct P fd (snd e).

Fixpoint dmsg_struct (Sc : ProtoSchema.schema) (n : nat) (mi : nat) (d : dmsg) : Prop :=
  match n with
  | O => False
  | S n' =>
      exists m, nth_error Sc mi = Some m /\
        entries_sorted (mfields m) 0 d /\
        Forall (entry_struct (dmsg_struct Sc n') (mfields m)) d
  end.

Lemma val_struct_impl : forall (P Q : nat -> dmsg -> Prop) fd v,
  (forall mi d, P mi d -> Q mi d) -> val_struct P fd v -> val_struct Q fd v.
Proof.
  intros P Q fd v H. unfold val_struct.
  destruct (wire_of_kind (fkind fd)); destruct (fkind fd); destruct v; auto.
Qed.

Lemma entry_struct_impl : forall (P Q : nat -> dmsg -> Prop) fs e,
  (forall mi d, P mi d -> Q mi d) -> entry_struct P fs e -> entry_struct Q fs e.
Proof. intros P Q fs e H [fd [Hf Hv]]. exists fd. split; [assumption | eapply val_struct_impl; eassumption]. Qed.

Lemma struct_mono : forall Sc n n' mi d, (n <= n')%nat -> dmsg_struct Sc n mi d -> dmsg_struct Sc n' mi d.
Proof.
  intros Sc. induction n as [|n IH]; intros n' mi d Hle H; [contradiction|].
  destruct n' as [|n']; [lia|]. cbn [dmsg_struct] in *.
  destruct H as [m [Hn [Hs Hf]]]. exists m. split; [assumption|]. split; [assumption|].
  eapply Forall_impl; [|exact Hf]. intros e He. eapply entry_struct_impl; [|exact He].
  intros mi' d' H'. apply (IH n'); [lia | assumption].
Qed.

(* depth-free form *)
Definition wf (Sc : ProtoSchema.schema) (mi : nat) (d : dmsg) : Prop := exists n, dmsg_struct Sc n mi d.

Lemma wf_bound : forall Sc fs d, Forall (entry_struct (wf Sc) fs) d ->
  exists N, Forall (entry_struct (dmsg_struct Sc N) fs) d.
Proof.
  intros Sc fs d H. induction H as [|e d [fd [Hf Hv]] Hr [N IH]]; [exists O; constructor|].
  assert (Hn : exists n, val_struct (dmsg_struct Sc n) fd (snd e)).
  { unfold val_struct in *. destruct (wire_of_kind (fkind fd)); destruct (fkind fd); destruct (snd e);
      try (exists O; exact Hv). destruct Hv as [n Hn]. exists n. exact Hn. }
  destruct Hn as [n Hn]. exists (Nat.max n N). constructor.
  - exists fd. split; [assumption|]. eapply val_struct_impl; [|exact Hn].
    intros mi d0. apply struct_mono. lia.
  - eapply Forall_impl; [|exact IH]. intros e0 He0. eapply entry_struct_impl; [|exact He0].
    intros mi d0. apply struct_mono. lia.
Qed.

Lemma wf_intro : forall Sc mi m d, nth_error Sc mi = Some m ->
  entries_sorted (mfields m) 0 d -> Forall (entry_struct (wf Sc) (mfields m)) d -> wf Sc mi d.
Proof.
  intros Sc mi m d Hn Hs Hf. destruct (wf_bound _ _ _ Hf) as [N HN].
  exists (S N). cbn [dmsg_struct]. exists m. auto.
Qed.

(* ---- sizes from the total length ---- *)

Lemma enc_entry_bytes_length : forall Sc fs k fd b,
  find_field fs k = Some fd -> wire_of_kind (fkind fd) = WLen ->
  (length b <= length (enc_entry Sc fs (k, DBytes b)))%nat.
Proof.
  intros Sc fs k fd b Hfd Hw. unfold enc_entry. cbn [fst snd]. rewrite Hfd.
  unfold emit_field. rewrite Hw. cbn [flat_map raw_of_dval]. rewrite app_nil_r.
  unfold encode_len_delim. rewrite !app_length. lia.
Qed.

Lemma struct_ok : forall Sc, schema_unpacked Sc = true ->
  forall n mi d, dmsg_struct Sc n mi d -> Z.of_nat (length (canon Sc mi d)) < two32 -> dmsg_ok Sc n mi d.
Proof.
  intros Sc Hunp. induction n as [|n IH]; intros mi d H Hlen; [contradiction|].
  cbn [dmsg_struct] in H. destruct H as [m [Hn [Hs Hf]]]. cbn [dmsg_ok]. exists m. split; [assumption|]. split; [assumption|].
  pose proof (schema_nth_forallb Sc _ mi m Hunp Hn) as Hmu.
  assert (Hfind : Forall (fun e : Z * dval => exists fd, find_field (mfields m) (fst e) = Some fd) d).
  { eapply Forall_impl; [|exact Hf]. intros e [fd [Hfd _]]. exists fd. exact Hfd. }
  assert (Hc : canon Sc mi d = flat_map (enc_entry Sc (mfields m)) d).
  { rewrite (canon_unfold Sc mi m d Hn). rewrite group_raw_fold.
    rewrite (emit_sorted Sc (mfields m) Hmu d 0 []); [reflexivity | left; constructor | exact Hs | exact Hfind]. }
  rewrite Hc in Hlen.
  rewrite Forall_forall in *. intros [k v] Hin. destruct (Hf _ Hin) as [fd [Hfd Hv]]. cbn [fst snd] in *.
  exists fd. split; [exact Hfd|]. cbn [snd].
  pose proof (flat_map_length_in _ (enc_entry Sc (mfields m)) d _ Hin) as Hl.
  unfold val_struct in Hv.
  destruct (wire_of_kind (fkind fd)) eqn:Ew; destruct (fkind fd) eqn:Ek; destruct v; try exact Hv; try contradiction.
  - (* string *) assert (Hw : wire_of_kind (fkind fd) = WLen) by (rewrite Ek; reflexivity).
    pose proof (enc_entry_bytes_length Sc (mfields m) k fd b Hfd Hw). lia.
  - (* bytes *) assert (Hw : wire_of_kind (fkind fd) = WLen) by (rewrite Ek; reflexivity).
    pose proof (enc_entry_bytes_length Sc (mfields m) k fd b Hfd Hw). lia.
  - (* message *)
    pose proof (enc_entry_msg_length Sc (mfields m) k fd idx es Hfd Ek) as Hl2.
    assert (Hsmall : Z.of_nat (length (canon Sc idx es)) < two32) by lia.
    split; [apply IH; assumption | assumption].
Qed.

(* ---- encode / decode of a typed value over the generated schema ---- *)

Definition encode {A : Type} (mi : nat) (build : A -> dmsg) (v : A) : bytes := canon schema mi (build v).
Definition decode {A : Type} (mi : nat) (read : dmsg -> res A) (b : bytes) : res A :=
  match denote schema mi b with Some d => read d | None => err end.
Definition small (b : bytes) : Prop := Z.of_nat (length b) < two32.   (* below 4 GiB *)

Lemma schema_facts : schema_wf schema = true /\ schema_canonical_ok schema = true /\ schema_unpacked schema = true.
Proof. repeat split; vm_compute; reflexivity. Qed.

Theorem bytes_roundtrip : forall (A : Type) (mi : nat) (build : A -> dmsg) (read : dmsg -> res A) (v : A),
  wf schema mi (build v) -> small (encode mi build v) -> read (build v) = Ok v ->
  decode mi read (encode mi build v) = Ok v.
Proof.
  intros A mi build read v [n Hs] Hsmall Hrt. unfold decode, encode in *.
  destruct schema_facts as [H1 [H2 H3]].
  rewrite (denote_canon schema H1 H2 H3 n mi (build v)); [exact Hrt|].
  apply struct_ok; assumption.
Qed.

(* ---- messages written as flatten segments ---- *)

Lemma get_all_flatten : forall k segs,
  get_all k (flatten segs) = flat_map (fun s : Z * list dval => if fst s =? k then snd s else []) segs.
Proof.
  intros k segs. unfold flatten. induction segs as [|[k' vs] segs IH]; [reflexivity|].
  cbn [flat_map fst snd]. rewrite get_all_app, IH. f_equal.
  unfold get_all. destruct (k' =? k) eqn:E.
  - induction vs as [|v vs IHv]; [reflexivity|]. cbn [map filter fst]. rewrite E. cbn [map snd]. f_equal. exact IHv.
  - induction vs as [|v vs IHv]; [reflexivity|]. cbn [map filter fst]. rewrite E. exact IHv.
Qed.

Fixpoint seg_sorted (prev : Z) (segs : list (Z * list dval)) : Prop :=
  match segs with
  | [] => True
  | (k, _) :: r => prev < k /\ seg_sorted k r
  end.

Definition seg_ok (P : nat -> dmsg -> Prop) (fs : list field) (s : Z * list dval) : Prop :=
  exists fd, find_field fs (fst s) = Some fd /\
    (is_list fd = true \/ (length (snd s) <= 1)%nat) /\
    Forall (val_struct P fd) (snd s).

Lemma es_lower : forall fs l p p', p' <= p -> entries_sorted fs p l ->
  Forall (fun e : Z * dval => p < fst e) l -> entries_sorted fs p' l.
Proof.
  intros fs [|[k v] l] p p' Hle Hs Hg; [exact I|].
  cbn [entries_sorted] in *. destruct Hs as [_ Hs]. inversion Hg as [|? ? Hk _]; subst. cbn [fst] in Hk.
  split; [left; lia | exact Hs].
Qed.

Lemma seg_same : forall fs k fd vs R, find_field fs k = Some fd -> is_list fd = true ->
  entries_sorted fs k R -> entries_sorted fs k (map (pair k) vs ++ R).
Proof.
  intros fs k fd vs R Hf Hl HR. induction vs as [|v vs IH]; [exact HR|].
  cbn [map app entries_sorted]. split; [right; split; [reflexivity | exists fd; auto] | exact IH].
Qed.

Lemma flatten_sorted : forall P fs segs prev, seg_sorted prev segs -> Forall (seg_ok P fs) segs ->
  entries_sorted fs prev (flatten segs) /\ Forall (fun e : Z * dval => prev < fst e) (flatten segs).
Proof.
  intros P fs. induction segs as [|[k vs] segs IH]; intros prev Hs Hok; [split; [exact I | constructor]|].
  cbn [seg_sorted] in Hs. destruct Hs as [Hlt Hs]. inversion Hok as [|? ? [fd [Hf [Hcard _]]] Hok']; subst.
  cbn [fst snd] in *. destruct (IH k Hs Hok') as [HR HRg].
  unfold flatten. cbn [flat_map fst snd]. fold (flatten segs). split.
  - destruct vs as [|v vs].
    + cbn [map app]. eapply es_lower; [|exact HR|exact HRg]. lia.
    + cbn [map app entries_sorted]. split; [left; exact Hlt|].
      destruct vs as [|v' vs]; [exact HR|].
      destruct Hcard as [Hl|Hl]; [|cbn in Hl; lia].
      apply (seg_same fs k fd (v' :: vs) (flatten segs) Hf Hl HR).
  - apply Forall_app. split.
    + clear - Hlt. induction vs; constructor; [cbn; exact Hlt | assumption].
    + eapply Forall_impl; [|exact HRg]. cbn. intros; lia.
Qed.

Lemma flatten_entries : forall P fs segs, Forall (seg_ok P fs) segs -> Forall (entry_struct P fs) (flatten segs).
Proof.
  intros P fs segs H. induction H as [|[k vs] segs [fd [Hf [_ Hv]]] Hr IH]; [constructor|].
  unfold flatten. cbn [flat_map fst snd] in *. fold (flatten segs). apply Forall_app. split; [|exact IH].
  clear - Hf Hv. induction Hv as [|v vs Hv Hr IH]; constructor; [|exact IH].
  exists fd. cbn [fst snd]. auto.
Qed.

(* a message written as ascending segments, each with an existing field, at most one value unless
   the field is repeated, and structurally well-formed values, is well formed *)
Lemma wf_flatten : forall mi m segs, nth_error schema mi = Some m -> seg_sorted 0 segs ->
  Forall (seg_ok (wf schema) (mfields m)) segs -> wf schema mi (flatten segs).
Proof.
  intros mi m segs Hn Hs Hok. eapply wf_intro; [exact Hn | | apply flatten_entries; exact Hok].
  apply (flatten_sorted (wf schema) (mfields m) segs 0 Hs Hok).
Qed.

(* repeated sub-messages *)
Lemma sub_rep_build : forall (A : Type) (read : dmsg -> res A) (build : A -> dmsg) (l : list A),
  Forall (fun a => read (build a) = Ok a) l ->
  map_outcome (fun v => match v with DMsg es => read es | _ => err end) (map (fun a => DMsg (build a)) l) = Ok l.
Proof.
  intros A read build l H. induction H as [|a l Ha Hr IH]; [reflexivity|].
  cbn [map map_outcome]. rewrite Ha. cbn [bind]. rewrite IH. reflexivity.
Qed.

Lemma Forall_val_map : forall (A : Type) P fd (f : A -> dval) (l : list A),
  Forall (fun a => val_struct P fd (f a)) l -> Forall (val_struct P fd) (map f l).
Proof. intros A P fd f l H. induction H; constructor; assumption. Qed.
