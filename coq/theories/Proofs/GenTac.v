(* Tactics for the "generated definition = hand model" theorems (Properties/C*Gen*.v).
   They are deliberately brute force: unfold both sides, split on every condition and option,
   close the leaves with reflexivity / lia.  Such a proof does not depend on how the source
   spells a computation (local names, let-bindings, parentheses, order of independent tests),
   only on what it computes. *)
From Coq Require Import ZArith List Bool Lia.
From EC Require Import Lib.Outcome Lib.U64 Lib.RustSem.
Open Scope Z_scope.

Ltac gen_simpl :=
  cbn [bind obind obind_pure unwrap unwrap_or is_some is_none option_map fst snd rassert
       negb andb orb] in *.

Ltac gen_split :=
  repeat (gen_simpl;
    match goal with
    | |- context [if ?b then _ else _] =>
        lazymatch b with
        | true => fail | false => fail
        | _ => let H := fresh "Hc" in destruct b eqn:H
        end
    | |- context [match ?o with Some _ => _ | None => _ end] =>
        let H := fresh "Ho" in destruct o eqn:H
    | H0 : context [if ?b then _ else _] |- _ =>
        lazymatch b with
        | true => fail | false => fail
        | _ => let H := fresh "Hc" in destruct b eqn:H
        end
    end).

Ltac gen_leaf :=
  gen_simpl;
  first [ reflexivity | discriminate | (exfalso; unfold U64 in *; lia)
        | (f_equal; unfold U64 in *; lia) | (do 2 f_equal; unfold U64 in *; lia)
        | (do 3 f_equal; unfold U64 in *; lia) | (repeat f_equal; unfold U64 in *; lia) | congruence ].

Ltac gen_arith :=
  unfold u64_add, u64_sub, u64_mul, u64_div, u64_rem, u64_checked_add,
         uN_add, uN_sub, uN_mul, uN_checked_add, uN_checked_sub, uN_checked_mul, index_known, wrap in *.

Ltac gen_auto := gen_arith; gen_split; gen_leaf.
