(* Non-vacuity of the Layer B theorems: concrete schedules of the protocol model, run by the
   executable scheduler of Proofs/ProtocolRefinesExec.v (sound w.r.t. pstep). *)
From Coq Require Import ZArith List Bool Lia.
From EC Require Import Lib.Outcome Lib.ListW Model.Msgs Model.Replica Model.ReplicaRun Model.Protocol
  Proofs.ProtocolRefinesExec.
Import ListNotations.
Open Scope Z_scope.

Lemma ex_params_ok : params_ok ex_P.
Proof.
  split; [|split; [|split]].
  - cbn. repeat constructor; cbn; intuition discriminate.
  - repeat constructor.
  - vm_compute. discriminate.
  - vm_compute. discriminate.
Qed.

(* An honest run to a committed block: the four view-0 timeouts reach validator 2 (leader of
   view 1), which forms a timeout certificate and announces view 1; the others follow its
   new-view message; validator 2 proposes payload 42 for block 0; all four vote; the four votes
   reach validator 1, which forms the commit certificate and queues block (0, 42). *)
Definition ex_ops : list xop :=
  [XDeliver 2 0; XDeliver 2 1; XDeliver 2 2; XDeliver 2 3;
   XDeliver 1 4; XDeliver 3 4; XDeliver 4 4; XPropose 2 (Some 42);
   XDeliver 1 8; XDeliver 2 8; XDeliver 3 8; XDeliver 4 8;
   XDeliver 1 9; XDeliver 1 10; XDeliver 1 11; XDeliver 1 12].

Lemma ex_run_obs :
  option_map ex_obs (xrun ex_P (ginit ex_P) ex_ops) =
  Some ([(2, 0, true, 1); (1, 1, true, 0); (1, 1, true, 0); (1, 1, true, 0)],
        14%nat, 13%nat, [(1, 0, 42)]).
Proof. vm_compute. reflexivity. Qed.

Lemma ex_run_facts :
  option_map (fun s => (g_qlog s, r_store_next (n_live (g_node s 1)), r_view (n_live (g_node s 1))))
             (xrun ex_P (ginit ex_P) ex_ops) = Some ([(1, 0, 42)], 1, 2).
Proof. vm_compute. reflexivity. Qed.

Theorem ex_commit_reachable :
  exists s, preach ex_P s /\ g_qlog s = [(1, 0, 42)] /\
            r_store_next (n_live (g_node s 1)) = 1 /\ r_view (n_live (g_node s 1)) = 2.
Proof.
  destruct (xrun ex_P (ginit ex_P) ex_ops) as [s|] eqn:E.
  - exists s. split; [eapply xrun_reach; [apply PReachInit|exact E]|].
    pose proof ex_run_facts as H. rewrite E in H. cbn [option_map] in H.
    injection H as H1 H2 H3. repeat split; assumption.
  - pose proof ex_run_facts as H. rewrite E in H. discriminate.
Qed.

(* A run with a crash: validator 3 crashes while handling the proposal, after the durable write
   recording its vote and before the vote is sent; it restarts in view 1 / phase Commit, later
   times out; validator 4 is restarted cleanly.  The vote of 3 is in the durable history and
   not on the network. *)
Definition ex_ops_crash : list xop :=
  [XDeliver 2 0; XDeliver 2 1; XDeliver 2 2; XDeliver 2 3;
   XDeliver 1 4; XDeliver 3 4; XDeliver 4 4; XPropose 2 (Some 42);
   XDeliver 1 8; XDeliver 2 8; XCrash 3 (Some 8%nat) 0 true; XDeliver 4 8; XTimer 3; XRestart 4].

Definition ex_msg_kinds (s : gstate) : list (Z * Z) :=
  map (fun m => (m_key m, match m_msg m with MProposal _ _ => 0 | MCommit _ => 1
                                          | MTimeout _ => 2 | MNewView _ => 3 end)) (g_soup s).
Definition ex_writes (s : gstate) : list (Z * Z * Z) :=
  map (fun x => (fst x, d_view (snd x), phase_code (d_phase (snd x)))) (g_plog s).

Lemma ex_crash_obs :
  option_map (fun s => (ex_obs s, ex_msg_kinds s, ex_writes s)) (xrun ex_P (ginit ex_P) ex_ops_crash) =
  Some (([(1, 1, true, 0); (1, 1, true, 0); (1, 2, true, 0); (1, 1, true, 0)], 14%nat, 13%nat, []),
        [(1, 2); (2, 2); (3, 2); (4, 2); (2, 3); (1, 3); (3, 3); (4, 3); (2, 0); (1, 1); (2, 1); (4, 1);
         (3, 3); (3, 2)],
        [(1, 0, 2); (2, 0, 2); (3, 0, 2); (4, 0, 2); (2, 1, 0); (1, 1, 0); (3, 1, 0); (4, 1, 0);
         (1, 1, 1); (2, 1, 1); (3, 1, 1); (4, 1, 1); (3, 1, 2)]).
Proof. vm_compute. reflexivity. Qed.

Lemma ex_crash_facts :
  option_map (fun s => (ex_msg_kinds s, ex_writes s)) (xrun ex_P (ginit ex_P) ex_ops_crash) =
  Some ([(1, 2); (2, 2); (3, 2); (4, 2); (2, 3); (1, 3); (3, 3); (4, 3); (2, 0); (1, 1); (2, 1); (4, 1);
         (3, 3); (3, 2)],
        [(1, 0, 2); (2, 0, 2); (3, 0, 2); (4, 0, 2); (2, 1, 0); (1, 1, 0); (3, 1, 0); (4, 1, 0);
         (1, 1, 1); (2, 1, 1); (3, 1, 1); (4, 1, 1); (3, 1, 2)]).
Proof. vm_compute. reflexivity. Qed.

Theorem ex_crash_reachable :
  exists s, preach ex_P s /\
    In (3, 1, 1) (ex_writes s) /\ ~ In (3, 1) (ex_msg_kinds s) /\ In (3, 1, 2) (ex_writes s).
Proof.
  destruct (xrun ex_P (ginit ex_P) ex_ops_crash) as [s|] eqn:E.
  - exists s. split; [eapply xrun_reach; [apply PReachInit|exact E]|].
    pose proof ex_crash_facts as H. rewrite E in H. cbn [option_map] in H. injection H as H2 H3.
    rewrite H2, H3. split; [cbn; tauto|]. split; [|cbn; tauto].
    cbn. intros Hin. repeat (destruct Hin as [Hin|Hin]; [discriminate|]). exact Hin.
  - pose proof ex_crash_facts as H. rewrite E in H. discriminate.
Qed.
