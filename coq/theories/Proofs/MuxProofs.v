(* Proofs about Model/MuxHeader.v and Model/Mux.v (property C14). *)
From Coq Require Import ZArith List Bool Lia Sorting.Sorted.
From EC Require Import Lib.Outcome Lib.Obs Model.MuxHeader Model.Mux.
Import ListNotations.
Open Scope Z_scope.

(* ================= header bit layout: exhaustive over all 2^16 values ================= *)
Fixpoint zseq (from : Z) (n : nat) : list Z :=
  match n with O => [] | S n' => from :: zseq (from + 1) n' end.

Lemma zseq_in : forall n from h, from <= h < from + Z.of_nat n -> In h (zseq from n).
Proof.
  induction n as [|n IH]; intros from h Hh.
  - cbn [Z.of_nat] in Hh. lia.
  - cbn [zseq]. destruct (Z.eq_dec from h) as [->|Hne]; [left; reflexivity|].
    right. apply IH. lia.
Qed.

Lemma forall_range : forall (P : Z -> bool) (n : nat) (z : Z), Z.of_nat n = z ->
  forallb P (zseq 0 n) = true -> forall h, 0 <= h < z -> P h = true.
Proof.
  intros P n z Hz H h Hh. rewrite forallb_forall in H. apply H. apply zseq_in. lia.
Qed.

Lemma of_nat_65536 : Z.of_nat 65536 = 65536.
Proof. vm_compute. reflexivity. Qed.
Lemma of_nat_8192 : Z.of_nat 8192 = 8192.
Proof. vm_compute. reflexivity. Qed.

Definition outcome_eqb (x : outcome unit Z) (h : Z) : bool :=
  match x with Ok v => v =? h | _ => false end.

Definition hdr_check (h : Z) : bool :=
  outcome_eqb (header_new (frame_kind h) (stream_kind h) (stream_id h)) h
  && (frame_kind h + stream_kind h + stream_id h =? h)
  && (match header_raw h with [b0; b1] => (header_of_bytes b0 b1 =? h) && (0 <=? b0) && (b0 <? 256) && (0 <=? b1) && (b1 <? 256) | _ => false end)
  && ((stream_kind h =? SK_ACCEPT) || (stream_kind h =? SK_CONNECT))
  && (stream_id h <=? ID_MASK) && (0 <=? stream_id h)
  && (match classify h with KBad => frame_kind h =? FK_BAD | KOpen => frame_kind h =? FK_OPEN | KData => frame_kind h =? FK_DATA | KClose => frame_kind h =? FK_CLOSE end).

Lemma hdr_check_all : forallb hdr_check (zseq 0 65536) = true.
Proof. vm_compute. reflexivity. Qed.

Definition fields_check (id : Z) : bool :=
  forallb (fun fk => forallb (fun sk =>
    match header_new fk sk id with
    | Ok h => (h =? fk + sk + id) && (frame_kind h =? fk) && (stream_kind h =? sk) && (stream_id h =? id) && (h <? 65536) && (0 <=? h)
    | _ => false
    end) [SK_ACCEPT; SK_CONNECT]) [FK_OPEN; FK_DATA; FK_CLOSE].

Lemma fields_check_all : forallb fields_check (zseq 0 8192) = true.
Proof. vm_compute. reflexivity. Qed.

Theorem header_roundtrip_all : forall h, 0 <= h < 65536 ->
  header_new (frame_kind h) (stream_kind h) (stream_id h) = Ok h /\
  frame_kind h + stream_kind h + stream_id h = h /\
  (exists b0 b1, header_raw h = [b0; b1] /\ 0 <= b0 < 256 /\ 0 <= b1 < 256 /\ header_of_bytes b0 b1 = h) /\
  (stream_kind h = SK_ACCEPT \/ stream_kind h = SK_CONNECT) /\
  0 <= stream_id h <= ID_MASK.
Proof.
  intros h Hh. pose proof (forall_range hdr_check 65536 65536 of_nat_65536 hdr_check_all h) as H.
  assert (Hc : hdr_check h = true) by (apply H; lia). clear H. unfold hdr_check in Hc.
  repeat (apply andb_prop in Hc; destruct Hc as [Hc ?]).
  split.
  { unfold outcome_eqb in Hc. destruct (header_new _ _ _) as [v| |]; try discriminate. apply Z.eqb_eq in Hc. subst. reflexivity. }
  split; [apply Z.eqb_eq; assumption|].
  split.
  { destruct (header_raw h) as [|b0 [|b1 [|? ?]]]; try discriminate. exists b0, b1.
    repeat match goal with Hx : _ && _ = true |- _ => apply andb_prop in Hx; destruct Hx end.
    repeat match goal with Hx : (_ =? _) = true |- _ => apply Z.eqb_eq in Hx | Hx : (_ <=? _) = true |- _ => apply Z.leb_le in Hx | Hx : (_ <? _) = true |- _ => apply Z.ltb_lt in Hx end.
    split; [reflexivity|]. repeat split; assumption. }
  split.
  { match goal with Hx : (_ || _) = true |- _ => apply orb_prop in Hx; destruct Hx as [Hx|Hx]; apply Z.eqb_eq in Hx; [left|right]; exact Hx end. }
  repeat match goal with Hx : (_ <=? _) = true |- _ => apply Z.leb_le in Hx end. split; assumption.
Qed.

(* total classification of the two frame kind bits (repair e65da50): the unassigned value is an
   ordinary branch of the match, not unreachable!() *)
Theorem frame_kind_total : forall h, 0 <= h < 65536 ->
  match classify h with
  | KOpen => frame_kind h = FK_OPEN | KData => frame_kind h = FK_DATA
  | KClose => frame_kind h = FK_CLOSE | KBad => frame_kind h = FK_BAD
  end.
Proof.
  intros h Hh. pose proof (forall_range hdr_check 65536 65536 of_nat_65536 hdr_check_all h) as H.
  assert (Hc : hdr_check h = true) by (apply H; lia). clear H. unfold hdr_check in Hc.
  apply andb_prop in Hc. destruct Hc as [_ Hc]. destruct (classify h); apply Z.eqb_eq; exact Hc.
Qed.

Theorem header_fields_roundtrip : forall fk sk id,
  In fk [FK_OPEN; FK_DATA; FK_CLOSE] -> In sk [SK_ACCEPT; SK_CONNECT] -> 0 <= id <= ID_MASK ->
  exists h, header_new fk sk id = Ok h /\ h = fk + sk + id /\ 0 <= h < 65536 /\
            frame_kind h = fk /\ stream_kind h = sk /\ stream_id h = id.
Proof.
  intros fk sk id Hfk Hsk Hid.
  pose proof (forall_range fields_check 8192 8192 of_nat_8192 fields_check_all id) as H.
  assert (Hc : fields_check id = true) by (apply H; unfold ID_MASK in Hid; lia). clear H.
  unfold fields_check in Hc. rewrite forallb_forall in Hc. specialize (Hc fk Hfk).
  rewrite forallb_forall in Hc. specialize (Hc sk Hsk).
  destruct (header_new fk sk id) as [h| |]; try discriminate. exists h.
  repeat (apply andb_prop in Hc; destruct Hc as [Hc ?]).
  repeat match goal with Hx : (_ =? _) = true |- _ => apply Z.eqb_eq in Hx | Hx : (_ <=? _) = true |- _ => apply Z.leb_le in Hx | Hx : (_ <? _) = true |- _ => apply Z.ltb_lt in Hx end.
  split; [reflexivity|]. repeat split; assumption.
Qed.

Theorem header_new_rejects : forall fk sk id, ID_MASK < id -> header_new fk sk id = Panic PAssert.
Proof. intros fk sk id H. unfold header_new. apply Z.leb_gt in H. rewrite H. reflexivity. Qed.

(* ================= stream id partition ================= *)
Definition klt (a b : Z * Z) : Prop := fst a < fst b.
Definition ksorted (m : list (Z * Z)) : Prop := StronglySorted klt m.

Lemma ksorted_inv : forall a m, ksorted (a :: m) -> ksorted m /\ Forall (klt a) m.
Proof. intros a m H. inversion H; subst. split; assumption. Qed.

Lemma bt_insert_forall : forall a c n m, fst a < c -> Forall (klt a) m -> Forall (klt a) (bt_insert c n m).
Proof.
  intros a c n m Hac. induction m as [|[c' n'] t IH]; intros HF; cbn [bt_insert].
  - constructor; [exact Hac|constructor].
  - inversion HF as [|? ? Hh Ht]; subst.
    destruct (c <? c') eqn:E1; [constructor; [exact Hac|exact HF]|].
    destruct (c =? c') eqn:E2; [constructor; [exact Hac|exact Ht]|].
    constructor; [exact Hh|apply IH; exact Ht].
Qed.

Lemma bt_insert_sorted : forall c n m, ksorted m -> ksorted (bt_insert c n m).
Proof.
  intros c n m. induction m as [|[c' n'] t IH]; intros Hs; cbn [bt_insert].
  - constructor; constructor.
  - destruct (ksorted_inv _ _ Hs) as [Ht HF].
    destruct (c <? c') eqn:E1.
    + apply Z.ltb_lt in E1. constructor; [exact Hs|].
      constructor; [exact E1|]. eapply Forall_impl; [|exact HF].
      intros b Hb. unfold klt in *. cbn [fst] in *. lia.
    + destruct (c =? c') eqn:E2.
      * apply Z.eqb_eq in E2. subst c'. constructor; [exact Ht|exact HF].
      * apply Z.ltb_ge in E1. apply Z.eqb_neq in E2.
        constructor; [apply IH; exact Ht|].
        apply bt_insert_forall; [cbn [fst]; lia|exact HF].
Qed.

Lemma bt_of_list_sorted : forall l, ksorted (bt_of_list l).
Proof.
  intros l. unfold bt_of_list.
  assert (H : forall m, ksorted m -> ksorted (fold_left (fun m p => bt_insert (fst p) (snd p) m) l m)).
  { induction l as [|p l IH]; intros m Hm; cbn [fold_left]; [exact Hm|].
    apply IH. apply bt_insert_sorted. exact Hm. }
  apply H. constructor.
Qed.

(* two strictly sorted lists with the same elements are equal *)
Lemma ksorted_ext : forall l1 l2, ksorted l1 -> ksorted l2 ->
  (forall x, In x l1 <-> In x l2) -> l1 = l2.
Proof.
  induction l1 as [|a l1 IH]; intros l2 H1 H2 Hext.
  - destruct l2 as [|b l2]; [reflexivity|]. exfalso. apply (proj2 (Hext b)). left; reflexivity.
  - destruct l2 as [|b l2]; [exfalso; apply (proj1 (Hext a)); left; reflexivity|].
    destruct (ksorted_inv _ _ H1) as [H1t H1f]. destruct (ksorted_inv _ _ H2) as [H2t H2f].
    rewrite Forall_forall in H1f, H2f.
    assert (Hab : a = b).
    { destruct (proj1 (Hext a) (or_introl eq_refl)) as [Hba|Hin]; [symmetry; exact Hba|].
      destruct (proj2 (Hext b) (or_introl eq_refl)) as [Hab|Hin']; [exact Hab|].
      specialize (H2f _ Hin). specialize (H1f _ Hin'). unfold klt in *. lia. }
    subst b. f_equal. apply IH; [exact H1t|exact H2t|].
    intros x. split; intros Hx.
    + destruct (proj1 (Hext x) (or_intror Hx)) as [Hax|Hin]; [|exact Hin].
      subst x. specialize (H1f _ Hx). unfold klt in H1f. lia.
    + destruct (proj2 (Hext x) (or_intror Hx)) as [Hax|Hin]; [|exact Hin].
      subst x. specialize (H2f _ Hx). unfold klt in H2f. lia.
Qed.

Lemma lookup_in : forall m c n, ksorted m -> In (c, n) m -> lookup_def m c = n.
Proof.
  induction m as [|[c' n'] t IH]; intros c n Hs Hin; [destruct Hin|].
  destruct (ksorted_inv _ _ Hs) as [Ht HF]. unfold lookup_def. cbn [find fst].
  destruct Hin as [Heq|Hin].
  - inversion Heq; subst. rewrite Z.eqb_refl. reflexivity.
  - rewrite Forall_forall in HF. specialize (HF _ Hin). unfold klt in HF. cbn [fst] in HF.
    destruct (c' =? c) eqn:E; [apply Z.eqb_eq in E; lia|]. apply IH; assumption.
Qed.

Lemma lookup_notin : forall m c, (forall n, ~ In (c, n) m) -> lookup_def m c = 0.
Proof.
  induction m as [|[c' n'] t IH]; intros c Hn; [reflexivity|].
  unfold lookup_def. cbn [find fst]. destruct (c' =? c) eqn:E.
  - apply Z.eqb_eq in E. subst. exfalso. apply (Hn n'). left; reflexivity.
  - apply IH. intros n Hin. apply (Hn n). right; exact Hin.
Qed.

Lemma lookup_pos_in : forall m c, 0 < lookup_def m c -> In (c, lookup_def m c) m.
Proof.
  induction m as [|[c' n'] t IH]; intros c Hpos; [unfold lookup_def in Hpos; cbn in Hpos; lia|].
  unfold lookup_def in *. cbn [find fst] in *. destruct (c' =? c) eqn:E.
  - apply Z.eqb_eq in E. subst. cbn [snd]. left; reflexivity.
  - right. apply IH. exact Hpos.
Qed.

Definition nz (a : list (Z * Z)) : list (Z * Z) := filter (fun q => 0 <? snd q) a.

Lemma expand_nz : forall a, expand a = expand (nz a).
Proof.
  induction a as [|[c n] t IH]; [reflexivity|].
  unfold expand, nz in *. cbn [flat_map filter snd fst].
  destruct (0 <? n) eqn:E.
  - cbn [flat_map fst snd]. rewrite IH. reflexivity.
  - apply Z.ltb_ge in E. replace (Z.to_nat n) with O by lia. cbn [repeat app]. exact IH.
Qed.

Lemma nz_alloc_sorted : forall m p, ksorted m -> ksorted (nz (alloc m p)).
Proof.
  intros m p. induction m as [|[c n] t IH]; intros Hs; [constructor|].
  destruct (ksorted_inv _ _ Hs) as [Ht HF]. unfold nz, alloc in *. cbn [map filter fst snd].
  assert (HF' : Forall (klt (c, Z.min n (lookup_def p c)))
                  (filter (fun q => 0 <? snd q) (map (fun p0 => (fst p0, Z.min (snd p0) (lookup_def p (fst p0)))) t))).
  { rewrite Forall_forall in *. intros x Hx. apply filter_In in Hx. destruct Hx as [Hx _].
    apply in_map_iff in Hx. destruct Hx as (y & Hy & Hin). subst x. specialize (HF _ Hin).
    unfold klt in *. cbn [fst] in *. exact HF. }
  destruct (0 <? Z.min n (lookup_def p c)); [constructor; [apply IH; exact Ht|exact HF']|apply IH; exact Ht].
Qed.

Lemma nz_alloc_in : forall m p x, ksorted m -> ksorted p ->
  (In x (nz (alloc m p)) <->
   exists n n', In (fst x, n) m /\ In (fst x, n') p /\ snd x = Z.min n n' /\ 0 < snd x).
Proof.
  intros m p [c v] Hm Hp. unfold nz, alloc. rewrite filter_In, in_map_iff. cbn [fst snd]. split.
  - intros [( [c0 n0] & Heq & Hin) Hpos]. cbn [fst snd] in Heq. inversion Heq; subst. clear Heq.
    apply Z.ltb_lt in Hpos.
    assert (Hl : 0 < lookup_def p c) by lia.
    exists n0, (lookup_def p c). split; [exact Hin|]. split; [apply lookup_pos_in; exact Hl|]. split; [reflexivity|exact Hpos].
  - intros (n & n' & Hin & Hin' & Hv & Hpos). split; [|apply Z.ltb_lt; exact Hpos].
    exists (c, n). cbn [fst snd]. split; [|exact Hin]. rewrite (lookup_in p c n' Hp Hin'). rewrite Hv. reflexivity.
Qed.

Theorem alloc_agrees : forall m p, ksorted m -> ksorted p -> expand (alloc m p) = expand (alloc p m).
Proof.
  intros m p Hm Hp. rewrite (expand_nz (alloc m p)), (expand_nz (alloc p m)). f_equal.
  apply ksorted_ext; [apply nz_alloc_sorted; exact Hm|apply nz_alloc_sorted; exact Hp|].
  intros x. rewrite (nz_alloc_in m p x Hm Hp), (nz_alloc_in p m x Hp Hm). split.
  - intros (n & n' & H1 & H2 & H3 & H4). exists n', n. rewrite Z.min_comm. tauto.
  - intros (n & n' & H1 & H2 & H3 & H4). exists n', n. rewrite Z.min_comm. tauto.
Qed.
(* ---------------- totals: verify implies every spawned stream id fits the header ---------------- *)
Definition zsum (l : list Z) : Z := fold_right Z.add 0 l.

Lemma zsum_nonneg : forall l, Forall (fun v => 0 <= v) l -> 0 <= zsum l.
Proof. intros l H. induction H as [|v l Hv Hl IH]; [cbn; lia|]. change (0 <= v + zsum l). lia. Qed.

Lemma sat_sum_fold : forall l x, 0 <= x <= U32_MAX -> Forall (fun v => 0 <= v) l ->
  fold_left (fun x v => Z.min (x + v) U32_MAX) l x = Z.min (x + zsum l) U32_MAX.
Proof.
  induction l as [|v l IH]; intros x Hx Hl.
  - cbn [fold_left zsum fold_right]. lia.
  - inversion Hl as [|? ? Hv Hl']; subst. cbn [fold_left]. rewrite IH; [|lia|exact Hl'].
    pose proof (zsum_nonneg l Hl') as Hs. change (zsum (v :: l)) with (v + zsum l). lia.
Qed.

Lemma sat_sum_le : forall l, Forall (fun v => 0 <= v) l -> sat_sum l <= MAX_STREAM_COUNT -> zsum l <= MAX_STREAM_COUNT.
Proof.
  intros l Hl H. unfold sat_sum in H. rewrite sat_sum_fold in H; [|unfold U32_MAX; lia|exact Hl].
  unfold U32_MAX, MAX_STREAM_COUNT in *. lia.
Qed.

Lemma expand_alloc_length : forall m p, Forall (fun v => 0 <= v) (map snd m) ->
  Z.of_nat (length (expand (alloc m p))) <= zsum (map snd m).
Proof.
  induction m as [|[c n] t IH]; intros p H; [cbn; lia|].
  cbn [map snd] in H. inversion H as [|? ? Hn Ht]; subst.
  unfold expand, alloc in *. cbn [map flat_map fst snd]. rewrite app_length, repeat_length.
  change (zsum (n :: map snd t)) with (n + zsum (map snd t)). specialize (IH p Ht). lia.
Qed.

Theorem spawn_ids_in_range : forall c acc con peer,
  mux_verify c acc con = true -> Forall (fun v => 0 <= v) (map snd acc) -> Forall (fun v => 0 <= v) (map snd con) ->
  spawn_ids_ok (alloc acc peer) = true /\ spawn_ids_ok (alloc con peer) = true.
Proof.
  intros c acc con peer Hv Ha Hc. unfold mux_verify in Hv.
  apply andb_prop in Hv. destruct Hv as [Hv Hc']. apply andb_prop in Hv. destruct Hv as [_ Ha'].
  apply Z.leb_le in Ha', Hc'. unfold spawn_ids_ok.
  pose proof (sat_sum_le _ Ha Ha'). pose proof (sat_sum_le _ Hc Hc').
  pose proof (expand_alloc_length acc peer Ha). pose proof (expand_alloc_length con peer Hc).
  split; apply Z.leb_le; lia.
Qed.

(* number of reusable streams of one capability = min(my limit, the peer's limit) *)
Lemma count_repeat : forall (c c' : Z) k, count_occ Z.eq_dec (repeat c' k) c = if Z.eq_dec c' c then k else O.
Proof.
  intros c c' k. induction k as [|k IH]; cbn [repeat count_occ]; [destruct (Z.eq_dec c' c); reflexivity|].
  destruct (Z.eq_dec c' c); [rewrite IH; reflexivity|exact IH].
Qed.

Lemma count_expand_notin : forall t p c, Forall (fun q => c < fst q) t -> count_occ Z.eq_dec (expand (alloc t p)) c = O.
Proof.
  induction t as [|[c' n'] t IH]; intros p c H; [reflexivity|].
  inversion H as [|? ? Hc Ht]; subst. cbn [fst] in Hc.
  unfold expand, alloc in *. cbn [map flat_map fst snd]. rewrite count_occ_app, count_repeat.
  destruct (Z.eq_dec c' c); [lia|]. cbn [Nat.add]. apply IH. exact Ht.
Qed.

Theorem streams_per_capability : forall m p c, ksorted m ->
  Z.of_nat (count_occ Z.eq_dec (expand (alloc m p)) c) = Z.max 0 (Z.min (lookup_def m c) (lookup_def p c)).
Proof.
  induction m as [|[c' n'] t IH]; intros p c Hs.
  - unfold lookup_def at 1. cbn. lia.
  - destruct (ksorted_inv _ _ Hs) as [Ht HF].
    unfold expand, alloc in *. cbn [map flat_map fst snd]. rewrite count_occ_app, count_repeat.
    assert (Hl : lookup_def ((c', n') :: t) c = if c' =? c then n' else lookup_def t c)
      by (unfold lookup_def; cbn [find fst]; destruct (c' =? c); reflexivity).
    rewrite Hl. destruct (Z.eq_dec c' c) as [->|Hne].
    + rewrite Z.eqb_refl.
      assert (Hz : count_occ Z.eq_dec (expand (alloc t p)) c = O).
      { apply count_expand_notin. eapply Forall_impl; [|exact HF]. intros q Hq. exact Hq. }
      unfold expand, alloc in Hz. rewrite Hz. lia.
    + apply Z.eqb_neq in Hne. rewrite Hne. cbn [Nat.add]. exact (IH p c Ht).
Qed.

(* ---------------- flow control ---------------- *)
Definition is_byte (b : Z) : Prop := 0 <= b < 256.

Record fc := mkFc { fc_d : dcore; fc_held : list frame }.

Definition sum_size (l : list frame) : Z := fold_right (fun f a => fsize f + a) 0 l.
Definition sum_data (l : list frame) : Z := fold_right (fun f a => Z.of_nat (length (fdata f)) + a) 0 l.

Inductive fc_step (c : cfg) (na nc : nat) : fc -> fc -> Prop :=
| FcFeed : forall x bs, fc_step c na nc x (mkFc (feed (fc_d x) bs) (fc_held x))
| FcClose : forall x, fc_step c na nc x (mkFc (close_in (fc_d x)) (fc_held x))
| FcProgress : forall x d, dstep c na nc (fc_d x) = DProgress d -> fc_step c na nc x (mkFc d (fc_held x))
| FcDeliver : forall x d k i f h1 h2, dstep c na nc (fc_d x) = DDeliver d k i f -> fc_held x = h1 ++ h2 ->
    fc_step c na nc x (mkFc d (h1 ++ f :: h2))   (* the frame joins the queue of some stream *)
| FcFail : forall x d code, dstep c na nc (fc_d x) = DFailed d code -> fc_step c na nc x (mkFc d (fc_held x))
| FcRelease : forall x h1 f h2, fc_held x = h1 ++ f :: h2 ->
    fc_step c na nc x (mkFc (add_permits (fc_d x) 1 (fsize f)) (h1 ++ h2))
| FcShrink : forall x h1 f h2 data', fc_held x = h1 ++ f :: h2 -> (length data' <= length (fdata f))%nat ->
    fc_step c na nc x (mkFc (fc_d x) (h1 ++ mkFrame (fkind f) data' (fsize f) :: h2)).

Inductive fc_steps (c : cfg) (na nc : nat) : fc -> fc -> Prop :=
| FcRefl : forall x, fc_steps c na nc x x
| FcTrans : forall x y z, fc_steps c na nc x y -> fc_step c na nc y z -> fc_steps c na nc x z.

Definition infl_c (st : dstate) : Z := match st with DChunk _ _ _ => 1 | _ => 0 end.
Definition infl_s (st : dstate) : Z := match st with DChunk _ _ size => size | _ => 0 end.
Definition st_ok (c : cfg) (st : dstate) : Prop :=
  match st with
  | DAcq _ len => 0 < len
  | DChunk _ len size => 0 <= size <= len /\ size <= rfs c /\ 0 < len
  | _ => True
  end.
Definition frame_ok (c : cfg) (f : frame) : Prop :=
  Z.of_nat (length (fdata f)) <= fsize f /\ 0 <= fsize f <= rfs c.

Definition fc_inv (c : cfg) (x : fc) : Prop :=
  let d := fc_d x in
  d_cnt d + Z.of_nat (length (fc_held x)) + infl_c (d_st d) = rfc c /\
  d_siz d + sum_size (fc_held x) + infl_s (d_st d) = rbs c /\
  0 <= d_cnt d /\ 0 <= d_siz d /\
  st_ok c (d_st d) /\ Forall (frame_ok c) (fc_held x) /\ Forall is_byte (d_in d).

Lemma sum_size_app : forall a b, sum_size (a ++ b) = sum_size a + sum_size b.
Proof. induction a as [|f a IH]; intros b; [reflexivity|]. change (fsize f + sum_size (a ++ b) = fsize f + sum_size a + sum_size b). rewrite IH. lia. Qed.
Lemma sum_data_app : forall a b, sum_data (a ++ b) = sum_data a + sum_data b.
Proof. induction a as [|f a IH]; intros b; [reflexivity|]. change (Z.of_nat (length (fdata f)) + sum_data (a ++ b) = Z.of_nat (length (fdata f)) + sum_data a + sum_data b). rewrite IH. lia. Qed.

Lemma split_exact_spec : forall {A} n (l a b : list A), split_exact n l = Some (a, b) -> l = a ++ b /\ length a = n.
Proof.
  intros A. induction n as [|n IH]; intros l a b H; cbn [split_exact] in H.
  - inversion H; subst. split; reflexivity.
  - destruct l as [|x t]; [discriminate|]. destruct (split_exact n t) as [[a' b']|] eqn:E; [|discriminate].
    inversion H; subst. destruct (IH _ _ _ E) as [-> Hl]. split; [reflexivity|cbn [length]; lia].
Qed.

Lemma header_of_bytes_range : forall b0 b1, is_byte b0 -> is_byte b1 -> 0 <= header_of_bytes b0 b1 < 65536.
Proof. unfold is_byte, header_of_bytes. intros. lia. Qed.

Lemma fc_inv_step : forall c na nc x y, 0 <= rfs c -> fc_inv c x -> fc_step c na nc x y -> fc_inv c y.
Proof.
  intros c na nc x y Hrfs (Hc & Hs & Hc0 & Hs0 & Hst & Hfr & Hby) Hstep.
  destruct Hstep as [x bs|x|x d Hd|x d k i f h1 h2 Hd Hh|x d code Hd|x h1 f h2 Hh|x h1 f h2 data' Hh Hlen]; unfold fc_inv; cbn [fc_d fc_held].
  - unfold feed; cbn [d_cnt d_siz d_st d_in]. repeat split; try assumption; try lia. apply Forall_app; split; [assumption|].
    apply Forall_forall. intros b Hb. apply in_map_iff in Hb. destruct Hb as (b' & <- & _). unfold is_byte.
    pose proof (Z.mod_pos_bound b' 256). lia.
  - unfold close_in; cbn [d_cnt d_siz d_st d_in]. repeat split; try assumption; lia.
  - (* progress *)
    unfold dstep in Hd. destruct (fc_d x) as [cnt siz st inp cl cons rcv] eqn:Ed. cbn [d_cnt d_siz d_st d_in d_closed] in *.
    destruct st as [|h|h|h len|h len size|]; cbn [infl_c infl_s st_ok] in *.
    + destruct (split_exact 2 inp) as [[[|b0 [|b1 [|? ?]]] rest]|] eqn:Es; try (destruct cl; discriminate).
      destruct (split_exact_spec _ _ _ _ Es) as [-> _]. 
      assert (Hrest : Forall is_byte rest) by (apply Forall_app in Hby; destruct Hby as [_ Hb]; exact Hb).
      destruct (Z.of_nat _ <=? _); [discriminate|].
      destruct (classify _); inversion Hd; subst; unfold take_bytes; cbn [d_cnt d_siz d_st d_in infl_c infl_s st_ok];
        repeat split; try assumption; try lia.
    + destruct (split_exact 2 inp) as [[[|b0 [|b1 [|? ?]]] rest]|] eqn:Es; try (destruct cl; discriminate).
      destruct (split_exact_spec _ _ _ _ Es) as [-> _].
      assert (Hb01 : is_byte b0 /\ is_byte b1 /\ Forall is_byte rest).
      { inversion Hby as [|? ? H0 Ht]; subst. inversion Ht as [|? ? H1 Ht']; subst. auto. }
      destruct Hb01 as (Hb0 & Hb1 & Hrest). pose proof (header_of_bytes_range _ _ Hb0 Hb1) as Hr.
      inversion Hd; subst. unfold take_bytes; cbn [d_cnt d_siz d_st d_in].
      destruct (header_of_bytes b0 b1 =? 0) eqn:E0; cbn [infl_c infl_s st_ok]; repeat split; try assumption; try lia;
        try (apply Z.eqb_neq in E0; lia).
    + destruct (1 <=? cnt); discriminate.
    + destruct ((1 <=? cnt) && (Z.min len (rfs c) <=? siz)) eqn:E; [|discriminate].
      apply andb_prop in E. destruct E as [E1 E2]. apply Z.leb_le in E1, E2.
      inversion Hd; subst. unfold set_st, add_permits; cbn [d_cnt d_siz d_st d_in infl_c infl_s st_ok].
      repeat split; try assumption; try lia.
    + destruct (split_exact (Z.to_nat size) inp) as [[data rest]|]; [discriminate|destruct cl; discriminate].
    + discriminate.
  - (* deliver *)
    rewrite Hh in Hc, Hs, Hfr. rewrite app_length in Hc. rewrite sum_size_app in Hs.
    apply Forall_app in Hfr. destruct Hfr as [Hfr1 Hfr2].
    unfold dstep in Hd. destruct (fc_d x) as [cnt siz st inp cl cons rcv] eqn:Ed. cbn [d_cnt d_siz d_st d_in d_closed] in *.
    destruct st as [|h|h|h len|h len size|]; cbn [infl_c infl_s st_ok] in *.
    + destruct (split_exact 2 inp) as [[[|b0 [|b1 [|? ?]]] rest]|]; try (destruct cl; discriminate).
      destruct (Z.of_nat _ <=? _); [discriminate|]. destruct (classify _); discriminate.
    + destruct (split_exact 2 inp) as [[[|b0 [|b1 [|? ?]]] rest]|]; try (destruct cl; discriminate).
    + destruct (1 <=? cnt) eqn:E1; [|discriminate]. apply Z.leb_le in E1.
      inversion Hd; subst. unfold set_st, add_permits; cbn [d_cnt d_siz d_st d_in infl_c infl_s st_ok].
      rewrite app_length, sum_size_app. cbn [length]. change (sum_size (mkFrame (frame_kind h) [] 0 :: h2)) with (0 + sum_size h2).
      repeat split; try assumption; try lia.
      apply Forall_app; split; [assumption|]. constructor; [|assumption]. unfold frame_ok; cbn [fdata fsize length]. lia.
    + destruct ((1 <=? cnt) && (Z.min len (rfs c) <=? siz)); discriminate.
    + destruct (split_exact (Z.to_nat size) inp) as [[data rest]|] eqn:Es; [|destruct cl; discriminate].
      destruct (split_exact_spec _ _ _ _ Es) as [-> Hl].
      apply Forall_app in Hby. destruct Hby as [_ Hrest].
      destruct Hst as ((Hz1 & Hz2) & Hz3 & Hz4).
      inversion Hd; subst. unfold take_bytes; cbn [d_cnt d_siz d_st d_in].
      rewrite app_length, sum_size_app. cbn [length]. change (sum_size (mkFrame FK_DATA data size :: h2)) with (size + sum_size h2).
      assert (Hfo : frame_ok c (mkFrame FK_DATA data size)) by (unfold frame_ok; cbn [fdata fsize]; lia).
      destruct (len - size =? 0) eqn:E0; cbn [infl_c infl_s st_ok]; repeat split; try assumption; try lia;
        try (apply Forall_app; split; [assumption|constructor; [exact Hfo|assumption]]);
        try (apply Z.eqb_neq in E0; lia).
    + discriminate.
  - (* fail *)
    unfold dstep in Hd. destruct (fc_d x) as [cnt siz st inp cl cons rcv] eqn:Ed. cbn [d_cnt d_siz d_st d_in d_closed] in *.
    destruct st as [|h|h|h len|h len size|]; cbn [infl_c infl_s st_ok] in *.
    + destruct (split_exact 2 inp) as [[[|b0 [|b1 [|? ?]]] rest]|] eqn:Es;
        try (destruct cl; inversion Hd; subst; cbn [d_cnt d_siz d_st d_in infl_c infl_s st_ok]; repeat split; try assumption; lia).
      destruct (split_exact_spec _ _ _ _ Es) as [-> _].
      assert (Hrest : Forall is_byte rest) by (apply Forall_app in Hby; destruct Hby as [_ Hb]; exact Hb).
      destruct (Z.of_nat _ <=? _).
      * inversion Hd; subst; unfold take_bytes; cbn [d_cnt d_siz d_st d_in infl_c infl_s st_ok]; repeat split; try assumption; lia.
      * destruct (classify _); inversion Hd; subst; unfold take_bytes; cbn [d_cnt d_siz d_st d_in infl_c infl_s st_ok]; repeat split; try assumption; lia.
    + destruct (split_exact 2 inp) as [[[|b0 [|b1 [|? ?]]] rest]|] eqn:Es;
        try (destruct cl; inversion Hd; subst; cbn [d_cnt d_siz d_st d_in infl_c infl_s st_ok]; repeat split; try assumption; lia);
        try discriminate.
    + destruct (1 <=? cnt); discriminate.
    + destruct ((1 <=? cnt) && (Z.min len (rfs c) <=? siz)); discriminate.
    + destruct (split_exact (Z.to_nat size) inp) as [[data rest]|]; [discriminate|].
      destruct cl; inversion Hd; subst; cbn [d_cnt d_siz d_st d_in infl_c infl_s st_ok]; repeat split; try assumption; lia.
    + discriminate.
  - (* release *)
    rewrite Hh in *. rewrite app_length in Hc. rewrite sum_size_app in Hs. cbn [length sum_size fold_right] in Hc, Hs.
    fold (sum_size h2) in Hs.
    apply Forall_app in Hfr. destruct Hfr as [Hf1 Hf2]. inversion Hf2 as [|? ? Hff Hf2']; subst.
    unfold add_permits; cbn [d_cnt d_siz d_st d_in]. rewrite app_length, sum_size_app.
    destruct Hff as [Hff1 Hff2].
    repeat split; try assumption; try lia. apply Forall_app; split; assumption.
  - (* shrink *)
    rewrite Hh in *. rewrite app_length in *. rewrite sum_size_app in *. cbn [length sum_size fold_right fsize] in *.
    apply Forall_app in Hfr. destruct Hfr as [Hf1 Hf2]. inversion Hf2 as [|? ? Hff Hf2']; subst.
    repeat split; try assumption; try lia. apply Forall_app; split; [assumption|]. constructor; [|assumption].
    unfold frame_ok in *; cbn [fdata fsize]. lia.
Qed.
(* ---------------- corollaries of the flow control invariant ---------------- *)
Definition fc_init (c : cfg) : fc := mkFc (init_d c) [].

Lemma fc_inv_init : forall c, 0 <= rfc c -> 0 <= rbs c -> fc_inv c (fc_init c).
Proof.
  intros c H1 H2. unfold fc_inv, fc_init, init_d. cbn [fc_d fc_held d_cnt d_siz d_st d_in length sum_size fold_right infl_c infl_s st_ok].
  repeat split; try lia; constructor.
Qed.

Lemma fc_inv_steps : forall c na nc x y, 0 <= rfs c -> fc_inv c x -> fc_steps c na nc x y -> fc_inv c y.
Proof.
  intros c na nc x y Hr Hx Hs. induction Hs as [x|x y z Hxy IH Hyz]; [exact Hx|].
  eapply fc_inv_step; [exact Hr|apply IH; exact Hx|exact Hyz].
Qed.

Lemma sum_data_le_size : forall c l, Forall (frame_ok c) l -> sum_data l <= sum_size l.
Proof.
  intros c l H. induction H as [|f l Hf Hl IH]; [cbn; lia|].
  change (Z.of_nat (length (fdata f)) + sum_data l <= fsize f + sum_size l). destruct Hf as [Hf1 Hf2]. lia.
Qed.

Theorem buffer_bounded_lts : forall c na nc x,
  0 <= rfs c -> 0 <= rbs c -> 0 <= rfc c -> fc_steps c na nc (fc_init c) x ->
  sum_data (fc_held x) + infl_s (d_st (fc_d x)) <= rbs c /\
  Z.of_nat (length (fc_held x)) + infl_c (d_st (fc_d x)) <= rfc c /\
  Forall (fun f => Z.of_nat (length (fdata f)) <= rfs c) (fc_held x) /\
  0 <= infl_s (d_st (fc_d x)) <= rfs c.
Proof.
  intros c na nc x H1 H2 H3 Hs.
  pose proof (fc_inv_steps c na nc _ _ H1 (fc_inv_init c H3 H2) Hs) as (Hc & Hz & Hc0 & Hs0 & Hst & Hfr & _).
  pose proof (sum_data_le_size c _ Hfr) as Hle.
  split; [lia|]. split; [lia|]. split.
  - eapply Forall_impl; [|exact Hfr]. intros f [Hf1 Hf2]. lia.
  - destruct (d_st (fc_d x)); cbn [infl_s st_ok] in *; lia.
Qed.

(* the dispatcher takes bytes from the front of the transport only (FIFO), and a delivered DATA
   chunk is exactly the next [size] bytes *)
Definition dres_core (r : dres) : option dcore :=
  match r with DBlocked => None | DProgress d | DDeliver d _ _ _ | DFailed d _ => Some d end.

Lemma dstep_fifo : forall c na nc d d', dres_core (dstep c na nc d) = Some d' ->
  exists taken, d_in d = taken ++ d_in d' /\ d_received d' = d_received d.
Proof.
  intros c na nc d d' H. unfold dstep in H. destruct d as [cnt siz st inp cl cons rcv]. cbn [d_st d_in d_cnt d_siz d_closed] in *.
  destruct st as [|h|h|h len|h len size|].
  - destruct (split_exact 2 inp) as [[[|b0 [|b1 [|? ?]]] rest]|] eqn:Es;
      try (destruct cl; cbn [dres_core] in H; inversion H; subst; exists []; cbn [app d_in d_received]; split; reflexivity).
    destruct (split_exact_spec _ _ _ _ Es) as [-> _].
    destruct (Z.of_nat _ <=? _); [|destruct (classify _)]; cbn [dres_core] in H; inversion H; subst;
      exists [b0; b1]; cbn [take_bytes app d_in d_received]; split; reflexivity.
  - destruct (split_exact 2 inp) as [[[|b0 [|b1 [|? ?]]] rest]|] eqn:Es;
      try (destruct cl; cbn [dres_core] in H; inversion H; subst; exists []; cbn [app d_in d_received]; split; reflexivity).
    destruct (split_exact_spec _ _ _ _ Es) as [-> _].
    cbn [dres_core] in H; inversion H; subst. exists [b0; b1]; cbn [take_bytes app d_in d_received]; split; reflexivity.
  - destruct (1 <=? cnt); cbn [dres_core] in H; inversion H; subst. exists []. split; reflexivity.
  - destruct ((1 <=? cnt) && (Z.min len (rfs c) <=? siz)); cbn [dres_core] in H; inversion H; subst. exists []. split; reflexivity.
  - destruct (split_exact (Z.to_nat size) inp) as [[data rest]|] eqn:Es.
    + destruct (split_exact_spec _ _ _ _ Es) as [-> Hl]. cbn [dres_core] in H; inversion H; subst.
      exists data. cbn [take_bytes app d_in d_received]. split; reflexivity.
    + destruct cl; cbn [dres_core] in H; inversion H; subst. exists []. split; reflexivity.
  - cbn [dres_core] in H. discriminate.
Qed.

(* routing: the target of a delivered frame is the opposite end of the stream named in the header,
   its kind is the header's frame kind, a DATA chunk is exactly the next bytes of the transport *)
Lemma dstep_routing : forall c na nc d d' k i f, dstep c na nc d = DDeliver d' k i f ->
  exists h, (d_st d = DAcq0 h /\ f = mkFrame (frame_kind h) [] 0 /\ d_in d' = d_in d
             \/ exists len size, d_st d = DChunk h len size /\ fkind f = FK_DATA /\ fsize f = size /\
                                 d_in d = fdata f ++ d_in d' /\ length (fdata f) = Z.to_nat size) /\
            k = (if stream_kind h =? SK_ACCEPT then 1 else 0) /\ i = Z.to_nat (stream_id h).
Proof.
  intros c na nc d d' k i f H. unfold dstep in H. destruct d as [cnt siz st inp cl cons rcv]. cbn [d_st d_in d_cnt d_siz d_closed] in *.
  destruct st as [|h|h|h len|h len size|].
  - destruct (split_exact 2 inp) as [[[|b0 [|b1 [|? ?]]] rest]|]; try (destruct cl; discriminate).
    destruct (Z.of_nat _ <=? _); [discriminate|]. destruct (classify _); discriminate.
  - destruct (split_exact 2 inp) as [[[|b0 [|b1 [|? ?]]] rest]|]; try (destruct cl; discriminate).
  - destruct (1 <=? cnt); [|discriminate]. inversion H; subst. exists h. split; [|split; reflexivity].
    left. split; [reflexivity|]. split; reflexivity.
  - destruct ((1 <=? cnt) && (Z.min len (rfs c) <=? siz)); discriminate.
  - destruct (split_exact (Z.to_nat size) inp) as [[data rest]|] eqn:Es; [|destruct cl; discriminate].
    destruct (split_exact_spec _ _ _ _ Es) as [-> Hl]. inversion H; subst. exists h. split; [|split; reflexivity].
    right. exists len, size. cbn [fkind fsize fdata take_bytes d_in]. repeat split; try reflexivity. exact Hl.
  - discriminate.
Qed.

(* a frame is accepted only for a stream id inside the agreed partition; any other header ends
   Mux::run with a Protocol error; never a panic, never another stream *)
Lemma dstep_header : forall c na nc d b0 b1 rest,
  d_st d = DHdr -> d_in d = b0 :: b1 :: rest ->
  let h := header_of_bytes b0 b1 in
  let n := if stream_kind h =? SK_ACCEPT then nc else na in
  (Z.of_nat n <= stream_id h \/ classify h = KBad ->
     dstep c na nc d = DFailed (take_bytes d 2 rest DStop) ERR_PROTOCOL) /\
  (stream_id h < Z.of_nat n -> classify h <> KBad ->
     exists st, dstep c na nc d = DProgress (take_bytes d 2 rest st) /\ (st = DAcq0 h \/ st = DLen h)).
Proof.
  intros c na nc d b0 b1 rest Hst Hin h n. unfold dstep. rewrite Hst, Hin. cbn [split_exact]. fold h. fold n.
  split.
  - intros [Hge|Hbad].
    + apply Z.leb_le in Hge. rewrite Hge. reflexivity.
    + destruct (Z.of_nat n <=? stream_id h); [reflexivity|]. rewrite Hbad. reflexivity.
  - intros Hlt Hok. apply Z.leb_gt in Hlt. rewrite Hlt. destruct (classify h); try (exfalso; apply Hok; reflexivity).
    + exists (DAcq0 h). split; [reflexivity|left; reflexivity].
    + exists (DLen h). split; [reflexivity|right; reflexivity].
    + exists (DAcq0 h). split; [reflexivity|left; reflexivity].
Qed.
(* ---------------- read half ---------------- *)
(* the bytes a reader can still obtain from the frames queued for the current incarnation:
   payloads up to the first CLOSE; OPEN frames carry nothing *)
Fixpoint q_bytes (q : list frame) : list Z :=
  match q with
  | [] => []
  | f :: t => if fkind f =? FK_CLOSE then []
              else if fkind f =? FK_DATA then fdata f ++ q_bytes t else q_bytes t
  end.
Definition cache_bytes (s : rstream) : list Z := match s_cache s with Some f => fdata f | None => [] end.
Definition avail (s : rstream) : list Z := if s_closed s then [] else cache_bytes s ++ q_bytes (s_inq s).
Definition got (p : pread) : list Z := concat (rev (pr_chunks p)).
Definition cache_ok (s : rstream) : Prop := forall f, s_cache s = Some f -> fkind f = FK_DATA.

Lemma got_cons : forall p c, concat (rev (c :: pr_chunks p)) = got p ++ c.
Proof. intros p c. unfold got. cbn [rev]. rewrite concat_app. cbn [concat]. rewrite app_nil_r. reflexivity. Qed.

(* one iteration of read_exact moves a prefix of the available bytes to the caller: nothing is
   lost, duplicated or reordered *)
Lemma read_iter_preserves : forall s p s' rel done,
  s_pread s = Some p -> cache_ok s -> read_iter_s s p = RStep s' rel done ->
  exists p', s_pread s' = Some p' /\ got p' ++ avail s' = got p ++ avail s /\ cache_ok s' /\
             pr_want p' = pr_want p /\ pr_slot p' = pr_slot p.
Proof.
  intros s p s' rel done Hp Hc H. unfold read_iter_s in H.
  destruct (s_closed s) eqn:Ecl.
  { inversion H; subst. exists p. repeat split; try assumption; reflexivity. }
  assert (Hgen : forall f s1,
    avail s = (if fkind f =? FK_CLOSE then [] else if fkind f =? FK_DATA then fdata f ++ avail s1 else avail s1) ->
    s_closed s1 = false -> s_cache s1 = None -> s_pread s1 = Some p ->
    (if fkind f =? FK_CLOSE then RStep (set_closed s1 true) [f] false
      else if fkind f =? FK_DATA then
        let n := Z.to_nat (Z.min (pr_want p - pr_len p) (Z.of_nat (length (fdata f)))) in
        let got := firstn n (fdata f) in
        let rest := skipn n (fdata f) in
        let p' := mkPread (pr_slot p) (pr_want p) (pr_len p + Z.of_nat n) (got :: pr_chunks p) in
        let s2 := g_chunk (set_pread s1 (Some p')) got in
        let done := pr_len p' =? pr_want p in
        match rest with
        | [] => RStep s2 [f] done
        | _ => RStep (set_cache s2 (Some (mkFrame (fkind f) rest (fsize f)))) [] done
        end
      else RStep s1 [f] false) = RStep s' rel done ->
    exists p', s_pread s' = Some p' /\ got p' ++ avail s' = got p ++ avail s /\ cache_ok s' /\
               pr_want p' = pr_want p /\ pr_slot p' = pr_slot p).
  { intros f s1 Hav Hcl1 Hca1 Hp1 HH.
    destruct (fkind f =? FK_CLOSE) eqn:E1.
    { inversion HH; subst s' rel done. exists p. cbn [set_closed s_pread]. split; [exact Hp1|].
      rewrite Hav. unfold avail. cbn [set_closed s_closed]. split; [reflexivity|]. split; [|split; reflexivity].
      intros f' Hf'. cbn [set_closed s_cache] in Hf'. rewrite Hca1 in Hf'. discriminate. }
    destruct (fkind f =? FK_DATA) eqn:E2.
    2:{ inversion HH; subst s' rel done. exists p. split; [exact Hp1|]. rewrite Hav. split; [reflexivity|]. split; [|split; reflexivity].
        intros f' Hf'. rewrite Hca1 in Hf'. discriminate. }
    cbv zeta in HH.
    set (n := Z.to_nat (Z.min (pr_want p - pr_len p) (Z.of_nat (length (fdata f))))) in *.
    assert (Hav1 : avail s1 = q_bytes (s_inq s1)).
    { unfold avail, cache_bytes. rewrite Hcl1, Hca1. reflexivity. }
    destruct (skipn n (fdata f)) as [|r rs] eqn:Esk.
    + inversion HH; subst s' rel done. eexists. cbn [g_chunk set_g set_pread s_pread]. split; [reflexivity|].
      unfold got; cbn [pr_chunks rev]; rewrite concat_app; cbn [concat]; rewrite app_nil_r. rewrite Hav, Hav1. unfold avail. cbn [g_chunk set_g set_pread s_closed s_cache s_inq cache_bytes].
      rewrite Hcl1. unfold cache_bytes. cbn [g_chunk set_g set_pread s_cache]. rewrite Hca1. cbn [app].
      rewrite <- (firstn_skipn n (fdata f)) at 2. rewrite Esk, app_nil_r. rewrite <- app_assoc.
      split; [reflexivity|]. split; [|split; reflexivity].
      intros f' Hf'. cbn [g_chunk set_g set_pread s_cache] in Hf'. rewrite Hca1 in Hf'. discriminate.
    + inversion HH; subst s' rel done. eexists. cbn [g_chunk set_g set_cache set_pread s_pread]. split; [reflexivity|].
      unfold got; cbn [pr_chunks rev]; rewrite concat_app; cbn [concat]; rewrite app_nil_r. rewrite Hav, Hav1. unfold avail. cbn [g_chunk set_g set_cache set_pread s_closed s_cache s_inq cache_bytes fdata].
      rewrite Hcl1. unfold cache_bytes. cbn [s_cache fdata].
      rewrite <- (firstn_skipn n (fdata f)) at 2. rewrite Esk. rewrite <- !app_assoc.
      split; [reflexivity|]. split; [|split; reflexivity].
      intros f' Hf'. cbn [s_cache] in Hf'. inversion Hf'; subst. cbn [fkind]. apply Z.eqb_eq. exact E2. }
  destruct (s_cache s) as [fc|] eqn:Eca.
  - apply (Hgen fc (set_cache s None)); try reflexivity; try assumption.
    unfold avail, cache_bytes. cbn [set_cache s_closed s_cache s_inq]. rewrite Ecl, Eca. rewrite (Hc fc Eca). reflexivity.
  - destruct (s_inq s) as [|f t] eqn:Eq; [discriminate|].
    apply (Hgen f (set_inq s t)); try reflexivity; try assumption.
    unfold avail, cache_bytes. cbn [set_inq s_closed s_cache s_inq]. rewrite Ecl, Eca, Eq. cbn [q_bytes app]. reflexivity.
Qed.
Lemma read_done_eos : forall s p s' rel, read_iter_s s p = RStep s' rel true ->
  s_closed s = true \/ exists p', s_pread s' = Some p' /\ pr_len p' = pr_want p.
Proof.
  intros s p s' rel H. unfold read_iter_s in H. destruct (s_closed s); [left; reflexivity|]. right.
  assert (Hgen : forall f s1,
    (if fkind f =? FK_CLOSE then RStep (set_closed s1 true) [f] false
      else if fkind f =? FK_DATA then
        let n := Z.to_nat (Z.min (pr_want p - pr_len p) (Z.of_nat (length (fdata f)))) in
        let got := firstn n (fdata f) in
        let rest := skipn n (fdata f) in
        let p' := mkPread (pr_slot p) (pr_want p) (pr_len p + Z.of_nat n) (got :: pr_chunks p) in
        let s2 := g_chunk (set_pread s1 (Some p')) got in
        let done := pr_len p' =? pr_want p in
        match rest with
        | [] => RStep s2 [f] done
        | _ => RStep (set_cache s2 (Some (mkFrame (fkind f) rest (fsize f)))) [] done
        end
      else RStep s1 [f] false) = RStep s' rel true ->
    exists p', s_pread s' = Some p' /\ pr_len p' = pr_want p).
  { intros f s1 HH. destruct (fkind f =? FK_CLOSE); [discriminate|]. destruct (fkind f =? FK_DATA); [|discriminate].
    cbv zeta in HH. destruct (skipn _ (fdata f)); inversion HH as [[Hs Hr Hd]]; eexists; (split; [reflexivity|]);
      cbn [pr_len] in *; apply Z.eqb_eq; exact Hd. }
  destruct (s_cache s) as [fc|]; [exact (Hgen _ _ H)|]. destruct (s_inq s) as [|f t]; [discriminate|exact (Hgen _ _ H)].
Qed.

(* frames that arrive after a CLOSE belong to a later incarnation: they add nothing to what this
   reader can obtain; before a CLOSE, a frame appended by the dispatcher extends it at the end *)
Definition no_close (q : list frame) : Prop := Forall (fun f => fkind f <> FK_CLOSE) q.

Lemma q_bytes_app_open : forall q r, no_close q -> q_bytes (q ++ r) = q_bytes q ++ q_bytes r.
Proof.
  induction q as [|f q IH]; intros r Hn; [reflexivity|]. inversion Hn as [|? ? Hf Hq]; subst.
  cbn [app q_bytes]. apply Z.eqb_neq in Hf. rewrite Hf. rewrite (IH r Hq).
  destruct (fkind f =? FK_DATA); [rewrite app_assoc|]; reflexivity.
Qed.

Lemma q_bytes_after_close : forall q1 f q2 r, fkind f = FK_CLOSE -> q_bytes (q1 ++ f :: q2 ++ r) = q_bytes (q1 ++ f :: q2).
Proof.
  induction q1 as [|g q1 IH]; intros f q2 r Hf; cbn [app q_bytes].
  - rewrite Hf. reflexivity.
  - rewrite (IH f q2 r Hf). reflexivity.
Qed.

(* ---------------- write half ---------------- *)
Lemma write_loop_spec : forall fuel wfsz buf data frames buf',
  0 < wfsz -> Z.of_nat (length buf) <= wfsz -> (length data < fuel)%nat ->
  write_loop fuel wfsz buf data = (frames, buf') ->
  concat frames ++ buf' = buf ++ data /\
  Forall (fun f => Z.of_nat (length f) = wfsz) frames /\
  Z.of_nat (length buf') <= wfsz.
Proof.
  induction fuel as [|fuel IH]; intros wfsz buf data frames buf' Hw Hb Hf H; [lia|].
  cbn [write_loop] in H. destruct data as [|x data'].
  { inversion H; subst. split; [cbn [concat app]; symmetry; apply app_nil_r|]. split; [constructor|exact Hb]. }
  remember (x :: data') as data eqn:Ed.
  remember (wfsz - Z.of_nat (length buf) <=? 0) as full eqn:Efull.
  remember (if full then (match buf with [] => [] | _ => [buf] end) else []) as sent eqn:Esent.
  remember (if full then [] else buf) as buf1 eqn:Ebuf1.
  remember (Z.to_nat (Z.min (wfsz - Z.of_nat (length buf1)) (Z.of_nat (length data)))) as k eqn:Ek.
  destruct (write_loop fuel wfsz (buf1 ++ firstn k data) (skipn k data)) as [fs b] eqn:Erec.
  inversion H; subst frames buf'. clear H.
  assert (Hdl : (1 <= length data)%nat) by (subst data; cbn [length]; lia).
  assert (Hb1 : Z.of_nat (length buf1) < wfsz /\ concat sent ++ buf1 = buf /\ Forall (fun f => Z.of_nat (length f) = wfsz) sent).
  { subst buf1 sent. destruct full.
    - symmetry in Efull. apply Z.leb_le in Efull. destruct buf as [|y buf].
      + cbn [length] in *. lia.
      + cbn [concat]. rewrite !app_nil_r. split; [cbn [length]; lia|]. split; [reflexivity|].
        constructor; [|constructor]. cbn [length] in *. lia.
    - symmetry in Efull. apply Z.leb_gt in Efull. cbn [concat app]. split; [lia|]. split; [reflexivity|constructor]. }
  destruct Hb1 as (Hb1 & Hcat & Hsent).
  assert (Hk : (1 <= k <= length data)%nat /\ Z.of_nat k <= wfsz - Z.of_nat (length buf1)) by lia.
  destruct Hk as [Hk1 Hk2].
  specialize (IH wfsz (buf1 ++ firstn k data) (skipn k data) fs b Hw).
  assert (Hfl : length (firstn k data) = k) by (apply firstn_length_le; lia).
  assert (Hsl : length (skipn k data) = (length data - k)%nat) by apply skipn_length.
  destruct IH as (Hc & Hfr & Hbl); [rewrite app_length; lia|lia|exact Erec|].
  split; [|split; [apply Forall_app; split; assumption|exact Hbl]].
  rewrite concat_app, <- app_assoc, Hc. rewrite <- Hcat. rewrite <- !app_assoc. rewrite firstn_skipn. reflexivity.
Qed.

Theorem write_all_spec : forall wfsz buf data frames buf',
  0 < wfsz -> Z.of_nat (length buf) <= wfsz -> write_all wfsz buf data = (frames, buf') ->
  concat frames ++ buf' = buf ++ data /\
  Forall (fun f => Z.of_nat (length f) = wfsz) frames /\ Z.of_nat (length buf') <= wfsz.
Proof. intros. eapply write_loop_spec; try eassumption. lia. Qed.

(* ---------------- isolation inside one endpoint ---------------- *)
Definition other (k : Z) (i : nat) (k' : Z) (i' : nat) : Prop := (k =? 0) <> (k' =? 0) \/ i <> i'.

Lemma nth_error_upd_nth_other : forall A (f : A -> A) l n m, n <> m -> nth_error (upd_nth n f l) m = nth_error l m.
Proof.
  intros A f. induction l as [|x l IH]; intros n m H; [destruct n; reflexivity|].
  destruct n as [|n]; destruct m as [|m]; cbn [upd_nth nth_error]; try reflexivity; try lia.
  apply IH. lia.
Qed.

Lemma get_upd_other : forall e k i f k' i', other k i k' i' ->
  get_stream (upd_stream e k i f) k' i' = get_stream e k' i'.
Proof.
  intros e k i f k' i' [H|H]; unfold get_stream, upd_stream, set_table, table;
    destruct (k =? 0) eqn:E1; destruct (k' =? 0) eqn:E2; cbn [e_acc e_con set_acc set_con]; try reflexivity;
    try (exfalso; apply H; reflexivity); apply nth_error_upd_nth_other; exact H.
Qed.

Lemma get_set_d : forall e x k i, get_stream (set_d e x) k i = get_stream e k i.
Proof. intros. unfold get_stream, table. destruct (k =? 0); reflexivity. Qed.
Lemma get_set_qs : forall e x k i, get_stream (set_qs e x) k i = get_stream e k i.
Proof. intros. unfold get_stream, table. destruct (k =? 0); reflexivity. Qed.
Lemma get_set_slots : forall e x k i, get_stream (set_slots e x) k i = get_stream e k i.
Proof. intros. unfold get_stream, table. destruct (k =? 0); reflexivity. Qed.
Lemma get_set_events : forall e x k i, get_stream (set_events e x) k i = get_stream e k i.
Proof. intros. unfold get_stream, table. destruct (k =? 0); reflexivity. Qed.
Lemma get_set_out : forall e x l k i, get_stream (set_out e x l) k i = get_stream e k i.
Proof. intros. unfold get_stream, table. destruct (k =? 0); reflexivity. Qed.
Lemma get_set_fail : forall e x k i, get_stream (set_fail e x) k i = get_stream e k i.
Proof. intros. unfold get_stream, table. destruct (k =? 0); reflexivity. Qed.

Lemma get_release : forall e f k i, get_stream (release e f) k i = get_stream e k i.
Proof. intros. unfold release. apply get_set_d. Qed.
Lemma get_fold_release : forall rel e k i, get_stream (fold_left release rel e) k i = get_stream e k i.
Proof. induction rel as [|f rel IH]; intros e k i; cbn [fold_left]; [reflexivity|]. rewrite IH. apply get_release. Qed.
Lemma get_add_event : forall e ev k i, get_stream (add_event e ev) k i = get_stream e k i.
Proof. intros. unfold add_event. apply get_set_events. Qed.
Lemma get_enqueue_idle : forall e k c j k' i', get_stream (enqueue_idle e k c j) k' i' = get_stream e k' i'.
Proof. intros. unfold enqueue_idle, upd_queue. apply get_set_qs. Qed.
Lemma get_upd_slot : forall e s f k i, get_stream (upd_slot e s f) k i = get_stream e k i.
Proof. intros. unfold upd_slot. apply get_set_slots. Qed.
Lemma get_emit : forall e h d k i, get_stream (emit e h d) k i = get_stream e k i.
Proof.
  intros. unfold emit. destruct (e_gone e); [apply get_set_fail|]. destruct d; apply get_set_out.
Qed.

Lemma get_complete_read : forall e k i p k' i', other k i k' i' ->
  get_stream (complete_read e k i p) k' i' = get_stream e k' i'.
Proof. intros. unfold complete_read. rewrite get_add_event. apply get_upd_other. assumption. Qed.

Lemma get_handover : forall e k i slot k' i', other k i k' i' ->
  get_stream (handover e k i slot) k' i' = get_stream e k' i'.
Proof. intros. unfold handover. rewrite get_add_event, get_upd_slot. apply get_upd_other. assumption. Qed.

(* a frame handed over by the dispatcher changes the state of the addressed stream only *)
Theorem deliver_isolated : forall e k i f k' i', other k i k' i' ->
  get_stream (deliver e k i f) k' i' = get_stream e k' i'.
Proof. intros. unfold deliver. apply get_upd_other. assumption. Qed.

(* whatever a reusable stream does (discarding, reading for its application, queueing, hand-over)
   leaves the state of every other stream of the endpoint untouched *)
Theorem stream_step_isolated : forall e k i e' k' i', stream_step e k i = Some e' -> other k i k' i' ->
  get_stream e' k' i' = get_stream e k' i'.
Proof.
  intros e k i e' k' i' H Ho. unfold stream_step in H.
  destruct (get_stream e k i) as [s|]; [|discriminate].
  assert (Hread : forall p, read_iter e k i s p = Some e' -> get_stream e' k' i' = get_stream e k' i').
  { intros p Hr. unfold read_iter in Hr. destruct (read_iter_s s p) as [|s1 rel done]; [discriminate|].
    inversion Hr; subst e'. clear Hr.
    destruct done; [destruct (s_pread s1)|]; try rewrite get_complete_read by assumption;
      rewrite get_fold_release; apply get_upd_other; assumption. }
  assert (Hmain : (match s_rph s, s_wph s with
                   | RReady, WWaitOpen => Some (enqueue_idle (upd_stream e k i (fun s => set_wph s WQueue)) k (s_cap s) i)
                   | RReady, WJoin slot => Some (handover e k i slot)
                   | _, _ => None
                   end) = Some e' -> get_stream e' k' i' = get_stream e k' i').
  { intros Hm. destruct (s_rph s); try discriminate. destruct (s_wph s); try discriminate; inversion Hm; subst e'.
    - rewrite get_enqueue_idle. apply get_upd_other. assumption.
    - apply get_handover. assumption. }
  destruct (s_rph s) eqn:Er; destruct (s_inq s) as [|f t] eqn:Eq; destruct (s_pread s) as [p|] eqn:Ep;
    try (apply (Hread _ H)); try (apply Hmain; exact H); try discriminate;
    try (inversion H; subst e'; rewrite get_release; apply get_upd_other; assumption).
Qed.
