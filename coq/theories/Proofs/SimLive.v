(* The replica invariant of Proofs/ReplicaLive.v lifted to the cluster model Model/Sim.v: in every
   state the cluster reaches through any schedule, every node satisfies [rs_ok]; hence the view
   timer of every node is enabled (no schedule switches retransmission off anywhere). *)
From Coq Require Import ZArith List Bool Lia.
From EC Require Import Lib.Outcome Lib.U64 Lib.ListW Lib.Obs Model.Msgs Model.Replica Model.ReplicaRun
  Model.Sim Proofs.ReplicaLive.
Import ListNotations.
Open Scope Z_scope.

Definition sim_ok (sm : sim) : Prop := Forall (fun nd => rs_ok (sn_rs nd)) (s_nodes sm).
Definition acc_ok (a : acc) : Prop := sim_ok (fst (fst a)).

Lemma replace_nth_Forall {A} (P : A -> Prop) k a (l : list A) :
  Forall P l -> P a -> Forall P (replace_nth k a l).
Proof.
  intros Hl Ha. revert k. induction Hl as [|x l Hx Hl IH]; intros k; destruct k; cbn [replace_nth];
    constructor; auto.
Qed.

Lemma nth_error_Forall {A} (P : A -> Prop) (l : list A) k a : Forall P l -> nth_error l k = Some a -> P a.
Proof. intros Hl Hn. rewrite Forall_forall in Hl. apply Hl. eapply nth_error_In; eassumption. Qed.

Lemma set_node_ok sm k nd : sim_ok sm -> rs_ok (sn_rs nd) -> sim_ok (set_node sm k nd).
Proof. intros H1 H2. unfold sim_ok, set_node; cbn [s_nodes]. apply replace_nth_Forall; assumption. Qed.

Lemma acc0_ok sm : sim_ok sm -> acc_ok (acc0 sm).
Proof. intros H; exact H. Qed.

Lemma acc_then_ok (a : acc) (f : sim -> acc) :
  acc_ok a -> (forall sm, sim_ok sm -> acc_ok (f sm)) -> acc_ok (acc_then a f).
Proof.
  destruct a as [[sm ob] out]. unfold acc_ok at 1; cbn [fst]. intros Ha Hf. unfold acc_then.
  specialize (Hf sm Ha). destruct (f sm) as [[sm' ob'] out']. exact Hf.
Qed.

Lemma fold_acc_ok {X} (f : X -> sim -> acc) (l : list X) :
  (forall x sm, sim_ok sm -> acc_ok (f x sm)) ->
  forall a, acc_ok a -> acc_ok (fold_left (fun a x => acc_then a (f x)) l a).
Proof.
  intros Hf. induction l as [|x l IH]; intros a Ha; cbn [fold_left]; [exact Ha|].
  apply IH. apply acc_then_ok; [exact Ha|]. intros sm Hsm. apply Hf; exact Hsm.
Qed.

Lemma node_op_ok sm k o : sim_ok sm -> acc_ok (node_op sm k o).
Proof.
  intros H. unfold node_op. destruct (nth_error (s_nodes sm) k) as [nd|] eqn:En; [|exact H].
  destruct (negb (node_up nd)); [exact H|].
  destruct (op_trace (sn_cfg nd) (sn_rs nd) o) as [[es res] prop_ok].
  unfold acc_ok, sim_ok; cbn [fst s_nodes]. apply replace_nth_Forall; [exact H|]. cbn [sn_rs].
  apply run_op_rs_ok. exact (nth_error_Forall _ _ _ _ H En).
Qed.

Lemma mark_seen_ok sm k i : sim_ok sm -> sim_ok (mark_seen sm k i).
Proof.
  intros H. unfold mark_seen. destruct (nth_error (s_nodes sm) k) as [nd|] eqn:En; [|exact H].
  destruct (node_up nd); [|exact H]. apply set_node_ok; [exact H|]. cbn [sn_rs].
  exact (nth_error_Forall _ _ _ _ H En).
Qed.

Lemma deliver_as_ok mk sm k i : sim_ok sm -> acc_ok (deliver_as mk sm k i).
Proof.
  intros H. unfold deliver_as. destruct (nth_error (s_soup sm) i); [|exact H].
  apply node_op_ok. apply mark_seen_ok. exact H.
Qed.

Lemma deliver_sel_ok p L k sm : sim_ok sm -> acc_ok (deliver_sel p L k sm).
Proof.
  intros H. unfold deliver_sel.
  apply (fold_acc_ok (fun i sm => match nth_error (s_nodes sm) k, nth_error (s_soup sm) i with
                                  | Some nd, Some m => if seen (sn_seen nd) i || negb (p m) then acc0 sm else deliver sm k i
                                  | _, _ => acc0 sm
                                  end)); [|exact H].
  intros i sm' Hs. destruct (nth_error (s_nodes sm') k); [|exact Hs].
  destruct (nth_error (s_soup sm') i); [|exact Hs].
  destruct (_ || _); [exact Hs|]. apply deliver_as_ok. exact Hs.
Qed.

Lemma lose_all_ok L k : forall sm, sim_ok sm -> sim_ok (lose_all L k sm).
Proof.
  unfold lose_all. induction (seq 0 L) as [|i l IH]; intros sm H; cbn [fold_left]; [exact H|].
  apply IH. apply mark_seen_ok. exact H.
Qed.

Lemma sync_one_ok sm k a : sim_ok sm -> sync_one sm k = Some a -> acc_ok a.
Proof.
  intros H. unfold sync_one. destruct (nth_error (s_nodes sm) k) as [nd|]; [|discriminate].
  destruct (negb (node_up nd)); [discriminate|].
  destruct (find_block _ _ _ _) as [[n h]|]; [|discriminate].
  intros E; inversion E; subst. apply node_op_ok. exact H.
Qed.

Lemma sync_all_ok fuel k : forall sm, sim_ok sm -> acc_ok (sync_all fuel k sm).
Proof.
  induction fuel as [|f IH]; intros sm H; cbn [sync_all]; [exact H|].
  destruct (sync_one sm k) as [a|] eqn:E; [|exact H].
  apply acc_then_ok; [eapply sync_one_ok; eassumption|]. intros sm' Hs. apply IH. exact Hs.
Qed.

Lemma byz_send_ok sm m targets : sim_ok sm -> acc_ok (byz_send sm m targets).
Proof.
  intros H. unfold byz_send.
  apply (fold_acc_ok (fun k sm' => deliver sm' k (length (s_soup sm)))).
  - intros k sm' Hs. apply deliver_as_ok. exact Hs.
  - exact H.
Qed.

Lemma restart_ok sm k : sim_ok sm -> acc_ok (restart sm k).
Proof.
  intros H. unfold restart. destruct (nth_error (s_nodes sm) k) as [nd|] eqn:En; [|exact H].
  apply node_op_ok. apply set_node_ok; [exact H|]. cbn [sn_rs].
  pose proof (nth_error_Forall _ _ _ _ H En) as Hn. unfold rs_ok in *; cbn [rs_s rs_d]. exact Hn.
Qed.

Lemma stop_ok sm k : sim_ok sm -> sim_ok (stop sm k).
Proof.
  intros H. unfold stop. destruct (nth_error (s_nodes sm) k) as [nd|] eqn:En; [|exact H].
  destruct (node_up nd); [|exact H]. apply set_node_ok; [exact H|]. cbn [sn_rs].
  exact (nth_error_Forall _ _ _ _ H En).
Qed.

Lemma round_ok sm : sim_ok sm -> acc_ok (round sm).
Proof.
  intros H. unfold round.
  apply acc_then_ok; [apply acc_then_ok|].
  - apply (fold_acc_ok (fun k => deliver_all (length (s_soup sm)) k)); [|exact H].
    intros k sm' Hs. apply deliver_sel_ok. exact Hs.
  - intros sm1 H1.
    apply (fold_acc_ok (fun k sm' => sync_all (S (total_blocks sm')) k sm')); [|exact H1].
    intros k sm' Hs. apply sync_all_ok. exact Hs.
  - intros sm2 H2.
    apply (fold_acc_ok (fun k sm' =>
             match nth_error (s_nodes sm') k, nth_error (map node_view (s_nodes sm)) k with
             | Some nd, Some v => if node_view nd =? v then node_op sm' k (OpIn ITimer) else acc0 sm'
             | _, _ => acc0 sm'
             end)); [|exact H2].
    intros k sm' Hs. destruct (nth_error (s_nodes sm') k); [|exact Hs].
    destruct (nth_error _ k); [|exact Hs]. destruct (_ =? _); [|exact Hs]. apply node_op_ok. exact Hs.
Qed.

Theorem sim_op_ok sm o : sim_ok sm -> acc_ok (fst (sim_op sm o)).
Proof.
  intros H. destruct o; cbn [sim_op fst].
  - apply deliver_as_ok; exact H.
  - apply node_op_ok; exact H.
  - apply byz_send_ok; exact H.
  - destruct (cfg0 sm); [|exact H]. destruct (byz_proposal _ _ _ _ _); [|exact H]. apply byz_send_ok; exact H.
  - destruct (byz_echo _ _ _ _ _); [|exact H]. apply byz_send_ok; exact H.
  - apply deliver_as_ok; exact H.
  - apply node_op_ok; exact H.
  - apply restart_ok; exact H.
  - apply acc0_ok. apply stop_ok; exact H.
  - destruct (sync_one sm k) eqn:E; [eapply sync_one_ok; eassumption|exact H].
  - apply deliver_sel_ok; exact H.
  - apply deliver_sel_ok; exact H.
  - apply acc0_ok. apply lose_all_ok; exact H.
  - apply round_ok; exact H.
Qed.

Theorem sim_ops_ok ops : forall sm, sim_ok sm -> sim_ok (snd (sim_ops sm ops)).
Proof.
  induction ops as [|o rest IH]; intros sm H; cbn [sim_ops snd]; [exact H|].
  pose proof (sim_op_ok sm o H) as Ho. destruct (sim_op sm o) as [a touched]. cbn [fst] in Ho.
  specialize (IH (fst (fst a)) Ho). destruct (sim_ops (fst (fst a)) rest) as [obs sm']. exact IH.
Qed.

Theorem sim_init_ok cfg keys : acc_ok (sim_init cfg keys).
Proof.
  unfold sim_init.
  apply (fold_acc_ok (fun k sm => node_op sm k OpRestart)).
  - intros k sm Hs. apply node_op_ok. exact Hs.
  - unfold acc_ok, acc0, sim_ok; cbn [fst s_nodes]. apply Forall_forall. intros nd Hin.
    apply in_map_iff in Hin. destruct Hin as (key & <- & _). cbn [sn_rs]. split; cbn [rs_s rs_d].
    + apply rstart_just_ok. apply durable_default_ok.
    + apply durable_default_ok.
Qed.

(* every node of every state the cluster reaches satisfies the invariant, and its timer is enabled *)
Theorem sim_reachable_ok c : sim_ok (sim_final c).
Proof.
  destruct c as [[cfg keys] ops]. unfold sim_final. apply sim_ops_ok. apply sim_init_ok.
Qed.

Theorem sim_timer_always_enabled c k nd :
  nth_error (s_nodes (sim_final c)) k = Some nd ->
  snd (rstep (sn_cfg nd) (rs_s (sn_rs nd)) ITimer) = Ok tt /\
  r_view (fst (fst (rstep (sn_cfg nd) (rs_s (sn_rs nd)) ITimer))) = r_view (rs_s (sn_rs nd)).
Proof.
  intros Hn. pose proof (nth_error_Forall _ _ _ _ (sim_reachable_ok c) Hn) as [Hj _].
  apply timer_step_enabled. exact Hj.
Qed.
