(* C06 on the protocol model, part 3: complete catch-up within three synchronous rounds. *)
From Coq Require Import ZArith List Bool Lia.
From EC Require Import Lib.Outcome Lib.U64 Lib.ListW Lib.Obs Model.Msgs Model.Replica Model.ReplicaRun
  Model.Protocol Model.ProtocolSync Proofs.QCProofs Proofs.ReplicaMono Proofs.ReplicaLive
  Proofs.ReplicaCrash Proofs.ProtocolLive Proofs.ProtocolLiveInv.
From EC Require Proofs.ReplicaCaches Proofs.ReplicaJustified.
From EC Require Import Proofs.ProtocolRefinesAbs Proofs.ProtocolRefinesStep.
From EC Require Proofs.ProtocolRefinesInv Proofs.ProtocolRefinesMain.
Import ListNotations.
Open Scope Z_scope.

(* ================================================================== *)
(* 1. what a step does to (view, phase), and what it announces         *)
(* ================================================================== *)
Definition stopsA {A} (r : outcome rerr A) : bool :=
  match r with Panic _ | Err RBlocked | Err RInternal => true | _ => false end.

(* the step ended in phase Commit in the view following the verifying justification [jo] *)
Definition voted_for (cfg : config) (jo : option justification) (s' : rstate) : Prop :=
  r_phase s' = PCommit /\
  exists j mv, jo = Some j /\ justification_view (E := unit) true j = Ok mv /\ r_view s' = vnum mv /\
               justification_verify (cg cfg) (ce cfg) (cC cfg) j = Ok tt.
(* a new-view message with the node's own (final) justification was sent *)
Definition nv_sent {A} (x : hres A) : Prop :=
  exists j, In (ESend (MNewView j)) (snd (fst x)) /\ get_justification (fst (fst x)) = Ok j.

Definition WS {A} (cfg : config) (jo : option justification) (s0 : rstate) (x : hres A) : Prop :=
  stopsA (snd x) = false ->
  core_eq s0 (fst (fst x)) \/ voted_for cfg jo (fst (fst x)) \/ nv_sent x \/ r_view (fst (fst x)) = 0.

Lemma WS_core {A} cfg jo s0 s es (r : outcome rerr A) : core_eq s0 s -> WS cfg jo s0 (s, es, r).
Proof. intros H _. left. exact H. Qed.

Lemma WS_bind {A B} cfg jo s0 (x : hres A) (f : rstate -> A -> hres B) :
  hq s0 x -> (forall s1 a, core_eq s0 s1 -> WS cfg jo s1 (f s1 a)) -> WS cfg jo s0 (hbind x f).
Proof.
  destruct x as [[s1 es1] r1]. unfold hq; cbn [fst snd]. intros (Hc & Hq) Hf. unfold hbind.
  destruct r1 as [a|e|p]; try (apply WS_core; exact Hc).
  specialize (Hf s1 a Hc). destruct (f s1 a) as [[s2 es2] r2]. unfold WS in *; cbn [fst snd] in *.
  intros Hs. destruct (Hf Hs) as [H|[H|[H|H]]].
  - left. eapply core_eq_trans; eassumption.
  - right; left; exact H.
  - right; right; left. destruct H as (j & Hin & Hj). exists j. cbn [fst snd] in *. split; [apply in_or_app; right; exact Hin|exact Hj].
  - right; right; right; exact H.
Qed.

Lemma WS_rebase {A} cfg jo s0 s1 (x : hres A) : core_eq s0 s1 -> WS cfg jo s1 x -> WS cfg jo s0 x.
Proof.
  intros Hc H Hs. destruct (H Hs) as [H1|H1]; [left; eapply core_eq_trans; eassumption|right; exact H1].
Qed.

Lemma start_new_view_WS cfg jo s0 s v : WS cfg jo s0 (start_new_view cfg s v).
Proof.
  unfold start_new_view. set (s1 := set_phase (set_view s v) Prepare).
  destruct (get_justification s1) as [j|e|p] eqn:Ej.
  - intros _. right; right; left. exists j.
    unfold hbind, hemit, backup_state. destruct (r_high_cqc s1) eqn:Eq; cbn [fst snd].
    + split; [right; right; left; reflexivity|]. rewrite <- Ej. apply get_justification_ext; reflexivity.
    + split; [right; right; left; reflexivity|exact Ej].
  - exfalso. eapply get_justification_no_err; eassumption.
  - intros Hs. discriminate Hs.
Qed.

Lemma start_timeout_WS cfg jo s0 s : just_ok s -> WS cfg jo s0 (start_timeout cfg s).
Proof.
  intros Hj _. destruct (timer_always_enabled cfg s Hj) as (d & E & _ & Hg). rewrite E. cbn [fst snd].
  destruct (Z.eq_dec (r_view s) 0) as [E0|NE0]; [right; right; right; exact E0|].
  right; right; left. destruct (Hg NE0) as [j Ej]. exists j. cbn [fst snd]. split; [|exact Ej].
  right. apply in_or_app. left. apply Z.eqb_neq in NE0. rewrite NE0, Ej. left. reflexivity.
Qed.

Ltac ws_match :=
  match goal with
  | |- WS _ _ _ (if ?c then _ else _) => destruct c eqn:?
  | |- WS _ _ _ (match ?x with _ => _ end) => destruct x eqn:?
  end; try (unfold hfail, hpanic, hret; apply WS_core; first [assumption | apply core_eq_refl | ce]).

Lemma tail_WS cfg jo s0 s v : core_eq s0 s ->
  WS cfg jo s0 (hbind (lift s (num_next (cchk cfg) v)) (fun s nv => start_new_view cfg s nv)).
Proof. intros Hc. apply WS_bind; [apply hq_lift; exact Hc|]. intros. apply start_new_view_WS. Qed.

Lemma on_commit_WS cfg s key sig_ok c : WS cfg None s (on_commit cfg s key sig_ok c).
Proof.
  unfold on_commit. ws_match. cbv zeta. repeat ws_match.
  match goal with |- WS _ _ _ (hbind (process_commit_qc cfg ?s2 ?q) _) =>
    apply WS_bind; [apply hq_process_commit_qc; ce|] end.
  intros s3 _ Hc3. apply tail_WS. apply core_eq_refl.
Qed.

Lemma on_timeout_WS cfg s key sig_ok t : WS cfg None s (on_timeout cfg s key sig_ok t).
Proof.
  unfold on_timeout. ws_match. cbv zeta. repeat ws_match.
  match goal with |- WS _ _ _ (hbind (process_timeout_qc cfg ?s2 ?q) _) =>
    apply WS_bind; [apply hq_process_timeout_qc; ce|] end.
  intros s3 _ Hc3. apply tail_WS. apply core_eq_refl.
Qed.

Lemma on_new_view_WS cfg s key sig_ok j : WS cfg None s (on_new_view cfg s key sig_ok j).
Proof.
  unfold on_new_view. apply WS_bind; [apply hq_lift, core_eq_refl|]. intros s1 mv Hc1. cbv zeta.
  do 4 ws_match.
  apply WS_bind; [apply hq_process_justification, core_eq_refl|]. intros s2 _ Hc2.
  ws_match. apply start_new_view_WS.
Qed.

Lemma on_proposal_WS cfg s key sig_ok payload j : cchk cfg = true ->
  WS cfg (Some j) s (on_proposal cfg s key sig_ok payload j).
Proof.
  intros Hchk. unfold on_proposal.
  assert (Hgen : forall (x : outcome unit view), x = justification_view (cchk cfg) j ->
    WS cfg (Some j) s (hbind (lift s x) (fun s mv =>
      let view := vnum mv in
      if (view <? r_view s) || ((view =? r_view s) && negb (phase_eqb (r_phase s) Prepare)) then hfail s ROld else
      if negb (key =? cleader cfg view) then hfail s RInvalidLeader else
      if negb sig_ok then hfail s RInvalidSignature else
      match justification_verify (cg cfg) (ce cfg) (cC cfg) j with
      | Err e => hfail s (RInvalidMessage (just_err_obs e))
      | Panic p => hpanic s p
      | Ok _ =>
      hbind (lift s (get_implied_block (cchk cfg) (cC cfg) (cfirst cfg) j)) (fun s imp =>
      let '(n, oh) := imp in
      if n <? r_store_first s then hfail s RProposalAlreadyPruned else
      hbind (match oh with
             | Some h => match payload with Some _ => hfail s RReproposalWithPayload | None => hret s h end
             | None =>
                 match payload with
                 | None => hfail s RMissingPayload
                 | Some p =>
                     if cmaxpay cfg <? cpsize cfg p then hfail s ROversizedPayload else
                     if (0 <? n) && negb (n - 1 <? r_store_next s) then hfail s RMissingPreviousPayload else
                     if negb ((cfirst cfg <=? n) && cpok cfg n p) then hfail s RInvalidPayload else
                     hret (set_cache s (cache_insert (r_cache s) n p)) p
                 end
             end) (fun s hash =>
      let vote := {| cview := mv; cprop := {| hnum := n; hpay := hash |} |} in
      let s := set_high_vote (set_phase (set_view s view) PCommit) (Some vote) in
      hbind (process_justification cfg s j) (fun s _ =>
      hbind (backup_state cfg s) (fun s _ =>
      hemit s (ESend (MCommit vote))))))
      end))).
  { intros x Hx. destruct x as [mv|e|p]; cbn [lift]; try (unfold hbind, hfail, hpanic; apply WS_core, core_eq_refl).
    rewrite hbind_hret. cbv zeta. do 3 ws_match.
    destruct (justification_verify (cg cfg) (ce cfg) (cC cfg) j) as [[]|e|p] eqn:Ejv;
      try (unfold hfail, hpanic; apply WS_core, core_eq_refl).
    apply WS_bind; [apply hq_lift, core_eq_refl|]. intros s2 [n oh] Hc2.
    ws_match.
    apply WS_bind.
    - destruct oh; destruct payload; try (apply hq_fail, core_eq_refl); try (apply hq_ret, core_eq_refl).
      destruct (cmaxpay cfg <? cpsize cfg z); [apply hq_fail, core_eq_refl|].
      destruct ((0 <? n) && negb (n - 1 <? r_store_next s2)); [apply hq_fail, core_eq_refl|].
      destruct (negb ((cfirst cfg <=? n) && cpok cfg n z)); [apply hq_fail, core_eq_refl|].
      apply hq_ret. ce.
    - intros s3 hash Hc3.
      set (s4 := set_high_vote (set_phase (set_view s3 (vnum mv)) PCommit)
                   (Some {| cview := mv; cprop := {| hnum := n; hpay := hash |} |})).
      pose proof (hq_process_justification cfg s4 s4 j (core_eq_refl s4)) as Hq.
      destruct (process_justification cfg s4 j) as [[s5 es5] r5]. unfold hq in Hq; cbn [fst snd] in Hq.
      destruct Hq as ((H5v & H5p & H5h) & _). unfold hbind, backup_state, hemit.
      destruct r5 as [a|e|p]; intros _; right; left; unfold voted_for; cbn [fst snd];
        (split; [rewrite H5p; reflexivity|]); exists j, mv; rewrite H5v; cbn [s4 set_high_vote set_phase set_view r_view];
        rewrite <- Hchk, <- Hx; auto. }
  apply Hgen. reflexivity.
Qed.

Definition input_just (i : rinput) : option justification :=
  match i with
  | IMsg m => match m_msg m with MProposal _ j => Some j | _ => None end
  | _ => None
  end.

Lemma rstep_WS cfg s i : cchk cfg = true -> just_ok s -> WS cfg (input_just i) s (rstep cfg s i).
Proof.
  intros Hchk Hj. destruct i as [m| |n h]; cbn [rstep input_just].
  - destruct (m_msg m); [apply on_proposal_WS; exact Hchk|apply on_commit_WS|apply on_timeout_WS|apply on_new_view_WS].
  - apply start_timeout_WS. exact Hj.
  - destruct (_ =? _); apply WS_core; [ce|apply core_eq_refl].
Qed.

Lemma rstep_t_WS cfg s i : cchk cfg = true -> just_ok s -> WS cfg (input_just i) s (rstep_t cfg s i).
Proof.
  intros Hchk Hj. unfold rstep_t. pose proof (rstep_WS cfg s i Hchk Hj) as H.
  pose proof (rstep_just_ok cfg s i) as Hjo.
  destruct (rstep cfg s i) as [[s' es] r]. destruct r as [a|err|p]; try exact H.
  destruct err; try exact H.
  destruct (Hjo s' es _ Hj eq_refl) as [Hj' _].
  pose proof (start_timeout_WS cfg (input_just i) s' s' Hj') as Ht.
  destruct (timer_always_enabled cfg s' Hj') as (d & E & _). rewrite E in *.
  unfold WS, nv_sent in *. cbn [fst snd] in *.
  intros _. specialize (Ht eq_refl). specialize (H eq_refl). cbn [fst snd] in H.
  destruct Ht as [Ht|[Ht|[Ht|Ht]]].
  - (* cannot happen syntactically, but harmless: same core as s' *)
    destruct H as [H|[H|[H|H]]].
    + left. eapply core_eq_trans; [exact H|exact Ht].
    + exfalso. destruct H as (Hp & _). destruct Ht as (_ & Hp2 & _). cbn [set_phase r_phase] in Hp2. congruence.
    + right; right; left. destruct H as (j & Hin & Hg). exists j. cbn [fst snd] in *.
      split; [apply in_or_app; left; exact Hin|]. rewrite <- Hg. apply get_justification_ext; reflexivity.
    + right; right; right. cbn [set_phase r_view]. exact H.
  - destruct Ht as (Hp & _). cbn [set_phase r_phase] in Hp. discriminate.
  - right; right; left. destruct Ht as (j & Hin & Hg). exists j. cbn [fst snd] in *.
    split; [apply in_or_app; right; exact Hin|exact Hg].
  - right; right; right. exact Ht.
Qed.

(* ================================================================== *)
(* 2. knownness relative to a frozen soup                              *)
(* ================================================================== *)
Section Frozen.
  Variable P : params.
  Variable pay : Z -> Z.
  Variable fetch : gstate -> Z -> option cqc.
  Notation hon := (honestb P).
  Notation cfg := (pcfg P).

  Lemma Sum_known Sg k s s' es r :
    Sum (cfg k) hon Sg s (s', es, r) ->
    certs_ok (cfg k) hon Sg s' /\
    (forall x, In (ESend x) es -> kmsg hon Sg x) /\
    (forall j, In (ENotifyProposer j) es -> kj hon Sg j).
  Proof.
    intros (Hev & _ & Ht). pose proof (ev_ok _ _ _ _ _ Hev) as K. split; [exact K|].
    assert (Hq : forall qs, Forall (qeff (cfg k) hon Sg) qs ->
              (forall x, ~ In (ESend x) qs) /\ (forall j, In (ENotifyProposer j) qs -> kj hon Sg j)).
    { intros qs Hqs. rewrite Forall_forall in Hqs. split.
      - intros x Hin. exact (Hqs _ Hin).
      - intros j Hin. exact (Hqs _ Hin). }
    destruct Ht as [(Hqe & _)|[(qs & c & j0 & -> & Hqe & _)|(qs & rest & -> & Hqe & (_ & _ & Hrest))]].
    - destruct (Hq es Hqe) as [H1 H2]. split; [intros x Hin; destruct (H1 x Hin)|exact H2].
    - destruct (Hq qs Hqe) as [H1 H2]. split.
      + intros x Hin. apply in_app_or in Hin. destruct Hin as [Hin|[Hin|[Hin|[]]]];
          [destruct (H1 x Hin)|discriminate|inversion Hin; exact I].
      + intros j Hin. apply in_app_or in Hin. destruct Hin as [Hin|[Hin|[Hin|[]]]];
          [exact (H2 j Hin)|discriminate|discriminate].
    - destruct (Hq qs Hqe) as [H1 H2]. rewrite Forall_forall in Hrest. split.
      + intros x Hin. apply in_app_or in Hin. destruct Hin as [Hin|[Hin|Hin]];
          [destruct (H1 x Hin)|discriminate|].
        specialize (Hrest _ Hin). cbn [send_spec] in Hrest.
        destruct x as [? ?|?|t|j]; try contradiction; cbn [kmsg].
        * destruct Hrest as [_ ->]. intros q Hq2. cbn [thq] in Hq2. exact (proj2 (co_cqc _ _ _ _ K q Hq2)).
        * exact Hrest.
      + intros j Hin. apply in_app_or in Hin. destruct Hin as [Hin|[Hin|Hin]];
          [exact (H2 j Hin)|discriminate|]. specialize (Hrest _ Hin). destruct Hrest.
  Qed.

  (* everything the honest nodes hold, were notified of, and everything on the network contains
     no honest signature that was not already sent in the soup [Sg] *)
  Record FI (Sg : list sgmsg) (t : gstate) : Prop := {
    fi_certs : forall k, hon k = true -> certs_ok (cfg k) hon Sg (n_live (g_node t k));
    fi_notify : forall k j, hon k = true -> n_notify (g_node t k) = Some j -> kj hon Sg j;
    fi_soup : forall m, In m (g_soup t) -> kmsg hon Sg (m_msg m)
  }.

  Lemma FI_input Sg t k i : FI Sg t -> hon k = true ->
    Sum (cfg k) hon Sg (n_live (g_node t k)) (rstep_t (cfg k) (n_live (g_node t k)) i) ->
    FI Sg (absorb t k (node_input (cfg k) (g_node t k) i)).
  Proof.
    intros [F1 F2 F3] Hk HS. unfold node_input.
    destruct (rstep_t (cfg k) (n_live (g_node t k)) i) as [[s' es] r].
    destruct (Sum_known Sg k _ s' es r HS) as (K & Hs & Hn).
    destruct (apply_effects _ _ es) as [d' n'].
    split; cbn [absorb g_node g_soup fst snd].
    - intros k0 Hk0. unfold set_node. destruct (k0 =? k) eqn:E; [|auto].
      apply Z.eqb_eq in E. subst k0. exact K.
    - intros k0 j Hk0. unfold set_node. destruct (k0 =? k) eqn:E; [|apply F2; exact Hk0].
      cbn [n_notify]. unfold notify_upd. destruct (last_notify es) as [j'|] eqn:El.
      + intros Hj. inversion Hj; subst. apply Hn. apply ProtocolRefinesInv.last_notify_in. exact El.
      + apply Z.eqb_eq in E. subst k0. apply F2. exact Hk0.
    - intros m Hin. apply in_app_or in Hin. destruct Hin as [Hin|Hin]; [auto|].
      apply ProtocolRefinesInv.in_sends_of in Hin. destruct Hin as (x & Hx & ->). cbn [m_msg]. auto.
  Qed.
End Frozen.

(* ================================================================== *)
(* 3. the primitive transitions of a round                             *)
(* ================================================================== *)
Section RoundPrims.
  Variable P : params.
  Variable pay : Z -> Z.
  Variable fetch : gstate -> Z -> option cqc.
  Notation hon := (honestb P).
  Notation cfg := (pcfg P).

  (* inputs handed to nodes during a round whose snapshot has [n] messages *)
  Definition round_input (n : nat) (t : gstate) (i : rinput) : Prop :=
    match i with
    | IMsg m => exists idx, (idx < n)%nat /\ nth_error (g_soup t) idx = Some m
    | ITimer => True
    | ISync nn h => exists q, cqc_verify (p_g P) (p_e P) (p_C P) q = Ok tt /\
                              cqc_knownb P (g_soup t) q = true /\
                              hnum (cprop (qmsg q)) = nn /\ hpay (cprop (qmsg q)) = h
    end.

  Inductive rprim (n : nat) (s0 : gstate) : gstate -> gstate -> Prop :=
  | RPid t : rprim n s0 t t
  | RPinput t k i : live_node P t k = true -> round_input n t i ->
      rprim n s0 t (absorb t k (node_input (cfg k) (g_node t k) i))
  | RPpropose t k p j : live_node P t k = true -> n_notify (g_node t k) = Some j ->
      rprim n s0 t (add_msg t {| m_key := k; m_sig_ok := true; m_msg := MProposal p j |}).

  Inductive rstar (n : nat) (s0 : gstate) : gstate -> gstate -> Prop :=
  | RSrefl t : rstar n s0 t t
  | RSstep t t' t'' : rstar n s0 t t' -> rprim n s0 t' t'' -> rstar n s0 t t''.

  Lemma rstar_trans n s0 a b c : rstar n s0 a b -> rstar n s0 b c -> rstar n s0 a c.
  Proof. intros H1 H2. induction H2; [exact H1|]. eapply RSstep; [apply IHrstar; exact H1|assumption]. Qed.

  Lemma rstar_one n s0 a b : rprim n s0 a b -> rstar n s0 a b.
  Proof. intros H. eapply RSstep; [apply RSrefl|exact H]. Qed.

  Lemma rstar_fold {A} n s0 (f : gstate -> A -> gstate) (l : list A) :
    (forall t x, In x l -> rstar n s0 t (f t x)) -> forall t, rstar n s0 t (fold_left f l t).
  Proof.
    induction l as [|x l IH]; intros Hf t; cbn [fold_left]; [apply RSrefl|].
    eapply rstar_trans; [apply Hf; left; reflexivity|]. apply IH. intros t' y Hy. apply Hf. right. exact Hy.
  Qed.

  Lemma deliver1_prim n s0 i t k : (i < n)%nat -> rprim n s0 t (deliver1 P i t k).
  Proof.
    intros Hi. unfold deliver1. destruct (live_node P t k) eqn:E; [|apply RPid].
    destruct (nth_error (g_soup t) i) as [m|] eqn:En; [|apply RPid].
    apply RPinput; [exact E|]. exists i. auto.
  Qed.

  Lemma propose1_prim n s0 t k : rprim n s0 t (propose1 P pay t k).
  Proof.
    unfold propose1. destruct (live_node P t k) eqn:E; [|apply RPid].
    destruct (n_notify (g_node t k)) as [j|] eqn:En; [|apply RPid].
    destruct (justification_view true j) as [mv| |]; try apply RPid.
    destruct (_ =? _); [|apply RPid]. destruct (proposal_payload P pay j) as [p|]; [|apply RPid].
    apply RPpropose; assumption.
  Qed.

  Lemma sync1_prim f n s0 t k : rprim n s0 t (sync1 P f t k).
  Proof.
    destruct (sync1_good P f t k) as [E|(q & H1 & H2 & H3 & H4 & H5 & E)]; rewrite E; [apply RPid|].
    apply RPinput; [unfold live_node; rewrite H1, H2; reflexivity|]. exists q. auto.
  Qed.

  Lemma sync_node_star f n s0 fuel : forall t k, rstar n s0 t (sync_node P f fuel t k).
  Proof.
    induction fuel as [|fu IH]; intros t k; cbn [sync_node]; [apply RSrefl|].
    eapply rstar_trans; [apply rstar_one, sync1_prim|apply IH].
  Qed.

  Lemma timer1_prim n s0 t k : rprim n s0 t (timer1 P s0 t k).
  Proof.
    unfold timer1. destruct (live_node P t k && _) eqn:E; [|apply RPid].
    apply andb_true_iff in E. destruct E as [E _]. apply RPinput; [exact E|exact I].
  Qed.

  (* the part of a round after the restarts, as a sequence of primitive transitions *)
  Definition round_body (s0 : gstate) : gstate :=
    timers_all P s0 (sync_all P fetch (propose_all P pay (deliver_all P s0))).

  Lemma sync_round_body s : sync_round P pay fetch s = round_body (revive_all P s).
  Proof. reflexivity. Qed.

  Lemma round_body_star s0 : rstar (length (g_soup s0)) s0 s0 (round_body s0).
  Proof.
    unfold round_body. set (n := length (g_soup s0)).
    eapply rstar_trans; [|unfold timers_all; apply rstar_fold; intros; apply rstar_one, timer1_prim].
    eapply rstar_trans; [|unfold sync_all; apply rstar_fold; intros; apply sync_node_star].
    eapply rstar_trans; [|unfold propose_all; apply rstar_fold; intros; apply rstar_one, propose1_prim].
    unfold deliver_all. apply rstar_fold. intros t i Hi. apply in_seq in Hi.
    unfold deliver_msg. apply rstar_fold. intros t' k _. apply rstar_one, deliver1_prim. unfold n. lia.
  Qed.

  Lemma rstar_inv n s0 (Inv : gstate -> Prop) :
    (forall t t', Inv t -> rprim n s0 t t' -> Inv t') -> forall t t', Inv t -> rstar n s0 t t' -> Inv t'.
  Proof.
    intros Hp t t' Hi Hs. induction Hs as [t|t t1 t2 Hs IH Hpr]; [exact Hi|].
    apply (Hp t1 t2); [apply IH; exact Hi|exact Hpr].
  Qed.

  (* ---------- the basic round invariant ---------- *)
  Definition RInv (Sg : list sgmsg) (t : gstate) : Prop :=
    preach P t /\ (exists l, g_soup t = Sg ++ l) /\ FI P Sg t.

  Lemma rstep_t_sync c s n h :
    rstep_t c s (ISync n h) =
    if r_store_next s =? n then (set_store_next s (n + 1), [EQueueBlock n h], Ok tt) else (s, [], Ok tt).
  Proof. unfold rstep_t. cbn [rstep]. destruct (_ =? _); reflexivity. Qed.

  Lemma certs_ok_store c Sg s x : certs_ok c hon Sg s -> certs_ok c hon Sg (set_store_next s x).
  Proof. intros [K1 K2 K3 K4]. split; assumption. Qed.

  Lemma rprim_reach n s0 t t' : preach P t -> rprim n s0 t t' -> preach P t'.
  Proof.
    intros Hr Hp. destruct Hp as [t|t k i Hl Hi|t k p j Hl Hn]; [exact Hr| |].
    - apply live_node_true in Hl. destruct Hl as [Hk Hal].
      destruct i as [m| |nn h].
      + destruct Hi as (idx & _ & Hn). eapply PReachStep; [exact Hr|]. apply PDeliver; auto.
        eapply nth_error_In; eauto.
      + eapply PReachStep; [exact Hr|]. apply PTimer; auto.
      + destruct Hi as (q & H1 & H2 & H3 & H4). eapply PReachStep; [exact Hr|].
        apply (PSync P t k nn h q); auto.
    - apply live_node_true in Hl. destruct Hl as [Hk Hal]. eapply PReachStep; [exact Hr|]. apply PPropose; auto.
  Qed.
End RoundPrims.

(* ================================================================== *)
(* 4. the round invariant is kept; certificates are below the maximal durable view *)
(* ================================================================== *)
Section RoundInv.
  Variable P : params.
  Hypothesis HP : params_ok P.
  Variable pay : Z -> Z.
  Variable fetch : gstate -> Z -> option cqc.
  Notation hon := (honestb P).
  Notation cfg := (pcfg P).
  Notation W := (cweights (p_C P)).

  Lemma node_input_sync c nd n h :
    exists s', fst (node_input c nd (ISync n h)) =
      {| n_live := s'; n_dur := n_dur nd; n_alive := true; n_notify := n_notify nd |} /\
      (s' = n_live nd \/ s' = set_store_next (n_live nd) (n + 1)) /\
      sends_of 0 (snd (node_input c nd (ISync n h))) = [].
  Proof.
    unfold node_input. rewrite rstep_t_sync. destruct (r_store_next (n_live nd) =? n); cbn [apply_effects fst snd];
      eexists; (split; [reflexivity|]); auto.
  Qed.

  Lemma sends_of_key k k' es : sends_of k es = [] -> sends_of k' es = [].
  Proof.
    unfold sends_of. induction es as [|x es IH]; [reflexivity|]. cbn [flat_map].
    destruct x; cbn [app]; try exact IH; discriminate.
  Qed.

  Lemma FI_sync Sg t k n h : FI P Sg t -> FI P Sg (absorb t k (node_input (cfg k) (g_node t k) (ISync n h))).
  Proof.
    intros [F1 F2 F3]. destruct (node_input_sync (cfg k) (g_node t k) n h) as (s' & Hn & Hs' & Hse).
    split; cbn [absorb g_node g_soup].
    - intros k0 Hk0. unfold set_node. destruct (k0 =? k) eqn:E; [|auto]. apply Z.eqb_eq in E. subst k0.
      rewrite Hn. cbn [n_live]. destruct Hs' as [->| ->]; [auto|apply certs_ok_store; auto].
    - intros k0 j Hk0. unfold set_node. destruct (k0 =? k) eqn:E; [|apply F2; exact Hk0].
      apply Z.eqb_eq in E. subst k0. rewrite Hn. cbn [n_notify]. apply F2. exact Hk0.
    - rewrite (sends_of_key 0 k _ Hse), app_nil_r. exact F3.
  Qed.

  Lemma RInv_prim Sg s0 t t' : RInv P Sg t -> rprim P (length Sg) s0 t t' -> RInv P Sg t'.
  Proof.
    intros (Hr & (l & Hl) & HF) Hp. split; [eapply rprim_reach; eassumption|].
    destruct Hp as [t|t k i Hlive Hi|t k p j Hlive Hn]; [split; [eauto|exact HF]| |].
    - split; [rewrite absorb_soup, Hl, <- app_assoc; eauto|].
      apply live_node_true in Hlive. destruct Hlive as [Hk Hal].
      destruct i as [m| |nn h].
      + destruct Hi as (idx & Hidx & Hm).
        assert (HinS : In m Sg).
        { rewrite Hl, nth_error_app1 in Hm by exact Hidx. eapply nth_error_In; exact Hm. }
        apply FI_input; [exact HF|exact Hk|].
        apply rstep_t_Sum; [reflexivity|apply (fi_certs _ _ _ HF k Hk)|]. split.
        * apply (fi_soup _ _ _ HF). eapply nth_error_In; exact Hm.
        * intros Hs _. unfold ProtocolRefinesStep.sent. destruct m as [mk ms mm]. cbn in *. subst ms. exact HinS.
      + apply FI_input; [exact HF|exact Hk|]. apply rstep_t_Sum; [reflexivity|apply (fi_certs _ _ _ HF k Hk)|exact I].
      + apply FI_sync. exact HF.
    - split; [cbn [add_msg g_soup]; rewrite Hl, <- app_assoc; eauto|].
      apply live_node_true in Hlive. destruct Hlive as [Hk Hal].
      destruct HF as [F1 F2 F3]. split; cbn [add_msg g_node g_soup]; auto.
      intros m Hin. apply in_app_or in Hin. destruct Hin as [Hin|[<-|[]]]; [auto|].
      cbn [m_msg kmsg]. exact (F2 k j Hk Hn).
  Qed.

  (* at a reachable state the invariant holds for its own soup *)
  Lemma RInv_start s : preach P s -> RInv P (g_soup s) s.
  Proof.
    intros Hr. split; [exact Hr|]. split; [exists []; symmetry; apply app_nil_r|].
    destruct (ProtocolRefinesInv.preach_inv P HP s Hr) as [a G].
    split.
    - intros k Hk. apply (ProtocolRefinesInv.ni_certs _ _ _ _ _ (ProtocolRefinesInv.gi_node _ _ _ G k Hk)).
    - intros k j Hk Hj. apply (ProtocolRefinesInv.ni_notify _ _ _ _ _ (ProtocolRefinesInv.gi_node _ _ _ G k Hk) j Hj).
    - intros m Hin. apply (ProtocolRefinesInv.gi_soup _ _ _ G m Hin).
  Qed.

  (* ---------- verifying certificates without forged signatures are not ahead of every
                honest node's durable view ---------- *)
  Definition dview (s : gstate) (k : Z) : Z := d_view (n_dur (g_node s k)).

  Lemma cqc_view_bound s q :
    preach P s -> gq (cfg 0) hon (g_soup s) q ->
    exists k, hon k = true /\ vnum (cview (qmsg q)) <= dview s k.
  Proof.
    intros Hr Hq. destruct (ProtocolRefinesInv.preach_inv P HP s Hr) as [a G].
    pose proof (ProtocolRefinesInv.gq_valid P (g_soup s) (g_plog s) a q
                  (ProtocolRefinesInv.gi_commit _ _ _ G) (ProtocolRefinesInv.gi_votes _ _ _ G) Hq) as Hv.
    pose proof (committee_ok_W P HP) as Hok. pose proof (ProtocolRefinesInv.gi_reach _ _ _ G) as Ha.
    destruct (SafetyAbsLocal.valid_cqc_honest_vote W (abyz P) Hok a _ Hv) as (i & cq & _ & Hh & Hin).
    pose proof (SafetyAbstract.local_cur_after_vote W (abyz P) (p_first P) Hok a _ Ha Hin) as Hc.
    cbn [SafetyAbs.v_view SafetyAbs.v_who abs_cqc SafetyAbs.aq_view] in Hc.
    apply SafetyAbsLib.pos_le_fst in Hc. cbn [fst] in Hc.
    destruct (ProtocolRefinesInv.gi_abs _ _ _ G i Hh) as (Hcur & _). rewrite Hcur in Hc. cbn [fst] in Hc.
    exists (key_of P i). split; [apply honest_key; exact Hh|exact Hc].
  Qed.

  Lemma tqc_view_bound s t :
    preach P s -> tqc_verify (p_g P) (p_e P) (p_C P) t = Ok tt -> kt hon (g_soup s) t ->
    exists k, hon k = true /\ vnum (tqview t) <= dview s k.
  Proof.
    intros Hr Hv Hk. destruct (ProtocolRefinesInv.preach_inv P HP s Hr) as [a G].
    pose proof (ProtocolRefinesInv.gt_valid P (g_soup s) (g_plog s) a t
                  (ProtocolRefinesInv.gi_commit _ _ _ G) (ProtocolRefinesInv.gi_timeout _ _ _ G)
                  (ProtocolRefinesInv.gi_votes _ _ _ G) (ProtocolRefinesInv.gi_tmos _ _ _ G) Hv Hk) as Hval.
    pose proof (committee_ok_W P HP) as Hok. pose proof (ProtocolRefinesInv.gi_reach _ _ _ G) as Ha.
    destruct Hval as (V1 & V2 & V3 & V4 & _).
    destruct (SafetyAbsLib.quorum_has_honest W (abyz P) Hok _ V1 V2 V3) as (i & Hi & Hh).
    apply in_map_iff in Hi. destruct Hi as ([i' r] & Hf & Hin). cbn [fst] in Hf. subst i'.
    pose proof (V4 i r Hin Hh) as Htm.
    destruct (SafetyAbstract.timeout_reports_latest_vote W (abyz P) (p_first P) Hok a _ Ha Htm) as (_ & Hc & _).
    cbn [SafetyAbs.t_view SafetyAbs.t_who abs_tqc SafetyAbs.at_view] in Hc.
    apply SafetyAbsLib.pos_le_fst in Hc. cbn [fst] in Hc.
    destruct (ProtocolRefinesInv.gi_abs _ _ _ G i Hh) as (Hcur & _). rewrite Hcur in Hc. cbn [fst] in Hc.
    exists (key_of P i). split; [apply honest_key; exact Hh|exact Hc].
  Qed.
End RoundInv.

(* ================================================================== *)
(* 5. views and announcements during a round                            *)
(* ================================================================== *)
Section RoundViews.
  Variable P : params.
  Hypothesis HP : params_ok P.
  Variable pay : Z -> Z.
  Variable fetch : gstate -> Z -> option cqc.
  Notation hon := (honestb P).
  Notation cfg := (pcfg P).

  Definition hview (t : gstate) (k : Z) : Z := r_view (n_live (g_node t k)).
  Definition up (t : gstate) (k : Z) : Prop := n_alive (g_node t k) = true.

  Lemma announced_mono t t' V V' :
    announced P t V -> (exists l, g_soup t' = g_soup t ++ l) -> V' <= V -> announced P t' V'.
  Proof.
    intros (i0 & key & j & mv & Hn & Hm & Hv & Hver & Hle) (l & Hl) HV.
    exists i0, key, j, mv. rewrite Hl. split; [apply nth_error_app_some; exact Hn|].
    split; [exact Hm|]. split; [exact Hv|]. split; [exact Hver|lia].
  Qed.

  (* certificates held in the middle of a round started at s0 are below every bound on the
     durable views at s0 *)
  Lemma round_cert_bound s0 t k B :
    preach P s0 -> RInv P (g_soup s0) t -> (forall k', hon k' = true -> dview s0 k' <= B) ->
    hon k = true -> up t k ->
    hview t k <= B + 1 /\ 0 <= hview t k /\
    (forall j, get_justification (n_live (g_node t k)) = Ok j -> just_vnum j <= B).
  Proof.
    intros Hr0 (Hr & _ & HF) HB Hk Hal.
    destruct (preach_LI P t Hr k) as [_ HI]. destruct (HI Hal) as (_ & Hc & _ & Hv0 & Hj).
    set (live := n_live (g_node t k)) in *.
    pose proof (fi_certs _ _ _ HF k Hk) as K. fold live in K.
    assert (Hq : forall q, r_high_cqc live = Some q -> vnum (cview (qmsg q)) <= B).
    { intros q Hq. destruct (cqc_view_bound P HP s0 q Hr0 (co_cqc _ _ _ _ K q Hq)) as (k' & Hk' & Hle).
      specialize (HB k' Hk'). lia. }
    assert (Ht : forall tq, r_high_tqc live = Some tq -> vnum (tqview tq) <= B).
    { intros tq Htq. destruct Hc as (_ & Hc2 & _).
      destruct (tqc_view_bound P HP s0 tq Hr0 (Hc2 tq Htq) (co_tqc _ _ _ _ K tq Htq)) as (k' & Hk' & Hle).
      specialize (HB k' Hk'). lia. }
    split; [|split; [exact Hv0|]].
    - destruct (Z.eq_dec (r_view live) 0) as [E0|NE0].
      + unfold hview. fold live. rewrite E0.
        destruct (preach_LI P s0 Hr0 k) as [(_ & _ & Hd0 & _) _]. specialize (HB k Hk). unfold dview in HB. lia.
      + specialize (Hj NE0). unfold ReplicaJustified.justified, ReplicaJustified.held_at_least in Hj.
        unfold hview. fold live. destruct Hj as [Hj|Hj].
        * destruct (r_high_cqc live) as [q|] eqn:Eq; cbn in Hj; [|contradiction]. specialize (Hq q eq_refl). lia.
        * destruct (r_high_tqc live) as [tq|] eqn:Et; cbn in Hj; [|contradiction]. specialize (Ht tq eq_refl). lia.
    - intros j Ej. apply get_justification_from in Ej. destruct j as [q|tq]; cbn [just_vnum]; auto.
  Qed.

  Definition ann_own (t : gstate) (k : Z) : Prop := hview t k = 0 \/ announced P t (hview t k).

  (* a running honest node whose new-view message with its current justification is on the
     network has announced its view *)
  Lemma nv_announces t k j :
    preach P t -> hon k = true -> up t k ->
    In {| m_key := k; m_sig_ok := true; m_msg := MNewView j |} (g_soup t) ->
    get_justification (n_live (g_node t k)) = Ok j -> just_vnum j + 1 < U64 ->
    ann_own t k.
  Proof.
    intros Hr Hk Hal Hin Ej Hh.
    destruct (preach_LI P t Hr k) as [_ HI]. destruct (HI Hal) as (_ & Hc & _ & Hv & Hj).
    destruct (Z.eq_dec (hview t k) 0) as [E0|NE0]; [left; exact E0|right].
    apply In_nth_error in Hin. destruct Hin as [i0 Hi0].
    destruct (justification_view_ok j Hh) as (mv & Emv & Hmv).
    exists i0, k, j, mv. split; [exact Hi0|]. split; [apply honest_member; exact Hk|].
    split; [exact Emv|]. split; [exact (ReplicaJustified.get_justification_ok (pcfg P 0) _ j Hc Ej)|].
    pose proof (justified_highest P _ j Hc (Hj NE0) Ej). unfold hview. lia.
  Qed.

  (* ---------- the invariant tracking one node through a round ---------- *)
  (* every proposal in the snapshot with a verifying justification is for a view <= Bv *)
  Definition prop_bound (Sg : list sgmsg) (Bv : Z) : Prop :=
    forall m p j mv, In m Sg -> m_msg m = MProposal p j ->
      justification_verify (p_g P) (p_e P) (p_C P) j = Ok tt ->
      justification_view (E := unit) true j = Ok mv -> vnum mv <= Bv.

  Definition JI (s0 : gstate) (k : Z) (Bv : Z) (t : gstate) : Prop :=
    up t k -> ann_own t k \/ (r_phase (n_live (g_node t k)) = PCommit /\ hview t k <= Bv) \/
              hview t k = hview s0 k.

  Lemma ann_own_mono t t' k : g_node t' k = g_node t k -> (exists l, g_soup t' = g_soup t ++ l) ->
    ann_own t k -> ann_own t' k.
  Proof.
    intros Hn Hl [H|H]; unfold ann_own, hview in *; rewrite Hn; [left; exact H|right].
    eapply announced_mono; [exact H|exact Hl|lia].
  Qed.

  Lemma JI_prim s0 k Bv B t t' :
    preach P s0 -> hon k = true ->
    (forall k', hon k' = true -> dview s0 k' <= B) -> B + 1 < U64 ->
    prop_bound (g_soup s0) Bv ->
    RInv P (g_soup s0) t -> rprim P (length (g_soup s0)) s0 t t' ->
    JI s0 k Bv t -> JI s0 k Bv t'.
  Proof.
    intros Hr0 Hk HB Hhr HPB HR Hp HJ.
    pose proof (RInv_prim P (g_soup s0) s0 t t' HR Hp) as HR'.
    destruct HR as (Hr & (l & Hl) & HF).
    destruct Hp as [t|t k' i Hlive Hi|t k' p j Hlive Hn]; [exact HJ| |].
    - destruct (Z.eq_dec k' k) as [->|Hne].
      2:{ (* another node moved *)
          assert (Hnode : g_node (absorb t k' (node_input (cfg k') (g_node t k') i)) k = g_node t k).
          { cbn [absorb g_node]. unfold set_node. destruct (k =? k') eqn:E; [apply Z.eqb_eq in E; congruence|reflexivity]. }
          unfold JI, up, hview. rewrite Hnode. intros Hal. destruct (HJ Hal) as [H|[H|H]]; [left|right; left; exact H|right; right; exact H].
          eapply ann_own_mono; [exact Hnode|rewrite absorb_soup; eauto|exact H]. }
      (* the node itself *)
      apply live_node_true in Hlive. destruct Hlive as [_ Hal].
      intros Hal'. specialize (HJ Hal).
      set (nd := g_node t k) in *. set (t' := absorb t k (node_input (cfg k) nd i)) in *.
      assert (Hnode : g_node t' k = fst (node_input (cfg k) nd i)).
      { unfold t'. cbn [absorb g_node]. unfold set_node. rewrite Z.eqb_refl. reflexivity. }
      unfold up in Hal'. rewrite Hnode in Hal'.
      pose proof (node_input_alive_dead P k nd i Hal') as Hns.
      destruct (preach_just_ok P t Hr k) as [_ Hjo]. fold nd in Hjo.
      pose proof (rstep_t_WS (cfg k) (n_live nd) i eq_refl Hjo) as Hws.
      assert (Hlive' : n_live (g_node t' k) = fst (fst (rstep_t (cfg k) (n_live nd) i))).
      { rewrite Hnode. apply (node_input_live P k nd i). }
      assert (Hsoup' : g_soup t' = g_soup t ++ sends_of k (snd (fst (rstep_t (cfg k) (n_live nd) i)))).
      { unfold t'. rewrite absorb_soup. f_equal. unfold node_input.
        destruct (rstep_t (cfg k) (n_live nd) i) as [[s1 es1] r1]. destruct (apply_effects _ _ es1). reflexivity. }
      unfold WS in Hws. destruct (rstep_t (cfg k) (n_live nd) i) as [[s1 es1] r1] eqn:Es. cbn [fst snd] in *.
      assert (Hns' : stopsA r1 = false) by exact Hns.
      destruct (Hws Hns') as [Hce|[Hvf|[Hnv|Hz]]].
      + (* view and phase unchanged *)
        destruct Hce as (Hv1 & Hp1 & _).
        destruct HJ as [H|[H|H]].
        * left. destruct H as [H|H]; unfold ann_own, hview in *; rewrite Hlive', Hv1; [left; exact H|right].
          eapply announced_mono; [exact H|rewrite Hsoup'; eauto|fold nd; lia].
        * right; left. unfold hview in *. rewrite Hlive', Hv1, Hp1. exact H.
        * right; right. unfold hview in *. rewrite Hlive', Hv1. exact H.
      + (* a vote for a proposal of the snapshot *)
        right; left. destruct Hvf as (Hph & j & mv & Hij & Hjv & Hv1 & Hver).
        unfold hview. rewrite Hlive'. split; [exact Hph|]. rewrite Hv1.
        destruct i as [m| |nn h]; cbn [input_just] in Hij; try discriminate.
        destruct (m_msg m) as [p j'|?|?|?] eqn:Em; try discriminate. inversion Hij; subst j'.
        destruct Hi as (idx & Hidx & Hm).
        assert (HinS : In m (g_soup s0)).
        { rewrite Hl, nth_error_app1 in Hm by exact Hidx. eapply nth_error_In; exact Hm. }
        exact (HPB m p j mv HinS Em Hver Hjv).
      + (* a new-view message with its own justification *)
        left. destruct Hnv as (j & Hin & Ej). cbn [fst snd] in Hin, Ej.
        destruct HR' as (Hr' & _ & _).
        assert (Hup' : up t' k) by (unfold up; rewrite Hnode; exact Hal').
        destruct (round_cert_bound s0 t' k B Hr0 (RInv_prim P _ s0 t t' (conj Hr (conj (ex_intro _ l Hl) HF))
                    (RPinput P _ s0 t k i (proj2 (andb_true_iff _ _) (conj Hk Hal)) Hi)) HB Hk Hup') as (_ & _ & Hjb).
        apply (nv_announces t' k j Hr' Hk Hup').
        * rewrite Hsoup'. apply in_or_app. right. apply in_sends_of'. exact Hin.
        * rewrite Hlive'. exact Ej.
        * rewrite Hlive' in Hjb. specialize (Hjb j Ej). lia.
      + left. left. unfold hview. rewrite Hlive'. exact Hz.
    - (* a proposal is put on the network *)
      unfold JI, up, hview, ann_own. cbn [add_msg g_node]. intros Hal. destruct (HJ Hal) as [H|[H|H]];
        [left|right; left; exact H|right; right; exact H].
      destruct H as [H|H]; [left; exact H|right].
      eapply announced_mono; [exact H|cbn [add_msg g_soup]; eauto|unfold hview; cbn [add_msg g_node]; lia].
  Qed.
End RoundViews.

(* ================================================================== *)
(* 6. restarts at the beginning of a round                             *)
(* ================================================================== *)
Section Revive.
  Variable P : params.
  Hypothesis HP : params_ok P.
  Notation hon := (honestb P).
  Notation cfg := (pcfg P).

  Lemma node_boot_alive c d f n :
    ReplicaLive.dur_ok d -> (d_epoch d = ce c \/ d = durable_default) ->
    n_alive (fst (node_boot c d f n)) = true /\ d_view (n_dur (fst (node_boot c d f n))) = d_view d.
  Proof.
    intros Hd He. unfold node_boot.
    assert (Hv : r_view (rstart c d f n) = d_view d).
    { unfold rstart. destruct He as [He|He].
      - rewrite He, Z.eqb_refl. reflexivity.
      - subst d. destruct (_ =? _); reflexivity. }
    pose proof (rstart_just_ok c d f n Hd) as Hj.
    unfold rprologue. destruct (r_view (rstart c d f n) =? 0) eqn:E0.
    - destruct (timer_always_enabled c (rstart c d f n) Hj) as (d' & E & Ed & _). rewrite E.
      rewrite (surjective_pairing (apply_effects d n _)). cbn [fst n_alive n_dur is_ok].
      split; [reflexivity|]. rewrite apply_effects_last. cbn [last_persist fold_left].
      match goal with |- d_view (fold_left _ ?rest _) = _ => fold (last_persist rest d'); rewrite (last_persist_sends rest d') end.
      + subst d'. cbn [backup d_view set_phase r_view]. exact Hv.
      + apply Forall_app. split; [|repeat constructor].
        destruct (_ =? 0); [constructor|]. destruct (get_justification _); repeat constructor.
    - unfold hret. cbn [apply_effects fst n_alive n_dur is_ok]. auto.
  Qed.

  Lemma revive1_node s k' k :
    g_node (revive1 P s k') k =
    if (k =? k') && (hon k' && negb (n_alive (g_node s k'))) then fst (node_restart (cfg k') (g_node s k'))
    else g_node s k.
  Proof.
    unfold revive1. destruct (hon k' && negb (n_alive (g_node s k'))); [|rewrite andb_false_r; reflexivity].
    rewrite andb_true_r. cbn [absorb g_node]. unfold set_node. reflexivity.
  Qed.

  Lemma node_restart_facts s k : preach P s -> hon k = true ->
    n_alive (fst (node_restart (cfg k) (g_node s k))) = true /\
    d_view (n_dur (fst (node_restart (cfg k) (g_node s k)))) = dview s k.
  Proof.
    intros Hr Hk. unfold node_restart. apply node_boot_alive.
    - apply (preach_just_ok P s Hr k).
    - destruct (ProtocolRefinesInv.preach_inv P HP s Hr) as [a G].
      exact (ProtocolRefinesInv.ni_epoch _ _ _ _ _ (ProtocolRefinesInv.gi_node _ _ _ G k Hk)).
  Qed.

  (* after the restarts every honest node is up, with the durable view it had; nodes that were
     up are untouched *)
  Lemma revive_fold ks : forall s, preach P s -> forall k, hon k = true ->
    (n_alive (g_node s k) = true -> g_node (fold_left (revive1 P) ks s) k = g_node s k) /\
    dview (fold_left (revive1 P) ks s) k = dview s k /\
    (In k ks \/ n_alive (g_node s k) = true -> n_alive (g_node (fold_left (revive1 P) ks s) k) = true).
  Proof.
    induction ks as [|k' ks IH]; intros s Hr k Hk; cbn [fold_left].
    - split; [reflexivity|]. split; [reflexivity|]. intros [[]|H]; exact H.
    - pose proof (revive1_reach P s k' Hr) as Hr1.
      destruct (IH (revive1 P s k') Hr1 k Hk) as (I1 & I2 & I3).
      assert (Hn : (n_alive (g_node s k) = true -> g_node (revive1 P s k') k = g_node s k) /\
                   dview (revive1 P s k') k = dview s k /\
                   (k = k' \/ n_alive (g_node s k) = true -> n_alive (g_node (revive1 P s k') k) = true)).
      { unfold dview. rewrite revive1_node.
        destruct ((k =? k') && (hon k' && negb (n_alive (g_node s k')))) eqn:E.
        - apply andb_true_iff in E. destruct E as [E1 E2]. apply Z.eqb_eq in E1. subst k'.
          apply andb_true_iff in E2. destruct E2 as [_ E2]. apply negb_true_iff in E2.
          destruct (node_restart_facts s k Hr Hk) as [F1 F2].
          split; [intros Ha; congruence|]. split; [exact F2|]. intros _. exact F1.
        - split; [reflexivity|]. split; [reflexivity|]. intros [->|Ha]; [|exact Ha].
          rewrite Z.eqb_refl, Hk in E. cbn [andb] in E. apply negb_false_iff in E. exact E. }
      destruct Hn as (N1 & N2 & N3). split; [|split].
      + intros Ha. rewrite I1; [apply N1; exact Ha|]. rewrite N1; assumption.
      + rewrite I2. exact N2.
      + intros [[->|Hin]|Ha].
        * apply I3. right. apply N3. left. reflexivity.
        * apply I3. left. exact Hin.
        * apply I3. right. apply N3. right. exact Ha.
  Qed.

  Lemma revive_all_facts s k : preach P s -> hon k = true ->
    n_alive (g_node (revive_all P s) k) = true /\ dview (revive_all P s) k = dview s k /\
    (n_alive (g_node s k) = true -> g_node (revive_all P s) k = g_node s k).
  Proof.
    intros Hr Hk. unfold revive_all. destruct (revive_fold (honest_keys P) s Hr k Hk) as (H1 & H2 & H3).
    split; [apply H3; left; apply hon_in_honest_keys; exact Hk|]. split; [exact H2|exact H1].
  Qed.

  Lemma revive_all_id s : (forall k, hon k = true -> n_alive (g_node s k) = true) -> revive_all P s = s.
  Proof.
    intros Hall. unfold revive_all.
    assert (H : forall ks, (forall k, In k ks -> hon k = true) -> fold_left (revive1 P) ks s = s).
    { induction ks as [|k ks IH]; intros Hks; cbn [fold_left]; [reflexivity|].
      assert (E : revive1 P s k = s).
      { unfold revive1. rewrite (Hall k (Hks k (or_introl eq_refl))). rewrite andb_false_r. reflexivity. }
      rewrite E. apply IH. intros k0 Hin. apply Hks. right. exact Hin. }
    apply H. intros k Hin. unfold honest_keys in Hin. apply filter_In in Hin. apply Hin.
  Qed.

  Lemma revive_all_reach s : preach P s -> preach P (revive_all P s).
  Proof. intros Hr. unfold revive_all. apply fold_reach; [intros; apply revive1_reach; assumption|exact Hr]. Qed.
End Revive.

(* ================================================================== *)
(* 7. one round, then three                                            *)
(* ================================================================== *)
Section ThreeRounds.
  Variable P : params.
  Hypothesis HP : params_ok P.
  Variable pay : Z -> Z.
  Variable fetch : gstate -> Z -> option cqc.
  Notation hon := (honestb P).
  Notation cfg := (pcfg P).

  Lemma round_RInv s0 : preach P s0 -> RInv P (g_soup s0) (round_body P pay fetch s0).
  Proof.
    intros Hr. eapply (rstar_inv P (length (g_soup s0)) s0 (RInv P (g_soup s0))).
    - intros t t'. apply RInv_prim.
    - apply RInv_start; eassumption.
    - apply round_body_star.
  Qed.

  Lemma round_soup s : exists l, g_soup (sync_round P pay fetch s) = g_soup s ++ l.
  Proof.
    unfold sync_round. cbv zeta.
    destruct (fold_soup_ext (revive1 P) (honest_keys P) (revive1_soup P) s) as [l0 Hl0]. fold (revive_all P s) in Hl0.
    assert (Hstar : forall n s0 t t', rstar P n s0 t t' -> exists l, g_soup t' = g_soup t ++ l).
    { intros n s0 t t' Hs. induction Hs as [t|t t1 t2 Hs [l1 IH] Hp]; [exists []; symmetry; apply app_nil_r|].
      destruct Hp as [t1|t1 k i _ _|t1 k p j _ _].
      - eauto.
      - rewrite absorb_soup, IH, <- app_assoc. eauto.
      - cbn [add_msg g_soup]. rewrite IH, <- app_assoc. eauto. }
    destruct (Hstar _ _ _ _ (round_body_star P pay fetch (revive_all P s))) as [l1 Hl1].
    fold (round_body P pay fetch (revive_all P s)). rewrite Hl1, Hl0, <- app_assoc. eauto.
  Qed.

  (* views of a node that stays up do not decrease during the round *)
  Lemma round_view_mono s0 k : up (round_body P pay fetch s0) k ->
    up s0 k /\ hview s0 k <= hview (round_body P pay fetch s0) k.
  Proof.
    eapply (rstar_inv P (length (g_soup s0)) s0 (fun t => up t k -> up s0 k /\ hview s0 k <= hview t k)).
    - intros t t' Hi Hp. destruct Hp as [t|t k' i Hlive _|t k' p j _ _]; [exact Hi| |exact Hi].
      unfold up, hview. cbn [absorb g_node]. unfold set_node.
      destruct (k =? k') eqn:E; [|exact Hi]. apply Z.eqb_eq in E. subst k'.
      apply live_node_true in Hlive. destruct Hlive as [_ Hal]. intros _.
      destruct (Hi Hal) as [H1 H2]. split; [exact H1|].
      pose proof (node_input_view_mono P k (g_node t k) i). unfold hview in *. lia.
    - intros H. split; [exact H|lia].
    - apply round_body_star.
  Qed.

  (* for running honest nodes the volatile view is the durable view *)
  Lemma up_dview t k : preach P t -> hon k = true -> up t k -> dview t k = hview t k.
  Proof.
    intros Hr Hk Hal. destruct (ProtocolRefinesInv.preach_inv P HP t Hr) as [a G].
    destruct (ProtocolRefinesInv.ni_link _ _ _ _ _ (ProtocolRefinesInv.gi_node _ _ _ G k Hk) Hal) as [(Hv & _) _].
    unfold dview, hview. symmetry. exact Hv.
  Qed.

  (* proposals whose certificates contain only signatures sent in the soup of s0 are for views
     at most one above the durable views at s0 *)
  Lemma prop_bound_of s0 Sg B :
    preach P s0 -> (forall m, In m Sg -> kmsg hon (g_soup s0) (m_msg m)) ->
    (forall k, hon k = true -> dview s0 k <= B) -> prop_bound P Sg (B + 1).
  Proof.
    intros Hr0 Hk HB m p j mv Hin Hm Hver Hjv. specialize (Hk m Hin). rewrite Hm in Hk. cbn [kmsg] in Hk.
    apply justification_view_chk in Hjv. rewrite Hjv.
    apply justification_verify_iff in Hver. destruct j as [q|tq]; cbn [kj] in Hk.
    - destruct (cqc_view_bound P HP s0 q Hr0 (conj Hver Hk)) as (k' & Hk' & Hle). specialize (HB k' Hk'). lia.
    - destruct (tqc_view_bound P HP s0 tq Hr0 Hver Hk) as (k' & Hk' & Hle). specialize (HB k' Hk'). lia.
  Qed.

  (* at the end of a round a running honest node has announced its view, or it is in phase
     Commit in a view it entered during the round through a proposal of the snapshot *)
  Lemma round_end s k B Bv :
    preach P s -> hon k = true ->
    let s0 := revive_all P s in
    let s1 := sync_round P pay fetch s in
    (forall k', hon k' = true -> dview s0 k' <= B) -> B + 1 < U64 ->
    prop_bound P (g_soup s0) Bv -> up s1 k ->
    ann_own P s1 k \/
    (r_phase (n_live (g_node s1 k)) = PCommit /\ hview s1 k <= Bv /\ hview s1 k <> hview s0 k).
  Proof.
    intros Hr Hk s0 s1 HB Hhr HPB Hup.
    assert (Hr0 : preach P s0) by (apply revive_all_reach; exact Hr).
    assert (HJ : RInv P (g_soup s0) s1 /\ JI P s0 k Bv s1).
    { unfold s1. rewrite sync_round_body. fold s0.
      eapply (rstar_inv P (length (g_soup s0)) s0 (fun t => RInv P (g_soup s0) t /\ JI P s0 k Bv t)).
      - intros t t' [HR HJ] Hp. split; [eapply RInv_prim; eassumption|].
        eapply (JI_prim P HP pay fetch s0 k Bv B t t'); eassumption.
      - split; [apply RInv_start; assumption|]. intros _. right; right. reflexivity.
      - apply round_body_star. }
    destruct HJ as [HR HJ]. destruct (HJ Hup) as [H|[[H1 H2]|H]].
    - left. exact H.
    - destruct (Z.eq_dec (hview s1 k) (hview s0 k)) as [E|NE]; [|right; auto].
      left. pose proof (round_retransmits P pay fetch s k Hr Hk Hup E) as Hre.
      destruct (round_cert_bound P HP pay fetch s0 s1 k B Hr0 HR HB Hk Hup) as (_ & _ & Hjb).
      apply (retransmitted_announces P s1 k); try assumption.
      + apply sync_round_reach; exact Hr.
      + intros j Ej. specialize (Hjb j Ej). lia.
    - left. pose proof (round_retransmits P pay fetch s k Hr Hk Hup H) as Hre.
      destruct (round_cert_bound P HP pay fetch s0 s1 k B Hr0 HR HB Hk Hup) as (_ & _ & Hjb).
      apply (retransmitted_announces P s1 k); try assumption.
      + apply sync_round_reach; exact Hr.
      + intros j Ej. specialize (Hjb j Ej). lia.
  Qed.

  Lemma exists_max (f : Z -> Z) (l : list Z) x0 : In x0 l ->
    exists x, In x l /\ forall y, In y l -> f y <= f x.
  Proof.
    revert x0. induction l as [|a l IH]; intros x0 Hin; [destruct Hin|].
    destruct l as [|b l'].
    - exists a. split; [left; reflexivity|]. intros y [<-|[]]. lia.
    - destruct (IH b (or_introl eq_refl)) as (x & Hx & Hmax).
      destruct (Z_le_gt_dec (f a) (f x)).
      + exists x. split; [right; exact Hx|]. intros y [<-|Hy]; [lia|auto].
      + exists a. split; [left; reflexivity|]. intros y [<-|Hy]; [lia|]. specialize (Hmax y Hy). lia.
  Qed.

  (* Complete catch-up: if no honest node stops during the first two of three synchronous
     rounds (and view numbers have headroom below 2^64), then after the third round every running
     honest node is at least in the view any honest node was running in at the start. *)
  Theorem catch_up_three_rounds s h k :
    preach P s ->
    let s1 := sync_round P pay fetch s in
    let s2 := sync_round P pay fetch s1 in
    let s3 := sync_round P pay fetch s2 in
    (forall k', hon k' = true -> up s1 k' /\ up s2 k') ->
    (forall k', hon k' = true -> dview s k' + 4 < U64) ->
    hon h = true -> hon k = true -> up s h -> up s3 k ->
    hview s h <= hview s3 k.
  Proof.
    intros Hr s1 s2 s3 HNS HHR Hh Hk Huph Hupk.
    set (s0 := revive_all P s).
    assert (Hr0 : preach P s0) by (apply revive_all_reach; exact Hr).
    assert (Hr1 : preach P s1) by (apply sync_round_reach; exact Hr).
    assert (Hr2 : preach P s2) by (apply sync_round_reach; exact Hr1).
    assert (Hr3 : preach P s3) by (apply sync_round_reach; exact Hr2).
    (* a node of maximal durable view after the restarts *)
    destruct (exists_max (dview s0) (honest_keys P) h (hon_in_honest_keys P h Hh)) as (hm & Hhm & Hmax).
    assert (Hhmh : hon hm = true) by (unfold honest_keys in Hhm; apply filter_In in Hhm; apply Hhm).
    set (B0 := dview s0 hm).
    assert (HB0 : forall k', hon k' = true -> dview s0 k' <= B0).
    { intros k' Hk'. apply Hmax. apply hon_in_honest_keys. exact Hk'. }
    destruct (revive_all_facts P HP s hm Hr Hhmh) as (Hup0 & Hdv0 & _). fold s0 in Hup0, Hdv0.
    assert (HB0hr : B0 + 4 < U64) by (unfold B0; rewrite Hdv0; apply HHR; exact Hhmh).
    assert (Hhv0 : hview s0 hm = B0) by (symmetry; apply up_dview; assumption).
    (* the target is below B0 *)
    assert (Htarget : hview s h <= B0).
    { destruct (revive_all_facts P HP s h Hr Hh) as (_ & Hdh & Hsame). fold s0 in Hdh.
      rewrite <- (up_dview s h Hr Hh Huph). rewrite <- Hdh. apply HB0. exact Hh. }
    (* views are never negative *)
    assert (Hnn : 0 <= hview s3 k).
    { destruct (preach_LI P s3 Hr3 k) as [_ HI]. destruct (HI Hupk) as (_ & _ & _ & Hv & _). exact Hv. }
    (* an announcement of a view >= B0 by the end of round 2 settles it *)
    assert (Hfin : forall V, B0 <= V -> (V = 0 \/ announced P s2 V) -> hview s h <= hview s3 k).
    { intros V HV [E0|Ha]; [lia|].
      pose proof (announced_catch_up P pay fetch s2 V k Ha Hk Hupk) as Hc. fold s3 in Hc. unfold hview in *. lia. }
    destruct (HNS hm Hhmh) as [Hup1 Hup2].
    (* round 1 *)
    assert (HPB0 : prop_bound P (g_soup s0) (B0 + 1)).
    { apply (prop_bound_of s0 (g_soup s0) B0 Hr0); [|exact HB0].
      intros m Hin. destruct (RInv_start P HP s0 Hr0) as (_ & _ & HF). apply (fi_soup _ _ _ HF m Hin). }
    pose proof (round_view_mono s0 hm) as Hmono1. fold (sync_round P pay fetch s) in Hmono1.
    change (round_body P pay fetch s0) with s1 in Hmono1. destruct (Hmono1 Hup1) as [_ Hm1].
    destruct (round_end s hm B0 (B0 + 1) Hr Hhmh HB0 ltac:(lia) HPB0 Hup1) as [Ha1|(Hp1 & Hle1 & Hne1)].
    { (* announced at the end of round 1 *)
      fold s1 in Ha1. apply (Hfin (hview s1 hm)); [lia|].
      destruct Ha1 as [E|Ha]; [left; exact E|right].
      eapply (announced_mono P pay fetch); [exact Ha|apply round_soup|lia]. }
    fold s1 s0 in Hp1, Hle1, Hne1.
    assert (Hv1 : hview s1 hm = B0 + 1) by lia.
    (* round 2: nobody was stopped, so the round starts at s1 itself *)
    assert (Hid : revive_all P s1 = s1).
    { apply revive_all_id. intros k' Hk'. apply (HNS k' Hk'). }
    assert (HR1 : RInv P (g_soup s0) s1).
    { unfold s1. rewrite sync_round_body. apply round_RInv. exact Hr0. }
    assert (HB1 : forall k', hon k' = true -> dview (revive_all P s1) k' <= B0 + 1).
    { intros k' Hk'. rewrite Hid. destruct (HNS k' Hk') as [Hu1 _].
      rewrite (up_dview s1 k' Hr1 Hk' Hu1).
      destruct (round_cert_bound P HP pay fetch s0 s1 k' B0 Hr0 HR1 HB0 Hk' Hu1) as (Hb & _). exact Hb. }
    assert (HPB1 : prop_bound P (g_soup (revive_all P s1)) (B0 + 1)).
    { rewrite Hid. apply (prop_bound_of s0 (g_soup s1) B0 Hr0); [|exact HB0].
      destruct HR1 as (_ & _ & HF). exact (fi_soup _ _ _ HF). }
    pose proof (round_view_mono (revive_all P s1) hm) as Hmono2.
    change (round_body P pay fetch (revive_all P s1)) with s2 in Hmono2. destruct (Hmono2 Hup2) as [_ Hm2].
    rewrite Hid in Hm2.
    destruct (round_end s1 hm (B0 + 1) (B0 + 1) Hr1 Hhmh HB1 ltac:(lia) HPB1 Hup2) as [Ha2|(Hp2 & Hle2 & Hne2)].
    - fold s2 in Ha2. apply (Hfin (hview s2 hm)); [lia|]. exact Ha2.
    - fold s2 in Hle2, Hne2. rewrite Hid in Hne2. lia.
  Qed.
End ThreeRounds.
