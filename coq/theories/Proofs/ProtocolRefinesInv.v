(* Layer B, part 3: the global invariant of the concrete protocol (Model/Protocol.v) and the
   simulation: every reachable concrete state is coupled with a reachable state of the
   abstract vote-history system of Layer A (Model/SafetyAbs.v). *)
From Coq Require Import ZArith List Bool Lia Arith Permutation.
From EC Require Import Lib.Outcome Lib.U64 Lib.ListW Lib.Obs Model.Msgs Model.Replica Model.ReplicaRun
  Model.Protocol Model.SafetyAbs
  Proofs.ListWFacts Proofs.MsgsFacts Proofs.QCProofs Proofs.TqcAssembly Proofs.ReplicaCrash
  Proofs.SafetyAbsLib Proofs.SafetyAbsLocal Proofs.SafetyAbstract
  Proofs.ProtocolRefinesAbs Proofs.ProtocolRefinesStep.
Import SafetyAbs.
Import ListNotations.
Open Scope Z_scope.

(* ---------- monotonicity of "no forged honest signature" in the soup ---------- *)
Section Mono.
  Variable hon : Z -> bool.
  Variables soup soup' : list sgmsg.
  Hypothesis Hincl : incl soup soup'.

  Lemma sent_mono k x : sent soup k x -> sent soup' k x.
  Proof. unfold sent. apply Hincl. Qed.
  Lemma kq_mono q : kq hon soup q -> kq hon soup' q.
  Proof. intros H k c Hin Hh. apply sent_mono. auto. Qed.
  Lemma ktm_mono t : ktm hon soup t -> ktm hon soup' t.
  Proof. intros H q Hq. apply kq_mono. auto. Qed.
  Lemma kt_mono t : kt hon soup t -> kt hon soup' t.
  Proof.
    intros [H1 H2]. split.
    - intros k x Hin Hh. apply sent_mono. auto.
    - intros en Hin. apply ktm_mono. auto.
  Qed.
  Lemma kj_mono j : kj hon soup j -> kj hon soup' j.
  Proof. destruct j; cbn [kj]; [apply kq_mono|apply kt_mono]. Qed.
  Lemma kmsg_mono x : kmsg hon soup x -> kmsg hon soup' x.
  Proof. destruct x; cbn [kmsg]; auto using kj_mono, ktm_mono. Qed.
  Lemma gq_mono cfg q : gq cfg hon soup q -> gq cfg hon soup' q.
  Proof. intros [H1 H2]. split; [exact H1|apply kq_mono; exact H2]. Qed.
  Lemma gt_mono cfg t : gt cfg hon soup t -> gt cfg hon soup' t.
  Proof. intros [H1 H2]. split; [apply kt_mono; exact H1|exact H2]. Qed.
  Lemma certs_ok_mono cfg s : certs_ok cfg hon soup s -> certs_ok cfg hon soup' s.
  Proof.
    intros [K1 K2 K3 K4]. split.
    - intros q Hq. apply gq_mono. auto.
    - intros t Ht. apply kt_mono. auto.
    - intros v b c q Hin Hin'. destruct (K3 v b c q Hin Hin') as [Ha Hb]. split; [exact Ha|apply kq_mono; exact Hb].
    - intros v t Hin. apply gt_mono. eauto.
  Qed.
End Mono.

(* ---------- the boolean checks of Protocol.v imply the propositions ---------- *)
Section Reflect.
  Variable P : params.
  Variable soup : list sgmsg.
  Notation hon := (honestb P).

  Lemma sent_commitb_sent k c : sent_commitb soup k c = true -> sent soup k (MCommit c).
  Proof.
    unfold sent_commitb, sent. intros H. apply existsb_exists in H. destruct H as (m & Hin & Hm).
    apply andb_true_iff in Hm. destruct Hm as [Hm H3]. apply andb_true_iff in Hm. destruct Hm as [H1 H2].
    destruct m as [mk ms mm]. cbn [m_sig_ok m_key m_msg] in *. destruct mm as [? ?|c'|?|?]; try discriminate.
    apply Z.eqb_eq in H2. apply commit_eqb_spec in H3. subst. exact Hin.
  Qed.

  Lemma sent_timeoutb_sent k t : sent_timeoutb soup k t = true -> sent soup k (MTimeout t).
  Proof.
    unfold sent_timeoutb, sent. intros H. apply existsb_exists in H. destruct H as (m & Hin & Hm).
    apply andb_true_iff in Hm. destruct Hm as [Hm H3]. apply andb_true_iff in Hm. destruct Hm as [H1 H2].
    destruct m as [mk ms mm]. cbn [m_sig_ok m_key m_msg] in *. destruct mm as [? ?|?|t'|?]; try discriminate.
    apply Z.eqb_eq in H2. apply timeout_eqb_spec in H3. subst. exact Hin.
  Qed.

  Lemma cqc_knownb_kq q : cqc_knownb P soup q = true -> kq hon soup q.
  Proof.
    unfold cqc_knownb. intros H k c Hin Hh. rewrite forallb_forall in H. specialize (H _ Hin).
    cbn [fst snd] in H. rewrite Hh in H. cbn [negb orb] in H. apply sent_commitb_sent. exact H.
  Qed.

  Lemma timeout_knownb_ktm t : timeout_knownb P soup t = true -> ktm hon soup t.
  Proof.
    unfold timeout_knownb. intros H q Hq. rewrite Hq in H. apply cqc_knownb_kq. exact H.
  Qed.

  Lemma tqc_knownb_kt t : tqc_knownb P soup t = true -> kt hon soup t.
  Proof.
    unfold tqc_knownb. intros H. apply andb_true_iff in H. destruct H as [H1 H2].
    rewrite forallb_forall in H1, H2. split.
    - intros k x Hin Hh. specialize (H1 _ Hin). cbn [fst snd] in H1. rewrite Hh in H1.
      cbn [negb orb] in H1. apply sent_timeoutb_sent. exact H1.
    - intros en Hin. apply timeout_knownb_ktm. auto.
  Qed.

  Lemma sigs_known_kmsg x : sigs_known P soup x = true -> kmsg hon soup x.
  Proof.
    destruct x as [p j|c|t|j]; cbn [sigs_known kmsg]; try (intros; exact I).
    - destruct j; cbn [just_knownb kj]; [apply cqc_knownb_kq|apply tqc_knownb_kt].
    - apply timeout_knownb_ktm.
    - destruct j; cbn [just_knownb kj]; [apply cqc_knownb_kq|apply tqc_knownb_kt].
  Qed.
End Reflect.

(* ---------- positions ---------- *)
Lemma spos_pos_lt v1 p1 v2 p2 :
  3 * v1 + rank p1 < 3 * v2 + rank p2 -> pos_lt (v1, abs_phase p1) (v2, abs_phase p2).
Proof.
  unfold pos_lt. cbn [fst snd]. intros H.
  destruct p1, p2; cbn [rank abs_phase phase_rank] in *; lia.
Qed.

Lemma max_cq_abs o q :
  option_map abs_cqc (cq_upd o q) = max_cq (option_map abs_cqc o) (Some (abs_cqc q)).
Proof.
  unfold cq_upd, max_cq. destruct o as [cur|]; cbn [option_map]; [|reflexivity].
  cbn [abs_cqc aq_view]. destruct (_ <? _); reflexivity.
Qed.

Section Sim.
  Variable P : params.
  Hypothesis HP : params_ok P.

  Notation C := (p_C P).
  Notation W := (cweights (p_C P)).
  Notation hon := (honestb P).
  Notation byz := (abyz P).
  Notation first := (p_first P).
  Notation cfg := (pcfg P).
  Notation areach := (reachable W byz first).
  Notation ahonest := (honest W byz).
  Notation key := (key_of P).

  Definition GQ (soup : list sgmsg) (q : cqc) : Prop := gq (cfg 0) hon soup q.

  (* ---------- the concrete history covers what certificates need ---------- *)
  Definition votes_cover (plog : list (Z * durable)) (a : astate) : Prop :=
    forall i d c, ahonest i -> In (key i, d) plog -> d_phase d = PCommit -> d_high_vote d = Some c ->
      exists cq, In {| v_who := i; v_view := d_view d; v_block := abs_hdr (cprop c); v_cq := cq |} (votes a).
  Definition tmos_cover (plog : list (Z * durable)) (a : astate) : Prop :=
    forall i d, ahonest i -> In (key i, d) plog -> d_phase d = PTimeout ->
      In {| t_who := i; t_view := d_view d;
            t_report := {| ar_hv := abs_hv (d_high_vote d); ar_hq := option_map abs_cqc (d_high_cqc d) |} |}
         (timeouts a).
  Definition commit_backed (soup : list sgmsg) (plog : list (Z * durable)) : Prop :=
    forall k c, hon k = true -> sent soup k (MCommit c) ->
      exists d, In (k, d) plog /\ d_phase d = PCommit /\ d_high_vote d = Some c /\ d_view d = vnum (cview c).
  Definition timeout_backed (soup : list sgmsg) (plog : list (Z * durable)) : Prop :=
    forall k t, hon k = true -> sent soup k (MTimeout t) ->
      exists d, In (k, d) plog /\ d_phase d = PTimeout /\ d_view d = vnum (tview t) /\
                d_high_vote d = thv t /\ d_high_cqc d = thq t.

  Lemma gq_valid soup plog a q :
    commit_backed soup plog -> votes_cover plog a -> GQ soup q -> valid_cqc W byz a (abs_cqc q).
  Proof.
    intros Hcb Hvc [Hv Hk]. apply (abs_cqc_valid P a q Hv).
    intros i Hh Hb. pose proof (signer_sig P q i Hv Hb) as Hs.
    destruct (Hcb _ _ (honest_key P i Hh) (Hk _ _ Hs (honest_key P i Hh))) as (d & Hin & Hp & Hhv & Hdv).
    destruct (Hvc i d (qmsg q) Hh Hin Hp Hhv) as [cq Hcq]. exists cq. rewrite <- Hdv. exact Hcq.
  Qed.

  Lemma gt_valid soup plog a t :
    commit_backed soup plog -> timeout_backed soup plog -> votes_cover plog a -> tmos_cover plog a ->
    tqc_verify (p_g P) (p_e P) C t = Ok tt -> kt hon soup t -> valid_tqc W byz a (abs_tqc t).
  Proof.
    intros Hcb Htb Hvc Htc Hv [Hka Hkm]. apply (abs_tqc_valid P a t Hv).
    - intros en i Hin Hh Hb. pose proof (tsigner_sig P t en i Hv Hin Hb) as Hs.
      destruct (Htb _ _ (honest_key P i Hh) (Hka _ _ Hs (honest_key P i Hh))) as (d & Hind & Hp & Hdv & Hhv & Hhq).
      pose proof (Htc i d Hh Hind Hp) as Ht. rewrite Hdv, Hhv, Hhq in Ht.
      destruct (tqc_verify_parts P t Hv) as (Hen & _). rewrite Forall_forall in Hen.
      destruct (Hen en Hin) as (Hvw & _). rewrite Hvw in Ht. exact Ht.
    - intros en q Hin Hq. apply (gq_valid soup plog a q Hcb Hvc). split.
      + destruct (tqc_verify_parts P t Hv) as (Hen & _). rewrite Forall_forall in Hen.
        destruct (Hen en Hin) as (_ & _ & _ & Htv). apply timeout_verify_iff in Htv.
        destruct Htv as (_ & _ & Htv). auto.
      + exact (Hkm en Hin q Hq).
  Qed.

  Lemma gj_valid soup plog a j :
    commit_backed soup plog -> timeout_backed soup plog -> votes_cover plog a -> tmos_cover plog a ->
    justification_verify (p_g P) (p_e P) C j = Ok tt -> kj hon soup j -> valid_just W byz a (abs_just j).
  Proof.
    intros Hcb Htb Hvc Htc Hv Hk. apply justification_verify_iff in Hv.
    destruct j as [q|t]; cbn [abs_just valid_just kj] in *.
    - apply (gq_valid soup plog a q Hcb Hvc). split; assumption.
    - eapply gt_valid; eassumption.
  Qed.

  (* ---------- learning a chain of good certificates (StepLearn) ---------- *)
  Lemma learn_sim i0 qs : ahonest i0 -> forall a o,
    areach a -> hq a i0 = option_map abs_cqc o ->
    (forall q, In q qs -> valid_cqc W byz a (abs_cqc q)) ->
    exists a1, areach a1 /\ votes a1 = votes a /\ timeouts a1 = timeouts a /\
      cur a1 = cur a /\ hvote a1 = hvote a /\
      (forall i, i <> i0 -> hq a1 i = hq a i) /\
      hq a1 i0 = option_map abs_cqc (fold_left cq_upd qs o).
  Proof.
    intros Hh. induction qs as [|q qs IH]; intros a o Hr Hq Hval.
    - exists a. cbn [fold_left]. repeat split; auto.
    - set (a' := {| cur := cur a; hvote := hvote a;
                    hq := upd (hq a) i0 (max_cq (hq a i0) (Some (abs_cqc q)));
                    votes := votes a; timeouts := timeouts a |}).
      assert (Hr' : areach a').
      { eapply ReachStep; [exact Hr|]. apply StepLearn; [exact Hh|]. apply Hval. left. reflexivity. }
      destruct (IH a' (cq_upd o q) Hr') as (a1 & R1 & V1 & T1 & C1 & H1 & Q1 & Q2).
      + cbn [a' hq]. rewrite upd_same, Hq. symmetry. apply max_cq_abs.
      + intros q' Hin. apply (valid_cqc_mono W byz a); [cbn; apply incl_refl|]. apply Hval. right. exact Hin.
      + exists a1. cbn [fold_left]. repeat split; try assumption.
        intros i Hi. rewrite (Q1 i Hi). cbn [a' hq]. apply upd_other. exact Hi.
  Qed.

  (* ---------- one durable write, abstractly ---------- *)
  Definition dcore (d : durable) (s : rstate) : Prop :=
    r_view s = d_view d /\ r_phase s = d_phase d /\ r_high_vote s = d_high_vote d.

  Definition node_abs (a : astate) (i : nat) (d : durable) : Prop :=
    cur a i = (d_view d, abs_phase (d_phase d)) /\ hvote a i = abs_hv (d_high_vote d) /\
    hq a i = option_map abs_cqc (d_high_cqc d).

  Definition others_same (a a' : astate) (i0 : nat) : Prop :=
    forall i, i <> i0 -> cur a' i = cur a i /\ hvote a' i = hvote a i /\ hq a' i = hq a i.

  Lemma justification_view_abs j mv :
    @justification_view unit true j = Ok mv -> just_view (abs_just j) + 1 = vnum mv.
  Proof.
    unfold justification_view. destruct (num_next true _) as [n| |] eqn:E; cbn [bind]; try discriminate.
    intros H; inversion H; subst; cbn [vnum]. apply num_next_true in E.
    destruct j; cbn [abs_just just_view abs_cqc abs_tqc aq_view at_view]; lia.
  Qed.

  Lemma max_cq_absorb o q qf :
    o = Some qf -> vnum (cview (qmsg q)) <= vnum (cview (qmsg qf)) ->
    max_cq (option_map abs_cqc o) (Some (abs_cqc q)) = option_map abs_cqc o.
  Proof.
    intros -> Hle. cbn [option_map max_cq abs_cqc aq_view].
    destruct (Z.ltb_spec (vnum (cview (qmsg qf))) (vnum (cview (qmsg q)))); [lia|reflexivity].
  Qed.

  Lemma vote_sim soup plog a i0 d0 live s' c j qs :
    commit_backed soup plog -> timeout_backed soup plog -> votes_cover plog a -> tmos_cover plog a ->
    areach a -> ahonest i0 -> node_abs a i0 d0 -> dcore d0 live ->
    Forall (GQ soup) qs -> r_high_cqc s' = fold_left cq_upd qs (d_high_cqc d0) ->
    vote_spec (cfg (key i0)) hon soup live s' c j ->
    exists a', areach a' /\ incl (votes a) (votes a') /\ incl (timeouts a) (timeouts a') /\
      others_same a a' i0 /\ node_abs a' i0 (backup (cfg (key i0)) s') /\
      exists cq, In {| v_who := i0; v_view := r_view s'; v_block := abs_hdr (cprop c); v_cq := cq |} (votes a').
  Proof.
    intros Hcb Htb Hvc Htc Hr Hh (Ncur & Nhv & Nhq) (Dv & Dp & Dh) Hqs Hchain
           (Hkj & Hjv & Hview & Hpos & Hv' & Hp' & Hhv' & (n & oh & Himp & Hn & Hoh) & Hle).
    destruct (learn_sim i0 qs Hh a (d_high_cqc d0) Hr Nhq) as (a1 & R1 & V1 & T1 & C1 & H1 & Q1 & Q2).
    { intros q Hin. rewrite Forall_forall in Hqs. eapply gq_valid; eauto. }
    rewrite <- Hchain in Q2.
    set (w := vnum (cview c)). set (b := abs_hdr (cprop c)).
    set (cq := option_map abs_cqc (proc j)).
    set (a2 := {| cur := upd (cur a1) i0 (w, Commit);
                  hvote := upd (hvote a1) i0 (Some (w, b));
                  hq := upd (hq a1) i0 (max_cq (hq a1 i0) cq);
                  votes := {| v_who := i0; v_view := w; v_block := b; v_cq := cq |} :: votes a1;
                  timeouts := timeouts a1 |}).
    assert (R2 : areach a2).
    { eapply ReachStep; [exact R1|].
      apply (StepVote W byz first a1 i0 w b (abs_just j) cq).
      - exact Hh.
      - rewrite C1, Ncur, <- Dv, <- Dp. apply (spos_pos_lt _ _ w PCommit).
        unfold spos in Hpos. rewrite Hv', Hp' in Hpos. exact Hpos.
      - apply (gj_valid soup plog a1 j Hcb Htb); try assumption.
        + intros i d c0 Hi Hin Hp Hc0. rewrite V1. eapply Hvc; eassumption.
        + intros i d Hi Hin Hp. rewrite T1. eapply Htc; eassumption.
      - apply justification_view_abs. exact Hview.
      - exists (n, oh). split; [apply (implied_abs P HP j n oh Hjv Himp)|].
        apply agrees_abs; assumption.
      - unfold cq. destruct j as [q|t]; cbn [abs_just processed_cq proc]; [reflexivity|].
        apply (high_qc_abs P). apply justification_verify_iff in Hjv. exact Hjv. }
    exists a2. split; [exact R2|]. split; [|split; [|split; [|split]]].
    - cbn [a2 votes]. rewrite V1. apply incl_tl, incl_refl.
    - cbn [a2 timeouts]. rewrite T1. apply incl_refl.
    - intros i Hi. cbn [a2 cur hvote hq]. rewrite !upd_other by exact Hi.
      rewrite C1, H1, (Q1 i Hi). auto.
    - unfold node_abs. cbn [a2 cur hvote hq backup d_view d_phase d_high_vote d_high_cqc].
      rewrite !upd_same. rewrite Hv', Hp', Hhv'. split; [reflexivity|]. split; [reflexivity|].
      rewrite Q2. unfold cq, proc_le in *. destruct (proc j) as [q|]; cbn [option_map].
      + destruct Hle as (qf & Hqf & Hle). apply (max_cq_absorb _ q qf Hqf Hle).
      + destruct (option_map abs_cqc (r_high_cqc s')); reflexivity.
    - exists cq. cbn [a2 votes]. left. rewrite Hv'. reflexivity.
  Qed.

  Lemma other_sim soup plog a i0 d0 live s' rest qs :
    commit_backed soup plog -> votes_cover plog a ->
    areach a -> ahonest i0 -> node_abs a i0 d0 -> dcore d0 live ->
    Forall (GQ soup) qs -> r_high_cqc s' = fold_left cq_upd qs (d_high_cqc d0) ->
    other_spec (cfg (key i0)) hon soup live s' rest ->
    exists a', areach a' /\ incl (votes a) (votes a') /\ incl (timeouts a) (timeouts a') /\
      others_same a a' i0 /\ node_abs a' i0 (backup (cfg (key i0)) s') /\
      (r_phase s' = PTimeout ->
       In {| t_who := i0; t_view := r_view s';
             t_report := {| ar_hv := abs_hv (r_high_vote s'); ar_hq := option_map abs_cqc (r_high_cqc s') |} |}
          (timeouts a')).
  Proof.
    intros Hcb Hvc Hr Hh (Ncur & Nhv & Nhq) (Dv & Dp & Dh) Hqs Hchain (Hhv' & Hcase & _).
    destruct (learn_sim i0 qs Hh a (d_high_cqc d0) Hr Nhq) as (a1 & R1 & V1 & T1 & C1 & H1 & Q1 & Q2).
    { intros q Hin. rewrite Forall_forall in Hqs. eapply gq_valid; eauto. }
    rewrite <- Hchain in Q2.
    destruct Hcase as [(Hp' & Hv')|(Hp' & Hv')].
    - set (a2 := {| cur := upd (cur a1) i0 (r_view s', SafetyAbs.Prepare);
                    hvote := hvote a1; hq := hq a1; votes := votes a1; timeouts := timeouts a1 |}).
      assert (R2 : areach a2).
      { eapply ReachStep; [exact R1|]. apply StepAdvance; [exact Hh|].
        rewrite C1, Ncur. cbn [fst]. rewrite <- Dv. exact Hv'. }
      exists a2. split; [exact R2|]. split; [|split; [|split; [|split]]].
      + cbn [a2 votes]. rewrite V1. apply incl_refl.
      + cbn [a2 timeouts]. rewrite T1. apply incl_refl.
      + intros i Hi. cbn [a2 cur hvote hq]. rewrite upd_other by exact Hi.
        rewrite C1, H1, (Q1 i Hi). auto.
      + unfold node_abs. cbn [a2 cur hvote hq backup d_view d_phase d_high_vote d_high_cqc].
        rewrite upd_same, Hp', H1, Nhv, Hhv', Dh. auto.
      + intros Hpt. rewrite Hp' in Hpt. discriminate.
    - set (a2 := {| cur := upd (cur a1) i0 (fst (cur a1 i0), Timeout);
                    hvote := hvote a1; hq := hq a1; votes := votes a1;
                    timeouts := {| t_who := i0; t_view := fst (cur a1 i0);
                                   t_report := {| ar_hv := hvote a1 i0; ar_hq := hq a1 i0 |} |}
                                :: timeouts a1 |}).
      assert (R2 : areach a2).
      { eapply ReachStep; [exact R1|]. apply StepTimeout. exact Hh. }
      assert (Hfst : fst (cur a1 i0) = r_view s').
      { rewrite C1, Ncur. cbn [fst]. rewrite <- Dv. symmetry. exact Hv'. }
      exists a2. split; [exact R2|]. split; [|split; [|split; [|split]]].
      + cbn [a2 votes]. rewrite V1. apply incl_refl.
      + cbn [a2 timeouts]. rewrite T1. apply incl_tl, incl_refl.
      + intros i Hi. cbn [a2 cur hvote hq]. rewrite upd_other by exact Hi.
        rewrite C1, H1, (Q1 i Hi). auto.
      + unfold node_abs. cbn [a2 cur hvote hq backup d_view d_phase d_high_vote d_high_cqc].
        rewrite upd_same, Hfst, Hp', H1, Nhv, Hhv', Dh. auto.
      + intros _. cbn [a2 timeouts]. left. rewrite Hfst, H1, Nhv, Q2, Hhv', Dh. reflexivity.
  Qed.

  (* ---------- the global invariant ---------- *)
  Definition knums (k : Z) (qlog : list (Z * Z * Z)) : list Z :=
    map (fun x => snd (fst x)) (filter (fun x => fst (fst x) =? k) qlog).
  Fixpoint consec (a : Z) (l : list Z) : Prop :=
    match l with [] => True | n :: l' => n = a /\ consec (a + 1) l' end.

  Lemma consec_app l1 : forall a l2,
    consec a (l1 ++ l2) <-> consec a l1 /\ consec (a + Z.of_nat (length l1)) l2.
  Proof.
    induction l1 as [|n l1 IH]; intros a l2; cbn [app consec length].
    - rewrite Z.add_0_r. tauto.
    - rewrite IH. replace (a + 1 + Z.of_nat (length l1)) with (a + Z.of_nat (S (length l1))) by lia. tauto.
  Qed.

  Lemma knums_app k l1 l2 : knums k (l1 ++ l2) = knums k l1 ++ knums k l2.
  Proof. unfold knums. rewrite filter_app, map_app. reflexivity. Qed.

  Definition qnums (es : list effect) : list Z :=
    flat_map (fun x => match x with EQueueBlock n _ => [n] | _ => [] end) es.

  Lemma knums_queued_same k es : knums k (queued_of k es) = qnums es.
  Proof.
    unfold knums, queued_of, qnums. induction es as [|x es IH]; [reflexivity|].
    cbn [flat_map]. rewrite filter_app, map_app, IH. f_equal.
    destruct x; try reflexivity. cbn [filter fst snd]. rewrite Z.eqb_refl. reflexivity.
  Qed.

  Lemma knums_queued_other k k' es : k' <> k -> knums k' (queued_of k es) = [].
  Proof.
    intros Hk. unfold knums, queued_of. induction es as [|x es IH]; [reflexivity|].
    cbn [flat_map]. rewrite filter_app, map_app, IH, app_nil_r.
    destruct x; try reflexivity. cbn [filter fst snd].
    destruct (k =? k') eqn:E; [apply Z.eqb_eq in E; congruence|reflexivity].
  Qed.

  Lemma qb_run_consec es : forall n n',
    qb_run n es = Some n' -> consec n (qnums es) /\ n' = n + Z.of_nat (length (qnums es)).
  Proof.
    induction es as [|x es IH]; intros n n' H; cbn [qb_run] in H.
    - inversion H. cbn. split; [exact I|lia].
    - destruct x; try (apply IH; exact H).
      destruct (n =? n0) eqn:E; [|discriminate]. apply Z.eqb_eq in E. subst n0.
      destruct (IH _ _ H) as [H1 H2]. cbn [qnums flat_map app consec length].
      split; [split; [reflexivity|exact H1]|]. fold (qnums es). lia.
  Qed.

  Lemma qb_run_apply es : forall d n n',
    qb_run n es = Some n' -> snd (apply_effects d n es) = n'.
  Proof.
    induction es as [|x es IH]; intros d n n' H; cbn [qb_run apply_effects] in *.
    - inversion H. reflexivity.
    - destruct x; try (eapply IH; exact H).
      destruct (n =? n0) eqn:E; [|discriminate]. eapply IH. exact H.
  Qed.

  Lemma in_queued_of k es k' n h : In (k', n, h) (queued_of k es) -> k' = k /\ In (EQueueBlock n h) es.
  Proof.
    unfold queued_of. intros H. apply in_flat_map in H. destruct H as (x & Hx & Hin).
    destruct x; cbn [In] in Hin; try contradiction. destruct Hin as [Hin|[]]. inversion Hin; subst. auto.
  Qed.

  Definition dur_ok (soup : list sgmsg) (d : durable) : Prop :=
    (forall q, d_high_cqc d = Some q -> GQ soup q) /\ (forall t, d_high_tqc d = Some t -> kt hon soup t).

  Definition linked (soup : list sgmsg) (d : durable) (s : rstate) : Prop :=
    dcore d s /\ exists qs, Forall (GQ soup) qs /\ r_high_cqc s = fold_left cq_upd qs (d_high_cqc d).

  (* the durable state is one written by this epoch's replica, or the empty disk *)
  Definition epoch_ok (d : durable) : Prop := d_epoch d = p_e P \/ d = durable_default.

  Record node_inv (soup : list sgmsg) (qlog : list (Z * Z * Z)) (k : Z) (nd : node) : Prop := {
    ni_certs : certs_ok (cfg k) hon soup (n_live nd);
    ni_dur : dur_ok soup (n_dur nd);
    ni_epoch : epoch_ok (n_dur nd);
    ni_first : r_store_first (n_live nd) = first;
    ni_consec : consec first (knums k qlog);
    ni_next : r_store_next (n_live nd) = first + Z.of_nat (length (knums k qlog));
    ni_notify : forall j, n_notify nd = Some j -> kj hon soup j;
    ni_link : n_alive nd = true -> linked soup (n_dur nd) (n_live nd)
  }.

  Record ginv (s : gstate) (a : astate) : Prop := {
    gi_soup : forall m, In m (g_soup s) -> kmsg hon (g_soup s) (m_msg m);
    gi_commit : commit_backed (g_soup s) (g_plog s);
    gi_timeout : timeout_backed (g_soup s) (g_plog s);
    gi_qlog : forall k n h, In (k, n, h) (g_qlog s) ->
                exists q, GQ (g_soup s) q /\ hnum (cprop (qmsg q)) = n /\ hpay (cprop (qmsg q)) = h;
    gi_node : forall k, hon k = true -> node_inv (g_soup s) (g_qlog s) k (g_node s k);
    gi_reach : areach a;
    gi_abs : forall i, ahonest i -> node_abs a i (n_dur (g_node s (key i)));
    gi_votes : votes_cover (g_plog s) a;
    gi_tmos : tmos_cover (g_plog s) a
  }.

  Lemma ginv_ext s s' a :
    (forall k, hon k = true -> g_node s' k = g_node s k) -> g_soup s' = g_soup s -> g_plog s' = g_plog s ->
    g_qlog s' = g_qlog s -> ginv s a -> ginv s' a.
  Proof.
    intros Hn Hs Hp Hq [I1 I2 I3 I4 I5 I6 I7 I8 I9].
    split; rewrite ?Hs, ?Hp, ?Hq; auto.
    - intros k Hk. rewrite Hn by exact Hk. auto.
    - intros i Hi. rewrite Hn by (apply honest_key; exact Hi). auto.
  Qed.

  Lemma linked_mono soup soup' d s : incl soup soup' -> linked soup d s -> linked soup' d s.
  Proof.
    intros Hi [Hc (qs & Hq & Hch)]. split; [exact Hc|]. exists qs. split; [|exact Hch].
    eapply Forall_impl; [|exact Hq]. intros q. apply (gq_mono hon soup soup' Hi (cfg 0)).
  Qed.

  Lemma node_inv_mono soup soup' qlog k nd :
    incl soup soup' -> node_inv soup qlog k nd -> node_inv soup' qlog k nd.
  Proof.
    intros Hi [N1 [N2a N2b] N3 N4 N5 N6 N7 N8]. split; auto.
    - eapply certs_ok_mono; eassumption.
    - split; [intros q Hq; apply (gq_mono hon soup soup' Hi (cfg 0)); exact (N2a q Hq)|intros t Ht; eapply kt_mono; eauto].
    - intros j Hj. eapply kj_mono; eauto.
    - intros Ha. eapply linked_mono; eauto.
  Qed.

  (* ---------- adding messages to the soup ---------- *)
  Definition msg_backed (plog : list (Z * durable)) (m : sgmsg) : Prop :=
    m_sig_ok m = true -> hon (m_key m) = true ->
    match m_msg m with
    | MCommit c => exists d, In (m_key m, d) plog /\ d_phase d = PCommit /\ d_high_vote d = Some c /\
                             d_view d = vnum (cview c)
    | MTimeout t => exists d, In (m_key m, d) plog /\ d_phase d = PTimeout /\ d_view d = vnum (tview t) /\
                              d_high_vote d = thv t /\ d_high_cqc d = thq t
    | _ => True
    end.

  Lemma sends_step s a msgs :
    ginv s a ->
    (forall m, In m msgs -> kmsg hon (g_soup s ++ msgs) (m_msg m)) ->
    (forall m, In m msgs -> msg_backed (g_plog s) m) ->
    ginv {| g_node := g_node s; g_soup := g_soup s ++ msgs; g_plog := g_plog s; g_qlog := g_qlog s |} a.
  Proof.
    intros [I1 I2 I3 I4 I5 I6 I7 I8 I9] Hk Hb.
    assert (Hincl : incl (g_soup s) (g_soup s ++ msgs)) by (apply incl_appl, incl_refl).
    split; cbn [g_node g_soup g_plog g_qlog]; auto.
    - intros m Hin. apply in_app_or in Hin. destruct Hin as [Hin|Hin]; [|auto].
      eapply kmsg_mono; [exact Hincl|auto].
    - intros k c Hh Hs. unfold sent in Hs. apply in_app_or in Hs. destruct Hs as [Hs|Hs]; [auto|].
      exact (Hb _ Hs eq_refl Hh).
    - intros k t Hh Hs. unfold sent in Hs. apply in_app_or in Hs. destruct Hs as [Hs|Hs]; [auto|].
      exact (Hb _ Hs eq_refl Hh).
    - intros k n h Hin. destruct (I4 k n h Hin) as (q & Hq & Hx). exists q. split; [|exact Hx].
      apply (gq_mono hon _ _ Hincl (cfg 0)). exact Hq.
    - intros k Hh. eapply node_inv_mono; [exact Hincl|auto].
  Qed.

  (* ---------- the quiet part and the durable write of one handler invocation ---------- *)
  Inductive pkind := PKNone | PKVote (c : commit) (j : justification) | PKOther (rest : list effect).
  Definition pk_spec (k : Z) (soup : list sgmsg) (live s' : rstate) (pk : pkind) : Prop :=
    match pk with
    | PKNone => True
    | PKVote c j => vote_spec (cfg k) hon soup live s' c j
    | PKOther rest => other_spec (cfg k) hon soup live s' rest
    end.
  Definition pk_log (k : Z) (s' : rstate) (pk : pkind) : list (Z * durable) :=
    match pk with PKNone => [] | _ => [(k, backup (cfg k) s')] end.
  Definition pk_dur (k : Z) (d0 : durable) (s' : rstate) (pk : pkind) : durable :=
    match pk with PKNone => d0 | _ => backup (cfg k) s' end.

  Lemma set_node_same f k nd : set_node f k nd k = nd.
  Proof. unfold set_node. rewrite Z.eqb_refl. reflexivity. Qed.
  Lemma set_node_other f k nd k' : k' <> k -> set_node f k nd k' = f k'.
  Proof. unfold set_node. intros H. destruct (k' =? k) eqn:E; [apply Z.eqb_eq in E; congruence|reflexivity]. Qed.

  Lemma ahonest_lt i : ahonest i -> (i < length C)%nat.
  Proof. intros [Hm _]. unfold member in Hm. rewrite (W_length P) in Hm. exact Hm. Qed.

  Lemma key_neq i i0 : ahonest i -> ahonest i0 -> i <> i0 -> key i <> key i0.
  Proof.
    intros Hi Hi0 Hne Hk. apply Hne. apply (key_of_inj P HP); auto using ahonest_lt.
  Qed.

  Lemma core_step s a i0 live0 s' qs pk ndX :
    ginv s a -> ahonest i0 ->
    linked (g_soup s) (n_dur (g_node s (key i0))) live0 ->
    r_store_next live0 = r_store_next (n_live (g_node s (key i0))) ->
    ev (cfg (key i0)) hon (g_soup s) live0 s' ->
    Forall (qeff (cfg (key i0)) hon (g_soup s)) qs ->
    qb_run (r_store_next live0) qs = Some (r_store_next s') ->
    pk_spec (key i0) (g_soup s) live0 s' pk ->
    n_dur ndX = pk_dur (key i0) (n_dur (g_node s (key i0))) s' pk ->
    certs_ok (cfg (key i0)) hon (g_soup s) (n_live ndX) ->
    r_store_first (n_live ndX) = first -> r_store_next (n_live ndX) = r_store_next s' ->
    (forall j, n_notify ndX = Some j -> kj hon (g_soup s) j) ->
    (n_alive ndX = true -> linked (g_soup s) (n_dur ndX) (n_live ndX)) ->
    exists a', ginv {| g_node := set_node (g_node s) (key i0) ndX; g_soup := g_soup s;
                       g_plog := g_plog s ++ pk_log (key i0) s' pk;
                       g_qlog := g_qlog s ++ queued_of (key i0) qs |} a'.
  Proof.
    intros [I1 I2 I3 I4 I5 I6 I7 I8 I9] Hi0 [Hdc (qs0 & Hqs0 & Hch0)] Hnx Hev Hqe Hqb Hpk Hdur Hcx Hfx Hnxx Hntx Hlkx.
    set (k := key i0) in *.
    assert (Hk : hon k = true) by (apply honest_key; exact Hi0).
    pose proof (I5 k Hk) as [N1 N2 N3 N4 N5 N6 N7 N8].
    destruct Hev as [Ef (qs1 & Hqs1 & Hch1) Ek].
    assert (Hqsall : Forall (GQ (g_soup s)) (qs0 ++ qs1)) by (apply Forall_app; split; assumption).
    assert (Hchall : r_high_cqc s' = fold_left cq_upd (qs0 ++ qs1) (d_high_cqc (n_dur (g_node s k)))).
    { rewrite fold_left_app, <- Hch0. exact Hch1. }
    (* the abstract part *)
    assert (Habs : exists a', areach a' /\
              (forall i, ahonest i -> node_abs a' i (n_dur (set_node (g_node s) k ndX (key i)))) /\
              votes_cover (g_plog s ++ pk_log k s' pk) a' /\
              tmos_cover (g_plog s ++ pk_log k s' pk) a').
    { destruct pk as [|c j|rest]; cbn [pk_spec pk_log pk_dur] in *.
      - exists a. split; [exact I6|]. rewrite app_nil_r. split; [|split; assumption].
        intros i Hi. destruct (Nat.eq_dec i i0) as [->|Hne].
        + fold k. rewrite set_node_same, Hdur. apply I7. exact Hi0.
        + rewrite set_node_other by (apply key_neq; assumption). apply I7. exact Hi.
      - destruct (vote_sim (g_soup s) (g_plog s) a i0 (n_dur (g_node s k)) live0 s' c j (qs0 ++ qs1)
                    I2 I3 I8 I9 I6 Hi0 (I7 i0 Hi0) Hdc Hqsall Hchall Hpk)
          as (a' & R' & Vi & Ti & Os & Na & (cq & Hcq)).
        destruct Hpk as (_ & _ & _ & _ & Hv' & Hp' & Hhv' & _).
        exists a'. split; [exact R'|]. split; [|split].
        + intros i Hi. destruct (Nat.eq_dec i i0) as [->|Hne].
          * fold k. rewrite set_node_same, Hdur. exact Na.
          * rewrite set_node_other by (apply key_neq; assumption).
            destruct (Os i Hne) as (O1 & O2 & O3). destruct (I7 i Hi) as (A1 & A2 & A3).
            unfold node_abs. rewrite O1, O2, O3. auto.
        + intros i d c0 Hi Hin Hp Hc0. apply in_app_or in Hin. destruct Hin as [Hin|[Hin|[]]].
          * destruct (I8 i d c0 Hi Hin Hp Hc0) as [cq0 Hcq0]. exists cq0. apply Vi. exact Hcq0.
          * injection Hin as Hki Hd. destruct (Nat.eq_dec i i0) as [->|Hne];
              [|exfalso; apply (key_neq i i0 Hi Hi0 Hne); symmetry; exact Hki].
            rewrite <- Hd in Hc0 |- *. cbn [backup d_high_vote d_view] in *. rewrite Hhv' in Hc0.
            inversion Hc0; subst c0. exists cq. exact Hcq.
        + intros i d Hi Hin Hp. apply in_app_or in Hin. destruct Hin as [Hin|[Hin|[]]].
          * apply Ti. apply I9; assumption.
          * injection Hin as Hki Hd. rewrite <- Hd in Hp. cbn [backup d_phase] in Hp. congruence.
      - destruct (other_sim (g_soup s) (g_plog s) a i0 (n_dur (g_node s k)) live0 s' rest (qs0 ++ qs1)
                    I2 I8 I6 Hi0 (I7 i0 Hi0) Hdc Hqsall Hchall Hpk)
          as (a' & R' & Vi & Ti & Os & Na & Htm).
        destruct Hpk as (_ & Hcase & _).
        exists a'. split; [exact R'|]. split; [|split].
        + intros i Hi. destruct (Nat.eq_dec i i0) as [->|Hne].
          * fold k. rewrite set_node_same, Hdur. exact Na.
          * rewrite set_node_other by (apply key_neq; assumption).
            destruct (Os i Hne) as (O1 & O2 & O3). destruct (I7 i Hi) as (A1 & A2 & A3).
            unfold node_abs. rewrite O1, O2, O3. auto.
        + intros i d c0 Hi Hin Hp Hc0. apply in_app_or in Hin. destruct Hin as [Hin|[Hin|[]]].
          * destruct (I8 i d c0 Hi Hin Hp Hc0) as [cq0 Hcq0]. exists cq0. apply Vi. exact Hcq0.
          * injection Hin as Hki Hd. rewrite <- Hd in Hp. cbn [backup d_phase] in Hp.
            destruct Hcase as [(Hx & _)|(Hx & _)]; congruence.
        + intros i d Hi Hin Hp. apply in_app_or in Hin. destruct Hin as [Hin|[Hin|[]]].
          * apply Ti. apply I9; assumption.
          * injection Hin as Hki Hd. destruct (Nat.eq_dec i i0) as [->|Hne];
              [|exfalso; apply (key_neq i i0 Hi Hi0 Hne); symmetry; exact Hki].
            rewrite <- Hd in Hp |- *. cbn [backup d_phase d_view d_high_vote d_high_cqc] in *.
            apply Htm. exact Hp. }
    destruct Habs as (a' & R' & Na' & Vc' & Tc').
    exists a'. split; cbn [g_node g_soup g_plog g_qlog]; auto.
    - intros k0 c Hh Hs. destruct (I2 k0 c Hh Hs) as (d & Hin & Hx). exists d. split; [apply in_or_app; left; exact Hin|exact Hx].
    - intros k0 t Hh Hs. destruct (I3 k0 t Hh Hs) as (d & Hin & Hx). exists d. split; [apply in_or_app; left; exact Hin|exact Hx].
    - intros k0 n h Hin. apply in_app_or in Hin. destruct Hin as [Hin|Hin]; [exact (I4 _ _ _ Hin)|].
      apply in_queued_of in Hin. destruct Hin as [_ Hin]. rewrite Forall_forall in Hqe.
      exact (Hqe _ Hin).
    - intros k0 Hh. destruct (Z.eq_dec k0 k) as [->|Hne].
      + rewrite set_node_same.
        destruct (qb_run_consec qs _ _ Hqb) as [Hc1 Hc2].
        split; auto.
        * rewrite Hdur. destruct pk; cbn [pk_dur]; [exact N2| |];
            (split; cbn [backup d_high_cqc d_high_tqc]; [intros q Hq; exact (co_cqc _ _ _ _ Ek q Hq)|intros t Ht; exact (co_tqc _ _ _ _ Ek t Ht)]).
        * rewrite Hdur. destruct pk; cbn [pk_dur]; [exact N3|left; reflexivity|left; reflexivity].
        * rewrite knums_app, knums_queued_same.
          apply consec_app. split; [exact N5|]. rewrite <- N6, <- Hnx. exact Hc1.
        * rewrite knums_app, knums_queued_same. rewrite Hnxx, Hc2, Hnx, N6, app_length. lia.
      + rewrite set_node_other by exact Hne. pose proof (I5 k0 Hh) as [M1 M2 M3 M4 M5 M6 M7 M8].
        split; auto; rewrite knums_app, (knums_queued_other k k0 qs Hne), app_nil_r; assumption.
  Qed.

  (* ---------- effect lists ---------- *)
  Lemma sends_of_app k x y : sends_of k (x ++ y) = sends_of k x ++ sends_of k y.
  Proof. apply flat_map_app. Qed.
  Lemma persists_of_app k x y : persists_of k (x ++ y) = persists_of k x ++ persists_of k y.
  Proof. apply flat_map_app. Qed.
  Lemma queued_of_app k x y : queued_of k (x ++ y) = queued_of k x ++ queued_of k y.
  Proof. apply flat_map_app. Qed.

  Lemma quiet_no_sends k qs : Forall quiet_eff qs -> sends_of k qs = [] /\ persists_of k qs = [].
  Proof.
    induction 1 as [|x qs Hx _ [IH1 IH2]]; [split; reflexivity|].
    destruct x; try destruct Hx; cbn [sends_of persists_of flat_map app]; split; assumption.
  Qed.

  Lemma sends_no_persist k rest : Forall is_send rest -> persists_of k rest = [] /\ queued_of k rest = [].
  Proof.
    induction 1 as [|x qs Hx _ [IH1 IH2]]; [split; reflexivity|].
    destruct x; try destruct Hx; cbn [queued_of persists_of flat_map app]; split; assumption.
  Qed.

  Lemma send_spec_is_send c0 h0 sp s' rest : Forall (send_spec c0 h0 sp s') rest -> Forall is_send rest.
  Proof. apply Forall_impl. intros x. destruct x; cbn; auto. Qed.

  Lemma in_sends_of k es m : In m (sends_of k es) ->
    exists x, In (ESend x) es /\ m = {| m_key := k; m_sig_ok := true; m_msg := x |}.
  Proof.
    unfold sends_of. intros H. apply in_flat_map in H. destruct H as (y & Hy & Hin).
    destruct y; cbn [In] in Hin; try contradiction. destruct Hin as [Hin|[]]. exists m0. auto.
  Qed.

  Lemma last_notify_in es j : last_notify es = Some j -> In (ENotifyProposer j) es.
  Proof.
    unfold last_notify.
    assert (H : forall acc, fold_left (fun acc e => match e with ENotifyProposer j0 => Some j0 | _ => acc end) es acc = Some j ->
                acc = Some j \/ In (ENotifyProposer j) es).
    { induction es as [|x es IH]; intros acc Hf; cbn [fold_left] in Hf; [left; exact Hf|].
      destruct (IH _ Hf) as [Ha|Hin]; [|right; right; exact Hin].
      destruct x; try (left; exact Ha). inversion Ha; subst. right. left. reflexivity. }
    intros Hl. destruct (H None Hl) as [Hx|Hx]; [discriminate|exact Hx].
  Qed.

  Lemma rstart_ok k soup d f n :
    dur_ok soup d -> epoch_ok d ->
    certs_ok (cfg k) hon soup (rstart (cfg k) d f n) /\ linked soup d (rstart (cfg k) d f n).
  Proof.
    intros [D1 D2] He.
    assert (Heq : (if d_epoch d =? ce (cfg k) then d else durable_default) = d).
    { destruct He as [He|He].
      - cbn [cfg ce]. rewrite He, Z.eqb_refl. reflexivity.
      - subst d. destruct (_ =? _); reflexivity. }
    unfold rstart. rewrite Heq. split.
    - split; cbn [r_high_cqc r_high_tqc r_commit_qcs r_timeout_qcs]; auto; intros; contradiction.
    - split; [unfold dcore; cbn; auto|]. exists []. split; [constructor|reflexivity].
  Qed.

  (* ---------- a complete handler invocation ---------- *)
  Lemma full_step s a i0 live0 s' es r nd' nx :
    ginv s a -> ahonest i0 ->
    linked (g_soup s) (n_dur (g_node s (key i0))) live0 ->
    r_store_next live0 = r_store_next (n_live (g_node s (key i0))) ->
    r_store_first live0 = first ->
    Sum (cfg (key i0)) hon (g_soup s) live0 (s', es, r) ->
    n_live nd' = s' -> n_dur nd' = fst (apply_effects (n_dur (g_node s (key i0))) nx es) ->
    (n_alive nd' = true -> ~ deadr r) ->
    (forall j, n_notify nd' = Some j -> n_notify (g_node s (key i0)) = Some j \/ In (ENotifyProposer j) es) ->
    exists a', ginv (absorb s (key i0) (nd', es)) a'.
  Proof.
    intros G Hi0 Hlk Hnx Hf0 (Hev & Hqb & Ht) Hl' Hd' Ha' Hn'.
    set (k := key i0) in *.
    assert (Hk : hon k = true) by (apply honest_key; exact Hi0).
    pose proof (gi_node _ _ G k Hk) as NI.
    pose proof (ev_ok _ _ _ _ _ Hev) as Ks'.
    assert (Hfirst' : r_store_first s' = first) by (rewrite (ev_first _ _ _ _ _ Hev); exact Hf0).
    rewrite apply_effects_last in Hd'.
    assert (Hnot : forall qs, (forall j, In (ENotifyProposer j) es -> In (ENotifyProposer j) qs) ->
              Forall (qeff (cfg k) hon (g_soup s)) qs -> forall j, n_notify nd' = Some j -> kj hon (g_soup s) j).
    { intros qs Hsub Hq j Hj. destruct (Hn' j Hj) as [Ho|Hin]; [exact (ni_notify _ _ _ _ NI j Ho)|].
      rewrite Forall_forall in Hq. exact (Hq _ (Hsub j Hin)). }
    destruct Ht as [(Hq & Hdc)|[(qs & c & j & Hes & Hq & Hvs)|(qs & rest & Hes & Hq & Hos)]].
    - (* nothing persisted, nothing sent *)
      pose proof (qeff_quiet _ _ _ _ Hq) as Hqq.
      rewrite (last_persist_quiet _ _ Hqq) in Hd'.
      destruct (core_step s a i0 live0 s' es PKNone nd' G Hi0 Hlk Hnx Hev Hq Hqb I) as [a' G'].
      + exact Hd'.
      + rewrite Hl'. exact Ks'.
      + rewrite Hl'. exact Hfirst'.
      + rewrite Hl'. reflexivity.
      + apply (Hnot es); auto.
      + intros Hal. specialize (Ha' Hal). destruct Hdc as [Hdc|Hce]; [contradiction|].
        rewrite Hl', Hd'. destruct Hlk as [(D1 & D2 & D3) (qs0 & Hqs0 & Hch0)].
        destruct Hce as (C1 & C2 & C3). split; [unfold dcore; rewrite C1, C2, C3; auto|].
        destruct Hev as [_ (qs1 & Hqs1 & Hch1) _]. exists (qs0 ++ qs1).
        split; [apply Forall_app; split; assumption|]. rewrite fold_left_app, <- Hch0. exact Hch1.
      + exists a'. eapply ginv_ext; [| | | |exact G']; cbn [absorb g_node g_soup g_plog g_qlog fst snd]; auto.
        * destruct (quiet_no_sends k es Hqq) as [-> _]. apply app_nil_r.
        * destruct (quiet_no_sends k es Hqq) as [_ ->]. reflexivity.
    - (* a commit vote *)
      pose proof (qeff_quiet _ _ _ _ Hq) as Hqq.
      rewrite Hes, last_persist_app, (last_persist_quiet _ _ Hqq) in Hd'. cbn [last_persist fold_left] in Hd'.
      assert (Hqb' : qb_run (r_store_next live0) qs = Some (r_store_next s')).
      { rewrite Hes, qb_run_app in Hqb. destruct (qb_run (r_store_next live0) qs) as [n1|]; [|discriminate].
        cbn [qb_run] in Hqb. exact Hqb. }
      destruct (core_step s a i0 live0 s' qs (PKVote c j) nd' G Hi0 Hlk Hnx Hev Hq Hqb' Hvs) as [a' G'].
      + exact Hd'.
      + rewrite Hl'. exact Ks'.
      + rewrite Hl'. exact Hfirst'.
      + rewrite Hl'. reflexivity.
      + apply (Hnot qs); auto. intros j0 Hin. rewrite Hes in Hin. apply in_app_or in Hin.
        destruct Hin as [Hin|[Hin|[Hin|[]]]]; [exact Hin|discriminate|discriminate].
      + intros _. rewrite Hl', Hd'. split; [unfold dcore; cbn; auto|]. exists []. split; [constructor|reflexivity].
      + destruct Hvs as (_ & _ & _ & _ & Hv' & Hp' & Hhv' & _).
        pose proof (sends_step _ a' [{| m_key := k; m_sig_ok := true; m_msg := MCommit c |}] G') as G2.
        cbn [g_node g_soup g_plog g_qlog] in G2.
        exists a'. eapply ginv_ext; [| | | |apply G2]; cbn [absorb g_node g_soup g_plog g_qlog fst snd]; auto.
        * rewrite Hes, sends_of_app. destruct (quiet_no_sends k qs Hqq) as [-> _]. reflexivity.
        * rewrite Hes, persists_of_app. destruct (quiet_no_sends k qs Hqq) as [_ ->]. reflexivity.
        * rewrite Hes, queued_of_app. cbn [queued_of flat_map app]. rewrite app_nil_r. reflexivity.
        * intros m [<-|[]]. exact I.
        * intros m [<-|[]] _ _. cbn [m_msg m_key pk_log].
          exists (backup (cfg k) s'). split; [apply in_or_app; right; left; reflexivity|].
          cbn [backup d_phase d_high_vote d_view]. auto.
    - (* another persist followed by new-view / timeout messages *)
      pose proof (qeff_quiet _ _ _ _ Hq) as Hqq.
      destruct Hos as (Hhv' & Hcase & Hrest).
      pose proof (send_spec_is_send _ _ _ _ _ Hrest) as Hsnd.
      rewrite Hes, last_persist_app, (last_persist_quiet _ _ Hqq) in Hd'. cbn [last_persist fold_left] in Hd'.
      fold (last_persist rest (backup (cfg k) s')) in Hd'. rewrite (last_persist_sends _ _ Hsnd) in Hd'.
      assert (Hqb' : qb_run (r_store_next live0) qs = Some (r_store_next s')).
      { rewrite Hes, qb_run_app in Hqb. destruct (qb_run (r_store_next live0) qs) as [n1|]; [|discriminate].
        cbn [qb_run] in Hqb. rewrite (qb_run_sends _ _ _ s' n1 rest Hrest) in Hqb. exact Hqb. }
      destruct (core_step s a i0 live0 s' qs (PKOther rest) nd' G Hi0 Hlk Hnx Hev Hq Hqb'
                  (conj Hhv' (conj Hcase Hrest))) as [a' G'].
      + exact Hd'.
      + rewrite Hl'. exact Ks'.
      + rewrite Hl'. exact Hfirst'.
      + rewrite Hl'. reflexivity.
      + apply (Hnot qs); auto. intros j0 Hin. rewrite Hes in Hin. apply in_app_or in Hin.
        destruct Hin as [Hin|[Hin|Hin]]; [exact Hin|discriminate|].
        rewrite Forall_forall in Hsnd. destruct (Hsnd _ Hin).
      + intros _. rewrite Hl', Hd'. split; [unfold dcore; cbn; auto|]. exists []. split; [constructor|reflexivity].
      + pose proof (sends_step _ a' (sends_of k rest) G') as G2.
        cbn [g_node g_soup g_plog g_qlog] in G2.
        destruct (sends_no_persist k rest Hsnd) as [Hp0 Hq0].
        exists a'. eapply ginv_ext; [| | | |apply G2]; cbn [absorb g_node g_soup g_plog g_qlog fst snd]; auto.
        * rewrite Hes, sends_of_app. destruct (quiet_no_sends k qs Hqq) as [-> _]. reflexivity.
        * rewrite Hes, persists_of_app. destruct (quiet_no_sends k qs Hqq) as [_ ->].
          cbn [persists_of flat_map app]. fold (persists_of k rest). rewrite Hp0. reflexivity.
        * rewrite Hes, queued_of_app. cbn [queued_of flat_map app]. fold (queued_of k rest).
          rewrite Hq0, app_nil_r. reflexivity.
        * intros m Hin. apply in_sends_of in Hin. destruct Hin as (x & Hx & ->). cbn [m_msg].
          rewrite Forall_forall in Hrest. specialize (Hrest _ Hx). cbn [send_spec] in Hrest.
          destruct x as [? ?|?|t|j0]; try contradiction.
          -- destruct Hrest as [_ ->]. cbn [kmsg]. intros q Hq2. cbn [thq] in Hq2.
             apply (kq_mono hon (g_soup s)); [apply incl_appl, incl_refl|].
             exact (proj2 (co_cqc _ _ _ _ Ks' q Hq2)).
          -- cbn [kmsg]. apply (kj_mono hon (g_soup s)); [apply incl_appl, incl_refl|exact Hrest].
        * intros m Hin. apply in_sends_of in Hin. destruct Hin as (x & Hx & ->). intros _ _.
          cbn [m_msg m_key]. rewrite Forall_forall in Hrest. specialize (Hrest _ Hx). cbn [send_spec] in Hrest.
          destruct x as [? ?|?|t|j0]; try contradiction; [|exact I].
          destruct Hrest as [Hpt ->]. cbn [tview thv thq vnum pk_log].
          exists (backup (cfg k) s'). split; [apply in_or_app; right; left; reflexivity|].
          cbn [backup d_phase d_high_vote d_view d_high_cqc]. auto.
  Qed.

  (* ---------- restarting a node from its durable state ---------- *)
  Definition fresh_node (k : Z) (d : durable) (f n : Z) : node :=
    {| n_live := rstart (cfg k) d f n; n_dur := d; n_alive := true; n_notify := None |}.

  Lemma reset_step s a i0 :
    ginv s a -> ahonest i0 ->
    let nd := g_node s (key i0) in
    ginv (absorb s (key i0) (fresh_node (key i0) (n_dur nd) (r_store_first (n_live nd)) (r_store_next (n_live nd)), [])) a.
  Proof.
    intros G Hi0 nd. set (k := key i0) in *.
    assert (Hk : hon k = true) by (apply honest_key; exact Hi0).
    pose proof (gi_node _ _ G k Hk) as NI. fold nd in NI.
    destruct (rstart_ok k (g_soup s) (n_dur nd) (r_store_first (n_live nd)) (r_store_next (n_live nd))
                (ni_dur _ _ _ _ NI) (ni_epoch _ _ _ _ NI)) as [Kc Hlk].
    set (ndX := fresh_node k (n_dur nd) (r_store_first (n_live nd)) (r_store_next (n_live nd))).
    assert (G' : ginv {| g_node := set_node (g_node s) k ndX; g_soup := g_soup s;
                         g_plog := g_plog s ++ []; g_qlog := g_qlog s ++ [] |} a).
    { destruct G as [I1 I2 I3 I4 I5 I6 I7 I8 I9]. split; cbn [g_node g_soup g_plog g_qlog]; rewrite ?app_nil_r; auto.
      - intros k0 Hh. destruct (Z.eq_dec k0 k) as [->|Hne].
        + rewrite set_node_same. destruct NI as [N1 N2 N3 N4 N5 N6 N7 N8].
          split; cbn [ndX fresh_node n_live n_dur n_alive n_notify]; auto.
          intros j Hj. discriminate.
        + rewrite set_node_other by exact Hne. auto.
      - intros i Hi. destruct (Nat.eq_dec i i0) as [->|Hne].
        + fold k. rewrite set_node_same. apply I7. exact Hi.
        + rewrite set_node_other by (apply key_neq; assumption). apply I7. exact Hi. }
    eapply ginv_ext; [| | | |exact G']; cbn [absorb g_node g_soup g_plog g_qlog fst snd sends_of persists_of queued_of flat_map]; auto.
    apply app_nil_r.
  Qed.

  Lemma boot_step s a i0 d f n :
    ginv s a -> ahonest i0 ->
    g_node s (key i0) = fresh_node (key i0) d f n ->
    exists a', ginv (absorb s (key i0) (node_boot (cfg (key i0)) d f n)) a'.
  Proof.
    intros G Hi0 Hnode. set (k := key i0) in *.
    assert (Hk : hon k = true) by (apply honest_key; exact Hi0).
    pose proof (gi_node _ _ G k Hk) as NI. rewrite Hnode in NI.
    destruct NI as [N1 N2 N3 N4 N5 N6 N7 N8]. cbn [fresh_node n_live n_dur n_alive n_notify] in *.
    unfold node_boot.
    pose proof (rprologue_Sum (cfg k) hon (g_soup s) (rstart (cfg k) d f n) N1) as HS.
    destruct (rprologue (cfg k) (rstart (cfg k) d f n)) as [[s1 es] r] eqn:Ep.
    destruct (apply_effects d n es) as [d1 n1] eqn:Eae.
    apply (full_step s a i0 (rstart (cfg k) d f n) s1 es r _ n G Hi0); fold k; rewrite ?Hnode;
      cbn [fresh_node n_live n_dur n_alive n_notify]; auto.
    - rewrite Eae. reflexivity.
    - intros Hok Hd. destruct r; cbn in Hok, Hd; try discriminate; contradiction.
    - intros j Hj. right. apply last_notify_in. exact Hj.
  Qed.

  (* ---------- a crash at the persist point of a handler invocation ---------- *)
  Lemma prefix_step s a i0 s' es r pre jj applied :
    ginv s a -> ahonest i0 ->
    let nd := g_node s (key i0) in
    n_alive nd = true ->
    Sum (cfg (key i0)) hon (g_soup s) (n_live nd) (s', es, r) ->
    cut_at_persist es jj applied = Some pre ->
    exists a', ginv (absorb s (key i0)
      (fresh_node (key i0) (fst (apply_effects (n_dur nd) (r_store_next (n_live nd)) pre))
                  (r_store_first (n_live nd)) (snd (apply_effects (n_dur nd) (r_store_next (n_live nd)) pre)), pre)) a'.
  Proof.
    intros G Hi0 nd Hal (Hev & Hqb & Ht) Hcut. set (k := key i0) in *.
    assert (Hk : hon k = true) by (apply honest_key; exact Hi0).
    pose proof (gi_node _ _ G k Hk) as NI. fold nd in NI.
    pose proof (ev_ok _ _ _ _ _ Hev) as Ks'.
    pose proof (ni_link _ _ _ _ NI Hal) as Hlk.
    assert (Hgen : forall qs d rest pk, es = qs ++ EPersist d :: rest -> d = backup (cfg k) s' ->
              Forall (qeff (cfg k) hon (g_soup s)) qs -> Forall is_send rest ->
              pk_spec k (g_soup s) (n_live nd) s' pk -> pk <> PKNone ->
              exists a', ginv (absorb s k
                (fresh_node k (fst (apply_effects (n_dur nd) (r_store_next (n_live nd)) pre))
                   (r_store_first (n_live nd)) (snd (apply_effects (n_dur nd) (r_store_next (n_live nd)) pre)), pre)) a').
    { intros qs d rest pk Hes Hd Hq Hsnd Hpk Hne.
      pose proof (qeff_quiet _ _ _ _ Hq) as Hqq.
      rewrite Hes in Hcut. destruct (cut_one_persist _ _ _ _ _ _ Hqq Hsnd Hcut) as (_ & Hpre).
      assert (Hqb' : qb_run (r_store_next (n_live nd)) qs = Some (r_store_next s')).
      { rewrite Hes, qb_run_app in Hqb. destruct (qb_run (r_store_next (n_live nd)) qs) as [n1|]; [|discriminate].
        cbn [qb_run] in Hqb. clear - Hqb Hsnd. revert Hqb. induction Hsnd as [|x rest Hx _ IH]; cbn [qb_run]; [auto|].
        destruct x; try destruct Hx. exact IH. }
      assert (Hnext : snd (apply_effects (n_dur nd) (r_store_next (n_live nd)) pre) = r_store_next s').
      { apply (qb_run_apply pre). rewrite Hpre, qb_run_app, Hqb'. destruct applied; reflexivity. }
      assert (Hdur : fst (apply_effects (n_dur nd) (r_store_next (n_live nd)) pre) =
                     if applied then d else n_dur nd).
      { rewrite apply_effects_last, Hpre, last_persist_app, (last_persist_quiet _ _ Hqq).
        destruct applied; reflexivity. }
      rewrite Hnext, Hdur.
      destruct applied.
      - (* the write was applied *)
        assert (Dok : dur_ok (g_soup s) d).
        { rewrite Hd. split; cbn [backup d_high_cqc d_high_tqc];
            [intros q Hq2; exact (co_cqc _ _ _ _ Ks' q Hq2)|intros t Ht2; exact (co_tqc _ _ _ _ Ks' t Ht2)]. }
        assert (Eok : epoch_ok d) by (left; rewrite Hd; reflexivity).
        destruct (rstart_ok k (g_soup s) d (r_store_first (n_live nd)) (r_store_next s') Dok Eok) as [Kc Hlk2].
        destruct (core_step s a i0 (n_live nd) s' qs pk
                    (fresh_node k d (r_store_first (n_live nd)) (r_store_next s')) G Hi0 Hlk eq_refl Hev Hq Hqb' Hpk)
          as [a' G']; cbn [fresh_node n_live n_dur n_alive n_notify]; auto.
        + destruct pk; [congruence|exact Hd|exact Hd].
        + cbn. apply (ni_first _ _ _ _ NI).
        + intros j Hj. discriminate.
        + exists a'. eapply ginv_ext; [| | | |exact G']; cbn [absorb g_node g_soup g_plog g_qlog fst snd]; auto.
          * rewrite Hpre, sends_of_app. destruct (quiet_no_sends k qs Hqq) as [-> _].
            cbn [sends_of flat_map app]. apply app_nil_r.
          * rewrite Hpre, persists_of_app. destruct (quiet_no_sends k qs Hqq) as [_ ->].
            cbn [persists_of flat_map app]. destruct pk; [congruence| |]; cbn [pk_log]; rewrite Hd; reflexivity.
          * rewrite Hpre, queued_of_app. cbn [queued_of flat_map app]. rewrite app_nil_r. reflexivity.
      - (* the write was lost *)
        destruct (rstart_ok k (g_soup s) (n_dur nd) (r_store_first (n_live nd)) (r_store_next s')
                    (ni_dur _ _ _ _ NI) (ni_epoch _ _ _ _ NI)) as [Kc Hlk2].
        destruct (core_step s a i0 (n_live nd) s' qs PKNone
                    (fresh_node k (n_dur nd) (r_store_first (n_live nd)) (r_store_next s')) G Hi0 Hlk eq_refl Hev Hq Hqb' I)
          as [a' G']; cbn [fresh_node n_live n_dur n_alive n_notify]; auto.
        + cbn. apply (ni_first _ _ _ _ NI).
        + intros j Hj. discriminate.
        + exists a'. eapply ginv_ext; [| | | |exact G']; cbn [absorb g_node g_soup g_plog g_qlog fst snd pk_log]; auto.
          * rewrite Hpre, app_nil_r. destruct (quiet_no_sends k qs Hqq) as [-> _]. apply app_nil_r.
          * rewrite Hpre, app_nil_r. destruct (quiet_no_sends k qs Hqq) as [_ ->]. reflexivity.
          * rewrite Hpre, app_nil_r. reflexivity. }
    destruct Ht as [(Hq & _)|[(qs & c & j & Hes & Hq & Hvs)|(qs & rest & Hes & Hq & Hos)]].
    - rewrite (cut_quiet_none _ _ _ (qeff_quiet _ _ _ _ Hq)) in Hcut. discriminate.
    - apply (Hgen qs (backup (cfg k) s') [ESend (MCommit c)] (PKVote c j)); auto.
      + repeat constructor.
      + discriminate.
    - apply (Hgen qs (backup (cfg k) s') rest (PKOther rest)); auto.
      + destruct Hos as (_ & _ & Hrest). eapply send_spec_is_send; exact Hrest.
      + discriminate.
  Qed.

  (* ---------- block sync ---------- *)
  Lemma sync_Sum k soup s n h q :
    certs_ok (cfg k) hon soup s -> GQ soup q -> hnum (cprop (qmsg q)) = n -> hpay (cprop (qmsg q)) = h ->
    Sum (cfg k) hon soup s (rstep_t (cfg k) s (ISync n h)).
  Proof.
    intros K Hq Hn Hh. unfold rstep_t. cbn [rstep].
    destruct (r_store_next s =? n) eqn:E.
    - unfold Sum. split; [apply ev_same; [exact K|unfold same_certs; cbn; auto]|]. split.
      + cbn [qb_run]. rewrite E. reflexivity.
      + left. split; [|right; ce]. constructor; [|constructor]. cbn [qeff]. exists q. auto.
    - unfold hret. apply Sum_ret. exact K.
  Qed.

  (* ---------- every transition preserves the invariant ---------- *)
  Lemma input_ok_msg s a m : ginv s a -> In m (g_soup s) -> input_ok hon (g_soup s) (IMsg m).
  Proof.
    intros G Hin. cbn [input_ok]. split; [exact (gi_soup _ _ G m Hin)|].
    intros Hs _. unfold sent. destruct m as [mk ms mm]. cbn [m_sig_ok m_key m_msg] in *. subst ms. exact Hin.
  Qed.

  Lemma stops_dead (r : outcome rerr unit) : negb (stops r) = true -> ~ deadr r.
  Proof.
    intros H Hd. destruct r as [x|err|p]; cbn in *; [contradiction| |discriminate].
    destruct err; cbn in *; try contradiction; discriminate.
  Qed.

  Lemma input_step s a i0 i :
    ginv s a -> ahonest i0 -> n_alive (g_node s (key i0)) = true ->
    Sum (cfg (key i0)) hon (g_soup s) (n_live (g_node s (key i0)))
        (rstep_t (cfg (key i0)) (n_live (g_node s (key i0))) i) ->
    exists a', ginv (absorb s (key i0) (node_input (cfg (key i0)) (g_node s (key i0)) i)) a'.
  Proof.
    intros G Hi0 Hal HS. set (k := key i0) in *. set (nd := g_node s k) in *.
    assert (Hk : hon k = true) by (apply honest_key; exact Hi0).
    pose proof (gi_node _ _ G k Hk) as NI. fold nd in NI.
    unfold node_input. destruct (rstep_t (cfg k) (n_live nd) i) as [[s' es] r].
    destruct (apply_effects (n_dur nd) (r_store_next (n_live nd)) es) as [d' n'] eqn:Eae.
    apply (full_step s a i0 (n_live nd) s' es r _ (r_store_next (n_live nd)) G Hi0); fold k; fold nd;
      cbn [n_live n_dur n_alive n_notify]; auto.
    - apply (ni_link _ _ _ _ NI Hal).
    - apply (ni_first _ _ _ _ NI).
    - rewrite Eae. reflexivity.
    - apply stops_dead.
    - intros j Hj. unfold notify_upd in Hj. destruct (last_notify es) as [j'|] eqn:El.
      + inversion Hj; subst. right. apply last_notify_in. exact El.
      + left. exact Hj.
  Qed.

  Lemma absorb_twice s k x1 es1 x2 es2 a :
    ginv (absorb (absorb s k (x1, es1)) k (x2, es2)) a -> ginv (absorb s k (x2, es1 ++ es2)) a.
  Proof.
    apply ginv_ext; cbn [absorb g_node g_soup g_plog g_qlog fst snd].
    - intros k0 _. unfold set_node. destruct (k0 =? k); reflexivity.
    - rewrite sends_of_app, app_assoc. reflexivity.
    - rewrite persists_of_app, app_assoc. reflexivity.
    - rewrite queued_of_app, app_assoc. reflexivity.
  Qed.

  Theorem pstep_inv s s' a : ginv s a -> pstep P s s' -> exists a', ginv s' a'.
  Proof.
    intros G Hs. destruct Hs as [s k m Hk Hal Hin|s k Hk Hal|s k i j applied x Hk Hal Hci Hcr|s k Hk
                                |s k n h q Hk Hal Hv Hkn Hn Hh|s k p j Hk Hal Hnt|s m [Ha1 Ha2]].
    - destruct (honestb_index P k Hk) as (i0 & Hi0 & <-).
      apply (input_step s a i0 (IMsg m) G Hi0 Hal).
      apply rstep_t_Sum; [reflexivity| |eapply input_ok_msg; eassumption].
      apply (ni_certs _ _ _ _ (gi_node _ _ G _ Hk)).
    - destruct (honestb_index P k Hk) as (i0 & Hi0 & <-).
      apply (input_step s a i0 ITimer G Hi0 Hal).
      apply rstep_t_Sum; [reflexivity| |exact I].
      apply (ni_certs _ _ _ _ (gi_node _ _ G _ Hk)).
    - destruct (honestb_index P k Hk) as (i0 & Hi0 & <-). set (k := key i0) in *. set (nd := g_node s k) in *.
      assert (HS : Sum (cfg k) hon (g_soup s) (n_live nd) (rstep_t (cfg k) (n_live nd) i)).
      { apply rstep_t_Sum; [reflexivity|apply (ni_certs _ _ _ _ (gi_node _ _ G _ Hk))|].
        destruct i as [m| |n h]; cbn [crash_input] in Hci; [eapply input_ok_msg; eassumption|exact I|contradiction]. }
      unfold node_crash in Hcr. destruct (rstep_t (cfg k) (n_live nd) i) as [[s' es] r].
      destruct (cut_at_persist es j applied) as [pre|] eqn:Ecut; [|discriminate].
      destruct (prefix_step s a i0 s' es r pre j applied G Hi0 Hal HS Ecut) as [a1 G1].
      fold k in G1. fold nd in G1.
      destruct (apply_effects (n_dur nd) (r_store_next (n_live nd)) pre) as [d' next'] eqn:Eae.
      cbn [fst snd] in G1.
      destruct (boot_step _ a1 i0 d' (r_store_first (n_live nd)) next' G1 Hi0) as [a2 G2].
      { cbn [absorb g_node fst]. apply set_node_same. }
      fold k in G2.
      destruct (node_boot (cfg k) d' (r_store_first (n_live nd)) next') as [nd' es1].
      inversion Hcr; subst x. exists a2. eapply absorb_twice. exact G2.
    - destruct (honestb_index P k Hk) as (i0 & Hi0 & <-). set (k := key i0) in *. set (nd := g_node s k) in *.
      pose proof (reset_step s a i0 G Hi0) as G1. cbv zeta in G1. fold k in G1. fold nd in G1.
      destruct (boot_step _ a i0 (n_dur nd) (r_store_first (n_live nd)) (r_store_next (n_live nd)) G1 Hi0) as [a2 G2].
      { cbn [absorb g_node fst]. apply set_node_same. }
      fold k in G2. unfold node_restart. fold nd.
      destruct (node_boot (cfg k) (n_dur nd) (r_store_first (n_live nd)) (r_store_next (n_live nd))) as [nd' es1].
      exists a2. apply (absorb_twice s k _ [] nd' es1 a2 G2).
    - destruct (honestb_index P k Hk) as (i0 & Hi0 & <-).
      apply (input_step s a i0 (ISync n h) G Hi0 Hal).
      apply (sync_Sum _ _ _ n h q); auto.
      + apply (ni_certs _ _ _ _ (gi_node _ _ G _ Hk)).
      + split; [exact Hv|apply cqc_knownb_kq; exact Hkn].
    - exists a. unfold add_msg. apply sends_step; [exact G| |].
      + intros m [<-|[]]. cbn [m_msg kmsg].
        apply (kj_mono hon (g_soup s)); [apply incl_appl, incl_refl|].
        exact (ni_notify _ _ _ _ (gi_node _ _ G k Hk) j Hnt).
      + intros m [<-|[]] _ _. exact I.
    - exists a. unfold add_msg. apply sends_step; [exact G| |].
      + intros m0 [<-|[]]. apply (kmsg_mono hon (g_soup s)); [apply incl_appl, incl_refl|].
        apply sigs_known_kmsg. exact Ha2.
      + intros m0 [<-|[]] Hs Hh. rewrite (Ha1 Hs) in Hh. discriminate.
  Qed.

  (* ---------- the initial state ---------- *)
  Definition g0 : gstate :=
    {| g_node := fun k => fresh_node k durable_default first first;
       g_soup := []; g_plog := []; g_qlog := [] |}.

  Lemma ginv_g0 : ginv g0 init.
  Proof.
    split; cbn [g0 g_node g_soup g_plog g_qlog].
    - intros m [].
    - intros k c _ [].
    - intros k t _ [].
    - intros k n h [].
    - intros k Hk.
      destruct (rstart_ok k [] durable_default first first) as [Kc Hlk].
      { split; intros ? H; discriminate. }
      { right. reflexivity. }
      split; cbn [fresh_node n_live n_dur n_alive n_notify]; auto.
      + split; intros ? H; discriminate.
      + right. reflexivity.
      + exact I.
      + cbn. lia.
      + intros j H. discriminate.
    - apply ReachInit.
    - intros i Hi. unfold node_abs. cbn. auto.
    - intros i d c _ [].
    - intros i d _ [].
  Qed.

  Definition boot_all (ks : list Z) (s : gstate) : gstate :=
    fold_left (fun s k => absorb s k (boot0 P k)) ks s.

  Lemma boot_all_inv ks : NoDup ks -> (forall k, In k ks -> hon k = true) ->
    forall s a, ginv s a -> (forall k, In k ks -> g_node s k = fresh_node k durable_default first first) ->
    exists a', ginv (boot_all ks s) a'.
  Proof.
    induction ks as [|k ks IH]; intros Hnd Hh s a G Hfresh; cbn [boot_all fold_left]; [eauto|].
    inversion Hnd as [|? ? Hnin Hnd']; subst.
    destruct (honestb_index P k (Hh k (or_introl eq_refl))) as (i0 & Hi0 & Hk).
    destruct (boot_step s a i0 durable_default first first G Hi0) as [a1 G1].
    { rewrite Hk. apply Hfresh. left. reflexivity. }
    rewrite Hk in G1. apply (IH Hnd' (fun k' H => Hh k' (or_intror H)) _ a1 G1).
    intros k' Hin. cbn [absorb g_node]. rewrite set_node_other by (intros ->; contradiction).
    apply Hfresh. right. exact Hin.
  Qed.

  Lemma boot_all_parts ks : NoDup ks -> forall s,
    g_soup (boot_all ks s) = g_soup s ++ flat_map (fun k => sends_of k (snd (boot0 P k))) ks /\
    g_plog (boot_all ks s) = g_plog s ++ flat_map (fun k => persists_of k (snd (boot0 P k))) ks /\
    g_qlog (boot_all ks s) = g_qlog s ++ flat_map (fun k => queued_of k (snd (boot0 P k))) ks /\
    (forall k, In k ks -> g_node (boot_all ks s) k = fst (boot0 P k)).
  Proof.
    induction ks as [|k ks IH]; intros Hnd s; cbn [boot_all fold_left flat_map].
    - rewrite !app_nil_r. repeat split; auto. intros k [].
    - inversion Hnd as [|? ? Hnin Hnd']; subst.
      destruct (IH Hnd' (absorb s k (boot0 P k))) as (H1 & H2 & H3 & H4).
      fold (boot_all ks (absorb s k (boot0 P k))).
      rewrite H1, H2, H3. cbn [absorb g_soup g_plog g_qlog]. rewrite <- !app_assoc.
      repeat split; auto. intros k' [<-|Hin]; [|auto].
      clear - Hnin. revert s. induction ks as [|k1 ks IH]; intros s; cbn [boot_all fold_left].
      + cbn [absorb g_node]. apply set_node_same.
      + fold (boot_all ks (absorb (absorb s k (boot0 P k)) k1 (boot0 P k1))).
        assert (Hn1 : ~ In k ks) by (intros H; apply Hnin; right; exact H).
        assert (Hne : k <> k1) by (intros ->; apply Hnin; left; reflexivity).
        specialize (IH Hn1).
        (* the node of k is not touched by the later boots *)
        assert (Hgen : forall ks0 s0, ~ In k ks0 -> g_node (boot_all ks0 s0) k = g_node s0 k).
        { clear. induction ks0 as [|k2 ks0 IH0]; intros s0 Hn0; cbn [boot_all fold_left]; [reflexivity|].
          fold (boot_all ks0 (absorb s0 k2 (boot0 P k2))). rewrite IH0 by (intros H; apply Hn0; right; exact H).
          cbn [absorb g_node]. apply set_node_other. intros ->. apply Hn0. left. reflexivity. }
        rewrite Hgen by exact Hn1. cbn [absorb g_node]. rewrite set_node_other by exact Hne.
        apply set_node_same.
  Qed.

  Lemma hon_in_keys k : hon k = true -> In k (honest_keys P).
  Proof.
    intros H. unfold honest_keys. apply filter_In. split; [|exact H].
    unfold honestb in H. apply andb_true_iff in H. destruct H as [Hm _].
    unfold is_member in Hm. apply existsb_exists in Hm. destruct Hm as (m & Hin & Hk).
    apply Z.eqb_eq in Hk. subst k. apply in_map. exact Hin.
  Qed.

  Theorem ginv_init : exists a, ginv (ginit P) a.
  Proof.
    assert (Hnd : NoDup (honest_keys P)) by (apply NoDup_filter; apply HP).
    destruct (boot_all_inv (honest_keys P) Hnd) with (s := g0) (a := init) as [a G].
    - intros k Hk. apply filter_In in Hk. apply Hk.
    - exact ginv_g0.
    - intros k _. reflexivity.
    - exists a. destruct (boot_all_parts (honest_keys P) Hnd g0) as (H1 & H2 & H3 & H4).
      eapply ginv_ext; [| | | |exact G]; cbn [ginit g_node g_soup g_plog g_qlog].
      + intros k Hk. symmetry. apply H4. apply hon_in_keys. exact Hk.
      + rewrite H1. reflexivity.
      + rewrite H2. reflexivity.
      + rewrite H3. reflexivity.
  Qed.

  Theorem preach_inv s : preach P s -> exists a, ginv s a.
  Proof.
    induction 1 as [|s s' _ [a G] Hs]; [apply ginv_init|]. eapply pstep_inv; eassumption.
  Qed.
End Sim.
