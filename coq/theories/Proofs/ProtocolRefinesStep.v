(* Layer B, part 2: what one handler invocation of the replica model does, in the terms the
   refinement needs.  For every input whose certificates contain no forged honest signature
   (relative to a soup of sent messages), from a state whose certificates are good:
   - the effect list is [quiet..] or [quiet.. ; persist s' ; send vote] or
     [quiet.. ; persist s' ; sends of new-view / timeout messages], s' the final state;
   - a vote is for the block implied by a verifying justification of the previous view, strictly
     above the position of the state the handler started from;
   - the other persists are a move to a higher view (phase Prepare) or to phase Timeout;
   - the highest commit certificate evolves by processing good certificates only;
   - blocks are queued in order, each backed by a good certificate;
   - every certificate kept, cached, sent or handed to the proposer is good / known. *)
From Coq Require Import ZArith List Bool Lia Arith Permutation.
From EC Require Import Lib.Outcome Lib.U64 Lib.ListW Lib.Obs Model.Msgs Model.Replica Model.ReplicaRun
  Proofs.ListWFacts Proofs.MsgsFacts Proofs.QCProofs Proofs.TqcAssembly Proofs.ReplicaCrash
  Proofs.ProtocolRefinesAbs.
Import ListNotations.
Open Scope Z_scope.

(* ---------- small facts about the association lists of the caches ---------- *)
Lemma zget_in {A} (m : list (Z * A)) k a : zmap_get m k = Some a -> In (k, a) m.
Proof.
  induction m as [|[k1 a1] m IH]; cbn [zmap_get]; [discriminate|].
  destruct (k1 =? k) eqn:E.
  - intros H; inversion H; subst. apply Z.eqb_eq in E; subst. left; reflexivity.
  - intros H; right; auto.
Qed.

Lemma zget_set {A} (m : list (Z * A)) k a k' :
  zmap_get (zmap_set m k a) k' = if k =? k' then Some a else zmap_get m k'.
Proof.
  induction m as [|[k1 a1] m IH]; cbn [zmap_set zmap_get]; [reflexivity|].
  destruct (k1 =? k) eqn:E1.
  - apply Z.eqb_eq in E1; subst k1. cbn [zmap_get]. destruct (k =? k'); reflexivity.
  - destruct (k <? k1) eqn:E2; cbn [zmap_get].
    + reflexivity.
    + rewrite IH. destruct (k1 =? k') eqn:E3; [|reflexivity].
      apply Z.eqb_eq in E3; subst k'. rewrite Z.eqb_sym, E1. reflexivity.
Qed.

Lemma zset_in {A} (m : list (Z * A)) k a x : In x (zmap_set m k a) -> x = (k, a) \/ In x m.
Proof.
  induction m as [|[k1 a1] m IH]; cbn [zmap_set].
  - intros [H|[]]; left; auto.
  - destruct (k1 =? k).
    + intros [H|H]; [left; auto|right; right; exact H].
    + destruct (k <? k1).
      * intros [H|H]; [left; auto|right; exact H].
      * intros [H|H]; [right; left; exact H|].
        destruct (IH H) as [H1|H1]; [left; exact H1|right; right; exact H1].
Qed.

Lemma zget_filter {A} (p : Z -> bool) (m : list (Z * A)) k :
  zmap_get (filter (fun x => p (fst x)) m) k = if p k then zmap_get m k else None.
Proof.
  induction m as [|[k1 a1] m IH]; cbn [filter zmap_get fst]; [destruct (p k); reflexivity|].
  destruct (p k1) eqn:E1; cbn [zmap_get].
  - destruct (k1 =? k) eqn:E2; [|exact IH]. apply Z.eqb_eq in E2; subst. rewrite E1. reflexivity.
  - rewrite IH. destruct (k1 =? k) eqn:E2; [|reflexivity]. apply Z.eqb_eq in E2; subst.
    rewrite E1. reflexivity.
Qed.

Lemma retain_get' {A} (qcs : list (Z * A)) views key v :
  In (key, v) views -> zmap_get (retain_views qcs views) v = zmap_get qcs v.
Proof.
  intros Hin. unfold retain_views.
  rewrite (zget_filter (fun x => existsb (fun kv => snd kv =? x) views)).
  replace (existsb _ views) with true; [reflexivity|]. symmetry. apply existsb_exists.
  exists (key, v). split; [exact Hin|]. cbn [snd]. apply Z.eqb_refl.
Qed.

Lemma zset_has {A} (m : list (Z * A)) k a : In (k, a) (zmap_set m k a).
Proof. apply zget_in. rewrite zget_set, Z.eqb_refl. reflexivity. Qed.

Lemma cget_in b c q : cmap_get b c = Some q -> In (c, q) b.
Proof.
  induction b as [|[c1 q1] b IH]; cbn [cmap_get]; [discriminate|].
  destruct (commit_eqb c1 c) eqn:E.
  - apply commit_eqb_spec in E; subst. intros H; inversion H; subst. left; reflexivity.
  - intros H; right; auto.
Qed.

Lemma cget_set b c q : cmap_get (cmap_set b c q) c = Some q.
Proof.
  induction b as [|[c1 q1] b IH]; cbn [cmap_set cmap_get].
  - rewrite (decides_refl _ commit_eqb_spec); reflexivity.
  - destruct (commit_eqb c1 c) eqn:E; cbn [cmap_get].
    + rewrite (decides_refl _ commit_eqb_spec); reflexivity.
    + rewrite E. exact IH.
Qed.

Lemma cset_in b c q x : In x (cmap_set b c q) -> x = (c, q) \/ In x b.
Proof.
  induction b as [|[c1 q1] b IH]; cbn [cmap_set].
  - intros [H|[]]; left; auto.
  - destruct (commit_eqb c1 c).
    + intros [H|H]; [left; auto|right; right; exact H].
    + intros [H|H]; [right; left; exact H|]. destruct (IH H); [left|right; right]; assumption.
Qed.

Lemma tqmap_set_in' es m n i0 x : In x (tqmap_set es m n i0) -> In (fst x) (map fst es) \/ fst x = m.
Proof.
  induction es as [|[m1 s1] es IH]; cbn [tqmap_set].
  - intros [<-|[]]. right. reflexivity.
  - destruct (timeout_eqb m1 m).
    + intros [<-|H]; [left; left; reflexivity|left; right; apply in_map; exact H].
    + intros [<-|H]; [left; left; reflexivity|].
      destruct (IH H) as [H1|H1]; [left; right; exact H1|right; exact H1].
Qed.

(* the update of the highest commit certificate by process_commit_qc *)
Definition cq_upd (o : option cqc) (q : cqc) : option cqc :=
  match o with
  | None => Some q
  | Some cur => if vnum (cview (qmsg cur)) <? vnum (cview (qmsg q)) then Some q else o
  end.

Lemma cq_upd_ge o q : exists qf, cq_upd o q = Some qf /\ vnum (cview (qmsg q)) <= vnum (cview (qmsg qf)) /\
  (forall qa, o = Some qa -> vnum (cview (qmsg qa)) <= vnum (cview (qmsg qf))).
Proof.
  unfold cq_upd. destruct o as [cur|].
  - destruct (Z.ltb_spec (vnum (cview (qmsg cur))) (vnum (cview (qmsg q)))).
    + exists q. split; [reflexivity|]. split; [lia|]. intros qa Hq. inversion Hq; subst. lia.
    + exists cur. split; [reflexivity|]. split; [lia|]. intros qa Hq. inversion Hq; subst. lia.
  - exists q. split; [reflexivity|]. split; [lia|discriminate].
Qed.

Lemma chain_ge qs : forall o qa, o = Some qa ->
  exists qf, fold_left cq_upd qs o = Some qf /\ vnum (cview (qmsg qa)) <= vnum (cview (qmsg qf)).
Proof.
  induction qs as [|q qs IH]; intros o qa Ho; cbn [fold_left].
  - exists qa. split; [exact Ho|lia].
  - destruct (cq_upd_ge o q) as (qf & Hq & _ & Hle). specialize (Hle qa Ho).
    destruct (IH _ qf Hq) as (qf' & H1 & H2). exists qf'. split; [exact H1|lia].
Qed.

Section Walk.
  Variable cfg : config.
  Variable hon : Z -> bool.          (* honest keys *)
  Variable soup : list sgmsg.
  Hypothesis Hchk : cchk cfg = true.

  Notation g := (cg cfg).
  Notation ep := (ce cfg).
  Notation C := (cC cfg).

  (* ---------- no forged honest signature ---------- *)
  Definition sent (k : Z) (x : cmsg) : Prop := In {| m_key := k; m_sig_ok := true; m_msg := x |} soup.
  Definition kq (q : cqc) : Prop :=
    forall k c, In (k, RCommit c) (qagg q) -> hon k = true -> sent k (MCommit c).
  Definition ktm (t : timeout) : Prop := forall q, thq t = Some q -> kq q.
  Definition kt (t : tqc) : Prop :=
    (forall k x, In (k, TTimeout x) (tqagg t) -> hon k = true -> sent k (MTimeout x)) /\
    forall en, In en (tqmap t) -> ktm (fst en).
  Definition kj (j : justification) : Prop := match j with JCommit q => kq q | JTimeout t => kt t end.
  Definition kmsg (x : cmsg) : Prop :=
    match x with MProposal _ j | MNewView j => kj j | MCommit _ => True | MTimeout t => ktm t end.

  (* good certificates: verifying and without forged honest signatures *)
  Definition gq (q : cqc) : Prop := cqc_verify g ep C q = Ok tt /\ kq q.
  Definition gt (t : tqc) : Prop :=
    kt t /\ forall en q, In en (tqmap t) -> thq (fst en) = Some q -> cqc_verify g ep C q = Ok tt.
  Definition gj (j : justification) : Prop := match j with JCommit q => gq q | JTimeout t => gt t end.

  Lemma gj_of j : kj j -> justification_verify g ep C j = Ok tt -> gj j.
  Proof.
    intros Hk Hv. apply justification_verify_iff in Hv. destruct j as [q|t]; cbn [kj gj] in *.
    - split; assumption.
    - split; [exact Hk|]. intros en q Hin Hq. apply tqc_verify_iff in Hv.
      destruct Hv as (_ & Hen & _). rewrite Forall_forall in Hen. destruct (Hen en Hin) as (_ & _ & _ & Ht).
      apply timeout_verify_iff in Ht. destruct Ht as (_ & _ & Ht). auto.
  Qed.

  Lemma gt_high_qc t q : gt t -> high_qc t = Some q -> gq q.
  Proof.
    intros [[_ Hk] Hv] Hq. unfold high_qc in Hq.
    destruct (high_qc_from_spec (tqmap t) None _ Hq) as ([H|(en & q' & Hin & Hq' & Heq)] & _);
      [discriminate|]. inversion Heq; subst q'. split; [eapply Hv; eassumption|].
    exact (Hk en Hin q Hq').
  Qed.

  (* ---------- the certificates of a node state ---------- *)
  Record certs_ok (s : rstate) : Prop := {
    co_cqc : forall q, r_high_cqc s = Some q -> gq q;
    co_tqc : forall t, r_high_tqc s = Some t -> kt t;
    co_ccache : forall v b c q, In (v, b) (r_commit_qcs s) -> In (c, q) b -> cqc_inv C q /\ kq q;
    co_tcache : forall v t, In (v, t) (r_timeout_qcs s) -> gt t
  }.

  Record ev (s s' : rstate) : Prop := {
    ev_first : r_store_first s' = r_store_first s;
    ev_chain : exists qs, Forall gq qs /\ r_high_cqc s' = fold_left cq_upd qs (r_high_cqc s);
    ev_ok : certs_ok s'
  }.

  Lemma ev_refl s : certs_ok s -> ev s s.
  Proof. intros H. split; [reflexivity|exists []; split; [constructor|reflexivity]|exact H]. Qed.

  Lemma ev_trans a b c : ev a b -> ev b c -> ev a c.
  Proof.
    intros [F1 (q1 & G1 & C1) _] [F2 (q2 & G2 & C2) K2]. split; [congruence| |exact K2].
    exists (q1 ++ q2). split; [apply Forall_app; split; assumption|].
    rewrite fold_left_app, <- C1. exact C2.
  Qed.

  Lemma ev_cqc_ge s s' qa : ev s s' -> r_high_cqc s = Some qa ->
    exists qb, r_high_cqc s' = Some qb /\ vnum (cview (qmsg qa)) <= vnum (cview (qmsg qb)).
  Proof.
    intros [_ (qs & _ & Hc) _] Ha. rewrite Hc. apply chain_ge. exact Ha.
  Qed.

  (* a state change that touches no certificate and not the store *)
  Definition same_certs (s s' : rstate) : Prop :=
    r_high_cqc s' = r_high_cqc s /\ r_high_tqc s' = r_high_tqc s /\
    r_commit_qcs s' = r_commit_qcs s /\ r_timeout_qcs s' = r_timeout_qcs s /\
    r_store_first s' = r_store_first s.

  Lemma ev_same s s' : certs_ok s -> same_certs s s' -> ev s s'.
  Proof.
    intros [K1 K2 K3 K4] (H1 & H2 & H3 & H4 & H5). split; [exact H5| |].
    - exists []. split; [constructor|exact H1].
    - split; [rewrite H1; exact K1|rewrite H2; exact K2|rewrite H3; exact K3|rewrite H4; exact K4].
  Qed.

  (* ---------- effects ---------- *)
  Definition qeff (x : effect) : Prop :=
    match x with
    | EQueueBlock n h => exists q, gq q /\ hnum (cprop (qmsg q)) = n /\ hpay (cprop (qmsg q)) = h
    | ENotifyProposer j => kj j
    | _ => False
    end.

  (* blocks are queued at the store's next number *)
  Fixpoint qb_run (next : Z) (es : list effect) : option Z :=
    match es with
    | [] => Some next
    | EQueueBlock n _ :: es' => if next =? n then qb_run (n + 1) es' else None
    | _ :: es' => qb_run next es'
    end.

  Lemma qb_run_app a : forall next b, qb_run next (a ++ b) =
    match qb_run next a with Some n' => qb_run n' b | None => None end.
  Proof.
    induction a as [|x a IH]; intros next b; cbn [app qb_run]; [reflexivity|].
    destruct x; try apply IH. destruct (next =? n); [apply IH|reflexivity].
  Qed.

  Lemma qeff_quiet es : Forall qeff es -> Forall quiet_eff es.
  Proof. apply Forall_impl. intros x. destruct x; cbn; auto. Qed.

  (* ---------- quiet handlers ---------- *)
  Definition QH {A} (s : rstate) (x : hres A) : Prop :=
    let '(s1, es, r) := x in
    ev s s1 /\ core_eq s s1 /\ Forall qeff es /\ qb_run (r_store_next s) es = Some (r_store_next s1).

  Lemma QH_ret {A} s s1 (a : A) : certs_ok s -> same_certs s s1 -> core_eq s s1 ->
    r_store_next s1 = r_store_next s -> QH s (hret s1 a).
  Proof.
    intros K Hs Hc Hn. unfold QH, hret. split; [apply ev_same; assumption|]. split; [exact Hc|].
    split; [constructor|]. cbn [qb_run]. congruence.
  Qed.

  Lemma same_refl s : same_certs s s.
  Proof. unfold same_certs; auto. Qed.

  Lemma QH_bind {A B} s (x : hres A) (f : rstate -> A -> hres B) :
    QH s x -> (forall s1 a, ev s s1 -> core_eq s s1 -> QH s1 (f s1 a)) -> QH s (hbind x f).
  Proof.
    destruct x as [[s1 es1] r1]. unfold QH at 1. intros (He & Hc & Hq & Hn) Hf. unfold hbind.
    destruct r1 as [a|err|p]; try (unfold QH; auto).
    specialize (Hf s1 a He Hc). destruct (f s1 a) as [[s2 es2] r2]. unfold QH in *.
    destruct Hf as (He2 & Hc2 & Hq2 & Hn2). split; [eapply ev_trans; eassumption|].
    split; [eapply core_eq_trans; eassumption|]. split; [apply Forall_app; split; assumption|].
    rewrite qb_run_app, Hn. exact Hn2.
  Qed.

  Lemma QH_lift {A} s (y : outcome unit A) : certs_ok s -> QH s (lift s y).
  Proof.
    intros K. destruct y; unfold lift, hret, hfail, hpanic, QH;
      (split; [apply ev_refl; exact K|]; split; [apply core_eq_refl|]; split; [constructor|reflexivity]).
  Qed.

  Lemma QH_fail {A} s err : certs_ok s -> QH s (@hfail A s err).
  Proof.
    intros K. unfold hfail, QH.
    split; [apply ev_refl; exact K|]. split; [apply core_eq_refl|]. split; [constructor|reflexivity].
  Qed.

  Lemma QH_panic {A} s p : certs_ok s -> QH s (@hpanic A s p).
  Proof.
    intros K. unfold hpanic, QH.
    split; [apply ev_refl; exact K|]. split; [apply core_eq_refl|]. split; [constructor|reflexivity].
  Qed.

  Lemma save_block_QH s q : certs_ok s -> gq q -> QH s (save_block cfg s q).
  Proof.
    intros K Hq. unfold save_block.
    destruct (cache_has _ _ _); [|apply QH_ret; auto using same_refl, core_eq_refl].
    destruct (r_store_next s <? _) eqn:E1.
    { unfold QH. split; [apply ev_refl; exact K|]. split; [apply core_eq_refl|]. split; [constructor|reflexivity]. }
    destruct (r_store_next s =? _) eqn:E2; [|apply QH_ret; auto using same_refl, core_eq_refl].
    unfold QH. split; [apply ev_same; [exact K|unfold same_certs; cbn; auto]|].
    split; [ce|]. split.
    - constructor; [|constructor]. cbn [qeff]. exists q. auto.
    - cbn [qb_run]. rewrite E2. reflexivity.
  Qed.

  Lemma certs_set_cqc s q : certs_ok s -> gq q -> certs_ok (set_high_cqc s (Some q)).
  Proof.
    intros [K1 K2 K3 K4] Hq. split; cbn [set_high_cqc r_high_cqc r_high_tqc r_commit_qcs r_timeout_qcs]; auto.
    intros q' H. inversion H; subst. exact Hq.
  Qed.

  Lemma process_commit_qc_QH s q : certs_ok s -> gq q -> QH s (process_commit_qc cfg s q).
  Proof.
    intros K Hq. unfold process_commit_qc.
    match goal with |- QH _ (if ?c then _ else _) => destruct c eqn:En end.
    - pose proof (save_block_QH (set_high_cqc s (Some q)) q (certs_set_cqc s q K Hq) Hq) as H.
      destruct (save_block cfg (set_high_cqc s (Some q)) q) as [[s1 es] r]. unfold QH in *.
      destruct H as (He & Hc & Hqe & Hn). split; [|split; [ce|split; [exact Hqe|exact Hn]]].
      eapply ev_trans; [|exact He]. split; [reflexivity| |apply certs_set_cqc; assumption].
      exists [q]. split; [constructor; [exact Hq|constructor]|].
      cbn [fold_left set_high_cqc r_high_cqc]. unfold cq_upd.
      destruct (r_high_cqc s) as [cur|]; [rewrite En|]; reflexivity.
    - apply QH_ret; auto using same_refl, core_eq_refl.
  Qed.

  (* after processing q the highest certificate is at least as high as q *)
  Lemma process_commit_qc_ge s q :
    exists qf, r_high_cqc (fst (fst (process_commit_qc cfg s q))) = Some qf /\
               vnum (cview (qmsg q)) <= vnum (cview (qmsg qf)).
  Proof.
    unfold process_commit_qc, save_block.
    destruct (r_high_cqc s) as [cur|] eqn:E.
    - destruct (Z.ltb_spec (vnum (cview (qmsg cur))) (vnum (cview (qmsg q)))).
      + exists q. split; [|lia].
        destruct (cache_has _ _ _); [|reflexivity]. destruct (_ <? _); [reflexivity|].
        destruct (_ =? _); reflexivity.
      + exists cur. split; [exact E|lia].
    - exists q. split; [|lia].
      destruct (cache_has _ _ _); [|reflexivity]. destruct (_ <? _); [reflexivity|].
      destruct (_ =? _); reflexivity.
  Qed.

  Lemma process_timeout_qc_QH s t : certs_ok s -> gt t -> QH s (process_timeout_qc cfg s t).
  Proof.
    intros K Ht. unfold process_timeout_qc. apply QH_bind.
    - destruct (high_qc t) as [q|] eqn:Eq.
      + apply process_commit_qc_QH; [exact K|]. eapply gt_high_qc; eassumption.
      + apply QH_ret; auto using same_refl, core_eq_refl.
    - intros s1 _ He Hc.
      match goal with |- QH _ (hret (if ?c then _ else _) _) => destruct c end;
        [|apply QH_ret; auto using same_refl, core_eq_refl; apply He].
      unfold hret, QH. split; [|split; [ce|split; [constructor|reflexivity]]].
      destruct He as [_ _ [K1 K2 K3 K4]]. split; [reflexivity|exists []; split; [constructor|reflexivity]|].
      split; cbn [set_high_tqc r_high_cqc r_high_tqc r_commit_qcs r_timeout_qcs]; auto.
      intros t' H. inversion H; subst. apply Ht.
  Qed.

  Lemma process_justification_QH s j : certs_ok s -> gj j -> QH s (process_justification cfg s j).
  Proof.
    intros K Hj. destruct j; cbn [process_justification gj] in *;
      [apply process_commit_qc_QH|apply process_timeout_qc_QH]; assumption.
  Qed.

  Definition proc (j : justification) : option cqc :=
    match j with JCommit q => Some q | JTimeout t => high_qc t end.
  Definition proc_le (j : justification) (o : option cqc) : Prop :=
    match proc j with
    | None => True
    | Some q => exists qf, o = Some qf /\ vnum (cview (qmsg q)) <= vnum (cview (qmsg qf))
    end.

  Lemma process_justification_ge s j : proc_le j (r_high_cqc (fst (fst (process_justification cfg s j)))).
  Proof.
    unfold proc_le. destruct j as [q|t]; cbn [proc process_justification].
    - apply process_commit_qc_ge.
    - destruct (high_qc t) as [q|] eqn:Eq; [|exact I]. unfold process_timeout_qc. rewrite Eq.
      destruct (process_commit_qc_ge s q) as (qf & H1 & H2).
      destruct (process_commit_qc cfg s q) as [[s1 es1] r1]. cbn [fst] in H1. unfold hbind.
      destruct r1; cbn [fst]; try (exists qf; split; assumption).
      unfold hret. cbn [fst].
      match goal with |- context [if ?c then _ else _] => destruct c end; cbn [set_high_tqc r_high_cqc];
        exists qf; split; assumption.
  Qed.

  (* ---------- complete handler invocations ---------- *)
  Definition vote_spec (s s' : rstate) (c : commit) (j : justification) : Prop :=
    kj j /\ justification_verify g ep C j = Ok tt /\
    @justification_view unit true j = Ok (cview c) /\
    spos s < spos s' /\ r_view s' = vnum (cview c) /\ r_phase s' = PCommit /\
    r_high_vote s' = Some c /\
    (exists n oh, @get_implied_block unit true C (cfirst cfg) j = Ok (n, oh) /\
                  hnum (cprop c) = n /\ forall h, oh = Some h -> hpay (cprop c) = h) /\
    proc_le j (r_high_cqc s').

  Definition send_spec (s' : rstate) (x : effect) : Prop :=
    match x with
    | ESend (MNewView j) => kj j
    | ESend (MTimeout t) =>
        r_phase s' = PTimeout /\
        t = {| tview := {| vgen := g; vepoch := ep; vnum := r_view s' |};
               thv := r_high_vote s'; thq := r_high_cqc s' |}
    | _ => False
    end.

  Definition other_spec (s s' : rstate) (rest : list effect) : Prop :=
    r_high_vote s' = r_high_vote s /\
    ((r_phase s' = Replica.Prepare /\ r_view s < r_view s') \/
     (r_phase s' = PTimeout /\ r_view s' = r_view s)) /\
    Forall (send_spec s') rest.

  Definition TAIL (s s' : rstate) (es : list effect) (r : outcome rerr unit) : Prop :=
    (Forall qeff es /\ (deadr r \/ core_eq s s'))
    \/ (exists qs c j, es = qs ++ [EPersist (backup cfg s'); ESend (MCommit c)] /\
          Forall qeff qs /\ vote_spec s s' c j)
    \/ (exists qs rest, es = qs ++ EPersist (backup cfg s') :: rest /\
          Forall qeff qs /\ other_spec s s' rest).

  Definition Sum (s : rstate) (x : hres unit) : Prop :=
    let '(s', es, r) := x in
    ev s s' /\ qb_run (r_store_next s) es = Some (r_store_next s') /\ TAIL s s' es r.

  Lemma TAIL_core s0 s s' es r : core_eq s0 s -> TAIL s s' es r -> TAIL s0 s' es r.
  Proof.
    intros Hc [(Hq & Hd)|[(qs & c & j & He & Hq & Hv)|(qs & rest & He & Hq & Ho)]].
    - left. split; [exact Hq|]. destruct Hd as [Hd|Hd]; [left; exact Hd|right].
      eapply core_eq_trans; eassumption.
    - right; left. exists qs, c, j. split; [exact He|]. split; [exact Hq|].
      unfold vote_spec in *. rewrite (core_eq_spos _ _ Hc) in Hv. exact Hv.
    - right; right. exists qs, rest. split; [exact He|]. split; [exact Hq|].
      unfold other_spec in *. destruct Hc as (H1 & H2 & H3). rewrite H1, H3 in Ho. exact Ho.
  Qed.

  Lemma TAIL_prefix s s' qs es r : Forall qeff qs -> TAIL s s' es r -> TAIL s s' (qs ++ es) r.
  Proof.
    intros Hq [(Hq2 & Hd)|[(qs2 & c & j & -> & Hq2 & Hv)|(qs2 & rest & -> & Hq2 & Ho)]].
    - left. split; [apply Forall_app; split; assumption|exact Hd].
    - right; left. exists (qs ++ qs2), c, j. rewrite app_assoc. split; [reflexivity|].
      split; [apply Forall_app; split; assumption|exact Hv].
    - right; right. exists (qs ++ qs2), rest. rewrite app_assoc. split; [reflexivity|].
      split; [apply Forall_app; split; assumption|exact Ho].
  Qed.

  Lemma Sum_prefix s s1 es1 s2 es2 r :
    ev s s1 -> core_eq s s1 -> Forall qeff es1 -> qb_run (r_store_next s) es1 = Some (r_store_next s1) ->
    Sum s1 (s2, es2, r) -> Sum s (s2, es1 ++ es2, r).
  Proof.
    intros He Hc Hq Hn (He2 & Hn2 & Ht). unfold Sum. split; [eapply ev_trans; eassumption|].
    split; [rewrite qb_run_app, Hn; exact Hn2|]. apply TAIL_prefix; [exact Hq|].
    eapply TAIL_core; eassumption.
  Qed.

  Lemma Sum_rebase s s1 x :
    ev s s1 -> core_eq s s1 -> r_store_next s1 = r_store_next s -> Sum s1 x -> Sum s x.
  Proof.
    intros He Hc Hn H. destruct x as [[s2 es2] r].
    apply (Sum_prefix s s1 [] s2 es2 r He Hc); [constructor|cbn; congruence|exact H].
  Qed.

  Lemma Sum_bind {A} s (x : hres A) (f : rstate -> A -> hres unit) :
    QH s x ->
    (forall s1 a, ev s s1 -> core_eq s s1 -> snd x = Ok a -> Sum s1 (f s1 a)) ->
    Sum s (hbind x f).
  Proof.
    destruct x as [[s1 es1] r1]. unfold QH. cbn [snd]. intros (He & Hc & Hq & Hn) Hf. unfold hbind.
    destruct r1 as [a|err|p].
    - specialize (Hf s1 a He Hc eq_refl). destruct (f s1 a) as [[s2 es2] r2].
      eapply Sum_prefix; eassumption.
    - unfold Sum. split; [exact He|]. split; [exact Hn|]. left. split; [exact Hq|right; exact Hc].
    - unfold Sum. split; [exact He|]. split; [exact Hn|]. left. split; [exact Hq|left; exact I].
  Qed.

  Lemma Sum_quiet s s1 (r : outcome rerr unit) : certs_ok s -> same_certs s s1 -> core_eq s s1 ->
    r_store_next s1 = r_store_next s -> Sum s (s1, [], r).
  Proof.
    intros K Hs Hc Hn. unfold Sum. split; [apply ev_same; assumption|]. split; [cbn; congruence|].
    left. split; [constructor|right; exact Hc].
  Qed.

  Lemma Sum_quiet' s s1 (r : outcome rerr unit) : ev s s1 -> core_eq s s1 ->
    r_store_next s1 = r_store_next s -> Sum s (s1, [], r).
  Proof.
    intros He Hc Hn. unfold Sum. split; [exact He|]. split; [cbn; congruence|].
    left. split; [constructor|right; exact Hc].
  Qed.

  Lemma Sum_dead' s s1 p : ev s s1 -> r_store_next s1 = r_store_next s ->
    Sum s (s1, [], @Panic rerr unit p).
  Proof.
    intros He Hn. unfold Sum. split; [exact He|]. split; [cbn; congruence|].
    left. split; [constructor|left; exact I].
  Qed.

  Lemma Sum_fail s err : certs_ok s -> Sum s (hfail s err).
  Proof. intros K. apply Sum_quiet; auto using same_refl, core_eq_refl. Qed.
  Lemma Sum_ret s : certs_ok s -> Sum s (hret s tt).
  Proof. intros K. apply Sum_quiet; auto using same_refl, core_eq_refl. Qed.
  Lemma Sum_panic s p : certs_ok s -> Sum s (hpanic s p).
  Proof. intros K. apply Sum_quiet; auto using same_refl, core_eq_refl. Qed.

  (* a stopped replica: only the certificates and the store matter *)
  Lemma Sum_dead s s1 p : certs_ok s -> same_certs s s1 -> r_store_next s1 = r_store_next s ->
    Sum s (s1, [], @Panic rerr unit p).
  Proof.
    intros K Hs Hn. unfold Sum. split; [apply ev_same; assumption|]. split; [cbn; congruence|].
    left. split; [constructor|left; exact I].
  Qed.

  Lemma get_justification_from s j : get_justification s = Ok j ->
    match j with JCommit q => r_high_cqc s = Some q | JTimeout t => r_high_tqc s = Some t end.
  Proof.
    unfold get_justification.
    destruct (r_high_cqc s) as [q|], (r_high_tqc s) as [t|]; try discriminate;
      match goal with |- (if ?c then _ else _) = _ -> _ => destruct c end;
      intros H; inversion H; reflexivity.
  Qed.

  Lemma get_justification_kj s j : certs_ok s -> get_justification s = Ok j -> kj j.
  Proof.
    intros [K1 K2 _ _] H. apply get_justification_from in H. destruct j as [q|t]; cbn [kj].
    - apply (K1 q H).
    - apply (K2 t H).
  Qed.

  (* ---------- start_new_view ---------- *)
  Lemma start_new_view_Sum s v : certs_ok s -> r_view s < v -> Sum s (start_new_view cfg s v).
  Proof.
    intros K Hv. unfold start_new_view.
    set (s1 := set_phase (set_view s v) Replica.Prepare).
    assert (Hs1 : same_certs s s1) by (unfold same_certs, s1; cbn; auto).
    assert (K1 : certs_ok s1) by (apply (ev_ok _ _ (ev_same _ _ K Hs1))).
    destruct (get_justification s1) as [j|err|p] eqn:Ej.
    - pose proof (get_justification_kj s1 j K1 Ej) as Hkj.
      assert (Hgoal : forall s2, same_certs s s2 -> r_view s2 = v -> r_phase s2 = Replica.Prepare ->
                r_high_vote s2 = r_high_vote s -> r_store_next s2 = r_store_next s ->
                Sum s (s2, [ENotifyProposer j] ++ ([EPersist (backup cfg s2)] ++ [ESend (MNewView j)]), @Ok rerr unit tt)).
      { intros s2 Hs2 H2v H2p H2h H2n. unfold Sum. split; [apply ev_same; assumption|].
        split; [cbn; congruence|]. right; right. exists [ENotifyProposer j], [ESend (MNewView j)].
        split; [reflexivity|]. split; [constructor; [exact Hkj|constructor]|].
        split; [exact H2h|]. split; [left; split; [exact H2p|lia]|].
        constructor; [exact Hkj|constructor]. }
      unfold hbind, hemit, backup_state.
      destruct (r_high_cqc s1); apply Hgoal; try reflexivity; unfold same_certs; cbn; auto.
    - exfalso. eapply get_justification_no_err; eassumption.
    - unfold hpanic. apply Sum_dead; [exact K|exact Hs1|reflexivity].
  Qed.

  Lemma qb_run_sends s' next rest : Forall (send_spec s') rest -> qb_run next rest = Some next.
  Proof.
    induction 1 as [|x rest Hx _ IH]; [reflexivity|].
    destruct x; cbn [send_spec] in Hx; try contradiction. cbn [qb_run]. exact IH.
  Qed.

  (* ---------- start_timeout ---------- *)
  Lemma start_timeout_Sum s : certs_ok s -> Sum s (start_timeout cfg s).
  Proof.
    intros K. unfold start_timeout.
    set (s1 := set_phase s PTimeout).
    assert (Hs1 : same_certs s s1) by (unfold same_certs, s1; cbn; auto).
    assert (K1 : certs_ok s1) by (apply (ev_ok _ _ (ev_same _ _ K Hs1))).
    set (t := {| tview := {| vgen := g; vepoch := ep; vnum := r_view s1 |};
                 thv := r_high_vote s1; thq := r_high_cqc s1 |}).
    assert (Hgoal : forall rest r, Forall (send_spec s1) rest ->
              Sum s (s1, [EPersist (backup cfg s1)] ++ rest, r)).
    { intros rest r Hrest. unfold Sum. split; [apply ev_same; assumption|]. split.
      - cbn [app qb_run]. apply (qb_run_sends s1). exact Hrest.
      - right; right. exists [], rest. split; [reflexivity|]. split; [constructor|].
        split; [reflexivity|]. split; [right; split; reflexivity|exact Hrest]. }
    cbv beta iota zeta delta [hbind hemit backup_state hret hpanic hfail].
    destruct (r_view s1 =? 0); cbv beta iota.
    - apply (Hgoal [ESend (MTimeout t)]). constructor; [split; reflexivity|constructor].
    - destruct (get_justification s1) as [j|err|p] eqn:Ej; cbv beta iota.
      + apply (Hgoal [ESend (MNewView j); ESend (MTimeout t)]).
        constructor; [exact (get_justification_kj s1 j K1 Ej)|].
        constructor; [split; reflexivity|constructor].
      + exfalso. eapply get_justification_no_err; eassumption.
      + apply (Hgoal []). constructor.
  Qed.

  (* ---------- on_proposal ---------- *)
  Lemma commit_tail_Sum s0 s4 j vote :
    certs_ok s0 -> same_certs s0 s4 -> r_store_next s4 = r_store_next s0 ->
    kj j -> justification_verify g ep C j = Ok tt ->
    (forall s5, core_eq s4 s5 -> proc_le j (r_high_cqc s5) -> vote_spec s0 s5 vote j) ->
    Sum s0 (hbind (process_justification cfg s4 j) (fun s _ =>
            hbind (backup_state cfg s) (fun s _ => hemit s (ESend (MCommit vote))))).
  Proof.
    intros K0 Hs4 Hn4 Hkj Hjv Hspec.
    pose proof (ev_same _ _ K0 Hs4) as He04. pose proof (ev_ok _ _ He04) as K4.
    pose proof (process_justification_QH s4 j K4 (gj_of j Hkj Hjv)) as HQ.
    pose proof (process_justification_ge s4 j) as Hge.
    pose proof (okb_process_justification cfg s4 j) as Hok.
    destruct (process_justification cfg s4 j) as [[s5 es5] r5].
    unfold QH, okb in *; cbn [fst snd] in *. destruct HQ as (He & Hc & Hq & Hn).
    unfold hbind, backup_state, hemit. destruct r5 as [a|err|p].
    - unfold Sum. split; [eapply ev_trans; eassumption|]. split.
      + rewrite qb_run_app, <- Hn4, Hn. reflexivity.
      + right; left. exists es5, vote, j. split; [reflexivity|]. split; [exact Hq|].
        apply Hspec; assumption.
    - destruct err; try contradiction. unfold Sum. split; [eapply ev_trans; eassumption|].
      split; [rewrite <- Hn4; exact Hn|]. left. split; [exact Hq|left; exact I].
    - contradiction.
  Qed.

  Lemma on_proposal_Sum s key sig_ok payload j :
    certs_ok s -> kj j -> Sum s (on_proposal cfg s key sig_ok payload j).
  Proof.
    intros K Hkj. unfold on_proposal. apply Sum_bind; [apply QH_lift; exact K|].
    intros s1 mv He1 Hc1 Hok1. apply lift_ok in Hok1. rewrite Hchk in Hok1. cbv zeta.
    pose proof (ev_ok _ _ He1) as K1.
    destruct ((vnum mv <? r_view s1) || ((vnum mv =? r_view s1) && negb (phase_eqb (r_phase s1) Replica.Prepare)))
      eqn:Egate; [apply Sum_fail; exact K1|].
    destruct (negb (key =? cleader cfg (vnum mv))); [apply Sum_fail; exact K1|].
    destruct (negb sig_ok); [apply Sum_fail; exact K1|].
    destruct (justification_verify g ep C j) as [[]|err|p] eqn:Ejv;
      [|apply Sum_fail; exact K1|apply Sum_panic; exact K1].
    apply Sum_bind; [apply QH_lift; exact K1|].
    intros s2 [n oh] He2 Hc2 Hok2. apply lift_ok in Hok2. rewrite Hchk in Hok2.
    pose proof (ev_ok _ _ He2) as K2.
    destruct (n <? r_store_first s2); [apply Sum_fail; exact K2|].
    apply Sum_bind.
    - destruct oh as [h|]; destruct payload as [p|]; try (apply QH_fail; exact K2);
        try (apply QH_ret; auto using same_refl, core_eq_refl).
      destruct (cmaxpay cfg <? cpsize cfg p); [apply QH_fail; exact K2|].
      destruct ((0 <? n) && negb (n - 1 <? r_store_next s2)); [apply QH_fail; exact K2|].
      destruct (negb ((cfirst cfg <=? n) && cpok cfg n p)); [apply QH_fail; exact K2|].
      apply QH_ret; [exact K2|unfold same_certs; cbn; auto|ce|reflexivity].
    - intros s3 hash He3 Hc3 Hok3.
      assert (Hh : forall h, oh = Some h -> hash = h).
      { intros h ->. destruct payload; unfold hfail, hret in Hok3; cbn [snd] in Hok3;
          inversion Hok3; reflexivity. }
      pose proof (ev_ok _ _ He3) as K3.
      apply commit_tail_Sum; try assumption.
      + unfold same_certs; cbn; auto.
      + reflexivity.
      + intros s5 Hc5 Hle. unfold vote_spec. cbn [cview cprop hnum hpay].
        split; [exact Hkj|]. split; [exact Ejv|]. split; [exact Hok1|].
        destruct Hc5 as (H5v & H5p & H5h).
        cbn [r_view r_phase r_high_vote set_view set_phase set_high_vote] in H5v, H5p, H5h.
        split; [|split; [exact H5v|split; [exact H5p|split; [exact H5h|split; [|exact Hle]]]]].
        * unfold spos. rewrite H5v, H5p. cbn [rank].
          destruct Hc2 as (Hv2 & Hp2 & _). destruct Hc3 as (Hv3 & Hp3 & _).
          rewrite Hv3, Hp3, Hv2, Hp2.
          apply orb_false_iff in Egate. destruct Egate as (E1 & E2). apply Z.ltb_ge in E1.
          destruct (Z.eq_dec (vnum mv) (r_view s1)) as [Heq|Hne].
          -- rewrite (proj2 (Z.eqb_eq _ _) Heq) in E2. cbn [andb] in E2.
             destruct (r_phase s1); cbn in E2; try discriminate. cbn [rank]. lia.
          -- pose proof (rank_bounds (r_phase s1)). lia.
        * exists n, oh. split; [exact Hok2|]. split; [reflexivity|exact Hh].
  Qed.

  (* ---------- on_commit ---------- *)
  Lemma ev_caches s s1 : certs_ok s1 -> r_high_cqc s1 = r_high_cqc s ->
    r_store_first s1 = r_store_first s -> ev s s1.
  Proof.
    intros K1 Hq Hf. split; [exact Hf| |exact K1]. exists []. split; [constructor|exact Hq].
  Qed.

  Lemma on_commit_Sum s key sig_ok c :
    certs_ok s -> (sig_ok = true -> hon key = true -> sent key (MCommit c)) ->
    Sum s (on_commit cfg s key sig_ok c).
  Proof.
    intros K Hsent. unfold on_commit.
    destruct (negb (ccontains cfg key)); [apply Sum_fail; exact K|]. cbv zeta.
    destruct (vnum (cview c) <? r_view s) eqn:Eold; [apply Sum_fail; exact K|]. apply Z.ltb_ge in Eold.
    destruct (match zmap_get (r_commit_views s) key with Some v' => vnum (cview c) <=? v' | None => false end);
      [apply Sum_fail; exact K|].
    destruct sig_ok; cbn [negb]; [|apply Sum_fail; exact K].
    destruct (commit_verify g ep c) as [[]|err|p] eqn:Ev; [|apply Sum_fail; exact K|apply Sum_panic; exact K].
    set (v := vnum (cview c)) in *.
    set (bucket := match zmap_get (r_commit_qcs s) v with Some b => b | None => [] end).
    set (q0 := match cmap_get bucket c with Some q => q | None => cqc_new c C end).
    assert (Hb : forall c' q', In (c', q') bucket -> cqc_inv C q' /\ kq q').
    { unfold bucket. destruct (zmap_get (r_commit_qcs s) v) as [b|] eqn:Eb; [|intros ? ? []].
      intros c' q' Hin. eapply (co_ccache _ K); [apply zget_in; exact Eb|exact Hin]. }
    assert (Hq0 : cqc_inv C q0 /\ kq q0).
    { unfold q0. destruct (cmap_get bucket c) as [q|] eqn:Eq0; [apply (Hb c), cget_in; exact Eq0|].
      split; [apply cqc_new_inv|intros k' c' []]. }
    destruct (cqc_add g ep C q0 {| skey := key; smsg := c; ssig := (key, RCommit c) |}) as [q|err|p] eqn:Ea;
      [|apply Sum_panic; exact K|apply Sum_panic; exact K].
    destruct Hq0 as [Hinv0 Hk0]. destruct (cqc_add_inv _ _ _ _ _ _ Hinv0 Ea) as [Hinv Hm].
    pose proof (proj1 (cqc_add_ok_iff g ep C q0 _ q (proj1 Hinv0)) Ea) as (i & Hi & Hn & Hs & Hm0 & Hvo & Hqeq).
    cbn [skey smsg ssig] in *.
    assert (Hkq : kq q).
    { rewrite Hqeq. intros k' c' Hin Hh. cbn [qagg] in Hin. apply in_app_or in Hin.
      destruct Hin as [Hin|[Hin|[]]]; [exact (Hk0 _ _ Hin Hh)|]. inversion Hin as [[E1 E2]].
      rewrite <- E1 in Hh |- *. rewrite <- E2. apply Hsent; auto. }
    destruct (signers_weight C (qsigners q)) as [w|err|p] eqn:Ew;
      [|apply Sum_fail; exact K|apply Sum_panic; exact K].
    set (views := zmap_set (r_commit_views s) key v).
    set (qcs := retain_views (zmap_set (r_commit_qcs s) v (cmap_set bucket c q)) views).
    assert (Hqcs : forall v' b' c' q', In (v', b') qcs -> In (c', q') b' -> cqc_inv C q' /\ kq q').
    { intros v' b' c' q' Hin Hin'. unfold qcs, retain_views in Hin. apply filter_In in Hin.
      destruct Hin as [Hin _]. apply zset_in in Hin. destruct Hin as [Heq|Hin].
      - injection Heq as _ Eb'. rewrite Eb' in Hin'. apply cset_in in Hin'.
        destruct Hin' as [Heq'|Hin']; [injection Heq' as _ Eq'; rewrite Eq'; split; assumption|eapply Hb; eauto].
      - eapply (co_ccache _ K); eauto. }
    assert (Kc : forall qq, (forall v' b' c' q', In (v', b') qq -> In (c', q') b' -> cqc_inv C q' /\ kq q') ->
              certs_ok (set_commit_caches s views qq)).
    { intros qq Hqq. destruct K as [K1 K2 K3 K4].
      split; cbn [set_commit_caches r_high_cqc r_high_tqc r_commit_qcs r_timeout_qcs]; auto. }
    destruct (w <? quorum C) eqn:Eq.
    { apply Sum_quiet'; [|ce|reflexivity]. apply ev_caches; [apply Kc; exact Hqcs|reflexivity|reflexivity]. }
    assert (Hget : zmap_get qcs v = Some (cmap_set bucket c q)).
    { unfold qcs. rewrite (retain_get' _ _ key v) by (apply zset_has).
      rewrite zget_set, Z.eqb_refl. reflexivity. }
    rewrite Hget, cget_set.
    assert (Hgq : gq q).
    { split; [|exact Hkq]. apply cqc_verify_iff. destruct Hinv as [Hl Hp].
      split; [rewrite Hm, Hm0; exact Hvo|]. split; [exact Hl|]. split; [|exact Hp].
      unfold signers_weight in Ew. rewrite (proj2 (Nat.eqb_eq _ _) Hl) in Ew. inversion Ew; subst w.
      apply Z.ltb_ge in Eq. exact Eq. }
    set (s2 := set_commit_caches (set_commit_caches s views qcs) views (zmap_remove qcs v)).
    assert (K2 : certs_ok s2).
    { unfold s2. destruct K as [K1 K2 K3 K4].
      split; cbn [set_commit_caches r_high_cqc r_high_tqc r_commit_qcs r_timeout_qcs]; auto.
      intros v' b' c' q' Hin Hin'. unfold zmap_remove in Hin. apply filter_In in Hin.
      eapply Hqcs; [apply Hin|exact Hin']. }
    apply (Sum_rebase s s2); [apply ev_caches; [exact K2|reflexivity|reflexivity]|ce|reflexivity|].
    apply Sum_bind; [apply process_commit_qc_QH; assumption|].
    intros s3 _ He3 Hc3 _. apply Sum_bind; [apply QH_lift; exact (ev_ok _ _ He3)|].
    intros s4 nv He4 Hc4 Hok4. apply lift_ok in Hok4. rewrite Hchk in Hok4. apply num_next_chk in Hok4.
    apply start_new_view_Sum; [exact (ev_ok _ _ He4)|].
    destruct Hc3 as (H3 & _). destruct Hc4 as (H4 & _). rewrite H4, H3. unfold s2. cbn [set_commit_caches r_view]. lia.
  Qed.

  (* ---------- on_timeout ---------- *)
  Lemma gt_new vw : gt (tqc_new vw).
  Proof.
    unfold gt, kt, tqc_new; cbn [tqagg tqmap]. split; [split|]; intros; contradiction.
  Qed.

  Lemma on_timeout_Sum s key sig_ok t :
    certs_ok s -> ktm t -> (sig_ok = true -> hon key = true -> sent key (MTimeout t)) ->
    Sum s (on_timeout cfg s key sig_ok t).
  Proof.
    intros K Hkt Hsent. unfold on_timeout.
    destruct (negb (ccontains cfg key)); [apply Sum_fail; exact K|]. cbv zeta.
    destruct (vnum (tview t) <? r_view s) eqn:Eold; [apply Sum_fail; exact K|]. apply Z.ltb_ge in Eold.
    destruct (match zmap_get (r_timeout_views s) key with Some v' => vnum (tview t) <=? v' | None => false end);
      [apply Sum_fail; exact K|].
    destruct sig_ok; cbn [negb]; [|apply Sum_fail; exact K].
    destruct (timeout_verify g ep C t) as [[]|err|p] eqn:Ev; [|apply Sum_fail; exact K|apply Sum_panic; exact K].
    set (v := vnum (tview t)) in *.
    set (q0 := match zmap_get (r_timeout_qcs s) v with Some q => q | None => tqc_new (tview t) end).
    assert (Hq0 : gt q0).
    { unfold q0. destruct (zmap_get (r_timeout_qcs s) v) as [q|] eqn:Eq0; [|apply gt_new].
      eapply (co_tcache _ K). apply zget_in. exact Eq0. }
    destruct (tqc_add g ep C q0 {| skey := key; smsg := t; ssig := (key, TTimeout t) |}) as [q|err|p] eqn:Ea;
      [|apply Sum_panic; exact K|apply Sum_panic; exact K].
    assert (Hgq : gt q).
    { unfold tqc_add in Ea. cbn [skey smsg ssig] in Ea.
      destruct (cindex C key) as [i|]; [|discriminate].
      destruct (any_signed (tqmap q0) i) as [[|]|?|?]; cbn [bind] in Ea; try discriminate.
      destruct (negb (ksig_eqb tsigref_eqb (key, TTimeout t) (key, TTimeout t))); [discriminate|].
      destruct (negb (view_eqb (tview t) (tqview q0))); [discriminate|].
      rewrite Ev in Ea. cbn [map_err bind] in Ea. inversion Ea; subst q. clear Ea.
      destruct Hq0 as [[Ha Hm] Hv]. split; [split|]; cbn [tqagg tqmap].
      - intros k' x Hin Hh. apply in_app_or in Hin.
        destruct Hin as [Hin|[Hin|[]]]; [exact (Ha _ _ Hin Hh)|]. inversion Hin as [[E1 E2]].
        rewrite <- E1 in Hh |- *. rewrite <- E2. apply Hsent; auto.
      - intros en Hin. apply tqmap_set_in' in Hin. destruct Hin as [Hin|Hin].
        + apply in_map_iff in Hin. destruct Hin as (en' & Hf & Hin). rewrite <- Hf. apply Hm. exact Hin.
        + rewrite Hin. exact Hkt.
      - intros en q' Hin Hq'. apply tqmap_set_in' in Hin. destruct Hin as [Hin|Hin].
        + apply in_map_iff in Hin. destruct Hin as (en' & Hf & Hin). rewrite <- Hf in Hq'.
          eapply Hv; eassumption.
        + rewrite Hin in Hq'. apply timeout_verify_iff in Ev. destruct Ev as (_ & _ & Ev). auto. }
    destruct (tqc_weight C q) as [w|err|p] eqn:Ew; [|apply Sum_fail; exact K|apply Sum_panic; exact K].
    set (views := zmap_set (r_timeout_views s) key v).
    set (qcs := retain_views (zmap_set (r_timeout_qcs s) v q) views).
    assert (Hqcs : forall v' t', In (v', t') qcs -> gt t').
    { intros v' t' Hin. unfold qcs, retain_views in Hin. apply filter_In in Hin.
      destruct Hin as [Hin _]. apply zset_in in Hin. destruct Hin as [Heq|Hin].
      - injection Heq as _ Et'. rewrite Et'. exact Hgq.
      - eapply (co_tcache _ K); eauto. }
    assert (Kc : forall qq, (forall v' t', In (v', t') qq -> gt t') ->
              certs_ok (set_timeout_caches s views qq)).
    { intros qq Hqq. destruct K as [K1 K2 K3 K4].
      split; cbn [set_timeout_caches r_high_cqc r_high_tqc r_commit_qcs r_timeout_qcs]; auto. }
    destruct (w <? quorum C) eqn:Eq.
    { apply Sum_quiet'; [|ce|reflexivity]. apply ev_caches; [apply Kc; exact Hqcs|reflexivity|reflexivity]. }
    destruct (zmap_get qcs v) as [qc|] eqn:Eget.
    2:{ unfold hpanic. apply Sum_dead'; [|reflexivity].
        apply ev_caches; [apply Kc; exact Hqcs|reflexivity|reflexivity]. }
    assert (Hqc : gt qc) by (eapply Hqcs; apply zget_in; exact Eget).
    set (s2 := set_timeout_caches (set_timeout_caches s views qcs) views (zmap_remove qcs v)).
    assert (K2 : certs_ok s2).
    { unfold s2. destruct K as [K1 K2 K3 K4].
      split; cbn [set_timeout_caches r_high_cqc r_high_tqc r_commit_qcs r_timeout_qcs]; auto.
      intros v' t' Hin. unfold zmap_remove in Hin. apply filter_In in Hin.
      eapply Hqcs; apply Hin. }
    apply (Sum_rebase s s2); [apply ev_caches; [exact K2|reflexivity|reflexivity]|ce|reflexivity|].
    apply Sum_bind; [apply process_timeout_qc_QH; assumption|].
    intros s3 _ He3 Hc3 _. apply Sum_bind; [apply QH_lift; exact (ev_ok _ _ He3)|].
    intros s4 nv He4 Hc4 Hok4. apply lift_ok in Hok4. rewrite Hchk in Hok4. apply num_next_chk in Hok4.
    apply start_new_view_Sum; [exact (ev_ok _ _ He4)|].
    destruct Hc3 as (H3 & _). destruct Hc4 as (H4 & _). rewrite H4, H3. unfold s2. cbn [set_timeout_caches r_view]. lia.
  Qed.

  (* ---------- on_new_view ---------- *)
  Lemma on_new_view_Sum s key sig_ok j :
    certs_ok s -> kj j -> Sum s (on_new_view cfg s key sig_ok j).
  Proof.
    intros K Hkj. unfold on_new_view. apply Sum_bind; [apply QH_lift; exact K|].
    intros s1 mv He1 Hc1 Hok1. cbv zeta. pose proof (ev_ok _ _ He1) as K1.
    destruct ((vnum mv <? r_view s1) || ((vnum mv =? r_view s1) && negb (key =? cleader cfg (r_view s1))));
      [apply Sum_fail; exact K1|].
    destruct (negb (ccontains cfg key)); [apply Sum_fail; exact K1|].
    destruct (negb sig_ok); [apply Sum_fail; exact K1|].
    destruct (justification_verify g ep C j) as [[]|err|p] eqn:Ejv;
      [|apply Sum_fail; exact K1|apply Sum_panic; exact K1].
    apply Sum_bind; [apply process_justification_QH; [exact K1|apply gj_of; assumption]|].
    intros s2 _ He2 Hc2 _. pose proof (ev_ok _ _ He2) as K2.
    destruct (r_view s2 <? vnum mv) eqn:Ev.
    - apply Z.ltb_lt in Ev. apply start_new_view_Sum; assumption.
    - apply Sum_ret. exact K2.
  Qed.

  (* ---------- one iteration of the run loop ---------- *)
  Definition input_ok (i : rinput) : Prop :=
    match i with
    | IMsg m => kmsg (m_msg m) /\ (m_sig_ok m = true -> hon (m_key m) = true -> sent (m_key m) (m_msg m))
    | ITimer => True
    | ISync _ _ => False
    end.

  Lemma rstep_Sum s i : certs_ok s -> input_ok i -> Sum s (rstep cfg s i).
  Proof.
    intros K Hi. destruct i as [m| |n h]; cbn [rstep input_ok] in *.
    - destruct Hi as [Hk Hs]. destruct (m_msg m) as [p j|c|t|j]; cbn [kmsg] in Hk.
      + apply on_proposal_Sum; assumption.
      + apply on_commit_Sum; assumption.
      + apply on_timeout_Sum; assumption.
      + apply on_new_view_Sum; assumption.
    - apply start_timeout_Sum. exact K.
    - contradiction.
  Qed.

  Lemma TAIL_res s s' es r r' : (deadr r -> deadr r') -> TAIL s s' es r -> TAIL s s' es r'.
  Proof.
    intros Hd [(Hq & [H|H])|[H|H]].
    - left. split; [exact Hq|left; auto].
    - left. split; [exact Hq|right; exact H].
    - right; left; exact H.
    - right; right; exact H.
  Qed.

  Lemma rstep_t_Sum s i : certs_ok s -> input_ok i -> Sum s (rstep_t cfg s i).
  Proof.
    intros K Hi. unfold rstep_t. pose proof (rstep_Sum s i K Hi) as H.
    pose proof (rstep_shape cfg s i) as Hsh.
    destruct (rstep cfg s i) as [[s' es] r].
    destruct r as [a|err|p]; try exact H. destruct err; try exact H.
    (* the proposal missed its deadline: nothing was persisted or sent, the timer fires next *)
    assert (Hq : Forall quiet_eff es /\ core_eq s s').
    { unfold shape in Hsh. destruct Hsh as [(Hq & [Hd|Hc])|[(qs & c & Hx)|(qs & rest & Hx)]].
      - destruct Hd.
      - split; assumption.
      - destruct Hx as (_ & _ & _ & _ & _ & _ & [HR|HR]); [discriminate HR|destruct HR].
      - destruct Hx as (_ & _ & _ & _ & [HR|HR]); [discriminate HR|destruct HR]. }
    destruct Hq as (Hq & Hc). destruct H as (He & Hn & Ht).
    assert (Hqe : Forall qeff es).
    { destruct Ht as [(Hqe & _)|[(qs & c & j & -> & _)|(qs & rest & -> & _)]]; [exact Hqe| |];
        exfalso; apply Forall_app in Hq; destruct Hq as (_ & Hq); inversion Hq as [|? ? Hx _]; destruct Hx. }
    pose proof (start_timeout_Sum s' (ev_ok _ _ He)) as H2.
    destruct (start_timeout cfg s') as [[s2 es2] r2].
    assert (H3 : Sum s (s2, es ++ es2, r2)) by (eapply Sum_prefix; eassumption).
    destruct H3 as (He3 & Hn3 & Ht3). unfold Sum. split; [exact He3|]. split; [exact Hn3|].
    destruct r2 as [a|err|p]; exact Ht3.
  Qed.

  Lemma rprologue_Sum s : certs_ok s -> Sum s (rprologue cfg s).
  Proof.
    intros K. unfold rprologue. destruct (r_view s =? 0); [apply start_timeout_Sum|apply Sum_ret]; exact K.
  Qed.
End Walk.
