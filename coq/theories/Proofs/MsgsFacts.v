(* Basic facts about Model/Msgs.v: boolean equalities decide equality, multiset equality
   decides Permutation, bit vector operations. *)
From Coq Require Import ZArith List Bool Lia Permutation.
From EC Require Import Lib.Outcome Lib.U64 Lib.ListW Model.Msgs Proofs.ListWFacts.
Import ListNotations.
Open Scope Z_scope.

Definition decides {A} (f : A -> A -> bool) : Prop := forall x y, f x y = true <-> x = y.

Lemma view_eqb_spec : decides view_eqb.
Proof.
  intros [a b c] [a' b' c']; unfold view_eqb; cbn [vgen vepoch vnum].
  rewrite !andb_true_iff, !Z.eqb_eq. split.
  - intros [[-> ->] ->]; reflexivity.
  - intros H; inversion H; auto.
Qed.

Lemma header_eqb_spec : decides header_eqb.
Proof.
  intros [a b] [a' b']; unfold header_eqb; cbn [hnum hpay].
  rewrite !andb_true_iff, !Z.eqb_eq. split.
  - intros [-> ->]; reflexivity.
  - intros H; inversion H; auto.
Qed.

Lemma commit_eqb_spec : decides commit_eqb.
Proof.
  intros [v h] [v' h']; unfold commit_eqb; cbn [cview cprop].
  rewrite andb_true_iff, (view_eqb_spec v v'), (header_eqb_spec h h'). split.
  - intros [-> ->]; reflexivity.
  - intros H; inversion H; auto.
Qed.

Lemma sigref_eqb_spec : decides sigref_eqb.
Proof.
  intros [c|i] [c'|i']; cbn [sigref_eqb].
  - rewrite (commit_eqb_spec c c'). split; [intros ->; reflexivity|intros H; inversion H; reflexivity].
  - split; [discriminate|discriminate].
  - split; [discriminate|discriminate].
  - rewrite Z.eqb_eq. split; [intros ->; reflexivity|intros H; inversion H; reflexivity].
Qed.

Lemma bool_eqb_spec : decides Bool.eqb.
Proof. intros x y. apply Bool.eqb_true_iff. Qed.

Lemma list_eqb_spec {A} (f : A -> A -> bool) : decides f -> decides (list_eqb f).
Proof.
  intros Hf a. induction a as [|x a IH]; intros [|y b]; cbn [list_eqb].
  - tauto.
  - split; discriminate.
  - split; discriminate.
  - rewrite andb_true_iff, (Hf x y), (IH b). split.
    + intros [-> ->]; reflexivity.
    + intros H; inversion H; auto.
Qed.

Lemma opt_eqb_spec {A} (f : A -> A -> bool) : decides f -> decides (opt_eqb f).
Proof.
  intros Hf [x|] [y|]; cbn [opt_eqb].
  - rewrite (Hf x y). split; [intros ->; reflexivity|intros H; inversion H; reflexivity].
  - split; discriminate.
  - split; discriminate.
  - tauto.
Qed.

Lemma ksig_eqb_spec {A} (f : A -> A -> bool) : decides f -> decides (ksig_eqb f).
Proof.
  intros Hf [k x] [k' y]; unfold ksig_eqb; cbn [fst snd].
  rewrite andb_true_iff, Z.eqb_eq, (Hf x y). split.
  - intros [-> ->]; reflexivity.
  - intros H; inversion H; auto.
Qed.

Lemma cqc_eqb_spec : decides cqc_eqb.
Proof.
  intros [m s a] [m' s' a']; unfold cqc_eqb; cbn [qmsg qsigners qagg].
  rewrite !andb_true_iff, (commit_eqb_spec m m'), (list_eqb_spec _ bool_eqb_spec s s'),
    (list_eqb_spec _ (ksig_eqb_spec _ sigref_eqb_spec) a a'). split.
  - intros [[-> ->] ->]; reflexivity.
  - intros H; inversion H; auto.
Qed.

Lemma timeout_eqb_spec : decides timeout_eqb.
Proof.
  intros [v hv hq] [v' hv' hq']; unfold timeout_eqb; cbn [tview thv thq].
  rewrite !andb_true_iff, (view_eqb_spec v v'), (opt_eqb_spec _ commit_eqb_spec hv hv'),
    (opt_eqb_spec _ cqc_eqb_spec hq hq'). split.
  - intros [[-> ->] ->]; reflexivity.
  - intros H; inversion H; auto.
Qed.

Lemma tsigref_eqb_spec : decides tsigref_eqb.
Proof.
  intros [t|i] [t'|i']; cbn [tsigref_eqb].
  - rewrite (timeout_eqb_spec t t'). split; [intros ->; reflexivity|intros H; inversion H; reflexivity].
  - split; discriminate.
  - split; discriminate.
  - rewrite Z.eqb_eq. split; [intros ->; reflexivity|intros H; inversion H; reflexivity].
Qed.

Lemma decides_refl {A} (f : A -> A -> bool) : decides f -> forall x, f x x = true.
Proof. intros Hf x. apply Hf. reflexivity. Qed.

(* ---------- multiset equality ---------- *)

Lemma remove1_some {A} (f : A -> A -> bool) : decides f -> forall x l r,
  remove1 f x l = Some r -> Permutation l (x :: r).
Proof.
  intros Hf x l. induction l as [|y l IH]; intros r H; cbn [remove1] in H; [discriminate|].
  destruct (f x y) eqn:E.
  - apply Hf in E. subst y. inversion H; subst. reflexivity.
  - destruct (remove1 f x l) as [r'|] eqn:Er; [|discriminate]. inversion H; subst.
    rewrite (IH r' eq_refl). apply perm_swap.
Qed.

Lemma remove1_none {A} (f : A -> A -> bool) : decides f -> forall x l,
  remove1 f x l = None -> ~ In x l.
Proof.
  intros Hf x l. induction l as [|y l IH]; intros H; cbn [remove1] in H; [tauto|].
  destruct (f x y) eqn:E; [discriminate|].
  destruct (remove1 f x l) eqn:Er; [discriminate|].
  intros [<-|Hin].
  - rewrite (decides_refl f Hf y) in E. discriminate.
  - exact (IH eq_refl Hin).
Qed.

Lemma mset_eqb_spec {A} (f : A -> A -> bool) : decides f -> forall a b,
  mset_eqb f a b = true <-> Permutation a b.
Proof.
  intros Hf a. induction a as [|x a IH]; intros b; cbn [mset_eqb].
  - destruct b; split; try reflexivity; try discriminate.
    intros H. apply Permutation_nil in H. discriminate.
  - destruct (remove1 f x b) as [b'|] eqn:E.
    + rewrite IH. pose proof (remove1_some f Hf x b b' E) as Hp. split.
      * intros H. rewrite Hp. constructor. exact H.
      * intros H. rewrite Hp in H. apply Permutation_cons_inv in H. exact H.
    + split; [discriminate|]. intros H. exfalso.
      apply (remove1_none f Hf x b E). apply (Permutation_in _ H). left; reflexivity.
Qed.

(* ---------- bit vectors ---------- *)

Lemma bv_new_length n : length (bv_new n) = n.
Proof. apply repeat_length. Qed.

Lemma bv_set_length b : forall i, length (bv_set b i) = length b.
Proof. induction b as [|x b IH]; intros [|i]; cbn [bv_set length]; try reflexivity. rewrite IH; reflexivity. Qed.

Lemma weight_bv_new ws n : weight ws (bv_new n) = 0.
Proof.
  revert n. induction ws as [|w ws IH]; intros [|n]; cbn; try reflexivity. apply IH.
Qed.

Lemma selected_keys_bv_new C n : selected_keys C (bv_new n) = [].
Proof.
  revert n. induction C as [|m C IH]; intros [|n]; cbn; try reflexivity. apply IH.
Qed.

Lemma bv_none_spec b : bv_none b = true <-> Forall (fun x => x = false) b.
Proof.
  unfold bv_none. induction b as [|x b IH]; cbn [existsb].
  - split; [constructor|reflexivity].
  - destruct x; cbn [orb negb].
    + split; [discriminate|]. intros H; inversion H; discriminate.
    + rewrite IH. split; [intros H; constructor; [reflexivity|exact H]|intros H; inversion H; assumption].
Qed.

Lemma bv_none_weight ws b : bv_none b = true -> weight ws b = 0.
Proof.
  rewrite bv_none_spec. revert b. induction ws as [|w ws IH]; intros [|x b] H; cbn [weight]; try reflexivity.
  inversion H; subst. rewrite IH by assumption. reflexivity.
Qed.

(* cindex finds the position of the key *)
Lemma cindex_from_spec C : forall i k j, cindex_from i C k = Some j ->
  (i <= j)%nat /\ exists m, nth_error C (j - i) = Some m /\ mkey m = k.
Proof.
  induction C as [|m C IH]; intros i k j H; cbn [cindex_from] in H; [discriminate|].
  destruct (mkey m =? k) eqn:E.
  - inversion H; subst. split; [lia|]. exists m. rewrite Nat.sub_diag. split; [reflexivity|lia].
  - apply IH in H. destruct H as (Hle & m' & Hn & Hk). split; [lia|]. exists m'.
    replace (j - i)%nat with (S (j - S i)) by lia. split; assumption.
Qed.

Lemma cindex_spec C k j : cindex C k = Some j -> exists m, nth_error C j = Some m /\ mkey m = k.
Proof.
  intros H. apply cindex_from_spec in H. destruct H as (_ & m & Hn & Hk).
  rewrite Nat.sub_0_r in Hn. eauto.
Qed.

(* setting a clear bit adds exactly that member *)
Lemma selected_keys_set C : forall s i m, nth_error C i = Some m -> nth_error s i = Some false ->
  Permutation (selected_keys C (bv_set s i)) (mkey m :: selected_keys C s).
Proof.
  induction C as [|m0 C IH]; intros s i m HC Hs; [destruct i; discriminate|].
  destruct s as [|b s]; [destruct i; discriminate|].
  destruct i as [|i]; cbn [nth_error] in HC, Hs.
  - inversion HC; inversion Hs; subst. cbn [bv_set selected_keys]. reflexivity.
  - cbn [bv_set selected_keys]. destruct b.
    + rewrite (IH s i m HC Hs). apply perm_swap.
    + apply IH; assumption.
Qed.

Lemma weight_set ws : forall s i w, nth_error ws i = Some w -> nth_error s i = Some false ->
  weight ws (bv_set s i) = w + weight ws s.
Proof.
  induction ws as [|w0 ws IH]; intros s i w Hw Hs; [destruct i; discriminate|].
  destruct s as [|b s]; [destruct i; discriminate|].
  destruct i as [|i]; cbn [nth_error] in Hw, Hs.
  - inversion Hw; inversion Hs; subst. cbn [bv_set weight]. lia.
  - cbn [bv_set weight]. rewrite (IH s i w Hw Hs). lia.
Qed.
