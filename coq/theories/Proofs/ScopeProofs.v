(* C17 — theorems about the scope model: termination = no live task, no early return,
   cancellation, first-error-wins result, soundness of the trace acceptance. *)
From Coq Require Import ZArith List Bool Arith Lia.
From EC Require Import Lib.Obs Model.Scope Proofs.ScopeInv.
Import ListNotations.
Open Scope nat_scope.

Lemma cnt_false n f : (forall i, i < n -> f i = false) -> cnt f n = 0.
Proof. intros H. rewrite (cnt_ext f (fun _ => false) n H). clear. induction n; cbn; lia. Qed.

(* ---- run returns after all tasks ---- *)
Lemma terminated_iff_no_live_task p st s : inv1 p st -> s_started (sget st s) = true ->
  (s_terminated (sget st s) = true <-> forall t, scope_of p t = s -> holding (ph (tget st t)) = false).
Proof.
  intros I Hst. destruct (i_cnt _ _ I s) as (Hc & Ht). destruct (i_sok _ _ I s) as (_ & Hb & _).
  rewrite (Hb Hst). split.
  - intros H0. apply Nat.eqb_eq in H0. intros t Hs.
    destruct (Nat.lt_ge_cases t (length p)) as [Hlt|Hge].
    + assert (Hc0 : cancel_rc (sget st s) = 0).
      { destruct (Nat.ltb_spec 0 (cancel_rc (sget st s))) as [Hp|]; [|lia]. rewrite H0 in Ht.
        destruct (Nat.ltb_spec 0 (cancel_rc (sget st s))); cbn in Ht; lia. }
      assert (Hb0 : cnt (hb_at p st s) (length p) = 0) by lia.
      rewrite Hc0 in Hc. symmetry in Hc.
      pose proof (cnt_zero _ _ Hc t Hlt) as Z1. pose proof (cnt_zero _ _ Hb0 t Hlt) as Z2.
      unfold hm_at, hm in Z1. unfold hb_at, hb in Z2. rewrite Hs, Nat.eqb_refl in Z1, Z2. cbn in Z1, Z2.
      destruct (holding (ph (tget st t))); [|reflexivity]. destruct (gmain (tget st t)); cbn in *; congruence.
    + rewrite tget_out by (rewrite (i_lt _ _ I); exact Hge). reflexivity.
  - intros H. apply Nat.eqb_eq.
    assert (Z1 : cnt (hm_at p st s) (length p) = 0).
    { apply cnt_false. intros i _. unfold hm_at, hm. destruct (Nat.eqb_spec (scope_of p i) s); [|reflexivity].
      rewrite (H i) by assumption. reflexivity. }
    assert (Z2 : cnt (hb_at p st s) (length p) = 0).
    { apply cnt_false. intros i _. unfold hb_at, hb. destruct (Nat.eqb_spec (scope_of p i) s); [|reflexivity].
      rewrite (H i) by assumption. reflexivity. }
    rewrite Ht, Hc, Z1, Z2. reflexivity.
Qed.

Lemma ret_enabled_inv p st r res st' : exec p st (LRet r res) = Some st' ->
  s_started (sget st r) = true /\ s_terminated (sget st r) = true /\ s_returned (sget st r) = false
  /\ res = scope_result st r.
Proof.
  unfold exec. intros H.
  destruct (s_started (sget st r) && s_terminated (sget st r) && negb (s_returned (sget st r))
            && tres_eqb res (scope_result st r)) eqn:C; [|discriminate].
  repeat match goal with H : _ && _ = true |- _ => apply andb_prop in H as (? & ?) end.
  repeat split; auto. - apply negb_true_iff; assumption. - apply tres_eqb_eq; assumption.
Qed.

Lemma no_early_return_step p st r res st' : inv1 p st -> exec p st (LRet r res) = Some st' ->
  forall t, scope_of p t = r -> holding (ph (tget st t)) = false.
Proof.
  intros I H. destruct (ret_enabled_inv _ _ _ _ _ H) as (Hs & Ht & _).
  apply (terminated_iff_no_live_task p st r I Hs). exact Ht.
Qed.

(* a task of a scope that is not live can never become live again once the scope terminated:
   every step of a task of scope s needs a live task of s *)
Lemma terminated_stable p st l st' s : prog_ok p = true -> inv1 p st -> exec p st l = Some st' ->
  s_terminated (sget st s) = true ->
  s_terminated (sget st' s) = true /\ forall t, scope_of p t = s -> tget st' t = tget st t.
Proof.
  intros Hok I H Ht.
  assert (Hst : s_started (sget st s) = true).
  { destruct (s_started (sget st s)) eqn:E; [reflexivity|].
    destruct (i_sok _ _ I s) as (Ha & _). rewrite (Ha E) in Ht. discriminate. }
  pose proof (proj1 (terminated_iff_no_live_task p st s I Hst) Ht) as Hn.
  split.
  - pose proof (exec_strans p st l st' H s) as T. inversion T; subst; cbn; auto; try congruence;
      try (match goal with Hh : holding (ph (tget st ?t)) = true |- _ =>
             rewrite Hn in Hh by reflexivity; discriminate end).
    unfold set_err. destruct (s_err (sget st (scope_of p t))), r; cbn; auto.
  - intros t Hs. destruct (exec_ptrans p st l st' H t) as [E|(_ & E)]; [exact E|].
    pose proof (Hn t Hs) as Hh. inversion E; subst; rewrite <- ?H0, <- ?H1 in *;
      try (match goal with E1 : _ = ph (tget st _) |- _ => rewrite <- E1 in Hh; cbn in Hh; discriminate end);
      try (cbn in Hh; discriminate).
    + (* spawned into s: needs a live spawner in s *)
      exfalso. pose proof (exec_strans p st _ st' H) as _.
      unfold exec in H. destruct (cur_act p st t0) as [[pc [a|]]|] eqn:C; try discriminate.
      destruct a; try discriminate. apply cur_act_some in C as (C & _).
      destruct ((t =? c) && (t <? length (tasks st)) && (scope_of p t =? scope_of p t0) &&
                match ph (tget st t) with PNew => true | _ => false end) eqn:B; [|discriminate].
      repeat match goal with H : _ && _ = true |- _ => apply andb_prop in H as (? & ?) end.
      match goal with H : (scope_of p t =? _) = true |- _ => apply Nat.eqb_eq in H; rename H into Hsc end.
      pose proof (Hn t0 (eq_sym Hsc)) as X. rewrite C in X. discriminate.
    + (* root of a nested scope: its scope is not started *)
      exfalso. unfold exec in H. destruct (cur_act p st t0) as [[pc [a|]]|] eqn:C; try discriminate.
      destruct a; try discriminate.
      destruct ((t =? r) && (t <? length (tasks st)) && (scope_of p t =? t) && negb (s_started (sget st t)) &&
                match ph (tget st t) with PNew => true | _ => false end) eqn:B; [|discriminate].
      repeat match goal with H : _ && _ = true |- _ => apply andb_prop in H as (? & ?) end.
      match goal with H : (scope_of p t =? _) = true |- _ => apply Nat.eqb_eq in H; rename H into Hsc end.
      match goal with H : negb _ = true |- _ => apply negb_true_iff in H; rename H into Hns end.
      rewrite Hsc in Hst. congruence.
Qed.

Lemma sget_lt st j : s_started (sget st j) = true -> j < length (scopes st).
Proof.
  intros H. destruct (Nat.lt_ge_cases j (length (scopes st))) as [|Hge]; [assumption|].
  unfold sget in H. rewrite nth_overflow in H by exact Hge. discriminate.
Qed.

(* ---------------- cancellation ---------------- *)
Lemma seterr_exact p st t r st' : prog_ok p = true -> inv1 p st -> exec p st (LSetErr t r) = Some st' ->
  r <> ROk /\ ph (tget st t) = PEnded r /\
  forall j, sget st' j = if j =? scope_of p t then set_err (sget st j) r else sget st j.
Proof.
  intros Hok I H. inv_exec H. apply andb_prop in Heqb as (E1 & E2). apply tres_eqb_eq in E1. subst.
  split; [intros ->; discriminate|]. split; [reflexivity|].
  intros j. simp_get.
  assert (Hs : (scope_of p t <? length (scopes st)) = true).
  { apply Nat.ltb_lt. rewrite (i_ls _ _ I). apply prog_ok_scope, Hok. }
  rewrite Hs, andb_true_r. destruct (Nat.eqb_spec j (scope_of p t)); [subst|]; reflexivity.
Qed.

Definition err_of (r : tres) : serr := match r with ROk => ENone | RErr e => EErr e | RPanic => EPanic end.

(* the scope's context is cancelled in the very step that records the first error *)
Lemma first_error_cancels p st t r st' : prog_ok p = true -> inv1 p st ->
  exec p st (LSetErr t r) = Some st' -> s_err (sget st (scope_of p t)) = ENone ->
  s_cancelled (sget st' (scope_of p t)) = true /\ s_err (sget st' (scope_of p t)) = err_of r.
Proof.
  intros Hok I H Hn. destruct (seterr_exact _ _ _ _ _ Hok I H) as (Hr & _ & E).
  rewrite E, Nat.eqb_refl. unfold set_err. rewrite Hn. destruct r; cbn; auto; congruence.
Qed.

(* ... and as soon as no main task is live (the step that drops the last CancelGuard included) *)
Lemma no_main_task_cancelled p st s : inv1 p st -> s_started (sget st s) = true ->
  (forall t, scope_of p t = s -> hm (tget st t) = false) -> s_cancelled (sget st s) = true.
Proof.
  intros I Hst H. destruct (i_sok _ _ I s) as (_ & _ & Hc & _). apply Hc; [exact Hst|].
  destruct (i_cnt _ _ I s) as (E & _). rewrite E. apply cnt_false. intros i _. unfold hm_at.
  destruct (Nat.eqb_spec (scope_of p i) s); [|reflexivity]. rewrite H by assumption. reflexivity.
Qed.

Lemma cancelled_stable p st l st' j : inv1 p st -> exec p st l = Some st' ->
  s_cancelled (sget st j) = true -> s_cancelled (sget st' j) = true.
Proof.
  intros I H Hc. pose proof (exec_strans p st l st' H j) as T.
  inversion T; subst; cbn; auto.
  - unfold set_err. destruct (s_err (sget st (scope_of p t))), r; cbn; auto.
  - unfold drop_guard. destruct (gmain (tget st t)); [destruct (cancel_rc (sget st (scope_of p t)) - 1 =? 0)|]; cbn; auto.
  - unfold take_guard. destruct (td_main (tdef p c) && (0 <? cancel_rc (sget st (scope_of p t)))); cbn; auto.
  - destruct (i_sok _ _ I j) as (Ha & _). rewrite (Ha ltac:(assumption)) in Hc. discriminate.
Qed.

Definition ctx_cancelled (st : state) (o : option nat) : bool :=
  match o with None => ext st | Some s => s_cancelled (sget st s) end.

(* r's context is a descendant of context o (None = the caller's context of the top scope) *)
Inductive anc (st : state) : nat -> option nat -> Prop :=
| anc_one r o : s_started (sget st r) = true -> s_parent (sget st r) = o -> anc st r o
| anc_step r q o : s_started (sget st r) = true -> s_parent (sget st r) = Some q -> anc st q o -> anc st r o.

Definition is_prop (l : label) : bool := match l with LProp _ => true | _ => false end.

Definition same_links (st st' : state) : Prop :=
  ext st' = ext st /\
  forall j, s_started (sget st' j) = s_started (sget st j) /\ s_parent (sget st' j) = s_parent (sget st j)
            /\ (s_cancelled (sget st j) = true -> s_cancelled (sget st' j) = true).

(* one watcher step (ctx/mod.rs child_with_clock) after the parent context is cancelled, or after
   the deadline passed for a context created by with_deadline *)
Lemma watcher_step p st r : s_started (sget st r) = true ->
  (ctx_cancelled st (s_parent (sget st r)) || (s_dl (sget st r) && ext st)) = true ->
  exists ls st', length ls <= 1 /\ forallb is_prop ls = true /\ run p st ls = Some st'
                 /\ s_cancelled (sget st' r) = true /\ same_links st st'.
Proof.
  intros Hs Hc. destruct (s_cancelled (sget st r)) eqn:C.
  - exists [], st. repeat split; auto.
  - exists [LProp r], (sset st r (ss_cancel (sget st r))).
    assert (Hlt : (r <? length (scopes st)) = true) by (apply Nat.ltb_lt, sget_lt, Hs).
    split; [cbn; lia|]. split; [reflexivity|]. split.
    + cbn. unfold parent_cancelled. unfold ctx_cancelled in Hc. rewrite Hs, C, Hc. reflexivity.
    + split; [simp_get; rewrite Nat.eqb_refl, Hlt; reflexivity|].
      split; [reflexivity|]. intros j. simp_get. destruct (Nat.eqb_spec j r); [subst; rewrite Hlt|]; cbn; auto.
Qed.

Lemma same_links_trans a b c : same_links a b -> same_links b c -> same_links a c.
Proof.
  intros (E1 & H1) (E2 & H2). split; [congruence|]. intros j.
  destruct (H1 j) as (A1 & A2 & A3), (H2 j) as (B1 & B2 & B3). repeat split; try congruence. auto.
Qed.

Theorem cancel_reaches_descendants p st r o : anc st r o -> ctx_cancelled st o = true ->
  exists ls st', forallb is_prop ls = true /\ run p st ls = Some st'
                 /\ s_cancelled (sget st' r) = true /\ same_links st st'.
Proof.
  intros A. induction A as [r o Hs Hp | r q o Hs Hp A IH]; intros Hc.
  - destruct (watcher_step p st r Hs) as (ls & st' & _ & H1 & H2 & H3 & H4).
    { rewrite Hp, Hc. reflexivity. }
    exists ls, st'. auto.
  - destruct (IH Hc) as (ls1 & st1 & P1 & R1 & C1 & L1).
    destruct L1 as (E1 & L1'). destruct (L1' r) as (S1 & Pa1 & _).
    destruct (watcher_step p st1 r) as (ls2 & st2 & _ & P2 & R2 & C2 & L2).
    { rewrite S1. exact Hs. }
    { rewrite Pa1, Hp. cbn. rewrite C1. reflexivity. }
    exists (ls1 ++ ls2), st2. split; [rewrite forallb_app, P1, P2; reflexivity|].
    split; [rewrite run_app, R1; exact R2|]. split; [exact C2|].
    eapply same_links_trans; [split; eassumption|exact L2].
Qed.

(* ---------------- result ---------------- *)
Definition merge (e : serr) (r : tres) : serr :=
  match e, r with
  | _, ROk => e
  | EPanic, _ => EPanic
  | EErr x, RErr _ => EErr x
  | _, RErr y => EErr y
  | _, RPanic => EPanic
  end.

Lemma set_err_merge a r : s_err (set_err a r) = merge (s_err a) r.
Proof. unfold set_err, merge. destruct (s_err a) eqn:E, r; cbn; rewrite ?E; reflexivity. Qed.

(* the results passed to set_err of scope j, in the order of the execution *)
Fixpoint seterrs (p : prog) (j : nat) (ls : list label) : list tres :=
  match ls with
  | [] => []
  | LSetErr t r :: ls' => if scope_of p t =? j then r :: seterrs p j ls' else seterrs p j ls'
  | _ :: ls' => seterrs p j ls'
  end.

Lemma s_err_run p j ls : prog_ok p = true -> forall st st', inv1 p st -> run p st ls = Some st' ->
  s_err (sget st' j) = fold_left merge (seterrs p j ls) (s_err (sget st j)).
Proof.
  intros Hok. induction ls as [|l ls IH]; intros st st' I H; cbn in H.
  - injection H as <-. reflexivity.
  - destruct (exec p st l) as [st1|] eqn:E; [|discriminate].
    pose proof (inv1_step p st l st1 Hok I E) as I1.
    rewrite (IH st1 st' I1 H).
    assert (Hother : (forall t r, l <> LSetErr t r) -> s_err (sget st1 j) = s_err (sget st j)).
    { intros Hl. pose proof (exec_strans p st l st1 E j) as T. inversion T; subst; cbn; auto.
      - exfalso. eapply Hl. reflexivity.
      - unfold drop_guard. destruct (gmain (tget st t)); [destruct (cancel_rc (sget st (scope_of p t)) - 1 =? 0)|]; reflexivity.
      - unfold take_guard. destruct (td_main (tdef p c) && (0 <? cancel_rc (sget st (scope_of p t)))); reflexivity.
      - destruct (i_sok _ _ I j) as (Ha & _). rewrite (Ha ltac:(assumption)). reflexivity. }
    destruct l; try (cbn [seterrs]; rewrite Hother by discriminate; reflexivity).
    destruct (seterr_exact _ _ _ _ _ Hok I E) as (_ & _ & X). rewrite X. cbn [seterrs].
    rewrite (Nat.eqb_sym j). destruct (scope_of p t =? j); [|reflexivity].
    cbn [fold_left]. rewrite set_err_merge. reflexivity.
Qed.

Lemma fold_merge_panic rs : fold_left merge rs EPanic = EPanic.
Proof. induction rs as [|r rs IH]; [reflexivity|]. cbn. destruct r; exact IH. Qed.

Lemma fold_merge_err rs x : fold_left merge rs (EErr x) =
  if existsb (fun r => tres_eqb r RPanic) rs then EPanic else EErr x.
Proof.
  induction rs as [|r rs IH]; [reflexivity|]. cbn [fold_left existsb]. destruct r; cbn [merge tres_eqb orb]; auto.
  apply fold_merge_panic.
Qed.

(* value of State::err after the calls set_err(r1), set_err(r2), ... *)
Lemma fold_merge_none rs :
  match fold_left merge rs ENone with
  | ENone => forall r, In r rs -> r = ROk
  | EPanic => In RPanic rs
  | EErr e => exists pre post, rs = pre ++ RErr e :: post /\ (forall r, In r pre -> r = ROk) /\ ~ In RPanic rs
  end.
Proof.
  induction rs as [|r rs IH]; cbn [fold_left]; [intros r []|].
  destruct r; cbn [merge].
  - destruct (fold_left merge rs ENone).
    + intros r [<-|H]; auto.
    + destruct IH as (pre & post & -> & Hp & Hn). exists (ROk :: pre), post. repeat split.
      * intros r [<-|H]; auto.
      * intros [H|H]; [discriminate|auto].
    + right. exact IH.
  - rewrite fold_merge_err. destruct (existsb (fun r => tres_eqb r RPanic) rs) eqn:X.
    + right. apply existsb_exists in X as (r & Hin & Hr). destruct r; try discriminate. exact Hin.
    + exists [], rs. repeat split; [intros r []|]. intros [H|H]; [discriminate|].
      assert (existsb (fun r => tres_eqb r RPanic) rs = true); [|congruence].
      apply existsb_exists. exists RPanic. auto.
  - rewrite fold_merge_panic. left. reflexivity.
Qed.

(* ---------------- soundness of trace acceptance ---------------- *)
Definition good (p : prog) (st : state) (ls : list label) (vis : list label) : Prop :=
  run p (init p) (rev ls) = Some st /\ filter is_visible (rev ls) = vis.

Lemma good_hidden p st ls vis l st' : good p st ls vis -> is_visible l = false ->
  exec p st l = Some st' -> good p st' (l :: ls) vis.
Proof.
  intros (R & F) Hv E. split; cbn [rev].
  - rewrite run_app, R. cbn. rewrite E. reflexivity.
  - rewrite filter_app, F. cbn. rewrite Hv. apply app_nil_r.
Qed.

Lemma good_visible p st ls vis l st' : good p st ls vis -> is_visible l = true ->
  exec p st l = Some st' -> good p st' (l :: ls) (vis ++ [l]).
Proof.
  intros (R & F) Hv E. split; cbn [rev].
  - rewrite run_app, R. cbn. rewrite E. reflexivity.
  - rewrite filter_app, F. cbn. rewrite Hv. reflexivity.
Qed.

Lemma try_label_good p st ls ch l vis : good p st ls vis -> is_visible l = false ->
  let '(st', ls', _) := try_label p (st, ls, ch) l in good p st' ls' vis.
Proof.
  intros G Hv. unfold try_label. destruct (exec p st l) eqn:E; [|exact G].
  eapply good_hidden; eassumption.
Qed.

Lemma hidden_task_hidden p win st t l : hidden_task p win st t = Some l -> is_visible l = false.
Proof.
  unfold hidden_task. destruct (ph (tget st t)); try discriminate.
  - destruct r; [|destruct (allowed p win st t)..]; intros H; try discriminate; injection H as <-; reflexivity.
  - intros H; injection H as <-; reflexivity.
Qed.

Lemma try_hidden_task_good p win st ls ch t vis : good p st ls vis ->
  let '(st', ls', _) := try_hidden_task p win (st, ls, ch) t in good p st' ls' vis.
Proof.
  intros G. unfold try_hidden_task. cbn [fst]. destruct (hidden_task p win st t) eqn:E; [|exact G].
  apply try_label_good; [exact G|]. eapply hidden_task_hidden; eassumption.
Qed.

Lemma sweep_good p win ids : forall st ls ch vis, good p st ls vis ->
  let '(st', ls', _) := sweep p win ids (st, ls, ch) in good p st' ls' vis.
Proof.
  induction ids as [|t ids IH]; intros st ls ch vis G; cbn [sweep]; [exact G|].
  pose proof (try_hidden_task_good p win st ls ch t vis G) as G1.
  destruct (try_hidden_task p win (st, ls, ch) t) as [[st1 ls1] ch1].
  pose proof (try_hidden_task_good p win st1 ls1 ch1 t vis G1) as G2.
  destruct (try_hidden_task p win (st1, ls1, ch1) t) as [[st2 ls2] ch2].
  pose proof (try_label_good p st2 ls2 ch2 (LProp t) vis G2 eq_refl) as G3.
  destruct (try_label p (st2, ls2, ch2) (LProp t)) as [[st3 ls3] ch3].
  apply IH. exact G3.
Qed.

Lemma saturate_good p win fuel : forall st ls vis, good p st ls vis ->
  let '(st', ls') := saturate p win fuel st ls in good p st' ls' vis.
Proof.
  induction fuel as [|f IH]; intros st ls vis G; cbn [saturate]; [exact G|].
  pose proof (sweep_good p win (seq 0 (length p)) st ls false vis G) as G1.
  destruct (sweep p win (seq 0 (length p)) (st, ls, false)) as [[st1 ls1] ch1].
  destruct ch1; [apply IH; exact G1|exact G1].
Qed.

Lemma replay_from_good p win log : forall idx st ls vis st' ls',
  good p st ls vis -> replay_from p win log idx st ls = Accept st' ls' -> good p st' ls' (vis ++ log).
Proof.
  induction log as [|l log IH]; intros idx st ls vis st' ls' G H; cbn [replay_from] in H.
  - injection H as <- <-. rewrite app_nil_r. exact G.
  - destruct (is_visible l) eqn:V; [|discriminate].
    destruct (exec p st l) as [st1|] eqn:E; [|discriminate].
    pose proof (good_visible p st ls vis l st1 G V E) as G1.
    pose proof (saturate_good p win (3 * length p + 3) st1 (l :: ls) (vis ++ [l]) G1) as G2.
    destruct (saturate p win (3 * length p + 3) st1 (l :: ls)) as [st2 ls2].
    specialize (IH _ _ _ _ _ _ G2 H). rewrite <- app_assoc in IH. exact IH.
Qed.

(* an accepted log is the visible part of an execution of the model *)
Theorem replay_sound p win log st ls : replay p win log = Accept st ls ->
  prog_ok p = true /\ run p (init p) (rev ls) = Some st /\ filter is_visible (rev ls) = log.
Proof.
  unfold replay. fold (prog_ok p). destruct (prog_ok p) eqn:Hok; [|discriminate].
  intros H. split; [reflexivity|].
  assert (G0 : good p (init p) [] []) by (split; reflexivity).
  pose proof (saturate_good p win (3 * length p + 3) (init p) [] [] G0) as G1.
  destruct (saturate p win (3 * length p + 3) (init p) []) as [st0 ls0].
  exact (replay_from_good p win log 0%Z st0 ls0 [] st ls G1 H).
Qed.

(* a task that reported a failure left a trace in State::err; the root of a started scope exists *)
Definition err_inv (p : prog) (st : state) : Prop :=
  (forall t x, (ph (tget st t) = PErrSet x \/ ph (tget st t) = PDone x) -> x <> ROk ->
               s_err (sget st (scope_of p t)) <> ENone)
  /\ (forall r, s_started (sget st r) = true -> ph (tget st r) <> PNew).

Lemma err_nonnone_stable p st l st' j : inv1 p st -> exec p st l = Some st' ->
  s_started (sget st j) = true -> s_err (sget st j) <> ENone -> s_err (sget st' j) <> ENone.
Proof.
  intros I H Hs Hn. pose proof (exec_strans p st l st' H j) as T. inversion T; subst; cbn; auto.
  - rewrite set_err_merge. destruct (s_err (sget st (scope_of p t))), r; cbn; congruence.
  - unfold drop_guard. destruct (gmain (tget st t)); [destruct (cancel_rc (sget st (scope_of p t)) - 1 =? 0)|]; cbn; auto.
  - unfold take_guard. destruct (td_main (tdef p c) && (0 <? cancel_rc (sget st (scope_of p t)))); cbn; auto.
  - congruence.
Qed.

Lemma err_inv_init p : prog_ok p = true -> err_inv p (init p).
Proof.
  intros Hok. pose proof (inv1_init p Hok) as I. split.
  - intros t x Hph _. exfalso.
    assert (Hn : 0 < length p).
    { unfold prog_ok in Hok. apply andb_prop in Hok as (H & _). apply andb_prop in H as (_ & H). apply Nat.ltb_lt, H. }
    unfold tget, init in Hph. cbn [tasks] in Hph. rewrite nth_upd, repeat_length in Hph.
    destruct ((t =? 0) && (0 <? length p)); [cbn in Hph; destruct Hph; discriminate|].
    destruct (Nat.lt_ge_cases t (length p)).
    + rewrite nth_repeat in Hph. cbn in Hph. destruct Hph; discriminate.
    + rewrite nth_overflow in Hph by (rewrite repeat_length; assumption). cbn in Hph. destruct Hph; discriminate.
  - intros r Hs.
    assert (Hn : (0 <? length p) = true).
    { unfold prog_ok in Hok. apply andb_prop in Hok as (H & _). apply andb_prop in H as (_ & H). exact H. }
    unfold sget, init in Hs. cbn [scopes] in Hs. rewrite nth_upd, repeat_length, Hn, andb_true_r in Hs.
    destruct (Nat.eqb_spec r 0) as [E0|].
    + subst r. unfold tget, init. cbn [tasks]. rewrite nth_upd, repeat_length, Hn. cbn. discriminate.
    + exfalso. destruct (Nat.lt_ge_cases r (length p)).
      * rewrite nth_repeat in Hs. discriminate.
      * rewrite nth_overflow in Hs by (rewrite repeat_length; assumption). discriminate.
Qed.

Lemma err_inv_step p st l st' : prog_ok p = true -> inv1 p st -> err_inv p st ->
  exec p st l = Some st' -> err_inv p st'.
Proof.
  intros Hok I (E1 & E2) H. split.
  - intros t x Hph Hx.
    assert (Hstarted : forall q, ph (tget st t) = q -> q <> PNew -> s_started (sget st (scope_of p t)) = true).
    { intros q Hq Hq'. apply (i_started _ _ I). congruence. }
    destruct (exec_ptrans p st l st' H t) as [Es|(_ & Pt)].
    + rewrite Es in Hph.
      assert (S : s_started (sget st (scope_of p t)) = true)
        by (destruct Hph as [Hp|Hp]; exact (Hstarted _ Hp ltac:(discriminate))).
      exact (err_nonnone_stable p st l st' _ I H S (E1 t x Hph Hx)).
    + destruct Hph as [Hp|Hp]; rewrite Hp in Pt; inversion Pt; subst.
      * destruct (seterr_exact _ _ _ _ _ Hok I H) as (_ & _ & X). rewrite X, Nat.eqb_refl, set_err_merge.
        destruct (s_err (sget st (scope_of p t))), x; cbn; congruence.
      * congruence.
      * match goal with Hq : PErrSet _ = ph (tget st t) |- _ =>
          exact (err_nonnone_stable p st _ st' _ I H (Hstarted _ (eq_sym Hq) ltac:(discriminate))
                   (E1 t x (or_introl (eq_sym Hq)) Hx)) end.
  - intros r Hs. destruct (s_started (sget st r)) eqn:S0.
    + specialize (E2 r S0). destruct (exec_ptrans p st l st' H r) as [Es|(_ & Pt)]; [rewrite Es; exact E2|].
      inversion Pt; subst; try discriminate; try (rewrite <- H1 in E2; congruence); congruence.
    + pose proof (exec_strans p st l st' H r) as T. inversion T; subst;
        try (match goal with Hq : _ = sget st' _ |- _ => rewrite <- Hq in Hs end);
        try (cbn in Hs; congruence).
      * unfold set_err in Hs.
        match goal with _ : exec p st (LSetErr _ ?x) = _ |- _ =>
          destruct (s_err (sget st (scope_of p t))), x; cbn in Hs; congruence end.
      * unfold drop_guard in Hs. destruct (gmain (tget st t)); [destruct (cancel_rc (sget st (scope_of p t)) - 1 =? 0)|]; cbn in Hs; congruence.
      * unfold take_guard in Hs. destruct (td_main (tdef p c) && (0 <? cancel_rc (sget st (scope_of p t)))); cbn in Hs; congruence.
      * (* LNested t r: the root is set running *)
        clear T. inv_exec H. get_new st. simp_get.
        match goal with H : (r <? _) = true |- _ => rewrite H end.
        rewrite Nat.eqb_refl. cbn [andb].
        destruct ((r =? t) && (t <? length (tasks st))); cbn; discriminate.
Qed.

Lemma err_inv_run p ls : prog_ok p = true -> forall st st', inv1 p st -> err_inv p st ->
  run p st ls = Some st' -> err_inv p st'.
Proof.
  intros Hok. induction ls as [|l ls IH]; intros st st' I E H; cbn in H.
  - injection H as <-. exact E.
  - destruct (exec p st l) as [st1|] eqn:X; [|discriminate].
    eapply IH; [eapply inv1_step; eauto|eapply err_inv_step; eauto|exact H].
Qed.

(* if no error was recorded, the root task returned Ok and that is the scope's result *)
Lemma result_ok p st r : inv1 p st -> err_inv p st ->
  s_started (sget st r) = true -> s_terminated (sget st r) = true -> scope_of p r = r ->
  s_err (sget st r) = ENone -> scope_result st r = ROk /\ ph (tget st r) = PDone ROk.
Proof.
  intros I (E1 & E2) Hs Ht Hr He.
  pose proof (proj1 (terminated_iff_no_live_task p st r I Hs) Ht r Hr) as Hh.
  specialize (E2 r Hs). unfold scope_result. rewrite He.
  destruct (ph (tget st r)) eqn:P; cbn in Hh; try discriminate; try congruence.
  destruct r0; auto; exfalso; eapply (E1 r); eauto; try discriminate; rewrite Hr; exact He.
Qed.

(* once a scope terminated, it stays terminated and none of its tasks ever moves again *)
Lemma terminated_forever p ls s : prog_ok p = true -> forall st st', inv1 p st ->
  s_terminated (sget st s) = true -> run p st ls = Some st' ->
  s_terminated (sget st' s) = true /\ forall t, scope_of p t = s -> tget st' t = tget st t.
Proof.
  intros Hok. induction ls as [|l ls IH]; intros st st' I Ht H; cbn in H.
  - injection H as <-. auto.
  - destruct (exec p st l) as [st1|] eqn:E; [|discriminate].
    destruct (terminated_stable p st l st1 s Hok I E Ht) as (T1 & F1).
    destruct (IH st1 st' (inv1_step p st l st1 Hok I E) T1 H) as (T2 & F2).
    split; [exact T2|]. intros t Hs. rewrite (F2 t Hs). apply F1, Hs.
Qed.

Lemma init_err p j : s_err (sget (init p) j) = ENone.
Proof.
  unfold sget, init. cbn [scopes]. rewrite nth_upd.
  destruct ((j =? 0) && (0 <? length (repeat dflt_ss (length p)))); [reflexivity|].
  destruct (Nat.lt_ge_cases j (length p)).
  - rewrite nth_repeat. reflexivity.
  - rewrite nth_overflow by (rewrite repeat_length; assumption). reflexivity.
Qed.

Lemma result_spec p ls st r res st' : prog_ok p = true ->
  run p (init p) ls = Some st -> exec p st (LRet r res) = Some st' -> scope_of p r = r ->
  match fold_left merge (seterrs p r ls) ENone with
  | ENone => res = ROk /\ ph (tget st r) = PDone ROk /\ (forall x, In x (seterrs p r ls) -> x = ROk)
  | EErr e => res = RErr e /\ exists pre post, seterrs p r ls = pre ++ RErr e :: post
                 /\ (forall y, In y pre -> y = ROk) /\ ~ In RPanic (seterrs p r ls)
  | EPanic => res = RPanic /\ In RPanic (seterrs p r ls)
  end.
Proof.
  intros Hok R E Hr.
  pose proof (inv1_init p Hok) as I0. pose proof (inv1_run p _ ls st Hok I0 R) as I.
  pose proof (err_inv_run p ls Hok _ _ I0 (err_inv_init p Hok) R) as EI.
  pose proof (s_err_run p r ls Hok _ _ I0 R) as S. rewrite init_err in S.
  destruct (ret_enabled_inv _ _ _ _ _ E) as (Hs & Ht & _ & Hres).
  pose proof (fold_merge_none (seterrs p r ls)) as F.
  destruct (fold_left merge (seterrs p r ls) ENone) eqn:X.
  - destruct (result_ok p st r I EI Hs Ht Hr S) as (A & B). rewrite Hres. auto.
  - split; [|exact F]. rewrite Hres. unfold scope_result. rewrite S. reflexivity.
  - split; [|exact F]. rewrite Hres. unfold scope_result. rewrite S. reflexivity.
Qed.

(* the task that awaits a nested run!() stays in it until that scope returns *)
Definition callers_ok (p : prog) (st : state) : Prop :=
  forall r t, s_started (sget st r) = true -> s_returned (sget st r) = false ->
    s_caller (sget st r) = Some t ->
    exists pc dl, ph (tget st t) = PWaitRet pc /\ nth_error (td_acts (tdef p t)) pc = Some (ANested r dl)
                  /\ s_parent (sget st r) = Some (scope_of p t).

Lemma ret_exact p st r res st' : exec p st (LRet r res) = Some st' ->
  s_returned (sget st' r) = true /\
  forall i, tget st' i <> tget st i -> s_caller (sget st r) = Some i.
Proof.
  intros H. destruct (ret_enabled_inv _ _ _ _ _ H) as (Hs & _).
  assert (Hlt : (r <? length (scopes st)) = true) by (apply Nat.ltb_lt, sget_lt, Hs).
  unfold exec in H.
  destruct (s_started (sget st r) && s_terminated (sget st r) && negb (s_returned (sget st r))
            && tres_eqb res (scope_result st r)); [|discriminate].
  destruct (s_caller (sget st r)) as [t|].
  - destruct (ph (tget st t)); try discriminate. injection H as <-. split.
    + simp_get. rewrite Nat.eqb_refl, Hlt. reflexivity.
    + intros i. simp_get. destruct ((i =? t) && (t <? length (tasks st))) eqn:E; [|congruence].
      apply andb_prop in E as (E & _). apply Nat.eqb_eq in E. congruence.
  - injection H as <-. split.
    + simp_get. rewrite Nat.eqb_refl, Hlt. reflexivity.
    + intros i. simp_get. congruence.
Qed.

Lemma nested_exact p st t r st' : inv1 p st -> exec p st (LNested t r) = Some st' ->
  exists pc dl, ph (tget st t) = PRun pc /\ nth_error (td_acts (tdef p t)) pc = Some (ANested r dl)
    /\ sget st' r = ss_start (Some (scope_of p t)) (Some t) dl
    /\ ph (tget st' t) = PWaitRet pc /\ t <> r.
Proof.
  intros I H. inv_exec H. get_new st.
  match goal with H : (r =? _) = true |- _ => apply Nat.eqb_eq in H; subst end.
  match goal with H : (_ <? length (tasks st)) = true |- _ => rename H into Hlt end.
  match goal with H : ph (tget st t) = PRun _ |- _ => rename H into Hrun end.
  match goal with H : ph (tget st _) = PNew |- _ => rename H into Hnew end.
  assert (Htl : (t <? length (tasks st)) = true).
  { apply Nat.ltb_lt, tget_lt. rewrite Hrun. discriminate. }
  assert (Hls : forall x, (x <? length (scopes st)) = (x <? length (tasks st))).
  { intros x. rewrite (i_ls _ _ I), (i_lt _ _ I). reflexivity. }
  eexists _, _. split; [exact Hrun|]. split; [symmetry; eassumption|].
  simp_get. rewrite !Nat.eqb_refl, Htl, Hls, Hlt. cbn [andb ph].
  repeat split; auto. intros ->. congruence.
Qed.

Lemma strans_links p st l j a b : strans p st l j a b ->
  (s_started a = true -> s_started b = true /\ s_caller b = s_caller a /\ s_parent b = s_parent a
                         /\ (s_returned b = s_returned a \/ s_returned b = true))
  /\ (s_started a = false -> s_started b = false \/ exists t, l = LNested t j).
Proof.
  intros T. inversion T; subst; cbn.
  - split; auto.
  - split; auto.
  - split; auto.
  - unfold set_err. destruct (s_err a), r; cbn; split; auto.
  - unfold drop_guard. destruct (gmain (tget st t)); [destruct (cancel_rc a - 1 =? 0)|]; cbn; split; auto.
  - unfold take_guard. destruct (td_main (tdef p c) && (0 <? cancel_rc a)); cbn; split; auto.
  - split; auto.
  - split; [congruence|]. intros _. right. eexists. reflexivity.
Qed.

Lemma callers_init p : prog_ok p = true -> callers_ok p (init p).
Proof.
  intros Hok r t Hs _ Hc. exfalso.
  assert (Hn : (0 <? length p) = true).
  { unfold prog_ok in Hok. apply andb_prop in Hok as (H & _). apply andb_prop in H as (_ & H). exact H. }
  unfold sget, init in Hs, Hc. cbn [scopes] in Hs, Hc. rewrite nth_upd, repeat_length, Hn, andb_true_r in Hs, Hc.
  destruct (r =? 0); [cbn in Hc; discriminate|].
  destruct (Nat.lt_ge_cases r (length p)).
  - rewrite nth_repeat in Hs. discriminate.
  - rewrite nth_overflow in Hs by (rewrite repeat_length; assumption). discriminate.
Qed.

Lemma callers_step p st l st' : prog_ok p = true -> inv1 p st -> callers_ok p st ->
  exec p st l = Some st' -> callers_ok p st'.
Proof.
  intros Hok I C H r t Hs Hr Hc.
  pose proof (exec_strans p st l st' H r) as T.
  (* the scope r was already running before the step, with the same links *)
  assert (Hold : s_started (sget st r) = true -> s_returned (sget st r) = false ->
                 s_caller (sget st r) = Some t -> s_parent (sget st' r) = s_parent (sget st r) ->
                 exists pc dl, ph (tget st' t) = PWaitRet pc /\
                   nth_error (td_acts (tdef p t)) pc = Some (ANested r dl) /\
                   s_parent (sget st' r) = Some (scope_of p t)).
  { intros Hs0 Hr0 Hc0 Hp0. destruct (C r t Hs0 Hr0 Hc0) as (pc & dl & P & N & Pa).
    destruct (exec_ptrans p st l st' H t) as [E|(_ & Pt)].
    - exists pc, dl. rewrite E, Hp0. auto.
    - exfalso. rewrite P in Pt. inversion Pt; subst.
      + (* LRet r0 Ok moved t: then t is the caller of r0 = r, so r has returned *)
        destruct (ret_exact _ _ _ _ _ H) as (R1 & R2).
        destruct (ret_enabled_inv _ _ _ _ _ H) as (S1 & _ & S3 & _).
        assert (Hcr : s_caller (sget st r0) = Some t).
        { apply R2. intros Q. rewrite Q, P in *. discriminate. }
        destruct (C r0 t S1 S3 Hcr) as (pc' & dl' & P' & N' & _).
        rewrite P in P'. injection P' as <-. rewrite N in N'. injection N' as <- _. congruence.
      + destruct (ret_exact _ _ _ _ _ H) as (R1 & R2).
        destruct (ret_enabled_inv _ _ _ _ _ H) as (S1 & _ & S3 & _).
        assert (Hcr : s_caller (sget st r0) = Some t).
        { apply R2. intros Q. rewrite Q, P in *. discriminate. }
        destruct (C r0 t S1 S3 Hcr) as (pc' & dl' & P' & N' & _).
        rewrite P in P'. injection P' as <-. rewrite N in N'. injection N' as <- _. congruence. }
  destruct (s_started (sget st r)) eqn:S0.
  - destruct (strans_links _ _ _ _ _ _ T) as (L & _). destruct (L S0) as (L1 & L2 & L3 & L4).
    apply Hold; try congruence. destruct L4 as [L4|L4]; congruence.
  - destruct (strans_links _ _ _ _ _ _ T) as (_ & L). destruct (L S0) as [L1|(t0 & L1)]; [congruence|].
    subst l. destruct (nested_exact _ _ _ _ _ I H) as (pc & dl & P & N & Sg & P' & Hne).
    rewrite Sg in Hc. cbn in Hc. injection Hc as <-. exists pc, dl. rewrite Sg. cbn. auto.
Qed.

Lemma callers_run p ls : prog_ok p = true -> forall st st', inv1 p st -> callers_ok p st ->
  run p st ls = Some st' -> callers_ok p st'.
Proof.
  intros Hok. induction ls as [|l ls IH]; intros st st' I C H; cbn in H.
  - injection H as <-. exact C.
  - destruct (exec p st l) as [st1|] eqn:X; [|discriminate].
    eapply IH; [eapply inv1_step; eauto|eapply callers_step; eauto|exact H].
Qed.

(* scope r is nested, directly or transitively, in scope s: r's run!() was called by a task of s,
   or by a task of a scope nested in s *)
Inductive nested_in (p : prog) (st : state) : nat -> nat -> Prop :=
| ni_one r t : s_started (sget st r) = true -> s_caller (sget st r) = Some t ->
    nested_in p st r (scope_of p t)
| ni_step r t s : s_started (sget st r) = true -> s_caller (sget st r) = Some t ->
    nested_in p st (scope_of p t) s -> nested_in p st r s.

Lemma terminated_started p st s : inv1 p st -> s_terminated (sget st s) = true -> s_started (sget st s) = true.
Proof.
  intros I Ht. destruct (s_started (sget st s)) eqn:E; [reflexivity|].
  destruct (i_sok _ _ I s) as (Ha & _). rewrite (Ha E) in Ht. discriminate.
Qed.

Lemma caller_scope_terminated p st r t : inv1 p st -> callers_ok p st ->
  s_started (sget st r) = true -> s_caller (sget st r) = Some t ->
  s_terminated (sget st (scope_of p t)) = true -> s_returned (sget st r) = true.
Proof.
  intros I C Hs Hc Ht. destruct (s_returned (sget st r)) eqn:R; [reflexivity|exfalso].
  destruct (C r t Hs R Hc) as (pc & dl & P & _).
  pose proof (proj1 (terminated_iff_no_live_task p st _ I (terminated_started p st _ I Ht)) Ht t eq_refl) as Hh.
  rewrite P in Hh. discriminate.
Qed.

(* when a scope has terminated, every scope nested in it, directly or transitively, has returned
   (hence terminated: none of its tasks is live) *)
Lemma nested_joined p st r s : inv1 p st -> callers_ok p st -> nested_in p st r s ->
  s_terminated (sget st s) = true ->
  s_returned (sget st r) = true /\ forall t, scope_of p t = r -> holding (ph (tget st t)) = false.
Proof.
  intros I C N. induction N as [r t Hs Hc | r t s Hs Hc N IH]; intros Ht.
  - pose proof (caller_scope_terminated p st r t I C Hs Hc Ht) as R. split; [exact R|].
    destruct (i_sok _ _ I r) as (_ & _ & _ & Hd).
    apply (terminated_iff_no_live_task p st r I Hs). apply Hd, R.
  - destruct (IH Ht) as (R1 & _).
    destruct (i_sok _ _ I (scope_of p t)) as (_ & _ & _ & Hd1).
    pose proof (caller_scope_terminated p st r t I C Hs Hc (Hd1 R1)) as R. split; [exact R|].
    destruct (i_sok _ _ I r) as (_ & _ & _ & Hd).
    apply (terminated_iff_no_live_task p st r I Hs). apply Hd, R.
Qed.

Lemma callers_reachable p st : prog_ok p = true -> reachable p st -> callers_ok p st.
Proof.
  intros Hok (ls & H). eapply callers_run; [exact Hok|apply inv1_init, Hok|apply callers_init, Hok|exact H].
Qed.
