(* The canonical bytes of a value read back as that value (schemas without repeated scalar
   fields, i.e. without packed encoding: all production schemas). *)
From Coq Require Import String ZArith List Bool Lia.
From EC Require Import Lib.Outcome Model.Wire Model.ProtoSchema Proofs.WireProofs Proofs.ProtoSchemaProofs.
Import ListNotations.
Open Scope list_scope.
Open Scope Z_scope.

(* ---- well-formed dynamic messages ---- *)

(* every repeated field is length-delimited: the writer never packs *)
Definition field_unpacked (f : field) : bool :=
  negb (is_list f) || match wire_of_kind (fkind f) with WLen => true | _ => false end.
Definition schema_unpacked (Sc : schema) : bool :=
  forallb (fun m => forallb field_unpacked (mfields m)) Sc.

(* entries in ascending field order; a field number repeats only for repeated fields *)
Fixpoint entries_sorted (fs : list field) (prev : Z) (d : dmsg) : Prop :=
  match d with
  | [] => True
  | (k, _) :: r =>
      (prev < k \/ (prev = k /\ exists fd, find_field fs k = Some fd /\ is_list fd = true)) /\
      entries_sorted fs k r
  end.

(* one entry: its field exists and the value has the shape and range of the field's kind *)
Definition entry_ok (Sc : schema) (P : nat -> dmsg -> Prop) (fs : list field) (e : Z * dval) : Prop :=
  exists fd, find_field fs (fst e) = Some fd /\
    match wire_of_kind (fkind fd), fkind fd, snd e with
    | WVarint, _, DVar z => 0 <= z < two64
    | WI64, _, DFix raw => length raw = 8%nat
    | WI32, _, DFix raw => length raw = 4%nat
    | WLen, KMessage mi', DMsg d' => P mi' d' /\ Z.of_nat (length (canon Sc mi' d')) < two32
    | WLen, KString, DBytes b | WLen, KBytes, DBytes b => Z.of_nat (length b) < two32
    | _, _, _ => False
    end.

Fixpoint dmsg_ok (Sc : schema) (n : nat) (mi : nat) (d : dmsg) : Prop :=
  match n with
  | O => False
  | S n' =>
      exists m, nth_error Sc mi = Some m /\
        entries_sorted (mfields m) 0 d /\
        Forall (entry_ok Sc (dmsg_ok Sc n') (mfields m)) d
  end.

(* ---- the canonical bytes of a sorted message are its entries, one tag/value pair each ---- *)

Definition wval_of_dval (Sc : schema) (k : kind) (v : dval) : wval :=
  match v with
  | DVar z => VVar z
  | DFix raw => VFix raw
  | DBytes b => VLen b
  | DMsg _ => VLen (raw_of_dval Sc k v)
  end.

Definition tlv_of (Sc : schema) (fs : list field) (e : Z * dval) : tlv :=
  match find_field fs (fst e) with
  | Some fd => {| tnum := fst e; twire := wire_of_kind (fkind fd); tval := wval_of_dval Sc (fkind fd) (snd e) |}
  | None => {| tnum := fst e; twire := WVarint; tval := VVar 0 |}
  end.

Lemma emit_pure_app : forall fs a b, emit_pure fs (a ++ b) = emit_pure fs a ++ emit_pure fs b.
Proof.
  induction a as [|[k vs] a IH]; intros b; [reflexivity|]. cbn [app emit_pure].
  destruct (find_field fs k); [|apply IH]. destruct (emit_field k (fkind f) vs); rewrite IH; try reflexivity.
  rewrite app_assoc. reflexivity.
Qed.

Definition keys_lt (k : Z) (fm : fmap) : Prop := Forall (fun kv : Z * list bytes => fst kv < k) fm.

Lemma fmap_add_snoc_new : forall fm k vs, keys_lt k fm -> fmap_add fm k vs = fm ++ [(k, vs)].
Proof.
  induction fm as [|[k' vs'] fm IH]; intros k vs H; [reflexivity|].
  inversion H as [|? ? Hk Hr]; subst. cbn [fst] in Hk. cbn [fmap_add app].
  destruct (k <? k') eqn:E1; [apply Z.ltb_lt in E1; lia|].
  destruct (k =? k') eqn:E2; [apply Z.eqb_eq in E2; lia|].
  rewrite IH by assumption. reflexivity.
Qed.

Lemma fmap_add_snoc_same : forall fm k vs0 vs, keys_lt k fm ->
  fmap_add (fm ++ [(k, vs0)]) k vs = fm ++ [(k, vs0 ++ vs)].
Proof.
  induction fm as [|[k' vs'] fm IH]; intros k vs0 vs H.
  - cbn [app fmap_add]. rewrite Z.ltb_irrefl, Z.eqb_refl. reflexivity.
  - inversion H as [|? ? Hk Hr]; subst. cbn [fst] in Hk. cbn [fmap_add app].
    destruct (k <? k') eqn:E1; [apply Z.ltb_lt in E1; lia|].
    destruct (k =? k') eqn:E2; [apply Z.eqb_eq in E2; lia|].
    rewrite IH by assumption. reflexivity.
Qed.

(* the map after the entries up to key [prev]: everything below prev, or a last group at prev *)
Definition view (prev : Z) (fm : fmap) : Prop :=
  keys_lt prev fm \/ exists fm0 vs, fm = fm0 ++ [(prev, vs)] /\ keys_lt prev fm0.

Lemma keys_lt_mono : forall a b fm, a <= b -> keys_lt a fm -> keys_lt b fm.
Proof. intros a b fm H H0. eapply Forall_impl; [|exact H0]. cbn. intros; lia. Qed.

Lemma view_lt : forall prev k fm, prev < k -> view prev fm -> keys_lt k fm.
Proof.
  intros prev k fm H [H0|[fm0 [vs [-> H0]]]].
  - eapply keys_lt_mono; [|exact H0]. lia.
  - apply Forall_app. split; [eapply keys_lt_mono; [|exact H0]; lia|].
    constructor; [cbn; lia | constructor].
Qed.

Section Flat.
  Variable Sc : schema.
  Variable fs : list field.
  Hypothesis Hunp : forallb field_unpacked fs = true.

  Definition enc_entry (e : Z * dval) : bytes :=
    match find_field fs (fst e) with
    | Some fd =>
        match emit_field (fst e) (fkind fd) [raw_of_dval Sc (fkind fd) (snd e)] with
        | Ok b => b
        | _ => []
        end
    | None => []
    end.

  Lemma find_field_in : forall (l : list field) n fd, find_field l n = Some fd -> In fd l.
  Proof.
    induction l as [|f l IH]; intros n fd H; [discriminate|]. cbn [find_field] in H.
    destruct (fnum f =? n); [inversion H; left; reflexivity | right; eapply IH; eassumption].
  Qed.

  Lemma list_field_len : forall k fd, find_field fs k = Some fd -> is_list fd = true ->
    wire_of_kind (fkind fd) = WLen.
  Proof.
    intros k fd Hf Hl. apply find_field_in in Hf.
    rewrite forallb_forall in Hunp. specialize (Hunp fd Hf). unfold field_unpacked in Hunp.
    rewrite Hl in Hunp. cbn [negb orb] in Hunp. destruct (wire_of_kind (fkind fd)); congruence.
  Qed.

  (* adding the next entry of a sorted message appends its encoding *)
  Lemma emit_step : forall prev k v fm,
    view prev fm ->
    (prev < k \/ (prev = k /\ exists fd, find_field fs k = Some fd /\ is_list fd = true)) ->
    (exists fd, find_field fs k = Some fd) ->
    emit_pure fs (add1 fm (rawent Sc fs (k, v))) = emit_pure fs fm ++ enc_entry (k, v) /\
    view k (add1 fm (rawent Sc fs (k, v))).
  Proof.
    intros prev k v fm Hview Hord [fd Hfd].
    unfold add1, rawent, enc_entry. cbn [fst snd]. rewrite Hfd.
    set (raw := raw_of_dval Sc (fkind fd) v).
    assert (Hnew : keys_lt k fm ->
                   emit_pure fs (fmap_add fm k [raw]) =
                   emit_pure fs fm ++ match emit_field k (fkind fd) [raw] with Ok b => b | _ => [] end /\
                   view k (fmap_add fm k [raw])).
    { intros Hlt. rewrite fmap_add_snoc_new by assumption. split.
      - rewrite emit_pure_app. cbn [emit_pure]. rewrite Hfd.
        destruct (emit_field k (fkind fd) [raw]); rewrite ?app_nil_r; reflexivity.
      - right. exists fm, [raw]. split; [reflexivity | assumption]. }
    destruct Hord as [Hlt | [Heq [fd' [Hfd' Hlist]]]].
    - apply Hnew. eapply view_lt; eassumption.
    - subst prev. assert (fd' = fd) by congruence. subst fd'.
      destruct Hview as [Hlt | [fm0 [vs [-> Hlt]]]]; [apply Hnew; assumption|].
      rewrite fmap_add_snoc_same by assumption. split.
      + rewrite !emit_pure_app. cbn [emit_pure]. rewrite Hfd.
        pose proof (list_field_len k fd Hfd Hlist) as Hw.
        unfold emit_field. rewrite Hw. rewrite flat_map_app. cbn [flat_map].
        rewrite !app_nil_r. rewrite <- app_assoc. reflexivity.
      + right. exists fm0, (vs ++ [raw]). split; [reflexivity | assumption].
  Qed.

  Lemma emit_sorted : forall d prev fm,
    view prev fm -> entries_sorted fs prev d ->
    Forall (fun e : Z * dval => exists fd, find_field fs (fst e) = Some fd) d ->
    emit_pure fs (fold_left add1 (map (rawent Sc fs) d) fm) = emit_pure fs fm ++ flat_map enc_entry d.
  Proof.
    induction d as [|[k v] d IH]; intros prev fm Hview Hs Hf.
    - cbn. rewrite app_nil_r. reflexivity.
    - cbn [entries_sorted] in Hs. destruct Hs as [Hord Hs]. inversion Hf as [|? ? Hfd Hf']; subst.
      cbn [map fold_left flat_map]. cbn [fst] in Hfd.
      destruct (emit_step prev k v fm Hview Hord Hfd) as [He Hv].
      rewrite (IH k _ Hv Hs Hf'). rewrite He. rewrite <- app_assoc. reflexivity.
  Qed.

  (* the same walk for the shape used by singular_ok *)
  Lemma shape_step_ok : forall (chk : Z * list bytes -> bool) d prev fm,
    view prev fm -> entries_sorted fs prev d ->
    Forall (fun e : Z * dval => exists fd, find_field fs (fst e) = Some fd) d ->
    (forall k vs, (exists fd, find_field fs k = Some fd /\ (is_list fd = true \/ length vs = 1%nat)) -> chk (k, vs) = true) ->
    forallb chk fm = true ->
    (forall fm0 vs, fm = fm0 ++ [(prev, vs)] -> exists fd, find_field fs prev = Some fd /\ (is_list fd = true \/ length vs = 1%nat)) ->
    forallb chk (fold_left add1 (map (fun e : Z * dval => (fst e, @nil Z)) d) fm) = true.
  Proof.
    induction d as [|[k v] d IH]; intros prev fm Hview Hs Hf Hchk Hfm Hlast; [exact Hfm|].
    cbn [entries_sorted] in Hs. destruct Hs as [Hord Hs]. inversion Hf as [|? ? [fd Hfd] Hf']; subst.
    cbn [fst] in Hfd. cbn [map fold_left fst].
    change (add1 fm (k, @nil Z)) with (fmap_add fm k [[]]).
    assert (Hcase : (keys_lt k fm /\ fmap_add fm k [[]] = fm ++ [(k, [[]])]) \/
                    (is_list fd = true /\ exists fm0 vs, fm = fm0 ++ [(k, vs)] /\ keys_lt k fm0 /\
                                                     fmap_add fm k [[]] = fm0 ++ [(k, vs ++ [[]])])).
    { destruct Hord as [Hlt | [Heq [fd' [Hfd' Hlist]]]].
      - left. assert (keys_lt k fm) by (eapply view_lt; eassumption). split; [assumption | apply fmap_add_snoc_new; assumption].
      - subst prev. assert (fd' = fd) by congruence. subst fd'.
        destruct Hview as [Hlt | [fm0 [vs [-> Hlt]]]].
        + left. split; [assumption | apply fmap_add_snoc_new; assumption].
        + right. split; [assumption|]. exists fm0, vs. split; [reflexivity|]. split; [assumption|].
          apply fmap_add_snoc_same. assumption. }
    destruct Hcase as [[Hlt Hadd] | [Hlist [fm0 [vs [-> [Hlt Hadd]]]]]]; rewrite Hadd.
    - apply (IH k); try assumption.
      + right. exists fm, [[]]. split; [reflexivity | assumption].
      + rewrite forallb_app, Hfm. cbn [forallb]. rewrite Hchk; [reflexivity|].
        exists fd. split; [assumption | right; reflexivity].
      + intros fm1 vs1 Heq. apply app_inj_tail in Heq. destruct Heq as [_ Heq]. inversion Heq; subst.
        exists fd. split; [assumption | right; reflexivity].
    - apply (IH k); try assumption.
      + right. exists fm0, (vs ++ [[]]). split; [reflexivity | assumption].
      + rewrite forallb_app in Hfm. apply andb_true_iff in Hfm. destruct Hfm as [Hfm0 _].
        rewrite forallb_app, Hfm0. cbn [forallb]. rewrite Hchk; [reflexivity|].
        exists fd. split; [assumption | left; assumption].
      + intros fm1 vs1 Heq. apply app_inj_tail in Heq. destruct Heq as [_ Heq]. inversion Heq; subst.
        exists fd. split; [assumption | left; assumption].
  Qed.
End Flat.

(* ---- entries as tag/value pairs ---- *)

Lemma wire_eqb_refl : forall w, wire_eqb w w = true.
Proof. destruct w; reflexivity. Qed.

Lemma entry_enc_tlv : forall Sc P fs e, entry_ok Sc P fs e ->
  enc_entry Sc fs e = encode_tlv (tlv_of Sc fs e).
Proof.
  intros Sc P fs [k v] [fd [Hfd Hs]]. cbn [fst snd] in *.
  unfold enc_entry, tlv_of, encode_tlv. cbn [fst snd tnum twire tval]. rewrite Hfd. cbn [tnum twire tval].
  unfold emit_field.
  destruct (wire_of_kind (fkind fd)) eqn:Ew; destruct (fkind fd) eqn:Ek; cbn in Ew; try discriminate;
    destruct v; try contradiction; cbn [raw_of_dval wval_of_dval encode_wval flat_map length Nat.ltb Nat.leb];
    rewrite ?app_nil_r; reflexivity.
Qed.

Lemma entry_tlv_ok : forall Sc P fs e, entry_ok Sc P fs e -> 1 <= fst e < 536870912 -> tlv_ok (tlv_of Sc fs e).
Proof.
  intros Sc P fs [k v] [fd [Hfd Hs]] Hk. cbn [fst snd] in *.
  unfold tlv_of, tlv_ok. cbn [fst snd]. rewrite Hfd. cbn [tnum twire tval]. split; [assumption|].
  destruct (wire_of_kind (fkind fd)) eqn:Ew; destruct (fkind fd) eqn:Ek; cbn in Ew; try discriminate;
    destruct v; try contradiction; cbn [wval_of_dval wval_ok]; try assumption.
  destruct Hs as [_ Hl]. exact Hl.
Qed.

Lemma flat_enc_tlvs : forall Sc P fs d, Forall (entry_ok Sc P fs) d ->
  flat_map (enc_entry Sc fs) d = encode_tlvs (map (tlv_of Sc fs) d).
Proof.
  intros Sc P fs d H. induction H as [|e d He Hr IH]; [reflexivity|].
  cbn [flat_map map encode_tlvs]. fold (encode_tlvs (map (tlv_of Sc fs) d)).
  rewrite (entry_enc_tlv _ _ _ _ He), IH. reflexivity.
Qed.

Lemma denote_entries : forall Sc P (rec : nat -> bytes -> option dmsg) fs d,
  forallb field_canonical_ok fs = true ->
  Forall (entry_ok Sc P fs) d ->
  Forall (fun e : Z * dval =>
            forall fd mi' d', find_field fs (fst e) = Some fd -> fkind fd = KMessage mi' -> snd e = DMsg d' ->
                              rec mi' (canon Sc mi' d') = Some d') d ->
  denote_tlvs rec fs (map (tlv_of Sc fs) d) = Some d.
Proof.
  intros Sc P rec fs d Hcan H Hrec. induction H as [|[k v] d [fd [Hfd Hs]] Hr IH]; [reflexivity|].
  inversion Hrec as [|? ? Hrec1 Hrec2]; subst. cbn [fst snd] in *.
  assert (Ht : tlv_of Sc fs (k, v) =
               {| tnum := k; twire := wire_of_kind (fkind fd); tval := wval_of_dval Sc (fkind fd) v |})
    by (unfold tlv_of; cbn [fst snd]; rewrite Hfd; reflexivity).
  cbn [map denote_tlvs]. rewrite Ht. cbn [tnum]. rewrite Hfd.
  assert (Hok : field_canonical_ok fd = true).
  { rewrite forallb_forall in Hcan. apply Hcan. eapply find_field_in. eassumption. }
  rewrite Hok. cbn [negb]. rewrite (IH Hrec2).
  pose proof (find_field_num _ _ _ Hfd) as Hn.
  unfold denote_tlv. cbn [twire tval]. rewrite wire_eqb_refl. rewrite Hn.
  destruct (wire_of_kind (fkind fd)) eqn:Ew; destruct (fkind fd) eqn:Ek; cbn in Ew; try discriminate;
    destruct v; try contradiction; cbn [wval_of_dval dval_of_wval]; try reflexivity.
  change (raw_of_dval Sc (KMessage idx) (DMsg es)) with (canon Sc idx es).
  rewrite (Hrec1 fd idx es Hfd Ek eq_refl). reflexivity.
Qed.

(* ---- sizes ---- *)

Lemma flat_map_length_in : forall (A : Type) (f : A -> bytes) (l : list A) (a : A),
  In a l -> (length (f a) <= length (flat_map f l))%nat.
Proof.
  intros A f l a H. induction l as [|x l IH]; [contradiction|].
  cbn [flat_map]. rewrite app_length. destruct H as [->|H]; [lia | specialize (IH H); lia].
Qed.

Lemma enc_entry_msg_length : forall Sc fs k fd mi' d',
  find_field fs k = Some fd -> fkind fd = KMessage mi' ->
  (length (canon Sc mi' d') + 2 <= length (enc_entry Sc fs (k, DMsg d')))%nat.
Proof.
  intros Sc fs k fd mi' d' Hfd Hk. unfold enc_entry. cbn [fst snd]. rewrite Hfd, Hk.
  unfold emit_field. cbn [wire_of_kind flat_map]. rewrite app_nil_r.
  unfold encode_tag, encode_len_delim. rewrite !app_length.
  change (raw_of_dval Sc (KMessage mi') (DMsg d')) with (canon Sc mi' d').
  pose proof (encode_varint_length (k * 8 + wire_raw WLen)).
  pose proof (encode_varint_length (Z.of_nat (length (canon Sc mi' d')))). lia.
Qed.

(* ---- schema facts ---- *)

Lemma schema_nth_forallb : forall (Sc : schema) (f : message -> bool) mi m,
  forallb f Sc = true -> nth_error Sc mi = Some m -> f m = true.
Proof.
  intros Sc f mi m H Hn. rewrite forallb_forall in H. apply H. eapply nth_error_In. eassumption.
Qed.

Lemma field_range : forall Sc mi m k fd, schema_wf Sc = true -> nth_error Sc mi = Some m ->
  find_field (mfields m) k = Some fd -> 1 <= k < 536870912.
Proof.
  intros Sc mi m k fd Hwf Hn Hfd. unfold schema_wf in Hwf.
  pose proof (schema_nth_forallb Sc _ mi m Hwf Hn) as Hm. unfold message_wf in Hm.
  apply andb_true_iff in Hm. destruct Hm as [Hm _]. rewrite forallb_forall in Hm.
  pose proof (find_field_in _ _ _ Hfd) as Hin. specialize (Hm fd Hin). unfold field_wf in Hm.
  apply andb_true_iff in Hm. destruct Hm as [Hm _]. apply andb_true_iff in Hm. destruct Hm as [H1 H2].
  apply Z.leb_le in H1. apply Z.ltb_lt in H2. pose proof (find_field_num _ _ _ Hfd). lia.
Qed.

(* ---- the theorem ---- *)

Theorem denote_canon_fuel : forall Sc, schema_wf Sc = true -> schema_canonical_ok Sc = true ->
  schema_unpacked Sc = true ->
  forall n mi d f, dmsg_ok Sc n mi d -> (length (canon Sc mi d) < f)%nat ->
  denote_fuel f Sc mi (canon Sc mi d) = Some d.
Proof.
  intros Sc Hwf Hcan Hunp. induction n as [|n IH]; intros mi d f Hok Hf; [contradiction|].
  cbn [dmsg_ok] in Hok. destruct Hok as [m [Hn [Hsorted Hent]]].
  destruct f as [|f]; [lia|]. cbn [denote_fuel]. rewrite Hn.
  pose proof (schema_nth_forallb Sc _ mi m Hcan Hn) as Hmc. unfold message_canonical_ok in Hmc.
  apply andb_true_iff in Hmc. destruct Hmc as [H3 Hfc]. rewrite H3. cbn [negb].
  pose proof (schema_nth_forallb Sc _ mi m Hunp Hn) as Hmu.
  assert (Hfind : Forall (fun e : Z * dval => exists fd, find_field (mfields m) (fst e) = Some fd) d).
  { eapply Forall_impl; [|exact Hent]. intros e [fd [Hfd _]]. exists fd. exact Hfd. }
  assert (Hbytes : canon Sc mi d = encode_tlvs (map (tlv_of Sc (mfields m)) d)).
  { rewrite (canon_unfold Sc mi m d Hn). rewrite group_raw_fold.
    rewrite (emit_sorted Sc (mfields m) Hmu d 0 []); [| left; constructor | exact Hsorted | exact Hfind].
    cbn [emit_pure app]. apply (flat_enc_tlvs Sc (dmsg_ok Sc n)). exact Hent. }
  rewrite Hbytes at 1. rewrite tlv_roundtrip.
  2:{ clear - Hent Hwf Hn. induction Hent as [|e d He Hr IHe]; [constructor|]. cbn [map]. constructor; [|assumption].
      eapply entry_tlv_ok; [exact He|]. destruct He as [fd [Hfd _]]. eapply field_range; eassumption. }
  rewrite (denote_entries Sc (dmsg_ok Sc n) (denote_fuel f Sc) (mfields m) d Hfc Hent).
  - (* singular_ok *)
    assert (Hsing : singular_ok (mfields m) d = true).
    { unfold singular_ok, shape. rewrite group_raw_fold.
      apply (shape_step_ok (mfields m) _ d 0 []); try assumption.
      - left. constructor.
      - intros k vs [fd [Hfd Hc]]. cbn [fst snd]. rewrite Hfd.
        destruct Hc as [Hc|Hc]; [rewrite Hc; reflexivity | rewrite Hc; apply orb_true_r].
      - reflexivity.
      - intros fm0 vs Heq. destruct fm0; discriminate. }
    rewrite Hsing. reflexivity.
  - (* children *)
    rewrite Forall_forall. intros [k v] Hin fd mi' d' Hfd Hk Hv. cbn [fst snd] in *. subst v.
    rewrite Forall_forall in Hent. destruct (Hent _ Hin) as [fd' [Hfd' Hs]]. cbn [fst snd] in *.
    assert (fd' = fd) by congruence. subst fd'. rewrite Hk in Hs. cbn [wire_of_kind] in Hs.
    destruct Hs as [Hchild _].
    apply IH; [exact Hchild|].
    pose proof (enc_entry_msg_length Sc (mfields m) k fd mi' d' Hfd Hk) as Hl.
    pose proof (flat_map_length_in _ (enc_entry Sc (mfields m)) d _ Hin) as Hl2.
    assert (Hc : canon Sc mi d = flat_map (enc_entry Sc (mfields m)) d).
    { rewrite (canon_unfold Sc mi m d Hn). rewrite group_raw_fold.
      rewrite (emit_sorted Sc (mfields m) Hmu d 0 []); [reflexivity | left; constructor | exact Hsorted | exact Hfind]. }
    rewrite Hc in Hf. lia.
Qed.

(* the canonical bytes of a well-formed sorted value read back as exactly that value *)
Theorem denote_canon : forall Sc, schema_wf Sc = true -> schema_canonical_ok Sc = true ->
  schema_unpacked Sc = true ->
  forall n mi d, dmsg_ok Sc n mi d -> denote Sc mi (canon Sc mi d) = Some d.
Proof.
  intros Sc Hwf Hcan Hunp n mi d Hok. unfold denote. eapply denote_canon_fuel; try eassumption. lia.
Qed.

(* ... hence canonical bytes are a fixed point of canonical_raw *)
Theorem canonical_idempotent : forall Sc, schema_wf Sc = true -> schema_canonical_ok Sc = true ->
  schema_unpacked Sc = true ->
  forall n mi d, dmsg_ok Sc n mi d -> canonical_raw Sc mi (canon Sc mi d) = Ok (canon Sc mi d).
Proof.
  intros Sc Hwf Hcan Hunp n mi d Hok. apply canonical_normalises. eapply denote_canon; eassumption.
Qed.
