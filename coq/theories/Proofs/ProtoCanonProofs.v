(* The canonical bytes of a value read back as that value (schemas without repeated scalar
   fields, i.e. without packed encoding: all production schemas). *)
From Coq Require Import String ZArith List Bool Lia.
From EC Require Import Lib.Outcome Model.Wire Model.ProtoSchema Proofs.WireProofs Proofs.ProtoSchemaProofs.
Import ListNotations.
Open Scope list_scope.
Open Scope Z_scope.

(* ---- well-formed dynamic messages ---- *)

(* every repeated field is length-delimited: the writer never packs *)
Definition field_unpacked (f : field) : bool :=
  negb (is_list f) || match wire_of_kind (fkind f) with WLen => true | _ => false end.
Definition schema_unpacked (Sc : schema) : bool :=
  forallb (fun m => forallb field_unpacked (mfields m)) Sc.

(* entries in ascending field order; a field number repeats only for repeated fields *)
Fixpoint entries_sorted (fs : list field) (prev : Z) (d : dmsg) : Prop :=
  match d with
  | [] => True
  | (k, _) :: r =>
      (prev < k \/ (prev = k /\ exists fd, find_field fs k = Some fd /\ is_list fd = true)) /\
      entries_sorted fs k r
  end.

Section Ok.
  Variable Sc : schema.

  Fixpoint dmsg_ok (n : nat) (mi : nat) (d : dmsg) : Prop :=
    match n with
    | O => False
    | S n' =>
        exists m, nth_error Sc mi = Some m /\
          entries_sorted (mfields m) 0 d /\
          Forall (fun e : Z * dval =>
                    exists fd, find_field (mfields m) (fst e) = Some fd /\
                      match wire_of_kind (fkind fd), fkind fd, snd e with
                      | WVarint, _, DVar z => 0 <= z < two64
                      | WI64, _, DFix raw => length raw = 8%nat
                      | WI32, _, DFix raw => length raw = 4%nat
                      | WLen, KMessage mi', DMsg d' =>
                          dmsg_ok n' mi' d' /\ Z.of_nat (length (canon Sc mi' d')) < two32
                      | WLen, KString, DBytes b | WLen, KBytes, DBytes b => Z.of_nat (length b) < two32
                      | _, _, _ => False
                      end) d
    end.
End Ok.

(* ---- the canonical bytes of a sorted message are its entries, one tag/value pair each ---- *)

Definition wval_of_dval (Sc : schema) (k : kind) (v : dval) : wval :=
  match v with
  | DVar z => VVar z
  | DFix raw => VFix raw
  | DBytes b => VLen b
  | DMsg _ => VLen (raw_of_dval Sc k v)
  end.

Definition tlv_of (Sc : schema) (fs : list field) (e : Z * dval) : tlv :=
  match find_field fs (fst e) with
  | Some fd => {| tnum := fst e; twire := wire_of_kind (fkind fd); tval := wval_of_dval Sc (fkind fd) (snd e) |}
  | None => {| tnum := fst e; twire := WVarint; tval := VVar 0 |}
  end.

Lemma emit_pure_app : forall fs a b, emit_pure fs (a ++ b) = emit_pure fs a ++ emit_pure fs b.
Proof.
  induction a as [|[k vs] a IH]; intros b; [reflexivity|]. cbn [app emit_pure].
  destruct (find_field fs k); [|apply IH]. destruct (emit_field k (fkind f) vs); rewrite IH; try reflexivity.
  rewrite app_assoc. reflexivity.
Qed.

Definition keys_lt (k : Z) (fm : fmap) : Prop := Forall (fun kv : Z * list bytes => fst kv < k) fm.

Lemma fmap_add_snoc_new : forall fm k vs, keys_lt k fm -> fmap_add fm k vs = fm ++ [(k, vs)].
Proof.
  induction fm as [|[k' vs'] fm IH]; intros k vs H; [reflexivity|].
  inversion H as [|? ? Hk Hr]; subst. cbn [fst] in Hk. cbn [fmap_add app].
  destruct (k <? k') eqn:E1; [apply Z.ltb_lt in E1; lia|].
  destruct (k =? k') eqn:E2; [apply Z.eqb_eq in E2; lia|].
  rewrite IH by assumption. reflexivity.
Qed.

Lemma fmap_add_snoc_same : forall fm k vs0 vs, keys_lt k fm ->
  fmap_add (fm ++ [(k, vs0)]) k vs = fm ++ [(k, vs0 ++ vs)].
Proof.
  induction fm as [|[k' vs'] fm IH]; intros k vs0 vs H.
  - cbn [app fmap_add]. rewrite Z.ltb_irrefl, Z.eqb_refl. reflexivity.
  - inversion H as [|? ? Hk Hr]; subst. cbn [fst] in Hk. cbn [fmap_add app].
    destruct (k <? k') eqn:E1; [apply Z.ltb_lt in E1; lia|].
    destruct (k =? k') eqn:E2; [apply Z.eqb_eq in E2; lia|].
    rewrite IH by assumption. reflexivity.
Qed.

(* the map after the entries up to key [prev]: everything below prev, or a last group at prev *)
Definition view (prev : Z) (fm : fmap) : Prop :=
  keys_lt prev fm \/ exists fm0 vs, fm = fm0 ++ [(prev, vs)] /\ keys_lt prev fm0.

Lemma keys_lt_mono : forall a b fm, a <= b -> keys_lt a fm -> keys_lt b fm.
Proof. intros a b fm H H0. eapply Forall_impl; [|exact H0]. cbn. intros; lia. Qed.

Lemma view_lt : forall prev k fm, prev < k -> view prev fm -> keys_lt k fm.
Proof.
  intros prev k fm H [H0|[fm0 [vs [-> H0]]]].
  - eapply keys_lt_mono; [|exact H0]. lia.
  - apply Forall_app. split; [eapply keys_lt_mono; [|exact H0]; lia|].
    constructor; [cbn; lia | constructor].
Qed.

Section Flat.
  Variable Sc : schema.
  Variable fs : list field.
  Hypothesis Hunp : forallb field_unpacked fs = true.

  Definition enc_entry (e : Z * dval) : bytes :=
    match find_field fs (fst e) with
    | Some fd =>
        match emit_field (fst e) (fkind fd) [raw_of_dval Sc (fkind fd) (snd e)] with
        | Ok b => b
        | _ => []
        end
    | None => []
    end.

  Lemma find_field_in : forall (l : list field) n fd, find_field l n = Some fd -> In fd l.
  Proof.
    induction l as [|f l IH]; intros n fd H; [discriminate|]. cbn [find_field] in H.
    destruct (fnum f =? n); [inversion H; left; reflexivity | right; eapply IH; eassumption].
  Qed.

  Lemma list_field_len : forall k fd, find_field fs k = Some fd -> is_list fd = true ->
    wire_of_kind (fkind fd) = WLen.
  Proof.
    intros k fd Hf Hl. apply find_field_in in Hf.
    rewrite forallb_forall in Hunp. specialize (Hunp fd Hf). unfold field_unpacked in Hunp.
    rewrite Hl in Hunp. cbn [negb orb] in Hunp. destruct (wire_of_kind (fkind fd)); congruence.
  Qed.

  (* adding the next entry of a sorted message appends its encoding *)
  Lemma emit_step : forall prev k v fm,
    view prev fm ->
    (prev < k \/ (prev = k /\ exists fd, find_field fs k = Some fd /\ is_list fd = true)) ->
    (exists fd, find_field fs k = Some fd) ->
    emit_pure fs (add1 fm (rawent Sc fs (k, v))) = emit_pure fs fm ++ enc_entry (k, v) /\
    view k (add1 fm (rawent Sc fs (k, v))).
  Proof.
    intros prev k v fm Hview Hord [fd Hfd].
    unfold add1, rawent, enc_entry. cbn [fst snd]. rewrite Hfd.
    set (raw := raw_of_dval Sc (fkind fd) v).
    assert (Hnew : keys_lt k fm ->
                   emit_pure fs (fmap_add fm k [raw]) =
                   emit_pure fs fm ++ match emit_field k (fkind fd) [raw] with Ok b => b | _ => [] end /\
                   view k (fmap_add fm k [raw])).
    { intros Hlt. rewrite fmap_add_snoc_new by assumption. split.
      - rewrite emit_pure_app. cbn [emit_pure]. rewrite Hfd.
        destruct (emit_field k (fkind fd) [raw]); rewrite ?app_nil_r; reflexivity.
      - right. exists fm, [raw]. split; [reflexivity | assumption]. }
    destruct Hord as [Hlt | [Heq [fd' [Hfd' Hlist]]]].
    - apply Hnew. eapply view_lt; eassumption.
    - subst prev. assert (fd' = fd) by congruence. subst fd'.
      destruct Hview as [Hlt | [fm0 [vs [-> Hlt]]]]; [apply Hnew; assumption|].
      rewrite fmap_add_snoc_same by assumption. split.
      + rewrite !emit_pure_app. cbn [emit_pure]. rewrite Hfd.
        pose proof (list_field_len k fd Hfd Hlist) as Hw.
        unfold emit_field. rewrite Hw. rewrite flat_map_app. cbn [flat_map].
        rewrite !app_nil_r. rewrite <- app_assoc. reflexivity.
      + right. exists fm0, (vs ++ [raw]). split; [reflexivity | assumption].
  Qed.

  Lemma emit_sorted : forall d prev fm,
    view prev fm -> entries_sorted fs prev d ->
    Forall (fun e : Z * dval => exists fd, find_field fs (fst e) = Some fd) d ->
    emit_pure fs (fold_left add1 (map (rawent Sc fs) d) fm) = emit_pure fs fm ++ flat_map enc_entry d.
  Proof.
    induction d as [|[k v] d IH]; intros prev fm Hview Hs Hf.
    - cbn. rewrite app_nil_r. reflexivity.
    - cbn [entries_sorted] in Hs. destruct Hs as [Hord Hs]. inversion Hf as [|? ? Hfd Hf']; subst.
      cbn [map fold_left flat_map]. cbn [fst] in Hfd.
      destruct (emit_step prev k v fm Hview Hord Hfd) as [He Hv].
      rewrite (IH k _ Hv Hs Hf'). rewrite He. rewrite <- app_assoc. reflexivity.
  Qed.

  (* the same walk for the shape used by singular_ok *)
  Lemma shape_step_ok : forall (chk : Z * list bytes -> bool) d prev fm,
    view prev fm -> entries_sorted fs prev d ->
    Forall (fun e : Z * dval => exists fd, find_field fs (fst e) = Some fd) d ->
    (forall k vs, (exists fd, find_field fs k = Some fd /\ (is_list fd = true \/ length vs = 1%nat)) -> chk (k, vs) = true) ->
    forallb chk fm = true ->
    (forall fm0 vs, fm = fm0 ++ [(prev, vs)] -> exists fd, find_field fs prev = Some fd /\ (is_list fd = true \/ length vs = 1%nat)) ->
    forallb chk (fold_left add1 (map (fun e : Z * dval => (fst e, @nil Z)) d) fm) = true.
  Proof.
    induction d as [|[k v] d IH]; intros prev fm Hview Hs Hf Hchk Hfm Hlast; [exact Hfm|].
    cbn [entries_sorted] in Hs. destruct Hs as [Hord Hs]. inversion Hf as [|? ? [fd Hfd] Hf']; subst.
    cbn [fst] in Hfd. cbn [map fold_left fst].
    change (add1 fm (k, @nil Z)) with (fmap_add fm k [[]]).
    assert (Hcase : (keys_lt k fm /\ fmap_add fm k [[]] = fm ++ [(k, [[]])]) \/
                    (is_list fd = true /\ exists fm0 vs, fm = fm0 ++ [(k, vs)] /\ keys_lt k fm0 /\
                                                     fmap_add fm k [[]] = fm0 ++ [(k, vs ++ [[]])])).
    { destruct Hord as [Hlt | [Heq [fd' [Hfd' Hlist]]]].
      - left. assert (keys_lt k fm) by (eapply view_lt; eassumption). split; [assumption | apply fmap_add_snoc_new; assumption].
      - subst prev. assert (fd' = fd) by congruence. subst fd'.
        destruct Hview as [Hlt | [fm0 [vs [-> Hlt]]]].
        + left. split; [assumption | apply fmap_add_snoc_new; assumption].
        + right. split; [assumption|]. exists fm0, vs. split; [reflexivity|]. split; [assumption|].
          apply fmap_add_snoc_same. assumption. }
    destruct Hcase as [[Hlt Hadd] | [Hlist [fm0 [vs [-> [Hlt Hadd]]]]]]; rewrite Hadd.
    - apply (IH k); try assumption.
      + right. exists fm, [[]]. split; [reflexivity | assumption].
      + rewrite forallb_app, Hfm. cbn [forallb]. rewrite Hchk; [reflexivity|].
        exists fd. split; [assumption | right; reflexivity].
      + intros fm1 vs1 Heq. apply app_inj_tail in Heq. destruct Heq as [_ Heq]. inversion Heq; subst.
        exists fd. split; [assumption | right; reflexivity].
    - apply (IH k); try assumption.
      + right. exists fm0, (vs ++ [[]]). split; [reflexivity | assumption].
      + rewrite forallb_app in Hfm. apply andb_true_iff in Hfm. destruct Hfm as [Hfm0 _].
        rewrite forallb_app, Hfm0. cbn [forallb]. rewrite Hchk; [reflexivity|].
        exists fd. split; [assumption | left; assumption].
      + intros fm1 vs1 Heq. apply app_inj_tail in Heq. destruct Heq as [_ Heq]. inversion Heq; subst.
        exists fd. split; [assumption | left; assumption].
  Qed.
End Flat.
