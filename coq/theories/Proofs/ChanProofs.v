(* Lemmas about Model/Chan.v: the prunable queue in general (arrival order, accounting) and
   its bft instantiation (one message per sender and kind, no double discard, freshest kept). *)
From Coq Require Import ZArith List Bool Lia Permutation.
From EC Require Import Lib.Obs Model.Chan.
Import ListNotations.
Open Scope Z_scope.

(* ------------------------------------------------------------------ *)
(* specification vocabulary *)

(* l1 is a subsequence of l2 (same relative order, elements possibly missing) *)
Inductive subseq {A : Type} : list A -> list A -> Prop :=
| sub_nil : forall l, subseq [] l
| sub_skip : forall x l1 l2, subseq l1 l2 -> subseq l1 (x :: l2)
| sub_take : forall x l1 l2, subseq l1 l2 -> subseq (x :: l1) (x :: l2).

(* at most one pending message per (sender, kind) *)
Definition uniq (buf : list imsg) : Prop := NoDup (map imkey buf).

Definition haskey (k : Z * Z) (m : imsg) : bool :=
  (imsender m =? fst k) && (imkind m =? snd k).

(* the pending message of a (sender, kind), if any *)
Definition pending_of (k : Z * Z) (buf : list imsg) : option imsg := find (haskey k) buf.

(* History of a (sender, kind) [k] along a run: the validly signed messages of [k] sent
   since the last time a message of [k] was handed to the consumer. *)
Definition since_step (k : Z * Z) (st : hist (T := imsg) * list imsg) (o : op imsg)
  : hist (T := imsg) * list imsg :=
  let (h, s) := st in
  (qstep h o,
   match o with
   | Send x => if imsig x && haskey k x then s ++ [x] else s
   | Recv => match hbuf h with
             | y :: _ => if haskey k y then [] else s
             | [] => s
             end
   end).
Definition since_run (k : Z * Z) (ops : list (op imsg)) : hist (T := imsg) * list imsg :=
  fold_left (since_step k) ops (hist0, []).
Definition since (k : Z * Z) (ops : list (op imsg)) : list imsg := snd (since_run k ops).

(* ------------------------------------------------------------------ *)
(* subsequences *)

Lemma subseq_refl {A} (l : list A) : subseq l l.
Proof. induction l; constructor; assumption. Qed.

Lemma subseq_trans {A} (l1 l2 l3 : list A) : subseq l1 l2 -> subseq l2 l3 -> subseq l1 l3.
Proof.
  intros H12 H23. revert l1 H12.
  induction H23 as [l|x l2 l3 H IH|x l2 l3 H IH]; intros l1 H12.
  - inversion H12; subst. constructor.
  - apply sub_skip. apply IH. exact H12.
  - inversion H12; subst.
    + constructor.
    + apply sub_skip. apply IH. assumption.
    + apply sub_take. apply IH. assumption.
Qed.

Lemma subseq_filter {A} (f : A -> bool) (l : list A) : subseq (filter f l) l.
Proof.
  induction l as [|a l IH]; cbn [filter]; [constructor|].
  destruct (f a); constructor; exact IH.
Qed.

Lemma subseq_app {A} (a a' b b' : list A) :
  subseq a a' -> subseq b b' -> subseq (a ++ b) (a' ++ b').
Proof.
  intros Ha Hb. induction Ha as [l|x l1 l2 H IH|x l1 l2 H IH]; cbn [app].
  - induction l as [|y l IHl]; cbn [app]; [exact Hb|apply sub_skip; exact IHl].
  - apply sub_skip. exact IH.
  - apply sub_take. exact IH.
Qed.

Lemma subseq_app_r {A} (l1 l2 l3 : list A) : subseq l1 l2 -> subseq l1 (l2 ++ l3).
Proof.
  intros H. rewrite <- (app_nil_r l1). apply subseq_app; [exact H|constructor].
Qed.

Lemma subseq_incl {A} (l1 l2 : list A) : subseq l1 l2 -> incl l1 l2.
Proof.
  induction 1 as [l|x l1 l2 H IH|x l1 l2 H IH]; intros a Ha.
  - destruct Ha.
  - right. apply IH. exact Ha.
  - destruct Ha as [->|Ha]; [left; reflexivity|right; apply IH; exact Ha].
Qed.

(* ------------------------------------------------------------------ *)
(* the generic queue *)

Section GenericFacts.
  Context {T : Type}.
  Variable pred : T -> bool.
  Variable sel : T -> T -> selres.

  Definition keeps (x y : T) : bool := match sel y x with DiscardOld => false | _ => true end.
  Definition rejects (x y : T) : bool := match sel y x with DiscardNew => true | _ => false end.

  (* the single retain pass = a filter, a conjunction and the complementary filter *)
  Lemma retain_spec : forall buf x k,
    retain sel buf x k =
    (filter (keeps x) buf, k && negb (existsb (rejects x) buf),
     filter (fun y => negb (keeps x y)) buf).
  Proof.
    induction buf as [|y b IH]; intros x k; cbn [retain filter existsb].
    - rewrite andb_true_r. reflexivity.
    - assert (Hk : keeps x y = match sel y x with DiscardOld => false | _ => true end) by reflexivity.
      assert (Hr : rejects x y = match sel y x with DiscardNew => true | _ => false end) by reflexivity.
      rewrite Hk, Hr. destruct (sel y x) eqn:E; rewrite IH; cbn [negb orb].
      + reflexivity.
      + reflexivity.
      + cbn [andb]. rewrite andb_false_r. reflexivity.
  Qed.

  Lemma send_full_spec : forall buf x,
    send_full pred sel buf x =
    if pred x then
      if negb (existsb (rejects x) buf)
      then (filter (keeps x) buf ++ [x], filter (fun y => negb (keeps x y)) buf)
      else (filter (keeps x) buf, filter (fun y => negb (keeps x y)) buf ++ [x])
    else (buf, [x]).
  Proof.
    intros buf x. unfold send_full. destruct (pred x); [|reflexivity].
    rewrite retain_spec. cbn [andb]. reflexivity.
  Qed.

  Lemma filter_partition_perm : forall (f : T -> bool) l,
    Permutation l (filter f l ++ filter (fun y => negb (f y)) l).
  Proof.
    intros f. induction l as [|a l IH]; cbn [filter app]; [constructor|].
    destruct (f a); cbn [negb app].
    - constructor. exact IH.
    - apply Permutation_cons_app. exact IH.
  Qed.

  (* a send neither invents nor loses anything: old buffer + new value = new buffer + destroyed *)
  Lemma send_full_perm : forall buf x,
    Permutation (buf ++ [x]) (fst (send_full pred sel buf x) ++ snd (send_full pred sel buf x)).
  Proof.
    intros buf x. rewrite send_full_spec.
    destruct (pred x); [|cbn [fst snd]; reflexivity].
    pose proof (filter_partition_perm (keeps x) buf) as HP.
    destruct (negb (existsb (rejects x) buf)); cbn [fst snd].
    - rewrite <- app_assoc.
      etransitivity; [apply Permutation_app_tail; exact HP|].
      rewrite <- !app_assoc. apply Permutation_app_head. apply Permutation_app_comm.
    - rewrite app_assoc. apply Permutation_app_tail. exact HP.
  Qed.

  Lemma send_subseq : forall buf x, subseq (send pred sel buf x) (buf ++ [x]).
  Proof.
    intros buf x. unfold send. rewrite send_full_spec.
    destruct (pred x); cbn [fst].
    - destruct (negb (existsb (rejects x) buf)); cbn [fst].
      + apply subseq_app; [apply subseq_filter|apply subseq_refl].
      + apply subseq_app_r. apply subseq_filter.
    - apply subseq_app_r. apply subseq_refl.
  Qed.

  Lemma run_snoc : forall ops o, run pred sel (ops ++ [o]) = step pred sel (run pred sel ops) o.
  Proof. intros ops o. unfold run. rewrite fold_left_app. reflexivity. Qed.

  (* invariant-style induction over histories *)
  Lemma run_ind : forall (P : hist (T := T) -> Prop),
    P hist0 -> (forall h o, P h -> P (step pred sel h o)) -> forall ops, P (run pred sel ops).
  Proof.
    intros P H0 HS ops. induction ops as [|o ops IH] using rev_ind.
    - exact H0.
    - rewrite run_snoc. apply HS. exact IH.
  Qed.

  Lemma step_send : forall h x,
    step pred sel h (Send x) =
    {| hbuf := fst (send_full pred sel (hbuf h) x); hrecv := hrecv h;
       hdrop := hdrop h ++ snd (send_full pred sel (hbuf h) x); hsent := hsent h ++ [x] |}.
  Proof. intros h x. cbn [step]. destruct (send_full pred sel (hbuf h) x). reflexivity. Qed.

  Lemma step_recv_nil : forall h, hbuf h = [] -> step pred sel h Recv = h.
  Proof. intros h E. cbn [step]. rewrite E. reflexivity. Qed.

  Lemma step_recv_cons : forall h y b, hbuf h = y :: b ->
    step pred sel h Recv =
    {| hbuf := b; hrecv := hrecv h ++ [y]; hdrop := hdrop h; hsent := hsent h |}.
  Proof. intros h y b E. cbn [step]. rewrite E. reflexivity. Qed.

  (* arrival order: what was received, followed by what is pending, is a subsequence of what
     was sent *)
  Lemma fifo_generic : forall ops,
    let h := run pred sel ops in subseq (hrecv h ++ hbuf h) (hsent h).
  Proof.
    intros ops. cbv zeta. apply run_ind.
    - constructor.
    - intros h o IH. cbv beta in IH |- *. destruct o as [x|].
      + rewrite step_send. cbn [hbuf hrecv hsent].
        apply subseq_trans with (l2 := hrecv h ++ (hbuf h ++ [x])).
        * apply subseq_app; [apply subseq_refl|apply send_subseq].
        * rewrite app_assoc. apply subseq_app; [exact IH|apply subseq_refl].
      + destruct (hbuf h) as [|y b] eqn:E.
        * rewrite (step_recv_nil h E), E. exact IH.
        * rewrite (step_recv_cons h y b E). cbn [hbuf hrecv hsent].
          rewrite <- app_assoc. cbn [app]. exact IH.
  Qed.

  (* accounting: every sent value is exactly one of received / pending / destroyed *)
  Lemma accounting_generic : forall ops,
    let h := run pred sel ops in Permutation (hsent h) (hrecv h ++ hbuf h ++ hdrop h).
  Proof.
    intros ops. cbv zeta. apply run_ind.
    - constructor.
    - intros h o IH. cbv beta in IH |- *. destruct o as [x|].
      + rewrite step_send. cbn [hbuf hrecv hsent hdrop].
        pose proof (send_full_perm (hbuf h) x) as HP.
        etransitivity; [apply Permutation_app_tail; exact IH|].
        rewrite <- !app_assoc. apply Permutation_app_head.
        (* hbuf ++ hdrop ++ [x]  ~  fst ++ hdrop ++ snd *)
        etransitivity; [apply Permutation_app_head; apply Permutation_app_comm|].
        rewrite app_assoc. etransitivity; [apply Permutation_app_tail; exact HP|].
        rewrite <- app_assoc. apply Permutation_app_head. apply Permutation_app_comm.
      + destruct (hbuf h) as [|y b] eqn:E.
        * rewrite (step_recv_nil h E), E. exact IH.
        * rewrite (step_recv_cons h y b E). cbn [hbuf hrecv hsent hdrop].
          rewrite <- app_assoc. cbn [app]. exact IH.
  Qed.
End GenericFacts.

(* ------------------------------------------------------------------ *)
(* the bft instantiation *)

Lemma samekey_key : forall a b, samekey a b = true <-> imkey a = imkey b.
Proof.
  intros a b. unfold samekey, imkey. rewrite andb_true_iff, !Z.eqb_eq. split.
  - intros [H1 H2]. rewrite H1, H2. reflexivity.
  - intros H. inversion H. split; reflexivity.
Qed.

Lemma samekey_false_key : forall a b, samekey a b = false <-> imkey a <> imkey b.
Proof.
  intros a b. split.
  - intros H E. apply samekey_key in E. rewrite E in H. discriminate.
  - intros H. destruct (samekey a b) eqn:E; [|reflexivity]. apply samekey_key in E. contradiction.
Qed.

Lemma haskey_key : forall k m, haskey k m = true <-> imkey m = k.
Proof.
  intros [k1 k2] m. unfold haskey, imkey. cbn [fst snd]. rewrite andb_true_iff, !Z.eqb_eq. split.
  - intros [H1 H2]. rewrite H1, H2. reflexivity.
  - intros H. inversion H. split; reflexivity.
Qed.

Lemma haskey_samekey : forall k x z, haskey k x = true -> haskey k z = samekey z x.
Proof.
  intros k x z Hx. apply haskey_key in Hx.
  destruct (samekey z x) eqn:E.
  - apply haskey_key. apply samekey_key in E. congruence.
  - destruct (haskey k z) eqn:F; [|reflexivity]. apply haskey_key in F.
    apply samekey_false_key in E. congruence.
Qed.

Lemma haskey_other : forall k x z, haskey k x = false -> samekey z x = true -> haskey k z = false.
Proof.
  intros k x z Hx Hs. destruct (haskey k z) eqn:F; [|reflexivity].
  apply haskey_key in F. apply samekey_key in Hs.
  assert (imkey x = k) as Hk by congruence. apply haskey_key in Hk. congruence.
Qed.

Lemma select_cases : forall y x,
  inbound_select y x =
  if samekey y x then (if imview y <? imview x then DiscardOld else DiscardNew) else Keep.
Proof.
  intros y x. unfold inbound_select, samekey.
  destruct (imsender y =? imsender x), (imkind y =? imkind x); reflexivity.
Qed.

Lemma keeps_inbound : forall x y,
  keeps inbound_select x y = negb (samekey y x && (imview y <? imview x)).
Proof.
  intros x y. unfold keeps. rewrite select_cases.
  destruct (samekey y x), (imview y <? imview x); reflexivity.
Qed.

Lemma rejects_inbound : forall x y,
  rejects inbound_select x y = samekey y x && negb (imview y <? imview x).
Proof.
  intros x y. unfold rejects. rewrite select_cases.
  destruct (samekey y x), (imview y <? imview x); reflexivity.
Qed.

Lemma uniq_cons : forall a b, uniq (a :: b) <-> (forall z, In z b -> samekey z a = false) /\ uniq b.
Proof.
  intros a b. unfold uniq. cbn [map]. rewrite NoDup_cons_iff. split.
  - intros [Hn Hu]. split; [|exact Hu]. intros z Hz. apply samekey_false_key. intros E.
    apply Hn. rewrite <- E. apply in_map. exact Hz.
  - intros [Hn Hu]. split; [|exact Hu]. intros Hin. apply in_map_iff in Hin.
    destruct Hin as (z & Hk & Hz). specialize (Hn z Hz). apply samekey_false_key in Hn. congruence.
Qed.

Lemma uniq_inj : forall l a b, uniq l -> In a l -> In b l -> imkey a = imkey b -> a = b.
Proof.
  induction l as [|c l IH]; intros a b Hu Ha Hb Hk; [destruct Ha|].
  apply uniq_cons in Hu. destruct Hu as [Hn Hu].
  destruct Ha as [<-|Ha], Hb as [<-|Hb].
  - reflexivity.
  - specialize (Hn b Hb). apply samekey_false_key in Hn. congruence.
  - specialize (Hn a Ha). apply samekey_false_key in Hn. congruence.
  - exact (IH a b Hu Ha Hb Hk).
Qed.

Lemma samekey_sym : forall a b, samekey a b = samekey b a.
Proof. intros a b. unfold samekey. rewrite (Z.eqb_sym (imsender a)), (Z.eqb_sym (imkind a)). reflexivity. Qed.

Lemma samekey_trans_false : forall a y x, samekey y x = true -> samekey a y = false -> samekey a x = false.
Proof.
  intros a y x H1 H2. apply samekey_false_key. apply samekey_false_key in H2. apply samekey_key in H1. congruence.
Qed.

Lemma uniq_split : forall buf x, uniq buf ->
  (forall z, In z buf -> samekey z x = false) \/
  (exists l1 y l2, buf = l1 ++ y :: l2 /\ samekey y x = true /\
                   forall z, In z (l1 ++ l2) -> samekey z x = false).
Proof.
  induction buf as [|a b IH]; intros x Hu.
  - left. intros z [].
  - apply uniq_cons in Hu. destruct Hu as [Hn Hu].
    destruct (samekey a x) eqn:Ea.
    + right. exists [], a, b. split; [reflexivity|]. split; [exact Ea|].
      cbn [app]. intros z Hz. exact (samekey_trans_false z a x Ea (Hn z Hz)).
    + destruct (IH x Hu) as [Hall|(l1 & y & l2 & -> & Hy & Hrest)].
      * left. intros z [<-|Hz]; [exact Ea|exact (Hall z Hz)].
      * right. exists (a :: l1), y, l2. split; [reflexivity|]. split; [exact Hy|].
        cbn [app]. intros z [<-|Hz]; [exact Ea|exact (Hrest z Hz)].
Qed.

Lemma all_keep : forall l x, (forall z, In z l -> samekey z x = false) ->
  filter (keeps inbound_select x) l = l /\
  existsb (rejects inbound_select x) l = false /\
  filter (fun y => negb (keeps inbound_select x y)) l = [].
Proof.
  induction l as [|a l IH]; intros x H; cbn [filter existsb]; [repeat split|].
  assert (Ha : samekey a x = false) by (apply H; left; reflexivity).
  destruct (IH x (fun z Hz => H z (or_intror Hz))) as (E1 & E2 & E3).
  rewrite keeps_inbound, rejects_inbound, Ha. cbn [andb negb orb]. rewrite E1, E2, E3. repeat split.
Qed.

(* what one send does to a buffer that satisfies the invariant *)
Lemma qsend_full_cases : forall buf x, uniq buf -> imsig x = true ->
  ((forall z, In z buf -> samekey z x = false) /\ qsend_full buf x = (buf ++ [x], []))
  \/ (exists l1 y l2, buf = l1 ++ y :: l2 /\ samekey y x = true /\
        (forall z, In z (l1 ++ l2) -> samekey z x = false) /\
        ((imview y < imview x /\ qsend_full buf x = (l1 ++ l2 ++ [x], [y])) \/
         (imview x <= imview y /\ qsend_full buf x = (buf, [x])))).
Proof.
  intros buf x Hu Hs. unfold qsend_full. rewrite send_full_spec. unfold inbound_filter. rewrite Hs.
  destruct (uniq_split buf x Hu) as [Hall|(l1 & y & l2 & -> & Hy & Hrest)].
  - left. split; [exact Hall|]. destruct (all_keep buf x Hall) as (E1 & E2 & E3).
    rewrite E1, E2, E3. reflexivity.
  - right. exists l1, y, l2. split; [reflexivity|]. split; [exact Hy|]. split; [exact Hrest|].
    destruct (all_keep l1 x (fun z Hz => Hrest z (in_or_app _ _ _ (or_introl Hz)))) as (A1 & A2 & A3).
    destruct (all_keep l2 x (fun z Hz => Hrest z (in_or_app _ _ _ (or_intror Hz)))) as (B1 & B2 & B3).
    rewrite !filter_app, existsb_app. cbn [filter existsb].
    rewrite keeps_inbound, rejects_inbound, Hy, A1, A2, A3, B1, B2, B3. cbn [andb orb].
    destruct (imview y <? imview x) eqn:Ev; cbn [negb orb app].
    + left. split; [apply Z.ltb_lt; exact Ev|]. rewrite <- app_assoc. reflexivity.
    + right. split; [apply Z.ltb_ge; exact Ev|]. reflexivity.
Qed.

Lemma qsend_full_invalid : forall buf x, imsig x = false -> qsend_full buf x = (buf, [x]).
Proof. intros buf x H. unfold qsend_full, send_full, inbound_filter. rewrite H. reflexivity. Qed.

Lemma uniq_snoc : forall l x, uniq l -> (forall z, In z l -> samekey z x = false) -> uniq (l ++ [x]).
Proof.
  induction l as [|a l IH]; intros x Hu Hn; cbn [app].
  - apply uniq_cons. split; [intros z []|constructor].
  - apply uniq_cons in Hu. destruct Hu as [Ha Hu]. apply uniq_cons. split.
    + intros z Hz. apply in_app_or in Hz. destruct Hz as [Hz|[<-|[]]]; [exact (Ha z Hz)|].
      rewrite samekey_sym. apply Hn. left. reflexivity.
    + apply IH; [exact Hu|]. intros z Hz. apply Hn. right. exact Hz.
Qed.

Lemma uniq_remove : forall l1 y l2, uniq (l1 ++ y :: l2) -> uniq (l1 ++ l2).
Proof.
  intros l1 y l2. unfold uniq. rewrite !map_app. cbn [map]. apply NoDup_remove_1.
Qed.

Lemma qsend_uniq : forall buf x, uniq buf -> uniq (qsend buf x).
Proof.
  intros buf x Hu. unfold qsend, send. fold (qsend_full buf x).
  destruct (imsig x) eqn:Hs; [|rewrite (qsend_full_invalid buf x Hs); exact Hu].
  destruct (qsend_full_cases buf x Hu Hs) as [[Hall ->]|(l1 & y & l2 & -> & Hy & Hrest & [[_ ->]|[_ ->]])];
    cbn [fst].
  - apply uniq_snoc; assumption.
  - rewrite app_assoc. apply uniq_snoc; [exact (uniq_remove l1 y l2 Hu)|exact Hrest].
  - exact Hu.
Qed.

Lemma qstep_send_buf : forall h x, hbuf (qstep h (Send x)) = qsend (hbuf h) x.
Proof. intros h x. unfold qstep. rewrite step_send. reflexivity. Qed.

Lemma qstep_uniq : forall h o, uniq (hbuf h) -> uniq (hbuf (qstep h o)).
Proof.
  intros h [x|] Hu.
  - rewrite qstep_send_buf. apply qsend_uniq. exact Hu.
  - unfold qstep. destruct (hbuf h) as [|y b] eqn:E.
    + rewrite (step_recv_nil _ _ h E), E. exact Hu.
    + rewrite (step_recv_cons _ _ h y b E). cbn [hbuf]. apply uniq_cons in Hu. exact (proj2 Hu).
Qed.

(* chan_inv *)
Lemma chan_inv_lemma : forall ops, uniq (hbuf (qrun ops)).
Proof.
  intros ops. unfold qrun. apply (run_ind inbound_filter inbound_select (fun h => uniq (hbuf h))).
  - constructor.
  - intros h o IH. exact (qstep_uniq h o IH).
Qed.

Lemma pending_were_sent : forall ops m, In m (hbuf (qrun ops)) -> In m (hsent (qrun ops)).
Proof.
  intros ops m Hm. pose proof (fifo_generic inbound_filter inbound_select ops) as H. cbv zeta in H.
  apply (subseq_incl _ _ H). apply in_or_app. right. exact Hm.
Qed.

(* the bound: four messages per sender that has been seen *)
Lemma chan_bounded_lemma : forall ops (S : list Z),
  (forall m, In m (hsent (qrun ops)) -> In (imsender m) S /\ 0 <= imkind m < 4) ->
  (length (hbuf (qrun ops)) <= 4 * length S)%nat.
Proof.
  intros ops S Hs. pose proof (chan_inv_lemma ops) as Hu. unfold uniq in Hu.
  rewrite <- (map_length imkey).
  replace (4 * length S)%nat with (length (list_prod S [0; 1; 2; 3])).
  2:{ rewrite prod_length. cbn [length]. lia. }
  apply NoDup_incl_length; [exact Hu|].
  intros k Hk. apply in_map_iff in Hk. destruct Hk as (m & <- & Hm).
  destruct (Hs m (pending_were_sent ops m Hm)) as [H1 H2].
  unfold imkey. apply in_prod; [exact H1|].
  assert (imkind m = 0 \/ imkind m = 1 \/ imkind m = 2 \/ imkind m = 3) as Hc by lia.
  cbn [In]. destruct Hc as [-> | [-> | [-> | ->]]]; auto.
Qed.

(* no_double_discard *)
Lemma no_double_discard_lemma : forall buf x y y', uniq buf -> In y buf -> In y' buf ->
  inbound_select y x = DiscardOld -> inbound_select y' x = DiscardNew -> False.
Proof.
  intros buf x y y' Hu Hy Hy' H1 H2. rewrite select_cases in H1, H2.
  destruct (samekey y x) eqn:E1; [|discriminate]. destruct (samekey y' x) eqn:E2; [|discriminate].
  apply samekey_key in E1, E2. assert (y = y') as <- by (apply (uniq_inj buf); congruence).
  destruct (imview y <? imview x); discriminate.
Qed.

(* why a message is destroyed *)
Lemma dropped_cases : forall buf x d, uniq buf -> In d (snd (qsend_full buf x)) ->
  (d = x /\ imsig x = false /\ qsend buf x = buf)
  \/ (d = x /\ imsig x = true /\ qsend buf x = buf /\
      exists p, In p buf /\ imkey p = imkey x /\ imview x <= imview p)
  \/ (In d buf /\ imsig x = true /\ In x (qsend buf x) /\ ~ In d (qsend buf x) /\
      imkey x = imkey d /\ imview d < imview x).
Proof.
  intros buf x d Hu Hd. unfold qsend, send. fold (qsend_full buf x).
  destruct (imsig x) eqn:Hs.
  - destruct (qsend_full_cases buf x Hu Hs) as [[Hall E]|(l1 & y & l2 & Hb & Hy & Hrest & [[Hv E]|[Hv E]])];
      rewrite E in Hd |- *; cbn [fst snd] in Hd |- *.
    + destruct Hd.
    + destruct Hd as [<-|[]]. right. right. subst buf.
      split; [apply in_or_app; right; left; reflexivity|]. split; [reflexivity|].
      split; [apply in_or_app; right; apply in_or_app; right; left; reflexivity|].
      split.
      * intros Hin. rewrite app_assoc in Hin. apply in_app_or in Hin. destruct Hin as [Hin|[<-|[]]].
        -- specialize (Hrest y Hin). congruence.
        -- lia.
      * split; [symmetry; apply samekey_key; exact Hy|exact Hv].
    + destruct Hd as [<-|[]]. right. left. split; [reflexivity|]. split; [reflexivity|].
      split; [reflexivity|]. exists y. subst buf.
      split; [apply in_or_app; right; left; reflexivity|].
      split; [apply samekey_key; exact Hy|exact Hv].
  - rewrite (qsend_full_invalid buf x Hs) in Hd |- *. cbn [fst snd] in Hd |- *.
    destruct Hd as [<-|[]]. left. repeat split.
Qed.

Lemma dropped_at_most_one : forall buf x, uniq buf -> (length (snd (qsend_full buf x)) <= 1)%nat.
Proof.
  intros buf x Hu. destruct (imsig x) eqn:Hs.
  - destruct (qsend_full_cases buf x Hu Hs) as [[_ ->]|(l1 & y & l2 & _ & _ & _ & [[_ ->]|[_ ->]])];
      cbn [snd length]; lia.
  - rewrite (qsend_full_invalid buf x Hs). cbn [snd length]. lia.
Qed.

(* ------------------------------------------------------------------ *)
(* the pending message of a (sender, kind) is the best one sent since the last delivery *)

Definition better (cur : option imsg) (m : imsg) : option imsg :=
  match cur with
  | None => Some m
  | Some c => if imview c <? imview m then Some m else Some c
  end.
Definition best (s : list imsg) : option imsg := fold_left better s None.

Lemma best_snoc : forall s x, best (s ++ [x]) = better (best s) x.
Proof. intros s x. unfold best. rewrite fold_left_app. reflexivity. Qed.

Lemma best_spec : forall s,
  match best s with
  | None => s = []
  | Some p => exists s1 s2, s = s1 ++ p :: s2 /\
                (forall m, In m s1 -> imview m < imview p) /\
                (forall m, In m s2 -> imview m <= imview p)
  end.
Proof.
  induction s as [|x s IH] using rev_ind; [reflexivity|].
  rewrite best_snoc. destruct (best s) as [c|]; cbn [better].
  - destruct IH as (s1 & s2 & -> & H1 & H2).
    destruct (imview c <? imview x) eqn:Ev.
    + apply Z.ltb_lt in Ev. exists (s1 ++ c :: s2), []. split; [reflexivity|]. split; [|intros m []].
      intros m Hm. apply in_app_or in Hm. destruct Hm as [Hm|[<-|Hm]].
      * specialize (H1 m Hm). lia.
      * exact Ev.
      * specialize (H2 m Hm). lia.
    + apply Z.ltb_ge in Ev. exists s1, (s2 ++ [x]). split; [rewrite <- app_assoc; reflexivity|].
      split; [exact H1|]. intros m Hm. apply in_app_or in Hm. destruct Hm as [Hm|[<-|[]]].
      * exact (H2 m Hm).
      * exact Ev.
  - subst s. exists [], []. split; [reflexivity|]. split; intros m [].
Qed.

Lemma find_app_none {A} (f : A -> bool) : forall l1 l2,
  (forall z, In z l1 -> f z = false) -> find f (l1 ++ l2) = find f l2.
Proof.
  induction l1 as [|a l1 IH]; intros l2 H; cbn [app find]; [reflexivity|].
  rewrite (H a (or_introl eq_refl)). apply IH. intros z Hz. apply H. right. exact Hz.
Qed.

Lemma find_none_all {A} (f : A -> bool) : forall l, (forall z, In z l -> f z = false) -> find f l = None.
Proof.
  intros l H. rewrite <- (app_nil_r l). rewrite find_app_none; [reflexivity|exact H].
Qed.

Lemma find_snoc_false {A} (f : A -> bool) : forall l x, f x = false -> find f (l ++ [x]) = find f l.
Proof.
  induction l as [|a l IH]; intros x H; cbn [app find].
  - rewrite H. reflexivity.
  - destruct (f a); [reflexivity|]. apply IH. exact H.
Qed.

Lemma find_remove_false {A} (f : A -> bool) : forall l1 y l2, f y = false ->
  find f (l1 ++ y :: l2) = find f (l1 ++ l2).
Proof.
  induction l1 as [|a l1 IH]; intros y l2 H; cbn [app find].
  - rewrite H. reflexivity.
  - destruct (f a); [reflexivity|]. apply IH. exact H.
Qed.

Lemma since_run_snoc : forall k ops o, since_run k (ops ++ [o]) = since_step k (since_run k ops) o.
Proof. intros k ops o. unfold since_run. rewrite fold_left_app. reflexivity. Qed.

Lemma since_run_fst : forall k ops, fst (since_run k ops) = qrun ops.
Proof.
  intros k ops. induction ops as [|o ops IH] using rev_ind; [reflexivity|].
  rewrite since_run_snoc. unfold qrun. rewrite run_snoc. fold (qrun ops). rewrite <- IH.
  destruct (since_run k ops) as [h s]. reflexivity.
Qed.

Lemma pending_step : forall k h s o, uniq (hbuf h) ->
  pending_of k (hbuf h) = best s ->
  pending_of k (hbuf (fst (since_step k (h, s) o))) = best (snd (since_step k (h, s) o)).
Proof.
  intros k h s o Hu Hinv. unfold pending_of in *. cbn [since_step fst snd].
  destruct o as [x|].
  - rewrite qstep_send_buf. unfold qsend, send. fold (qsend_full (hbuf h) x).
    destruct (imsig x) eqn:Hs; cbn [andb].
    2:{ rewrite (qsend_full_invalid _ x Hs). exact Hinv. }
    destruct (haskey k x) eqn:Hk.
    + (* a message of this sender and kind *)
      rewrite best_snoc.
      destruct (qsend_full_cases (hbuf h) x Hu Hs)
        as [[Hall E]|(l1 & y & l2 & Hb & Hy & Hrest & [[Hv E]|[Hv E]])]; rewrite E; cbn [fst].
      * assert (Hn : forall z, In z (hbuf h) -> haskey k z = false).
        { intros z Hz. rewrite (haskey_samekey k x z Hk). exact (Hall z Hz). }
        rewrite (find_app_none _ _ _ Hn). rewrite (find_none_all _ _ Hn) in Hinv.
        rewrite <- Hinv. cbn [find better]. rewrite Hk. reflexivity.
      * rewrite Hb in Hinv.
        assert (Hn1 : forall z, In z l1 -> haskey k z = false).
        { intros z Hz. rewrite (haskey_samekey k x z Hk). apply Hrest. apply in_or_app. left. exact Hz. }
        assert (Hn2 : forall z, In z l2 -> haskey k z = false).
        { intros z Hz. rewrite (haskey_samekey k x z Hk). apply Hrest. apply in_or_app. right. exact Hz. }
        rewrite (find_app_none _ _ _ Hn1) in Hinv. cbn [find] in Hinv.
        rewrite (haskey_samekey k x y Hk), Hy in Hinv. rewrite <- Hinv. cbn [better].
        apply Z.ltb_lt in Hv. rewrite Hv.
        rewrite (find_app_none _ _ _ Hn1), (find_app_none _ _ _ Hn2). cbn [find]. rewrite Hk. reflexivity.
      * rewrite <- Hinv. rewrite Hb.
        assert (Hn1 : forall z, In z l1 -> haskey k z = false).
        { intros z Hz. rewrite (haskey_samekey k x z Hk). apply Hrest. apply in_or_app. left. exact Hz. }
        rewrite (find_app_none _ _ _ Hn1). cbn [find].
        rewrite (haskey_samekey k x y Hk), Hy. cbn [better].
        apply Z.ltb_ge in Hv. rewrite Hv. reflexivity.
    + (* a message of another sender or kind does not touch this one *)
      rewrite <- Hinv.
      destruct (qsend_full_cases (hbuf h) x Hu Hs)
        as [[Hall E]|(l1 & y & l2 & Hb & Hy & Hrest & [[Hv E]|[Hv E]])]; rewrite E; cbn [fst].
      * apply find_snoc_false. exact Hk.
      * rewrite Hb. rewrite app_assoc. rewrite (find_snoc_false _ _ _ Hk).
        symmetry. apply find_remove_false. exact (haskey_other k x y Hk Hy).
      * reflexivity.
  - unfold qstep. destruct (hbuf h) as [|y b] eqn:E.
    + rewrite (step_recv_nil _ _ h E), E. exact Hinv.
    + rewrite (step_recv_cons _ _ h y b E). cbn [hbuf]. cbn [find] in Hinv.
      destruct (haskey k y) eqn:Hk.
      * cbn [best fold_left]. apply find_none_all. intros z Hz.
        apply uniq_cons in Hu. destruct Hu as [Hn _].
        rewrite (haskey_samekey k y z Hk). exact (Hn z Hz).
      * exact Hinv.
Qed.

Lemma pending_is_best : forall k ops, pending_of k (hbuf (qrun ops)) = best (since k ops).
Proof.
  intros k ops. unfold since. induction ops as [|o ops IH] using rev_ind; [reflexivity|].
  rewrite <- (since_run_fst k (ops ++ [o])). rewrite since_run_snoc.
  rewrite <- (since_run_fst k ops) in IH.
  pose proof (chan_inv_lemma ops) as Hu. rewrite <- (since_run_fst k ops) in Hu.
  destruct (since_run k ops) as [h s]. cbn [fst snd] in IH, Hu.
  exact (pending_step k h s o Hu IH).
Qed.

Lemma pending_is_max_lemma : forall k ops,
  match pending_of k (hbuf (qrun ops)) with
  | None => since k ops = []
  | Some p => exists s1 s2, since k ops = s1 ++ p :: s2 /\
                (forall m, In m s1 -> imview m < imview p) /\
                (forall m, In m s2 -> imview m <= imview p)
  end.
Proof. intros k ops. rewrite pending_is_best. apply best_spec. Qed.

(* ------------------------------------------------------------------ *)
(* destroyed messages along a history *)

Lemma hdrop_send : forall ops x,
  hdrop (qrun (ops ++ [Send x])) = hdrop (qrun ops) ++ snd (qsend_full (hbuf (qrun ops)) x).
Proof.
  intros ops x. unfold qrun. rewrite run_snoc, step_send. reflexivity.
Qed.

Lemma hbuf_send : forall ops x, hbuf (qrun (ops ++ [Send x])) = qsend (hbuf (qrun ops)) x.
Proof.
  intros ops x. unfold qrun. rewrite run_snoc, step_send. reflexivity.
Qed.

(* a receive destroys nothing *)
Lemma hdrop_recv : forall ops, hdrop (qrun (ops ++ [Recv])) = hdrop (qrun ops).
Proof.
  intros ops. unfold qrun. rewrite run_snoc. fold (qrun ops).
  destruct (hbuf (qrun ops)) as [|y b] eqn:E.
  - rewrite (step_recv_nil _ _ _ E). reflexivity.
  - rewrite (step_recv_cons _ _ _ y b E). reflexivity.
Qed.

(* Every destroyed message either had an invalid signature or, right after the send that
   destroyed it, a message of the same sender and kind with an equal or higher view was
   pending. *)
Lemma drop_only_if_lemma : forall ops d, In d (hdrop (qrun ops)) ->
  imsig d = false \/
  exists ops1 x ops2 p, ops = ops1 ++ Send x :: ops2 /\
    In p (hbuf (qrun (ops1 ++ [Send x]))) /\ imkey p = imkey d /\ imview d <= imview p.
Proof.
  induction ops as [|o ops IH] using rev_ind; intros d Hd; [destruct Hd|].
  assert (Hold : In d (hdrop (qrun ops)) -> imsig d = false \/
            exists ops1 x ops2 p, ops ++ [o] = ops1 ++ Send x :: ops2 /\
              In p (hbuf (qrun (ops1 ++ [Send x]))) /\ imkey p = imkey d /\ imview d <= imview p).
  { intros H. destruct (IH d H) as [Hs|(ops1 & x & ops2 & p & -> & Hp)]; [left; exact Hs|].
    right. exists ops1, x, (ops2 ++ [o]), p. split; [|exact Hp].
    rewrite <- app_assoc. reflexivity. }
  destruct o as [x|].
  - rewrite hdrop_send in Hd. apply in_app_or in Hd. destruct Hd as [Hd|Hd]; [exact (Hold Hd)|].
    destruct (dropped_cases _ x d (chan_inv_lemma ops) Hd)
      as [(-> & Hs & _)|[(-> & Hs & Eb & p & Hp & Hk & Hv)|(Hin & Hs & Hx & _ & Hk & Hv)]].
    + left. exact Hs.
    + right. exists ops, x, [], p. split; [reflexivity|]. rewrite hbuf_send, Eb. repeat split; assumption.
    + right. exists ops, x, [], x. split; [reflexivity|]. rewrite hbuf_send.
      split; [exact Hx|]. split; [exact Hk|lia].
  - rewrite hdrop_recv in Hd. exact (Hold Hd).
Qed.
