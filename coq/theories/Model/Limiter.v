(* Model of the rate limiter node/libs/concurrency/src/limiter/mod.rs (property C15)
   and of the permit-per-OPEN bookkeeping of mux/reusable_stream.rs + rpc/mod.rs.

   Integers are Z.  usize is 64 bit; the usize / i128 saturations of the Rust code are
   modelled literally (usize_or_max, saturating_add, saturating_sub, saturating_mul,
   duration_or_max) and the checked usize operations (`+=`, `-=`, `-`) return an explicit
   Panic when they would overflow with overflow-checks on.

   Time is a Z count of nanoseconds on the monotone clock of the context; [start] is the
   clock reading at Limiter::new.  The clock never gets further than time::Duration::MAX
   from [start] (LTick is not enabled beyond that: `now - start` could not be computed),
   so `start.checked_add(Duration::MAX)` = None, i.e. an infinite deadline, coincides with
   a finite deadline that is never reached.

   The limiter is a transition system with the atomic steps of DESIGN.md (C15):
     LTick d    the clock advances by d >= 0
     LBegin p   a caller enters acquire(p): it joins the FIFO queue of the fair `acquire`
                mutex (head of the queue = lock holder); burst < p blocks for ever;
                refresh <= 0 returns an empty permit at once
     LWait      the lock holder passes `wait_for(burst - reserved >= permits)` and computes
                `need` (one critical section of the watch channel, H-ATOM)
     LGrant     the lock holder's sleep is over: advance(need); reserved += p; lock released
     LCancel id the acquire call [id] is cancelled before it was granted
     LDrop id   Permit::drop of a granted permit
   Labels that are not enabled are skipped, so every label list is a run. *)
From Coq Require Import ZArith List Bool.
From EC Require Import Lib.Outcome Lib.Obs.
Import ListNotations.
Open Scope Z_scope.

Definition usize_max : Z := 18446744073709551615.
Definition i128_max : Z := 170141183460469231731687303715884105727.
Definition i128_min : Z := -170141183460469231731687303715884105728.
(* time::Duration::MAX.whole_nanoseconds() = i64::MAX s + 999_999_999 ns *)
Definition nanos_max : Z := 9223372036854775807999999999.

Record cfg := { burst : Z; refresh : Z; start : Z }.

(* struct State *)
Record lstate := { rt : Z (* refresh_ticks *); pm : Z (* permits *); rs : Z (* reserved *) }.

Definition usize_or_max (v : Z) : Z := if v >? usize_max then usize_max else v.
Definition usize_sat_add (a b : Z) : Z := if a + b >? usize_max then usize_max else a + b.
Definition usize_sat_sub (a b : Z) : Z := if a <? b then 0 else a - b.
Definition usize_add (a b : Z) : outcome unit Z :=
  if a + b >? usize_max then Panic POverflow else Ok (a + b).
Definition usize_sub (a b : Z) : outcome unit Z :=
  if a <? b then Panic POverflow else Ok (a - b).
Definition i128_sat_mul (a b : Z) : Z :=
  let m := a * b in if m >? i128_max then i128_max else if m <? i128_min then i128_min else m.

(* State::advance *)
Definition advance (c : cfg) (s : lstate) (t : Z) : lstate :=
  if t <? rt s then s
  else
    let add := usize_or_max (t - rt s) in
    {| rt := t; pm := Z.min (usize_sat_add (pm s) add) (burst c); rs := rs s |}.

(* (ctx.now() - start).whole_nanoseconds() / refresh   (i128 division truncates) *)
Definition ticks (c : cfg) (now : Z) : Z := Z.quot (now - start c) (refresh c).

(* duration_or_max(refresh.saturating_mul(need)) *)
Definition sleep_ns (c : cfg) (need : Z) : Z :=
  let d := i128_sat_mul (refresh c) need in
  if d >? nanos_max then nanos_max else d.

(* `if need > 0 { sleep_until(start + ...) }` is over *)
Definition deadline_reached (c : cfg) (need now : Z) : bool :=
  (need <=? 0) || (start c + sleep_ns c need <=? now).

Inductive phase := PWait | PSleep (need : Z).

Record sys := {
  st : lstate;
  now : Z;
  queue : list (nat * Z);        (* waiters of the fair mutex, head = holder: (id, permits) *)
  ph : phase;                    (* where the holder is *)
  blocked : list nat;            (* callers with burst < permits *)
  held : list (nat * Z);         (* live Permit objects: (id, Permit.permits) *)
  grants : list (nat * Z * Z);   (* newest first: id, time, permits reserved *)
  drops : list (nat * Z * Z);    (* newest first: id, time, permits consumed *)
  nextid : nat
}.

Inductive label :=
| LTick (d : Z) | LBegin (p : Z) | LWait | LGrant | LCancel (id : nat) | LDrop (id : nat).

Definition init (c : cfg) : sys :=
  {| st := {| rt := 0; pm := burst c; rs := 0 |}; now := start c; queue := []; ph := PWait;
     blocked := []; held := []; grants := []; drops := []; nextid := 0 |}.

Fixpoint find_id (id : nat) (l : list (nat * Z)) : option Z :=
  match l with
  | [] => None
  | (i, p) :: l' => if Nat.eqb i id then Some p else find_id id l'
  end.
Fixpoint remove_id (id : nat) (l : list (nat * Z)) : list (nat * Z) :=
  match l with
  | [] => []
  | (i, p) :: l' => if Nat.eqb i id then l' else (i, p) :: remove_id id l'
  end.
Fixpoint mem_nat (id : nat) (l : list nat) : bool :=
  match l with [] => false | i :: l' => Nat.eqb i id || mem_nat id l' end.
Fixpoint remove_nat (id : nat) (l : list nat) : list nat :=
  match l with [] => [] | i :: l' => if Nat.eqb i id then l' else i :: remove_nat id l' end.

Definition set_st (s : sys) (x : lstate) : sys :=
  {| st := x; now := now s; queue := queue s; ph := ph s; blocked := blocked s; held := held s;
     grants := grants s; drops := drops s; nextid := nextid s |}.

(* Err tt = the label is not enabled in this state. *)
Definition step (c : cfg) (s : sys) (l : label) : outcome unit sys :=
  match l with
  | LTick d =>
      (* the clock is monotone and `ctx.now() - start` stays a representable time::Duration *)
      if (d <? 0) || (nanos_max <=? now s + d - start c) then Err tt else
      Ok {| st := st s; now := now s + d; queue := queue s; ph := ph s; blocked := blocked s;
            held := held s; grants := grants s; drops := drops s; nextid := nextid s |}
  | LBegin p =>
      if (p <? 0) || (p >? usize_max) then Err tt else
      let id := nextid s in
      if burst c <? p then
        Ok {| st := st s; now := now s; queue := queue s; ph := ph s; blocked := id :: blocked s;
              held := held s; grants := grants s; drops := drops s; nextid := S id |}
      else if refresh c <=? 0 then
        Ok {| st := st s; now := now s; queue := queue s; ph := ph s; blocked := blocked s;
              held := (id, 0) :: held s; grants := (id, now s, 0) :: grants s; drops := drops s;
              nextid := S id |}
      else
        Ok {| st := st s; now := now s; queue := queue s ++ [(id, p)]; ph := ph s;
              blocked := blocked s; held := held s; grants := grants s; drops := drops s;
              nextid := S id |}
  | LWait =>
      match queue s, ph s with
      | (id, p) :: _, PWait =>
          let* free := usize_sub (burst c) (rs (st s)) in
          if free <? p then Err tt else
          let* want := usize_add (rs (st s)) p in
          let need := rt (st s) + usize_sat_sub want (pm (st s)) in
          Ok {| st := st s; now := now s; queue := queue s; ph := PSleep need; blocked := blocked s;
                held := held s; grants := grants s; drops := drops s; nextid := nextid s |}
      | _, _ => Err tt
      end
  | LGrant =>
      match queue s, ph s with
      | (id, p) :: q', PSleep need =>
          if deadline_reached c need (now s) then
            let s1 := advance c (st s) need in
            let* r := usize_add (rs s1) p in
            Ok {| st := {| rt := rt s1; pm := pm s1; rs := r |}; now := now s; queue := q';
                  ph := PWait; blocked := blocked s; held := (id, p) :: held s;
                  grants := (id, now s, p) :: grants s; drops := drops s; nextid := nextid s |}
          else Err tt
      | _, _ => Err tt
      end
  | LCancel id =>
      match queue s with
      | (h, hp) :: q' =>
          if Nat.eqb h id then
            Ok {| st := st s; now := now s; queue := q'; ph := PWait; blocked := blocked s;
                  held := held s; grants := grants s; drops := drops s; nextid := nextid s |}
          else
            match find_id id q' with
            | Some _ =>
                Ok {| st := st s; now := now s; queue := (h, hp) :: remove_id id q';
                      ph := ph s; blocked := blocked s; held := held s; grants := grants s;
                      drops := drops s; nextid := nextid s |}
            | None =>
                if mem_nat id (blocked s) then
                  Ok {| st := st s; now := now s; queue := queue s; ph := ph s;
                        blocked := remove_nat id (blocked s); held := held s; grants := grants s;
                        drops := drops s; nextid := nextid s |}
                else Err tt
            end
      | [] =>
          if mem_nat id (blocked s) then
            Ok {| st := st s; now := now s; queue := queue s; ph := ph s;
                  blocked := remove_nat id (blocked s); held := held s; grants := grants s;
                  drops := drops s; nextid := nextid s |}
          else Err tt
      end
  | LDrop id =>
      match find_id id (held s) with
      | None => Err tt
      | Some p =>
          if p =? 0 then
            Ok {| st := st s; now := now s; queue := queue s; ph := ph s; blocked := blocked s;
                  held := remove_id id (held s); grants := grants s; drops := drops s;
                  nextid := nextid s |}
          else
            let s1 := advance c (st s) (ticks c (now s)) in
            let* r := usize_sub (rs s1) p in
            let* m := usize_sub (pm s1) p in
            Ok {| st := {| rt := rt s1; pm := m; rs := r |}; now := now s; queue := queue s;
                  ph := ph s; blocked := blocked s; held := remove_id id (held s);
                  grants := grants s; drops := (id, now s, p) :: drops s; nextid := nextid s |}
      end
  end.

(* Runs a label list; labels that are not enabled are skipped; a panic stops the run. *)
Fixpoint exec (c : cfg) (s : sys) (ls : list label) : outcome unit sys :=
  match ls with
  | [] => Ok s
  | l :: ls' =>
      match step c s l with
      | Ok s' => exec c s' ls'
      | Err _ => exec c s ls'
      | Panic p => Panic p
      end
  end.

(* ------------------------------------------------------------------------- *)
(* Deterministic scripts (what the harness does): after every operation the single
   threaded runtime runs every task to quiescence, i.e. LWait / LGrant fire while enabled. *)

(* OAdvX d: the clock moves by d but nothing is polled before the next operation (the woken sleeper
   oversleeps: a clock jump, or the runtime is busy): the late wake-up schedules, in which e.g. a
   Permit::drop at a later tick precedes the waiter's own `advance(need)` with an older tick. *)
Inductive op := OAcq (p : Z) | OCancel (k : nat) | ODrop (k : nat) | OAdv (d : Z) | OAdvX (d : Z).

Definition op_label (o : op) : label :=
  match o with
  | OAcq p => LBegin p | OCancel k => LCancel k | ODrop k => LDrop k | OAdv d => LTick d | OAdvX d => LTick d
  end.

(* The internal labels fired by [settle], most recent last. *)
Fixpoint settle_labels (c : cfg) (fuel : nat) (s : sys) : list label :=
  match fuel with
  | O => []
  | S f =>
      match step c s LWait with
      | Ok s1 => LWait :: settle_labels c f s1
      | Panic _ => [LWait]
      | Err _ =>
          match step c s LGrant with
          | Ok s2 => LGrant :: settle_labels c f s2
          | Panic _ => [LGrant]
          | Err _ => []
          end
      end
  end.

Definition settle_fuel (s : sys) : nat := 2 * length (queue s) + 2.

Definition settle (c : cfg) (s : sys) : outcome unit sys :=
  exec c s (settle_labels c (settle_fuel s) s).

(* the internal steps that follow an operation *)
Definition op_settle (c : cfg) (o : op) (s : sys) : list label :=
  match o with OAdvX _ => [] | _ => settle_labels c (settle_fuel s) s end.

Definition do_op (c : cfg) (s : sys) (o : op) : outcome unit sys :=
  match step c s (op_label o) with
  | Ok s' => exec c s' (op_settle c o s')
  | Err _ => exec c s (op_settle c o s)     (* a no-op operation: the runtime still polls whoever is due *)
  | Panic p => Panic p
  end.

Fixpoint run_ops (c : cfg) (s : sys) (os : list op) : outcome unit sys :=
  match os with
  | [] => Ok s
  | o :: os' => let* s' := do_op c s o in run_ops c s' os'
  end.

(* The label list a script amounts to (used to transfer the theorems to scripts). *)
Fixpoint script_labels (c : cfg) (s : sys) (os : list op) : list label :=
  match os with
  | [] => []
  | o :: os' =>
      match step c s (op_label o) with
      | Ok s1 =>
          let ls := op_settle c o s1 in
          match exec c s1 ls with
          | Ok s2 => op_label o :: ls ++ script_labels c s2 os'
          | _ => op_label o :: ls
          end
      | Err _ =>
          let ls := op_settle c o s in
          match exec c s ls with
          | Ok s2 => ls ++ script_labels c s2 os'
          | _ => ls
          end
      | Panic _ => [op_label o]
      end
  end.

(* ------------------------------------------------------------------------- *)
(* Observation for the correspondence: the grant log (oldest first: id, time) and the final status of every acquire call
   (0 pending, 1 granted and still held, 2 granted and dropped, 3 cancelled). *)

Fixpoint mem_grant (id : nat) (g : list (nat * Z * Z)) : bool :=
  match g with [] => false | (i, _, _) :: g' => Nat.eqb i id || mem_grant id g' end.

Definition status (s : sys) (id : nat) : Z :=
  match find_id id (held s) with
  | Some _ => 1
  | None =>
      if mem_grant id (grants s) then 2
      else match find_id id (queue s) with
           | Some _ => 0
           | None => if mem_nat id (blocked s) then 0 else 3
           end
  end.

Definition obs_grant (g : nat * Z * Z) : obsv :=
  let '(id, t, _) := g in OL [OZ (Z.of_nat id); OZ t].

Definition obs_sys (s : sys) : obsv :=
  OL [ OZ 0;
       OL (map obs_grant (rev (grants s)));
       OL (map (fun i => OZ (status s i)) (seq 0 (nextid s)));
       OZ (now s) ].

(* A case: burst, refresh (ns, may be <= 0), clock offset of Limiter::new, script. *)
Definition run_case (x : Z * Z * Z * list op) : obsv :=
  let '(b, r, s0, os) := x in
  let c := {| burst := b; refresh := r; start := s0 |} in
  match run_ops c (init c) os with
  | Ok s => obs_sys s
  | Err _ => OL [OZ 2]
  | Panic p => OL [OZ 1; OZ (panic_code p)]
  end.

(* ------------------------------------------------------------------------- *)
(* Permit-per-OPEN bookkeeping of a StreamQueue (mux/reusable_stream.rs): [n] reusable streams
   of one capability share one limiter.  Each runs the loop
     send_close; limiter.acquire(1); (OPEN handshake: push / send_open / recv_open);
     hand the transient stream to the application; permit dropped (end of iteration);
     wait until the application drops the stream.
   rpc::Server::serve reserves one such stream per in-flight call.  The remote side and the
   application only influence *when* RAcquire / ROpen / RClose happen. *)

Inductive rstatus := RIdle | RAcq (id : nat) | ROpened.

Record rsys := { lim : sys; streams : list rstatus; opens : list (nat * Z) (* stream, time *) }.

Inductive rlabel :=
| RLim (l : label)       (* only LTick / LWait / LGrant are accepted *)
| RAcquire (i : nat)     (* stream i: send_close done, calls limiter.acquire(ctx, 1) *)
| ROpen (i : nat)        (* stream i: permit granted, OPEN sent, stream handed over, permit dropped *)
| RClose (i : nat)       (* the application dropped transient stream i *)
| RAbort (i : nat).      (* the connection is torn down while stream i waits in acquire *)

Fixpoint set_nth {A} (i : nat) (x : A) (l : list A) : list A :=
  match l, i with
  | [], _ => []
  | _ :: l', O => x :: l'
  | y :: l', S i' => y :: set_nth i' x l'
  end.

Definition rinit (c : cfg) (n : nat) : rsys :=
  {| lim := init c; streams := repeat RIdle n; opens := [] |}.

Definition rstep (c : cfg) (s : rsys) (l : rlabel) : outcome unit rsys :=
  match l with
  | RLim l0 =>
      match l0 with
      | LTick _ | LWait | LGrant =>
          let* x := step c (lim s) l0 in
          Ok {| lim := x; streams := streams s; opens := opens s |}
      | _ => Err tt
      end
  | RAcquire i =>
      match nth_error (streams s) i with
      | Some RIdle =>
          let* x := step c (lim s) (LBegin 1) in
          Ok {| lim := x; streams := set_nth i (RAcq (nextid (lim s))) (streams s); opens := opens s |}
      | _ => Err tt
      end
  | ROpen i =>
      match nth_error (streams s) i with
      | Some (RAcq id) =>
          match find_id id (held (lim s)) with
          | Some _ =>
              let* x := step c (lim s) (LDrop id) in
              Ok {| lim := x; streams := set_nth i ROpened (streams s);
                    opens := (i, now (lim s)) :: opens s |}
          | None => Err tt
          end
      | _ => Err tt
      end
  | RClose i =>
      match nth_error (streams s) i with
      | Some ROpened => Ok {| lim := lim s; streams := set_nth i RIdle (streams s); opens := opens s |}
      | _ => Err tt
      end
  | RAbort i =>
      match nth_error (streams s) i with
      | Some (RAcq id) =>
          let* x := step c (lim s) (LCancel id) in
          Ok {| lim := x; streams := set_nth i RIdle (streams s); opens := opens s |}
      | _ => Err tt
      end
  end.

Fixpoint rexec (c : cfg) (s : rsys) (ls : list rlabel) : outcome unit rsys :=
  match ls with
  | [] => Ok s
  | l :: ls' =>
      match rstep c s l with
      | Ok s' => rexec c s' ls'
      | Err _ => rexec c s ls'
      | Panic p => Panic p
      end
  end.

Definition n_open (s : rsys) : nat :=
  length (filter (fun x => match x with ROpened => true | _ => false end) (streams s)).

(* ------------------------------------------------------------------------- *)
(* Trace acceptance for the StreamQueue model.  The harness observes, per side of a real Mux,
   the times at which transient streams are handed to the application (opened? = true) and
   dropped by it (false).  The trace is replayed on [rsys]: every reusable stream calls
   acquire as early as it can (at start-up and the moment its transient stream is dropped),
   the limiter runs to quiescence after every event, and an observed open is accepted only if
   some stream holds a granted permit at that instant. *)

Fixpoint find_stream (P : rstatus -> bool) (l : list rstatus) (i : nat) : option nat :=
  match l with
  | [] => None
  | x :: l' => if P x then Some i else find_stream P l' (S i)
  end.

Definition rsettle (c : cfg) (s : rsys) : outcome unit rsys :=
  rexec c s (map RLim (settle_labels c (settle_fuel (lim s)) (lim s))).

Definition can_open (s : rsys) (x : rstatus) : bool :=
  match x with
  | RAcq id => match find_id id (held (lim s)) with Some _ => true | None => false end
  | _ => false
  end.

Definition is_opened (x : rstatus) : bool := match x with ROpened => true | _ => false end.

(* returns (accepted?, number of events consumed, final state) *)
Fixpoint accept_events (c : cfg) (s : rsys) (evs : list (Z * bool)) (k : Z) : bool * Z * rsys :=
  match evs with
  | [] => (true, k, s)
  | (t, opened) :: evs' =>
      let d := t - now (lim s) in
      if d <? 0 then (false, k, s) else
      match (let* s1 := rexec c s [RLim (LTick d)] in rsettle c s1) with
      | Ok s2 =>
          if negb (now (lim s2) =? t) then (false, k, s2) else
          if opened then
            match find_stream (can_open s2) (streams s2) 0 with
            | Some i =>
                match rexec c s2 [ROpen i] with
                | Ok s3 => accept_events c s3 evs' (k + 1)
                | _ => (false, k, s2)
                end
            | None => (false, k, s2)
            end
          else
            match find_stream is_opened (streams s2) 0 with
            | Some i =>
                match (let* s3 := rexec c s2 [RClose i; RAcquire i] in rsettle c s3) with
                | Ok s4 => accept_events c s4 evs' (k + 1)
                | _ => (false, k, s2)
                end
            | None => (false, k, s2)
            end
      | _ => (false, k, s)
      end
  end.

(* case: burst, refresh, number of reusable streams, observed events (time, opened?) *)
Definition accept_trace (x : Z * Z * nat * list (Z * bool)) : obsv :=
  let '(b, r, n, evs) := x in
  let c := {| burst := b; refresh := r; start := 0 |} in
  match (let* s0 := rexec c (rinit c n) (map RAcquire (seq 0 n)) in rsettle c s0) with
  | Ok s0 =>
      let '(ok, k, s) := accept_events c s0 evs 0 in
      OL [ob ok; OZ k; OZ (Z.of_nat (length (opens s)))]
  | _ => OL [OZ 2]
  end.
