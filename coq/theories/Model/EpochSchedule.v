(* Model of the epoch-schedule map of the EngineManager and of its updater task
     node/libs/engine/src/manager.rs: EngineManager::new (static insert), validator_schedule,
       epoch_for_block, verify_payload's epoch check, queue_block's lookup of the schedule of
       b.epoch(), EngineManagerRunner::run third task (wait for pre-genesis, initial insert from
       get_validator_schedule(head), loop: head > last activation -> get_pending_validator_schedule
       -> insert cur_epoch.next(), expire the previous entry, prune the oldest of three).
   It extends Model/BlockStore.v: the block-store steps run under the configuration whose epoch
   relation is the current map ([cfg_view]); the engine's answers are inputs of the steps.
   No proofs in this file. *)
From Coq Require Import ZArith List Bool.
From EC Require Import Lib.Outcome Lib.Obs Model.BlockStore.
Import ListNotations.
Open Scope Z_scope.

(* ScheduleWithLifetime under its epoch number; the schedule is a committee id *)
Record entry := { e_epoch : Z; e_sched : Z; e_act : Z; e_exp : option Z }.

(* BTreeMap<EpochNumber, _> as an association list sorted by epoch *)
Fixpoint em_insert (x : entry) (m : list entry) : list entry :=
  match m with
  | [] => [x]
  | y :: m' =>
      if e_epoch x <? e_epoch y then x :: m
      else if e_epoch x =? e_epoch y then x :: m'
      else y :: em_insert x m'
  end.
Fixpoint em_get (e : Z) (m : list entry) : option entry :=
  match m with
  | [] => None
  | y :: m' => if e_epoch y =? e then Some y else em_get e m'
  end.
Definition em_set_exp (e : Z) (v : option Z) (m : list entry) : list entry :=
  map (fun y => if e_epoch y =? e
                then {| e_epoch := e_epoch y; e_sched := e_sched y; e_act := e_act y; e_exp := v |}
                else y) m.
Fixpoint em_last (m : list entry) : option entry :=
  match m with
  | [] => None
  | [y] => Some y
  | _ :: m' => em_last m'
  end.
Definition em_view (m : list entry) : list (Z * Z) := map (fun x => (e_epoch x, e_sched x)) m.

(* activation <= n && (expiration.is_none() || expiration >= n) *)
Definition in_range (x : entry) (n : Z) : bool :=
  (e_act x <=? n) && match e_exp x with None => true | Some y => n <=? y end.
(* EngineManager::epoch_for_block: first entry (in epoch order) whose range holds n *)
Definition epoch_for_block (n : Z) (m : list entry) : option Z :=
  option_map e_epoch (find (fun x => in_range x n) m).

(* updater task *)
Inductive ustate :=
| UOff            (* static schedule in genesis: the task is not spawned *)
| UWait           (* wait_until_persisted(first_block - 1) on the interface's watch *)
| UStart          (* about to read persisted().last and call get_validator_schedule *)
| URun (cur : Z)  (* in the loop, cur_epoch = cur *)
| UDead.          (* panicked (unwrap) *)

Record dcfg := {
  dcap : nat;
  dfirst_block : Z;
  dgenesis_sched : option Z     (* genesis.validators_schedule: Some committee = static *)
}.

Record dstate := {
  dm : mstate;
  emap : list entry;
  ust : ustate;
  env_epoch : Z;      (* epoch in the certificate of the durable head published last *)
  pers_epoch : Z;     (* ... of the durable head the store has seen (block_store.persisted.last) *)
  seen : list (Z * Z) (* ghost: the views of all maps there have been (newest first) *)
}.

Definition cfg_of (c : dcfg) (ep : list (Z * Z)) : cfg :=
  {| cap := dcap c; first_block := dfirst_block c; epochs := ep |}.
Definition cfg_view (c : dcfg) (d : dstate) : cfg := cfg_of c (em_view (emap d)).

Definition with_dm (d : dstate) (m : mstate) : dstate :=
  {| dm := m; emap := emap d; ust := ust d; env_epoch := env_epoch d; pers_epoch := pers_epoch d;
     seen := seen d |}.
Definition with_ust (d : dstate) (u : ustate) : dstate :=
  {| dm := dm d; emap := emap d; ust := u; env_epoch := env_epoch d; pers_epoch := pers_epoch d;
     seen := seen d |}.

(* map and task state of a fresh manager over the durable range [p] *)
Definition start_map (c : dcfg) : list entry :=
  match dgenesis_sched c with
  | Some s => [{| e_epoch := 0; e_sched := s; e_act := dfirst_block c; e_exp := None |}]
  | None => []
  end.
Definition start_ust (c : dcfg) (p : bss) : ustate :=
  match dgenesis_sched c with
  | Some _ => UOff
  | None => if (0 <? dfirst_block c) && (bs_next p <? dfirst_block c) then UWait else UStart
  end.

Definition dinit (c : dcfg) (p : bss) (e : Z) : dstate :=
  {| dm := init_state p; emap := start_map c; ust := start_ust c p; env_epoch := e; pers_epoch := e;
     seen := em_view (start_map c) |}.

(* (head, cur_epoch) as the task computes them from persisted().last *)
Definition init_head (c : dcfg) (d : dstate) : Z * Z :=
  match blast (persisted (ms (dm d))) with
  | Some l => if l <? dfirst_block c then (l, 0) else (l, pers_epoch d)
  | None => (dfirst_block c, 0)
  end.

Definition tick_head (d : dstate) : Z := bs_head (persisted (ms (dm d))).
(* does this loop iteration call get_pending_validator_schedule, and with which number *)
Definition tick_asks (d : dstate) : option Z :=
  match ust d, em_last (emap d) with
  | URun _, Some le => if alive (dm d) && (e_act le <? tick_head d) then Some (tick_head d) else None
  | _, _ => None
  end.

Inductive dstepk :=
| DS (s : step)                   (* block-store step under the current map *)
| DEnvPersist (p : bss) (e : Z)   (* durable range published, with the epoch of its head *)
| UWake                           (* the interface's watch reached first_block - 1 *)
| UInit (sched act : Z)           (* get_validator_schedule(head) answered (sched, act) *)
| UTick (ans : option (Z * Z)).   (* one loop iteration; [ans] answers get_pending if asked *)

Definition dstep (c : dcfg) (d : dstate) (k : dstepk) : dstate :=
  match k with
  | DS Restart =>
      if bs_verify (env (dm d)) then
        {| dm := mstep (cfg_view c d) (dm d) Restart; emap := start_map c;
           ust := start_ust c (env (dm d)); env_epoch := env_epoch d; pers_epoch := env_epoch d;
           seen := em_view (start_map c) ++ seen d |}
      else d
  | DS Observe =>
      let m' := mstep (cfg_view c d) (dm d) Observe in
      {| dm := m'; emap := emap d; ust := ust d; env_epoch := env_epoch d;
         pers_epoch := if alive (dm d) && alive m' then env_epoch d else pers_epoch d;
         seen := seen d |}
  | DS s => with_dm d (mstep (cfg_view c d) (dm d) s)
  | DEnvPersist p e =>
      {| dm := mstep (cfg_view c d) (dm d) (EnvPersist p); emap := emap d; ust := ust d;
         env_epoch := e; pers_epoch := pers_epoch d; seen := seen d |}
  | UWake =>
      match ust d with
      | UWait => if alive (dm d) && (dfirst_block c <=? bs_next (env (dm d)))
                 then with_ust d UStart else d
      | _ => d
      end
  | UInit sched act =>
      match ust d with
      | UStart =>
          if alive (dm d) then
            let '(_, cur) := init_head c d in
            let m1 := em_insert {| e_epoch := cur; e_sched := sched; e_act := act; e_exp := None |} (emap d) in
            {| dm := dm d; emap := m1;
               ust := URun cur; env_epoch := env_epoch d; pers_epoch := pers_epoch d;
               seen := em_view m1 ++ seen d |}
          else d
      | _ => d
      end
  | UTick ans =>
      match ust d with
      | URun cur =>
          if alive (dm d) then
            match em_last (emap d) with
            | None => with_ust d UDead              (* .last().unwrap() *)
            | Some le =>
                if e_act le <? tick_head d then
                  match ans with
                  | None => d
                  | Some (s, a) =>
                      if a =? 0 then with_ust d UDead    (* pending.1.prev().unwrap() *)
                      else
                        let m1 := em_insert {| e_epoch := cur + 1; e_sched := s; e_act := a; e_exp := None |} (emap d) in
                        let m2 := em_set_exp cur (Some (a - 1)) m1 in
                        let m3 := match nth_error m2 2 with
                                  | Some x => if e_act x <? tick_head d then tl m2 else m2
                                  | None => m2
                                  end in
                        {| dm := dm d; emap := m3; ust := URun (cur + 1); env_epoch := env_epoch d;
                           pers_epoch := pers_epoch d; seen := em_view m3 ++ seen d |}
                  end
                else d
            end
          else d
      | _ => d
      end
  end.

Definition drun (c : dcfg) (d : dstate) (ks : list dstepk) : dstate := fold_left (dstep c) ks d.

(* EngineManager::verify_payload's epoch check (the execution layer's verdict is not modelled) *)
Definition verify_payload_epoch (d : dstate) (n e : Z) : bool :=
  match epoch_for_block n (emap d) with
  | Some e' => e' =? e
  | None => false
  end.

(* ---------- harness-level driver used by the correspondence ---------- *)
Inductive dhop :=
| DH (o : hop)                      (* HPersist here publishes heads of epoch 0 *)
| DHPersist (ps : list (bss * Z))
| DHTick                            (* ManualClock advanced by fetch_schedule_interval *)
| DHPending (ans : option (Z * Z))  (* what get_pending_validator_schedule answers from now on *)
| DHVs (sched act : Z)              (* what get_validator_schedule answers from now on *)
| DHVPayload (n e : Z).

Record dhstate := {
  dd : dstate; dpermits : Z; dpending : option (Z * Z); dvs : Z * Z;
  waited : bool     (* this incarnation's updater went through UWait: head argument not compared *)
}.

(* the task's first stretch: initial fetch and the first loop iteration; returns the calls made *)
Definition ustartup (c : dcfg) (h : dhstate) : dhstate * list obsv :=
  let d := dd h in
  match ust d with
  | UStart =>
      if alive (dm d) then
        let '(head, _) := init_head c d in
        let d1 := dstep c d (UInit (fst (dvs h)) (snd (dvs h))) in
        let call1 := OL [OZ 1; OZ (if waited h then -1 else head)] in
        let calls2 := match tick_asks d1 with Some n => [OL [OZ 2; OZ n]] | None => [] end in
        let d2 := dstep c d1 (UTick (dpending h)) in
        ({| dd := d2; dpermits := dpermits h; dpending := dpending h; dvs := dvs h; waited := waited h |},
         call1 :: calls2)
      else (h, [])
  | _ => (h, [])
  end.

Definition with_dd (h : dhstate) (d : dstate) (pm : Z) : dhstate :=
  {| dd := d; dpermits := pm; dpending := dpending h; dvs := dvs h; waited := waited h |}.

Definition persist_all (c : dcfg) (h : dhstate) (ps : list (bss * Z)) : dhstate * list obsv :=
  let d0 := fold_left (fun a pe => dstep c a (DEnvPersist (fst pe) (snd pe))) ps (dd h) in
  let d1 := dstep c d0 (DS Observe) in
  let '(m2, pm2) := drain (drain_fuel (dm d1)) (cfg_view c d1) (dm d1) (dpermits h) in
  let d2 := dstep c (with_dm d1 m2) UWake in
  ustartup c (with_dd h d2 pm2).

Definition dhstep (c : dcfg) (h : dhstate) (o : dhop) : dhstate * obsv * list obsv * obsv :=
  let d := dd h in
  match o with
  | DH (HPersist ps) =>
      let '(h', calls) := persist_all c h (map (fun p => (p, 0)) ps) in (h', OL [], calls, OL [])
  | DHPersist ps =>
      let '(h', calls) := persist_all c h ps in (h', OL [], calls, OL [])
  | DH HRestart =>
      if bs_verify (env (dm d)) then
        let d1 := dstep c d (DS Restart) in
        let '(m2, pm2) := drain (drain_fuel (dm d1)) (cfg_view c d1) (dm d1) (dpermits h) in
        let h1 := {| dd := with_dm d1 m2; dpermits := pm2; dpending := dpending h; dvs := dvs h;
                     waited := match ust d1 with UWait => true | _ => false end |} in
        let '(h2, calls) := ustartup c h1 in
        (h2, OL [OZ 1], calls, OL [])
      else (h, OL [OZ 0], [], OL [])
  | DH o' =>
      let '(hs, res) := hstep (cfg_view c d) {| hm := dm d; permits := dpermits h |} o' in
      (with_dd h (with_dm d (hm hs)) (permits hs), res, [], OL [])
  | DHTick =>
      let calls := match tick_asks d with Some n => [OL [OZ 2; OZ n]] | None => [] end in
      (with_dd h (dstep c d (UTick (dpending h))) (dpermits h), OL [], calls, OL [])
  | DHPending ans =>
      ({| dd := d; dpermits := dpermits h; dpending := ans; dvs := dvs h; waited := waited h |}, OL [], [], OL [])
  | DHVs s a =>
      ({| dd := d; dpermits := dpermits h; dpending := dpending h; dvs := (s, a); waited := waited h |}, OL [], [], OL [])
  | DHVPayload n e => (h, OL [], [], OL [OZ (if verify_payload_epoch d n e then 0 else 1)])
  end.

Definition obs_entry (x : entry) : obsv :=
  OL [OZ (e_epoch x); OZ (e_sched x); OZ (e_act x); oopt OZ (e_exp x)].

Definition hop_of (o : dhop) : hop :=
  match o with DH o' => o' | _ => HCancel (-1) end.

Fixpoint dhrun (c : dcfg) (h : dhstate) (os : list dhop) : list obsv :=
  match os with
  | [] => []
  | o :: os' =>
      let '(h', res, calls, vres) := dhstep c h o in
      OL [ obs_after (cfg_view c (dd h')) (dm (dd h)) {| hm := dm (dd h'); permits := dpermits h' |} (hop_of o) res;
           OL calls; OL (map obs_entry (emap (dd h'))); vres ]
      :: dhrun c h' os'
  end.

(* A case: configuration, initial durable range with the epoch of its head, the engine's
   initial answers, operations. *)
Definition drun_case (x : dcfg * (bss * Z) * (Z * Z) * option (Z * Z) * list dhop) : obsv :=
  let '(c, pe, vs, pend, os) := x in
  let '(p0, e0) := pe in
  if bs_verify p0 then
    let d0 := dstep c (dinit c p0 e0) (DS Observe) in
    let '(m1, pm) := drain (drain_fuel (dm d0)) (cfg_view c d0) (dm d0) (-1) in
    let h0 := {| dd := with_dm d0 m1; dpermits := pm; dpending := pend; dvs := vs;
                 waited := match ust d0 with UWait => true | _ => false end |} in
    let '(h1, calls) := ustartup c h0 in
    OL (OZ 1 :: OL [OL calls; OL (map obs_entry (emap (dd h1)))] :: dhrun c h1 os)
  else OL [OZ 0].
