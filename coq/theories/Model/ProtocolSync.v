(* The synchronous-round operator of the liveness property C06 over the protocol model
   (Model/Protocol.v).  THIS FILE IS PART OF THE TRUSTED MODEL of C06: it fixes what "the
   network has healed" means.  A round is a FUNCTION on global states composed only of
   transitions of [pstep] (so every state it produces is reachable) in which the adversary is
   silent (no PByz, no PCrash):
     (0) every stopped honest node is restarted (a supervisor restarts a replica task that
         stopped on an internal error / a blocked store);
     (1) every message that was in the soup at the start of the round is delivered, in soup
         order, to every live honest node (messages sent during the round are delivered in the
         next round; redelivery of old messages is allowed by the protocol model and harmless);
     (2) every live honest node that is the leader of the view following the justification it
         was last notified of proposes for it: the forced re-proposal if the justification
         implies one, otherwise the environment's payload for the implied block number;
     (3) every live honest node fetches, in order, the finalized blocks it is missing: block
         number [next] is synced when some node has queued it and a verifying certificate for
         it without forged signatures can be found on the network or in an honest node
         (repeated while this makes progress);
     (4) every live honest node whose view did not change during the round fires its view
         timer (the round lasts one view timeout).
   The environment: [pay n] is the payload the execution layer hands to a proposer for block n. *)
From Coq Require Import ZArith List Bool.
From EC Require Import Lib.Outcome Lib.U64 Lib.ListW Lib.Obs Model.Msgs Model.Replica Model.ReplicaRun
  Model.Protocol.
Import ListNotations.
Open Scope Z_scope.

(* assumptions on the environment during the synchronous suffix (H-ENG): the execution layer
   accepts the payloads it produces, they fit, and block numbers are not negative *)
Definition env_ok (P : params) (pay : Z -> Z) : Prop :=
  (forall n, p_pok P n (pay n) = true) /\
  (forall n, p_psize P (pay n) <= p_maxpay P) /\
  0 <= p_first P.

Definition live_node (P : params) (s : gstate) (k : Z) : bool :=
  honestb P k && n_alive (g_node s k).

(* ---------- (0) restart stopped nodes ---------- *)
Definition revive1 (P : params) (s : gstate) (k : Z) : gstate :=
  if honestb P k && negb (n_alive (g_node s k))
  then absorb s k (node_restart (pcfg P k) (g_node s k)) else s.
Definition revive_all (P : params) (s : gstate) : gstate :=
  fold_left (revive1 P) (honest_keys P) s.

(* ---------- (1) deliver the soup ---------- *)
(* the soup is append-only, so index i denotes the same message throughout the round *)
Definition deliver1 (P : params) (i : nat) (s : gstate) (k : Z) : gstate :=
  if live_node P s k then
    match nth_error (g_soup s) i with
    | Some m => absorb s k (node_input (pcfg P k) (g_node s k) (IMsg m))
    | None => s
    end
  else s.
Definition deliver_msg (P : params) (s : gstate) (i : nat) : gstate :=
  fold_left (deliver1 P i) (honest_keys P) s.
Definition deliver_all (P : params) (s : gstate) : gstate :=
  fold_left (deliver_msg P) (seq 0 (length (g_soup s))) s.

(* ---------- (2) proposers ---------- *)
(* LeaderProposal for justification j: None = nothing to propose (arithmetic overflow) *)
Definition proposal_payload (P : params) (pay : Z -> Z) (j : justification) : option (option Z) :=
  match @get_implied_block unit true (p_C P) (p_first P) j with
  | Ok (_, Some _) => Some None                  (* forced re-proposal: no payload *)
  | Ok (n, None) => Some (Some (pay n))          (* new block *)
  | _ => None
  end.
Definition propose1 (P : params) (pay : Z -> Z) (s : gstate) (k : Z) : gstate :=
  if live_node P s k then
    match n_notify (g_node s k) with
    | Some j =>
        match @justification_view unit true j with
        | Ok mv =>
            if cleader (pcfg P k) (vnum mv) =? k then
              match proposal_payload P pay j with
              | Some p => add_msg s {| m_key := k; m_sig_ok := true; m_msg := MProposal p j |}
              | None => s
              end
            else s
        | _ => s
        end
    | None => s
    end
  else s.
Definition propose_all (P : params) (pay : Z -> Z) (s : gstate) : gstate :=
  fold_left (propose1 P pay) (honest_keys P) s.

(* ---------- (3) block sync ---------- *)
Definition opt_list {A} (o : option A) : list A := match o with Some x => [x] | None => [] end.
Definition just_cqcs (j : justification) : list cqc :=
  match j with
  | JCommit q => [q]
  | JTimeout t => flat_map (fun en => opt_list (thq (fst en))) (tqmap t)
  end.
Definition msg_cqcs (x : cmsg) : list cqc :=
  match x with
  | MProposal _ j | MNewView j => just_cqcs j
  | MTimeout t => opt_list (thq t)
  | MCommit _ => []
  end.
(* where a certificate can be fetched from: any message on the network, any honest node *)
Definition cert_pool (P : params) (s : gstate) : list cqc :=
  flat_map (fun m => msg_cqcs (m_msg m)) (g_soup s) ++
  flat_map (fun k => opt_list (r_high_cqc (n_live (g_node s k)))) (honest_keys P).
Definition find_cert (P : params) (s : gstate) (n : Z) : option cqc :=
  find (fun q => (hnum (cprop (qmsg q)) =? n) && is_ok (cqc_verify (p_g P) (p_e P) (p_C P) q)
                 && cqc_knownb P (g_soup s) q) (cert_pool P s).
Definition someone_queued (s : gstate) (n h : Z) : bool :=
  existsb (fun x => (snd (fst x) =? n) && (snd x =? h)) (g_qlog s).
Definition sync1 (P : params) (s : gstate) (k : Z) : gstate :=
  if live_node P s k then
    let n := r_store_next (n_live (g_node s k)) in
    match find_cert P s n with
    | Some q =>
        if someone_queued s n (hpay (cprop (qmsg q)))
        then absorb s k (node_input (pcfg P k) (g_node s k) (ISync n (hpay (cprop (qmsg q)))))
        else s
    | None => s
    end
  else s.
Fixpoint sync_node (P : params) (fuel : nat) (s : gstate) (k : Z) : gstate :=
  match fuel with O => s | S f => sync_node P f (sync1 P s k) k end.
Definition sync_all (P : params) (s : gstate) : gstate :=
  fold_left (sync_node P (length (g_qlog s))) (honest_keys P) s.

(* ---------- (4) view timers ---------- *)
Definition timer1 (P : params) (s0 : gstate) (s : gstate) (k : Z) : gstate :=
  if live_node P s k && (r_view (n_live (g_node s k)) =? r_view (n_live (g_node s0 k)))
  then absorb s k (node_input (pcfg P k) (g_node s k) ITimer) else s.
Definition timers_all (P : params) (s0 s : gstate) : gstate :=
  fold_left (timer1 P s0) (honest_keys P) s.

(* ---------- the round ---------- *)
Definition sync_round (P : params) (pay : Z -> Z) (s : gstate) : gstate :=
  let s0 := revive_all P s in
  timers_all P s0 (sync_all P (propose_all P pay (deliver_all P s0))).

Fixpoint sync_rounds (P : params) (pay : Z -> Z) (n : nat) (s : gstate) : gstate :=
  match n with O => s | S n' => sync_rounds P pay n' (sync_round P pay s) end.
