(* The synchronous-round operator of the liveness property C06 over the protocol model
   (Model/Protocol.v).  THIS FILE IS PART OF THE TRUSTED MODEL of C06: it fixes what "the
   network has healed" means.  A round is a FUNCTION on global states composed only of
   transitions of [pstep] (so every state it produces is reachable) in which the adversary is
   silent (no PByz, no PCrash):
     (0) every stopped honest node is restarted (a supervisor restarts a replica task that
         stopped on an internal error / a blocked store);
     (1) every message that was in the soup at the start of the round is delivered, in soup
         order, to every live honest node (messages sent during the round are delivered in the
         next round; redelivery of old messages is allowed by the protocol model and harmless);
     (2) every live honest node that is the leader of the view following the justification it
         was last notified of proposes for it: the forced re-proposal if the justification
         implies one, otherwise the environment's payload for the implied block number;
     (3) every live honest node fetches, in order, the finalized blocks it is missing: block
         number [next] is synced when some node has queued it and the block-fetch oracle
         [fetch] (consulted once, at the state in which step (3) starts) returns a certificate
         for it that verifies and has no forged signatures (repeated while this makes progress);
     (4) every live honest node whose view did not change during the round fires its view
         timer (the round lasts one view timeout).
   The environment: [pay n] is the payload the execution layer hands to a proposer for block n;
   [fetch s n] is what the block-fetch path (gossip get_block from a peer that has block n; the
   block store keeps every block together with its certificate) returns for block number n.
   Whatever the oracle returns is CHECKED before it is used, so a round consists of [pstep]
   transitions for every oracle; that the oracle does return the certificate of every block
   some honest node has queued is the environment assumption H-FETCH ([fetch_ok] below),
   needed only for the progress statements.  The nodes of the protocol model do not retain
   the certificates of the blocks they queued (only the highest one), which is why the
   certificate has to come from the environment; [find_cert], which scans the network and the
   honest nodes' highest certificates, is one admissible oracle. *)
From Coq Require Import ZArith List Bool.
From EC Require Import Lib.Outcome Lib.U64 Lib.ListW Lib.Obs Model.Msgs Model.Replica Model.ReplicaRun
  Model.Protocol.
Import ListNotations.
Open Scope Z_scope.

(* assumptions on the environment during the synchronous suffix (H-ENG): the execution layer
   accepts the payloads it produces, they fit, and block numbers are not negative *)
Definition env_ok (P : params) (pay : Z -> Z) : Prop :=
  (forall n, p_pok P n (pay n) = true) /\
  (forall n, p_psize P (pay n) <= p_maxpay P) /\
  0 <= p_first P.

Definition live_node (P : params) (s : gstate) (k : Z) : bool :=
  honestb P k && n_alive (g_node s k).

(* ---------- (0) restart stopped nodes ---------- *)
Definition revive1 (P : params) (s : gstate) (k : Z) : gstate :=
  if honestb P k && negb (n_alive (g_node s k))
  then absorb s k (node_restart (pcfg P k) (g_node s k)) else s.
Definition revive_all (P : params) (s : gstate) : gstate :=
  fold_left (revive1 P) (honest_keys P) s.

(* ---------- (1) deliver the soup ---------- *)
(* the soup is append-only, so index i denotes the same message throughout the round *)
Definition deliver1 (P : params) (i : nat) (s : gstate) (k : Z) : gstate :=
  if live_node P s k then
    match nth_error (g_soup s) i with
    | Some m => absorb s k (node_input (pcfg P k) (g_node s k) (IMsg m))
    | None => s
    end
  else s.
Definition deliver_msg (P : params) (s : gstate) (i : nat) : gstate :=
  fold_left (deliver1 P i) (honest_keys P) s.
Definition deliver_all (P : params) (s : gstate) : gstate :=
  fold_left (deliver_msg P) (seq 0 (length (g_soup s))) s.

(* ---------- (2) proposers ---------- *)
(* LeaderProposal for justification j: None = nothing to propose (arithmetic overflow) *)
Definition proposal_payload (P : params) (pay : Z -> Z) (j : justification) : option (option Z) :=
  match @get_implied_block unit true (p_C P) (p_first P) j with
  | Ok (_, Some _) => Some None                  (* forced re-proposal: no payload *)
  | Ok (n, None) => Some (Some (pay n))          (* new block *)
  | _ => None
  end.
Definition propose1 (P : params) (pay : Z -> Z) (s : gstate) (k : Z) : gstate :=
  if live_node P s k then
    match n_notify (g_node s k) with
    | Some j =>
        match @justification_view unit true j with
        | Ok mv =>
            if cleader (pcfg P k) (vnum mv) =? k then
              match proposal_payload P pay j with
              | Some p => add_msg s {| m_key := k; m_sig_ok := true; m_msg := MProposal p j |}
              | None => s
              end
            else s
        | _ => s
        end
    | None => s
    end
  else s.
Definition propose_all (P : params) (pay : Z -> Z) (s : gstate) : gstate :=
  fold_left (propose1 P pay) (honest_keys P) s.

(* ---------- (3) block sync ---------- *)
Definition opt_list {A} (o : option A) : list A := match o with Some x => [x] | None => [] end.
Definition just_cqcs (j : justification) : list cqc :=
  match j with
  | JCommit q => [q]
  | JTimeout t => flat_map (fun en => opt_list (thq (fst en))) (tqmap t)
  end.
Definition msg_cqcs (x : cmsg) : list cqc :=
  match x with
  | MProposal _ j | MNewView j => just_cqcs j
  | MTimeout t => opt_list (thq t)
  | MCommit _ => []
  end.
(* where a certificate can be fetched from: any message on the network, any honest node *)
Definition cert_pool (P : params) (s : gstate) : list cqc :=
  flat_map (fun m => msg_cqcs (m_msg m)) (g_soup s) ++
  flat_map (fun k => opt_list (r_high_cqc (n_live (g_node s k)))) (honest_keys P).
Definition find_cert (P : params) (s : gstate) (n : Z) : option cqc :=
  find (fun q => (hnum (cprop (qmsg q)) =? n) && is_ok (cqc_verify (p_g P) (p_e P) (p_C P) q)
                 && cqc_knownb P (g_soup s) q) (cert_pool P s).
Definition someone_queued (s : gstate) (n h : Z) : bool :=
  existsb (fun x => (snd (fst x) =? n) && (snd x =? h)) (g_qlog s).
(* [f] is the oracle's answer table, fixed when step (3) starts *)
Definition sync1 (P : params) (f : Z -> option cqc) (s : gstate) (k : Z) : gstate :=
  if live_node P s k then
    let n := r_store_next (n_live (g_node s k)) in
    match f n with
    | Some q =>
        if (hnum (cprop (qmsg q)) =? n) && is_ok (cqc_verify (p_g P) (p_e P) (p_C P) q)
           && cqc_knownb P (g_soup s) q && someone_queued s n (hpay (cprop (qmsg q)))
        then absorb s k (node_input (pcfg P k) (g_node s k) (ISync n (hpay (cprop (qmsg q)))))
        else s
    | None => s
    end
  else s.
Fixpoint sync_node (P : params) (f : Z -> option cqc) (fuel : nat) (s : gstate) (k : Z) : gstate :=
  match fuel with O => s | S fu => sync_node P f fu (sync1 P f s k) k end.
Definition sync_all (P : params) (fetch : gstate -> Z -> option cqc) (s : gstate) : gstate :=
  fold_left (sync_node P (fetch s) (length (g_qlog s))) (honest_keys P) s.

(* ---------- (4) view timers ---------- *)
Definition timer1 (P : params) (s0 : gstate) (s : gstate) (k : Z) : gstate :=
  if live_node P s k && (r_view (n_live (g_node s k)) =? r_view (n_live (g_node s0 k)))
  then absorb s k (node_input (pcfg P k) (g_node s k) ITimer) else s.
Definition timers_all (P : params) (s0 s : gstate) : gstate :=
  fold_left (timer1 P s0) (honest_keys P) s.

(* ---------- the round ---------- *)
(* the state in which step (3) starts, i.e. where the oracle is consulted *)
Definition sync_point (P : params) (pay : Z -> Z) (s : gstate) : gstate :=
  propose_all P pay (deliver_all P (revive_all P s)).

Definition sync_round (P : params) (pay : Z -> Z) (fetch : gstate -> Z -> option cqc)
    (s : gstate) : gstate :=
  let s0 := revive_all P s in
  timers_all P s0 (sync_all P fetch (propose_all P pay (deliver_all P s0))).

Fixpoint sync_rounds (P : params) (pay : Z -> Z) (fetch : gstate -> Z -> option cqc)
    (n : nat) (s : gstate) : gstate :=
  match n with O => s | S n' => sync_rounds P pay fetch n' (sync_round P pay fetch s) end.

(* ---------- H-FETCH ---------- *)
(* at state [s] the oracle returns, for every block some honest node has queued, a certificate
   for exactly that block that verifies and has no forged signatures (such a certificate
   exists in every reachable state: C01_committed_are_certified) *)
Definition fetch_ok_at (P : params) (fetch : gstate -> Z -> option cqc) (s : gstate) : Prop :=
  forall k n h, honestb P k = true -> In (k, n, h) (g_qlog s) ->
  exists q, fetch s n = Some q /\
            cqc_verify (p_g P) (p_e P) (p_C P) q = Ok tt /\ cqc_knownb P (g_soup s) q = true /\
            hnum (cprop (qmsg q)) = n /\ hpay (cprop (qmsg q)) = h.
(* the environment assumption, in general ... *)
Definition fetch_ok (P : params) (fetch : gstate -> Z -> option cqc) : Prop :=
  forall s, preach P s -> fetch_ok_at P fetch s.
(* ... and restricted to the states in which R synchronous rounds from [s] consult the oracle *)
Definition fetch_ok_run (P : params) (pay : Z -> Z) (fetch : gstate -> Z -> option cqc)
    (s : gstate) (R : nat) : Prop :=
  forall r, (r < R)%nat -> fetch_ok_at P fetch (sync_point P pay (sync_rounds P pay fetch r s)).
