(* Executable cluster model: N honest replicas (each a Model.ReplicaRun.run_state over its own
   configuration, the configurations differing only in [cme]), the soup of all messages ever
   sent (in order), per node delivery bookkeeping, and an interpreter of schedule operations
   that are meaningful without knowing the runtime contents of the soup.  The harness binary
   `sim` (harness/src/bin/sim.rs) interprets the same operations over real replicas; the two
   observation lists are compared (gen/sim_gen.py, gen/c06.py).

   Conventions shared with sim.rs
   - a node is UP when it is neither stopped ([sn_down]) nor dead ([rs_dead]: a handler panicked,
     blocked for good or returned an internal error); every node-level operation on a node that
     is not up does nothing at all (no delivery mark, no observation);
   - every node-level step is followed by the PROPOSER RULE ([propose]): if the step notified the
     proposer of justification j (the last notification of the step: the watch keeps one value),
     the node survived the step and is the leader of view(j), it appends a proposal to the soup
     right after the messages of the step (no proposal when the previous block is not yet in its
     store: create_proposal then times out);
   - messages appended by node-level steps are signed by the node's own key. *)
From Coq Require Import ZArith List Bool Uint63.
From EC Require Import Lib.Outcome Lib.U64 Lib.ListW Lib.Obs Model.Msgs Model.Replica Model.ReplicaRun.
Import ListNotations.
Open Scope Z_scope.

(* ---------- observations (certificates per signer: insensitive to the grouping and the
   iteration order of TimeoutQC map entries) ---------- *)
Fixpoint set_bits_from (i : Z) (b : list bool) : list Z :=
  match b with
  | [] => []
  | x :: b' => if x then i :: set_bits_from (i + 1) b' else set_bits_from (i + 1) b'
  end.
Definition sobs_tqc (t : tqc) : obsv :=
  OL [obs_view (tqview t);
      OL (map snd (sort_by fst
            (flat_map (fun en => map (fun i => (i, OL [OZ i; obs_timeout (fst en)]))
                                     (set_bits_from 0 (snd en)))
                      (tqmap t))))].
Definition sobs_just (j : justification) : obsv :=
  match j with JCommit q => OL [OZ 0; obs_cqc q] | JTimeout t => OL [OZ 1; sobs_tqc t] end.
Definition sobs_cmsg (m : cmsg) : obsv :=
  match m with
  | MProposal p j => OL [OZ 0; oopt OZ p; sobs_just j]
  | MCommit c => OL [OZ 1; obs_commit c]
  | MTimeout t => OL [OZ 2; obs_timeout t]
  | MNewView j => OL [OZ 3; sobs_just j]
  end.
Definition sobs_snapshot (s : rstate) : obsv :=
  OL [OZ (r_view s); OZ (phase_code (r_phase s)); oopt obs_commit (r_high_vote s);
      oopt obs_cqc (r_high_cqc s); oopt sobs_tqc (r_high_tqc s);
      OL (map (fun e => OL [OZ (fst e); OL (map OZ (sort_by (fun x => x) (snd e)))]) (r_cache s));
      OL (map (fun e => OL [OZ (fst e); OZ (snd e)]) (r_commit_views s));
      OL (map (fun e => OL [OZ (fst e); OZ (Z.of_nat (length (snd e)))]) (r_commit_qcs s));
      OL (map (fun e => OL [OZ (fst e); OZ (snd e)]) (r_timeout_views s));
      OL (map (fun e => OZ (fst e)) (r_timeout_qcs s))].

(* ---------- state ---------- *)
Record snode := {
  sn_cfg : config;
  sn_rs : run_state;
  sn_down : bool;                 (* stopped by SStop until SRestart *)
  sn_seen : list bool;            (* soup index -> delivered to this node (shorter = false) *)
  sn_blocks : list (Z * Z)        (* blocks queued at this node's engine, in order *)
}.
Record sim := { s_nodes : list snode; s_soup : list sgmsg }.

Definition node_up (nd : snode) : bool := negb (sn_down nd) && negb (rs_dead (sn_rs nd)).

Fixpoint set_seen (l : list bool) (i : nat) : list bool :=
  match i, l with
  | O, [] => [true]
  | O, _ :: l' => true :: l'
  | S i', [] => false :: set_seen [] i'
  | S i', b :: l' => b :: set_seen l' i'
  end.
Definition seen (l : list bool) (i : nat) : bool := nth i l false.

Fixpoint replace_nth {A} (k : nat) (a : A) (l : list A) : list A :=
  match l, k with
  | [], _ => []
  | _ :: l', O => a :: l'
  | x :: l', S k' => x :: replace_nth k' a l'
  end.

Definition set_node (sm : sim) (k : nat) (nd : snode) : sim :=
  {| s_nodes := replace_nth k nd (s_nodes sm); s_soup := s_soup sm |}.

(* ---------- one node-level step ---------- *)
Definition dead_after (r : outcome rerr unit) : bool :=
  match r with Panic _ | Err RBlocked | Err RInternal => true | _ => false end.

(* what [run_op] did: the effects that happened (for a crashed step the prefix kept by
   cut_at_persist followed by the effects of the restart), the result class, and whether the
   proposer task is still there to act on a notification *)
Definition op_trace (cfg : config) (st : run_state) (o : rop) : list effect * obsv * bool :=
  if rs_dead st then ([], OL [OZ 9], false) else
  match o with
  | OpRestart =>
      let s := rstart cfg (rs_d st) (r_store_first (rs_s st)) (r_store_next (rs_s st)) in
      let '(_, es, r) := rprologue cfg s in
      (es, obs_result r, false)
  | OpIn i =>
      let '(_, es, r) := rstep_t cfg (rs_s st) i in
      (es, obs_result r, negb (dead_after r))
  | OpCrash i k applied =>
      let '(_, es, r) := rstep_t cfg (rs_s st) i in
      match cut_at_persist es k applied with
      | None => (es, obs_result r, negb (dead_after r))
      | Some pre =>
          let '(d', next') := apply_effects (rs_d st) (r_store_next (rs_s st)) pre in
          let s0 := rstart cfg d' (r_store_first (rs_s st)) next' in
          let '(_, es1, r1) := rprologue cfg s0 in
          (pre ++ es1, OL [OZ 7; obs_result r1], false)
      end
  end.

Definition mk_msg (key : Z) (m : cmsg) : sgmsg := {| m_key := key; m_sig_ok := true; m_msg := m |}.
Definition sends_of (cfg : config) (es : list effect) : list sgmsg :=
  flat_map (fun e => match e with ESend m => [mk_msg (cme cfg) m] | _ => [] end) es.
Definition blocks_of (es : list effect) : list (Z * Z) :=
  flat_map (fun e => match e with EQueueBlock n h => [(n, h)] | _ => [] end) es.

(* what the harness engine of node [cme] proposes for block n: it depends on the proposer, so that
   a fresh proposal for a number differs from an earlier proposal of another leader for it *)
Definition propose_payload (cfg : config) (n : Z) : Z := 100 + n mod 20 + 20 * (cme cfg mod 16).

(* proposer.rs: run_proposer / create_proposal with the harness engine's propose_payload *)
Definition propose (cfg : config) (s : rstate) (es : list effect) : list sgmsg :=
  match last_notify es with
  | None => []
  | Some j =>
      match justification_view (E := unit) (cchk cfg) j with
      | Ok mv =>
          if cleader cfg (vnum mv) =? cme cfg then
            match get_implied_block (E := unit) (cchk cfg) (cC cfg) (cfirst cfg) j with
            | Ok (n, Some _) => [mk_msg (cme cfg) (MProposal None j)]
            | Ok (n, None) =>
                if (0 <? n) && negb (n - 1 <? r_store_next s) then []
                else [mk_msg (cme cfg) (MProposal (Some (propose_payload cfg n)) j)]
            | _ => []
            end
          else []
      | _ => []
      end
  end.

(* result: new state, observation of the step ([] when nothing happened), appended messages *)
Definition node_op (sm : sim) (k : nat) (o : rop) : sim * list obsv * list sgmsg :=
  match nth_error (s_nodes sm) k with
  | None => (sm, [], [])
  | Some nd =>
      if negb (node_up nd) then (sm, [], []) else
      let cfg := sn_cfg nd in
      let '(es, res, prop_ok) := op_trace cfg (sn_rs nd) o in
      let st' := fst (run_op cfg (sn_rs nd) o) in
      let out := sends_of cfg es ++ (if prop_ok then propose cfg (rs_s st') es else []) in
      let nd' := {| sn_cfg := cfg; sn_rs := st'; sn_down := false; sn_seen := sn_seen nd;
                    sn_blocks := sn_blocks nd ++ blocks_of es |} in
      ({| s_nodes := replace_nth k nd' (s_nodes sm); s_soup := s_soup sm ++ out |},
       [OL [OZ (Z.of_nat k); res]], out)
  end.

Definition mark_seen (sm : sim) (k i : nat) : sim :=
  match nth_error (s_nodes sm) k with
  | Some nd =>
      if node_up nd then
        set_node sm k {| sn_cfg := sn_cfg nd; sn_rs := sn_rs nd; sn_down := sn_down nd;
                         sn_seen := set_seen (sn_seen nd) i; sn_blocks := sn_blocks nd |}
      else sm
  | None => sm
  end.

(* deliver soup[i] to node k, as operation [mk] of the message *)
Definition deliver_as (mk : rinput -> rop) (sm : sim) (k i : nat) : sim * list obsv * list sgmsg :=
  match nth_error (s_soup sm) i with
  | None => (sm, [], [])
  | Some m => node_op (mark_seen sm k i) k (mk (IMsg m))
  end.
Definition deliver := deliver_as OpIn.

(* accumulate a sequence of sub-steps *)
Definition acc := (sim * list obsv * list sgmsg)%type.
Definition acc_then (a : acc) (f : sim -> acc) : acc :=
  let '(sm, ob, out) := a in
  let '(sm', ob', out') := f sm in (sm', ob ++ ob', out ++ out').
Definition acc0 (sm : sim) : acc := (sm, [], []).

(* every soup message with index < L selected by [p] and not yet delivered to node k, in soup
   order *)
Definition deliver_sel (p : sgmsg -> bool) (L : nat) (k : nat) (sm : sim) : acc :=
  fold_left (fun a i =>
               acc_then a (fun sm =>
                 match nth_error (s_nodes sm) k, nth_error (s_soup sm) i with
                 | Some nd, Some m => if seen (sn_seen nd) i || negb (p m) then acc0 sm else deliver sm k i
                 | _, _ => acc0 sm
                 end))
            (seq 0 L) (acc0 sm).
Definition deliver_all := deliver_sel (fun _ => true).
(* partition: only the messages sent by one of the given keys *)
Definition deliver_from (keys : list Z) := deliver_sel (fun m => existsb (Z.eqb (m_key m)) keys).
(* loss: every soup message with index < L counts as delivered to node k without being delivered *)
Definition lose_all (L : nat) (k : nat) (sm : sim) : sim :=
  fold_left (fun sm i => mark_seen sm k i) (seq 0 L) sm.

(* block sync: the next missing finalized block of node k, from the lowest-index other node
   (up or not: disks survive) that has it *)
Fixpoint find_block (nodes : list snode) (j : nat) (k : nat) (n : Z) : option (Z * Z) :=
  match nodes with
  | [] => None
  | nd :: rest =>
      match (if Nat.eqb j k then None else find (fun b => fst b =? n) (sn_blocks nd)) with
      | Some b => Some b
      | None => find_block rest (S j) k n
      end
  end.
Definition sync_one (sm : sim) (k : nat) : option acc :=
  match nth_error (s_nodes sm) k with
  | None => None
  | Some nd =>
      if negb (node_up nd) then None else
      match find_block (s_nodes sm) 0 k (r_store_next (rs_s (sn_rs nd))) with
      | None => None
      | Some (n, h) => Some (node_op sm k (OpIn (ISync n h)))
      end
  end.
Fixpoint sync_all (fuel : nat) (k : nat) (sm : sim) : acc :=
  match fuel with
  | O => acc0 sm
  | S f =>
      match sync_one sm k with
      | None => acc0 sm
      | Some a => acc_then a (sync_all f k)
      end
  end.
Definition total_blocks (sm : sim) : nat :=
  fold_left (fun n nd => (n + length (sn_blocks nd))%nat) (s_nodes sm) O.

(* ---------- Byzantine helpers resolved against the soup at run time ---------- *)
Definition msg_kind (m : cmsg) : Z :=
  match m with MProposal _ _ => 0 | MCommit _ => 1 | MTimeout _ => 2 | MNewView _ => 3 end.
Definition msg_just (m : cmsg) : option justification :=
  match m with MProposal _ j | MNewView j => Some j | _ => None end.

(* the justification of the last proposal / new-view message in the soup for a view led by key *)
Definition last_just_for (cfg : config) (soup : list sgmsg) (key : Z) : option justification :=
  fold_left (fun best m =>
               match msg_just (m_msg m) with
               | Some j =>
                   match justification_view (E := unit) (cchk cfg) j with
                   | Ok mv => if cleader cfg (vnum mv) =? key then Some j else best
                   | _ => best
                   end
               | None => best
               end) soup None.

(* mode 0: payload as the implied block demands; 1: always the given payload; 2: never a payload *)
Definition byz_proposal (cfg : config) (soup : list sgmsg) (key payload mode : Z) : option sgmsg :=
  match last_just_for cfg soup key with
  | None => None
  | Some j =>
      let p := if mode =? 1 then Some payload
               else if mode =? 2 then None
               else match get_implied_block (E := unit) (cchk cfg) (cC cfg) (cfirst cfg) j with
                    | Ok (_, Some _) => None
                    | _ => Some payload
                    end in
      Some (mk_msg key (MProposal p j))
  end.

Definition alter (alt : option Z) (m : cmsg) : cmsg :=
  match alt with
  | None => m
  | Some p =>
      match m with
      | MCommit c => MCommit {| cview := cview c; cprop := {| hnum := hnum (cprop c); hpay := p |} |}
      | MTimeout t =>
          MTimeout {| tview := tview t;
                      thv := option_map (fun v => {| cview := cview v;
                                                     cprop := {| hnum := hnum (cprop v); hpay := p |} |}) (thv t);
                      thq := thq t |}
      | _ => m
      end
  end.
(* the [back]-th last message of the given kind in the soup, re-signed by key *)
Definition byz_echo (soup : list sgmsg) (key kind : Z) (back : nat) (alt : option Z) : option sgmsg :=
  match nth_error (rev (filter (fun m => msg_kind (m_msg m) =? kind) soup)) back with
  | None => None
  | Some m => Some (mk_msg key (alter alt (m_msg m)))
  end.

(* append a Byzantine message and deliver it to the targets, in order *)
Definition byz_send (sm : sim) (m : sgmsg) (targets : list nat) : acc :=
  let i := length (s_soup sm) in
  let sm1 := {| s_nodes := s_nodes sm; s_soup := s_soup sm ++ [m] |} in
  fold_left (fun a k => acc_then a (fun sm => deliver sm k i)) targets (sm1, [], [m]).

(* ---------- schedule operations ---------- *)
Inductive sop :=
| SDeliver (k i : nat)
| STimer (k : nat)
| SByz (targets : list nat) (m : sgmsg)
| SByzLead (key payload mode : Z) (targets : list nat)
| SByzEcho (key kind : Z) (back : nat) (alt : option Z) (targets : list nat)
| SCrashDeliver (k i : nat) (cp : nat) (applied : bool)
| SCrashTimer (k : nat) (cp : nat) (applied : bool)
| SRestart (k : nat)
| SStop (k : nat)
| SSync (k : nat)
| SDeliverAllTo (k : nat)
| SDeliverFrom (k : nat) (keys : list Z)
| SLoseAllTo (k : nat)
| SRound.

Definition node_view (nd : snode) : Z := r_view (rs_s (sn_rs nd)).

Definition restart (sm : sim) (k : nat) : acc :=
  match nth_error (s_nodes sm) k with
  | None => acc0 sm
  | Some nd =>
      let st := sn_rs nd in
      let nd0 := {| sn_cfg := sn_cfg nd;
                    sn_rs := {| rs_s := rs_s st; rs_d := rs_d st; rs_dead := false |};
                    sn_down := false; sn_seen := sn_seen nd; sn_blocks := sn_blocks nd |} in
      node_op (set_node sm k nd0) k OpRestart
  end.

Definition stop (sm : sim) (k : nat) : sim :=
  match nth_error (s_nodes sm) k with
  | Some nd =>
      if node_up nd then
        set_node sm k {| sn_cfg := sn_cfg nd; sn_rs := sn_rs nd; sn_down := true;
                         sn_seen := sn_seen nd; sn_blocks := sn_blocks nd |}
      else sm
  | None => sm
  end.

Definition all_nodes (sm : sim) : list nat := seq 0 (length (s_nodes sm)).

(* a synchronous round of duration view_timeout *)
Definition round (sm : sim) : acc :=
  let L := length (s_soup sm) in
  let views := map node_view (s_nodes sm) in
  let a1 := fold_left (fun a k => acc_then a (deliver_all L k)) (all_nodes sm) (acc0 sm) in
  let a2 := acc_then a1 (fun sm =>
              fold_left (fun a k => acc_then a (fun sm => sync_all (S (total_blocks sm)) k sm))
                        (all_nodes sm) (acc0 sm)) in
  acc_then a2 (fun sm =>
    fold_left (fun a k =>
                 acc_then a (fun sm =>
                   match nth_error (s_nodes sm) k, nth_error views k with
                   | Some nd, Some v => if node_view nd =? v then node_op sm k (OpIn ITimer) else acc0 sm
                   | _, _ => acc0 sm
                   end))
              (all_nodes sm) (acc0 sm)).

Definition cfg0 (sm : sim) : option config :=
  match s_nodes sm with nd :: _ => Some (sn_cfg nd) | [] => None end.

(* the operation and the nodes whose snapshot is reported after it *)
Definition sim_op (sm : sim) (o : sop) : acc * list nat :=
  match o with
  | SDeliver k i => (deliver sm k i, [k])
  | STimer k => (node_op sm k (OpIn ITimer), [k])
  | SByz targets m => (byz_send sm m targets, targets)
  | SByzLead key payload mode targets =>
      (match cfg0 sm with
       | Some cfg => match byz_proposal cfg (s_soup sm) key payload mode with
                     | Some m => byz_send sm m targets
                     | None => acc0 sm
                     end
       | None => acc0 sm
       end, targets)
  | SByzEcho key kind back alt targets =>
      (match byz_echo (s_soup sm) key kind back alt with
       | Some m => byz_send sm m targets
       | None => acc0 sm
       end, targets)
  | SCrashDeliver k i cp applied => (deliver_as (fun x => OpCrash x cp applied) sm k i, [k])
  | SCrashTimer k cp applied => (node_op sm k (OpCrash ITimer cp applied), [k])
  | SRestart k => (restart sm k, [k])
  | SStop k => (acc0 (stop sm k), [k])
  | SSync k => (match sync_one sm k with Some a => a | None => acc0 sm end, [k])
  | SDeliverAllTo k => (deliver_all (length (s_soup sm)) k sm, [k])
  | SDeliverFrom k keys => (deliver_from keys (length (s_soup sm)) k sm, [k])
  | SLoseAllTo k => (acc0 (lose_all (length (s_soup sm)) k sm), [k])
  | SRound => (round sm, all_nodes sm)
  end.

(* ---------- observations ---------- *)
Definition obs_node (sm : sim) (k : nat) : obsv :=
  match nth_error (s_nodes sm) k with
  | None => OL [OZ (Z.of_nat k); OZ (-1)]
  | Some nd =>
      if sn_down nd then OL [OZ (Z.of_nat k); OZ 2; OZ (Z.of_nat (length (sn_blocks nd)))]
      else if rs_dead (sn_rs nd) then OL [OZ (Z.of_nat k); OZ 0; OZ (Z.of_nat (length (sn_blocks nd)))]
      else OL [OZ (Z.of_nat k); OZ 1; OZ (Z.of_nat (length (sn_blocks nd))); sobs_snapshot (rs_s (sn_rs nd))]
  end.
Definition obs_sent (m : sgmsg) : obsv := OL [OZ (m_key m); sobs_cmsg (m_msg m)].
Definition obs_op (a : acc) (touched : list nat) : obsv :=
  let '(sm, steps, out) := a in
  OL [OL steps; OL (map (obs_node sm) touched); OL (map obs_sent out)].

Fixpoint sim_ops (sm : sim) (ops : list sop) : list obsv * sim :=
  match ops with
  | [] => ([], sm)
  | o :: rest =>
      let '(a, touched) := sim_op sm o in
      let '(obs, sm') := sim_ops (fst (fst a)) rest in
      (obs_op a touched :: obs, sm')
  end.

Definition set_cme (cfg : config) (k : Z) : config :=
  {| cg := cg cfg; ce := ce cfg; cC := cC cfg; cme := k; cfirst := cfirst cfg; cmaxpay := cmaxpay cfg;
     cpsize := cpsize cfg; cpok := cpok cfg; cchk := cchk cfg |}.

(* a case: configuration template (cme irrelevant), the keys of the honest nodes in node
   order, the operations.  All nodes start from the default durable state with the block
   store [cfirst, cfirst); the start of node k (StateMachine::start + prologue) happens in
   node order. *)
Definition sim_case := (config * list Z * list sop)%type.

Definition sim_init (cfg : config) (keys : list Z) : acc :=
  let nodes := map (fun key =>
                      let c := set_cme cfg key in
                      {| sn_cfg := c;
                         sn_rs := {| rs_s := rstart c durable_default (cfirst c) (cfirst c);
                                     rs_d := durable_default; rs_dead := false |};
                         sn_down := false; sn_seen := []; sn_blocks := [] |}) keys in
  let sm := {| s_nodes := nodes; s_soup := [] |} in
  fold_left (fun a k => acc_then a (fun sm => node_op sm k OpRestart)) (all_nodes sm) (acc0 sm).

Definition obs_blocks (sm : sim) : obsv :=
  OL (map (fun nd => OL (map (fun b => OL [OZ (fst b); OZ (snd b)]) (sn_blocks nd))) (s_nodes sm)).

Definition sim_run (c : sim_case) : obsv :=
  let '(cfg, keys, ops) := c in
  let a := sim_init cfg keys in
  let sm0 := fst (fst a) in
  let '(obs, sm) := sim_ops sm0 ops in
  OL (obs_op a (all_nodes sm0) :: obs ++ [obs_blocks sm]).

(* final state, for statements about runs *)
Definition sim_final (c : sim_case) : sim :=
  let '(cfg, keys, ops) := c in snd (sim_ops (fst (fst (sim_init cfg keys))) ops).
Definition run_case := sim_run.

(* ---------- digest of an observation ----------
   Parsing a 400 kB observation literal costs coqc seconds while evaluating the model costs
   milliseconds, so the correspondence compares a 63-bit polynomial digest of the model's
   observation with the digest of the implementation's (computed by gen/sim_gen.py over the same
   token stream: OZ z -> 1, z; OL l -> 2, length l, elements; arithmetic modulo 2^63 on
   primitive integers); on a digest mismatch the full observations are compared to locate the
   first difference. *)
Definition hmix (h : Uint63.int) (t : Z) : Uint63.int :=
  Uint63.add (Uint63.add (Uint63.mul h (Uint63.of_Z 1000003)) (Uint63.of_Z t)) (Uint63.of_Z 12345).
Fixpoint obs_hash_go (h : Uint63.int) (o : obsv) {struct o} : Uint63.int :=
  match o with
  | OZ z => hmix (hmix h 1) z
  | OL l =>
      (fix go (h : Uint63.int) (l : list obsv) {struct l} : Uint63.int :=
         match l with
         | [] => h
         | x :: l' => go (obs_hash_go h x) l'
         end) (hmix (hmix h 2) (Z.of_nat (length l))) l
  end.
Definition obs_hash (o : obsv) : Z := Uint63.to_Z (obs_hash_go (Uint63.of_Z 7) o).
Definition sim_run_hash (c : sim_case) : obsv := OZ (obs_hash (sim_run c)).
