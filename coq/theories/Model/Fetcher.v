(* Model of gossip::Network::run_block_fetcher (node/components/network/src/gossip/mod.rs):

     let sem = Semaphore::new(max_block_queue_size);
     let mut next = engine_manager.queued().next();
     loop {
         let permit = acquire(sem).await?;                    (FSpawn, needs a free permit)
         let number = next; next = next + 1;
         spawn(async {
             let _permit = permit;
             scope::run!(|ctx, s| {
                 s.spawn_bg(fetch_queue.request(ctx, Block(number)));   the request is live ...
                 engine_manager.wait_until_queued(ctx, number).await?;  ... until the block is queued by
                 Err(Canceled)                                          any route (FQueued number)
             });
             engine_manager.wait_until_persisted(ctx, number).await     (FDone number: permit released)
         });
     }

   The engine manager enters through two counters: queued.next (any route queues the next block:
   EQueue) and persisted.next (EPersist).  What happens to a live request inside the fetch queue
   is the business of Model/Fetch.v; here a request is "live" from FSpawn to FQueued. *)
From Coq Require Import ZArith List Bool Arith.
From EC Require Import Lib.Obs.
Import ListNotations.
Open Scope Z_scope.

Inductive phase := PReq | PPersist.

Record fstate := {
  f_limit : nat;                 (* max_block_queue_size *)
  f_start : Z;                   (* queued.next when the fetcher started *)
  f_next : Z;                    (* the loop variable `next` *)
  f_tasks : list (Z * phase);    (* spawned fetch tasks that still hold their permit *)
  f_qnext : Z;                   (* engine_manager.queued().next() *)
  f_pnext : Z                    (* engine_manager.persisted().next() *)
}.

Inductive faction :=
| FSpawn              (* a permit is free: spawn the task for `next` *)
| FQueued (n : Z)     (* task n sees n < queued.next: its request is cancelled *)
| FDone (n : Z)       (* task n sees n < persisted.next: it ends, the permit is released *)
| EQueue              (* block number queued.next is queued (fetched, or from consensus) *)
| EPersist.           (* the next queued block becomes persistent *)

Definition phase_eqb (a b : phase) : bool :=
  match a, b with PReq, PReq => true | PPersist, PPersist => true | _, _ => false end.

Fixpoint tphase (n : Z) (l : list (Z * phase)) : option phase :=
  match l with [] => None | (k, ph) :: l' => if k =? n then Some ph else tphase n l' end.
Fixpoint tset (n : Z) (ph : phase) (l : list (Z * phase)) : list (Z * phase) :=
  match l with
  | [] => []
  | (k, x) :: l' => if k =? n then (k, ph) :: l' else (k, x) :: tset n ph l'
  end.
Fixpoint tremove (n : Z) (l : list (Z * phase)) : list (Z * phase) :=
  match l with
  | [] => []
  | (k, x) :: l' => if k =? n then l' else (k, x) :: tremove n l'
  end.

Definition with_tasks (s : fstate) (nx : Z) (t : list (Z * phase)) : fstate :=
  {| f_limit := f_limit s; f_start := f_start s; f_next := nx; f_tasks := t;
     f_qnext := f_qnext s; f_pnext := f_pnext s |}.

Definition fstep (s : fstate) (a : faction) : option fstate :=
  match a with
  | FSpawn =>
      if (length (f_tasks s) <? f_limit s)%nat
      then Some (with_tasks s (f_next s + 1) (f_tasks s ++ [(f_next s, PReq)]))
      else None
  | FQueued n =>
      match tphase n (f_tasks s) with
      | Some PReq => if n <? f_qnext s then Some (with_tasks s (f_next s) (tset n PPersist (f_tasks s))) else None
      | _ => None
      end
  | FDone n =>
      match tphase n (f_tasks s) with
      | Some PPersist => if n <? f_pnext s then Some (with_tasks s (f_next s) (tremove n (f_tasks s))) else None
      | _ => None
      end
  | EQueue =>
      Some {| f_limit := f_limit s; f_start := f_start s; f_next := f_next s; f_tasks := f_tasks s;
              f_qnext := f_qnext s + 1; f_pnext := f_pnext s |}
  | EPersist =>
      if f_pnext s <? f_qnext s
      then Some {| f_limit := f_limit s; f_start := f_start s; f_next := f_next s; f_tasks := f_tasks s;
                   f_qnext := f_qnext s; f_pnext := f_pnext s + 1 |}
      else None
  end.

Fixpoint frun (s : fstate) (l : list faction) : option fstate :=
  match l with
  | [] => Some s
  | a :: l' => match fstep s a with Some s' => frun s' l' | None => None end
  end.

(* the store holds [.., p0 - 1] persistently and [.., q0 - 1] in memory when the fetcher starts *)
Definition finit (limit : nat) (q0 p0 : Z) : fstate :=
  {| f_limit := limit; f_start := q0; f_next := q0; f_tasks := []; f_qnext := q0; f_pnext := p0 |}.

(* numbers with a live request *)
Definition live (s : fstate) : list Z :=
  map fst (filter (fun t => phase_eqb (snd t) PReq) (f_tasks s)).

(* ================================================================================== *)
(* Correspondence: the script of harness/src/bin/fetcher.rs.  Besides the fetcher it tracks where
   each live request is (fetch queue / held by the test connection / being stored), which blocks
   have arrived but cannot be queued yet, and how many persist completions are allowed. *)
Record sim := {
  fs : fstate;
  arrived : list Z;
  permits : nat;
  inq : list Z;
  held : list Z;
  storing : list Z
}.

Inductive op :=
| OArrive (n : Z) | OPersist (k : nat) | OTake | OStore (i : nat) | ODrop (i : nat).

Fixpoint zmem (n : Z) (l : list Z) : bool :=
  match l with [] => false | x :: l' => (x =? n) || zmem n l' end.
Fixpoint zremove (n : Z) (l : list Z) : list Z :=
  match l with [] => [] | x :: l' => if x =? n then zremove n l' else x :: zremove n l' end.
Fixpoint zinsert (k : Z) (l : list Z) : list Z :=
  match l with [] => [k] | x :: l' => if k <=? x then k :: l else x :: zinsert k l' end.
Definition zsort (l : list Z) : list Z := fold_right zinsert [] l.
Fixpoint remove_nth {A} (i : nat) (l : list A) : list A :=
  match l, i with
  | [], _ => []
  | _ :: l', O => l'
  | x :: l', S i' => x :: remove_nth i' l'
  end.

Fixpoint find_task (f : Z * phase -> bool) (l : list (Z * phase)) : option Z :=
  match l with [] => None | t :: l' => if f t then Some (fst t) else find_task f l' end.

Definition upd_fs (s : sim) (f : fstate) : sim :=
  {| fs := f; arrived := arrived s; permits := permits s; inq := inq s; held := held s; storing := storing s |}.

(* one internal move of manager / persistence layer, if enabled *)
Definition step_mgr (s : sim) : option sim :=
  let f := fs s in
  if zmem (f_qnext f) (arrived s) then
    match fstep f EQueue with
    | Some f' => Some {| fs := f'; arrived := zremove (f_qnext f) (arrived s); permits := permits s;
                         inq := inq s; held := held s; storing := storing s |}
    | None => None
    end
  else match permits s with
       | O => None
       | S k =>
           match fstep f EPersist with
           | Some f' => Some {| fs := f'; arrived := arrived s; permits := k; inq := inq s; held := held s;
                                storing := storing s |}
           | None => None
           end
       end.

(* one move of the fetcher, if enabled; every move is a step of [fstep] *)
Definition step_fetcher (s : sim) : option sim :=
  let f := fs s in
  match find_task (fun t => phase_eqb (snd t) PReq && (fst t <? f_qnext f)) (f_tasks f) with
  | Some n =>
      match fstep f (FQueued n) with
      | Some f' => Some {| fs := f'; arrived := arrived s; permits := permits s; inq := zremove n (inq s);
                           held := held s; storing := storing s |}
      | None => None
      end
  | None =>
  match find_task (fun t => phase_eqb (snd t) PPersist && (fst t <? f_pnext f)) (f_tasks f) with
  | Some n => match fstep f (FDone n) with Some f' => Some (upd_fs s f') | None => None end
  | None =>
  match fstep f FSpawn with
  | Some f' => Some {| fs := f'; arrived := arrived s; permits := permits s; inq := f_next f :: inq s;
                       held := held s; storing := storing s |}
  | None => None
  end end end.

Definition sim_step (s : sim) : option sim :=
  match step_mgr s with Some s' => Some s' | None => step_fetcher s end.

Fixpoint settle (fuel : nat) (s : sim) : sim * bool :=
  match fuel with
  | O => (s, false)
  | S fuel' => match sim_step s with Some s' => settle fuel' s' | None => (s, true) end
  end.

Definition finish_storing (s : sim) : sim :=
  {| fs := fs s; arrived := arrived s; permits := permits s; inq := inq s; held := held s;
     storing := filter (fun n => f_qnext (fs s) <=? n) (storing s) |}.

Definition apply_op (s : sim) (o : op) : sim * nat (* takes requested *) :=
  match o with
  | OArrive n =>
      (if n <? f_qnext (fs s) then s
       else {| fs := fs s; arrived := n :: arrived s; permits := permits s; inq := inq s; held := held s;
               storing := storing s |}, O)
  | OPersist k =>
      ({| fs := fs s; arrived := arrived s; permits := (permits s + k)%nat; inq := inq s; held := held s;
          storing := storing s |}, O)
  | OTake => (s, 1%nat)
  | OStore i =>
      match nth_error (held s) i with
      | None => (s, O)
      | Some n =>
          ({| fs := fs s;
              arrived := if n <? f_qnext (fs s) then arrived s else n :: arrived s;
              permits := permits s; inq := inq s; held := remove_nth i (held s);
              storing := storing s ++ [n] |}, O)
      end
  | ODrop i =>
      match nth_error (held s) i with
      | None => (s, O)
      | Some n =>
          ({| fs := fs s; arrived := arrived s; permits := permits s;
              (* request() retries iff it is still running *)
              inq := match tphase n (f_tasks (fs s)) with Some PReq => n :: inq s | _ => inq s end;
              held := remove_nth i (held s); storing := storing s |}, O)
      end
  end.

Fixpoint apply_ops (s : sim) (takes : nat) (l : list op) : sim * nat :=
  match l with
  | [] => (s, takes)
  | o :: l' => let '(s', t) := apply_op s o in apply_ops s' (takes + t)%nat l'
  end.

(* accept_block of a connection that announces everything: the lowest queued number *)
Fixpoint do_takes (k : nat) (s : sim) : sim :=
  match k with
  | O => s
  | S k' =>
      match zsort (inq s) with
      | [] => s
      | m :: _ => do_takes k' {| fs := fs s; arrived := arrived s; permits := permits s;
                                 inq := zremove m (inq s); held := held s ++ [m]; storing := storing s |}
      end
  end.

Definition obs_sim (s : sim) (ok : bool) : obsv :=
  OL [ob ok; ozs (zsort (inq s)); ozs (held s); ozs (storing s); OZ (f_qnext (fs s)); OZ (f_pnext (fs s))].

Definition FUEL : nat := 4000.

Definition sim_round (s : sim) (ops : list op) : sim * bool :=
  let '(s1, takes) := apply_ops s O ops in
  let '(s2, ok) := settle FUEL s1 in
  (do_takes takes (finish_storing s2), ok).

Fixpoint sim_rounds (s : sim) (l : list (list op)) : list obsv :=
  match l with
  | [] => []
  | ops :: l' => let '(s', ok) := sim_round s ops in obs_sim s' ok :: sim_rounds s' l'
  end.

Definition run_case (c : Z * nat * list (list op)) : obsv :=
  let '(start, limit, l) := c in
  let s0 := {| fs := finit limit start start; arrived := []; permits := O; inq := []; held := []; storing := [] |} in
  let '(s1, ok) := sim_round s0 [] in
  OL (obs_sim s1 ok :: sim_rounds s1 l).
