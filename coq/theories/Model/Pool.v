(* C12 — model of network/src/pool.rs (Pool / PoolWatch) and of the connection glue around it
   (gossip/runner.rs run_inbound_stream / run_outbound_stream, consensus/mod.rs
   run_inbound_stream / run_outbound_stream, Network::new).

   insert / remove are the closures run under the watch lock: each executes atomically
   (H-ATOM), so every concurrent execution is a sequence of these steps.  The map `current`
   is a list of keys without order significance (values are not modelled).  usize arithmetic
   is explicit: `extra_count += 1` and `extra_count -= 1` panic on overflow in the dev profile. *)
From Coq Require Import ZArith List Bool.
From EC Require Import Lib.Obs Lib.Outcome Lib.U64 Model.Handshake.
Import ListNotations.
Open Scope Z_scope.

Record pool : Type := {
  p_allowed : list Z;
  p_limit : Z;      (* extra_limit *)
  p_extra : Z;      (* extra_count *)
  p_current : list Z;
}.

Inductive perr : Type := EExists | ELimit.

Definition pool_new (allowed : list Z) (limit : Z) : pool :=
  {| p_allowed := allowed; p_limit := limit; p_extra := 0; p_current := [] |}.

Definition removez (k : Z) (l : list Z) : list Z := filter (fun x => negb (x =? k)) l.

(* PoolWatch::insert *)
Definition insert (k : Z) (p : pool) : outcome perr pool :=
  if memz k (p_current p) then Err EExists else
  if negb (memz k (p_allowed p)) then
    if p_limit p <=? p_extra p then Err ELimit else
    if u64_max <? p_extra p + 1 then Panic POverflow else
    Ok {| p_allowed := p_allowed p; p_limit := p_limit p; p_extra := p_extra p + 1;
          p_current := k :: p_current p |}
  else
    Ok {| p_allowed := p_allowed p; p_limit := p_limit p; p_extra := p_extra p;
          p_current := k :: p_current p |}.

(* PoolWatch::remove *)
Definition remove (k : Z) (p : pool) : outcome perr pool :=
  if negb (memz k (p_current p)) then Ok p else
  if negb (memz k (p_allowed p)) then
    if p_extra p - 1 <? 0 then Panic POverflow else
    Ok {| p_allowed := p_allowed p; p_limit := p_limit p; p_extra := p_extra p - 1;
          p_current := removez k (p_current p) |}
  else
    Ok {| p_allowed := p_allowed p; p_limit := p_limit p; p_extra := p_extra p;
          p_current := removez k (p_current p) |}.

(* ---------- raw operation sequences (what the correspondence drives) ---------- *)

Inductive pop : Type := PInsert (k : Z) | PRemove (k : Z).

(* a failed insert leaves the pool as it was *)
Definition pstep (p : pool) (o : pop) : outcome perr pool * pool :=
  match o with
  | PInsert k => let r := insert k p in (r, match r with Ok p' => p' | _ => p end)
  | PRemove k => let r := remove k p in (r, match r with Ok p' => p' | _ => p end)
  end.

Fixpoint prun (p : pool) (ops : list pop) : pool :=
  match ops with
  | [] => p
  | o :: ops' => prun (snd (pstep p o)) ops'
  end.

(* ---------- the connection glue ----------
   run_*_stream:   key <- handshake(...)?;  pool.insert(key, ..).await?;  run;  pool.remove(key)
   A connection whose handshake or insert failed returns early and never calls remove. *)

Record gstate : Type := {
  g_pool : pool;
  g_live : list (Z * Z);   (* (connection id, key) of connections between insert and remove *)
}.

Inductive gop : Type :=
| GConn (c : Z) (hs : outcome herr Z)   (* connection c finished its handshake with result hs *)
| GDisc (c : Z).                        (* connection c ends *)

Definition ginit (allowed : list Z) (limit : Z) : gstate :=
  {| g_pool := pool_new allowed limit; g_live := [] |}.

Fixpoint live_key (c : Z) (l : list (Z * Z)) : option Z :=
  match l with
  | [] => None
  | (c', k) :: l' => if c' =? c then Some k else live_key c l'
  end.

Definition drop_conn (c : Z) (l : list (Z * Z)) : list (Z * Z) :=
  filter (fun ck => negb (fst ck =? c)) l.

Definition gstep (g : gstate) (o : gop) : outcome perr gstate :=
  match o with
  | GConn c hs =>
      match live_key c (g_live g) with
      | Some _ => Ok g                      (* connection ids are fresh; a repeated id is ignored *)
      | None =>
          match hs with
          | Ok k =>
              match insert k (g_pool g) with
              | Ok p' => Ok {| g_pool := p'; g_live := (c, k) :: g_live g |}
              | Err _ => Ok g               (* `?` : the connection is dropped *)
              | Panic x => Panic x
              end
          | _ => Ok g                       (* handshake failed: `?` *)
          end
      end
  | GDisc c =>
      match live_key c (g_live g) with
      | None => Ok g
      | Some k =>
          match remove k (g_pool g) with
          | Ok p' => Ok {| g_pool := p'; g_live := drop_conn c (g_live g) |}
          | Err e => Err e
          | Panic x => Panic x
          end
      end
  end.

Fixpoint grun (g : gstate) (ops : list gop) : outcome perr gstate :=
  match ops with
  | [] => Ok g
  | o :: ops' => match gstep g o with
                 | Ok g' => grun g' ops'
                 | Err e => Err e
                 | Panic x => Panic x
                 end
  end.

(* The four pools of a node (Network::new in gossip/mod.rs and consensus/mod.rs). *)
Definition validator_inbound_pool (committee : list Z) : gstate := ginit committee 0.
Definition validator_outbound_pool (committee : list Z) : gstate := ginit committee 0.
Definition gossip_outbound_pool (static_outbound : list Z) : gstate := ginit static_outbound 0.
Definition gossip_inbound_pool (static_inbound : list Z) (dynamic_inbound_limit : Z) : gstate :=
  ginit static_inbound dynamic_inbound_limit.

(* number of current keys outside the allowed set *)
Definition extras (p : pool) : Z :=
  Z.of_nat (length (filter (fun k => negb (memz k (p_allowed p))) (p_current p))).

(* ---------- correspondence ---------- *)

Definition perr_code (e : perr) : Z := match e with EExists => 1 | ELimit => 2 end.

Definition obs_pres (r : outcome perr pool) : obsv :=
  match r with
  | Ok _ => OL [OZ 0]
  | Err e => OL [OZ 2; OZ (perr_code e)]
  | Panic x => OL [OZ 1; OZ (panic_code x)]
  end.

Fixpoint universe (n : nat) : list Z :=
  match n with O => [] | S n' => universe n' ++ [Z.of_nat n'] end.

(* contents in canonical (key index) order *)
Definition obs_current (n : nat) (p : pool) : obsv :=
  ozs (filter (fun k => memz k (p_current p)) (universe n)).

Fixpoint prun_obs (n : nat) (p : pool) (ops : list pop) : list obsv :=
  match ops with
  | [] => []
  | o :: ops' =>
      let '(r, p') := pstep p o in
      OL [obs_pres r; obs_current n p'] :: prun_obs n p' ops'
  end.

(* case: number of keys in play, allowed set, extra_limit, operations *)
Definition run_case (c : nat * list Z * Z * list pop) : obsv :=
  let '(n, allowed, limit, ops) := c in
  OL (prun_obs n (pool_new allowed limit) ops).

(* ---------- correspondence of the executed glue ----------
   A real node (gossip or validator network, accepting end) is fed connections by the adversary.
   Connection number c runs on session id c.  GEConn: the adversary opens the next connection and
   delivers a message (Model/Handshake.v [resolve]; the node's earlier answers are what it has
   recorded); GEDisc c: it closes connection c.  After every event: did the node answer, is the
   connection live (past insert), and the pool contents. *)
Inductive gevent : Type :=
| GEConn (a : advmsg)
| GEDisc (c : nat).

Definition is_live (c : Z) (g : gstate) : bool :=
  match live_key c (g_live g) with Some _ => true | None => false end.

Fixpoint glue_obs (n : nat) (cfg : epcfg) (g : gstate) (recs : list (option hmsg)) (evs : list gevent)
  : list obsv :=
  match evs with
  | [] => []
  | GEConn a :: evs' =>
      let sid := Z.of_nat (length recs) in
      let hs := decide cfg sid (resolve recs a) in
      let answer := emit_accept cfg sid hs in
      match gstep g (GConn sid hs) with
      | Ok g' =>
          OL [ob (match answer with Some _ => true | None => false end); ob (is_live sid g');
              obs_current n (g_pool g')]
            :: glue_obs n cfg g' (recs ++ [answer]) evs'
      | Err _ => [OL [OZ 2]]
      | Panic x => [OL [OZ 1; OZ (panic_code x)]]
      end
  | GEDisc c :: evs' =>
      match gstep g (GDisc (Z.of_nat c)) with
      | Ok g' => OL [OZ 0; OZ 0; obs_current n (g_pool g')] :: glue_obs n cfg g' recs evs'
      | Err _ => [OL [OZ 2]]
      | Panic x => [OL [OZ 1; OZ (panic_code x)]]
      end
  end.

(* case: keys in play, allowed set, extra_limit, the node's handshake configuration, events *)
Definition run_glue_case (c : nat * list Z * Z * epcfg * list gevent) : obsv :=
  let '(n, allowed, limit, cfg, evs) := c in
  OL (glue_obs n cfg (ginit allowed limit) [] evs).

(* ---------- a node: both directions of one network, as executed by the harness ----------
   Inbound:  run_inbound_stream  = inbound handshake  -> inbound pool insert -> serve -> remove.
   Outbound: run_outbound_stream = dial, outbound handshake expecting [peer] -> outbound pool
   insert -> serve -> remove.  The two pools are separate objects.  Connections are numbered in
   the order they are opened (either direction); connection c runs on session id c. *)
Record ncfg : Type := {
  nc_net : net;
  nc_key : Z;
  nc_gen : Z;
  nc_in_allowed : list Z;    (* gossip: static_inbound;          validator: committee *)
  nc_in_limit : Z;           (* gossip: dynamic_inbound_limit;   validator: 0 *)
  nc_out_allowed : list Z;   (* gossip: static_outbound keys;    validator: committee *)
}.

Definition cfg_in (nc : ncfg) : epcfg :=
  {| e_net := nc_net nc; e_key := nc_key nc; e_gen := nc_gen nc; e_role := RIn;
     e_statics := nc_in_allowed nc |}.
Definition cfg_out (nc : ncfg) (peer : Z) : epcfg :=
  {| e_net := nc_net nc; e_key := nc_key nc; e_gen := nc_gen nc; e_role := ROut peer;
     e_statics := nc_out_allowed nc |}.

Record nstate : Type := {
  n_in : gstate;
  n_out : gstate;
  n_recs : list (option hmsg);   (* per connection: what the node sent (the adversary's record) *)
}.

Definition ninit (nc : ncfg) : nstate :=
  {| n_in := ginit (nc_in_allowed nc) (nc_in_limit nc);
     n_out := ginit (nc_out_allowed nc) 0;        (* both outbound pools: extra_limit 0 *)
     n_recs := [] |}.

Inductive nevent : Type :=
| NConn (a : advmsg)              (* a peer connects and delivers a *)
| NDial (peer : Z) (a : advmsg)   (* the node dials expecting [peer]; the other end answers a *)
| NDialDead (peer : Z)            (* the node dials; the other end closes before the preface ends *)
| NDisc (c : nat).                (* the other end of connection c closes *)

Definition nstep (nc : ncfg) (st : nstate) (e : nevent) : outcome perr nstate :=
  let sid := Z.of_nat (length (n_recs st)) in
  match e with
  | NConn a =>
      let hs := decide (cfg_in nc) sid (resolve (n_recs st) a) in
      match gstep (n_in st) (GConn sid hs) with
      | Ok g' => Ok {| n_in := g'; n_out := n_out st;
                       n_recs := n_recs st ++ [emit_accept (cfg_in nc) sid hs] |}
      | Err x => Err x | Panic x => Panic x
      end
  | NDial p a =>
      let recs' := n_recs st ++ [emit_open (cfg_out nc p) sid] in
      let hs := decide (cfg_out nc p) sid (resolve recs' a) in
      match gstep (n_out st) (GConn sid hs) with
      | Ok g' => Ok {| n_in := n_in st; n_out := g'; n_recs := recs' |}
      | Err x => Err x | Panic x => Panic x
      end
  | NDialDead p => Ok {| n_in := n_in st; n_out := n_out st; n_recs := n_recs st ++ [None] |}
  | NDisc c =>
      match gstep (n_in st) (GDisc (Z.of_nat c)) with
      | Ok gi =>
          match gstep (n_out st) (GDisc (Z.of_nat c)) with
          | Ok go => Ok {| n_in := gi; n_out := go; n_recs := n_recs st |}
          | Err x => Err x | Panic x => Panic x
          end
      | Err x => Err x | Panic x => Panic x
      end
  end.

Fixpoint nrun (nc : ncfg) (st : nstate) (evs : list nevent) : outcome perr nstate :=
  match evs with
  | [] => Ok st
  | e :: evs' => match nstep nc st e with
                 | Ok st' => nrun nc st' evs'
                 | Err x => Err x | Panic x => Panic x
                 end
  end.

(* observation after an event: event specific part, is the connection live, both pools *)
Definition node_obs1 (n : nat) (nc : ncfg) (st st' : nstate) (e : nevent) : obsv :=
  let sid := Z.of_nat (length (n_recs st)) in
  let pools := [obs_current n (g_pool (n_in st')); obs_current n (g_pool (n_out st'))] in
  match e with
  | NConn _ =>
      OL ([ob (match nth_error (n_recs st') (length (n_recs st)) with Some (Some _) => true | _ => false end);
           ob (is_live sid (n_in st'))] ++ pools)
  | NDial _ _ =>
      OL ([oopt obs_msg (match nth_error (n_recs st') (length (n_recs st)) with Some o => o | None => None end);
           ob (is_live sid (n_out st'))] ++ pools)
  | NDialDead _ => OL ([OL []; OZ 0] ++ pools)
  | NDisc _ => OL ([OZ 0; OZ 0] ++ pools)
  end.

Fixpoint node_obs (n : nat) (nc : ncfg) (st : nstate) (evs : list nevent) : list obsv :=
  match evs with
  | [] => []
  | e :: evs' =>
      match nstep nc st e with
      | Ok st' => node_obs1 n nc st st' e :: node_obs n nc st' evs'
      | Err _ => [OL [OZ 2]]
      | Panic x => [OL [OZ 1; OZ (panic_code x)]]
      end
  end.

Definition run_node_case (c : nat * ncfg * list nevent) : obsv :=
  let '(n, nc, evs) := c in OL (node_obs n nc (ninit nc) evs).
