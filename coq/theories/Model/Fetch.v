(* Model of the block fetch hand-over protocol:
     node/components/network/src/gossip/fetch.rs   Queue::{request, accept_block, current_blocks}
     node/components/network/src/gossip/mod.rs     run_block_fetcher (one request() per number, cancelled
                                                   by ending the scope)
     node/components/network/src/gossip/runner.rs  per connection: reserve a call, accept_block(ctx, state),
                                                   keep / fire / drop the completion sender

   The shared object is `watch::Sender<BTreeMap<BlockNumber, oneshot::Sender<()>>>`.  The model keeps
   the map ([s_q]), the watch version ([s_ver]), every requester's control state, every connection's
   acceptor control state, and the fate of each oneshot channel.  A oneshot channel is named by
   (requester id, attempt number): `request` creates a fresh one per loop iteration.

   Grain (H-ATOM): the closure passed to `send_if_modified` runs atomically; `borrow_and_update`
   reads value and version atomically; a task runs without interruption between two awaits.
   Each constructor of [action] is one such atomic piece; [step] returns None when the action is
   not enabled in the state.  All interleavings = all lists of actions accepted by [run]. *)
From Coq Require Import ZArith List Bool Arith.
From EC Require Import Lib.Obs.
Import ListNotations.
Open Scope Z_scope.

(* ---------- data ---------- *)
Definition chan := (nat * nat)%type.          (* requester, attempt *)
Definition chan_eqb (a b : chan) : bool := Nat.eqb (fst a) (fst b) && Nat.eqb (snd a) (snd b).
Fixpoint chan_mem (c : chan) (l : list chan) : bool :=
  match l with [] => false | x :: l' => chan_eqb c x || chan_mem c l' end.

(* BlockStoreState {first, last}; `contains` of libs/engine/src/block_store.rs *)
Record avail := { a_first : Z; a_last : option Z }.
Definition contains (a : avail) (n : Z) : bool :=
  match a_last a with None => false | Some l => (a_first a <=? n) && (n <=? l) end.

(* BTreeMap<BlockNumber, Sender>: association list, at most one entry per key *)
Definition queue := list (Z * chan).
Fixpoint qlookup (n : Z) (q : queue) : option chan :=
  match q with [] => None | (k, c) :: q' => if k =? n then Some c else qlookup n q' end.
Fixpoint qremove (n : Z) (q : queue) : queue :=
  match q with [] => [] | (k, c) :: q' => if k =? n then qremove n q' else (k, c) :: qremove n q' end.
Definition qinsert (n : Z) (c : chan) (q : queue) : queue := (n, c) :: qremove n q.
(* first_key_value().0 *)
Fixpoint qmin (q : queue) : option Z :=
  match q with
  | [] => None
  | (k, _) :: q' => match qmin q' with None => Some k | Some m => Some (Z.min k m) end
  end.
Definition oz_eqb (a b : option Z) : bool :=
  match a, b with None, None => true | Some x, Some y => x =? y | _, _ => false end.
Definition is_min (q : queue) (n : Z) : bool := oz_eqb (qmin q) (Some n).
Definition qempty (q : queue) : bool := match q with [] => true | _ => false end.

(* accept_block: control state of one connection's acceptor *)
Inductive astate :=
| AIdle                                  (* not inside accept_block *)
| AWatch (seen : Z) (m : option Z)       (* inside the scope: version marked seen, lowest key read *)
| AChosen (n : Z).                       (* block_number = Some n, about to remove_entry *)

Record peer := {
  p_alive : bool;                        (* connection scope not cancelled *)
  p_avail : avail;                       (* last pushed BlockStoreState of the remote peer *)
  p_permits : nat;                       (* reserved get_block calls not yet used *)
  p_acc : astate
}.

(* an accepted request whose completion sender connection h_peer owns (the spawned get_block call) *)
Record hentry := { h_peer : nat; h_num : Z; h_chan : chan }.

(* request(): control state of one requester *)
Inductive rstate :=
| RNone
| RInsert (n : Z) (att : nat)            (* at the top of the loop, channel number att not yet created *)
| RWait (n : Z) (att : nat)              (* awaiting recv_or_disconnected on channel (r, att) *)
| RDone (ok : bool).                     (* returned Ok(()) / Err(Canceled) *)
Record req := { r_st : rstate; r_cancel : bool }.

Record state := {
  s_q : queue;
  s_ver : Z;
  s_peers : nat -> peer;
  s_reqs : nat -> req;
  s_held : list hentry;                  (* all held calls, in the order they were accepted *)
  s_sent : list chan;                    (* channels on which () was sent *)
  s_dropped : list chan                  (* channels whose sender was dropped unsent *)
}.

Definition upd {A} (f : nat -> A) (i : nat) (x : A) : nat -> A :=
  fun j => if Nat.eqb j i then x else f j.

Definition set_peer (s : state) (p : nat) (x : peer) : state :=
  {| s_q := s_q s; s_ver := s_ver s; s_peers := upd (s_peers s) p x; s_reqs := s_reqs s;
     s_held := s_held s; s_sent := s_sent s; s_dropped := s_dropped s |}.
Definition set_req (s : state) (r : nat) (x : req) : state :=
  {| s_q := s_q s; s_ver := s_ver s; s_peers := s_peers s; s_reqs := upd (s_reqs s) r x;
     s_held := s_held s; s_sent := s_sent s; s_dropped := s_dropped s |}.
Definition with_acc (x : peer) (a : astate) : peer :=
  {| p_alive := p_alive x; p_avail := p_avail x; p_permits := p_permits x; p_acc := a |}.

(* the calls held by connection p, oldest first *)
Definition held_of (p : nat) (l : list hentry) : list hentry :=
  filter (fun e => Nat.eqb (h_peer e) p) l.
(* removes the i-th call of connection p *)
Fixpoint take_pth (p i : nat) (l : list hentry) : option (hentry * list hentry) :=
  match l with
  | [] => None
  | e :: l' =>
      if Nat.eqb (h_peer e) p then
        match i with
        | O => Some (e, l')
        | S i' => match take_pth p i' l' with Some (x, r) => Some (x, e :: r) | None => None end
        end
      else match take_pth p i l' with Some (x, r) => Some (x, e :: r) | None => None end
  end.

Definition peer0 : peer :=
  {| p_alive := true; p_avail := {| a_first := 0; a_last := None |}; p_permits := 0;
     p_acc := AIdle |}.
Definition req0 : req := {| r_st := RNone; r_cancel := false |}.
Definition init : state :=
  {| s_q := []; s_ver := 0; s_peers := fun _ => peer0; s_reqs := fun _ => req0;
     s_held := []; s_sent := []; s_dropped := [] |}.

(* ---------- actions ---------- *)
Inductive action :=
(* environment *)
| EReq (r : nat) (n : Z)        (* the fetcher starts request(Block(n)) as requester r *)
| ECancel (r : nat)             (* requester r's context is cancelled (block queued / shutdown) *)
| EAvail (p : nat) (a : avail)  (* push_block_store_state from peer p *)
| EPermit (p : nat)             (* get_block_client.reserve() succeeded once more *)
| ESucceed (p : nat) (i : nat)  (* the i-th call held by p stored its block: send_resp.send(()) *)
| EFail (p : nat) (i : nat)     (* the i-th call held by p failed / timed out: sender dropped *)
| EDisc (p : nat)               (* connection p ends: its scope is cancelled, all its calls dropped *)
(* requester r *)
| RIns (r : nat)                (* insert (n, send); bump iff n is now the lowest key *)
| RWakeSent (r : nat)           (* recv -> Ok(Ok(()))   : return Ok *)
| RWakeDropped (r : nat)        (* recv -> Ok(Err(Disconnected)) : continue *)
| RWakeCancel (r : nat)         (* recv -> Err(Canceled): remove n; bump iff it was the lowest; return *)
(* acceptor of connection p *)
| AStart (p : nat)              (* enter accept_block: subscribe + borrow_and_update *)
| AWake (p : nat)               (* changed() fired: leave the scope, loop, borrow_and_update *)
| AAvail (p : nat)              (* wait_for(available.contains(n)) fired: block_number = Some n *)
| ATake (p : nat)               (* remove_entry(n): Some -> return it, None -> loop *)
| AStop (p : nat).              (* cancelled acceptor leaves accept_block with Err(Canceled) *)

Definition bump (b : bool) (v : Z) : Z := if b then v + 1 else v.

Definition step (s : state) (a : action) : option state :=
  match a with
  | EReq r n =>
      match r_st (s_reqs s r) with
      | RNone => Some (set_req s r {| r_st := RInsert n 0; r_cancel := false |})
      | _ => Some s
      end
  | ECancel r =>
      match r_st (s_reqs s r) with
      | RNone => Some s
      | st => Some (set_req s r {| r_st := st; r_cancel := true |})
      end
  | EAvail p a =>
      let x := s_peers s p in
      Some (set_peer s p {| p_alive := p_alive x; p_avail := a; p_permits := p_permits x;
                            p_acc := p_acc x |})
  | EPermit p =>
      let x := s_peers s p in
      Some (set_peer s p {| p_alive := p_alive x; p_avail := p_avail x; p_permits := S (p_permits x);
                            p_acc := p_acc x |})
  | ESucceed p i =>
      match take_pth p i (s_held s) with
      | None => Some s
      | Some (e, l') =>
          Some {| s_q := s_q s; s_ver := s_ver s; s_peers := s_peers s; s_reqs := s_reqs s;
                  s_held := l'; s_sent := h_chan e :: s_sent s; s_dropped := s_dropped s |}
      end
  | EFail p i =>
      match take_pth p i (s_held s) with
      | None => Some s
      | Some (e, l') =>
          Some {| s_q := s_q s; s_ver := s_ver s; s_peers := s_peers s; s_reqs := s_reqs s;
                  s_held := l'; s_sent := s_sent s; s_dropped := h_chan e :: s_dropped s |}
      end
  | EDisc p =>
      let x := s_peers s p in
      if p_alive x then
        Some {| s_q := s_q s; s_ver := s_ver s;
                s_peers := upd (s_peers s) p
                  {| p_alive := false; p_avail := p_avail x; p_permits := p_permits x; p_acc := p_acc x |};
                s_reqs := s_reqs s;
                s_held := filter (fun e => negb (Nat.eqb (h_peer e) p)) (s_held s);
                s_sent := s_sent s;
                s_dropped := map h_chan (held_of p (s_held s)) ++ s_dropped s |}
      else Some s
  | RIns r =>
      let x := s_reqs s r in
      match r_st x with
      | RInsert n att =>
          let q' := qinsert n (r, att) (s_q s) in
          Some {| s_q := q'; s_ver := bump (is_min q' n) (s_ver s);
                  s_peers := s_peers s;
                  s_reqs := upd (s_reqs s) r {| r_st := RWait n att; r_cancel := r_cancel x |};
                  s_held := s_held s; s_sent := s_sent s;
                  s_dropped := match qlookup n (s_q s) with
                               | Some c0 => c0 :: s_dropped s   (* overridden sender is dropped *)
                               | None => s_dropped s
                               end |}
      | _ => None
      end
  | RWakeSent r =>
      let x := s_reqs s r in
      match r_st x with
      | RWait n att =>
          if chan_mem (r, att) (s_sent s)
          then Some (set_req s r {| r_st := RDone true; r_cancel := r_cancel x |})
          else None
      | _ => None
      end
  | RWakeDropped r =>
      let x := s_reqs s r in
      match r_st x with
      | RWait n att =>
          if chan_mem (r, att) (s_dropped s)
          then Some (set_req s r {| r_st := RInsert n (S att); r_cancel := r_cancel x |})
          else None
      | _ => None
      end
  | RWakeCancel r =>
      let x := s_reqs s r in
      match r_st x with
      | RWait n att =>
          if r_cancel x then
            Some {| s_q := qremove n (s_q s); s_ver := bump (is_min (s_q s) n) (s_ver s);
                    s_peers := s_peers s;
                    s_reqs := upd (s_reqs s) r {| r_st := RDone false; r_cancel := true |};
                    s_held := s_held s; s_sent := s_sent s;
                    s_dropped := match qlookup n (s_q s) with
                                 | Some c0 => c0 :: s_dropped s
                                 | None => s_dropped s
                                 end |}
          else None
      | _ => None
      end
  | AStart p =>
      (* [p_alive = false] means that cancellation of the connection has been requested; the
         acceptor keeps running until it notices (AStop), so its moves do not depend on it. *)
      let x := s_peers s p in
      match p_acc x, p_permits x with
      | AIdle, S k =>
          Some (set_peer s p {| p_alive := p_alive x; p_avail := p_avail x; p_permits := k;
                                p_acc := AWatch (s_ver s) (qmin (s_q s)) |})
      | _, _ => None
      end
  | AWake p =>
      let x := s_peers s p in
      match p_acc x with
      | AWatch seen _ =>
          if seen =? s_ver s then None
          else Some (set_peer s p (with_acc x (AWatch (s_ver s) (qmin (s_q s)))))
      | _ => None
      end
  | AAvail p =>
      let x := s_peers s p in
      match p_acc x with
      | AWatch _ (Some n) =>
          if contains (p_avail x) n then Some (set_peer s p (with_acc x (AChosen n))) else None
      | _ => None
      end
  | ATake p =>
      let x := s_peers s p in
      match p_acc x with
      | AChosen n =>
          match qlookup n (s_q s) with
          | Some c =>
              let q' := qremove n (s_q s) in
              Some {| s_q := q'; s_ver := bump (negb (qempty q')) (s_ver s);
                      s_peers := upd (s_peers s) p (with_acc x AIdle);
                      s_reqs := s_reqs s;
                      (* a cancelled connection drops the sender at once *)
                      s_held := if p_alive x then s_held s ++ [{| h_peer := p; h_num := n; h_chan := c |}]
                                else s_held s;
                      s_sent := s_sent s;
                      s_dropped := if p_alive x then s_dropped s else c :: s_dropped s |}
          | None =>
              (* "someone else accepts our request faster": wait again *)
              Some (set_peer s p (with_acc x (AWatch (s_ver s) (qmin (s_q s)))))
          end
      | _ => None
      end
  | AStop p =>
      let x := s_peers s p in
      match p_alive x, p_acc x with
      | false, AWatch _ _ => Some (set_peer s p (with_acc x AIdle))
      | _, _ => None
      end
  end.

Fixpoint run (s : state) (l : list action) : option state :=
  match l with
  | [] => Some s
  | a :: l' => match step s a with Some s' => run s' l' | None => None end
  end.

(* ================================================================================== *)
(* Trace acceptance for the correspondence.  The Rust side applies a batch of environment
   actions, lets the runtime run to quiescence and reports the visible events in the order
   they happened.  [replay_*] reconstructs a model execution with exactly these visible events
   (internal actions are scheduled as late as possible) and fails if there is none; at
   quiescence no visible action may be enabled (otherwise the implementation lost a wake-up). *)

Inductive ev :=
| EvAcc (p : nat) (n : Z)        (* accept_block of a live connection returned n *)
| EvAccDead (p : nat) (n : Z)    (* the same on a connection that was cancelled meanwhile *)
| EvReq (r : nat) (ok : bool).   (* request() returned *)

Definition steps (os : option state) (l : list action) : option state :=
  match os with Some s => run s l | None => None end.

(* a requester that can (re)insert number n without any visible action *)
Fixpoint find_pending (s : state) (n : Z) (rs : list nat) : option (list action) :=
  match rs with
  | [] => None
  | r :: rs' =>
      match r_st (s_reqs s r) with
      | RInsert m _ => if m =? n then Some [RIns r] else find_pending s n rs'
      | RWait m att =>
          if (m =? n) && chan_mem (r, att) (s_dropped s) then Some [RWakeDropped r; RIns r]
          else find_pending s n rs'
      | _ => find_pending s n rs'
      end
  end.

Definition ensure_queued (s : state) (n : Z) (nr : nat) : option state :=
  match qlookup n (s_q s) with
  | Some _ => Some s
  | None => match find_pending s n (seq 0 nr) with Some l => run s l | None => None end
  end.

Definition chosen_is (s : state) (p : nat) (n : Z) : bool :=
  match p_acc (s_peers s p) with AChosen m => m =? n | _ => false end.

(* connection p, inside accept_block, takes n now: directly if n is what it last read, else after
   a wake-up *)
Definition take_now (s2 : state) (p : nat) (n : Z) : option state :=
  let x2 := s_peers s2 p in
  let direct := match p_acc x2 with
                | AWatch _ (Some m) => (m =? n) && contains (p_avail x2) n
                | _ => false
                end in
  match (if direct then step s2 (AAvail p) else steps (step s2 (AWake p)) [AAvail p]) with
  | None => None
  | Some s3 =>
      if chosen_is s3 p n && (match qlookup n (s_q s3) with Some _ => true | None => false end)
      then step s3 (ATake p) else None
  end.

Definition replay_take (s : state) (p : nat) (n : Z) (nr : nat) (live : bool) : option state :=
  match ensure_queued s n nr with
  | None => None
  | Some s1 =>
      let x := s_peers s1 p in
      if negb (Bool.eqb (p_alive x) live) then None else
      match p_acc x with
      | AIdle => match step s1 (AStart p) with Some s2 => take_now s2 p n | None => None end
      | _ => take_now s1 p n
      end
  end.

Definition replay_ev (s : state) (nr : nat) (e : ev) : option state :=
  match e with
  | EvAcc p n => replay_take s p n nr true
  | EvAccDead p n => replay_take s p n nr false
  | EvReq r true => step s (RWakeSent r)
  | EvReq r false =>
      match r_st (s_reqs s r) with
      | RInsert _ _ => steps (step s (RIns r)) [RWakeCancel r]
      | _ => step s (RWakeCancel r)
      end
  end.

Fixpoint replay_evs (s : state) (nr : nat) (es : list ev) : option state :=
  match es with
  | [] => Some s
  | e :: es' => match replay_ev s nr e with Some s' => replay_evs s' nr es' | None => None end
  end.

(* quiescence: all invisible actions that are enabled are taken; a visible one being enabled
   is reported as stuck *)
Definition settle_req (acc : option (state * bool)) (r : nat) : option (state * bool) :=
  match acc with
  | None => None
  | Some (s, stuck) =>
      let s1 := match r_st (s_reqs s r) with
                | RInsert _ _ => step s (RIns r)
                | RWait _ att =>
                    if chan_mem (r, att) (s_dropped s) && negb (r_cancel (s_reqs s r))
                    then steps (step s (RWakeDropped r)) [RIns r] else Some s
                | _ => Some s
                end in
      match s1 with
      | None => None
      | Some s1 =>
          let x := s_reqs s1 r in
          let vis := match r_st x with
                     | RWait _ att => r_cancel x || chan_mem (r, att) (s_sent s1)
                     | _ => false
                     end in
          Some (s1, stuck || vis)
      end
  end.

Definition can_take (s : state) (p : nat) : bool :=
  let x := s_peers s p in
  match p_acc x with
  | AWatch _ (Some m) =>
      contains (p_avail x) m && (match qlookup m (s_q s) with Some _ => true | None => false end)
  | AChosen _ => true
  | _ => false
  end.

Definition settle_peer (acc : option (state * bool)) (p : nat) : option (state * bool) :=
  match acc with
  | None => None
  | Some (s, stuck) =>
      let x := s_peers s p in
      let s1 :=
        if p_alive x then
          match p_acc x with
          | AIdle => match p_permits x with O => Some s | S _ => step s (AStart p) end
          | AWatch seen _ => if seen =? s_ver s then Some s else step s (AWake p)
          | AChosen _ => Some s
          end
        else match p_acc x with AWatch _ _ => step s (AStop p) | _ => Some s end in
      match s1 with
      | None => None
      | Some s1 => Some (s1, stuck || can_take s1 p)
      end
  end.

Definition settle (s : state) (np nr : nat) : option (state * bool) :=
  fold_left settle_peer (seq 0 np) (fold_left settle_req (seq 0 nr) (Some (s, false))).

(* ---------- observation ---------- *)
Fixpoint zinsert (k : Z) (l : list Z) : list Z :=
  match l with [] => [k] | x :: l' => if k <=? x then k :: l else x :: zinsert k l' end.
Definition current_blocks (s : state) : list Z := fold_right zinsert [] (map fst (s_q s)).

Definition onat (n : nat) : obsv := OZ (Z.of_nat n).
Definition obs_ev (e : ev) : obsv :=
  match e with
  | EvAcc p n => OL [OZ 0; onat p; OZ n]
  | EvAccDead p n => OL [OZ 1; onat p; OZ n]
  | EvReq r ok => OL [OZ 2; onat r; ob ok]
  end.
Definition obs_peer (s : state) (p : nat) : obsv :=
  let x := s_peers s p in
  OL [ob (p_alive x); ob (match p_acc x with AIdle => false | _ => true end);
      onat (if p_alive x then p_permits x else O); ozs (map h_num (held_of p (s_held s)))].
Definition obs_req (x : req) : obsv :=
  OZ (match r_st x with RNone => 0 | RInsert _ _ => 1 | RWait _ _ => 1 | RDone true => 2 | RDone false => 3 end).

Definition obs_state (s : state) (np nr : nat) : list obsv :=
  [ozs (current_blocks s); OL (map (obs_peer s) (seq 0 np));
   OL (map (fun r => obs_req (s_reqs s r)) (seq 0 nr))].

(* one script step: environment actions, the reported events, quiescence *)
Inductive rres := RFail (code : Z) | ROk (s : state) (stuck : bool).
Definition replay_step (s : state) (np nr : nat) (x : list action * list ev) : rres :=
  match run s (fst x) with
  | None => RFail 3
  | Some s1 =>
      match replay_evs s1 nr (snd x) with
      | None => RFail 1
      | Some s2 =>
          match settle s2 np nr with
          | None => RFail 3
          | Some (s3, stuck) => ROk s3 stuck
          end
      end
  end.

(* status 0 = accepted and quiescent, 1 = events not reproducible by the model, 2 = the model
   could still make a visible move (implementation stuck), 3 = internal *)
Fixpoint run_steps (s : state) (np nr : nat) (l : list (list action * list ev)) : list obsv :=
  match l with
  | [] => []
  | x :: l' =>
      match replay_step s np nr x with
      | RFail code => [OL [OZ code; OL (map obs_ev (snd x))]]
      | ROk s3 stuck =>
          OL (OZ (if stuck then 2 else 0) :: OL (map obs_ev (snd x)) :: obs_state s3 np nr)
          :: (if stuck then [] else run_steps s3 np nr l')
      end
  end.

Definition run_case (c : nat * nat * list (list action * list ev)) : obsv :=
  let '(np, nr, l) := c in OL (run_steps init np nr l).
