(* Model of the engine block store:
     node/libs/engine/src/block_store.rs   (BlockStoreState, BlockStore)
     node/libs/engine/src/manager.rs       (EngineManager::{new,queue_block,get_block},
                                            EngineManagerRunner::run: watcher + persister tasks)
     node/libs/engine/src/interface.rs     (what the persistence layer is asked to do)
   Block verification is abstracted: a block carries what the generator knows about it
   (kind, number, epoch, which committee signed it, whether hash/signature/external
   justification are intact) and [verify] computes the verdict that
   FinalBlock::verify / verify_pregenesis_block return on the real object.
   Block numbers are Z (the u64 successor overflow at 2^64-1 is out of scope).
   No proofs in this file. *)
From Coq Require Import ZArith List Bool.
From EC Require Import Lib.Outcome Lib.Obs.
Import ListNotations.
Open Scope Z_scope.

(* ---------- BlockStoreState ---------- *)
Record bss := { bfirst : Z; blast : option Z }.

Definition bs_contains (s : bss) (n : Z) : bool :=
  match blast s with
  | None => false
  | Some l => (bfirst s <=? n) && (n <=? l)
  end.
Definition bs_next (s : bss) : Z :=
  match blast s with Some l => l + 1 | None => bfirst s end.
(* first.prev().unwrap_or(BlockNumber(0)) *)
Definition bs_head (s : bss) : Z :=
  match blast s with
  | Some l => l
  | None => if bfirst s =? 0 then 0 else bfirst s - 1
  end.
Definition bs_verify (s : bss) : bool :=
  match blast s with Some l => bfirst s <=? l | None => true end.

(* ---------- blocks and their verification ---------- *)
Inductive bkind := KPre | KFinal.
Record block := {
  bnum : Z;        (* block number *)
  bidx : Z;        (* identity of the block object (payload id) *)
  bkd : bkind;
  bepoch : Z;      (* epoch in the certificate's view (FinalV2 only) *)
  bsched : Z;      (* id of the committee whose quorum signed the certificate *)
  bgood : bool     (* payload hash, genesis hash, signer set and signature intact /
                      external justification accepted by the execution layer *)
}.

Record cfg := {
  cap : nat;                    (* BlockStore::CACHE_CAPACITY *)
  first_block : Z;              (* genesis.first_block *)
  epochs : list (Z * Z)         (* epoch_schedule: (epoch number, committee id) *)
}.

(* The epoch map is a relation (epoch number, committee id).  For a map (unique keys, as the
   BTreeMap epoch_schedule is) "some pair matches" is the same as "the stored value matches";
   the relational form lets a history of maps be used as one configuration in the theorems. *)
Definition has_epoch (e : Z) (m : list (Z * Z)) : bool :=
  existsb (fun kv => fst kv =? e) m.
Definition has_epoch_sched (e s : Z) (m : list (Z * Z)) : bool :=
  existsb (fun kv => (fst kv =? e) && (snd kv =? s)) m.

Inductive verr := EPreBound | EPreVerify | EEpochUnknown | EBlockVerify.

(* The verification prefix of EngineManager::queue_block. *)
Definition verify (c : cfg) (b : block) : outcome verr unit :=
  match bkd b with
  | KPre =>
      if first_block c <=? bnum b then Err EPreBound
      else if bgood b then Ok tt else Err EPreVerify
  | KFinal =>
      if has_epoch (bepoch b) (epochs c) then
        if bgood b && has_epoch_sched (bepoch b) (bsched b) (epochs c) then Ok tt
        else Err EBlockVerify
      else Err EEpochUnknown
  end.

Definition verified (c : cfg) (b : block) : bool :=
  match verify c b with Ok _ => true | _ => false end.

(* ---------- BlockStore ---------- *)
Record store := { queued : bss; persisted : bss; cache : list block }.

(* BlockStore::block *)
Definition sblock (c : list block) (n : Z) : option block :=
  match c with
  | [] => None
  | f :: _ => if n <? bnum f then None else nth_error c (Z.to_nat (n - bnum f))
  end.

(* BlockStore::truncate_cache: pop the front while over capacity and the front is persisted. *)
Fixpoint truncate (cp : nat) (pnext : Z) (c : list block) : list block :=
  match c with
  | [] => []
  | f :: c' =>
      if (cp <? length c)%nat && (bnum f <? pnext) then truncate cp pnext c' else c
  end.

(* BlockStore::try_push *)
Definition try_push (cp : nat) (s : store) (b : block) : store * bool :=
  if bs_next (queued s) =? bnum b then
    ({| queued := {| bfirst := bfirst (queued s); blast := Some (bnum b) |};
        persisted := persisted s;
        cache := truncate cp (bs_next (persisted s)) (cache s ++ [b]) |}, true)
  else (s, false).

(* BlockStore::update_persisted; None = the anyhow::bail! (head moved backwards). *)
Definition update_persisted (cp : nat) (s : store) (p : bss) : option store :=
  if bs_next p <? bs_next (persisted s) then None
  else
    let q1 := if bfirst (queued s) <? bfirst p
              then {| bfirst := bfirst p; blast := blast (queued s) |}
              else queued s in
    let qc := if bs_next q1 <? bs_next p then (p, []) else (q1, cache s) in
    Some {| queued := fst qc; persisted := p;
            cache := truncate cp (bs_next p) (snd qc) |}.

(* ---------- manager: callers, watcher task, persister task, environment ---------- *)
Record mstate := {
  ms : store;
  qn : Z;                         (* persister task local: queue_next *)
  alive : bool;                   (* runner tasks alive (false after update_persisted bailed) *)
  parked : bool;                  (* persister is inside interface.queue_next_block *)
  waiting : list (Z * block);     (* queue_block calls parked in sync::wait_for (verified) *)
  ready : list (Z * block);       (* calls whose wait_for returned, before try_push *)
  env : bss;                      (* value held by the interface.persisted() watch *)
  log : list (block * Z)          (* queue_next_block calls, newest first, with the store's
                                     persisted.next at the time of the call *)
}.

Definition set_ms (m : mstate) (s : store) : mstate :=
  {| ms := s; qn := qn m; alive := alive m; parked := parked m; waiting := waiting m;
     ready := ready m; env := env m; log := log m |}.
Definition set_calls (m : mstate) (w r : list (Z * block)) : mstate :=
  {| ms := ms m; qn := qn m; alive := alive m; parked := parked m; waiting := w;
     ready := r; env := env m; log := log m |}.
Definition set_alive (m : mstate) (a : bool) : mstate :=
  {| ms := ms m; qn := qn m; alive := a; parked := parked m; waiting := waiting m;
     ready := ready m; env := env m; log := log m |}.
Definition set_parked (m : mstate) (p : bool) : mstate :=
  {| ms := ms m; qn := qn m; alive := alive m; parked := p; waiting := waiting m;
     ready := ready m; env := env m; log := log m |}.
Definition set_env (m : mstate) (p : bss) : mstate :=
  {| ms := ms m; qn := qn m; alive := alive m; parked := parked m; waiting := waiting m;
     ready := ready m; env := p; log := log m |}.

Fixpoint lookup (id : Z) (l : list (Z * block)) : option block :=
  match l with
  | [] => None
  | (k, b) :: l' => if k =? id then Some b else lookup id l'
  end.
Definition remove (id : Z) (l : list (Z * block)) : list (Z * block) :=
  filter (fun kb => negb (fst kb =? id)) l.

(* EngineManager::new over the durable state [p] (caller checks bs_verify). *)
Definition init_state (p : bss) : mstate :=
  {| ms := {| queued := p; persisted := p; cache := [] |};
     qn := 0; alive := true; parked := false; waiting := []; ready := [];
     env := p; log := [] |}.

(* Atomic steps.  The watch channel serialises the closures (H-ATOM), so every
   behaviour of any number of concurrent callers and the two runner tasks is a list of
   these steps. *)
Inductive step :=
| Call (id : Z) (b : block)   (* queue_block: verification prefix; parks in wait_for *)
| Wake (id : Z)               (* wait_for predicate queued.next >= number holds *)
| Push (id : Z)               (* send_if_modified(try_push) *)
| Cancel (id : Z)             (* caller drops the future *)
| EnvPersist (p : bss)        (* the persistence layer publishes a new durable range *)
| Observe                     (* watcher task: update_persisted(latest value) *)
| Submit                      (* persister task: pick block, call queue_next_block *)
| SubmitDone                  (* queue_next_block returned *)
| Restart.                    (* process restart from the durable state *)

Definition submit_target (m : mstate) : Z := Z.max (qn m) (bs_next (persisted (ms m))).

Definition mstep (c : cfg) (m : mstate) (s : step) : mstate :=
  match s with
  | Call id b =>
      match verify c b with
      | Ok _ => set_calls m ((id, b) :: waiting m) (ready m)
      | _ => m
      end
  | Wake id =>
      match lookup id (waiting m) with
      | Some b =>
          if bnum b <=? bs_next (queued (ms m))
          then set_calls m (remove id (waiting m)) ((id, b) :: ready m)
          else m
      | None => m
      end
  | Push id =>
      match lookup id (ready m) with
      | Some b =>
          set_calls (set_ms m (fst (try_push (cap c) (ms m) b))) (waiting m) (remove id (ready m))
      | None => m
      end
  | Cancel id => set_calls m (remove id (waiting m)) (remove id (ready m))
  | EnvPersist p => set_env m p
  | Observe =>
      if alive m then
        match update_persisted (cap c) (ms m) (env m) with
        | Some s' => set_ms m s'
        | None => set_alive m false
        end
      else m
  | Submit =>
      if alive m && negb (parked m) then
        match sblock (cache (ms m)) (submit_target m) with
        | Some b =>
            {| ms := ms m; qn := bnum b + 1; alive := alive m; parked := true;
               waiting := waiting m; ready := ready m; env := env m;
               log := (b, bs_next (persisted (ms m))) :: log m |}
        | None => m
        end
      else m
  | SubmitDone => set_parked m false
  | Restart =>
      if bs_verify (env m) then
        {| ms := {| queued := env m; persisted := env m; cache := [] |};
           qn := 0; alive := true; parked := false; waiting := []; ready := [];
           env := env m; log := log m |}
      else m
  end.

Definition run (c : cfg) (m : mstate) (ss : list step) : mstate := fold_left (mstep c) ss m.

(* EngineManager::get_block as seen by a caller: where the answer comes from. *)
Inductive rd := RNone | RCache (b : block) | RDurable (n : Z).
Definition get_block (m : mstate) (n : Z) : rd :=
  if bs_contains (queued (ms m)) n then
    match sblock (cache (ms m)) n with
    | Some b => RCache b
    | None => RDurable n
    end
  else RNone.

(* Glue: gossip/runner.rs accepts a fetched block only under the requested number. *)
Definition fetch_accept (req : Z) (b : block) : bool := bnum b =? req.

(* ---------- harness-level driver used by the correspondence ---------- *)
(* The harness drives the real EngineManager on a current_thread runtime: queue_block
   futures are polled explicitly in scripted order; after every operation the runtime is
   drained, i.e. the watcher observes the latest durable range and the persister submits
   while it can.  queue_next_block is gated by a permit counter (-1 = unlimited). *)
Inductive hop :=
| HQueue (id : Z) (b : block)
| HPoll (id : Z)
| HCancel (id : Z)
| HPersist (ps : list bss)
| HGate (k : Z)
| HRestart
| HRead (ns : list Z).

Record hstate := { hm : mstate; permits : Z }.

Fixpoint drain (fuel : nat) (c : cfg) (m : mstate) (pm : Z) : mstate * Z :=
  match fuel with
  | O => (m, pm)
  | S f =>
      if negb (alive m) then (m, pm)
      else if parked m then
        if pm =? 0 then (m, pm)
        else drain f c (mstep c m SubmitDone) (if pm <? 0 then pm else pm - 1)
      else
        let m' := mstep c m Submit in
        if parked m' then drain f c m' pm else (m, pm)
  end.

Definition drain_fuel (m : mstate) : nat := (2 * length (cache (ms m)) + 4)%nat.

Definition verr_code (e : verr) : Z :=
  match e with EPreBound => 1 | EPreVerify => 2 | EEpochUnknown => 3 | EBlockVerify => 4 end.

(* one poll of a parked queue_block future *)
Definition poll (c : cfg) (m : mstate) (id : Z) : mstate * obsv :=
  match lookup id (waiting m) with
  | None => (m, OL [OZ 9])
  | Some _ =>
      let m1 := mstep c m (Wake id) in
      match lookup id (ready m1) with
      | Some _ => (mstep c m1 (Push id), OL [OZ 1])
      | None => (m1, OL [OZ 0])
      end
  end.

Definition hstep (c : cfg) (h : hstate) (o : hop) : hstate * obsv :=
  let m := hm h in
  let '(m1, pm1, res) :=
    match o with
    | HQueue id b =>
        match verify c b with
        | Ok _ => let '(m', r) := poll c (mstep c m (Call id b)) id in (m', permits h, r)
        | Err e => (m, permits h, OL [OZ 2; OZ (verr_code e)])
        | Panic p => (m, permits h, OL [OZ 3; OZ (panic_code p)])
        end
    | HPoll id => let '(m', r) := poll c m id in (m', permits h, r)
    | HCancel id => (mstep c m (Cancel id), permits h, OL [])
    | HPersist ps =>
        let m' := fold_left (fun a p => mstep c a (EnvPersist p)) ps m in
        (mstep c m' Observe, permits h, OL [])
    | HGate k => (m, k, OL [])
    | HRestart =>
        if bs_verify (env m) then (mstep c m Restart, permits h, OL [OZ 1])
        else (m, permits h, OL [OZ 0])
    | HRead _ => (m, permits h, OL [])
    end in
  let '(m2, pm2) := drain (drain_fuel m1) c m1 pm1 in
  ({| hm := m2; permits := pm2 |}, res).

Definition obs_bss (s : bss) : obsv :=
  OL [OZ (bfirst s); oopt OZ (blast s)].

Definition obs_read (m : mstate) (n : Z) : obsv :=
  match get_block m n with
  | RNone => OL [OZ n; OZ 0]
  | RCache b => OL [OZ n; OZ 1; OZ (bidx b)]
  | RDurable k => if bs_contains (env m) k then OL [OZ n; OZ 2; OZ k] else OL [OZ n; OZ 3]
  end.

(* numbers read back after every operation: around every boundary of the store *)
Definition probe_numbers (c : cfg) (m : mstate) : list Z :=
  let q := queued (ms m) in
  let p := persisted (ms m) in
  let k := Z.of_nat (cap c) in
  filter (fun n => 0 <=? n)
    [ bfirst q - 1; bfirst q; bfirst p; bs_next p - 1; bs_next p;
      bs_next q - 1; bs_next q; bs_next q - k - 1; bs_next q - k; bs_next q - k + 1 ].

Definition obs_after (c : cfg) (before : mstate) (h : hstate) (o : hop) (res : obsv) : obsv :=
  let m := hm h in
  let nnew := (length (log m) - length (log before))%nat in
  let extra := match o with HRead ns => ns | _ => [] end in
  OL [ res;
       obs_bss (queued (ms m)); obs_bss (persisted (ms m)); OZ (bs_head (persisted (ms m)));
       ob (alive m);
       OL (map (fun e => OZ (bidx (fst e))) (rev (firstn nnew (log m))));
       OL (map (obs_read m) (probe_numbers c m ++ extra)) ].

Fixpoint hrun (c : cfg) (h : hstate) (os : list hop) : list obsv :=
  match os with
  | [] => []
  | o :: os' =>
      let '(h', res) := hstep c h o in
      obs_after c (hm h) h' o res :: hrun c h' os'
  end.

(* A case: configuration, initial durable range, operations. *)
Definition run_case (x : cfg * bss * list hop) : obsv :=
  let '(c, p0, os) := x in
  if bs_verify p0 then
    (* the runner starts with mark_changed: one Observe of the initial value, then drain *)
    let m0 := mstep c (init_state p0) Observe in
    let '(m1, pm) := drain (drain_fuel m0) c m0 (-1) in
    OL (OZ 1 :: hrun c {| hm := m1; permits := pm |} os)
  else OL [OZ 0].
