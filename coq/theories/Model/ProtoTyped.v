(* Typed layer: build / read of the Rust wire types, transcribed from their ProtoFmt impls.

   node/libs/protobuf/src/std_conv.rs        Duration, Timestamp (Utc), SocketAddr, BitVec
   node/libs/roles/src/validator/messages/   GenesisHash / PayloadHash (32-byte keccak wrappers),
     v2/{consensus,block,replica_commit,      View, BlockHeader, ReplicaCommit, CommitQC,
         replica_timeout}.rs                  ReplicaTimeout, TimeoutQC (BTreeMap keyed by the derived
                                              Ord of ReplicaTimeout), AggregateSignature (opaque)

   encode_T v = canon schema idx_T (build_T v)            (zksync_protobuf::encode = canonical)
   decode_T b = read_T (denote schema idx_T b)            (prost decode, then ProtoFmt::read)
   prost's decoder is represented by the reference reading [denote]; the two agree on the inputs
   the correspondence feeds (valid serialisations of values whose singular fields occur at most
   once).  Signature validity is a parameter [sig_ok]. *)
From Coq Require Import String ZArith List Bool Lia.
From EC Require Import Lib.Obs Lib.Outcome Model.Wire Model.ProtoSchema Gen.Schema.
Import ListNotations.
Open Scope list_scope.
Open Scope Z_scope.

Definition res (A : Type) : Type := outcome unit A.
Definition err {A} : res A := Err tt.

(* ---- integer views of a varint (prost: `value as i64`, `value as i32`, `value as u32`) ---- *)
Definition two63 : Z := 9223372036854775808.
Definition two31 : Z := 2147483648.
Definition i64_min : Z := - two63.
Definition i64_max : Z := two63 - 1.
Definition as_i64 (z : Z) : Z := if z <? two63 then z else z - two64.
Definition as_i32 (z : Z) : Z := let w := z mod two32 in if w <? two31 then w else w - two32.
Definition as_u32 (z : Z) : Z := z mod two32.
Definition of_i64 (x : Z) : Z := x mod two64.

(* ---- access to a dynamic message (prost: the last occurrence of a singular field wins) ---- *)
Definition get_all (n : Z) (d : dmsg) : list dval :=
  map snd (filter (fun e : Z * dval => fst e =? n) d).
Definition get1 (n : Z) (d : dmsg) : option dval := last (map Some (get_all n d)) None.

Definition req_var (n : Z) (d : dmsg) : res Z :=
  match get1 n d with Some (DVar z) => Ok z | _ => err end.
Definition req_bytes (n : Z) (d : dmsg) : res bytes :=
  match get1 n d with Some (DBytes b) => Ok b | _ => err end.
Definition req_msg (n : Z) (d : dmsg) : res dmsg :=
  match get1 n d with Some (DMsg es) => Ok es | _ => err end.
Definition opt_msg (n : Z) (d : dmsg) : res (option dmsg) :=
  match get1 n d with Some (DMsg es) => Ok (Some es) | None => Ok None | _ => err end.

(* ---- std: Duration / Timestamp ---- *)
(* time::Duration as a number of nanoseconds; representable iff its whole seconds fit i64 *)
Definition NS : Z := 1000000000.
Definition dur_in_range (tn : Z) : bool :=
  (i64_min <=? Z.quot tn NS) && (Z.quot tn NS <=? i64_max).

(* impl ProtoFmt for time::Duration: build *)
Definition build_duration (chk : bool) (tn : Z) : res dmsg :=
  let seconds := Z.quot tn NS in          (* whole_seconds *)
  let nanos := Z.rem tn NS in             (* subsec_nanoseconds *)
  if nanos <? 0 then
    (* seconds -= 1; nanos += 1_000_000_000 *)
    if seconds =? i64_min then
      (if chk then Panic POverflow else Ok [(1, DVar (of_i64 i64_max)); (2, DVar (of_i64 (nanos + NS)))])
    else Ok [(1, DVar (of_i64 (seconds - 1))); (2, DVar (of_i64 (nanos + NS)))]
  else Ok [(1, DVar (of_i64 seconds)); (2, DVar (of_i64 nanos))].

(* duration_from_parts: Duration::seconds(s).checked_add(Duration::nanoseconds(n)) *)
Definition read_duration (d : dmsg) : res Z :=
  let* s := req_var 1 d in
  let* n := req_var 2 d in
  let tn := as_i64 s * NS + as_i32 n in
  if negb (dur_in_range tn) then err                      (* checked_add overflowed *)
  (* ensure!(d.whole_seconds() > i64::MIN || d.subsec_nanoseconds() >= 0) *)
  else if (i64_min <? Z.quot tn NS) || (0 <=? Z.rem tn NS) then Ok tn
  else err.

(* time::Utc is a Duration since the epoch: build = (self - UNIX_EPOCH).build(), read = UNIX_EPOCH + d *)
Definition build_timestamp := build_duration.
Definition read_timestamp := read_duration.

(* ---- std: SocketAddr (ip + port) ---- *)
Record sockaddr : Type := { sa_ip : bytes; sa_port : Z }.
Definition build_sockaddr (a : sockaddr) : dmsg := [(1, DBytes (sa_ip a)); (2, DVar (sa_port a))].
Definition read_sockaddr (d : dmsg) : res sockaddr :=
  let* ip := req_bytes 1 d in
  if negb ((length ip =? 4)%nat || (length ip =? 16)%nat) then err else
  let* port := req_var 2 d in
  let port := as_u32 port in
  if port <? 65536 then Ok {| sa_ip := ip; sa_port := port |} else err.

(* ---- std: BitVector ---- *)
Definition bit (b : bool) (w : Z) : Z := if b then w else 0.
Definition byte_of_bits (b0 b1 b2 b3 b4 b5 b6 b7 : bool) : Z :=
  bit b0 128 + bit b1 64 + bit b2 32 + bit b3 16 + bit b4 8 + bit b5 4 + bit b6 2 + bit b7 1.
(* BitVec::to_bytes: big-endian bits, last byte padded with zeros *)
Fixpoint bits_to_bytes (l : list bool) : bytes :=
  match l with
  | [] => []
  | b0 :: b1 :: b2 :: b3 :: b4 :: b5 :: b6 :: b7 :: r => byte_of_bits b0 b1 b2 b3 b4 b5 b6 b7 :: bits_to_bytes r
  | [b0] => [byte_of_bits b0 false false false false false false false]
  | [b0; b1] => [byte_of_bits b0 b1 false false false false false false]
  | [b0; b1; b2] => [byte_of_bits b0 b1 b2 false false false false false]
  | [b0; b1; b2; b3] => [byte_of_bits b0 b1 b2 b3 false false false false]
  | [b0; b1; b2; b3; b4] => [byte_of_bits b0 b1 b2 b3 b4 false false false]
  | [b0; b1; b2; b3; b4; b5] => [byte_of_bits b0 b1 b2 b3 b4 b5 false false]
  | [b0; b1; b2; b3; b4; b5; b6] => [byte_of_bits b0 b1 b2 b3 b4 b5 b6 false]
  end.
Definition tb (x w : Z) : bool := (x / w) mod 2 =? 1.
Definition bits_of_byte (x : Z) : list bool :=
  [tb x 128; tb x 64; tb x 32; tb x 16; tb x 8; tb x 4; tb x 2; tb x 1].
(* BitVec::from_bytes *)
Definition bytes_to_bits (b : bytes) : list bool := flat_map bits_of_byte b.

Definition build_bitvec (l : list bool) : dmsg :=
  [(1, DVar (Z.of_nat (length l))); (2, DBytes (bits_to_bytes l))].
Definition read_bitvec (d : dmsg) : res (list bool) :=
  let* size := req_var 1 d in
  let* b := req_bytes 2 d in
  (* this.len() < size, compared on Z *)
  if 8 * Z.of_nat (length b) <? size then err
  else Ok (firstn (Z.to_nat size) (bytes_to_bits b)).

(* ---- keccak wrappers, signatures ---- *)
Definition build_hash (h : bytes) : dmsg := [(1, DBytes h)].
Definition read_hash (d : dmsg) : res bytes :=
  let* h := req_bytes 1 d in
  if (length h =? 32)%nat then Ok h else err.

Section Typed.
  Variable sig_ok : bytes -> bool.       (* ByteFmt::decode of an aggregate signature accepts *)

  Definition build_sig (s : bytes) : dmsg := [(1, DBytes s)].
  Definition read_sig (d : dmsg) : res bytes :=
    let* s := req_bytes 1 d in
    if sig_ok s then Ok s else err.

  (* ---- View, BlockHeader, ReplicaCommit, CommitQC, ReplicaTimeout ---- *)
  Record View : Type := { v_genesis : bytes; v_number : Z; v_epoch : Z }.
  Definition build_view (v : View) : dmsg :=
    [(1, DMsg (build_hash (v_genesis v))); (2, DVar (v_number v)); (3, DVar (v_epoch v))].
  Definition read_view (d : dmsg) : res View :=
    let* g := req_msg 1 d in
    let* g := read_hash g in
    let* n := req_var 2 d in
    let* e := req_var 3 d in
    Ok {| v_genesis := g; v_number := n; v_epoch := e |}.

  Record BlockHeader : Type := { bh_number : Z; bh_payload : bytes }.
  Definition build_header (h : BlockHeader) : dmsg :=
    [(1, DVar (bh_number h)); (2, DMsg (build_hash (bh_payload h)))].
  Definition read_header (d : dmsg) : res BlockHeader :=
    let* n := req_var 1 d in
    let* p := req_msg 2 d in
    let* p := read_hash p in
    Ok {| bh_number := n; bh_payload := p |}.

  Record ReplicaCommit : Type := { rc_view : View; rc_proposal : BlockHeader }.
  Definition build_commit (c : ReplicaCommit) : dmsg :=
    [(1, DMsg (build_view (rc_view c))); (2, DMsg (build_header (rc_proposal c)))].
  Definition read_commit (d : dmsg) : res ReplicaCommit :=
    let* v := req_msg 1 d in
    let* v := read_view v in
    let* p := req_msg 2 d in
    let* p := read_header p in
    Ok {| rc_view := v; rc_proposal := p |}.

  Record CommitQC : Type := { cq_msg : ReplicaCommit; cq_signers : list bool; cq_sig : bytes }.
  Definition build_commit_qc (q : CommitQC) : dmsg :=
    [(1, DMsg (build_commit (cq_msg q))); (2, DMsg (build_bitvec (cq_signers q))); (3, DMsg (build_sig (cq_sig q)))].
  Definition read_commit_qc (d : dmsg) : res CommitQC :=
    let* m := req_msg 1 d in
    let* m := read_commit m in
    let* s := req_msg 2 d in
    let* s := read_bitvec s in
    let* g := req_msg 3 d in
    let* g := read_sig g in
    Ok {| cq_msg := m; cq_signers := s; cq_sig := g |}.

  Definition build_opt {A} (n : Z) (f : A -> dmsg) (o : option A) : dmsg :=
    match o with Some a => [(n, DMsg (f a))] | None => [] end.
  Definition read_opt {A} (n : Z) (f : dmsg -> res A) (d : dmsg) : res (option A) :=
    let* o := opt_msg n d in
    match o with
    | Some es => let* a := f es in Ok (Some a)
    | None => Ok None
    end.

  Record ReplicaTimeout : Type :=
    { rt_view : View; rt_high_vote : option ReplicaCommit; rt_high_qc : option CommitQC }.
  Definition build_timeout (t : ReplicaTimeout) : dmsg :=
    [(1, DMsg (build_view (rt_view t)))] ++ build_opt 2 build_commit (rt_high_vote t)
      ++ build_opt 3 build_commit_qc (rt_high_qc t).
  Definition read_timeout (d : dmsg) : res ReplicaTimeout :=
    let* v := req_msg 1 d in
    let* v := read_view v in
    let* hv := read_opt 2 read_commit d in
    let* hq := read_opt 3 read_commit_qc d in
    Ok {| rt_view := v; rt_high_vote := hv; rt_high_qc := hq |}.

  (* ---- the derived Ord of ReplicaTimeout (field order of the Rust structs, not of the .proto) ---- *)
  Definition lex (a b : comparison) : comparison := match a with Eq => b | _ => a end.
  Fixpoint cmp_bytes (a b : bytes) : comparison :=
    match a, b with
    | [], [] => Eq
    | [], _ => Lt
    | _, [] => Gt
    | x :: a', y :: b' => lex (x ?= y) (cmp_bytes a' b')
    end.
  Definition cmp_bool (x y : bool) : comparison :=
    match x, y with false, true => Lt | true, false => Gt | _, _ => Eq end.
  (* impl Ord for BitVec: lexicographic over the bits, a proper prefix is smaller *)
  Fixpoint cmp_bits (a b : list bool) : comparison :=
    match a, b with
    | [], [] => Eq
    | [], _ => Lt
    | _, [] => Gt
    | x :: a', y :: b' => lex (cmp_bool x y) (cmp_bits a' b')
    end.
  Definition cmp_opt {A} (c : A -> A -> comparison) (a b : option A) : comparison :=
    match a, b with
    | None, None => Eq
    | None, Some _ => Lt
    | Some _, None => Gt
    | Some x, Some y => c x y
    end.
  (* struct View { genesis, epoch, number } *)
  Definition cmp_view (a b : View) : comparison :=
    lex (cmp_bytes (v_genesis a) (v_genesis b))
      (lex (v_epoch a ?= v_epoch b) (v_number a ?= v_number b)).
  (* struct BlockHeader { number, payload } *)
  Definition cmp_header (a b : BlockHeader) : comparison :=
    lex (bh_number a ?= bh_number b) (cmp_bytes (bh_payload a) (bh_payload b)).
  Definition cmp_commit (a b : ReplicaCommit) : comparison :=
    lex (cmp_view (rc_view a) (rc_view b)) (cmp_header (rc_proposal a) (rc_proposal b)).
  (* struct CommitQC { message, signers, signature }; AggregateSignature orders by its encoding *)
  Definition cmp_commit_qc (a b : CommitQC) : comparison :=
    lex (cmp_commit (cq_msg a) (cq_msg b))
      (lex (cmp_bits (cq_signers a) (cq_signers b)) (cmp_bytes (cq_sig a) (cq_sig b))).
  Definition cmp_timeout (a b : ReplicaTimeout) : comparison :=
    lex (cmp_view (rt_view a) (rt_view b))
      (lex (cmp_opt cmp_commit (rt_high_vote a) (rt_high_vote b))
           (cmp_opt cmp_commit_qc (rt_high_qc a) (rt_high_qc b))).

  (* ---- TimeoutQC ---- *)
  Definition tmap : Type := list (ReplicaTimeout * list bool).
  (* BTreeMap::insert *)
  Fixpoint tmap_insert (k : ReplicaTimeout) (v : list bool) (m : tmap) : tmap :=
    match m with
    | [] => [(k, v)]
    | (k', v') :: r =>
        match cmp_timeout k k' with
        | Lt => (k, v) :: m
        | Eq => (k', v) :: r
        | Gt => (k', v') :: tmap_insert k v r
        end
    end.
  Definition tmap_of_list (l : list (ReplicaTimeout * list bool)) : tmap :=
    fold_left (fun m e => tmap_insert (fst e) (snd e) m) l [].

  Record TimeoutQC : Type := { tq_view : View; tq_map : tmap; tq_sig : bytes }.
  Definition build_timeout_qc (q : TimeoutQC) : dmsg :=
    [(1, DMsg (build_view (tq_view q)))]
      ++ map (fun e => (2, DMsg (build_timeout (fst e)))) (tq_map q)
      ++ map (fun e => (3, DMsg (build_bitvec (snd e)))) (tq_map q)
      ++ [(4, DMsg (build_sig (tq_sig q)))].

  (* for (msg, signers) in r.msgs.iter().zip(r.signers.iter()) { map.insert(read(msg)?, read(signers)?) } *)
  Fixpoint read_pairs (ms ss : list dval) (m : tmap) : res tmap :=
    match ms, ss with
    | DMsg a :: ms', DMsg b :: ss' =>
        let* k := read_timeout a in
        let* v := read_bitvec b in
        read_pairs ms' ss' (tmap_insert k v m)
    | [], _ | _, [] => Ok m
    | _, _ => err
    end.
  Definition read_timeout_qc (d : dmsg) : res TimeoutQC :=
    let* m := read_pairs (get_all 2 d) (get_all 3 d) [] in
    let* v := req_msg 1 d in
    let* v := read_view v in
    let* g := req_msg 4 d in
    let* g := read_sig g in
    Ok {| tq_view := v; tq_map := m; tq_sig := g |}.
End Typed.

(* ---- correspondence ---- *)

Inductive tyname : Type :=
| TDuration | TTimestamp | TSocketAddr | TBitVector
| TView | TBlockHeader | TReplicaCommit | TCommitQC | TReplicaTimeout | TTimeoutQC.

Definition idx_of (t : tyname) : nat :=
  match t with
  | TDuration => idx_zksync_std_Duration
  | TTimestamp => idx_zksync_std_Timestamp
  | TSocketAddr => idx_zksync_std_SocketAddr
  | TBitVector => idx_zksync_std_BitVector
  | TView => idx_zksync_roles_validator_ViewV2
  | TBlockHeader => idx_zksync_roles_validator_BlockHeaderV2
  | TReplicaCommit => idx_zksync_roles_validator_ReplicaCommitV2
  | TCommitQC => idx_zksync_roles_validator_CommitQCV2
  | TReplicaTimeout => idx_zksync_roles_validator_ReplicaTimeoutV2
  | TTimeoutQC => idx_zksync_roles_validator_TimeoutQCV2
  end.

(* decode, then the dynamic message the decoded value builds *)
Definition rebuild (sig_ok : bytes -> bool) (t : tyname) (d : dmsg) : res dmsg :=
  match t with
  | TDuration | TTimestamp => let* v := read_duration d in build_duration true v
  | TSocketAddr => let* v := read_sockaddr d in Ok (build_sockaddr v)
  | TBitVector => let* v := read_bitvec d in Ok (build_bitvec v)
  | TView => let* v := read_view d in Ok (build_view v)
  | TBlockHeader => let* v := read_header d in Ok (build_header v)
  | TReplicaCommit => let* v := read_commit d in Ok (build_commit v)
  | TCommitQC => let* v := read_commit_qc sig_ok d in Ok (build_commit_qc v)
  | TReplicaTimeout => let* v := read_timeout sig_ok d in Ok (build_timeout v)
  | TTimeoutQC => let* v := read_timeout_qc sig_ok d in Ok (build_timeout_qc v)
  end.

(* encode(decode(bytes)): [0; bytes] | [1] on a decode error | [2; code] on a panic *)
Definition run_rt (sig_ok : bytes -> bool) (c : tyname * bytes) : obsv :=
  let (t, b) := c in
  match denote schema (idx_of t) b with
  | None => OL [OZ 1]
  | Some d =>
      match rebuild sig_ok t d with
      | Ok d' => OL [OZ 0; ozs (canon schema (idx_of t) d')]
      | Err _ => OL [OZ 1]
      | Panic p => OL [OZ 2; OZ (panic_code p)]
      end
  end.

(* the harness pool only contains valid 48-byte aggregate signatures; everything else the
   generator produces for that field has another length *)
Definition pool_sig_ok (s : bytes) : bool := (length s =? 48)%nat.
Definition run_rt_case (c : tyname * string) : obsv := run_rt pool_sig_ok (fst c, unhex (snd c)).
