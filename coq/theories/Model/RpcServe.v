(* Model of rpc::Server::serve (node/components/network/src/rpc/mod.rs, `impl ServerTrait for Server`)
   on top of the StreamQueue / limiter model of Model/Limiter.v (property C15).

     loop {
       let stream = self.queue.reserve(ctx).await?;          // one reusable stream of the capability
       s.spawn(async {
         let mut stream = stream.open(ctx).await??;          // OPEN handshake done, limiter permit consumed
         let (req, _) = mux_recv_proto(ctx, &mut stream.read, max_req_size).await?;   // may never come
         let res = self.handler.handle(ctx, req).await;      // <- "the node starts serving a request"
         mux_send_proto(ctx, &mut stream.write, &res?).await?;
       });                                                   // stream dropped: CLOSE, the reusable stream
     }                                                       // goes back to limiter.acquire(1)

   The serve loop reserves again as soon as it has spawned, so the only things that gate a call are the
   reusable stream's own cycle (acquire a permit, OPEN handshake) and the peer.  The remote side is
   adversarial: it decides when (and whether) the OPEN handshake of a stream completes, when (and
   whether) the request arrives, and when a stream ends; all of that is the choice of the label sequence.

   Per reusable stream i the call slot is
     CNone      no transient stream handed to a serve task
     CWait ot   stream opened at time ot, the task waits in mux_recv_proto
     CRun       handler.handle is running
   labels:
     VQ l       a step of the StreamQueue (clock tick, limiter internal step, stream i calls acquire, abort)
     VOpen i    the OPEN handshake of stream i completes (permit dropped), `stream.open` returns
     VReq i     the request arrived: handler.handle is entered          (logged in [starts])
     VFail i    the wait for the request ended without one (peer closed, oversized / malformed
                message, cancellation): the task ends, the stream is dropped
     VDone i    the handler returned (response sent or not): the stream is dropped *)
From Coq Require Import ZArith List Bool.
From EC Require Import Lib.Outcome Lib.Obs Model.Limiter.
Import ListNotations.
Open Scope Z_scope.

Inductive cstatus := CNone | CWait (ot : Z) | CRun.

Record vsys := {
  rq : rsys;
  calls : list cstatus;
  starts : list (nat * Z)      (* newest first: stream, time at which handler.handle was entered *)
}.

Inductive vlabel :=
| VQ (l : rlabel) | VOpen (i : nat) | VReq (i : nat) | VFail (i : nat) | VDone (i : nat).

Definition vinit (c : cfg) (n : nat) : vsys :=
  {| rq := rinit c n; calls := repeat CNone n; starts := [] |}.

Definition vnow (s : vsys) : Z := now (lim (rq s)).

Definition vstep (c : cfg) (s : vsys) (l : vlabel) : outcome unit vsys :=
  match l with
  | VQ l0 =>
      match l0 with
      | ROpen _ | RClose _ => Err tt       (* driven by VOpen / VFail / VDone *)
      | _ => let* x := rstep c (rq s) l0 in
             Ok {| rq := x; calls := calls s; starts := starts s |}
      end
  | VOpen i =>
      match nth_error (calls s) i with
      | Some CNone =>
          let* x := rstep c (rq s) (ROpen i) in
          Ok {| rq := x; calls := set_nth i (CWait (vnow s)) (calls s); starts := starts s |}
      | _ => Err tt
      end
  | VReq i =>
      match nth_error (calls s) i with
      | Some (CWait _) =>
          Ok {| rq := rq s; calls := set_nth i CRun (calls s); starts := (i, vnow s) :: starts s |}
      | _ => Err tt
      end
  | VFail i =>
      match nth_error (calls s) i with
      | Some (CWait _) =>
          let* x := rstep c (rq s) (RClose i) in
          Ok {| rq := x; calls := set_nth i CNone (calls s); starts := starts s |}
      | _ => Err tt
      end
  | VDone i =>
      match nth_error (calls s) i with
      | Some CRun =>
          let* x := rstep c (rq s) (RClose i) in
          Ok {| rq := x; calls := set_nth i CNone (calls s); starts := starts s |}
      | _ => Err tt
      end
  end.

(* labels that are not enabled are skipped, so every label list is a schedule *)
Fixpoint vexec (c : cfg) (s : vsys) (ls : list vlabel) : outcome unit vsys :=
  match ls with
  | [] => Ok s
  | l :: ls' =>
      match vstep c s l with
      | Ok s' => vexec c s' ls'
      | Err _ => vexec c s ls'
      | Panic p => Panic p
      end
  end.

Definition is_run (x : cstatus) : bool := match x with CRun => true | _ => false end.
Definition is_wait (x : cstatus) : bool := match x with CWait _ => true | _ => false end.
Definition is_none (x : cstatus) : bool := match x with CNone => true | _ => false end.

(* handlers running at once *)
Definition n_running (s : vsys) : nat := length (filter is_run (calls s)).

(* ------------------------------------------------------------------------- *)
(* Trace acceptance.  The harness observes the HandlerLog of the real rpc::Service: (time, true) when
   handler.handle is entered, (time, false) when it is left.  [serve_labels] computes a schedule of
   the model for such a trace:
     - every reusable stream calls acquire as early as it can (at start-up, and at the instant its
       transient stream is dropped), the limiter runs to quiescence after every event and at every
       instant at which a sleeping acquire is due;
     - eager = true  (raw peers that send their OPENs ahead of time): a stream is opened the moment it
                     holds a permit;
       eager = false (a client that opens when it calls): a stream is opened at the instant of the
                     handler start it belongs to;
     - an observed handler start needs a stream in CWait (or, eager = false, a stream that can be
       opened at that instant); an observed handler end needs a running handler.
   [accept_serve] then runs the computed schedule from the initial state with [vexec] and compares
   the model's handler-start log with the observed one. *)

Fixpoint find_call (P : cstatus -> bool) (l : list cstatus) (i : nat) : option nat :=
  match l with
  | [] => None
  | x :: l' => if P x then Some i else find_call P l' (S i)
  end.

(* a stream that holds a granted permit and whose call slot is free *)
Fixpoint find_openable (s : rsys) (st : list rstatus) (cs : list cstatus) (i : nat) : option nat :=
  match st, cs with
  | x :: st', y :: cs' =>
      if can_open s x && is_none y then Some i else find_openable s st' cs' (S i)
  | _, _ => None
  end.

(* state threaded by the label computation: current state, labels so far (newest first) *)
Definition acc := (vsys * list vlabel)%type.

Definition run_labels (c : cfg) (a : acc) (ls : list vlabel) : option acc :=
  match vexec c (fst a) ls with
  | Ok s' => Some (s', rev ls ++ snd a)
  | _ => None
  end.

Definition settle_ls (c : cfg) (s : vsys) : list vlabel :=
  map (fun l => VQ (RLim l)) (settle_labels c (settle_fuel (lim (rq s))) (lim (rq s))).

Fixpoint settle_open (c : cfg) (eager : bool) (fuel : nat) (a : acc) : option acc :=
  match run_labels c a (settle_ls c (fst a)) with
  | None => None
  | Some a1 =>
      if eager then
        match fuel with
        | O => Some a1
        | S f =>
            match find_openable (rq (fst a1)) (streams (rq (fst a1))) (calls (fst a1)) 0 with
            | Some i =>
                match run_labels c a1 [VOpen i] with
                | Some a2 => settle_open c eager f a2
                | None => None
                end
            | None => Some a1
            end
        end
      else Some a1
  end.

Definition next_deadline (c : cfg) (s : vsys) : option Z :=
  match queue (lim (rq s)), ph (lim (rq s)) with
  | _ :: _, PSleep need => Some (start c + refresh c * need)
  | _, _ => None
  end.

(* moves the clock to t, stopping at every instant at which the sleeping acquire is due *)
Fixpoint advance_to (c : cfg) (eager : bool) (n : nat) (fuel : nat) (a : acc) (t : Z) : option acc :=
  match settle_open c eager (S n) a with
  | None => None
  | Some a1 =>
      let finish :=
        match run_labels c a1 [VQ (RLim (LTick (t - vnow (fst a1))))] with
        | Some a2 => settle_open c eager (S n) a2
        | None => None
        end in
      match fuel with
      | O => finish
      | S f =>
          match next_deadline c (fst a1) with
          | Some d =>
              if (vnow (fst a1) <? d) && (d <? t) then
                match run_labels c a1 [VQ (RLim (LTick (d - vnow (fst a1))))] with
                | Some a2 => advance_to c eager n f a2 t
                | None => None
                end
              else finish
          | None => finish
          end
      end
  end.

(* returns (accepted?, events consumed, accumulator) *)
Fixpoint serve_events (c : cfg) (eager : bool) (n : nat) (a : acc) (evs : list (Z * bool)) (k : Z)
  : bool * Z * acc :=
  match evs with
  | [] => (true, k, a)
  | (t, started) :: evs' =>
      if t <? vnow (fst a) then (false, k, a) else
      match advance_to c eager n (S (S n)) a t with
      | None => (false, k, a)
      | Some a1 =>
          if negb (vnow (fst a1) =? t) then (false, k, a1) else
          if started then
            match find_call is_wait (calls (fst a1)) 0 with
            | Some i =>
                match run_labels c a1 [VReq i] with
                | Some a2 => serve_events c eager n a2 evs' (k + 1)
                | None => (false, k, a1)
                end
            | None =>
                match find_openable (rq (fst a1)) (streams (rq (fst a1))) (calls (fst a1)) 0 with
                | Some i =>
                    match run_labels c a1 [VOpen i; VReq i] with
                    | Some a2 => serve_events c eager n a2 evs' (k + 1)
                    | None => (false, k, a1)
                    end
                | None => (false, k, a1)
                end
            end
          else
            match find_call is_run (calls (fst a1)) 0 with
            | Some i =>
                match run_labels c a1 [VDone i; VQ (RAcquire i)] with
                | Some a2 =>
                    match settle_open c eager (S n) a2 with
                    | Some a3 => serve_events c eager n a3 evs' (k + 1)
                    | None => (false, k, a2)
                    end
                | None => (false, k, a1)
                end
            | None => (false, k, a1)
            end
      end
  end.

(* the schedule computed for an observed trace: (accepted?, events consumed, labels oldest first) *)
Definition serve_labels (c : cfg) (n : nat) (eager : bool) (evs : list (Z * bool)) : bool * Z * list vlabel :=
  match run_labels c (vinit c n, []) (map (fun i => VQ (RAcquire i)) (seq 0 n)) with
  | None => (false, 0, [])
  | Some a0 =>
      let '(ok, k, a) := serve_events c eager n a0 evs 0 in (ok, k, rev (snd a))
  end.

Fixpoint zlist_eqb (a b : list Z) : bool :=
  match a, b with
  | [], [] => true
  | x :: a', y :: b' => (x =? y) && zlist_eqb a' b'
  | _, _ => false
  end.

Definition observed_starts (evs : list (Z * bool)) : list Z :=
  map fst (filter (fun e => snd e) evs).

(* case: burst, refresh, INFLIGHT, eager?, observed (time, entered?) events.
   observation: [schedule found?; events consumed; the schedule run by vexec reproduces the observed
   handler-start log?; handler starts in the model run; handlers still running at the end] *)
Definition accept_serve (x : Z * Z * nat * bool * list (Z * bool)) : obsv :=
  let '(b, r, n, eager, evs) := x in
  let c := {| burst := b; refresh := r; start := 0 |} in
  let '(ok, k, ls) := serve_labels c n eager evs in
  match vexec c (vinit c n) ls with
  | Ok s =>
      OL [ob ok; OZ k; ob (zlist_eqb (rev (map snd (starts s))) (observed_starts evs));
          OZ (Z.of_nat (length (starts s))); OZ (Z.of_nat (n_running s))]
  | Err _ => OL [OZ 2]
  | Panic p => OL [OZ 1; OZ (panic_code p)]
  end.

Definition run_case := accept_serve.
