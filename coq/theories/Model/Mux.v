(* Executable model of the stream multiplexer:
   node/components/network/src/mux/{mod,config,handshake,reusable_stream,transient_stream}.rs

   One [endpoint] is one Mux::run: the stream-id partition computed by spawn_streams, the
   dispatcher process_inbound_frames with its two permit counters, the read and write half of
   every reusable stream (recv_open / read_exact / send_data / send_close / send_open), the
   per-capability StreamQueue (FIFO of idle reusable streams, FIFO of waiting application opens).
   A [sys] is two endpoints joined by two unbounded byte FIFOs (the transport never exerts
   back pressure, i.e. the peer "sends as fast as it wants"), or one endpoint whose inbound
   FIFO is written by an arbitrary raw peer.
   Scheduling: the application script is sequential; after every operation all enabled internal
   transitions are executed ([settle]) and the quiescent state is observed.  tokio tasks,
   channels, semaphores and the ExclusiveLock hand-over are atomic transitions (H-ATOM). *)
From Coq Require Import ZArith List Bool Lia.
From EC Require Import Lib.Outcome Lib.Obs Model.MuxHeader.
Import ListNotations.
Open Scope Z_scope.

(* ------------------------------------------------------------------ config *)
Record cfg := mkCfg { rfs : Z; rbs : Z; rfc : Z; wfs : Z }.

Definition MAX_PERMITS : Z := 2305843009213693951.   (* tokio Semaphore::MAX_PERMITS = usize::MAX >> 3 *)
Definition MAX_FRAME_SIZE : Z := 65535.
Definition MAX_STREAM_COUNT : Z := 8192.
Definition U32_MAX : Z := 4294967295.

Definition cfg_verify (c : cfg) : bool :=
  (wfs c <=? MAX_FRAME_SIZE) && (rbs c <=? MAX_PERMITS) && (rfc c <=? MAX_PERMITS).

Definition sat_sum (l : list Z) : Z := fold_left (fun x v => Z.min (x + v) U32_MAX) l 0.

(* BTreeMap<CapabilityId, _> built from a list: ascending keys, a later entry replaces an earlier one *)
Fixpoint bt_insert (c n : Z) (m : list (Z * Z)) : list (Z * Z) :=
  match m with
  | [] => [(c, n)]
  | (c', n') :: t =>
      if c <? c' then (c, n) :: m
      else if c =? c' then (c, n) :: t
      else (c', n') :: bt_insert c n t
  end.
Definition bt_of_list (l : list (Z * Z)) : list (Z * Z) :=
  fold_left (fun m p => bt_insert (fst p) (snd p) m) l [].

Definition mux_verify (c : cfg) (acc con : list (Z * Z)) : bool :=
  cfg_verify c && (sat_sum (map snd acc) <=? MAX_STREAM_COUNT) && (sat_sum (map snd con) <=? MAX_STREAM_COUNT).

(* ------------------------------------------------------------------ stream id partition *)
(* handshake.rs read_max_streams: a duplicate capability id is an error *)
Fixpoint has_dup_keys (l : list (Z * Z)) : bool :=
  match l with
  | [] => false
  | (c, _) :: t => existsb (fun p => fst p =? c) t || has_dup_keys t
  end.

Definition lookup_def (m : list (Z * Z)) (c : Z) : Z :=
  match find (fun p => fst p =? c) m with Some p => snd p | None => 0 end.

(* spawn_streams: for (cap, queue) in my queues (ascending): min(queue.max_streams, peer.get(cap) or 0) *)
Definition alloc (mine peer : list (Z * Z)) : list (Z * Z) :=
  map (fun p => (fst p, Z.min (snd p) (lookup_def peer (fst p)))) mine.

(* capability of stream id i = nth i (expand (alloc ..)) *)
Definition expand (a : list (Z * Z)) : list Z :=
  flat_map (fun p => repeat (fst p) (Z.to_nat (snd p))) a.

(* StreamId::new(streams.len() as u16) asserts id <= MASK *)
Definition spawn_ids_ok (a : list (Z * Z)) : bool := Z.of_nat (length (expand a)) <=? MAX_STREAM_COUNT.

(* ------------------------------------------------------------------ frames, streams *)
(* A frame handed by the dispatcher to a reusable stream. [fsize] is the number of
   read_buffer_size permits it holds until it is dropped (its original length). *)
Record frame := mkFrame { fkind : Z; fdata : list Z; fsize : Z }.

Inductive rphase := RApp | RDiscard | RReady.
Inductive wphase := WApp | WWaitOpen | WQueue | WJoin (slot : Z).

(* a read_exact call in progress: requested length, chunks obtained so far (latest first) *)
Record pread := mkPread { pr_slot : Z; pr_want : Z; pr_len : Z; pr_chunks : list (list Z) }.

(* ghost state (no influence on behaviour or observations; used by the end-to-end theorems):
   [g_wlog]: one entry per OPEN this stream has sent, newest first: the handle that writes that
             incarnation and the DATA payloads handed to the writer task for it so far (latest first);
   [g_rn]:   number of OPEN frames recv_open has consumed (the incarnation the read half is in);
   [g_rdc]:  payload chunks read_exact has taken in the current incarnation, latest first *)
Record sghost := mkSG { g_wlog : list (Z * list (list Z)); g_rn : nat; g_rdc : list (list Z) }.

Record rstream := mkStream {
  s_cap : Z;
  s_rph : rphase;            (* read half: held by the application / recv_open discarding / OPEN received *)
  s_wph : wphase;            (* write half + main loop of ReusableStream::run *)
  s_inq : list frame;        (* the unbounded channel from the dispatcher *)
  s_cache : option frame;    (* ReadReusableStream::cache *)
  s_closed : bool;           (* close_received *)
  s_wbuf : list Z;           (* WriteReusableStream::buffer *)
  s_pread : option pread;
  s_g : sghost }.

Definition set_rph (s : rstream) (x : rphase) := mkStream (s_cap s) x (s_wph s) (s_inq s) (s_cache s) (s_closed s) (s_wbuf s) (s_pread s) (s_g s).
Definition set_wph (s : rstream) (x : wphase) := mkStream (s_cap s) (s_rph s) x (s_inq s) (s_cache s) (s_closed s) (s_wbuf s) (s_pread s) (s_g s).
Definition set_inq (s : rstream) (x : list frame) := mkStream (s_cap s) (s_rph s) (s_wph s) x (s_cache s) (s_closed s) (s_wbuf s) (s_pread s) (s_g s).
Definition set_cache (s : rstream) (x : option frame) := mkStream (s_cap s) (s_rph s) (s_wph s) (s_inq s) x (s_closed s) (s_wbuf s) (s_pread s) (s_g s).
Definition set_closed (s : rstream) (x : bool) := mkStream (s_cap s) (s_rph s) (s_wph s) (s_inq s) (s_cache s) x (s_wbuf s) (s_pread s) (s_g s).
Definition set_wbuf (s : rstream) (x : list Z) := mkStream (s_cap s) (s_rph s) (s_wph s) (s_inq s) (s_cache s) (s_closed s) x (s_pread s) (s_g s).
Definition set_pread (s : rstream) (x : option pread) := mkStream (s_cap s) (s_rph s) (s_wph s) (s_inq s) (s_cache s) (s_closed s) (s_wbuf s) x (s_g s).
Definition set_g (s : rstream) (x : sghost) := mkStream (s_cap s) (s_rph s) (s_wph s) (s_inq s) (s_cache s) (s_closed s) (s_wbuf s) (s_pread s) x.
(* ghost updates *)
Definition g_push (s : rstream) (slot : Z) : rstream :=
  set_g s (mkSG ((slot, []) :: g_wlog (s_g s)) (g_rn (s_g s)) (g_rdc (s_g s))).
Definition g_sent (s : rstream) (ps : list (list Z)) : rstream :=
  set_g s (mkSG (match g_wlog (s_g s) with (w, cs) :: t => (w, rev_append ps cs) :: t | [] => [] end) (g_rn (s_g s)) (g_rdc (s_g s))).
Definition g_open_seen (s : rstream) : rstream := set_g s (mkSG (g_wlog (s_g s)) (S (g_rn (s_g s))) (g_rdc (s_g s))).
Definition g_chunk (s : rstream) (c : list Z) : rstream := set_g s (mkSG (g_wlog (s_g s)) (g_rn (s_g s)) (c :: g_rdc (s_g s))).
Definition g_reader (s : rstream) : rstream := set_g s (mkSG (g_wlog (s_g s)) (g_rn (s_g s)) []).

(* ------------------------------------------------------------------ dispatcher *)
Inductive dstate :=
| DHdr                        (* reading the 2 header bytes *)
| DLen (h : Z)                (* DATA: reading the 2 length bytes *)
| DAcq0 (h : Z)               (* OPEN/CLOSE: acquiring 1 frame-count permit *)
| DAcq (h len : Z)            (* DATA: acquiring 1 count permit + min(len, read_frame_size) size permits *)
| DChunk (h len size : Z)     (* permits held, reading [size] payload bytes *)
| DStop.                      (* returned with an error *)

Record dcore := mkD {
  d_cnt : Z;                  (* available read_frame_count permits *)
  d_siz : Z;                  (* available read_buffer_size permits *)
  d_st : dstate;
  d_in : list Z;              (* bytes in the transport, not yet taken *)
  d_closed : bool;            (* the peer closed the transport *)
  d_consumed : Z;             (* bytes taken from the transport in whole units *)
  d_received : Z }.           (* bytes ever put into the transport *)

Definition set_st (d : dcore) (st : dstate) := mkD (d_cnt d) (d_siz d) st (d_in d) (d_closed d) (d_consumed d) (d_received d).
Definition take_bytes (d : dcore) (n : Z) (rest : list Z) (st : dstate) :=
  mkD (d_cnt d) (d_siz d) st rest (d_closed d) (d_consumed d + n) (d_received d).
Definition add_permits (d : dcore) (c s : Z) := mkD (d_cnt d + c) (d_siz d + s) (d_st d) (d_in d) (d_closed d) (d_consumed d) (d_received d).
(* the transport carries octets: whatever is written arrives reduced to 0..255 *)
Definition feed (d : dcore) (bs : list Z) := mkD (d_cnt d) (d_siz d) (d_st d) (d_in d ++ map (fun b => b mod 256) bs) (d_closed d) (d_consumed d) (d_received d + Z.of_nat (length bs)).
Definition close_in (d : dcore) := mkD (d_cnt d) (d_siz d) (d_st d) (d_in d) true (d_consumed d) (d_received d).

(* splits off exactly n elements, None if the list is shorter *)
Fixpoint split_exact {A} (n : nat) (l : list A) : option (list A * list A) :=
  match n with
  | O => Some ([], l)
  | S n' => match l with
            | [] => None
            | x :: t => match split_exact n' t with Some (a, b) => Some (x :: a, b) | None => None end
            end
  end.

Definition ERR_CLOSED : Z := 3.
Definition ERR_PROTOCOL : Z := 4.

Inductive dres :=
| DBlocked                                           (* waits for bytes or permits *)
| DProgress (d : dcore)
| DDeliver (d : dcore) (tkind : Z) (id : nat) (f : frame)   (* tkind: 0 = my accept table, 1 = my connect table *)
| DFailed (d : dcore) (code : Z).

(* one atomic step of process_inbound_frames; nacc/ncon = lengths of accept_streams / connect_streams *)
Definition dstep (c : cfg) (nacc ncon : nat) (d : dcore) : dres :=
  match d_st d with
  | DHdr =>
      match split_exact 2 (d_in d) with
      | Some ([b0; b1], rest) =>
          let h := header_of_bytes b0 b1 in
          (* frames sent by the peer's ACCEPT end belong to my CONNECT end and vice versa *)
          let n := if stream_kind h =? SK_ACCEPT then ncon else nacc in
          if Z.of_nat n <=? stream_id h then DFailed (take_bytes d 2 rest DStop) ERR_PROTOCOL
          else match classify h with
               | KOpen | KClose => DProgress (take_bytes d 2 rest (DAcq0 h))
               | KData => DProgress (take_bytes d 2 rest (DLen h))
               | KBad => DFailed (take_bytes d 2 rest DStop) ERR_PROTOCOL
               end
      | _ => if d_closed d then DFailed d ERR_CLOSED else DBlocked
      end
  | DLen h =>
      match split_exact 2 (d_in d) with
      | Some ([b0; b1], rest) =>
          let len := header_of_bytes b0 b1 in
          DProgress (take_bytes d 2 rest (if len =? 0 then DHdr else DAcq h len))
      | _ => if d_closed d then DFailed d ERR_CLOSED else DBlocked
      end
  | DAcq0 h =>
      if 1 <=? d_cnt d then
        DDeliver (set_st (add_permits d (-1) 0) DHdr)
                 (if stream_kind h =? SK_ACCEPT then 1 else 0) (Z.to_nat (stream_id h))
                 (mkFrame (frame_kind h) [] 0)
      else DBlocked
  | DAcq h len =>
      let size := Z.min len (rfs c) in
      if (1 <=? d_cnt d) && (size <=? d_siz d) then DProgress (set_st (add_permits d (-1) (- size)) (DChunk h len size))
      else DBlocked
  | DChunk h len size =>
      match split_exact (Z.to_nat size) (d_in d) with
      | Some (data, rest) =>
          DDeliver (take_bytes d size rest (if len - size =? 0 then DHdr else DAcq h (len - size)))
                   (if stream_kind h =? SK_ACCEPT then 1 else 0) (Z.to_nat (stream_id h))
                   (mkFrame FK_DATA data size)
      | None => if d_closed d then DFailed d ERR_CLOSED else DBlocked
      end
  | DStop => DBlocked
  end.

(* bytes the mux has pulled out of the transport: read_exact takes whatever is available *)
Definition waiting_bytes (st : dstate) : bool :=
  match st with DHdr | DLen _ | DChunk _ _ _ => true | _ => false end.
Definition pulled (d : dcore) : Z := if waiting_bytes (d_st d) then d_received d else d_consumed d.

(* ------------------------------------------------------------------ write half *)
(* WriteStream::write_all: returns the DATA payloads handed to send_data and the new buffer *)
Fixpoint write_loop (fuel : nat) (wfsz : Z) (buf data : list Z) : list (list Z) * list Z :=
  match fuel with
  | O => ([], buf)
  | S fuel' =>
      match data with
      | [] => ([], buf)
      | _ =>
          let full := wfsz - Z.of_nat (length buf) <=? 0 in
          let sent := if full then (match buf with [] => [] | _ => [buf] end) else [] in
          let buf1 := if full then [] else buf in
          let k := Z.to_nat (Z.min (wfsz - Z.of_nat (length buf1)) (Z.of_nat (length data))) in
          let '(fs, b) := write_loop fuel' wfsz (buf1 ++ firstn k data) (skipn k data) in
          (sent ++ fs, b)
      end
  end.
Definition write_all (wfsz : Z) (buf data : list Z) := write_loop (S (length data)) wfsz buf data.

(* ------------------------------------------------------------------ queues, slots, endpoint *)
(* StreamQueue of one (kind, capability): reusable streams waiting in push(), applications waiting in open() *)
Record queue := mkQueue { q_kind : Z; q_cap : Z; q_idle : list nat; q_pend : list Z }.

(* a transient stream handle of the scripted application *)
(* ghost of a handle: chunks its read_exact calls returned since it was handed its stream (latest
   first), the incarnation of the reusable stream it was handed, whether one of its reads reported
   end-of-stream *)
Record slghost := mkLG { g_rd : list (list Z); g_inc : nat; g_eos : bool }.
Record slotrec := mkSlot { sl_id : Z; sl_kind : Z; sl_sid : option nat; sl_r : bool; sl_w : bool; sl_woff : Z; sl_g : slghost }.

Record endpoint := mkEp {
  e_cfg : cfg;
  e_d : dcore;
  e_acc : list rstream;
  e_con : list rstream;
  e_qs : list queue;
  e_slots : list slotrec;
  e_out : list Z;                (* bytes written to the transport, not yet moved to the peer *)
  e_gone : bool;                 (* the peer dropped the transport: writing fails *)
  e_log : list (list Z);         (* frames written since the last observation: [hdr] or [hdr; len] *)
  e_events : list (list Z);      (* application-visible completions since the last observation *)
  e_fail : option Z }.           (* Mux::run returned this error *)

Definition set_d (e : endpoint) (x : dcore) := mkEp (e_cfg e) x (e_acc e) (e_con e) (e_qs e) (e_slots e) (e_out e) (e_gone e) (e_log e) (e_events e) (e_fail e).
Definition set_acc (e : endpoint) (x : list rstream) := mkEp (e_cfg e) (e_d e) x (e_con e) (e_qs e) (e_slots e) (e_out e) (e_gone e) (e_log e) (e_events e) (e_fail e).
Definition set_con (e : endpoint) (x : list rstream) := mkEp (e_cfg e) (e_d e) (e_acc e) x (e_qs e) (e_slots e) (e_out e) (e_gone e) (e_log e) (e_events e) (e_fail e).
Definition set_qs (e : endpoint) (x : list queue) := mkEp (e_cfg e) (e_d e) (e_acc e) (e_con e) x (e_slots e) (e_out e) (e_gone e) (e_log e) (e_events e) (e_fail e).
Definition set_slots (e : endpoint) (x : list slotrec) := mkEp (e_cfg e) (e_d e) (e_acc e) (e_con e) (e_qs e) x (e_out e) (e_gone e) (e_log e) (e_events e) (e_fail e).
Definition set_out (e : endpoint) (x : list Z) (l : list (list Z)) := mkEp (e_cfg e) (e_d e) (e_acc e) (e_con e) (e_qs e) (e_slots e) x (e_gone e) l (e_events e) (e_fail e).
Definition set_gone (e : endpoint) := mkEp (e_cfg e) (e_d e) (e_acc e) (e_con e) (e_qs e) (e_slots e) (e_out e) true (e_log e) (e_events e) (e_fail e).
Definition set_events (e : endpoint) (x : list (list Z)) := mkEp (e_cfg e) (e_d e) (e_acc e) (e_con e) (e_qs e) (e_slots e) (e_out e) (e_gone e) (e_log e) x (e_fail e).
Definition set_fail (e : endpoint) (x : option Z) := mkEp (e_cfg e) (e_d e) (e_acc e) (e_con e) (e_qs e) (e_slots e) (e_out e) (e_gone e) (e_log e) (e_events e) x.
Definition add_event (e : endpoint) (ev : list Z) := set_events e (e_events e ++ [ev]).

Definition table (e : endpoint) (k : Z) : list rstream := if k =? 0 then e_acc e else e_con e.
Definition set_table (e : endpoint) (k : Z) (t : list rstream) := if k =? 0 then set_acc e t else set_con e t.

Fixpoint upd_nth {A} (n : nat) (f : A -> A) (l : list A) : list A :=
  match l with
  | [] => []
  | x :: t => match n with O => f x :: t | S n' => x :: upd_nth n' f t end
  end.
Definition get_stream (e : endpoint) (k : Z) (i : nat) : option rstream := nth_error (table e k) i.
Definition upd_stream (e : endpoint) (k : Z) (i : nat) (f : rstream -> rstream) : endpoint :=
  set_table e k (upd_nth i f (table e k)).

Definition kind_bits (k : Z) : Z := if k =? 0 then SK_ACCEPT else SK_CONNECT.

(* the writer task: header, and for DATA the length and the payload; a dropped transport fails the mux *)
Definition emit (e : endpoint) (h : Z) (d : option (list Z)) : endpoint :=
  if e_gone e then set_fail e (match e_fail e with None => Some ERR_CLOSED | x => x end) else
  match d with
  | None => set_out e (e_out e ++ header_raw h) (e_log e ++ [[h]])
  | Some l => let n := Z.of_nat (length l) in
              set_out e (e_out e ++ header_raw h ++ header_raw n ++ l) (e_log e ++ [[h; n]])
  end.

Definition emit_frames (e : endpoint) (k : Z) (i : nat) (payloads : list (list Z)) : endpoint :=
  fold_left (fun e p => emit e (mk_header FK_DATA (kind_bits k) i) (Some p)) payloads e.
Definition emit_data (e : endpoint) (k : Z) (i : nat) (payloads : list (list Z)) : endpoint :=
  upd_stream (emit_frames e k i payloads) k i (fun s => g_sent s payloads).

Definition release (e : endpoint) (f : frame) : endpoint := set_d e (add_permits (e_d e) 1 (fsize f)).

(* ---- queue helpers ---- *)
Definition upd_queue (e : endpoint) (k cap : Z) (f : queue -> queue) : endpoint :=
  set_qs e (map (fun q => if (q_kind q =? k) && (q_cap q =? cap) then f q else q) (e_qs e)).
Definition enqueue_idle (e : endpoint) (k cap : Z) (i : nat) : endpoint :=
  upd_queue e k cap (fun q => mkQueue (q_kind q) (q_cap q) (q_idle q ++ [i]) (q_pend q)).
Definition has_queue (e : endpoint) (k cap : Z) : bool :=
  existsb (fun q => (q_kind q =? k) && (q_cap q =? cap)) (e_qs e).

(* ---- slot helpers ---- *)
Definition find_slot (e : endpoint) (s : Z) : option slotrec := find (fun r => sl_id r =? s) (e_slots e).
Definition upd_slot (e : endpoint) (s : Z) (f : slotrec -> slotrec) : endpoint :=
  set_slots e (map (fun r => if sl_id r =? s then f r else r) (e_slots e)).

(* the reservation is answered: the transient stream (both halves) goes to the application *)
Definition handover (e : endpoint) (k : Z) (i : nat) (slot : Z) : endpoint :=
  let inc := match get_stream e k i with Some s => g_rn (s_g s) | None => O end in
  let e := upd_stream e k i (fun s => g_reader (set_wph (set_rph s RApp) WApp)) in
  let e := upd_slot e slot (fun r => mkSlot (sl_id r) (sl_kind r) (Some i) true true (sl_woff r)
                                            (mkLG [] inc false)) in
  add_event e [slot; 0].

(* after send_close: CONNECT goes to push(), ACCEPT first joins recv_open *)
Definition after_close (e : endpoint) (k : Z) (i : nat) : endpoint :=
  match get_stream e k i with
  | None => e
  | Some s =>
      if k =? 0 then upd_stream e k i (fun s => set_wph s WWaitOpen)
      else enqueue_idle (upd_stream e k i (fun s => set_wph s WQueue)) k (s_cap s) i
  end.

(* send_close: send_data (if the buffer is non empty) then CLOSE *)
Definition send_close (e : endpoint) (k : Z) (i : nat) : endpoint :=
  match get_stream e k i with
  | None => e
  | Some s =>
      let e := match s_wbuf s with [] => e | b => emit_data e k i [b] end in
      let e := upd_stream e k i (fun s => set_wbuf s []) in
      let e := emit e (mk_header FK_CLOSE (kind_bits k) i) None in
      after_close e k i
  end.

Definition hash_bytes (l : list Z) : Z := fold_left (fun h b => (h * 31 + b + 1) mod 1000003) l 0.

Definition complete_read (e : endpoint) (k : Z) (i : nat) (p : pread) : endpoint :=
  let data := concat (rev (pr_chunks p)) in
  let e := upd_stream e k i (fun s => set_pread s None) in
  let e := upd_slot e (pr_slot p) (fun r => mkSlot (sl_id r) (sl_kind r) (sl_sid r) (sl_r r) (sl_w r) (sl_woff r)
                                              (mkLG (data :: g_rd (sl_g r)) (g_inc (sl_g r)) (g_eos (sl_g r) || (pr_len p <? pr_want p)))) in
  add_event e [pr_slot p; 1; pr_want p; Z.of_nat (length data); hash_bytes data].

(* one iteration of the loop of ReadStream::read_exact, on the stream state alone:
   new stream state, frames dropped (their permits return), whether read_exact returned *)
Inductive rres := RBlocked | RStep (s : rstream) (rel : list frame) (done : bool).

Definition read_iter_s (s : rstream) (p : pread) : rres :=
  if s_closed s then RStep s [] true else
  let next := match s_cache s with
              | Some f => Some (f, set_cache s None)
              | None => match s_inq s with f :: t => Some (f, set_inq s t) | [] => None end
              end in
  match next with
  | None => RBlocked
  | Some (f, s1) =>
      if fkind f =? FK_CLOSE then RStep (set_closed s1 true) [f] false
      else if fkind f =? FK_DATA then
        let n := Z.to_nat (Z.min (pr_want p - pr_len p) (Z.of_nat (length (fdata f)))) in
        let got := firstn n (fdata f) in
        let rest := skipn n (fdata f) in
        let p' := mkPread (pr_slot p) (pr_want p) (pr_len p + Z.of_nat n) (got :: pr_chunks p) in
        let s2 := g_chunk (set_pread s1 (Some p')) got in
        let done := pr_len p' =? pr_want p in
        match rest with
        | [] => RStep s2 [f] done
        | _ => RStep (set_cache s2 (Some (mkFrame (fkind f) rest (fsize f)))) [] done
        end
      else RStep s1 [f] false      (* unexpected OPEN: dropped *)
  end.

Definition read_iter (e : endpoint) (k : Z) (i : nat) (s : rstream) (p : pread) : option endpoint :=
  match read_iter_s s p with
  | RBlocked => None
  | RStep s' rel done =>
      let e := fold_left release rel (upd_stream e k i (fun _ => s')) in
      Some (if done then match s_pread s' with Some p' => complete_read e k i p' | None => e end else e)
  end.

(* one enabled transition of reusable stream (k, i), if any *)
Definition stream_step (e : endpoint) (k : Z) (i : nat) : option endpoint :=
  match get_stream e k i with
  | None => None
  | Some s =>
      match s_rph s, s_inq s with
      | RDiscard, f :: t =>
          (* recv_open: drop frames until an OPEN arrives *)
          let s1 := set_inq s t in
          let s2 := if fkind f =? FK_OPEN then g_open_seen (set_rph s1 RReady) else s1 in
          Some (release (upd_stream e k i (fun _ => s2)) f)
      | _, _ =>
          match s_rph s, s_pread s with
          | RApp, Some p => read_iter e k i s p
          | _, _ =>
              match s_rph s, s_wph s with
              | RReady, WWaitOpen => Some (enqueue_idle (upd_stream e k i (fun s => set_wph s WQueue)) k (s_cap s) i)
              | RReady, WJoin slot => Some (handover e k i slot)
              | _, _ => None
              end
          end
      end
  end.

(* StreamQueue: the first waiting open() gets the first reusable stream waiting in push(); that
   stream sends OPEN; an ACCEPT stream is handed over at once, a CONNECT stream joins recv_open *)
Definition queue_step (e : endpoint) (q : queue) : option endpoint :=
  match q_idle q, q_pend q with
  | i :: idle, slot :: pend =>
      let k := q_kind q in
      let e := upd_queue e k (q_cap q) (fun _ => mkQueue k (q_cap q) idle pend) in
      let e := emit e (mk_header FK_OPEN (kind_bits k) i) None in
      let e := upd_stream e k i (fun s => g_push (set_wph s (WJoin slot)) slot) in
      if k =? 0 then Some (handover e k i slot) else Some e
  | _, _ => None
  end.

(* ---- one scheduling round of an endpoint: the dispatcher moves at most one frame, then every
   stream and every queue takes at most one step.  Returns None when nothing is enabled. ---- *)
Definition deliver (e : endpoint) (k : Z) (i : nat) (f : frame) : endpoint :=
  upd_stream e k i (fun s => set_inq s (s_inq s ++ [f])).

Fixpoint disp_run (fuel : nat) (e : endpoint) : endpoint * bool :=
  match fuel with
  | O => (e, false)
  | S fuel' =>
      match dstep (e_cfg e) (length (e_acc e)) (length (e_con e)) (e_d e) with
      | DBlocked => (e, false)
      | DProgress d => let '(e', _) := disp_run fuel' (set_d e d) in (e', true)
      | DDeliver d k i f => (deliver (set_d e d) k i f, true)
      | DFailed d code => (set_fail (set_d e d) (Some code), true)
      end
  end.

Fixpoint streams_pass (e : endpoint) (k : Z) (n : nat) (i : nat) : endpoint * bool :=
  match n with
  | O => (e, false)
  | S n' =>
      match stream_step e k i with
      | Some e' => let '(e'', _) := streams_pass e' k n' (S i) in (e'', true)
      | None => streams_pass e k n' (S i)
      end
  end.

Fixpoint queues_pass (e : endpoint) (qs : list (Z * Z)) : endpoint * bool :=
  match qs with
  | [] => (e, false)
  | (k, cap) :: t =>
      match find (fun q => (q_kind q =? k) && (q_cap q =? cap)) (e_qs e) with
      | Some q => match queue_step e q with
                  | Some e' => let '(e'', _) := queues_pass e' t in (e'', true)
                  | None => queues_pass e t
                  end
      | None => queues_pass e t
      end
  end.

(* after Mux::run returned, the channels of all streams are disconnected: a pending read_exact
   still takes the frames that were already queued, then sees "end of stream" *)
Definition drain_step (e : endpoint) (k : Z) (i : nat) : option endpoint :=
  match get_stream e k i with
  | None => None
  | Some s =>
      match s_rph s, s_pread s with
      | RApp, Some p => match read_iter e k i s p with
                        | Some e' => Some e'
                        | None => Some (complete_read e k i p)
                        end
      | _, _ => None
      end
  end.

Fixpoint drain_pass (e : endpoint) (k : Z) (n : nat) (i : nat) : endpoint * bool :=
  match n with
  | O => (e, false)
  | S n' =>
      match drain_step e k i with
      | Some e' => let '(e'', _) := drain_pass e' k n' (S i) in (e'', true)
      | None => drain_pass e k n' (S i)
      end
  end.

Definition ep_round (e : endpoint) : endpoint * bool :=
  match e_fail e with
  | Some _ =>
      let '(e2, p2) := drain_pass e 0 (length (e_acc e)) 0 in
      let '(e3, p3) := drain_pass e2 1 (length (e_con e2)) 0 in
      (e3, p2 || p3)
  | None =>
      let '(e1, p1) := disp_run 4 e in
      let '(e2, p2) := streams_pass e1 0 (length (e_acc e1)) 0 in
      let '(e3, p3) := streams_pass e2 1 (length (e_con e2)) 0 in
      let '(e4, p4) := queues_pass e3 (map (fun q => (q_kind q, q_cap q)) (e_qs e3)) in
      (e4, p1 || p2 || p3 || p4)
  end.

(* ------------------------------------------------------------------ start of Mux::run *)
Definition new_stream (cap : Z) : rstream := mkStream cap RDiscard WApp [] None false [] None (mkSG [] O []).

Fixpoint initial_close (e : endpoint) (k : Z) (n : nat) (i : nat) : endpoint :=
  match n with
  | O => e
  | S n' => initial_close (send_close e k i) k n' (S i)
  end.

Definition init_d (c : cfg) : dcore := mkD (rfc c) (rbs c) DHdr [] false 0 0.

(* [acc], [con]: my StreamQueue maps (as given to the constructor); [pacc], [pcon]: the peer's
   announced accept / connect lists as they arrive in its handshake message *)
Definition ep_init (c : cfg) (acc con pacc pcon : list (Z * Z)) : endpoint :=
  let acc := bt_of_list acc in
  let con := bt_of_list con in
  let qs := map (fun p => mkQueue 0 (fst p) [] []) acc ++ map (fun p => mkQueue 1 (fst p) [] []) con in
  let e0 := mkEp c (init_d c) [] [] qs [] [] false [] [] None in
  if negb (mux_verify c acc con) then set_fail e0 (Some 1)
  else if has_dup_keys pacc || has_dup_keys pcon then set_fail e0 (Some ERR_PROTOCOL)
  else
    (* my ACCEPT streams pair with the peer's CONNECT limits and vice versa *)
    let sa := map new_stream (expand (alloc acc pcon)) in
    let sc := map new_stream (expand (alloc con pacc)) in
    let e1 := set_con (set_acc e0 sa) sc in
    let e2 := initial_close e1 0 (length sa) 0 in
    initial_close e2 1 (length sc) 0.

(* ------------------------------------------------------------------ application operations *)
Inductive op :=
| OOpen (side kind cap slot : Z)
| OWrite (slot n : Z)
| OFlush (slot : Z)
| ORead (slot n : Z)
| ODropW (slot : Z)
| ODropR (slot : Z)
| ORawFrame (hdr lenf nbytes : Z)
| ORawBytes (bs : list Z)
| ORawClose.

Definition data_byte (tag k : Z) : Z := (tag * 37 + k + k / 256) mod 256.
Definition filler_byte (pos : Z) : Z := (pos * 7 + 3) mod 256.
Fixpoint gen_bytes_from (f : Z -> Z) (from : Z) (n : nat) : list Z :=
  match n with O => [] | S n' => f from :: gen_bytes_from f (from + 1) n' end.
Definition gen_bytes (f : Z -> Z) (from : Z) (n : Z) : list Z := gen_bytes_from f from (Z.to_nat n).

Definition skip (e : endpoint) (slot : Z) : endpoint := add_event e [slot; -1].

Definition op_open (e : endpoint) (kind cap slot : Z) : endpoint :=
  let e := set_slots e (e_slots e ++ [mkSlot slot kind None false false 0 (mkLG [] O false)]) in
  upd_queue e kind cap (fun q => mkQueue (q_kind q) (q_cap q) (q_idle q) (q_pend q ++ [slot])).

Definition op_write (e : endpoint) (r : slotrec) (i : nat) (s : rstream) (n : Z) : endpoint :=
  let data := gen_bytes (data_byte (sl_id r)) (sl_woff r) n in
  let '(frames, buf) := write_all (wfs (e_cfg e)) (s_wbuf s) data in
  let e := emit_data e (sl_kind r) i frames in
  let e := upd_stream e (sl_kind r) i (fun s => set_wbuf s buf) in
  upd_slot e (sl_id r) (fun r => mkSlot (sl_id r) (sl_kind r) (sl_sid r) (sl_r r) (sl_w r) (sl_woff r + Z.of_nat (length data)) (sl_g r)).

Definition op_flush (e : endpoint) (r : slotrec) (i : nat) (s : rstream) : endpoint :=
  match s_wbuf s with
  | [] => e
  | b => upd_stream (emit_data e (sl_kind r) i [b]) (sl_kind r) i (fun s => set_wbuf s [])
  end.

Definition op_dropw (e : endpoint) (r : slotrec) (i : nat) : endpoint :=
  let e := upd_slot e (sl_id r) (fun r => mkSlot (sl_id r) (sl_kind r) (sl_sid r) (sl_r r) false (sl_woff r) (sl_g r)) in
  send_close e (sl_kind r) i.

(* dropping the read half starts recv_open of the next incarnation: cache dropped, close flag reset *)
Definition op_dropr (e : endpoint) (r : slotrec) (i : nat) (s : rstream) : endpoint :=
  let e := upd_slot e (sl_id r) (fun r => mkSlot (sl_id r) (sl_kind r) (sl_sid r) false (sl_w r) (sl_woff r) (sl_g r)) in
  let e := match s_cache s with Some f => release e f | None => e end in
  upd_stream e (sl_kind r) i (fun s => set_closed (set_cache (set_rph s RDiscard) None) false).

Definition op_read (e : endpoint) (r : slotrec) (i : nat) (n : Z) : endpoint :=
  upd_stream e (sl_kind r) i (fun s => set_pread s (Some (mkPread (sl_id r) n 0 []))).

(* an operation on an opened slot of this endpoint *)
Definition slot_op (e : endpoint) (o : op) (r : slotrec) : endpoint :=
  match sl_sid r with
  | None => skip e (sl_id r)
  | Some i =>
      match get_stream e (sl_kind r) i with
      | None => skip e (sl_id r)
      | Some s =>
          let reading := match s_pread s with Some _ => true | None => false end in
          match o with
          | OWrite _ n => if sl_w r then op_write e r i s n else skip e (sl_id r)
          | OFlush _ => if sl_w r then op_flush e r i s else skip e (sl_id r)
          | ODropW _ => if sl_w r then op_dropw e r i else skip e (sl_id r)
          | ODropR _ => if sl_r r && negb reading then op_dropr e r i s else skip e (sl_id r)
          | ORead _ n => if sl_r r && negb reading then op_read e r i n else skip e (sl_id r)
          | _ => e
          end
      end
  end.

(* ------------------------------------------------------------------ the two-sided system *)
Record sys := mkSys { sA : endpoint; sB : endpoint; s_raw : bool }.

Definition op_slot (o : op) : option Z :=
  match o with
  | OWrite s _ | OFlush s | ORead s _ | ODropW s | ODropR s => Some s
  | _ => None
  end.

Definition raw_feed (s : sys) (bs : list Z) : sys :=
  mkSys (sA s) (set_d (sB s) (feed (e_d (sB s)) bs)) (s_raw s).

Definition apply_op (s : sys) (o : op) : sys :=
  match o with
  | OOpen side kind cap slot =>
      let e := if side =? 0 then sA s else sB s in
      let exists_ := match find_slot (sA s) slot, find_slot (sB s) slot with None, None => false | _, _ => true end in
      if exists_ || negb (has_queue e kind cap) || (s_raw s && (side =? 0))
      then mkSys (sA s) (skip (sB s) slot) (s_raw s)
      else if side =? 0 then mkSys (op_open e kind cap slot) (sB s) (s_raw s)
           else mkSys (sA s) (op_open e kind cap slot) (s_raw s)
  | ORawFrame h lenf nbytes =>
      if s_raw s then
        raw_feed s (header_raw h ++ (if 0 <=? lenf then header_raw lenf else []) ++ gen_bytes filler_byte 0 nbytes)
      else s
  | ORawBytes bs => if s_raw s then raw_feed s bs else s
  | ORawClose => if s_raw s then mkSys (sA s) (set_gone (set_d (sB s) (close_in (e_d (sB s))))) true else s
  | _ =>
      match op_slot o with
      | None => s
      | Some slot =>
          match find_slot (sA s) slot, find_slot (sB s) slot with
          | Some r, _ => mkSys (slot_op (sA s) o r) (sB s) (s_raw s)
          | None, Some r => mkSys (sA s) (slot_op (sB s) o r) (s_raw s)
          | None, None => mkSys (sA s) (skip (sB s) slot) (s_raw s)
          end
      end
  end.

(* the transports: what one side wrote becomes readable by the other *)
Definition transfer (s : sys) : sys :=
  if s_raw s then mkSys (sA s) (set_out (sB s) [] (e_log (sB s))) true
  else
    let a := sA s in let b := sB s in
    let a' := match e_out b with [] => a | bs => set_d a (feed (e_d a) bs) end in
    let b' := match e_out a with [] => b | bs => set_d b (feed (e_d b) bs) end in
    mkSys (set_out a' [] (e_log a')) (set_out b' [] (e_log b')) false.

(* The dispatcher task does not yield while bytes and permits are available.  If it reaches a fatal
   header in such a burst, Mux::run returns (and cancels every stream task) before any stream task has
   seen the frames delivered earlier in the same burst.  [disp_burst] looks ahead for that case; it is
   consulted against a raw peer only (two well-formed multiplexers never send a fatal header). *)
Fixpoint disp_burst (fuel : nat) (e : endpoint) : option endpoint :=
  match fuel with
  | O => None
  | S fuel' =>
      match dstep (e_cfg e) (length (e_acc e)) (length (e_con e)) (e_d e) with
      | DBlocked => None
      | DProgress d => disp_burst fuel' (set_d e d)
      | DDeliver d k i f => disp_burst fuel' (deliver (set_d e d) k i f)
      | DFailed d code => Some (set_fail (set_d e d) (Some code))
      end
  end.
Definition burst_fuel (e : endpoint) : nat :=
  Z.to_nat (2 * (d_received (e_d e) - d_consumed (e_d e)) + 8).

Definition raw_round (e : endpoint) : endpoint * bool :=
  match e_fail e with
  | Some _ => ep_round e
  | None => match disp_burst (burst_fuel e) e with
            | Some e' => (e', true)
            | None => ep_round e
            end
  end.

Definition settle_round (s : sys) : sys * bool :=
  let s1 := transfer s in
  let '(a, pa) := if s_raw s1 then (sA s1, false) else ep_round (sA s1) in
  let '(b, pb) := if s_raw s1 then raw_round (sB s1) else ep_round (sB s1) in
  let moved := match e_out a, e_out b with [], [] => false | _, _ => true end in
  (mkSys a b (s_raw s1), pa || pb || moved).

(* runs [settle_round] until it reports that nothing is enabled, at most [p] times
   (binary fuel: structural on [positive], no large unary numbers at run time) *)
Fixpoint iter_until (p : positive) (s : sys) : sys * bool :=
  match p with
  | xH => settle_round s
  | xO p' => let '(s1, c) := iter_until p' s in if c then iter_until p' s1 else (s1, false)
  | xI p' => let '(s0, c0) := settle_round s in
             if c0 then (let '(s1, c) := iter_until p' s0 in if c then iter_until p' s1 else (s1, false))
             else (s0, false)
  end.
Definition settle (fuel : positive) (s : sys) : sys := fst (iter_until fuel s).

Definition pending_bytes (e : endpoint) : Z :=
  (d_received (e_d e) - d_consumed (e_d e)) + Z.of_nat (length (e_out e)).
Definition settle_fuel (s : sys) : positive :=
  Z.to_pos (8 * (pending_bytes (sA s) + pending_bytes (sB s)) + 4096).

(* ------------------------------------------------------------------ observation *)
Fixpoint insert_ev (ev : list Z) (l : list (list Z)) : list (list Z) :=
  match l with
  | [] => [ev]
  | x :: t => if hd 0 ev <=? hd 0 x then ev :: l else x :: insert_ev ev t
  end.
Definition sort_events (l : list (list Z)) : list (list Z) := fold_right insert_ev [] l.

(* frames written in one round, grouped by stream (kind, id), the order of each stream preserved:
   the order in which different streams reach the writer task within a round is scheduling noise *)
Fixpoint insert_fr (f : list Z) (l : list (list Z)) : list (list Z) :=
  match l with
  | [] => [f]
  | x :: t => if hd 0 f mod 16384 <=? hd 0 x mod 16384 then f :: l else x :: insert_fr f t
  end.
Definition sort_frames (l : list (list Z)) : list (list Z) := fold_right insert_fr [] l.

Definition status_of (s : sys) : list obsv :=
  (match e_fail (sA s) with Some c => if s_raw s then [] else [ozs [0; c]] | None => [] end) ++
  (match e_fail (sB s) with Some c => [ozs [1; c]] | None => [] end).

Definition is_dead (s : sys) : bool :=
  match e_fail (sA s), e_fail (sB s) with None, None => false | _, _ => true end.
(* In the round in which Mux::run returns with an error its stream tasks are cancelled while they may be
   about to react to frames delivered just before: whether a hand-over (and its OPEN frame) still
   happens is decided by the runtime's randomised select, so that round reports reads and skips only. *)
Definition keep_ev (ev : list Z) : bool := negb (nth 1 ev 0 =? 0).

Definition observe (s : sys) : obsv :=
  let evs := sort_events (e_events (sA s) ++ e_events (sB s)) in
  OL [ OL (map ozs (if is_dead s then filter keep_ev evs else evs));
       OL (map ozs (if is_dead s then [] else sort_frames (e_log (sA s))));
       OL (map ozs (if is_dead s then [] else sort_frames (e_log (sB s))));
       OZ (if s_raw s then 0 else pulled (e_d (sA s)));
       OZ (pulled (e_d (sB s)));
       OL (status_of s) ].

Definition clear_obs (s : sys) : sys :=
  let c e := set_events (set_out e (e_out e) []) [] in
  mkSys (c (sA s)) (c (sB s)) (s_raw s).

Definition dead (s : sys) : bool :=
  match e_fail (sA s), e_fail (sB s) with None, None => false | _, _ => true end.

Fixpoint run_ops (s : sys) (ops : list op) : list obsv :=
  match ops with
  | [] => []
  | o :: t =>
      let s1 := apply_op (clear_obs s) o in
      let s2 := settle (settle_fuel s1) s1 in
      observe s2 :: (if dead s2 then [] else run_ops s2 t)
  end.

Record side_cfg := mkSide { sd_cfg : cfg; sd_acc : list (Z * Z); sd_con : list (Z * Z) }.

Definition dummy_ep : endpoint :=
  mkEp (mkCfg 1 0 0 1) (init_d (mkCfg 1 0 0 1)) [] [] [] [] [] false [] [] None.

Definition sys_init (raw : bool) (a b : side_cfg) : sys :=
  let eb := ep_init (sd_cfg b) (sd_acc b) (sd_con b)
                    (if raw then sd_acc a else bt_of_list (sd_acc a))
                    (if raw then sd_con a else bt_of_list (sd_con a)) in
  let ea := if raw then dummy_ep
            else ep_init (sd_cfg a) (sd_acc a) (sd_con a) (bt_of_list (sd_acc b)) (bt_of_list (sd_con b)) in
  mkSys ea eb raw.

Definition run_script (raw : bool) (a b : side_cfg) (ops : list op) : obsv :=
  let s0 := sys_init raw a b in
  let s1 := settle (settle_fuel s0) s0 in
  OL (observe s1 :: (if dead s1 then [] else run_ops s1 ops)).

(* ------------------------------------------------------------------ correspondence entry point *)
Inductive mcase :=
| CHeader (raws : list Z) (news : list (Z * Z * Z))
| CVerify (c : cfg) (acc con : list (Z * Z))
| CScript (raw : bool) (a b : side_cfg) (ops : list op).

Definition run_case (c : mcase) : obsv :=
  match c with
  | CHeader raws news => run_header_case (raws, news)
  | CVerify c acc con => OL [ob (mux_verify c (bt_of_list acc) (bt_of_list con))]
  | CScript raw a b ops => run_script raw a b ops
  end.
