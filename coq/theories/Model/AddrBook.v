(* Model of the validator address book
     node/components/network/src/gossip/validator_addrs.rs
       (ValidatorAddrs::update, ValidatorAddrsWatch::{update, announce, current})
     node/libs/roles/src/validator/messages/discovery.rs (NetAddress::is_newer)
   and of the place the book is read for dialing
     node/components/network/src/consensus/mod.rs (maintain_connection: get(peer).msg.addr).

   Keys are ranks in the key pool.  Addresses are opaque ids.  A timestamp is the
   number of nanoseconds since the epoch (time::Duration orders by (seconds, nanoseconds)
   with equal signs, which is the order of the total).
   Signatures are symbolic (H-SIG): a signature is the term sig(k, m); verification of a
   signed message (key, msg, sig) accepts exactly when sig = sig(key, msg). *)
From Coq Require Import ZArith List Bool.
From EC Require Import Lib.Outcome Lib.U64 Lib.Obs.
Import ListNotations.
Open Scope Z_scope.

Record net_address := { na_addr : Z; na_version : Z; na_ts : Z }.
Record sigterm := { sg_key : Z; sg_msg : net_address }.
(* validator::Signed<NetAddress> *)
Record entry := { ekey : Z; emsg : net_address; esig : sigterm }.

Definition na_eqb (a b : net_address) : bool :=
  (na_addr a =? na_addr b) && (na_version a =? na_version b) && (na_ts a =? na_ts b).

(* Signed::verify *)
Definition verify (e : entry) : bool :=
  (sg_key (esig e) =? ekey e) && na_eqb (sg_msg (esig e)) (emsg e).

(* SecretKey::sign_msg *)
Definition sign (k : Z) (m : net_address) : entry :=
  {| ekey := k; emsg := m; esig := {| sg_key := k; sg_msg := m |} |}.

(* NetAddress::is_newer: (self.version, self.timestamp) > (b.version, b.timestamp) *)
Definition is_newer (a b : net_address) : bool :=
  (na_version b <? na_version a) ||
  ((na_version a =? na_version b) && (na_ts b <? na_ts a)).

(* im::HashMap<PublicKey, Arc<Signed<NetAddress>>>: association list kept in key order
   (canonical form; the harness prints the map sorted by key rank). The map key of an
   entry is always the entry's own key (insert(d.key.clone(), d.clone())). *)
Definition book := list entry.

Fixpoint get (k : Z) (b : book) : option entry :=
  match b with
  | [] => None
  | x :: b' => if ekey x =? k then Some x else get k b'
  end.

Fixpoint put (e : entry) (b : book) : book :=
  match b with
  | [] => [e]
  | x :: b' =>
      if ekey e <? ekey x then e :: b
      else if ekey e =? ekey x then e :: b'
      else x :: put e b'
  end.

Definition mem (k : Z) (l : list Z) : bool := existsb (Z.eqb k) l.

Inductive uerr := EDuplicate | EBadSig.

(* The loop of ValidatorAddrs::update.  [c] = keys of the schedule (validators.contains),
   [done] = the HashSet of keys already met in this batch, [changed] the flag.
   Returns the (possibly partially updated) map together with the result. *)
Fixpoint update_loop (c : list Z) (data : list entry) (done : list Z) (b : book) (changed : bool)
  : book * outcome uerr bool :=
  match data with
  | [] => (b, Ok changed)
  | d :: data' =>
      if mem (ekey d) done then (b, Err EDuplicate) else
      let done' := ekey d :: done in
      if negb (mem (ekey d) c) then update_loop c data' done' b changed else
      if match get (ekey d) b with
         | Some x => negb (is_newer (emsg d) (emsg x))
         | None => false
         end
      then update_loop c data' done' b changed
      else if verify d then update_loop c data' done' (put d b) true
      else (b, Err EBadSig)
  end.

Definition update (c : list Z) (data : list entry) (b : book) : book * outcome uerr bool :=
  update_loop c data [] b false.

(* ValidatorAddrsWatch::update: works on a clone, publishes it only on Ok(true). *)
Definition update_watch (c : list Z) (data : list entry) (pub : book) : book * outcome uerr unit :=
  let '(w, r) := update c data pub in
  match r with
  | Ok true => (w, Ok tt)
  | Ok false => (pub, Ok tt)
  | Err e => (pub, Err e)
  | Panic p => (pub, Panic p)
  end.

(* ValidatorAddrsWatch::announce: version = previous version + 1 (u64 addition of the build
   profile: [chk] = overflow checks on), or 0; signs with the node's own key, inserts. *)
Definition announce (chk : bool) (k addr ts : Z) (pub : book) : book * outcome uerr unit :=
  let v : outcome uerr Z :=
    match get k pub with
    | Some x => u64_add chk (na_version (emsg x)) 1
    | None => Ok 0
    end in
  match v with
  | Ok version =>
      (put (sign k {| na_addr := addr; na_version := version; na_ts := ts |}) pub, Ok tt)
  | Err e => (pub, Err e)
  | Panic p => (pub, Panic p)
  end.

(* What consensus::maintain_connection dials for [peer]. *)
Definition dial (b : book) (peer : Z) : option Z :=
  match get peer b with Some e => Some (na_addr (emsg e)) | None => None end.

(* Operations on one node's book. *)
Inductive op :=
| OUpdate (c : list Z) (d : list entry)      (* a push_validator_addrs request under schedule c *)
| OAnnounce (k addr ts : Z).                 (* the node announces its own address *)

Definition step (chk : bool) (b : book) (o : op) : book * outcome uerr unit :=
  match o with
  | OUpdate c d => update_watch c d b
  | OAnnounce k addr ts => announce chk k addr ts b
  end.

Fixpoint run (chk : bool) (b : book) (ops : list op) : book :=
  match ops with
  | [] => b
  | o :: ops' => run chk (fst (step chk b o)) ops'
  end.

(* ---- observation encoding for the correspondence ---- *)
Definition mk_entry (k addr ver ts sk saddr sver sts : Z) : entry :=
  {| ekey := k; emsg := {| na_addr := addr; na_version := ver; na_ts := ts |};
     esig := {| sg_key := sk; sg_msg := {| na_addr := saddr; na_version := sver; na_ts := sts |} |} |}.

Definition uerr_code (e : uerr) : Z := match e with EDuplicate => 1 | EBadSig => 2 end.

Definition obs_res (r : outcome uerr unit) : obsv :=
  match r with
  | Ok _ => OL [OZ 0]
  | Err e => OL [OZ 2; OZ (uerr_code e)]
  | Panic p => OL [OZ 1; OZ (panic_code p)]
  end.

Definition obs_book (b : book) : obsv :=
  OL (map (fun e => OL [OZ (ekey e); OZ (na_addr (emsg e)); OZ (na_version (emsg e));
                        OZ (na_ts (emsg e)); ob (verify e)]) b).

Fixpoint trace (chk : bool) (b : book) (ops : list op) : list obsv :=
  match ops with
  | [] => []
  | o :: ops' =>
      let '(b', r) := step chk b o in
      OL [obs_res r; obs_book b'] :: trace chk b' ops'
  end.

(* A case: the overflow mode of the build and the operations applied to a fresh book. *)
Definition run_case (c : bool * list op) : obsv :=
  let '(chk, ops) := c in OL (trace chk [] ops).
