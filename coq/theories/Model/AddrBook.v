(* Model of the validator address book
     node/components/network/src/gossip/validator_addrs.rs
       (ValidatorAddrs::update, ValidatorAddrsWatch::{update, announce, current})
     node/libs/roles/src/validator/messages/discovery.rs (NetAddress::is_newer)
   and of the place the book is read for dialing
     node/components/network/src/consensus/mod.rs (maintain_connection: get(peer).msg.addr).

   Keys are ranks in the key pool.  Addresses are opaque ids.  A timestamp is the
   number of nanoseconds since the epoch (time::Duration orders by (seconds, nanoseconds)
   with equal signs, which is the order of the total).
   Signatures are symbolic (H-SIG): a signature is the term sig(k, m); verification of a
   signed message (key, msg, sig) accepts exactly when sig = sig(key, msg). *)
From Coq Require Import ZArith List Bool.
From EC Require Import Lib.Outcome Lib.U64 Lib.Obs.
Import ListNotations.
Open Scope Z_scope.

Record net_address := { na_addr : Z; na_version : Z; na_ts : Z }.
Record sigterm := { sg_key : Z; sg_msg : net_address }.
(* validator::Signed<NetAddress> *)
Record entry := { ekey : Z; emsg : net_address; esig : sigterm }.

Definition na_eqb (a b : net_address) : bool :=
  (na_addr a =? na_addr b) && (na_version a =? na_version b) && (na_ts a =? na_ts b).

(* Signed::verify *)
Definition verify (e : entry) : bool :=
  (sg_key (esig e) =? ekey e) && na_eqb (sg_msg (esig e)) (emsg e).

(* SecretKey::sign_msg *)
Definition sign (k : Z) (m : net_address) : entry :=
  {| ekey := k; emsg := m; esig := {| sg_key := k; sg_msg := m |} |}.

(* NetAddress::is_newer: (self.version, self.timestamp) > (b.version, b.timestamp) *)
Definition is_newer (a b : net_address) : bool :=
  (na_version b <? na_version a) ||
  ((na_version a =? na_version b) && (na_ts b <? na_ts a)).

(* im::HashMap<PublicKey, Arc<Signed<NetAddress>>>: association list kept in key order
   (canonical form; the harness prints the map sorted by key rank). The map key of an
   entry is always the entry's own key (insert(d.key.clone(), d.clone())). *)
Definition book := list entry.

Fixpoint get (k : Z) (b : book) : option entry :=
  match b with
  | [] => None
  | x :: b' => if ekey x =? k then Some x else get k b'
  end.

Fixpoint put (e : entry) (b : book) : book :=
  match b with
  | [] => [e]
  | x :: b' =>
      if ekey e <? ekey x then e :: b
      else if ekey e =? ekey x then e :: b'
      else x :: put e b'
  end.

Definition mem (k : Z) (l : list Z) : bool := existsb (Z.eqb k) l.

Inductive uerr := EDuplicate | EBadSig.

(* The loop of ValidatorAddrs::update.  [c] = keys of the schedule (validators.contains),
   [done] = the HashSet of keys already met in this batch, [changed] the flag.
   Returns the (possibly partially updated) map together with the result. *)
Fixpoint update_loop (c : list Z) (data : list entry) (done : list Z) (b : book) (changed : bool)
  : book * outcome uerr bool :=
  match data with
  | [] => (b, Ok changed)
  | d :: data' =>
      if mem (ekey d) done then (b, Err EDuplicate) else
      let done' := ekey d :: done in
      if negb (mem (ekey d) c) then update_loop c data' done' b changed else
      if match get (ekey d) b with
         | Some x => negb (is_newer (emsg d) (emsg x))
         | None => false
         end
      then update_loop c data' done' b changed
      else if verify d then update_loop c data' done' (put d b) true
      else (b, Err EBadSig)
  end.

Definition update (c : list Z) (data : list entry) (b : book) : book * outcome uerr bool :=
  update_loop c data [] b false.

(* ValidatorAddrsWatch::update: works on a clone, publishes it only on Ok(true). *)
Definition update_watch (c : list Z) (data : list entry) (pub : book) : book * outcome uerr unit :=
  let '(w, r) := update c data pub in
  match r with
  | Ok true => (w, Ok tt)
  | Ok false => (pub, Ok tt)
  | Err e => (pub, Err e)
  | Panic p => (pub, Panic p)
  end.

(* ValidatorAddrsWatch::announce: version = previous version + 1 (u64 addition of the build
   profile: [chk] = overflow checks on), or 0; signs with the node's own key, inserts. *)
Definition announce (chk : bool) (k addr ts : Z) (pub : book) : book * outcome uerr unit :=
  let v : outcome uerr Z :=
    match get k pub with
    | Some x => u64_add chk (na_version (emsg x)) 1
    | None => Ok 0
    end in
  match v with
  | Ok version =>
      (put (sign k {| na_addr := addr; na_version := version; na_ts := ts |}) pub, Ok tt)
  | Err e => (pub, Err e)
  | Panic p => (pub, Panic p)
  end.

(* What consensus::maintain_connection dials for [peer]. *)
Definition dial (b : book) (peer : Z) : option Z :=
  match get peer b with Some e => Some (na_addr (emsg e)) | None => None end.

(* Operations on one node's book. *)
Inductive op :=
| OUpdate (c : list Z) (d : list entry)      (* a push_validator_addrs request under schedule c *)
| OAnnounce (k addr ts : Z).                 (* the node announces its own address *)

Definition step (chk : bool) (b : book) (o : op) : book * outcome uerr unit :=
  match o with
  | OUpdate c d => update_watch c d b
  | OAnnounce k addr ts => announce chk k addr ts b
  end.

Fixpoint run (chk : bool) (b : book) (ops : list op) : book :=
  match ops with
  | [] => b
  | o :: ops' => run chk (fst (step chk b o)) ops'
  end.

(* ---- observation encoding for the correspondence ---- *)
Definition mk_entry (k addr ver ts sk saddr sver sts : Z) : entry :=
  {| ekey := k; emsg := {| na_addr := addr; na_version := ver; na_ts := ts |};
     esig := {| sg_key := sk; sg_msg := {| na_addr := saddr; na_version := sver; na_ts := sts |} |} |}.

Definition uerr_code (e : uerr) : Z := match e with EDuplicate => 1 | EBadSig => 2 end.

Definition obs_res (r : outcome uerr unit) : obsv :=
  match r with
  | Ok _ => OL [OZ 0]
  | Err e => OL [OZ 2; OZ (uerr_code e)]
  | Panic p => OL [OZ 1; OZ (panic_code p)]
  end.

Definition obs_book (b : book) : obsv :=
  OL (map (fun e => OL [OZ (ekey e); OZ (na_addr (emsg e)); OZ (na_version (emsg e));
                        OZ (na_ts (emsg e)); ob (verify e)]) b).

Fixpoint trace (chk : bool) (b : book) (ops : list op) : list obsv :=
  match ops with
  | [] => []
  | o :: ops' =>
      let '(b', r) := step chk b o in
      OL [obs_res r; obs_book b'] :: trace chk b' ops'
  end.

(* A case: the overflow mode of the build and the operations applied to a fresh book. *)
Definition run_case (c : bool * list op) : obsv :=
  let '(chk, ops) := c in OL (trace chk [] ops).

(* ------------------------------------------------------------------ *)
(* Gossip of the book: gossip/runner.rs (push loop of run_stream, PushServer) and the dial loop
   of consensus/mod.rs (maintain_connection). *)

(* ValidatorAddrs::get_newer: the entries of [new] that are newer than the entry of the same key
   in [old] (or have no entry there). *)
Definition get_newer (new old : book) : list entry :=
  filter (fun v => match get (ekey v) old with
                   | Some bv => is_newer (emsg v) (emsg bv)
                   | None => true
                   end) new.

(* One iteration of "Push validator addrs updates to peer" for a connection whose last pushed
   state is [old]:  diff = new.get_newer(&old); if diff.is_empty() { continue }; old = new; call. *)
Definition push_step (new old : book) : book * option (list entry) :=
  match get_newer new old with
  | [] => (old, None)
  | diff => (new, Some diff)
  end.

(* PushServer::handle for push_validator_addrs under schedule c: the response is () or the
   handler fails (the peer sees the stream closed). *)
Definition serve_push (c : list Z) (req : list entry) (b : book) : book * bool :=
  let '(b', r) := update_watch c req b in (b', is_ok r).

(* Deterministic execution of a small network for the correspondence: nodes with books, each with
   a scripted observer connection ([nobs] = what the node last pushed to it) and directed links
   between nodes. *)
Record link := { lsrc : nat; ldst : nat; lold : book }.
Record net := { nbooks : list book; nobs : list book; nlinks : list link }.

Fixpoint set_nth {A} (n : nat) (x : A) (l : list A) : list A :=
  match l, n with
  | [], _ => []
  | _ :: t, O => x :: t
  | h :: t, S n' => h :: set_nth n' x t
  end.
Definition bk (bs : list book) (i : nat) : book := nth i bs [].

Definition is_some {A} (o : option A) : bool := match o with Some _ => true | None => false end.

(* every node runs its push loop towards its observer *)
Fixpoint obs_round (books obs : list book) : list book * list (list entry) :=
  match books, obs with
  | b :: books', o :: obs' =>
      let '(o', d) := push_step b o in
      let '(os, ds) := obs_round books' obs' in
      (o' :: os, match d with Some diff => diff | None => [] end :: ds)
  | _, _ => ([], [])
  end.

(* every link runs its push loop once; a request is served by the destination at once *)
Fixpoint links_round (c : list Z) (books : list book) (ls : list link) : list book * list link * bool :=
  match ls with
  | [] => (books, [], false)
  | l :: ls' =>
      let '(old', d) := push_step (bk books (lsrc l)) (lold l) in
      let books' := match d with
                    | Some diff => set_nth (ldst l) (fst (serve_push c diff (bk books (ldst l)))) books
                    | None => books
                    end in
      let '(books'', ls'', ch) := links_round c books' ls' in
      (books'', {| lsrc := lsrc l; ldst := ldst l; lold := old' |} :: ls'', ch || is_some d)
  end.

Fixpoint app_each {A} (a b : list (list A)) : list (list A) :=
  match a, b with
  | x :: a', y :: b' => (x ++ y) :: app_each a' b'
  | _, [] => a
  | [], _ => b
  end.

(* rounds until no link has anything to push; returns what the observers received *)
Fixpoint settle (fuel : nat) (c : list Z) (n : net) (acc : list (list entry)) : net * list (list entry) * bool :=
  match fuel with
  | O => (n, acc, false)
  | S fuel' =>
      let '(obs', ds) := obs_round (nbooks n) (nobs n) in
      let '(books', links', ch) := links_round c (nbooks n) (nlinks n) in
      let n' := {| nbooks := books'; nobs := obs'; nlinks := links' |} in
      let acc' := app_each acc ds in
      if ch then settle fuel' c n' acc'
      else
        (* the links are quiet; the observers still have to hear of the last changes *)
        let '(obs'', ds') := obs_round books' obs' in
        ({| nbooks := books'; nobs := obs''; nlinks := links' |}, app_each acc' ds', true)
  end.

(* a request of the scripted peer to node i, then the exchange until quiescence *)
Definition inject (c : list Z) (i : nat) (d : list entry) (n : net) (acc : list (list entry))
  : net * list (list entry) * bool * bool :=
  let '(b', ok) := serve_push c d (bk (nbooks n) i) in
  let n1 := {| nbooks := set_nth i b' (nbooks n); nobs := nobs n; nlinks := nlinks n |} in
  let '(n2, acc', quiet) := settle 8 c n1 acc in
  (n2, acc', ok, quiet).

(* canonical order of a list of entries: by (key, version, timestamp, address) *)
Definition entry_leb (a b : entry) : bool :=
  if ekey a =? ekey b then
    if na_version (emsg a) =? na_version (emsg b) then
      if na_ts (emsg a) =? na_ts (emsg b) then na_addr (emsg a) <=? na_addr (emsg b)
      else na_ts (emsg a) <? na_ts (emsg b)
    else na_version (emsg a) <? na_version (emsg b)
  else ekey a <? ekey b.
Fixpoint insert_entry (e : entry) (l : list entry) : list entry :=
  match l with
  | [] => [e]
  | x :: l' => if entry_leb e x then e :: l else x :: insert_entry e l'
  end.
Definition sort_entries (l : list entry) : list entry := fold_right insert_entry [] l.

(* consensus::maintain_connection of a validator node with own key [self]: which addresses it
   newly dials when its book goes from [b] to [b'] (for every other member of the schedule, the
   address of the book if it differs from the one it had). *)
Definition new_dials (c : list Z) (self : Z) (b b' : book) : list Z :=
  flat_map (fun k => if k =? self then [] else
                     match dial b' k with
                     | Some a => if match dial b k with Some a0 => a0 =? a | None => false end
                                 then [] else [a]
                     | None => []
                     end) c.

Fixpoint insert_z (x : Z) (l : list Z) : list Z :=
  match l with
  | [] => [x]
  | y :: l' => if x <? y then x :: l else if x =? y then l else y :: insert_z x l'
  end.

(* One scripted case: committee, number of nodes (node 0 keeps a connection to node 1 over which
   both push), the own validator key of node 0 if it dials, the barrier announcements' key and
   address, and the requests (target node, batch).  Every request is followed by the barrier
   announcement of version (index + 1). *)
Record net_case := {
  nc_committee : list Z; nc_nodes : nat; nc_dialer : option Z;
  nc_sentinel : Z; nc_sentinel_addr : Z; nc_ops : list (nat * list entry) }.

Fixpoint run_net_ops (nc : net_case) (ver : Z) (n : net) (ops : list (nat * list entry)) : list obsv * net :=
  match ops with
  | [] => ([], n)
  | (i, d) :: ops' =>
      let c := nc_committee nc in
      let b0 := bk (nbooks n) 0 in
      let '(n1, acc1, ok, q1) := inject c i d n (map (fun _ => []) (nbooks n)) in
      let s := sign (nc_sentinel nc) {| na_addr := nc_sentinel_addr nc; na_version := ver; na_ts := 0 |} in
      let '(n2, acc2, ok2, q2) := inject c i [s] n1 acc1 in
      let dials := match nc_dialer nc with
                   | Some self => fold_right insert_z [] (new_dials c self b0 (bk (nbooks n2) 0))
                   | None => []
                   end in
      let o := OL [ OZ (if ok then 0 else 1);
                    OL (map (fun l => obs_book (sort_entries l)) acc2);
                    ozs dials;
                    ob (ok2 && q1 && q2) ] in
      let '(os, n3) := run_net_ops nc (ver + 1) n2 ops' in
      (o :: os, n3)
  end.

Definition run_net_case (nc : net_case) : obsv :=
  let books := repeat ([] : book) (nc_nodes nc) in
  let links := match nc_nodes nc with
               | 2%nat => [ {| lsrc := 0; ldst := 1; lold := [] |}; {| lsrc := 1; ldst := 0; lold := [] |} ]
               | _ => []
               end in
  let '(os, n) := run_net_ops nc 1 {| nbooks := books; nobs := books; nlinks := links |} (nc_ops nc) in
  OL [OL os; OL (map obs_book (nbooks n))].

(* ------------------------------------------------------------------ *)
(* Concurrent use (H-ATOM): announce and update each run under the sender lock of the watch, so
   threads calling them concurrently must behave like SOME interleaving of the atomic steps above
   that respects each thread's program order. *)

(* every way to take the next step: (the op, the remaining threads) *)
Fixpoint picks {A} (pre : list (list A)) (ts : list (list A)) : list (A * list (list A)) :=
  match ts with
  | [] => []
  | t :: rest =>
      match t with
      | [] => []
      | x :: t' => [(x, rev_append pre (t' :: rest))]
      end ++ picks (t :: pre) rest
  end.

(* books after every prefix of every interleaving *)
Fixpoint lin_reach (fuel : nat) (chk : bool) (b : book) (ts : list (list op)) : list book :=
  b :: match fuel with
       | O => []
       | S f => flat_map (fun p => lin_reach f chk (fst (step chk b (fst p))) (snd p)) (picks [] ts)
       end.

(* books after every complete interleaving *)
Fixpoint lin_finals (fuel : nat) (chk : bool) (b : book) (ts : list (list op)) : list book :=
  match fuel with
  | O => [b]
  | S f =>
      match picks [] ts with
      | [] => [b]
      | ps => flat_map (fun p => lin_finals f chk (fst (step chk b (fst p))) (snd p)) ps
      end
  end.

(* A concurrent case: overflow mode, a sequential prefix, the threads, the final books and the
   published books observed on the implementation.  Result: for each observed final book whether
   some linearisation ends in it, for each observed published book whether some linearisation
   passes through it. *)
Definition run_lin_case (c : bool * list op * list (list op) * list obsv * list obsv) : obsv :=
  let '(chk, init, ts, fins, samples) := c in
  let b0 := run chk [] init in
  let fuel := length (concat ts) in
  let fs := map obs_book (lin_finals fuel chk b0 ts) in
  let rs := map obs_book (lin_reach fuel chk b0 ts) in
  OL [ OL (map (fun o => ob (existsb (obsv_eqb o) fs)) fins);
       OL (map (fun o => ob (existsb (obsv_eqb o) rs)) samples) ].
