(* C17 — model of zksync_concurrency::scope (scope/{mod,state,task}.rs), ctx cancellation
   (ctx/mod.rs) and signal::Once, as a labelled transition system over task-tree programs.

   A program is a table of tasks. Task t runs the action list [td_acts]; its id is its index;
   a scope is identified by the id of its root task; task 0 is the root of the top scope.
   The state carries, per scope, exactly the fields of scope::State plus the two Arc strong
   counts: [cancel_rc] = strong count of Arc<CancelGuard>, [terminate_rc] = strong count of
   Arc<TerminateGuard>, [s_err] = State::err, [s_cancelled] = ctx.canceled signal,
   [s_terminated] = State::terminated signal.

   [exec p st l] is the step function: [Some st'] iff label l is enabled in st. An execution
   under an arbitrary thread schedule is an arbitrary list of enabled labels.  Visible labels
   are the events the Rust harness logs; hidden labels are what scope/task.rs does after the
   task body returned (set_err, guard drop) and the ctx watcher tasks (ctx/mod.rs:131-156).

   Granularity (H-ATOM): each label is atomic. In particular
   - Scope::run's "make guards; spawn root; drop(guard)" is one step ([LNested]/[init]): between
     the first and the last of these only the root task itself can touch the counts, and it
     holds its own CancelGuard, so no count can reach 0 in between;
   - dropping the last Arc<CancelGuard> runs CancelGuard::drop (ctx.cancel()) and then drops
     the inner Arc<TerminateGuard> in the same step;
   - TerminateGuard::set_err runs under State::err's mutex.
   Async and blocking tasks (Task::run / Task::run_blocking) are line by line identical and
   share one transition. *)
From Coq Require Import ZArith List Bool Arith Lia.
From EC Require Import Lib.Obs.
Import ListNotations.
Open Scope nat_scope.

Inductive act : Type :=
| ASpawn (c : nat)              (* s.spawn / spawn_bg / spawn_blocking / spawn_bg_blocking of task c *)
| ANested (r : nat) (dl : bool) (* scope::run!/run_blocking! with root task r; dl: on ctx.with_deadline(D) *)
| AAwaitCancel                  (* ctx.canceled().await *)
| AJoin (c : nat)               (* handle_of_c.join(ctx).await *)
| ACancel                       (* s.cancel() *)
| AFail (e : Z)                 (* return Err(e) *)
| APanic.                       (* panic!() *)

Record taskdef := { td_scope : nat; td_main : bool; td_acts : list act }.
Definition prog := list taskdef.
Definition dflt_td := {| td_scope := 0; td_main := false; td_acts := [] |}.
Definition tdef (p : prog) (t : nat) : taskdef := nth t p dflt_td.
Definition scope_of (p : prog) (t : nat) : nat := td_scope (tdef p t).

Definition wf_prog (p : prog) : bool :=
  forallb (fun td => td_scope td <? length p) p.

(* result of a task body / of a scope *)
Inductive tres : Type := ROk | RErr (e : Z) | RPanic.

Inductive phase : Type :=
| PNew                 (* not spawned *)
| PRun (pc : nat)      (* body running, next action pc *)
| PWaitRet (pc : nat)  (* inside a nested run!() started by action pc *)
| PMustEnd (r : tres)  (* body is returning r (error of a nested scope via `?`, or unwinding) *)
| PEnded (r : tres)    (* body returned r; Task::run has not yet reported / dropped its guard *)
| PErrSet (r : tres)   (* set_err done, guard still held *)
| PDone (r : tres).    (* guard dropped, JoinHandle resolved *)

Record tstate := { ph : phase; gmain : bool (* holds Arc<CancelGuard> (Task::Main) *) }.
Definition dflt_ts := {| ph := PNew; gmain := false |}.

Inductive serr : Type := ENone | EErr (e : Z) | EPanic.

Record sstate := {
  s_started : bool;
  s_parent : option nat;   (* scope whose ctx is the parent of this scope's ctx; None = caller of the top scope *)
  s_caller : option nat;   (* task that awaits run!() *)
  s_dl : bool;             (* ctx created below a with_deadline(D) context *)
  cancel_rc : nat;
  terminate_rc : nat;
  s_err : serr;
  s_cancelled : bool;
  s_terminated : bool;
  s_returned : bool }.
Definition dflt_ss := {| s_started := false; s_parent := None; s_caller := None; s_dl := false;
  cancel_rc := 0; terminate_rc := 0; s_err := ENone; s_cancelled := false;
  s_terminated := false; s_returned := false |}.

Record state := { tasks : list tstate; scopes : list sstate; ext : bool }.

Fixpoint upd {A} (i : nat) (x : A) (l : list A) : list A :=
  match l, i with
  | [], _ => []
  | _ :: l', O => x :: l'
  | y :: l', S i' => y :: upd i' x l'
  end.

Definition tget (st : state) (t : nat) : tstate := nth t (tasks st) dflt_ts.
Definition sget (st : state) (s : nat) : sstate := nth s (scopes st) dflt_ss.
Definition tset (st : state) (t : nat) (x : tstate) : state :=
  {| tasks := upd t x (tasks st); scopes := scopes st; ext := ext st |}.
Definition sset (st : state) (s : nat) (x : sstate) : state :=
  {| tasks := tasks st; scopes := upd s x (scopes st); ext := ext st |}.
Definition set_ph (st : state) (t : nat) (q : phase) : state :=
  tset st t {| ph := q; gmain := gmain (tget st t) |}.

(* ---- scope/state.rs ---- *)
Definition ss_cancel (ss : sstate) : sstate :=
  {| s_started := s_started ss; s_parent := s_parent ss; s_caller := s_caller ss; s_dl := s_dl ss;
     cancel_rc := cancel_rc ss; terminate_rc := terminate_rc ss; s_err := s_err ss;
     s_cancelled := true; s_terminated := s_terminated ss; s_returned := s_returned ss |}.
Definition ss_set_err (ss : sstate) (e : serr) : sstate :=
  {| s_started := s_started ss; s_parent := s_parent ss; s_caller := s_caller ss; s_dl := s_dl ss;
     cancel_rc := cancel_rc ss; terminate_rc := terminate_rc ss; s_err := e;
     s_cancelled := true; s_terminated := s_terminated ss; s_returned := s_returned ss |}.
Definition ss_rc (ss : sstate) (c t : nat) (canc term : bool) : sstate :=
  {| s_started := s_started ss; s_parent := s_parent ss; s_caller := s_caller ss; s_dl := s_dl ss;
     cancel_rc := c; terminate_rc := t; s_err := s_err ss;
     s_cancelled := canc; s_terminated := term; s_returned := s_returned ss |}.
Definition ss_return (ss : sstate) : sstate :=
  {| s_started := s_started ss; s_parent := s_parent ss; s_caller := s_caller ss; s_dl := s_dl ss;
     cancel_rc := cancel_rc ss; terminate_rc := terminate_rc ss; s_err := s_err ss;
     s_cancelled := s_cancelled ss; s_terminated := s_terminated ss; s_returned := true |}.
Definition ss_start (parent caller : option nat) (dl : bool) : sstate :=
  {| s_started := true; s_parent := parent; s_caller := caller; s_dl := dl;
     cancel_rc := 1; terminate_rc := 1; s_err := ENone; s_cancelled := false;
     s_terminated := false; s_returned := false |}.

(* TerminateGuard::set_err: a panic overrides an error, nothing else is overridden; the context
   is cancelled in the same critical section in which the error is stored. *)
Definition set_err (ss : sstate) (r : tres) : sstate :=
  match s_err ss, r with
  | _, ROk => ss
  | EPanic, _ => ss
  | EErr _, RErr _ => ss
  | _, RErr e => ss_set_err ss (EErr e)
  | _, RPanic => ss_set_err ss EPanic
  end.

(* drop of the Arc held by a task: Task::Main holds Arc<CancelGuard>, Task::Background holds
   Arc<TerminateGuard>. CancelGuard::drop cancels the ctx and releases its TerminateGuard;
   TerminateGuard::drop sends `terminated`. *)
Definition drop_guard (ss : sstate) (main : bool) : sstate :=
  if main then
    let c := cancel_rc ss - 1 in
    if c =? 0 then
      let t := terminate_rc ss - 1 in
      ss_rc ss 0 t true ((t =? 0) || s_terminated ss)
    else ss_rc ss c (terminate_rc ss) (s_cancelled ss) (s_terminated ss)
  else
    let t := terminate_rc ss - 1 in
    ss_rc ss (cancel_rc ss) t (s_cancelled ss) ((t =? 0) || s_terminated ss).

(* Scope::main_task / bg_task: Weak::upgrade of the CancelGuard succeeds iff its strong count
   is positive; otherwise the task becomes a background task. Returns (state, is_main). *)
Definition take_guard (ss : sstate) (want_main : bool) : sstate * bool :=
  if want_main && (0 <? cancel_rc ss)
  then (ss_rc ss (S (cancel_rc ss)) (terminate_rc ss) (s_cancelled ss) (s_terminated ss), true)
  else (ss_rc ss (cancel_rc ss) (S (terminate_rc ss)) (s_cancelled ss) (s_terminated ss), false).

(* value returned by Scope::run after `terminated`: state.take_err() *)
Definition scope_result (st : state) (r : nat) : tres :=
  match s_err (sget st r) with
  | EErr e => RErr e
  | EPanic => RPanic
  | ENone => match ph (tget st r) with
             | PDone ROk => ROk
             | _ => RPanic  (* root_task_result.unwrap() on a missing value *)
             end
  end.

Inductive jout : Type := JOk | JCanceled | JPanic.

Inductive label : Type :=
(* visible: logged by the harness *)
| LSpawn (t c : nat)
| LNested (t r : nat)
| LObs (t : nat)
| LJoin (t c : nat) (o : jout)
| LCancel (t : nat)
| LEnd (t : nat) (r : tres)
| LRet (r : nat) (res : tres)
| LExt
(* hidden *)
| LSetErr (t : nat) (r : tres)   (* TerminateGuard::set_err(r) by Task::run of t / its PanicReporter *)
| LDrop (t : nat)
| LProp (s : nat).

Definition is_visible (l : label) : bool :=
  match l with LSetErr _ _ | LDrop _ | LProp _ => false | _ => true end.

Definition tres_eqb (a b : tres) : bool :=
  match a, b with
  | ROk, ROk => true | RPanic, RPanic => true | RErr x, RErr y => Z.eqb x y | _, _ => false
  end.

Definition cur_act (p : prog) (st : state) (t : nat) : option (nat * option act) :=
  match ph (tget st t) with
  | PRun pc => Some (pc, nth_error (td_acts (tdef p t)) pc)
  | _ => None
  end.

Definition parent_cancelled (st : state) (ss : sstate) : bool :=
  match s_parent ss with
  | None => ext st
  | Some q => s_cancelled (sget st q)
  end.

Definition exec (p : prog) (st : state) (l : label) : option state :=
  match l with
  | LSpawn t c =>
      match cur_act p st t with
      | Some (pc, Some (ASpawn c')) =>
          let s := scope_of p t in
          if (c =? c') && (c <? length (tasks st)) && (scope_of p c =? s)
             && match ph (tget st c) with PNew => true | _ => false end
          then
            let (ss, m) := take_guard (sget st s) (td_main (tdef p c)) in
            let st1 := sset st s ss in
            let st2 := tset st1 c {| ph := PRun 0; gmain := m |} in
            Some (set_ph st2 t (PRun (S pc)))
          else None
      | _ => None
      end
  | LNested t r =>
      match cur_act p st t with
      | Some (pc, Some (ANested r' dl)) =>
          if (r =? r') && (r <? length (tasks st)) && (scope_of p r =? r)
             && negb (s_started (sget st r))
             && match ph (tget st r) with PNew => true | _ => false end
          then
            let st1 := sset st r (ss_start (Some (scope_of p t)) (Some t) dl) in
            let st2 := tset st1 r {| ph := PRun 0; gmain := true |} in
            Some (set_ph st2 t (PWaitRet pc))
          else None
      | _ => None
      end
  | LObs t =>
      match cur_act p st t with
      | Some (pc, Some AAwaitCancel) =>
          if s_cancelled (sget st (scope_of p t)) then Some (set_ph st t (PRun (S pc))) else None
      | _ => None
      end
  | LJoin t c o =>
      match cur_act p st t with
      | Some (pc, Some (AJoin c')) =>
          if c =? c' then
            match o with
            | JOk => match ph (tget st c) with
                     | PDone ROk => Some (set_ph st t (PRun (S pc)))
                     | _ => None
                     end
            | JCanceled => if s_cancelled (sget st (scope_of p t))
                           then Some (set_ph st t (PRun (S pc))) else None
            | JPanic => match ph (tget st c) with
                        | PDone RPanic => Some (set_ph st t (PMustEnd RPanic))
                        | _ => None
                        end
            end
          else None
      | _ => None
      end
  | LCancel t =>
      match cur_act p st t with
      | Some (pc, Some ACancel) =>
          let s := scope_of p t in
          Some (set_ph (sset st s (ss_cancel (sget st s))) t (PRun (S pc)))
      | _ => None
      end
  | LEnd t r =>
      match ph (tget st t) with
      | PRun pc =>
          match nth_error (td_acts (tdef p t)) pc, r with
          | None, ROk => Some (set_ph st t (PEnded ROk))
          | Some (AFail e), RErr e' => if Z.eqb e e' then Some (set_ph st t (PEnded r)) else None
          | Some APanic, RPanic => Some (set_ph st t (PEnded RPanic))
          | _, _ => None
          end
      | PMustEnd r' => if tres_eqb r r' then Some (set_ph st t (PEnded r)) else None
      | _ => None
      end
  | LRet r res =>
      let ss := sget st r in
      if s_started ss && s_terminated ss && negb (s_returned ss)
         && tres_eqb res (scope_result st r)
      then
        let st1 := sset st r (ss_return ss) in
        match s_caller ss with
        | None => Some st1
        | Some t =>
            match ph (tget st t) with
            | PWaitRet pc =>
                Some (set_ph st1 t (match res with ROk => PRun (S pc) | _ => PMustEnd res end))
            | _ => None
            end
        end
      else None
  | LExt => Some {| tasks := tasks st; scopes := scopes st; ext := true |}
  | LSetErr t r =>
      match ph (tget st t) with
      | PEnded r' =>
          if tres_eqb r r' && negb (tres_eqb r ROk) then
            let s := scope_of p t in
            Some (set_ph (sset st s (set_err (sget st s) r)) t (PErrSet r))
          else None
      | _ => None
      end
  | LDrop t =>
      let go r :=
        let s := scope_of p t in
        Some (set_ph (sset st s (drop_guard (sget st s) (gmain (tget st t)))) t (PDone r)) in
      match ph (tget st t) with
      | PEnded ROk => go ROk
      | PErrSet r => go r
      | _ => None
      end
  | LProp s =>
      let ss := sget st s in
      if s_started ss && negb (s_cancelled ss)
         && (parent_cancelled st ss || (s_dl ss && ext st))
      then Some (sset st s (ss_cancel ss)) else None
  end.

Fixpoint run (p : prog) (st : state) (ls : list label) : option state :=
  match ls with
  | [] => Some st
  | l :: ls' => match exec p st l with Some st' => run p st' ls' | None => None end
  end.

(* the harness calls scope::run!(&dctx, root = task 0) where dctx = root.with_deadline(D) *)
Definition init (p : prog) : state :=
  let n := length p in
  {| tasks := upd 0 {| ph := PRun 0; gmain := true |} (repeat dflt_ts n);
     scopes := upd 0 (ss_start None None false) (repeat dflt_ss n);
     ext := false |}.

Definition reachable (p : prog) (st : state) : Prop := exists ls, run p (init p) ls = Some st.

(* ---------------------------------------------------------------------------------------
   Trace acceptance: replays a log of visible labels, inserting the hidden steps as early as
   they are enabled (every hidden step only enables more visible ones), except that in a scope
   whose run!() returned Err of task w (hint list [win]) the set_err of the other failing
   tasks waits for w's. *)
Fixpoint lookup (k : nat) (l : list (nat * nat)) : option nat :=
  match l with
  | [] => None
  | (a, b) :: l' => if a =? k then Some b else lookup k l'
  end.

Definition allowed (p : prog) (win : list (nat * nat)) (st : state) (t : nat) : bool :=
  match lookup (scope_of p t) win with
  | None => true
  | Some w => (w =? t) || match ph (tget st w) with PErrSet _ | PDone _ => true | _ => false end
  end.

Definition hidden_task (p : prog) (win : list (nat * nat)) (st : state) (t : nat) : option label :=
  match ph (tget st t) with
  | PEnded ROk => Some (LDrop t)
  | PEnded r => if allowed p win st t then Some (LSetErr t r) else None
  | PErrSet _ => Some (LDrop t)
  | _ => None
  end.

Definition acc_t : Type := state * list label * bool.

Definition try_label (p : prog) (a : acc_t) (l : label) : acc_t :=
  let '(st, ls, ch) := a in
  match exec p st l with
  | Some st' => (st', l :: ls, true)
  | None => a
  end.

Definition try_hidden_task (p : prog) (win : list (nat * nat)) (a : acc_t) (t : nat) : acc_t :=
  match hidden_task p win (fst (fst a)) t with
  | Some l => try_label p a l
  | None => a
  end.

Fixpoint sweep (p : prog) (win : list (nat * nat)) (ids : list nat) (a : acc_t) : acc_t :=
  match ids with
  | [] => a
  | t :: ids' =>
      let a1 := try_hidden_task p win a t in
      let a2 := try_hidden_task p win a1 t in
      let a3 := try_label p a2 (LProp t) in
      sweep p win ids' a3
  end.

Fixpoint saturate (p : prog) (win : list (nat * nat)) (fuel : nat) (st : state) (ls : list label)
  : state * list label :=
  match fuel with
  | O => (st, ls)
  | S f =>
      let '(st', ls', ch) := sweep p win (seq 0 (length p)) (st, ls, false) in
      if ch then saturate p win f st' ls' else (st', ls')
  end.

Inductive verdict : Type :=
| Accept (st : state) (rev_labels : list label)
| Reject (idx : Z) (st : state).

Fixpoint replay_from (p : prog) (win : list (nat * nat)) (log : list label) (idx : Z)
  (st : state) (ls : list label) : verdict :=
  match log with
  | [] => Accept st ls
  | l :: log' =>
      if is_visible l then
        match exec p st l with
        | Some st1 =>
            let (st2, ls2) := saturate p win (3 * length p + 3) st1 (l :: ls) in
            replay_from p win log' (idx + 1)%Z st2 ls2
        | None => Reject idx st
        end
      else Reject idx st
  end.

Definition replay (p : prog) (win : list (nat * nat)) (log : list label) : verdict :=
  if wf_prog p && (0 <? length p) && (scope_of p 0 =? 0) then
    let (st0, ls0) := saturate p win (3 * length p + 3) (init p) [] in
    replay_from p win log 0%Z st0 ls0
  else Reject (-1)%Z (init p).

(* ---- observation for the correspondence ---- *)
Definition tres_obs (r : tres) : obsv :=
  match r with
  | ROk => OL [OZ 0%Z; OZ 0%Z]
  | RErr e => OL [OZ 1%Z; OZ e]
  | RPanic => OL [OZ 2%Z; OZ 0%Z]
  end.

(* some task could take a visible step (used to judge a stall of the implementation) *)
Definition task_enabled (p : prog) (st : state) (t : nat) : bool :=
  match ph (tget st t) with
  | PRun pc =>
      match nth_error (td_acts (tdef p t)) pc with
      | Some AAwaitCancel => s_cancelled (sget st (scope_of p t))
      | Some (AJoin c) => s_cancelled (sget st (scope_of p t))
                          || match ph (tget st c) with PDone ROk | PDone RPanic => true | _ => false end
      | Some (ANested _ _) => true
      | _ => true
      end
  | PWaitRet _ => false
  | PMustEnd _ => true
  | _ => false
  end.
Definition ret_enabled (st : state) (r : nat) : bool :=
  let ss := sget st r in s_started ss && s_terminated ss && negb (s_returned ss).
Definition model_stuck (p : prog) (st : state) : bool :=
  forallb (fun t => negb (task_enabled p st t) && negb (ret_enabled st t)) (seq 0 (length p)).

Definition count_phase (f : phase -> bool) (st : state) : Z :=
  Z.of_nat (length (filter (fun ts => f (ph ts)) (tasks st))).

(* input: (program, winner hints, log).  observation:
   [accepted; index of the rejected event or -1; result of the top scope ([3,0] = not returned);
    number of tasks that ran to completion (guard dropped)] *)
Definition run_case (inp : prog * list (nat * nat) * list label) : obsv :=
  let '(p, win, log) := inp in
  match replay p win log with
  | Accept st ls =>
      OL [OZ 1%Z; OZ (-1)%Z;
          (if s_returned (sget st 0) then tres_obs (scope_result st 0) else OL [OZ 3%Z; OZ 0%Z]);
          OZ (count_phase (fun q => match q with PDone _ => true | _ => false end) st)]
  | Reject idx st =>
      OL [OZ 0%Z; OZ idx;
          (if s_returned (sget st 0) then tres_obs (scope_result st 0) else OL [OZ 3%Z; OZ 0%Z]);
          OZ (count_phase (fun q => match q with PDone _ => true | _ => false end) st)]
  end.
