(* Typed layer, part 2: the remaining wire / storage types, transcribed from their ProtoFmt /
   ProtoRepr impls.  A built message is written as [flatten [(field number, values); ...]] in
   ascending field order, mirroring the `Self::Proto { field: ..., ... }` literal of the Rust
   `build` (Some(x) -> [x], None -> [], Vec -> one value per element).

   roles/src/validator/messages/{v2/leader_proposal, v2/replica_new_view, v2/consensus, consensus,
     msg, discovery, block, v2/block, state, v2/state, schedule, genesis}.rs, keys/*.rs,
   roles/src/node/{messages,keys}.rs,
   network/src/{gossip/handshake, consensus/handshake, preface, rpc/*}.rs.
   Keys, signatures and the semver string are opaque byte strings with a validity predicate
   ([oracles]).  mux::Handshake is not modelled here (its encoder iterates a HashMap). *)
From Coq Require Import String ZArith List Bool Lia.
From EC Require Import Lib.Obs Lib.Outcome Model.Wire Model.ProtoSchema Model.ProtoTyped Gen.Schema.
Import ListNotations.
Open Scope list_scope.
Open Scope Z_scope.

Definition flatten (segs : list (Z * list dval)) : dmsg :=
  flat_map (fun s : Z * list dval => map (pair (fst s)) (snd s)) segs.
Definition ovals {A : Type} (f : A -> dval) (o : option A) : list dval :=
  match o with Some a => [f a] | None => [] end.

(* read_required / read_optional / repeated of a sub-message *)
Definition sub {A : Type} (f : dmsg -> res A) (n : Z) (d : dmsg) : res A :=
  let* m := req_msg n d in f m.
Definition sub_rep {A : Type} (f : dmsg -> res A) (n : Z) (d : dmsg) : res (list A) :=
  map_outcome (fun v => match v with DMsg es => f es | _ => err end) (get_all n d).
Definition opt_bytes (n : Z) (d : dmsg) : res (option bytes) :=
  match get1 n d with Some (DBytes b) => Ok (Some b) | None => Ok None | _ => err end.
(* a oneof: the arm that occurs last on the wire *)
Definition pick (arms : list Z) (d : dmsg) : option (Z * dval) :=
  last (map Some (filter (fun e : Z * dval => existsb (Z.eqb (fst e)) arms) d)) None.

Definition u64_max : Z := two64 - 1.

Record oracles : Type := {
  agg_ok : bytes -> bool;    (* validator::AggregateSignature decodes *)
  vpk_ok : bytes -> bool;    (* validator::PublicKey *)
  vsig_ok : bytes -> bool;   (* validator::Signature *)
  npk_ok : bytes -> bool;    (* node::PublicKey *)
  nsig_ok : bytes -> bool;   (* node::Signature *)
  ver_ok : bytes -> bool     (* semver::Version parses and prints back identically *)
}.

(* a message with one validated `bytes` field number 1 (PublicKey, Signature, ...) *)
Definition build_key (k : bytes) : dmsg := flatten [(1, [DBytes k])].
Definition read_key (ok : bytes -> bool) (d : dmsg) : res bytes :=
  let* k := req_bytes 1 d in if ok k then Ok k else err.

Section Typed2.
  Variable O : oracles.

  (* ---- ProposalJustification, LeaderProposal, ReplicaNewView ---- *)
  Inductive Justification : Type :=
  | JCommit (q : CommitQC)
  | JTimeout (q : TimeoutQC).
  Definition build_justification (j : Justification) : dmsg :=
    match j with
    | JCommit q => flatten [(1, [DMsg (build_commit_qc q)])]
    | JTimeout q => flatten [(2, [DMsg (build_timeout_qc q)])]
    end.
  (* anyhow::ensure!(qc_view.0 < u64::MAX) (repair b4a462d) *)
  Definition read_justification (d : dmsg) : res Justification :=
    match pick [1; 2] d with
    | Some (k, DMsg es) =>
        if k =? 1 then
          let* q := read_commit_qc (agg_ok O) es in
          if v_number (rc_view (cq_msg q)) <? u64_max then Ok (JCommit q) else err
        else
          let* q := read_timeout_qc (agg_ok O) es in
          if v_number (tq_view q) <? u64_max then Ok (JTimeout q) else err
    | _ => err
    end.

  Record LeaderProposal : Type := { lp_payload : option bytes; lp_justification : Justification }.
  Definition build_leader_proposal (p : LeaderProposal) : dmsg :=
    flatten [(1, ovals DBytes (lp_payload p)); (2, [DMsg (build_justification (lp_justification p))])].
  Definition read_leader_proposal (d : dmsg) : res LeaderProposal :=
    let* p := opt_bytes 1 d in
    let* j := sub read_justification 2 d in
    Ok {| lp_payload := p; lp_justification := j |}.

  Definition build_new_view (j : Justification) : dmsg := flatten [(1, [DMsg (build_justification j)])].
  Definition read_new_view (d : dmsg) : res Justification := sub read_justification 1 d.

  (* ---- ChonkyMsg, ConsensusMsg ---- *)
  Inductive ChonkyMsg : Type :=
  | CReplicaCommit (c : ReplicaCommit)
  | CReplicaTimeout (t : ReplicaTimeout)
  | CReplicaNewView (j : Justification)
  | CLeaderProposal (p : LeaderProposal).
  Definition build_chonky (m : ChonkyMsg) : dmsg :=
    match m with
    | CReplicaCommit c => flatten [(1, [DMsg (build_commit c)])]
    | CReplicaTimeout t => flatten [(2, [DMsg (build_timeout t)])]
    | CReplicaNewView j => flatten [(3, [DMsg (build_new_view j)])]
    | CLeaderProposal p => flatten [(4, [DMsg (build_leader_proposal p)])]
    end.
  Definition read_chonky (d : dmsg) : res ChonkyMsg :=
    match pick [1; 2; 3; 4] d with
    | Some (k, DMsg es) =>
        if k =? 1 then let* c := read_commit es in Ok (CReplicaCommit c)
        else if k =? 2 then let* t := read_timeout (agg_ok O) es in Ok (CReplicaTimeout t)
        else if k =? 3 then let* j := read_new_view es in Ok (CReplicaNewView j)
        else let* p := read_leader_proposal es in Ok (CLeaderProposal p)
    | _ => err
    end.

  (* enum ConsensusMsg { V2(ChonkyMsg) }, field 8 *)
  Definition build_consensus_msg (m : ChonkyMsg) : dmsg := flatten [(8, [DMsg (build_chonky m)])].
  Definition read_consensus_msg (d : dmsg) : res ChonkyMsg :=
    match pick [8] d with
    | Some (_, DMsg es) => read_chonky es
    | _ => err
    end.

  (* ---- NetAddress ---- *)
  Record NetAddress : Type := { na_addr : sockaddr; na_version : Z; na_timestamp : Z (* ns since epoch *) }.
  (* Utc::build on a value of the domain; the overflow panic is the Duration-level model's *)
  Definition build_ts (tn : Z) : dmsg := match build_timestamp true tn with Ok d => d | _ => [] end.
  Definition build_net_address (a : NetAddress) : dmsg :=
    flatten [(1, [DMsg (build_sockaddr (na_addr a))]); (2, [DVar (na_version a)]);
             (3, [DMsg (build_ts (na_timestamp a))])].
  Definition read_net_address (d : dmsg) : res NetAddress :=
    let* a := sub read_sockaddr 1 d in
    let* v := req_var 2 d in
    let* t := sub read_timestamp 3 d in
    Ok {| na_addr := a; na_version := v; na_timestamp := t |}.

  (* ---- validator::Msg, Signed<V> ---- *)
  Inductive Msg : Type :=
  | MConsensus (m : ChonkyMsg)
  | MSessionId (s : bytes)
  | MNetAddress (a : NetAddress).
  Definition build_msg (m : Msg) : dmsg :=
    match m with
    | MConsensus c => flatten [(1, [DMsg (build_consensus_msg c)])]
    | MSessionId s => flatten [(2, [DBytes s])]
    | MNetAddress a => flatten [(3, [DMsg (build_net_address a)])]
    end.
  Definition read_msg (d : dmsg) : res Msg :=
    match pick [1; 2; 3] d with
    | Some (k, DMsg es) =>
        if k =? 1 then let* c := read_consensus_msg es in Ok (MConsensus c)
        else if k =? 3 then let* a := read_net_address es in Ok (MNetAddress a)
        else err
    | Some (k, DBytes s) => if k =? 2 then Ok (MSessionId s) else err
    | _ => err
    end.

  (* which variant a Signed<V> carries: V::extract fails on the others *)
  Inductive variant : Type := VConsensus | VSessionId | VNetAddress.
  Definition is_variant (w : variant) (m : Msg) : bool :=
    match w, m with
    | VConsensus, MConsensus _ | VSessionId, MSessionId _ | VNetAddress, MNetAddress _ => true
    | _, _ => false
    end.
  Record Signed : Type := { s_msg : Msg; s_key : bytes; s_sig : bytes }.
  Definition build_signed (s : Signed) : dmsg :=
    flatten [(1, [DMsg (build_msg (s_msg s))]); (2, [DMsg (build_key (s_key s))]); (3, [DMsg (build_key (s_sig s))])].
  Definition read_signed (w : variant) (d : dmsg) : res Signed :=
    let* m := sub read_msg 1 d in
    if negb (is_variant w m) then err else
    let* k := sub (read_key (vpk_ok O)) 2 d in
    let* g := sub (read_key (vsig_ok O)) 3 d in
    Ok {| s_msg := m; s_key := k; s_sig := g |}.

  (* ---- blocks ---- *)
  Record FinalBlock : Type := { fb_payload : bytes; fb_justification : CommitQC }.
  Definition build_final_block (b : FinalBlock) : dmsg :=
    flatten [(1, [DBytes (fb_payload b)]); (2, [DMsg (build_commit_qc (fb_justification b))])].
  Definition read_final_block (d : dmsg) : res FinalBlock :=
    let* p := req_bytes 1 d in
    let* j := sub (read_commit_qc (agg_ok O)) 2 d in
    Ok {| fb_payload := p; fb_justification := j |}.

  Record PreGenesisBlock : Type := { pg_number : Z; pg_payload : bytes; pg_justification : bytes }.
  Definition build_pre_genesis (b : PreGenesisBlock) : dmsg :=
    flatten [(1, [DVar (pg_number b)]); (2, [DBytes (pg_payload b)]); (3, [DBytes (pg_justification b)])].
  Definition read_pre_genesis (d : dmsg) : res PreGenesisBlock :=
    let* n := req_var 1 d in
    let* p := req_bytes 2 d in
    let* j := req_bytes 3 d in
    Ok {| pg_number := n; pg_payload := p; pg_justification := j |}.

  Inductive Block : Type := BFinal (b : FinalBlock) | BPreGenesis (b : PreGenesisBlock).
  Definition build_block (b : Block) : dmsg :=
    match b with
    | BPreGenesis p => flatten [(2, [DMsg (build_pre_genesis p)])]
    | BFinal f => flatten [(3, [DMsg (build_final_block f)])]
    end.
  Definition read_block (d : dmsg) : res Block :=
    match pick [3; 2] d with
    | Some (k, DMsg es) =>
        if k =? 3 then let* f := read_final_block es in Ok (BFinal f)
        else let* p := read_pre_genesis es in Ok (BPreGenesis p)
    | _ => err
    end.

  Record Proposal : Type := { pr_number : Z; pr_payload : bytes }.
  Definition build_proposal (p : Proposal) : dmsg :=
    flatten [(1, [DVar (pr_number p)]); (2, [DBytes (pr_payload p)])].
  Definition read_proposal (d : dmsg) : res Proposal :=
    let* n := req_var 1 d in
    let* p := req_bytes 2 d in
    Ok {| pr_number := n; pr_payload := p |}.

  (* ---- replica state ---- *)
  Inductive Phase : Type := Prepare | Commit | Timeout.
  Definition build_phase (p : Phase) : dmsg :=
    match p with
    | Prepare => flatten [(1, [DMsg []])]
    | Commit => flatten [(2, [DMsg []])]
    | Timeout => flatten [(3, [DMsg []])]
    end.
  Definition read_phase (d : dmsg) : res Phase :=
    match pick [1; 2; 3] d with
    | Some (k, DMsg _) => if k =? 1 then Ok Prepare else if k =? 2 then Ok Commit else Ok Timeout
    | _ => err
    end.

  Record ChonkyV2State : Type := {
    st_epoch : Z; st_view_number : Z; st_phase : Phase;
    st_high_vote : option ReplicaCommit; st_high_commit_qc : option CommitQC;
    st_high_timeout_qc : option TimeoutQC; st_proposals : list Proposal }.
  Definition build_state (s : ChonkyV2State) : dmsg :=
    flatten [(1, [DVar (st_view_number s)]);
             (2, [DMsg (build_phase (st_phase s))]);
             (3, ovals (fun c => DMsg (build_commit c)) (st_high_vote s));
             (4, ovals (fun q => DMsg (build_commit_qc q)) (st_high_commit_qc s));
             (5, ovals (fun q => DMsg (build_timeout_qc q)) (st_high_timeout_qc s));
             (6, map (fun p => DMsg (build_proposal p)) (st_proposals s));
             (7, [DVar (st_epoch s)])].
  Definition read_state (d : dmsg) : res ChonkyV2State :=
    let* e := req_var 7 d in
    let* n := req_var 1 d in
    let* p := sub read_phase 2 d in
    let* hv := read_opt 3 read_commit d in
    let* hc := read_opt 4 (read_commit_qc (agg_ok O)) d in
    let* ht := read_opt 5 (read_timeout_qc (agg_ok O)) d in
    let* ps := sub_rep read_proposal 6 d in
    Ok {| st_epoch := e; st_view_number := n; st_phase := p; st_high_vote := hv;
          st_high_commit_qc := hc; st_high_timeout_qc := ht; st_proposals := ps |}.

  (* enum ReplicaState { V2(ChonkyV2State) }, field 7 *)
  Definition build_replica_state (s : ChonkyV2State) : dmsg := flatten [(7, [DMsg (build_state s)])].
  Definition read_replica_state (d : dmsg) : res ChonkyV2State :=
    match pick [7] d with
    | Some (_, DMsg es) => read_state es
    | _ => err
    end.

  (* ---- schedule, genesis ---- *)
  Record ValidatorInfo : Type := { vi_key : bytes; vi_weight : Z; vi_leader : bool }.
  Definition build_validator_info (v : ValidatorInfo) : dmsg :=
    flatten [(1, [DMsg (build_key (vi_key v))]); (2, [DVar (vi_weight v)]);
             (3, [DVar (if vi_leader v then 1 else 0)])].
  Definition read_validator_info (d : dmsg) : res ValidatorInfo :=
    let* k := sub (read_key (vpk_ok O)) 1 d in
    let* w := req_var 2 d in
    let* l := req_var 3 d in
    Ok {| vi_key := k; vi_weight := w; vi_leader := negb (l =? 0) |}.

  Inductive Mode : Type := RoundRobin | Weighted.
  Definition build_mode (m : Mode) : dmsg :=
    match m with RoundRobin => flatten [(1, [DMsg []])] | Weighted => flatten [(3, [DMsg []])] end.
  Definition read_mode (d : dmsg) : res Mode :=
    match pick [1; 3] d with
    | Some (k, DMsg _) => if k =? 1 then Ok RoundRobin else Ok Weighted
    | _ => err
    end.
  Record LeaderSelection : Type := { ls_frequency : Z; ls_mode : Mode }.
  Definition build_selection (s : LeaderSelection) : dmsg :=
    flatten [(1, [DVar (ls_frequency s)]); (2, [DMsg (build_mode (ls_mode s))])].
  Definition read_selection (d : dmsg) : res LeaderSelection :=
    let* f := req_var 1 d in
    let* m := sub read_mode 2 d in
    Ok {| ls_frequency := f; ls_mode := m |}.

  (* Schedule::new: a BTreeMap by key; duplicate keys, zero weights, an overflowing total, an empty
     set and a set without leaders are errors.  The schedule is the list sorted by key. *)
  Fixpoint sched_insert (v : ValidatorInfo) (m : list ValidatorInfo) : option (list ValidatorInfo) :=
    match m with
    | [] => Some [v]
    | v' :: r =>
        match cmp_bytes (vi_key v) (vi_key v') with
        | Lt => Some (v :: m)
        | Eq => None                                   (* "Duplicate key in validator Schedule" *)
        | Gt => match sched_insert v r with Some r' => Some (v' :: r') | None => None end
        end
    end.
  Fixpoint sched_new (vs : list ValidatorInfo) (m : list ValidatorInfo) (total : Z) : res (list ValidatorInfo) :=
    match vs with
    | [] =>
        match m with
        | [] => err                                    (* at least one validator *)
        | _ => if existsb vi_leader m then Ok m else err   (* at least one leader *)
        end
    | v :: r =>
        match sched_insert v m with
        | None => err
        | Some m' =>
            if vi_weight v <=? 0 then err
            else if two64 <=? total + vi_weight v then err   (* checked_add *)
            else sched_new r m' (total + vi_weight v)
        end
    end.
  Record Schedule : Type := { sc_validators : list ValidatorInfo; sc_selection : LeaderSelection }.
  Definition build_schedule (s : Schedule) : dmsg :=
    flatten [(1, map (fun v => DMsg (build_validator_info v)) (sc_validators s));
             (2, [DMsg (build_selection (sc_selection s))])].
  Definition read_schedule (d : dmsg) : res Schedule :=
    let* vs := sub_rep read_validator_info 1 d in
    let* sel := sub read_selection 2 d in
    let* m := sched_new vs [] 0 in
    Ok {| sc_validators := m; sc_selection := sel |}.

  Record Genesis : Type := {
    g_chain_id : Z; g_fork_number : Z; g_first_block : Z; g_protocol_version : Z;
    g_schedule : option Schedule }.
  (* build: `match protocol_version { 2 => ..., _ => unreachable!() }` *)
  Definition build_genesis (g : Genesis) : res dmsg :=
    if g_protocol_version g =? 2 then
      Ok (flatten [(5, [DVar (g_chain_id g)]); (6, [DVar (g_fork_number g)]); (7, [DVar (g_first_block g)]);
                   (8, [DVar (g_protocol_version g)]);
                   (10, ovals (fun s => DMsg (build_schedule s)) (g_schedule g))])
    else Panic PUnreachable.
  (* read: protocol_version first; anything but 2 is an error (repair 900c4da) *)
  Definition read_genesis (d : dmsg) : res Genesis :=
    let* v := req_var 8 d in
    let v := as_u32 v in
    if negb (v =? 2) then err else
    let* s := read_opt 10 read_schedule d in
    let* c := req_var 5 d in
    let* f := req_var 6 d in
    let* b := req_var 7 d in
    Ok {| g_chain_id := c; g_fork_number := f; g_first_block := b; g_protocol_version := v; g_schedule := s |}.

  (* ---- node ---- *)
  (* enum node::Msg { SessionId(Vec<u8>) }, field 1 *)
  Definition build_node_msg (s : bytes) : dmsg := flatten [(1, [DBytes s])].
  Definition read_node_msg (d : dmsg) : res bytes :=
    match pick [1] d with
    | Some (_, DBytes s) => Ok s
    | _ => err
    end.
  Record NodeSigned : Type := { ns_msg : bytes; ns_key : bytes; ns_sig : bytes }.
  Definition build_node_signed (s : NodeSigned) : dmsg :=
    flatten [(1, [DMsg (build_node_msg (ns_msg s))]); (2, [DMsg (build_key (ns_key s))]);
             (3, [DMsg (build_key (ns_sig s))])].
  Definition read_node_signed (d : dmsg) : res NodeSigned :=
    let* m := sub read_node_msg 1 d in
    let* k := sub (read_key (npk_ok O)) 2 d in
    let* g := sub (read_key (nsig_ok O)) 3 d in
    Ok {| ns_msg := m; ns_key := k; ns_sig := g |}.

  (* ---- handshakes, preface ---- *)
  Record GossipHandshake : Type :=
    { gh_session : NodeSigned; gh_genesis : bytes; gh_static : bool; gh_version : option bytes }.
  Definition build_gossip_handshake (h : GossipHandshake) : dmsg :=
    flatten [(1, [DMsg (build_node_signed (gh_session h))]);
             (2, [DVar (if gh_static h then 1 else 0)]);
             (3, [DMsg (build_hash (gh_genesis h))]);
             (4, ovals DBytes (gh_version h))].
  Definition read_gossip_handshake (d : dmsg) : res GossipHandshake :=
    let* s := sub read_node_signed 1 d in
    let* g := sub read_hash 3 d in
    let* st := req_var 2 d in
    let* v := opt_bytes 4 d in
    match v with
    | Some s' => if ver_ok O s' then Ok {| gh_session := s; gh_genesis := g; gh_static := negb (st =? 0); gh_version := v |} else err
    | None => Ok {| gh_session := s; gh_genesis := g; gh_static := negb (st =? 0); gh_version := None |}
    end.

  Record ConsensusHandshake : Type := { ch_session : Signed; ch_genesis : bytes }.
  Definition build_consensus_handshake (h : ConsensusHandshake) : dmsg :=
    flatten [(1, [DMsg (build_signed (ch_session h))]); (2, [DMsg (build_hash (ch_genesis h))])].
  Definition read_consensus_handshake (d : dmsg) : res ConsensusHandshake :=
    let* s := sub (read_signed VSessionId) 1 d in
    let* g := sub read_hash 2 d in
    Ok {| ch_session := s; ch_genesis := g |}.

  (* preface::Encryption { NoiseNN } field 1; preface::Endpoint { ConsensusNet = 1, GossipNet = 2 } *)
  Definition build_encryption (_ : unit) : dmsg := flatten [(1, [DMsg []])].
  Definition read_encryption (d : dmsg) : res unit :=
    match pick [1] d with Some (_, DMsg _) => Ok tt | _ => err end.
  Inductive Endpoint : Type := ConsensusNet | GossipNet.
  Definition build_endpoint (e : Endpoint) : dmsg :=
    match e with ConsensusNet => flatten [(1, [DMsg []])] | GossipNet => flatten [(2, [DMsg []])] end.
  Definition read_endpoint (d : dmsg) : res Endpoint :=
    match pick [1; 2] d with
    | Some (k, DMsg _) => if k =? 1 then Ok ConsensusNet else Ok GossipNet
    | _ => err
    end.

  (* ---- RPC ---- *)
  Definition build_consensus_req (s : Signed) : dmsg := flatten [(1, [DMsg (build_signed s)])].
  Definition read_consensus_req (d : dmsg) : res Signed := sub (read_signed VConsensus) 1 d.
  Definition build_consensus_resp (_ : unit) : dmsg := [].
  Definition read_consensus_resp (_ : dmsg) : res unit := Ok tt.

  Definition build_get_block_req (n : Z) : dmsg := flatten [(1, [DVar n])].
  Definition read_get_block_req (d : dmsg) : res Z := req_var 1 d.
  (* Resp(Option<Block>): block_v2 (3) wins over pre_genesis (2) *)
  Definition build_get_block_resp (b : option Block) : dmsg :=
    match b with
    | Some (BFinal f) => flatten [(3, [DMsg (build_final_block f)])]
    | Some (BPreGenesis p) => flatten [(2, [DMsg (build_pre_genesis p)])]
    | None => []
    end.
  Definition read_get_block_resp (d : dmsg) : res (option Block) :=
    let* f := read_opt 3 read_final_block d in
    let* p := read_opt 2 read_pre_genesis d in
    match f, p with
    | Some f', _ => Ok (Some (BFinal f'))
    | None, Some p' => Ok (Some (BPreGenesis p'))
    | None, None => Ok None
    end.

  Inductive Last : Type := LPreGenesis (n : Z) | LFinal (q : CommitQC).
  Definition build_last (l : Last) : dmsg :=
    match l with
    | LPreGenesis n => flatten [(2, [DVar n])]
    | LFinal q => flatten [(3, [DMsg (build_commit_qc q)])]
    end.
  Definition read_last (d : dmsg) : res Last :=
    match pick [2; 3] d with
    | Some (k, DVar n) => if k =? 2 then Ok (LPreGenesis n) else err
    | Some (k, DMsg es) => if k =? 3 then let* q := read_commit_qc (agg_ok O) es in Ok (LFinal q) else err
    | _ => err
    end.
  Record BlockStoreState : Type := { bs_first : Z; bs_last : option Last }.
  Definition build_store_state (s : BlockStoreState) : dmsg :=
    flatten [(1, [DVar (bs_first s)]); (2, ovals (fun l => DMsg (build_last l)) (bs_last s))].
  Definition read_store_state (d : dmsg) : res BlockStoreState :=
    let* f := req_var 1 d in
    let* l := read_opt 2 read_last d in
    Ok {| bs_first := f; bs_last := l |}.
  Definition build_push_store_state (s : BlockStoreState) : dmsg := flatten [(3, [DMsg (build_store_state s)])].
  Definition read_push_store_state (d : dmsg) : res BlockStoreState := sub read_store_state 3 d.

  Definition build_push_addrs (l : list Signed) : dmsg := flatten [(1, map (fun s => DMsg (build_signed s)) l)].
  Definition read_push_addrs (d : dmsg) : res (list Signed) := sub_rep (read_signed VNetAddress) 1 d.

  Definition build_push_tx (tx : bytes) : dmsg := flatten [(1, [DMsg (flatten [(1, [DBytes tx])])])].
  Definition read_push_tx (d : dmsg) : res bytes := sub (req_bytes 1) 1 d.

  (* ping Req / Resp: [u8; 32] *)
  Definition build_ping (p : bytes) : dmsg := flatten [(1, [DBytes p])].
  Definition read_ping (d : dmsg) : res bytes :=
    let* p := req_bytes 1 d in if (length p =? 32)%nat then Ok p else err.
End Typed2.

(* ---- mux::Handshake ----
   The Rust value holds two HashMap<CapabilityId, u32>; `build` emits their entries in the HashMap's
   iteration order, which is not a function of the map.  The model value is the pair of entry lists
   in that (arbitrary) order: decode (encode h) = h holds, byte determinism does not (two orders of
   the same map give different bytes).  The message is neither signed nor stored. *)
Definition cap : Type := (Z * Z)%type.       (* capability id, max_streams *)
Definition build_cap (c : cap) : dmsg := flatten [(1, [DVar (fst c)]); (2, [DVar (snd c)])].
Definition read_cap (d : dmsg) : res cap :=
  let* i := req_var 1 d in
  let* m := req_var 2 d in
  Ok (i, as_u32 m).
(* ms.insert(id, max_streams).is_some() => "duplicate entry" *)
Fixpoint caps_nodup (seen : list Z) (l : list cap) : bool :=
  match l with
  | [] => true
  | c :: r => if existsb (Z.eqb (fst c)) seen then false else caps_nodup (fst c :: seen) r
  end.
Record MuxHandshake : Type := { mx_accept : list cap; mx_connect : list cap }.
Definition build_mux (h : MuxHandshake) : dmsg :=
  flatten [(5, map (fun c => DMsg (build_cap c)) (mx_accept h));
           (6, map (fun c => DMsg (build_cap c)) (mx_connect h))].
Definition read_caps (n : Z) (d : dmsg) : res (list cap) :=
  let* l := sub_rep read_cap n d in
  if caps_nodup [] l then Ok l else err.
Definition read_mux (d : dmsg) : res MuxHandshake :=
  let* a := read_caps 5 d in
  let* c := read_caps 6 d in
  Ok {| mx_accept := a; mx_connect := c |}.

(* observation: the decoded maps as entry lists sorted by id (the order of the re-encoding is not
   comparable) *)
Fixpoint cap_insert (c : cap) (l : list cap) : list cap :=
  match l with
  | [] => [c]
  | c' :: r => if fst c <=? fst c' then c :: l else c' :: cap_insert c r
  end.
Definition cap_sort (l : list cap) : list cap := fold_right cap_insert [] l.
Definition obs_caps (l : list cap) : obsv := OL (map (fun c : cap => OL [OZ (fst c); OZ (snd c)]) (cap_sort l)).
Definition run_mux_case (hex : string) : obsv :=
  match denote schema idx_zksync_network_mux_Handshake (unhex hex) with
  | None => OL [OZ 1]
  | Some d =>
      match read_mux d with
      | Ok h => OL [OZ 0; obs_caps (mx_accept h); obs_caps (mx_connect h)]
      | _ => OL [OZ 1]
      end
  end.

(* ---- correspondence ---- *)

Inductive tyname2 : Type :=
| T2Justification | T2LeaderProposal | T2NewView | T2Chonky | T2ConsensusMsg | T2Msg
| T2SignedConsensus | T2SignedNetAddress | T2SignedSessionId
| T2FinalBlock | T2PreGenesis | T2Block | T2Proposal | T2Phase | T2State | T2ReplicaState
| T2ValidatorInfo | T2Mode | T2Selection | T2Schedule | T2Genesis | T2NetAddress
| T2VPublicKey | T2VSignature | T2AggSignature | T2Hash
| T2NodeMsg | T2NodePublicKey | T2NodeSignature | T2NodeSigned
| T2GossipHandshake | T2ConsensusHandshake | T2Encryption | T2Endpoint
| T2ConsensusReq | T2ConsensusResp | T2GetBlockReq | T2GetBlockResp | T2PushStoreState
| T2PushAddrs | T2PushTx | T2Ping.

Definition idx2 (t : tyname2) : nat :=
  match t with
  | T2Justification => idx_zksync_roles_validator_ProposalJustificationV2
  | T2LeaderProposal => idx_zksync_roles_validator_LeaderProposalV2
  | T2NewView => idx_zksync_roles_validator_ReplicaNewViewV2
  | T2Chonky => idx_zksync_roles_validator_ChonkyMsgV2
  | T2ConsensusMsg => idx_zksync_roles_validator_ConsensusMsg
  | T2Msg => idx_zksync_roles_validator_Msg
  | T2SignedConsensus | T2SignedNetAddress | T2SignedSessionId => idx_zksync_roles_validator_Signed
  | T2FinalBlock => idx_zksync_roles_validator_FinalBlockV2
  | T2PreGenesis => idx_zksync_roles_validator_PreGenesisBlock
  | T2Block => idx_zksync_roles_validator_Block
  | T2Proposal => idx_zksync_roles_validator_Proposal
  | T2Phase => idx_zksync_roles_validator_PhaseV2
  | T2State => idx_zksync_roles_validator_ChonkyV2State
  | T2ReplicaState => idx_zksync_roles_validator_ReplicaState
  | T2ValidatorInfo => idx_zksync_roles_validator_ValidatorInfo
  | T2Mode => idx_zksync_roles_validator_LeaderSelectionMode
  | T2Selection => idx_zksync_roles_validator_LeaderSelection
  | T2Schedule => idx_zksync_roles_validator_ValidatorSchedule
  | T2Genesis => idx_zksync_roles_validator_Genesis
  | T2NetAddress => idx_zksync_roles_validator_NetAddress
  | T2VPublicKey => idx_zksync_roles_validator_PublicKey
  | T2VSignature => idx_zksync_roles_validator_Signature
  | T2AggSignature => idx_zksync_roles_validator_AggregateSignature
  | T2Hash => idx_zksync_roles_validator_GenesisHash
  | T2NodeMsg => idx_zksync_roles_node_Msg
  | T2NodePublicKey => idx_zksync_roles_node_PublicKey
  | T2NodeSignature => idx_zksync_roles_node_Signature
  | T2NodeSigned => idx_zksync_roles_node_Signed
  | T2GossipHandshake => idx_zksync_network_gossip_Handshake
  | T2ConsensusHandshake => idx_zksync_network_consensus_Handshake
  | T2Encryption => idx_zksync_network_preface_Encryption
  | T2Endpoint => idx_zksync_network_preface_Endpoint
  | T2ConsensusReq => idx_zksync_network_consensus_ConsensusReq
  | T2ConsensusResp => idx_zksync_network_consensus_ConsensusResp
  | T2GetBlockReq => idx_zksync_network_gossip_GetBlockRequest
  | T2GetBlockResp => idx_zksync_network_gossip_GetBlockResponse
  | T2PushStoreState => idx_zksync_network_gossip_PushBlockStoreState
  | T2PushAddrs => idx_zksync_network_gossip_PushValidatorAddrs
  | T2PushTx => idx_zksync_network_gossip_PushTx
  | T2Ping => idx_zksync_network_ping_PingReq
  end.

Definition rebuild2 (O : oracles) (t : tyname2) (d : dmsg) : res dmsg :=
  match t with
  | T2Justification => let* v := read_justification O d in Ok (build_justification v)
  | T2LeaderProposal => let* v := read_leader_proposal O d in Ok (build_leader_proposal v)
  | T2NewView => let* v := read_new_view O d in Ok (build_new_view v)
  | T2Chonky => let* v := read_chonky O d in Ok (build_chonky v)
  | T2ConsensusMsg => let* v := read_consensus_msg O d in Ok (build_consensus_msg v)
  | T2Msg => let* v := read_msg O d in Ok (build_msg v)
  | T2SignedConsensus => let* v := read_signed O VConsensus d in Ok (build_signed v)
  | T2SignedNetAddress => let* v := read_signed O VNetAddress d in Ok (build_signed v)
  | T2SignedSessionId => let* v := read_signed O VSessionId d in Ok (build_signed v)
  | T2FinalBlock => let* v := read_final_block O d in Ok (build_final_block v)
  | T2PreGenesis => let* v := read_pre_genesis d in Ok (build_pre_genesis v)
  | T2Block => let* v := read_block O d in Ok (build_block v)
  | T2Proposal => let* v := read_proposal d in Ok (build_proposal v)
  | T2Phase => let* v := read_phase d in Ok (build_phase v)
  | T2State => let* v := read_state O d in Ok (build_state v)
  | T2ReplicaState => let* v := read_replica_state O d in Ok (build_replica_state v)
  | T2ValidatorInfo => let* v := read_validator_info O d in Ok (build_validator_info v)
  | T2Mode => let* v := read_mode d in Ok (build_mode v)
  | T2Selection => let* v := read_selection d in Ok (build_selection v)
  | T2Schedule => let* v := read_schedule O d in Ok (build_schedule v)
  | T2Genesis => let* v := read_genesis O d in build_genesis v
  | T2NetAddress => let* v := read_net_address d in Ok (build_net_address v)
  | T2VPublicKey => let* v := read_key (vpk_ok O) d in Ok (build_key v)
  | T2VSignature => let* v := read_key (vsig_ok O) d in Ok (build_key v)
  | T2AggSignature => let* v := read_key (agg_ok O) d in Ok (build_key v)
  | T2Hash => let* v := read_hash d in Ok (build_hash v)
  | T2NodeMsg => let* v := read_node_msg d in Ok (build_node_msg v)
  | T2NodePublicKey => let* v := read_key (npk_ok O) d in Ok (build_key v)
  | T2NodeSignature => let* v := read_key (nsig_ok O) d in Ok (build_key v)
  | T2NodeSigned => let* v := read_node_signed O d in Ok (build_node_signed v)
  | T2GossipHandshake => let* v := read_gossip_handshake O d in Ok (build_gossip_handshake v)
  | T2ConsensusHandshake => let* v := read_consensus_handshake O d in Ok (build_consensus_handshake v)
  | T2Encryption => let* v := read_encryption d in Ok (build_encryption v)
  | T2Endpoint => let* v := read_endpoint d in Ok (build_endpoint v)
  | T2ConsensusReq => let* v := read_consensus_req O d in Ok (build_consensus_req v)
  | T2ConsensusResp => let* v := read_consensus_resp d in Ok (build_consensus_resp v)
  | T2GetBlockReq => let* v := read_get_block_req d in Ok (build_get_block_req v)
  | T2GetBlockResp => let* v := read_get_block_resp O d in Ok (build_get_block_resp v)
  | T2PushStoreState => let* v := read_push_store_state O d in Ok (build_push_store_state v)
  | T2PushAddrs => let* v := read_push_addrs O d in Ok (build_push_addrs v)
  | T2PushTx => let* v := read_push_tx d in Ok (build_push_tx v)
  | T2Ping => let* v := read_ping d in Ok (build_ping v)
  end.

Definition run_rt2 (O : oracles) (c : tyname2 * bytes) : obsv :=
  let (t, b) := c in
  match denote schema (idx2 t) b with
  | None => OL [OZ 1]
  | Some d =>
      match rebuild2 O t d with
      | Ok d' => OL [OZ 0; ozs (canon schema (idx2 t) d')]
      | Err _ => OL [OZ 1]
      | Panic p => OL [OZ 2; OZ (panic_code p)]
      end
  end.

(* the harness pool only contains valid keys / signatures; everything else the generator produces
   for those fields has another length; version strings come from a fixed list *)
Definition bytes_eqb (a b : bytes) : bool := match cmp_bytes a b with Eq => true | _ => false end.
Definition pool_oracles : oracles := {|
  agg_ok := fun s => (length s =? 48)%nat;
  vpk_ok := fun s => (length s =? 96)%nat;
  vsig_ok := fun s => (length s =? 48)%nat;
  npk_ok := fun s => (length s =? 32)%nat;
  nsig_ok := fun s => (length s =? 64)%nat;
  ver_ok := fun s => existsb (bytes_eqb s)
                       [unhex "302e312e30"; unhex "312e322e33"; unhex "31302e32302e33302d72632e31"; unhex "302e302e302b6275696c6435"]
|}.
Definition run_rt_case2 (c : tyname2 * string) : obsv := run_rt2 pool_oracles (fst c, unhex (snd c)).
