(* Layer A of the safety argument (DESIGN.md Appendix A): an abstract vote-history
   transition system for ChonkyBFT.  Honest validators take the steps below;
   Byzantine validators take none — whatever they sign is unconstrained, which is
   expressed by the semantic notion of certificate validity: only the HONEST
   signers of a certificate must have the corresponding vote / timeout in the
   history.  Everything is executable or decidable data; no proofs here. *)
From Coq Require Import ZArith List Bool.
Import ListNotations.
Open Scope Z_scope.

Section Abs.
  (* committee: validator i (a nat index) has weight [nth i weights 0] *)
  Variable weights : list Z.
  Variable byz : nat -> bool.          (* Byzantine indicator *)
  Variable first_block : Z.

  Definition wt (i : nat) : Z := nth i weights 0.
  Definition n_total : Z := fold_right Z.add 0 weights.
  Definition f_max : Z := (n_total - 1) / 5.
  Definition q_thr : Z := n_total - f_max.
  Definition s_thr : Z := n_total - 3 * f_max.

  (* weight of a duplicate-free list of validator indices *)
  Definition wsum (l : list nat) : Z := fold_right (fun i a => wt i + a) 0 l.
  Definition member (i : nat) : Prop := (i < length weights)%nat.
  Definition honest (i : nat) : Prop := member i /\ byz i = false.

  Record block := { bnum : Z; bhash : Z }.

  Inductive phase := Prepare | Commit | Timeout.
  Definition phase_rank (p : phase) : Z :=
    match p with Prepare => 0 | Commit => 1 | Timeout => 2 end.
  (* lexicographic order on (view, phase) *)
  Definition pos_lt (a b : Z * phase) : Prop :=
    fst a < fst b \/ (fst a = fst b /\ phase_rank (snd a) < phase_rank (snd b)).
  Definition pos_le (a b : Z * phase) : Prop := pos_lt a b \/ a = b.

  (* certificates are data *)
  Record acqc := { aq_view : Z; aq_block : block; aq_signers : list nat }.
  Record areport := { ar_hv : option (Z * block); ar_hq : option acqc }.
  Record atqc := { at_view : Z; at_entries : list (nat * areport) }.
  Inductive ajust := AJCommit (c : acqc) | AJTimeout (t : atqc).

  Definition just_view (j : ajust) : Z :=
    match j with AJCommit c => aq_view c | AJTimeout t => at_view t end.

  (* history records *)
  Record vote := { v_who : nat; v_view : Z; v_block : block; v_cq : option acqc }.
  Record tmo := { t_who : nat; t_view : Z; t_report : areport }.

  Record astate := {
    cur : nat -> Z * phase;
    hvote : nat -> option (Z * block);
    hq : nat -> option acqc;
    votes : list vote;        (* monotone *)
    timeouts : list tmo       (* monotone *)
  }.

  Definition init : astate :=
    {| cur := fun _ => (0, Prepare); hvote := fun _ => None; hq := fun _ => None;
       votes := []; timeouts := [] |}.

  (* ---- semantic validity of certificates w.r.t. a history ---- *)
  Definition valid_cqc (st : astate) (c : acqc) : Prop :=
    NoDup (aq_signers c) /\ Forall member (aq_signers c) /\ q_thr <= wsum (aq_signers c) /\
    forall i, In i (aq_signers c) -> honest i ->
      exists cq, In {| v_who := i; v_view := aq_view c; v_block := aq_block c; v_cq := cq |} (votes st).

  Definition valid_tqc (st : astate) (t : atqc) : Prop :=
    NoDup (map fst (at_entries t)) /\ Forall member (map fst (at_entries t)) /\
    q_thr <= wsum (map fst (at_entries t)) /\
    (forall i r, In (i, r) (at_entries t) -> honest i ->
       In {| t_who := i; t_view := at_view t; t_report := r |} (timeouts st)) /\
    (forall i r c, In (i, r) (at_entries t) -> ar_hq r = Some c -> valid_cqc st c).

  Definition valid_just (st : astate) (j : ajust) : Prop :=
    match j with AJCommit c => valid_cqc st c | AJTimeout t => valid_tqc st t end.

  (* ---- the implied block of a justification (as the implementation computes it) ---- *)
  Definition block_eqb (a b : block) : bool := (bnum a =? bnum b) && (bhash a =? bhash b).

  (* weight of the signers of [t] whose reported high vote is for block [b] (any view:
     the implementation counts per block, not per (view, block)) *)
  Definition reporters (t : atqc) (b : block) : list nat :=
    map fst (filter (fun e => match ar_hv (snd e) with
                              | Some (_, b') => block_eqb b' b
                              | None => false
                              end) (at_entries t)).

  Definition subquorum_block (t : atqc) (b : block) : Prop := s_thr <= wsum (reporters t b).

  (* high_vote t = Some b  iff  b is the unique block with a sub-quorum of reporters *)
  Definition is_high_vote (t : atqc) (hv : option block) : Prop :=
    match hv with
    | Some b => subquorum_block t b /\ forall b', subquorum_block t b' -> b' = b
    | None => (forall b, ~ subquorum_block t b) \/
              (exists b1 b2, b1 <> b2 /\ subquorum_block t b1 /\ subquorum_block t b2)
    end.

  (* high_qc t = a reported certificate of maximal view (any one of them) *)
  Definition is_high_qc (t : atqc) (hqc : option acqc) : Prop :=
    match hqc with
    | Some c => (exists i r, In (i, r) (at_entries t) /\ ar_hq r = Some c) /\
                forall i r c', In (i, r) (at_entries t) -> ar_hq r = Some c' -> aq_view c' <= aq_view c
    | None => forall i r, In (i, r) (at_entries t) -> ar_hq r = None
    end.

  (* (number, Some hash) = forced re-proposal; (number, None) = new proposal *)
  Definition implied_of (hv : option block) (hqc : option acqc) : Z * option Z :=
    let fresh := match hqc with Some c => bnum (aq_block c) + 1 | None => first_block end in
    match hv with
    | Some b =>
        match hqc with
        | None => (bnum b, Some (bhash b))
        | Some c => if bnum (aq_block c) <? bnum b then (bnum b, Some (bhash b)) else (fresh, None)
        end
    | None => (fresh, None)
    end.

  Definition is_implied (j : ajust) (r : Z * option Z) : Prop :=
    match j with
    | AJCommit c => r = (bnum (aq_block c) + 1, None)
    | AJTimeout t => exists hv hqc, is_high_vote t hv /\ is_high_qc t hqc /\ r = implied_of hv hqc
    end.

  (* the block voted agrees with the implied block: the hash is free for a new proposal *)
  Definition agrees (b : block) (r : Z * option Z) : Prop :=
    bnum b = fst r /\ match snd r with Some h => bhash b = h | None => True end.

  (* the commit certificate "processed" with a vote: the QC itself or the TimeoutQC's high QC *)
  Definition processed_cq (j : ajust) (cq : option acqc) : Prop :=
    match j with
    | AJCommit c => cq = Some c
    | AJTimeout t => is_high_qc t cq
    end.

  Definition max_cq (a b : option acqc) : option acqc :=
    match a, b with
    | None, _ => b
    | _, None => a
    | Some x, Some y => if aq_view x <? aq_view y then b else a
    end.

  Definition upd {A} (f : nat -> A) (i : nat) (x : A) : nat -> A :=
    fun j => if Nat.eqb j i then x else f j.

  (* ---- steps of honest validators ---- *)
  Inductive step : astate -> astate -> Prop :=
  | StepVote st i w b j cq :
      honest i ->
      pos_lt (cur st i) (w, Commit) ->
      valid_just st j -> just_view j + 1 = w ->
      (exists r, is_implied j r /\ agrees b r) ->
      processed_cq j cq ->
      step st {| cur := upd (cur st) i (w, Commit);
                 hvote := upd (hvote st) i (Some (w, b));
                 hq := upd (hq st) i (max_cq (hq st i) cq);
                 votes := {| v_who := i; v_view := w; v_block := b; v_cq := cq |} :: votes st;
                 timeouts := timeouts st |}
  | StepTimeout st i :
      honest i ->
      step st {| cur := upd (cur st) i (fst (cur st i), Timeout);
                 hvote := hvote st; hq := hq st; votes := votes st;
                 timeouts := {| t_who := i; t_view := fst (cur st i);
                                t_report := {| ar_hv := hvote st i; ar_hq := hq st i |} |} :: timeouts st |}
  | StepAdvance st i w :
      honest i -> fst (cur st i) < w ->
      step st {| cur := upd (cur st) i (w, Prepare);
                 hvote := hvote st; hq := hq st; votes := votes st; timeouts := timeouts st |}
  | StepLearn st i c :
      honest i -> valid_cqc st c ->
      step st {| cur := cur st; hvote := hvote st;
                 hq := upd (hq st) i (max_cq (hq st i) (Some c));
                 votes := votes st; timeouts := timeouts st |}.

  Inductive reachable : astate -> Prop :=
  | ReachInit : reachable init
  | ReachStep st st' : reachable st -> step st st' -> reachable st'.

  (* the standing assumptions of the safety theorems *)
  Definition committee_ok : Prop :=
    Forall (fun w => 0 < w) weights /\ 1 <= n_total /\
    (* Byzantine weight at most f *)
    forall l, NoDup l -> Forall member l -> Forall (fun i => byz i = true) l -> wsum l <= f_max.
End Abs.
