(* Message descriptors and the canonical encoding of node/libs/protobuf/src/proto_fmt.rs.

   - [schema]               what proto_fmt.rs and protobuf_build/src/canonical.rs read from
                            prost_reflect descriptors: field number, kind, list / map / presence
   - [schema_canonical_ok]  protobuf_build/src/canonical.rs (check / check_message / check_field)
   - [canonical_raw]        proto_fmt.rs read_fields + canonical_raw, statement by statement,
                            with one modelling decision: read_fields is split into the
                            schema-independent tag/value loop (Wire.parse_tlvs) followed by the
                            per-field look-ups and checks (group_tlvs).  The Rust loop interleaves
                            them, but every failure of that loop is the same observable `Err`
                            and it has no panic site, so the two orders are indistinguishable.
   - [dmsg], [denote]       dynamic values and the reference reading of a byte string as a
                            value (any field order, packed / unpacked / split repeated scalars,
                            any varint spelling the reader accepts)
   - [canon]                the canonical byte string of a dynamic value
   The panic site of canonical_raw (`values[0]` when a field has an entry but no value: an
   empty packed chunk) is explicit: [Panic PIndex]. *)
From Coq Require Import String ZArith List Bool Lia.
From EC Require Import Lib.Obs Lib.Outcome Model.Wire.
Import ListNotations.
Open Scope Z_scope.

(* ---- descriptors ---- *)

Inductive kind : Type :=
| KInt32 | KInt64 | KUint32 | KUint64 | KSint32 | KSint64 | KBool | KEnum
| KFixed64 | KSfixed64 | KDouble
| KFixed32 | KSfixed32 | KFloat
| KString | KBytes
| KMessage (idx : nat).

Inductive label : Type :=
| LOptional             (* explicit presence: proto3 `optional`, or a singular message field *)
| LOneof (group : nat)  (* member of a oneof *)
| LRepeated
| LImplicit             (* singular scalar without `optional`: no presence *)
| LMap.

Record field : Type := { fname : string; fnum : Z; fkind : kind; flabel : label }.
Record message : Type := { mname : string; mproto3 : bool; mfields : list field }.
Definition schema : Type := list message.

(* impl From<prost_reflect::Kind> for Wire *)
Definition wire_of_kind (k : kind) : wire :=
  match k with
  | KInt32 | KInt64 | KUint32 | KUint64 | KSint32 | KSint64 | KBool | KEnum => WVarint
  | KFixed64 | KSfixed64 | KDouble => WI64
  | KFixed32 | KSfixed32 | KFloat => WI32
  | KString | KBytes | KMessage _ => WLen
  end.

Definition is_map (f : field) : bool := match flabel f with LMap => true | _ => false end.
Definition is_list (f : field) : bool := match flabel f with LRepeated => true | _ => false end.
Definition supports_presence (f : field) : bool :=
  match flabel f with LOptional | LOneof _ => true | _ => false end.

Fixpoint find_field (fs : list field) (num : Z) : option field :=
  match fs with
  | [] => None
  | f :: r => if fnum f =? num then Some f else find_field r num
  end.

(* canonical.rs: check_field on every field of every message, proto3 only. *)
Definition field_canonical_ok (f : field) : bool :=
  negb (is_map f) && (is_list f || supports_presence f).
Definition message_canonical_ok (m : message) : bool :=
  mproto3 m && forallb field_canonical_ok (mfields m).
Definition schema_canonical_ok (Sc : schema) : bool := forallb message_canonical_ok Sc.

(* descriptor sanity (what protoc / prost_reflect guarantee): field numbers distinct and within
   1 .. 2^29-1, message references inside the schema *)
Fixpoint distinct_nums (fs : list field) : bool :=
  match fs with
  | [] => true
  | f :: r => match find_field r (fnum f) with Some _ => false | None => distinct_nums r end
  end.
Definition field_wf (n : nat) (f : field) : bool :=
  (1 <=? fnum f) && (fnum f <? 536870912) &&
  match fkind f with KMessage i => (i <? n)%nat | _ => true end.
Definition message_wf (n : nat) (m : message) : bool :=
  forallb (field_wf n) (mfields m) && distinct_nums (mfields m).
Definition schema_wf (Sc : schema) : bool := forallb (message_wf (length Sc)) Sc.

(* ---- read_fields ---- *)

(* BTreeMap<u32, Vec<Vec<u8>>> as an association list in ascending key order *)
Definition fmap : Type := list (Z * list bytes).

(* fields.entry(k).or_default().extend(vs) *)
Fixpoint fmap_add (m : fmap) (k : Z) (vs : list bytes) : fmap :=
  match m with
  | [] => [(k, vs)]
  | (k', vs') :: r =>
      if k <? k' then (k, vs) :: m
      else if k =? k' then (k', vs' ++ vs) :: r
      else (k', vs') :: fmap_add r k vs
  end.

(* Reader::read_field: the values one tag/value pair contributes to its field *)
Definition field_values (fw got : wire) (v : wval) : option (list bytes) :=
  if wire_eqb got fw then Some [raw_of_wval v]
  else match got, v with
       | WLen, VLen payload =>
           match unpack fw payload with
           | Some vs => Some (map raw_of_wval vs)
           | None => None
           end
       | _, _ => None          (* "unexpected wire type" *)
       end.

Fixpoint group_tlvs (fs : list field) (tl : list tlv) (acc : fmap) : option fmap :=
  match tl with
  | [] => Some acc
  | t :: r =>
      match find_field fs (tnum t) with
      | None => None                                            (* "unknown field" *)
      | Some fd =>
          if is_map fd then None                                (* "maps unsupported" *)
          else if negb (is_list fd) && negb (supports_presence fd) then None  (* implicit presence *)
          else match field_values (wire_of_kind (fkind fd)) (twire t) (tval t) with
               | None => None
               | Some vs => group_tlvs fs r (fmap_add acc (fnum fd) vs)
               end
      end
  end.

Definition read_fields (m : message) (buf : bytes) : option fmap :=
  if negb (mproto3 m) then None                                 (* "only proto3 syntax" *)
  else match parse_tlvs buf with
       | None => None
       | Some tl => group_tlvs (mfields m) tl []
       end.

(* ---- canonical_raw ---- *)

Inductive cerr : Type := EInvalid | EFuel.
Definition cres : Type := outcome cerr bytes.

Fixpoint map_outcome {E A B} (f : A -> outcome E B) (l : list A) : outcome E (list B) :=
  match l with
  | [] => Ok []
  | a :: r => let* b := f a in let* bs := map_outcome f r in Ok (b :: bs)
  end.

(* the write of one field, values already canonical *)
Definition emit_field (num : Z) (k : kind) (values : list bytes) : cres :=
  match wire_of_kind k with
  | WLen => Ok (flat_map (fun v => encode_tag num WLen ++ encode_len_delim v) values)
  | w =>
      if (1 <? length values)%nat
      then Ok (encode_tag num WLen ++ encode_len_delim (concat values))
      else match values with
           | v :: _ => Ok (encode_tag num w ++ v)
           | [] => Panic PIndex                                 (* &values[0] *)
           end
  end.

(* the `for (num, mut values) in read_fields(..)` loop; [rec] canonicalises a sub-message *)
Fixpoint emit_fields (rec : nat -> bytes -> cres) (fs : list field) (fm : fmap) : cres :=
  match fm with
  | [] => Ok []
  | (num, values) :: r =>
      match find_field fs num with
      | None => Panic PUnwrap                                   (* desc.get_field(num).unwrap() *)
      | Some fd =>
          if (1 <? length values)%nat && negb (is_list fd) then Err EInvalid
          else
            let* values' := match fkind fd with
                            | KMessage mi => map_outcome (rec mi) values
                            | _ => Ok values
                            end in
            let* this := emit_field num (fkind fd) values' in
            let* rest := emit_fields rec fs r in
            Ok (this ++ rest)
      end
  end.

Fixpoint canonical_raw_fuel (fuel : nat) (Sc : schema) (mi : nat) (buf : bytes) : cres :=
  match fuel with
  | O => Err EFuel
  | S f =>
      match nth_error Sc mi with
      | None => Err EInvalid
      | Some m =>
          match read_fields m buf with
          | None => Err EInvalid
          | Some fm => emit_fields (canonical_raw_fuel f Sc) (mfields m) fm
          end
      end
  end.

(* a sub-message payload is at least two bytes shorter than the buffer it came from *)
Definition canonical_raw (Sc : schema) (mi : nat) (buf : bytes) : cres :=
  canonical_raw_fuel (S (length buf)) Sc mi buf.

(* ---- dynamic values ---- *)

Inductive dval : Type :=
| DVar (z : Z)          (* varint-typed scalar, as the u64 on the wire *)
| DFix (raw : bytes)    (* fixed-width scalar, little-endian bytes *)
| DBytes (b : bytes)    (* bytes / string *)
| DMsg (es : list (Z * dval)).
Definition dmsg : Type := list (Z * dval).

(* canonical raw bytes of a field value *)
Definition group_raw (l : list (Z * bytes)) : fmap :=
  fold_left (fun acc e => fmap_add acc (fst e) [snd e]) l [].

Fixpoint emit_pure (fs : list field) (fm : fmap) : bytes :=
  match fm with
  | [] => []
  | (num, values) :: r =>
      match find_field fs num with
      | None => emit_pure fs r
      | Some fd =>
          match emit_field num (fkind fd) values with
          | Ok b => b ++ emit_pure fs r
          | _ => emit_pure fs r
          end
      end
  end.

Section Canon.
  Variable Sc : schema.

  Fixpoint raw_of_dval (k : kind) (v : dval) {struct v} : bytes :=
    match v with
    | DVar z => encode_varint z
    | DFix raw => raw
    | DBytes b => b
    | DMsg es =>
        match k with
        | KMessage mi =>
            match nth_error Sc mi with
            | Some m =>
                emit_pure (mfields m)
                  (group_raw (map (fun e : Z * dval =>
                                     let (n, v') := e in
                                     (n, match find_field (mfields m) n with
                                         | Some fd => raw_of_dval (fkind fd) v'
                                         | None => []
                                         end)) es))
            | None => []
            end
        | _ => []
        end
    end.

  Definition canon (mi : nat) (d : dmsg) : bytes := raw_of_dval (KMessage mi) (DMsg d).
End Canon.

(* ---- reference reading of bytes as a value ---- *)

Definition dval_of_wval (v : wval) : dval :=
  match v with VVar z => DVar z | VFix raw => DFix raw | VLen p => DBytes p end.

Section Denote.
  Variable rec : nat -> bytes -> option dmsg.

  Definition denote_tlv (fd : field) (t : tlv) : option dmsg :=
    let fw := wire_of_kind (fkind fd) in
    if wire_eqb (twire t) fw then
      match fkind fd, tval t with
      | KMessage mi, VLen p =>
          match rec mi p with Some d => Some [(fnum fd, DMsg d)] | None => None end
      | KMessage _, _ => None
      | _, v => Some [(fnum fd, dval_of_wval v)]
      end
    else
      match twire t, tval t with
      | WLen, VLen p =>
          (* packed chunk: repeated scalar fields only, at least one element *)
          if is_list fd then
            match unpack fw p with
            | Some (v :: vs) => Some (map (fun v => (fnum fd, dval_of_wval v)) (v :: vs))
            | _ => None
            end
          else None
      | _, _ => None
      end.

  Fixpoint denote_tlvs (fs : list field) (tl : list tlv) : option dmsg :=
    match tl with
    | [] => Some []
    | t :: r =>
        match find_field fs (tnum t) with
        | None => None
        | Some fd =>
            if negb (field_canonical_ok fd) then None
            else match denote_tlv fd t, denote_tlvs fs r with
                 | Some es, Some d => Some (es ++ d)
                 | _, _ => None
                 end
        end
    end.
End Denote.

(* a singular field occurs at most once: checked on the entries grouped by field number *)
Definition shape (d : dmsg) : fmap := group_raw (map (fun e : Z * dval => (fst e, @nil Z)) d).
Definition singular_ok (fs : list field) (d : dmsg) : bool :=
  forallb (fun kv : Z * list bytes =>
             match find_field fs (fst kv) with
             | Some fd => is_list fd || (length (snd kv) <=? 1)%nat
             | None => false
             end) (shape d).

Fixpoint denote_fuel (fuel : nat) (Sc : schema) (mi : nat) (buf : bytes) : option dmsg :=
  match fuel with
  | O => None
  | S f =>
      match nth_error Sc mi with
      | None => None
      | Some m =>
          if negb (mproto3 m) then None else
          match parse_tlvs buf with
          | None => None
          | Some tl =>
              match denote_tlvs (denote_fuel f Sc) (mfields m) tl with
              | Some d => if singular_ok (mfields m) d then Some d else None
              | None => None
              end
          end
      end
  end.
Definition denote (Sc : schema) (mi : nat) (buf : bytes) : option dmsg :=
  denote_fuel (S (length buf)) Sc mi buf.

(* ---- correspondence ---- *)

Definition obs_cres (r : cres) : obsv :=
  match r with
  | Ok b => OL [OZ 0; ozs b]
  | Err _ => OL [OZ 1]
  | Panic p => OL [OZ 2; OZ (panic_code p)]
  end.

Definition obs_hex (s : string) : obsv := ozs (unhex s).

(* input: message index, bytes *)
Definition run_canonical_raw (Sc : schema) (c : nat * bytes) : obsv :=
  obs_cres (canonical_raw Sc (fst c) (snd c)).
