(* Model of the prunable multi-producer single-consumer queue
     node/libs/concurrency/src/sync/prunable_mpsc/mod.rs   (Sender::send, Receiver::recv)
   and of its instantiation for the inbound consensus messages of the bft component
     node/components/bft/src/lib.rs   (create_input_channel, inbound_filter_predicate,
                                       inbound_selection_function).

   Grain of atomicity (H-ATOM): the closure given to watch::Sender::send_modify runs
   atomically, so one [send] (filter outside, retain pass + push_back inside the closure)
   and one successful [recv] (pop_front inside the closure) are single steps; a history of
   any number of concurrent senders and the one consumer is a list of such steps.

   A message is abstracted to what the two functions look at (H-SIG for the signature):
     imsender  rank of the public key in the `key` field of Signed<ConsensusMsg>
     imkind    0 LeaderProposalV2 | 1 ReplicaCommitV2 | 2 ReplicaTimeoutV2 | 3 ReplicaNewViewV2
     imraw     the view number field the message carries (own view for votes, the view of
               the justifying certificate for proposals and new-view messages)
     imsig     Signed::verify().is_ok()
     imid      identity of the message (everything else it contains)
   This file contains no proofs. *)
From Coq Require Import ZArith List Bool.
From EC Require Import Lib.Obs.
Import ListNotations.
Open Scope Z_scope.

(* ------------------------------------------------------------------ *)
(* prunable_mpsc, generic in the element type *)

Inductive selres := Keep | DiscardOld | DiscardNew.

Section Generic.
  Context {T : Type}.
  Variable pred : T -> bool.            (* filter_predicate *)
  Variable sel : T -> T -> selres.      (* selection_function old new *)

  (* buf.retain(|x| match sel(x, &value) { Keep => true, DiscardOld => false,
                                           DiscardNew => { keep = false; true } })
     one pass, front to back; returns (retained buffer, keep flag, removed elements).
     Nothing stops a later element from answering DiscardNew after an earlier one answered
     DiscardOld: then the old element and the new value are both lost. *)
  Fixpoint retain (buf : list T) (x : T) (keep : bool) : list T * bool * list T :=
    match buf with
    | [] => ([], keep, [])
    | y :: b =>
        match sel y x with
        | Keep => let '(b', k, d) := retain b x keep in (y :: b', k, d)
        | DiscardOld => let '(b', k, d) := retain b x keep in (b', k, y :: d)
        | DiscardNew => let '(b', k, d) := retain b x false in (y :: b', k, d)
        end
    end.

  (* Sender::send: (buffer afterwards, values destroyed by this call in buffer order, the
     new value last). *)
  Definition send_full (buf : list T) (x : T) : list T * list T :=
    if pred x then
      let '(b, k, d) := retain buf x true in
      if k then (b ++ [x], d) else (b, d ++ [x])
    else (buf, [x]).

  Definition send (buf : list T) (x : T) : list T := fst (send_full buf x).
  Definition dropped (buf : list T) (x : T) : list T := snd (send_full buf x).

  (* Receiver::recv when it does not block: pop_front.  On an empty buffer recv waits; the
     model reports None and leaves the buffer unchanged (no step happens). *)
  Definition recv (buf : list T) : option T * list T :=
    match buf with
    | [] => (None, [])
    | y :: b => (Some y, b)
    end.

  Inductive op := Send (x : T) | Recv.

  (* state of a history: pending buffer, received so far, destroyed so far, sent so far
     (the last three in order of occurrence) *)
  Record hist := { hbuf : list T; hrecv : list T; hdrop : list T; hsent : list T }.
  Definition hist0 : hist := {| hbuf := []; hrecv := []; hdrop := []; hsent := [] |}.

  Definition step (h : hist) (o : op) : hist :=
    match o with
    | Send x =>
        let '(b, d) := send_full (hbuf h) x in
        {| hbuf := b; hrecv := hrecv h; hdrop := hdrop h ++ d; hsent := hsent h ++ [x] |}
    | Recv =>
        match recv (hbuf h) with
        | (None, _) => h
        | (Some y, b) =>
            {| hbuf := b; hrecv := hrecv h ++ [y]; hdrop := hdrop h; hsent := hsent h |}
        end
    end.

  Definition run (ops : list op) : hist := fold_left step ops hist0.
End Generic.

Arguments op : clear implicits.
Arguments Send {T} x.
Arguments Recv {T}.

(* ------------------------------------------------------------------ *)
(* the bft instantiation *)

Record imsg := { imsender : Z; imkind : Z; imraw : Z; imsig : bool; imid : Z }.

(* ConsensusMsg::view_number(): LeaderProposal and ReplicaNewView answer
   justification.view() = (view of the certificate).next(); votes answer view.number.
   The decoder rejects certificates claiming view u64::MAX (repair of finding F6), so the
   successor does not overflow on messages that came from the wire. *)
Definition has_justification (k : Z) : bool := (k =? 0) || (k =? 3).
Definition imview (m : imsg) : Z := if has_justification (imkind m) then imraw m + 1 else imraw m.

(* inbound_filter_predicate: new_req.msg.verify().is_ok() *)
Definition inbound_filter (m : imsg) : bool := imsig m.

(* inbound_selection_function *)
Definition inbound_select (old new : imsg) : selres :=
  if negb (imsender old =? imsender new) || negb (imkind old =? imkind new) then Keep
  else if imview old <? imview new then DiscardOld
  else DiscardNew.

Definition qsend := send inbound_filter inbound_select.
Definition qsend_full := send_full inbound_filter inbound_select.
Definition qstep := step inbound_filter inbound_select.
Definition qrun := run inbound_filter inbound_select.

(* (sender, kind): what the queue keys on *)
Definition imkey (m : imsg) : Z * Z := (imsender m, imkind m).
Definition samekey (a b : imsg) : bool :=
  (imsender a =? imsender b) && (imkind a =? imkind b).

(* ------------------------------------------------------------------ *)
(* observation encoding for the correspondence *)

Definition obs_sel (r : selres) : obsv :=
  OZ (match r with Keep => 0 | DiscardOld => 1 | DiscardNew => 2 end).

Definition obs_msg (m : imsg) : obsv :=
  OL [OZ (imsender m); OZ (imkind m); OZ (imview m); OZ (imid m)].

(* One queue script on create_input_channel(): for every op
     send -> [0, ids of the messages destroyed by this call]
     recv -> [1, [], or [descriptor of the message returned]]
   followed by the descriptors of the messages still pending, front to back. *)
Fixpoint run_script (buf : list imsg) (ops : list (op imsg)) : list obsv * list imsg :=
  match ops with
  | [] => ([], buf)
  | Send x :: ops' =>
      let '(b, d) := qsend_full buf x in
      let '(os, fin) := run_script b ops' in
      (OL [OZ 0; OL (map (fun m => OZ (imid m)) d)] :: os, fin)
  | Recv :: ops' =>
      let '(r, b) := match buf with [] => (None, buf) | y :: b => (Some y, b) end in
      let '(os, fin) := run_script b ops' in
      (OL [OZ 1; oopt obs_msg r] :: os, fin)
  end.

(* A script on the generic channel over small integers: pred and sel are tables
   (pred v = nth v predt; sel old new = nth (old * n + new) selt). *)
Definition tab_pred (predt : list bool) (v : Z) : bool := nth (Z.to_nat v) predt false.
Definition code_sel (c : Z) : selres :=
  if c =? 1 then DiscardOld else if c =? 2 then DiscardNew else Keep.
Definition tab_sel (n : Z) (selt : list Z) (old new : Z) : selres :=
  code_sel (nth (Z.to_nat (old * n + new)) selt 0).

Fixpoint run_generic (pred : Z -> bool) (sel : Z -> Z -> selres) (buf : list Z)
         (ops : list (op Z)) : list obsv * list Z :=
  match ops with
  | [] => ([], buf)
  | Send x :: ops' =>
      let '(os, fin) := run_generic pred sel (send pred sel buf x) ops' in
      (OL [OZ 0] :: os, fin)
  | Recv :: ops' =>
      let '(r, b) := match buf with [] => (None, buf) | y :: b => (Some y, b) end in
      let '(os, fin) := run_generic pred sel b ops' in
      (OL [OZ 1; oopt OZ r] :: os, fin)
  end.

(* What became of the message with identity [id] in a history:
   0 destroyed, 1 received, 2 still pending, 3 unknown. *)
Definition has_id (id : Z) (l : list imsg) : bool := existsb (fun m => imid m =? id) l.
Definition fate (h : hist (T := imsg)) (id : Z) : Z :=
  if has_id id (hrecv h) then 1 else if has_id id (hbuf h) then 2
  else if has_id id (hdrop h) then 0 else 3.

(* A linear history (also: a linearisation of a concurrent run) observed as a whole:
   received descriptors in order, pending descriptors, fate of every sent message in
   sending order. *)
Definition obs_hist (h : hist (T := imsg)) : obsv :=
  OL [OL (map obs_msg (hrecv h)); OL (map obs_msg (hbuf h));
      OL (map (fun m => OZ (fate h (imid m))) (hsent h))].

Inductive case :=
| CQueue (ops : list (op imsg))
| CHist (ops : list (op imsg))
| CSel (pairs : list (imsg * imsg))
| CGeneric (n : Z) (predt : list bool) (selt : list Z) (ops : list (op Z)).

Definition run_case (c : case) : obsv :=
  match c with
  | CQueue ops =>
      let '(os, fin) := run_script [] ops in
      OL [OL os; OL (map obs_msg fin)]
  | CHist ops => obs_hist (qrun ops)
  | CSel pairs =>
      OL (map (fun p => OL [obs_sel (inbound_select (fst p) (snd p));
                            ob (inbound_filter (fst p)); ob (inbound_filter (snd p))]) pairs)
  | CGeneric n predt selt ops =>
      let '(os, fin) := run_generic (tab_pred predt) (tab_sel n selt) [] ops in
      OL [OL os; OL (map OZ fin)]
  end.
