(* Glue between the source translator's output for the replica state machine (Gen/Replica*.v) and the hand
   model Model/Replica.v.  Hand written and small; part of the trusted base of Properties/C05Gen2.v.
   It fixes how the things the translator does NOT translate are read:
   - the engine (EngineManager::queue_block / wait_until_persisted / verify_payload) is the model's block store
     range + payload verdict (H-ENG), exactly as in Model.Replica.save_block / on_proposal;
   - sending on the outbound channel / the proposer watch channel is the model's ESend / ENotifyProposer effect;
   - the inner map of block_proposal_cache (payload hash -> payload) is the list of payload ids of the model. *)
From Coq Require Import ZArith List Bool.
From EC Require Import Lib.Outcome Lib.U64 Lib.RustSem Lib.Obs Model.Msgs Model.Replica.
Import ListNotations.
Open Scope Z_scope.

(* an outcome computed inside a handler *)
Definition hlift {A} (s : rstate) (x : outcome rerr A) : hres A :=
  match x with Ok a => hret s a | Err e => hfail s e | Panic p => hpanic s p end.
(* .expect(..) / .unwrap() on the Result of a state computation *)
Definition hexpect {A} (x : hres A) : hres A :=
  let '(s, es, r) := x in
  match r with Err _ => (s, es, Panic PUnwrap) | _ => (s, es, r) end.

(* ---- engine (H-ENG) ---- *)
(* EngineManager::queue_block(block): waits until the store's next block number reaches the block's number, then
   pushes it if it is exactly the next one (BlockStore::try_push, C08) *)
Definition engine_queue_block (s : rstate) (b : Z * cqc) : hres unit :=
  let n := hnum (cprop (qmsg (snd b))) in
  if r_store_next s <? n then (s, [], Err RBlocked)
  else if r_store_next s =? n then (set_store_next s (n + 1), [EQueueBlock n (fst b)], Ok tt)
  else hret s tt.
(* EngineManager::wait_until_persisted(n) after queue_block: in the model a queued block is persisted at once *)
Definition engine_wait_persisted (s : rstate) (n : Z) : hres unit := hret s tt.
(* ... and with the view deadline, for the block before a proposal: fails iff it is not stored yet *)
Definition engine_prev_persisted (s : rstate) (prev : Z) : outcome unit unit :=
  if prev <? r_store_next s then Ok tt else Err tt.
(* EngineManager::verify_payload: Ok / Err Internal (payload rejected); cancellation is not modelled *)
Definition engine_verify_payload (cfg : config) (n p : Z) : outcome bool unit :=
  if (cfirst cfg <=? n) && cpok cfg n p then Ok tt else Err true.

(* ---- channels ---- *)
Definition send_outbound (s : rstate) (m : cmsg) : hres unit := hemit s (ESend m).
Definition notify_proposer (s : rstate) (j : option justification) : hres unit :=
  match j with
  | Some j => hemit s (ENotifyProposer j)
  | None => hret s tt
  end.

(* ---- block_proposal_cache: BTreeMap<BlockNumber, HashMap<PayloadHash, Payload>> as list (Z * list Z) ---- *)
Definition payload_map_get (m : list Z) (h : Z) : option Z := if existsb (Z.eqb h) m then Some h else None.

(* ---- derived Ord on View: lexicographic on (genesis, epoch, number) ---- *)
Definition view_ge (x y : view) : bool :=
  if vgen x =? vgen y then
    if vepoch x =? vepoch y then vnum y <=? vnum x else vepoch y <? vepoch x
  else vgen y <? vgen x.
