(* Model of the ChonkyBFT replica state machine:
     components/bft/src/v2_chonky_bft/{mod,proposal,commit,timeout,new_view,block}.rs
   One call of [rstep] = one iteration of StateMachine::run (one message or the timer).
   Effects are listed in program order; persist-before-send is therefore observable.
   The execution layer is modelled by [store_first]/[store_next] (the queued range of the
   block store, blocks being persisted as soon as they are queued), a payload verdict
   function and payload sizes, all part of the configuration / state and mirrored by the
   harness (harness/src/bin/replica.rs). *)
From Coq Require Import ZArith List Bool.
From EC Require Import Lib.Outcome Lib.U64 Lib.ListW Lib.Obs Model.Msgs.
Import ListNotations.
Open Scope Z_scope.

Inductive phase := Prepare | PCommit | PTimeout.
Definition phase_eqb (a b : phase) : bool :=
  match a, b with Prepare, Prepare | PCommit, PCommit | PTimeout, PTimeout => true | _, _ => false end.

Record config := {
  cg : Z;                 (* genesis hash *)
  ce : Z;                 (* epoch *)
  cC : committee;
  cme : Z;                (* own key *)
  cfirst : Z;             (* first block of the epoch *)
  cmaxpay : Z;            (* max_payload_size *)
  cpsize : Z -> Z;        (* size of the payload with a given hash id *)
  cpok : Z -> Z -> bool;  (* execution layer verdict for (block number, payload) *)
  cchk : bool             (* overflow checks on (dev profile) *)
}.

(* leader of a view: round robin, frequency 1, everybody eligible *)
Definition cleader (cfg : config) (v : Z) : Z :=
  match nth_error (cC cfg) (Z.to_nat (v mod Z.of_nat (length (cC cfg)))) with
  | Some m => mkey m
  | None => -1
  end.
Definition ccontains (cfg : config) (k : Z) : bool :=
  match cindex (cC cfg) k with Some _ => true | None => false end.

(* ChonkyV2State: what backup_state persists *)
Record durable := {
  d_epoch : Z; d_view : Z; d_phase : phase;
  d_high_vote : option commit; d_high_cqc : option cqc; d_high_tqc : option tqc;
  d_proposals : list (Z * Z)        (* (block number, payload) *)
}.
Definition durable_default : durable :=
  {| d_epoch := 0; d_view := 0; d_phase := Prepare; d_high_vote := None; d_high_cqc := None;
     d_high_tqc := None; d_proposals := [] |}.

Record rstate := {
  r_view : Z;
  r_phase : phase;
  r_high_vote : option commit;
  r_high_cqc : option cqc;
  r_high_tqc : option tqc;
  r_cache : list (Z * list Z);                  (* block number -> payloads, sorted by number *)
  r_commit_views : list (Z * Z);                (* validator key -> latest commit view *)
  r_commit_qcs : list (Z * list (commit * cqc)); (* view -> vote -> QC under construction *)
  r_timeout_views : list (Z * Z);
  r_timeout_qcs : list (Z * tqc);
  r_store_first : Z;                             (* block store: queued.first *)
  r_store_next : Z                               (* block store: queued.next() = persisted.next() *)
}.

(* messages *)
Inductive cmsg :=
| MProposal (payload : option Z) (j : justification)
| MCommit (c : commit)
| MTimeout (t : timeout)
| MNewView (j : justification).
Record sgmsg := { m_key : Z; m_sig_ok : bool; m_msg : cmsg }.

Inductive effect :=
| EPersist (d : durable)
| ESend (m : cmsg)
| EQueueBlock (n h : Z)
| ENotifyProposer (j : justification).

(* handler errors (variant names of the Rust error enums) *)
Inductive rerr :=
| ROld | RInvalidLeader | RInvalidSignature | RInvalidMessage (sub : obsv)
| RProposalAlreadyPruned | RReproposalWithPayload | RMissingPayload | ROversizedPayload
| RMissingPreviousPayload | RInvalidPayload
| RNonValidatorSigner | RDuplicateSigner
| RBlocked          (* queue_block waits for a gap in the block store to be filled *)
| RInternal.        (* ctx::Error::Internal from the engine: the replica stops *)

(* ---------- finite maps as sorted association lists ---------- *)
Fixpoint zmap_get {A} (m : list (Z * A)) (k : Z) : option A :=
  match m with
  | [] => None
  | (k', a) :: m' => if k' =? k then Some a else zmap_get m' k
  end.
Fixpoint zmap_set {A} (m : list (Z * A)) (k : Z) (a : A) : list (Z * A) :=
  match m with
  | [] => [(k, a)]
  | (k', a') :: m' => if k' =? k then (k, a) :: m'
                      else if k <? k' then (k, a) :: m else (k', a') :: zmap_set m' k a
  end.
Definition zmap_remove {A} (m : list (Z * A)) (k : Z) : list (Z * A) :=
  filter (fun e => negb (fst e =? k)) m.

Definition cache_insert (c : list (Z * list Z)) (n p : Z) : list (Z * list Z) :=
  let old := match zmap_get c n with Some l => l | None => [] end in
  zmap_set c n (if existsb (Z.eqb p) old then old else old ++ [p]).
Definition cache_has (c : list (Z * list Z)) (n p : Z) : bool :=
  match zmap_get c n with Some l => existsb (Z.eqb p) l | None => false end.

Fixpoint cmap_get (m : list (commit * cqc)) (c : commit) : option cqc :=
  match m with
  | [] => None
  | (c', q) :: m' => if commit_eqb c' c then Some q else cmap_get m' c
  end.
Fixpoint cmap_set (m : list (commit * cqc)) (c : commit) (q : cqc) : list (commit * cqc) :=
  match m with
  | [] => [(c, q)]
  | (c', q') :: m' => if commit_eqb c' c then (c, q) :: m' else (c', q') :: cmap_set m' c q
  end.

(* ---------- state persistence ---------- *)
Definition proposals_of (c : list (Z * list Z)) : list (Z * Z) :=
  flat_map (fun e => map (fun p => (fst e, p)) (snd e)) c.

Definition backup (cfg : config) (s : rstate) : durable :=
  {| d_epoch := ce cfg; d_view := r_view s; d_phase := r_phase s; d_high_vote := r_high_vote s;
     d_high_cqc := r_high_cqc s; d_high_tqc := r_high_tqc s; d_proposals := proposals_of (r_cache s) |}.

(* StateMachine::start from the persisted state and the block store range *)
Definition rstart (cfg : config) (d : durable) (first next : Z) : rstate :=
  let d := if d_epoch d =? ce cfg then d else durable_default in
  {| r_view := d_view d; r_phase := d_phase d; r_high_vote := d_high_vote d;
     r_high_cqc := d_high_cqc d; r_high_tqc := d_high_tqc d;
     r_cache := fold_left (fun c p => cache_insert c (fst p) (snd p)) (d_proposals d) [];
     r_commit_views := []; r_commit_qcs := []; r_timeout_views := []; r_timeout_qcs := [];
     r_store_first := first; r_store_next := next |}.

(* ---------- the monad of handlers: state + effects + outcome ---------- *)
Definition hres (A : Type) := (rstate * list effect * outcome rerr A)%type.
Definition hret {A} (s : rstate) (a : A) : hres A := (s, [], Ok a).
Definition hfail {A} (s : rstate) (e : rerr) : hres A := (s, [], Err e).
Definition hpanic {A} (s : rstate) (p : panic) : hres A := (s, [], Panic p).
Definition hbind {A B} (x : hres A) (f : rstate -> A -> hres B) : hres B :=
  let '(s, es, r) := x in
  match r with
  | Ok a => let '(s', es', r') := f s a in (s', es ++ es', r')
  | Err e => (s, es, Err e)
  | Panic p => (s, es, Panic p)
  end.
Definition hemit (s : rstate) (e : effect) : hres unit := (s, [e], Ok tt).

Definition set_view (s : rstate) v := {| r_view := v; r_phase := r_phase s; r_high_vote := r_high_vote s; r_high_cqc := r_high_cqc s; r_high_tqc := r_high_tqc s; r_cache := r_cache s; r_commit_views := r_commit_views s; r_commit_qcs := r_commit_qcs s; r_timeout_views := r_timeout_views s; r_timeout_qcs := r_timeout_qcs s; r_store_first := r_store_first s; r_store_next := r_store_next s |}.
Definition set_phase (s : rstate) p := {| r_view := r_view s; r_phase := p; r_high_vote := r_high_vote s; r_high_cqc := r_high_cqc s; r_high_tqc := r_high_tqc s; r_cache := r_cache s; r_commit_views := r_commit_views s; r_commit_qcs := r_commit_qcs s; r_timeout_views := r_timeout_views s; r_timeout_qcs := r_timeout_qcs s; r_store_first := r_store_first s; r_store_next := r_store_next s |}.
Definition set_high_vote (s : rstate) x := {| r_view := r_view s; r_phase := r_phase s; r_high_vote := x; r_high_cqc := r_high_cqc s; r_high_tqc := r_high_tqc s; r_cache := r_cache s; r_commit_views := r_commit_views s; r_commit_qcs := r_commit_qcs s; r_timeout_views := r_timeout_views s; r_timeout_qcs := r_timeout_qcs s; r_store_first := r_store_first s; r_store_next := r_store_next s |}.
Definition set_high_cqc (s : rstate) x := {| r_view := r_view s; r_phase := r_phase s; r_high_vote := r_high_vote s; r_high_cqc := x; r_high_tqc := r_high_tqc s; r_cache := r_cache s; r_commit_views := r_commit_views s; r_commit_qcs := r_commit_qcs s; r_timeout_views := r_timeout_views s; r_timeout_qcs := r_timeout_qcs s; r_store_first := r_store_first s; r_store_next := r_store_next s |}.
Definition set_high_tqc (s : rstate) x := {| r_view := r_view s; r_phase := r_phase s; r_high_vote := r_high_vote s; r_high_cqc := r_high_cqc s; r_high_tqc := x; r_cache := r_cache s; r_commit_views := r_commit_views s; r_commit_qcs := r_commit_qcs s; r_timeout_views := r_timeout_views s; r_timeout_qcs := r_timeout_qcs s; r_store_first := r_store_first s; r_store_next := r_store_next s |}.
Definition set_cache (s : rstate) x := {| r_view := r_view s; r_phase := r_phase s; r_high_vote := r_high_vote s; r_high_cqc := r_high_cqc s; r_high_tqc := r_high_tqc s; r_cache := x; r_commit_views := r_commit_views s; r_commit_qcs := r_commit_qcs s; r_timeout_views := r_timeout_views s; r_timeout_qcs := r_timeout_qcs s; r_store_first := r_store_first s; r_store_next := r_store_next s |}.
Definition set_commit_caches (s : rstate) vs qs := {| r_view := r_view s; r_phase := r_phase s; r_high_vote := r_high_vote s; r_high_cqc := r_high_cqc s; r_high_tqc := r_high_tqc s; r_cache := r_cache s; r_commit_views := vs; r_commit_qcs := qs; r_timeout_views := r_timeout_views s; r_timeout_qcs := r_timeout_qcs s; r_store_first := r_store_first s; r_store_next := r_store_next s |}.
Definition set_timeout_caches (s : rstate) vs qs := {| r_view := r_view s; r_phase := r_phase s; r_high_vote := r_high_vote s; r_high_cqc := r_high_cqc s; r_high_tqc := r_high_tqc s; r_cache := r_cache s; r_commit_views := r_commit_views s; r_commit_qcs := r_commit_qcs s; r_timeout_views := vs; r_timeout_qcs := qs; r_store_first := r_store_first s; r_store_next := r_store_next s |}.
Definition set_store_next (s : rstate) x := {| r_view := r_view s; r_phase := r_phase s; r_high_vote := r_high_vote s; r_high_cqc := r_high_cqc s; r_high_tqc := r_high_tqc s; r_cache := r_cache s; r_commit_views := r_commit_views s; r_commit_qcs := r_commit_qcs s; r_timeout_views := r_timeout_views s; r_timeout_qcs := r_timeout_qcs s; r_store_first := r_store_first s; r_store_next := x |}.

(* ---------- block.rs ---------- *)
(* save_block: build the finalized block if the payload is cached, queue it, wait until it is
   persisted.  EngineManager::queue_block waits until queued.next() >= number. *)
Definition save_block (cfg : config) (s : rstate) (q : cqc) : hres unit :=
  let n := hnum (cprop (qmsg q)) in
  let h := hpay (cprop (qmsg q)) in
  if cache_has (r_cache s) n h then
    if r_store_next s <? n then (s, [], Err RBlocked)          (* waits for the gap to be filled *)
    else if r_store_next s =? n then (set_store_next s (n + 1), [EQueueBlock n h], Ok tt)
    else hret s tt                                               (* already stored: try_push is a no-op *)
  else hret s tt.

Definition backup_state (cfg : config) (s : rstate) : hres unit := hemit s (EPersist (backup cfg s)).

(* ---------- mod.rs ---------- *)
Definition process_commit_qc (cfg : config) (s : rstate) (q : cqc) : hres unit :=
  let newer := match r_high_cqc s with
               | None => true
               | Some cur => vnum (cview (qmsg cur)) <? vnum (cview (qmsg q))
               end in
  if newer then save_block cfg (set_high_cqc s (Some q)) q else hret s tt.

Definition process_timeout_qc (cfg : config) (s : rstate) (t : tqc) : hres unit :=
  hbind (match high_qc t with Some q => process_commit_qc cfg s q | None => hret s tt end)
    (fun s _ =>
       let newer := match r_high_tqc s with
                    | None => true
                    | Some old => vnum (tqview old) <? vnum (tqview t)
                    end in
       hret (if newer then set_high_tqc s (Some t) else s) tt).

Definition process_justification (cfg : config) (s : rstate) (j : justification) : hres unit :=
  match j with
  | JCommit q => process_commit_qc cfg s q
  | JTimeout t => process_timeout_qc cfg s t
  end.

(* ---------- new_view.rs ---------- *)
(* Option<&View> comparison of get_justification: None < Some, views by (genesis, epoch, number) *)
Definition view_cmp_ge (a b : option view) : bool :=
  match a, b with
  | _, None => true
  | None, Some _ => false
  | Some x, Some y =>
      if vgen x =? vgen y then
        if vepoch x =? vepoch y then vnum y <=? vnum x else vepoch y <? vepoch x
      else vgen y <? vgen x
  end.

Definition get_justification (s : rstate) : outcome rerr justification :=
  match r_high_cqc s, r_high_tqc s with
  | None, None => Panic PAssert
  | _, _ =>
      if view_cmp_ge (option_map (fun q => cview (qmsg q)) (r_high_cqc s))
                     (option_map tqview (r_high_tqc s))
      then match r_high_cqc s with Some q => Ok (JCommit q) | None => Panic PUnwrap end
      else match r_high_tqc s with Some t => Ok (JTimeout t) | None => Panic PUnwrap end
  end.

Definition start_new_view (cfg : config) (s : rstate) (v : Z) : hres unit :=
  let s := set_phase (set_view s v) Prepare in
  match get_justification s with
  | Panic p => hpanic s p
  | Err e => hfail s e
  | Ok j =>
      hbind (hemit s (ENotifyProposer j)) (fun s _ =>
      let s := match r_high_cqc s with
               | Some q => set_cache s (filter (fun e => hnum (cprop (qmsg q)) <? fst e) (r_cache s))
               | None => s
               end in
      hbind (backup_state cfg s) (fun s _ =>
      hemit s (ESend (MNewView j))))
  end.

(* ---------- timeout.rs: start_timeout ---------- *)
Definition start_timeout (cfg : config) (s : rstate) : hres unit :=
  let s := set_phase s PTimeout in
  hbind (backup_state cfg s) (fun s _ =>
  hbind (if r_view s =? 0 then hret s tt
         else match get_justification s with
              | Panic p => hpanic s p
              | Err e => hfail s e
              | Ok j => hemit s (ESend (MNewView j))
              end) (fun s _ =>
  hemit s (ESend (MTimeout {| tview := {| vgen := cg cfg; vepoch := ce cfg; vnum := r_view s |};
                              thv := r_high_vote s; thq := r_high_cqc s |})))).

(* ---------- proposal.rs ---------- *)
Definition lift {A} (s : rstate) (x : outcome unit A) : hres A :=
  match x with Ok a => hret s a | Err _ => hfail s RInternal | Panic p => hpanic s p end.

Definition on_proposal (cfg : config) (s : rstate) (key : Z) (sig_ok : bool)
    (payload : option Z) (j : justification) : hres unit :=
  hbind (lift s (justification_view (cchk cfg) j)) (fun s mv =>
  let view := vnum mv in
  if (view <? r_view s) || ((view =? r_view s) && negb (phase_eqb (r_phase s) Prepare)) then hfail s ROld else
  if negb (key =? cleader cfg view) then hfail s RInvalidLeader else
  if negb sig_ok then hfail s RInvalidSignature else
  match justification_verify (cg cfg) (ce cfg) (cC cfg) j with
  | Err e => hfail s (RInvalidMessage (just_err_obs e))
  | Panic p => hpanic s p
  | Ok _ =>
  hbind (lift s (get_implied_block (cchk cfg) (cC cfg) (cfirst cfg) j)) (fun s imp =>
  let '(n, oh) := imp in
  if n <? r_store_first s then hfail s RProposalAlreadyPruned else
  hbind (match oh with
         | Some h => match payload with Some _ => hfail s RReproposalWithPayload | None => hret s h end
         | None =>
             match payload with
             | None => hfail s RMissingPayload
             | Some p =>
                 if cmaxpay cfg <? cpsize cfg p then hfail s ROversizedPayload else
                 if (0 <? n) && negb (n - 1 <? r_store_next s) then hfail s RMissingPreviousPayload else
                 if negb ((cfirst cfg <=? n) && cpok cfg n p) then hfail s RInvalidPayload else
                 hret (set_cache s (cache_insert (r_cache s) n p)) p
             end
         end) (fun s hash =>
  let vote := {| cview := mv; cprop := {| hnum := n; hpay := hash |} |} in
  let s := set_high_vote (set_phase (set_view s view) PCommit) (Some vote) in
  hbind (process_justification cfg s j) (fun s _ =>
  hbind (backup_state cfg s) (fun s _ =>
  hemit s (ESend (MCommit vote))))))
  end).

(* ---------- commit.rs ---------- *)
Definition retain_views {A} (qcs : list (Z * A)) (views : list (Z * Z)) : list (Z * A) :=
  filter (fun e => existsb (fun kv => snd kv =? fst e) views) qcs.

Definition on_commit (cfg : config) (s : rstate) (key : Z) (sig_ok : bool) (c : commit) : hres unit :=
  if negb (ccontains cfg key) then hfail s RNonValidatorSigner else
  let v := vnum (cview c) in
  if v <? r_view s then hfail s ROld else
  if match zmap_get (r_commit_views s) key with Some v' => v <=? v' | None => false end
  then hfail s RDuplicateSigner else
  if negb sig_ok then hfail s RInvalidSignature else
  match commit_verify (cg cfg) (ce cfg) c with
  | Err e => hfail s (RInvalidMessage (OZ (view_err_code e)))
  | Panic p => hpanic s p
  | Ok _ =>
      let bucket := match zmap_get (r_commit_qcs s) v with Some b => b | None => [] end in
      let q0 := match cmap_get bucket c with Some q => q | None => cqc_new c (cC cfg) end in
      match cqc_add (cg cfg) (ce cfg) (cC cfg) q0
              {| skey := key; smsg := c; ssig := (key, RCommit c) |} with
      | Err _ => hpanic s PUnwrap        (* .expect("could not add message to CommitQC") *)
      | Panic p => hpanic s p
      | Ok q =>
          match signers_weight (E := rerr) (cC cfg) (qsigners q) with
          | Err e => hfail s e
          | Panic p => hpanic s p
          | Ok w =>
              let views := zmap_set (r_commit_views s) key v in
              let qcs := zmap_set (r_commit_qcs s) v (cmap_set bucket c q) in
              let qcs := retain_views qcs views in
              let s := set_commit_caches s views qcs in
              if w <? quorum (cC cfg) then hret s tt else
              match zmap_get qcs v with
              | None => hpanic s PUnwrap
              | Some b =>
                  match cmap_get b c with
                  | None => hpanic s PUnwrap
                  | Some qc =>
                      let s := set_commit_caches s views (zmap_remove qcs v) in
                      hbind (process_commit_qc cfg s qc) (fun s _ =>
                      hbind (lift s (num_next (cchk cfg) v)) (fun s nv =>
                      start_new_view cfg s nv))
                  end
              end
          end
      end
  end.

(* ---------- timeout.rs: on_timeout ---------- *)
Definition on_timeout (cfg : config) (s : rstate) (key : Z) (sig_ok : bool) (t : timeout) : hres unit :=
  if negb (ccontains cfg key) then hfail s RNonValidatorSigner else
  let v := vnum (tview t) in
  if v <? r_view s then hfail s ROld else
  if match zmap_get (r_timeout_views s) key with Some v' => v <=? v' | None => false end
  then hfail s RDuplicateSigner else
  if negb sig_ok then hfail s RInvalidSignature else
  match timeout_verify (cg cfg) (ce cfg) (cC cfg) t with
  | Err e => hfail s (RInvalidMessage (timeout_verify_err_obs e))
  | Panic p => hpanic s p
  | Ok _ =>
      let q0 := match zmap_get (r_timeout_qcs s) v with Some q => q | None => tqc_new (tview t) end in
      match tqc_add (cg cfg) (ce cfg) (cC cfg) q0
              {| skey := key; smsg := t; ssig := (key, TTimeout t) |} with
      | Err _ => hpanic s PUnwrap
      | Panic p => hpanic s p
      | Ok q =>
          match tqc_weight (E := rerr) (cC cfg) q with
          | Err e => hfail s e
          | Panic p => hpanic s p
          | Ok w =>
              let views := zmap_set (r_timeout_views s) key v in
              let qcs := retain_views (zmap_set (r_timeout_qcs s) v q) views in
              let s := set_timeout_caches s views qcs in
              if w <? quorum (cC cfg) then hret s tt else
              match zmap_get qcs v with
              | None => hpanic s PUnwrap
              | Some qc =>
                  let s := set_timeout_caches s views (zmap_remove qcs v) in
                  hbind (process_timeout_qc cfg s qc) (fun s _ =>
                  hbind (lift s (num_next (cchk cfg) v)) (fun s nv =>
                  start_new_view cfg s nv))
              end
          end
      end
  end.

(* ---------- new_view.rs: on_new_view ---------- *)
Definition on_new_view (cfg : config) (s : rstate) (key : Z) (sig_ok : bool) (j : justification) : hres unit :=
  hbind (lift s (justification_view (cchk cfg) j)) (fun s mv =>
  let view := vnum mv in
  if (view <? r_view s) || ((view =? r_view s) && negb (key =? cleader cfg (r_view s))) then hfail s ROld else
  if negb (ccontains cfg key) then hfail s RNonValidatorSigner else
  if negb sig_ok then hfail s RInvalidSignature else
  match justification_verify (cg cfg) (ce cfg) (cC cfg) j with
  | Err e => hfail s (RInvalidMessage (just_err_obs e))
  | Panic p => hpanic s p
  | Ok _ =>
      hbind (process_justification cfg s j) (fun s _ =>
      if r_view s <? view then start_new_view cfg s view else hret s tt)
  end).

(* ---------- one iteration of StateMachine::run ---------- *)
Inductive rinput :=
| IMsg (m : sgmsg)
| ITimer
| ISync (n h : Z).    (* the block store received finalized block (n, h) from elsewhere (block sync) *)

Definition rstep (cfg : config) (s : rstate) (i : rinput) : hres unit :=
  match i with
  | ITimer => start_timeout cfg s
  | ISync n h => if r_store_next s =? n then (set_store_next s (n + 1), [EQueueBlock n h], Ok tt) else hret s tt
  | IMsg m =>
      match m_msg m with
      | MProposal p j => on_proposal cfg s (m_key m) (m_sig_ok m) p j
      | MCommit c => on_commit cfg s (m_key m) (m_sig_ok m) c
      | MTimeout t => on_timeout cfg s (m_key m) (m_sig_ok m) t
      | MNewView j => on_new_view cfg s (m_key m) (m_sig_ok m) j
      end
  end.

(* the prologue of StateMachine::run *)
Definition rprologue (cfg : config) (s : rstate) : hres unit :=
  if r_view s =? 0 then start_timeout cfg s else hret s tt.
