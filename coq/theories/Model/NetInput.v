(* C10 — models of the code that first touches bytes / field values chosen by a peer.
   Every Rust panic site on these paths is an explicit [Panic] here, so that
   "network input cannot crash the node" is a statement to be proved and not a
   consequence of Gallina totality.  Transcribed from
     node/libs/protobuf/src/std_conv.rs                 (Duration, Timestamp, SocketAddr, BitVector, RateLimit)
     time-0.3 Duration::{new,seconds,nanoseconds,checked_add,checked_sub}
     node/libs/roles/src/validator/messages/genesis.rs  (GenesisRaw::read / build)
     node/libs/roles/src/validator/messages/v2/leader_proposal.rs (ProposalJustification::read guard, view())
     node/libs/roles/src/validator/messages/consensus.rs + block.rs (ViewNumber::next, BlockNumber::next)
     node/components/bft/src/lib.rs                     (inbound_selection_function)
     node/components/network/src/frame.rs               (recv_proto / mux_recv_proto)
     node/components/network/src/mux/{header,mod}.rs    (Header accessors, process_inbound_frames dispatch)
   Flags: [chk] = overflow-checks profile (dev) vs wrapping (release);
          [fixed]/[guard] = code after / before a repair (the "before" versions are kept
          as refutation twins). Errors are small integer codes (the harness maps messages). *)
From Coq Require Import ZArith List Bool.
From EC Require Import Lib.Outcome Lib.U64 Lib.Obs.
Import ListNotations.
Open Scope Z_scope.

(* ------------------------------------------------------------------------- *)
(* Signed machine integers *)

Definition I64_MIN : Z := -9223372036854775808.
Definition I64_MAX : Z := 9223372036854775807.
Definition I32_MIN : Z := -2147483648.
Definition I32_MAX : Z := 2147483647.
Definition in_i64 (x : Z) : Prop := I64_MIN <= x <= I64_MAX.
Definition in_i32 (x : Z) : Prop := I32_MIN <= x <= I32_MAX.
Definition in_i64b (x : Z) : bool := (I64_MIN <=? x) && (x <=? I64_MAX).
Definition wrap_i64 (x : Z) : Z := (x - I64_MIN) mod U64 + I64_MIN.

Definition i64_checked_add (a b : Z) : option Z := if in_i64b (a + b) then Some (a + b) else None.
Definition i64_checked_sub (a b : Z) : option Z := if in_i64b (a - b) then Some (a - b) else None.

(* i64 `-=` : traps with overflow checks, wraps without *)
Definition i64_sub {E} (chk : bool) (a b : Z) : outcome E Z :=
  if in_i64b (a - b) then Ok (a - b) else if chk then Panic POverflow else Ok (wrap_i64 (a - b)).

(* ------------------------------------------------------------------------- *)
(* time::Duration *)

Definition NS : Z := 1000000000.
Record dur := { dsec : Z; dnano : Z }.
Definition dur_zero : dur := {| dsec := 0; dnano := 0 |}.

(* invariant of time::Duration: |nanos| < 10^9, sign of nanos agrees with sign of seconds *)
Definition dur_valid (d : dur) : Prop :=
  in_i64 (dsec d) /\ - NS < dnano d < NS /\
  (dsec d > 0 -> dnano d >= 0) /\ (dsec d < 0 -> dnano d <= 0).

Definition dur_seconds (s : Z) : dur := {| dsec := s; dnano := 0 |}.
(* Duration::nanoseconds(i64): truncating division *)
Definition dur_nanoseconds (n : Z) : dur := {| dsec := Z.quot n NS; dnano := Z.rem n NS |}.

Definition dur_checked_add (a b : dur) : option dur :=
  match i64_checked_add (dsec a) (dsec b) with
  | None => None
  | Some s =>
      let n := dnano a + dnano b in
      if (NS <=? n) || ((s <? 0) && (0 <? n)) then
        match i64_checked_add s 1 with
        | None => None
        | Some s' => Some {| dsec := s'; dnano := n - NS |}
        end
      else if (n <=? - NS) || ((0 <? s) && (n <? 0)) then
        match i64_checked_sub s 1 with
        | None => None
        | Some s' => Some {| dsec := s'; dnano := n + NS |}
        end
      else Some {| dsec := s; dnano := n |}
  end.

Definition dur_checked_sub (a b : dur) : option dur :=
  match i64_checked_sub (dsec a) (dsec b) with
  | None => None
  | Some s =>
      let n := dnano a - dnano b in
      if (NS <=? n) || ((s <? 0) && (0 <? n)) then
        match i64_checked_add s 1 with
        | None => None
        | Some s' => Some {| dsec := s'; dnano := n - NS |}
        end
      else if (n <=? - NS) || ((0 <? s) && (n <? 0)) then
        match i64_checked_sub s 1 with
        | None => None
        | Some s' => Some {| dsec := s'; dnano := n + NS |}
        end
      else Some {| dsec := s; dnano := n |}
  end.

(* `a + b` / `a - b` on Durations: checked op + expect *)
Definition dur_add {E} (a b : dur) : outcome E dur :=
  match dur_checked_add a b with Some d => Ok d | None => Panic PUnwrap end.
Definition dur_sub {E} (a b : dur) : outcome E dur :=
  match dur_checked_sub a b with Some d => Ok d | None => Panic PUnwrap end.

(* Duration::new(seconds, nanos): the constructor used before repair dc190e4 *)
Definition dur_new {E} (s n : Z) : outcome E dur :=
  match i64_checked_add s (Z.quot n NS) with
  | None => Panic PUnwrap   (* expect("overflow constructing `time::Duration`") *)
  | Some s1 =>
      let n1 := Z.rem n NS in
      if (0 <? s1) && (n1 <? 0) then Ok {| dsec := s1 - 1; dnano := n1 + NS |}
      else if (s1 <? 0) && (0 <? n1) then Ok {| dsec := s1 + 1; dnano := n1 - NS |}
      else Ok {| dsec := s1; dnano := n1 |}
  end.

(* error codes of the std_conv readers *)
Definition E_MISSING_1 : Z := 1.
Definition E_MISSING_2 : Z := 2.
Definition E_RANGE : Z := 3.
Definition E_INVALID : Z := 4.

(* duration_from_parts.  [guard] = the additional rejection proposed in proposed_fixes/C10-1.diff *)
Definition duration_from_parts (guard : bool) (s n : Z) : outcome Z dur :=
  match dur_checked_add (dur_seconds s) (dur_nanoseconds n) with
  | None => Err E_RANGE
  | Some d =>
      if guard && (dsec d =? I64_MIN) && (dnano d <? 0) then Err E_RANGE else Ok d
  end.

(* the code before repair dc190e4 *)
Definition duration_from_parts_orig (s n : Z) : outcome Z dur := dur_new s n.

Definition duration_read (guard : bool) (s n : option Z) : outcome Z dur :=
  match s with
  | None => Err E_MISSING_1
  | Some s =>
      match n with
      | None => Err E_MISSING_2
      | Some n => duration_from_parts guard s n
      end
  end.

(* ProtoFmt::build for Duration: (seconds, nanos) with 0 <= nanos *)
Definition duration_build (chk : bool) (d : dur) : outcome Z (Z * Z) :=
  if dnano d <? 0 then
    let* s := i64_sub chk (dsec d) 1 in
    Ok (s, dnano d + NS)
  else Ok (dsec d, dnano d).

(* Utc = UNIX_EPOCH + duration; build = (self - UNIX_EPOCH).build() *)
Definition utc_read (guard : bool) (s n : option Z) : outcome Z dur :=
  let* d := duration_read guard s n in
  dur_add dur_zero d.
Definition utc_build (chk : bool) (t : dur) : outcome Z (Z * Z) :=
  let* d := dur_sub t dur_zero in
  duration_build chk d.

(* ------------------------------------------------------------------------- *)
(* SocketAddr, BitVector, RateLimit *)

(* <[u8; k]>::try_from(&ip[..]).unwrap() *)
Definition array_try_from (k len : Z) : outcome Z unit :=
  if len =? k then Ok tt else Panic PUnwrap.

(* [iplen] = number of bytes in the ip field *)
Definition sockaddr_read (iplen port : option Z) : outcome Z (Z * Z) :=
  match iplen with
  | None => Err E_MISSING_1
  | Some len =>
      let* _ := (if len =? 4 then array_try_from 4 len
                 else if len =? 16 then array_try_from 16 len
                 else Err E_INVALID) in
      match port with
      | None => Err E_MISSING_2
      | Some p => if p <=? 65535 then Ok (len, p) else Err E_RANGE   (* u16::try_from *)
      end
  end.

(* BitVec::from_bytes computes the bit length with checked_mul(8).expect *)
Definition bitvec_read (size nbytes : option Z) : outcome Z Z :=
  match size with
  | None => Err E_MISSING_1
  | Some sz =>
      match nbytes with
      | None => Err E_MISSING_2
      | Some nb =>
          if U64 <=? 8 * nb then Panic PUnwrap
          else if 8 * nb <? sz then Err E_RANGE
          else Ok sz           (* truncate(size): resulting length *)
      end
  end.
Definition bitvec_build (len : Z) : Z * Z := (len, (len + 7) / 8).

(* burst: u64 -> usize (64-bit target), refresh: Duration *)
Definition rate_read (guard : bool) (burst : option Z) (refresh : option (option Z * option Z))
  : outcome Z (Z * dur) :=
  match burst with
  | None => Err E_MISSING_1
  | Some b =>
      if U64 <=? b then Err E_RANGE else
      match refresh with
      | None => Err E_MISSING_2
      | Some (s, n) =>
          match duration_read guard s n with
          | Ok d => Ok (b, d)
          | Err e => Err (10 + e)
          | Panic p => Panic p
          end
      end
  end.
(* build: self.burst.try_into().unwrap() (usize -> u64) *)
Definition rate_build_burst (b : Z) : outcome Z Z := if b <? U64 then Ok b else Panic PUnwrap.

(* ------------------------------------------------------------------------- *)
(* GenesisRaw::read / build *)

Definition G_PV_MISSING : Z := 1.
Definition G_PV_UNSUPPORTED : Z := 2.
Definition G_SCHEDULE : Z := 3.
Definition G_CHAIN : Z := 4.
Definition G_FORK : Z := 5.
Definition G_FIRST : Z := 6.

(* [sched]: None = field absent, Some b = present and Schedule::read succeeds iff b.
   Result: (protocol version, schedule present). *)
Definition genesis_read (fixed : bool) (pv : option Z) (sched : option bool)
           (chain fork first : option Z) : outcome Z (Z * bool) :=
  match pv with
  | None => Err G_PV_MISSING
  | Some v =>
      let* has :=
        (if v =? 2 then
           match sched with
           | None => Ok false
           | Some true => Ok true
           | Some false => Err G_SCHEDULE
           end
         else if fixed then Err G_PV_UNSUPPORTED else Panic PUnreachable) in
      match chain with
      | None => Err G_CHAIN
      | Some _ =>
          match fork with
          | None => Err G_FORK
          | Some _ =>
              match first with
              | None => Err G_FIRST
              | Some _ => Ok (v, has)
              end
          end
      end
  end.

Definition genesis_build (v : Z) : outcome Z unit :=
  if v =? 2 then Ok tt else Panic PUnreachable.

(* ------------------------------------------------------------------------- *)
(* View / block successors and the justification guard *)

Definition view_next (chk : bool) (v : Z) : outcome Z Z := u64_add chk v 1.
Definition block_next (v : Z) : outcome Z Z :=
  match u64_checked_add v 1 with Some r => Ok r | None => Panic PUnwrap end.

(* ProposalJustification::read: [v] = view number claimed by the QC inside *)
Definition just_read (fixed : bool) (v : Z) : outcome Z Z :=
  if fixed then (if v <? u64_max then Ok v else Err E_RANGE) else Ok v.
(* ProposalJustification::view() on a decoded, not yet verified, justification *)
Definition just_view (chk fixed : bool) (v : Z) : outcome Z Z :=
  let* q := just_read fixed v in view_next chk q.

(* Consensus message kinds; votes carry their view, proposals / new-views carry a QC *)
Inductive mkind := KCommit | KTimeout | KNewView | KProposal.
Definition mkind_eqb (a b : mkind) : bool :=
  match a, b with
  | KCommit, KCommit | KTimeout, KTimeout | KNewView, KNewView | KProposal, KProposal => true
  | _, _ => false
  end.
Definition mkind_code (k : mkind) : Z :=
  match k with KCommit => 0 | KTimeout => 1 | KNewView => 2 | KProposal => 3 end.

(* decoding a message whose (QC) view field is v *)
Definition msg_read (fixed : bool) (k : mkind) (v : Z) : outcome Z Z :=
  match k with
  | KCommit | KTimeout => Ok v
  | KNewView | KProposal => just_read fixed v
  end.
(* ConsensusMsg::view_number() *)
Definition msg_view (chk : bool) (k : mkind) (v : Z) : outcome Z Z :=
  match k with
  | KCommit | KTimeout => Ok v
  | KNewView | KProposal => view_next chk v
  end.

Inductive selres := Keep | DiscardOld | DiscardNew.
Definition selres_code (r : selres) : Z :=
  match r with Keep => 0 | DiscardOld => 1 | DiscardNew => 2 end.

(* inbound_selection_function(old, new) *)
Definition selection (chk : bool) (same_key : bool) (ko : mkind) (vo : Z) (kn : mkind) (vn : Z)
  : outcome Z selres :=
  if negb same_key || negb (mkind_eqb ko kn) then Ok Keep else
  let* a := msg_view chk ko vo in
  let* b := msg_view chk kn vn in
  Ok (if a <? b then DiscardOld else DiscardNew).

(* ------------------------------------------------------------------------- *)
(* frame::recv_proto / mux_recv_proto: 4-byte little endian length, then the body *)

Definition F_EOF_LEN : Z := 1.
Definition F_TOO_LARGE : Z := 2.
Definition F_EOF_MSG : Z := 3.
Definition F_DECODE : Z := 4.

Record frame_res := { fr_out : outcome Z unit; fr_consumed : Z; fr_alloc : Z }.

Definition le32 (b0 b1 b2 b3 : Z) : Z := b0 + 256 * b1 + 65536 * b2 + 16777216 * b3.

Section Frame.
  (* the message decoder applied to the body; an arbitrary function *)
  Variable dec : list Z -> outcome Z unit.

  (* [fr_alloc] = size of the message buffer allocated (vec![0; msg_size] / Buffer::new(msg_size)) *)
  Definition recv_proto (max : Z) (bs : list Z) : frame_res :=
    match bs with
    | b0 :: b1 :: b2 :: b3 :: rest =>
        let n := le32 b0 b1 b2 b3 in
        if max <? n then {| fr_out := Err F_TOO_LARGE; fr_consumed := 4; fr_alloc := 0 |}
        else if Z.of_nat (length rest) <? n then
          {| fr_out := Err F_EOF_MSG; fr_consumed := 4 + Z.of_nat (length rest); fr_alloc := n |}
        else
          {| fr_out := match dec (firstn (Z.to_nat n) rest) with
                       | Ok _ => Ok tt
                       | Err _ => Err F_DECODE
                       | Panic p => Panic p
                       end;
             fr_consumed := 4 + n; fr_alloc := n |}
    | _ => {| fr_out := Err F_EOF_LEN; fr_consumed := Z.of_nat (length bs); fr_alloc := 0 |}
    end.

  (* mux_recv_proto performs the same steps on a transient stream (end of stream = error) *)
  Definition mux_recv_proto := recv_proto.
End Frame.

(* ------------------------------------------------------------------------- *)
(* mux header and the dispatch of process_inbound_frames *)

Definition FK_MASK : Z := 49152.   (* 0b11 << 14 *)
Definition FK_OPEN : Z := 0.
Definition FK_DATA : Z := 16384.
Definition FK_CLOSE : Z := 32768.
Definition SK_MASK : Z := 8192.
Definition SK_ACCEPT : Z := 0.
Definition SK_CONNECT : Z := 8192.
Definition ID_MASK : Z := 8191.

Definition frame_kind (h : Z) : Z := Z.land h FK_MASK.
Definition stream_kind (h : Z) : Z := Z.land h SK_MASK.
Definition stream_id (h : Z) : Z := Z.land h ID_MASK.

Inductive merr := MEof | MBadId | MBadKind | MFuel.
Inductive fclass := FOpenClose | FData.

(* everything the dispatch needs from the stream tables is whether the id is in range *)
Definition dispatch_core (fixed : bool) (h : Z) (id_in_range : bool) : outcome merr fclass :=
  let* _ := (if stream_kind h =? SK_ACCEPT then Ok tt
             else if stream_kind h =? SK_CONNECT then Ok tt
             else Panic PUnreachable) in
  if negb id_in_range then Err MBadId else
  let k := frame_kind h in
  if (k =? FK_OPEN) || (k =? FK_CLOSE) then Ok FOpenClose
  else if k =? FK_DATA then Ok FData
  else if fixed then Err MBadKind else Panic PUnreachable.

(* [na] / [nc] = number of accept / connect reusable streams agreed in the handshake.
   A frame sent by the peer's accept end is for our connect end and vice versa. *)
Definition table_size (na nc h : Z) : Z := if stream_kind h =? SK_ACCEPT then nc else na.
Definition dispatch (fixed : bool) (na nc h : Z) : outcome merr fclass :=
  dispatch_core fixed h (stream_id h <? table_size na nc h).

(* The read loop over the bytes that follow the handshake. Result and bytes consumed. *)
Fixpoint process (fuel : nat) (fixed : bool) (na nc : Z) (bs : list Z) (consumed : Z)
  : outcome merr unit * Z :=
  match fuel with
  | O => (Err MFuel, consumed)
  | S fuel' =>
      match bs with
      | b0 :: b1 :: rest =>
          match dispatch fixed na nc (b0 + 256 * b1) with
          | Panic p => (Panic p, consumed + 2)
          | Err e => (Err e, consumed + 2)
          | Ok FOpenClose => process fuel' fixed na nc rest (consumed + 2)
          | Ok FData =>
              match rest with
              | l0 :: l1 :: rest' =>
                  let len := l0 + 256 * l1 in
                  if Z.of_nat (length rest') <? len then
                    (Err MEof, consumed + 4 + Z.of_nat (length rest'))
                  else process fuel' fixed na nc (skipn (Z.to_nat len) rest') (consumed + 4 + len)
              | _ => (Err MEof, consumed + 2 + Z.of_nat (length rest))
              end
          end
      | _ => (Err MEof, consumed + Z.of_nat (length bs))
      end
  end.

Definition mux_run (fixed : bool) (na nc : Z) (bs : list Z) : outcome merr unit * Z :=
  process (S (length bs)) fixed na nc bs 0.

Definition bytes_ok (bs : list Z) : Prop := Forall (fun b => 0 <= b < 256) bs.

(* ------------------------------------------------------------------------- *)
(* observation encoding and the correspondence driver *)

Definition obs_out {A} (f : A -> list obsv) (r : outcome Z A) : obsv :=
  match r with
  | Ok a => OL (OZ 0 :: f a)
  | Err e => OL [OZ 2; OZ e]
  | Panic p => OL [OZ 1; OZ (panic_code p)]
  end.

Definition obs_pair (p : Z * Z) : list obsv := [OZ (fst p); OZ (snd p)].

Definition obs_dur_rb (r : outcome Z dur) (build : dur -> outcome Z (Z * Z)) : obsv :=
  obs_out (fun d => [OZ (dsec d); OZ (dnano d); obs_out obs_pair (build d)]) r.

Definition merr_code (e : merr) : Z :=
  match e with MEof => 0 | MBadId => 2 | MBadKind => 3 | MFuel => 8 end.
Definition obs_mux (r : outcome merr unit * Z) : obsv :=
  match fst r with
  | Ok _ => OL [OZ 11; OZ (snd r)]
  | Err e => OL [OZ (merr_code e); OZ (snd r)]
  | Panic _ => OL [OZ 9; OZ (snd r)]
  end.

(* run-length encoding of a list of observations: [[obs, count], ...] *)
Definition rle_push (x : obsv) (acc : list (obsv * Z)) : list (obsv * Z) :=
  match acc with
  | (y, n) :: acc' => if obsv_eqb x y then (y, n + 1) :: acc' else (x, 1) :: acc
  | [] => [(x, 1)]
  end.
Definition rle (l : list obsv) : obsv :=
  OL (map (fun p => OL [fst p; OZ (snd p)]) (rev (fold_left (fun acc x => rle_push x acc) l []))).

Fixpoint zseq (from : Z) (n : nat) : list Z :=
  match n with O => [] | S n' => from :: zseq (from + 1) n' end.
Definition headers (from count : Z) : list Z := zseq from (Z.to_nat count).

Inductive case :=
| CDur (guard chk : bool) (s n : option Z)
| CTs (guard chk : bool) (s n : option Z)
| CDurNew (s n : Z)
| CAddr (iplen port : option Z)
| CBits (size nbytes : option Z)
| CRate (guard : bool) (burst : option Z) (refresh : option (option Z * option Z))
| CGenesis (fixed : bool) (pv : option Z) (sched : option bool) (chain fork first : option Z)
| CJust (chk fixed : bool) (v : Z)
| CSel (chk : bool) (same_key : bool) (ko : mkind) (vo : Z) (kn : mkind) (vn : Z)
| CFrame (max : Z) (bs : list Z) (body : Z)       (* body: 0 decodes, 1 rejected, 9 panics *)
| CMuxFrame (max : Z) (bs : list Z) (body : Z)  (* mux_recv_proto on a transient stream that ends after bs *)
| CMux (fixed : bool) (na nc : Z) (bs : list Z)
| CMuxSweep (fixed : bool) (na nc : Z) (from count : Z) (tail : list Z)
| CParts (hs : list Z).

Definition run_case (c : case) : obsv :=
  match c with
  | CDur guard chk s n => obs_dur_rb (duration_read guard s n) (duration_build chk)
  | CTs guard chk s n => obs_dur_rb (utc_read guard s n) (utc_build chk)
  | CDurNew s n => obs_out (fun d => [OZ (dsec d); OZ (dnano d)]) (duration_from_parts_orig s n)
  | CAddr l p => obs_out obs_pair (sockaddr_read l p)
  | CBits sz nb => obs_out (fun l => obs_pair (bitvec_build l)) (bitvec_read sz nb)
  | CRate guard b r =>
      obs_out (fun x => [OZ (fst x); obs_out (fun y => [OZ y]) (rate_build_burst (fst x))])
              (rate_read guard b r)
  | CGenesis fixed pv sched chain fork first =>
      obs_out (fun x => [OZ (fst x); ob (snd x); obs_out (fun _ => []) (genesis_build (fst x))])
              (genesis_read fixed pv sched chain fork first)
  | CJust chk fixed v =>
      OL [ obs_out (fun x => [OZ x]) (view_next chk v);
           obs_out (fun x => [OZ x]) (block_next v);
           obs_out (fun q => [obs_out (fun x => [OZ x]) (view_next chk q)]) (just_read fixed v) ]
  | CSel chk sk ko vo kn vn => obs_out (fun r => [OZ (selres_code r)]) (selection chk sk ko vo kn vn)
  | CFrame max bs body =>
      let dec := fun _ : list Z =>
                   if body =? 0 then Ok tt else if body =? 1 then Err 0 else Panic PUnwrap in
      let r := recv_proto dec max bs in
      OL [obs_out (fun _ => []) (fr_out r); OZ (fr_consumed r)]
  | CMuxFrame max bs body =>
      let dec := fun _ : list Z =>
                   if body =? 0 then Ok tt else if body =? 1 then Err 0 else Panic PUnwrap in
      (* both "end of stream" errors carry the same message on a transient stream *)
      match fr_out (mux_recv_proto dec max bs) with
      | Ok _ => OL [OZ 0]
      | Err e => OL [OZ (if (e =? F_EOF_LEN) || (e =? F_EOF_MSG) then 13 else e)]
      | Panic _ => OL [OZ 9]
      end
  | CMux fixed na nc bs => obs_mux (mux_run fixed na nc bs)
  | CMuxSweep fixed na nc from count tail =>
      rle (map (fun h => obs_mux (mux_run fixed na nc ((h mod 256) :: (h / 256) :: tail)))
               (headers from count))
  | CParts hs =>
      OL (map (fun h => OL [OZ (frame_kind h); OZ (stream_kind h); OZ (stream_id h)]) hs)
  end.
