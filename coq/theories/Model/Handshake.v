(* C12 — model of the connection handshakes of the gossip network
   (network/src/gossip/handshake/mod.rs) and of the validator network
   (network/src/consensus/handshake/mod.rs).

   Signatures are symbolic terms (H-SIG): [SSig k sid] is the signature of key [k] over the
   message "SessionId sid" (the Msg variant tag separates it from every other signed message);
   verification accepts exactly that term for (k, sid).  Session ids are abstract integers
   (H-SID): a noise session has one id, shared by exactly its two endpoints, and two different
   sessions have different ids.  Keys and genesis hashes are integers (pool indices).

   The four decision functions are transcribed check by check in program order.  *)
From Coq Require Import ZArith List Bool.
From EC Require Import Lib.Obs Lib.Outcome.
Import ListNotations.
Open Scope Z_scope.

(* ---------- symbolic messages ---------- *)

Inductive sigt : Type :=
| SSig (k sid : Z)     (* signature by key k over SessionId(sid) *)
| SBad.                (* bytes that are a signature of no SessionId message *)

Definition sig_eqb (a b : sigt) : bool :=
  match a, b with
  | SSig k s, SSig k' s' => (k =? k') && (s =? s')
  | SBad, SBad => true
  | _, _ => false
  end.

(* node::Signed::verify / validator::Signed::verify on msg = SessionId(sid), key = k *)
Definition verify (k sid : Z) (s : sigt) : bool :=
  match s with
  | SSig k' sid' => (k' =? k) && (sid' =? sid)
  | SBad => false
  end.

(* Handshake { session_id: Signed{msg, key, sig}, genesis, is_static, build_version }.
   build_version is never read by the decision; is_static is carried to show the same. *)
Record hmsg : Type := {
  m_sid : Z;
  m_key : Z;
  m_sig : sigt;
  m_gen : Z;
  m_static : bool;
}.

(* What frame::recv_proto yields: a well-formed handshake message, or an error (closed stream,
   oversized frame, undecodable protobuf, missing required field, timeout) -> Error::Stream. *)
Inductive recv : Type :=
| RMsg (m : hmsg)
| RClosed.

Inductive herr : Type :=
| EGenesisMismatch
| ESessionIdMismatch
| EPeerMismatch
| ESignature
| EStream.

(* ---------- the four decision functions (the code after the receive) ---------- *)

(* gossip::handshake::outbound : genesis, session id, expected peer, signature *)
Definition gossip_outbound (own_sid gen peer : Z) (r : recv) : outcome herr Z :=
  match r with
  | RClosed => Err EStream
  | RMsg h =>
      if negb (m_gen h =? gen) then Err EGenesisMismatch else
      if negb (m_sid h =? own_sid) then Err ESessionIdMismatch else
      if negb (m_key h =? peer) then Err EPeerMismatch else
      if negb (verify (m_key h) (m_sid h) (m_sig h)) then Err ESignature else
      Ok (m_key h)
  end.

(* gossip::handshake::inbound : session id, genesis, signature *)
Definition gossip_inbound (own_sid gen : Z) (r : recv) : outcome herr Z :=
  match r with
  | RClosed => Err EStream
  | RMsg h =>
      if negb (m_sid h =? own_sid) then Err ESessionIdMismatch else
      if negb (m_gen h =? gen) then Err EGenesisMismatch else
      if negb (verify (m_key h) (m_sid h) (m_sig h)) then Err ESignature else
      Ok (m_key h)
  end.

(* consensus::handshake::outbound : genesis, session id, expected peer, signature.
   Rust returns Ok(()) and the caller attributes the connection to [peer]; the model
   returns the key the connection is attributed to. *)
Definition validator_outbound (own_sid gen peer : Z) (r : recv) : outcome herr Z :=
  match r with
  | RClosed => Err EStream
  | RMsg h =>
      if negb (m_gen h =? gen) then Err EGenesisMismatch else
      if negb (m_sid h =? own_sid) then Err ESessionIdMismatch else
      if negb (m_key h =? peer) then Err EPeerMismatch else
      if negb (verify (m_key h) (m_sid h) (m_sig h)) then Err ESignature else
      Ok peer
  end.

(* consensus::handshake::inbound : genesis, session id, signature *)
Definition validator_inbound (own_sid gen : Z) (r : recv) : outcome herr Z :=
  match r with
  | RClosed => Err EStream
  | RMsg h =>
      if negb (m_gen h =? gen) then Err EGenesisMismatch else
      if negb (m_sid h =? own_sid) then Err ESessionIdMismatch else
      if negb (verify (m_key h) (m_sid h) (m_sig h)) then Err ESignature else
      Ok (m_key h)
  end.

(* ---------- an endpoint running one of the four functions ---------- *)

Inductive net : Type := Gossip | Validator.
Inductive role : Type := ROut (peer : Z) | RIn.

Record epcfg : Type := {
  e_net : net;
  e_key : Z;            (* own key (cfg.gossip.key / validator key) *)
  e_gen : Z;            (* own genesis hash *)
  e_role : role;
  e_statics : list Z;   (* gossip: static_outbound keys (outbound) / static_inbound (inbound) *)
}.

Definition memz (k : Z) (l : list Z) : bool := existsb (Z.eqb k) l.

Definition decide (c : epcfg) (own_sid : Z) (r : recv) : outcome herr Z :=
  match e_net c, e_role c with
  | Gossip, ROut p => gossip_outbound own_sid (e_gen c) p r
  | Gossip, RIn => gossip_inbound own_sid (e_gen c) r
  | Validator, ROut p => validator_outbound own_sid (e_gen c) p r
  | Validator, RIn => validator_inbound own_sid (e_gen c) r
  end.

(* The handshake message an endpoint signs and sends: always over its OWN session id. *)
Definition own_msg (c : epcfg) (own_sid : Z) (static : bool) : hmsg :=
  {| m_sid := own_sid; m_key := e_key c; m_sig := SSig (e_key c) own_sid;
     m_gen := e_gen c; m_static := static |}.

Definition static_flag (c : epcfg) (k : Z) : bool :=
  match e_net c with Gossip => memz k (e_statics c) | Validator => false end.

(* outbound sends before it receives; inbound sends nothing at that point *)
Definition emit_open (c : epcfg) (own_sid : Z) : option hmsg :=
  match e_role c with
  | ROut p => Some (own_msg c own_sid (static_flag c p))
  | RIn => None
  end.

(* inbound answers only after every check passed *)
Definition emit_accept (c : epcfg) (own_sid : Z) (res : outcome herr Z) : option hmsg :=
  match e_role c, res with
  | RIn, Ok k => Some (own_msg c own_sid (static_flag c k))
  | _, _ => None
  end.

(* ---------- the system: sessions, honest endpoints, Dolev-Yao adversary ---------- *)

(* A trace, newest event first.  An endpoint is (session id, side); a session has the two
   sides [true] (the connecting end) and [false] (the accepting end) and nothing else (H-SID). *)
Inductive event : Type :=
| EvOpen (sid : Z) (side : bool) (c : epcfg)            (* a node starts its handshake there *)
| EvEmit (sid : Z) (side : bool) (m : hmsg)             (* it sent m into the session *)
| EvDone (sid : Z) (side : bool) (res : outcome herr Z). (* its handshake function returned *)

Definition trace := list event.

Fixpoint find_open (tr : trace) (sid : Z) (side : bool) : option epcfg :=
  match tr with
  | [] => None
  | EvOpen s d c :: tr' => if (s =? sid) && Bool.eqb d side then Some c else find_open tr' sid side
  | _ :: tr' => find_open tr' sid side
  end.

Fixpoint is_done (tr : trace) (sid : Z) (side : bool) : bool :=
  match tr with
  | [] => false
  | EvDone s d _ :: tr' => ((s =? sid) && Bool.eqb d side) || is_done tr' sid side
  | _ :: tr' => is_done tr' sid side
  end.

(* does the trace contain an emitted message carrying exactly the signature s ? *)
Fixpoint sig_emitted (tr : trace) (s : sigt) : bool :=
  match tr with
  | [] => false
  | EvEmit _ _ m :: tr' => sig_eqb (m_sig m) s || sig_emitted tr' s
  | _ :: tr' => sig_emitted tr' s
  end.

(* H-ADV: the adversary signs with every key that is not honest; a signature of an honest
   key in a message it delivers is a copy of one an honest endpoint emitted earlier (it sees
   every message of every session, including those it relays). *)
Definition sig_known (honest : Z -> bool) (tr : trace) (s : sigt) : bool :=
  match s with
  | SSig k _ => negb (honest k) || sig_emitted tr s
  | SBad => true
  end.

Inductive action : Type :=
| AOpen (sid : Z) (side : bool) (c : epcfg)
| ADeliver (sid : Z) (side : bool) (r : recv).   (* the network (= adversary) hands r to the endpoint *)

Definition opt_emit (sid : Z) (side : bool) (o : option hmsg) : trace :=
  match o with Some m => [EvEmit sid side m] | None => [] end.

(* None = the action is not enabled in this state *)
Definition step (honest : Z -> bool) (tr : trace) (a : action) : option trace :=
  match a with
  | AOpen sid side c =>
      match find_open tr sid side with
      | Some _ => None
      | None => Some (opt_emit sid side (emit_open c sid) ++ EvOpen sid side c :: tr)
      end
  | ADeliver sid side r =>
      match find_open tr sid side with
      | None => None
      | Some c =>
          if is_done tr sid side then None else
          let ok := match r with RMsg m => sig_known honest tr (m_sig m) | RClosed => true end in
          if negb ok then None else
          let res := decide c sid r in
          Some (opt_emit sid side (emit_accept c sid res) ++ EvDone sid side res :: tr)
      end
  end.

Fixpoint run (honest : Z -> bool) (tr : trace) (acts : list action) : option trace :=
  match acts with
  | [] => Some tr
  | a :: acts' => match step honest tr a with
                  | None => None
                  | Some tr' => run honest tr' acts'
                  end
  end.

(* ---------- correspondence: scripts played by the harness ---------- *)

(* The adversary's message: fields copied from the emission it recorded on session [a_base]
   unless overridden.  Unresolvable (nothing recorded there yet) = it closes the stream. *)
Record mspec : Type := {
  a_base : option nat;
  a_sid : option Z;
  a_key : option Z;
  a_sig : option sigt;
  a_gen : option Z;
  a_static : option bool;
}.

Inductive advmsg : Type :=
| AMsg (s : mspec)
| AMalformed.          (* close / oversized / undecodable / other protocol's message *)

Definition odflt {A} (o : option A) (d : A) : A := match o with Some a => a | None => d end.

Definition blank : hmsg := {| m_sid := -1; m_key := -1; m_sig := SBad; m_gen := -1; m_static := false |}.

Definition resolve (recs : list (option hmsg)) (a : advmsg) : recv :=
  match a with
  | AMalformed => RClosed
  | AMsg s =>
      let base := match a_base s with
                  | None => Some blank
                  | Some j => match nth_error recs j with Some (Some m) => Some m | _ => None end
                  end in
      match base with
      | None => RClosed
      | Some b => RMsg {| m_sid := odflt (a_sid s) (m_sid b); m_key := odflt (a_key s) (m_key b);
                          m_sig := odflt (a_sig s) (m_sig b); m_gen := odflt (a_gen s) (m_gen b);
                          m_static := odflt (a_static s) (m_static b) |}
      end
  end.

Fixpoint set_nth {A} (l : list A) (i : nat) (x : A) : list A :=
  match l, i with
  | [], _ => []
  | _ :: l', O => x :: l'
  | y :: l', S i' => y :: set_nth l' i' x
  end.

(* sessions: session i has id i; all are opened first (outbound victims emit), then the
   adversary sends one message per listed session in the listed order. *)
Fixpoint play (cfgs : list epcfg) (recs : list (option hmsg)) (ress : list (option (outcome herr Z)))
              (sends : list (nat * advmsg)) : list (option hmsg) * list (option (outcome herr Z)) :=
  match sends with
  | [] => (recs, ress)
  | (i, a) :: sends' =>
      match nth_error cfgs i with
      | None => play cfgs recs ress sends'
      | Some c =>
          let sid := Z.of_nat i in
          let res := decide c sid (resolve recs a) in
          let recs' := match emit_accept c sid res with
                       | Some m => set_nth recs i (Some m)
                       | None => recs
                       end in
          play cfgs recs' (set_nth ress i (Some res)) sends'
      end
  end.

Definition herr_code (e : herr) : Z :=
  match e with
  | EGenesisMismatch => 1 | ESessionIdMismatch => 2 | EPeerMismatch => 3
  | ESignature => 4 | EStream => 5
  end.

Definition obs_res (r : outcome herr Z) : obsv :=
  match r with
  | Ok k => OL [OZ 0; OZ k]
  | Err e => OL [OZ 2; OZ (herr_code e)]
  | Panic p => OL [OZ 1; OZ (panic_code p)]
  end.

(* an emitted message as the adversary sees it: id, key, does the signature verify for
   (key, id), genesis, is_static *)
Definition obs_msg (m : hmsg) : obsv :=
  OL [OZ (m_sid m); OZ (m_key m); ob (verify (m_key m) (m_sid m) (m_sig m)); OZ (m_gen m); ob (m_static m)].

Fixpoint seqn (n : nat) (from : nat) : list nat :=
  match n with O => [] | S n' => from :: seqn n' (S from) end.

Definition run_script (c : list epcfg * list (nat * advmsg)) : obsv :=
  let '(cfgs, sends) := c in
  let recs0 := map (fun ic => emit_open (snd ic) (Z.of_nat (fst ic)))
                   (combine (seqn (length cfgs) 0) cfgs) in
  let '(recs, ress) := play cfgs recs0 (map (fun _ => None) cfgs) sends in
  OL (map (fun rr => OL [oopt obs_res (fst rr); oopt obs_msg (snd rr)]) (combine ress recs)).

(* two honest endpoints on one session (id 0): the accepting end runs first on the
   connecting end's message, then the connecting end on the answer (or on a closed stream) *)
Definition run_pair (c : epcfg * epcfg) : obsv :=
  let '(cout, cin) := c in
  match emit_open cout 0 with
  | None => OL []
  | Some m1 =>
      let rin := decide cin 0 (RMsg m1) in
      let rout := decide cout 0 (match emit_accept cin 0 rin with Some m2 => RMsg m2 | None => RClosed end) in
      OL [obs_res rout; obs_res rin]
  end.

Inductive hcase : Type :=
| CScript (c : list epcfg * list (nat * advmsg))
| CPair (c : epcfg * epcfg).

Definition run_case (c : hcase) : obsv :=
  match c with CScript s => run_script s | CPair p => run_pair p end.
