(* Model of node/components/network/src/mux/header.rs: the 16-bit frame header
   [ frame kind : 2 | stream kind : 1 | stream id : 13 ], little endian on the wire. *)
From Coq Require Import ZArith List Bool.
From EC Require Import Lib.Outcome Lib.Obs.
Import ListNotations.
Open Scope Z_scope.

Definition FK_OPEN  : Z := 0.
Definition FK_DATA  : Z := 16384.   (* 0b01 << 14 *)
Definition FK_CLOSE : Z := 32768.   (* 0b10 << 14 *)
Definition FK_MASK  : Z := 49152.   (* OPEN | DATA | CLOSE *)
Definition FK_BAD   : Z := 49152.   (* both kind bits set: not assigned *)
Definition SK_ACCEPT  : Z := 0.
Definition SK_CONNECT : Z := 8192.
Definition SK_MASK    : Z := 8192.
Definition ID_MASK    : Z := 8191.
Definition U16 : Z := 65536.

Definition frame_kind (h : Z) : Z := Z.land h FK_MASK.
Definition stream_kind (h : Z) : Z := Z.land h SK_MASK.
Definition stream_id (h : Z) : Z := Z.land h ID_MASK.

(* Header::new(FrameKind(fk), StreamKind(sk), StreamId::new(id)).0 ; StreamId::new asserts id <= MASK *)
Definition header_new (fk sk id : Z) : outcome unit Z :=
  if id <=? ID_MASK then Ok (Z.lor (Z.lor fk sk) id) else Panic PAssert.

(* Header::raw (to_le_bytes) and From<[u8;2]> (from_le_bytes) *)
Definition header_raw (h : Z) : list Z := [h mod 256; h / 256].
Definition header_of_bytes (b0 b1 : Z) : Z := b0 + 256 * b1.

Definition mk_header (fk sk : Z) (id : nat) : Z := fk + sk + Z.of_nat id.

(* The three-way match in Mux::process_inbound_frames after repair e65da50. *)
Inductive fkind_class := KOpen | KData | KClose | KBad.
Definition classify (h : Z) : fkind_class :=
  let k := frame_kind h in
  if k =? FK_OPEN then KOpen else if k =? FK_DATA then KData else if k =? FK_CLOSE then KClose else KBad.

(* ---- correspondence ---- *)
Definition obs_parts (h : Z) : obsv := OL [OZ (frame_kind h); OZ (stream_kind h); OZ (stream_id h)].
Definition obs_new (t : Z * Z * Z) : obsv :=
  let '(fk, sk, id) := t in
  match header_new fk sk id with
  | Ok h => OL (OZ 0 :: OZ h :: map OZ (header_raw h))
  | Err _ => OL [OZ 2]
  | Panic p => OL [OZ 1; OZ (panic_code p)]
  end.
Definition run_header_case (c : list Z * list (Z * Z * Z)) : obsv :=
  OL [OL (map obs_parts (fst c)); OL (map obs_new (snd c))].
