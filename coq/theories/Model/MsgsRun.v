(* Correspondence entry points for Model/Msgs.v (harness bin `qc`). *)
From Coq Require Import ZArith List Bool.
From EC Require Import Lib.Outcome Lib.U64 Lib.ListW Lib.Obs Model.Msgs.
Import ListNotations.
Open Scope Z_scope.

Inductive qop :=
| OpCqcVerify (g e : Z) (C : committee) (q : cqc)
| OpCqcAssemble (g e : Z) (C : committee) (m : commit) (votes : list (signed commit sigref))
| OpTqcVerify (g e : Z) (C : committee) (t : tqc)
| OpTqcAssemble (g e : Z) (C : committee) (v : view) (votes : list (signed timeout tsigref)) (order : list nat)
| OpImplied (g e : Z) (C : committee) (fb : Z) (j : justification)
| OpFinalBlock (g e : Z) (C : committee) (payload : Z) (q : cqc).

Definition obs_bits (b : list bool) : obsv := OL (map ob b).
Definition obs_header (h : header) : obsv := OL [OZ (hnum h); OZ (hpay h)].

Fixpoint cqc_fold (g e : Z) (C : committee) (q : cqc) (votes : list (signed commit sigref))
  : cqc * list obsv :=
  match votes with
  | [] => (q, [])
  | s :: rest =>
      let r := cqc_add g e C q s in
      let q' := match r with Ok q' => q' | _ => q end in
      let '(qf, os) := cqc_fold g e C q' rest in
      (qf, obs_outcome cqc_add_err_obs (fun _ => OL []) r :: os)
  end.

Fixpoint tqc_fold (g e : Z) (C : committee) (t : tqc) (votes : list (signed timeout tsigref))
  : tqc * list obsv :=
  match votes with
  | [] => (t, [])
  | s :: rest =>
      let r := tqc_add g e C t s in
      let t' := match r with Ok t' => t' | _ => t end in
      let '(tf, os) := tqc_fold g e C t' rest in
      (tf, obs_outcome tqc_add_err_obs (fun _ => OL []) r :: os)
  end.

Definition permute {A} (l : list A) (order : list nat) : list A :=
  flat_map (fun i => match nth_error l i with Some x => [x] | None => [] end) order.

Definition obs_weight (r : outcome unit Z) : obsv :=
  match r with Ok w => OL [OZ 0; OZ w] | Err _ => OL [OZ 2] | Panic p => OL [OZ 1; OZ (panic_code p)] end.

Definition run_op (chk : bool) (o : qop) : obsv :=
  match o with
  | OpCqcVerify g e C q => obs_outcome cqc_verify_err_obs obs_unit (cqc_verify g e C q)
  | OpCqcAssemble g e C m votes =>
      let '(q, adds) := cqc_fold g e C (cqc_new m C) votes in
      OL [OL adds; obs_bits (qsigners q); obs_outcome cqc_verify_err_obs obs_unit (cqc_verify g e C q)]
  | OpTqcVerify g e C t => obs_outcome tqc_verify_err_obs obs_unit (tqc_verify g e C t)
  | OpTqcAssemble g e C v votes order =>
      let '(t0, adds) := tqc_fold g e C (tqc_new v) votes in
      let t := {| tqview := tqview t0; tqmap := permute (tqmap t0) order; tqagg := tqagg t0 |} in
      OL [OL adds;
          OL (map (fun en => obs_bits (snd en)) (tqmap t));
          obs_weight (tqc_weight C t);
          obs_outcome tqc_verify_err_obs obs_unit (tqc_verify g e C t);
          match @high_vote unit C t with
          | Ok h => OL [OZ 0; oopt obs_header h]
          | Err _ => OL [OZ 2]
          | Panic p => OL [OZ 1; OZ (panic_code p)]
          end;
          oopt (fun q => OL [OZ (vnum (cview (qmsg q))); OZ (hnum (cprop (qmsg q))); OZ (hpay (cprop (qmsg q)))])
               (high_qc t)]
  | OpImplied g e C fb j =>
      OL [match @get_implied_block unit chk C fb j with
          | Ok (n, h) => OL [OZ 0; OL [OZ n; oopt OZ h]]
          | Err _ => OL [OZ 2]
          | Panic p => OL [OZ 1; OZ (panic_code p)]
          end;
          match @justification_view unit chk j with
          | Ok v => OL [OZ 0; OZ (vnum v)]
          | Err _ => OL [OZ 2]
          | Panic p => OL [OZ 1; OZ (panic_code p)]
          end;
          obs_outcome just_err_obs obs_unit (justification_verify g e C j)]
  | OpFinalBlock g e C p q => obs_outcome block_err_obs obs_unit (final_block_verify g e C p q)
  end.
