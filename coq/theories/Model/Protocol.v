(* The concrete global transition system of ChonkyBFT for one committee / one epoch
   (DESIGN.md §4.5): the honest validators run the replica model of Model/Replica.v
   (one [rstep_t] per delivered message or timer, with crashes at persist points and
   restarts exactly as Model/ReplicaRun.v runs them), the network is a monotone soup of
   every message ever sent, and the adversary owns the network, the Byzantine validators'
   keys and the schedule.

   THIS FILE IS PART OF THE TRUSTED MODEL.  What it fixes:
   - which messages honest nodes put on the network (exactly the ESend effects of the
     replica model, in program order, and only the effects that happen before a crash point);
   - what is durable (exactly the EPersist effects that were applied);
   - what the adversary may inject (H-ADV below): anything, except (a) messages carrying a
     valid outer signature of an honest key, and (b) certificates containing a signature
     of an honest key over a vote that this key never sent.
   Ghost components ([g_plog], [g_qlog]) record history and influence nothing. *)
From Coq Require Import ZArith List Bool.
From EC Require Import Lib.Outcome Lib.U64 Lib.ListW Lib.Obs Model.Msgs Model.Replica Model.ReplicaRun.
Import ListNotations.
Open Scope Z_scope.

(* ---------- parameters: everything of Replica.config except the node's own key ---------- *)
Record params := {
  p_g : Z;                     (* genesis hash *)
  p_e : Z;                     (* epoch *)
  p_C : committee;             (* validators sorted by key *)
  p_first : Z;                 (* first block of the epoch *)
  p_maxpay : Z;
  p_psize : Z -> Z;
  p_pok : Z -> Z -> bool;      (* execution layer verdict *)
  p_byz : Z -> bool            (* Byzantine indicator on keys *)
}.

Definition pcfg (P : params) (k : Z) : config :=
  {| cg := p_g P; ce := p_e P; cC := p_C P; cme := k; cfirst := p_first P;
     cmaxpay := p_maxpay P; cpsize := p_psize P; cpok := p_pok P; cchk := true |}.

Definition is_member (P : params) (k : Z) : bool := existsb (fun m => mkey m =? k) (p_C P).
Definition honestb (P : params) (k : Z) : bool := is_member P k && negb (p_byz P k).
Definition byz_bitmap (P : params) : list bool := map (fun m => p_byz P (mkey m)) (p_C P).

(* standing assumptions: distinct keys, positive weights, Byzantine weight at most f *)
Definition params_ok (P : params) : Prop :=
  NoDup (map mkey (p_C P)) /\ Forall (fun m => 0 < mweight m) (p_C P) /\ 1 <= ctotal (p_C P) /\
  weight (cweights (p_C P)) (byz_bitmap P) <= (ctotal (p_C P) - 1) / 5.

(* ---------- H-ADV: which honest signatures exist ---------- *)
(* key k put message x on the network under its own (valid) outer signature *)
Definition sent_commitb (soup : list sgmsg) (k : Z) (c : commit) : bool :=
  existsb (fun m => m_sig_ok m && (m_key m =? k) &&
                    match m_msg m with MCommit c' => commit_eqb c' c | _ => false end) soup.
Definition sent_timeoutb (soup : list sgmsg) (k : Z) (t : timeout) : bool :=
  existsb (fun m => m_sig_ok m && (m_key m =? k) &&
                    match m_msg m with MTimeout t' => timeout_eqb t' t | _ => false end) soup.

(* every signature of an honest key inside the aggregate of a commit certificate is over a
   commit vote that this key sent *)
Definition cqc_knownb (P : params) (soup : list sgmsg) (q : cqc) : bool :=
  forallb (fun ks => match snd ks with
                     | RCommit c => negb (honestb P (fst ks)) || sent_commitb soup (fst ks) c
                     | ROther _ => true
                     end) (qagg q).
Definition timeout_knownb (P : params) (soup : list sgmsg) (t : timeout) : bool :=
  match thq t with Some q => cqc_knownb P soup q | None => true end.
(* the same for the aggregate of a timeout certificate and for every commit certificate
   nested in its entries *)
Definition tqc_knownb (P : params) (soup : list sgmsg) (t : tqc) : bool :=
  forallb (fun ks => match snd ks with
                     | TTimeout x => negb (honestb P (fst ks)) || sent_timeoutb soup (fst ks) x
                     | TOther _ => true
                     end) (tqagg t)
  && forallb (fun en => timeout_knownb P soup (fst en)) (tqmap t).
Definition just_knownb (P : params) (soup : list sgmsg) (j : justification) : bool :=
  match j with JCommit q => cqc_knownb P soup q | JTimeout t => tqc_knownb P soup t end.
Definition sigs_known (P : params) (soup : list sgmsg) (x : cmsg) : bool :=
  match x with
  | MProposal _ j | MNewView j => just_knownb P soup j
  | MCommit _ => true
  | MTimeout t => timeout_knownb P soup t
  end.

(* what the adversary may add to the soup *)
Definition adv_ok (P : params) (soup : list sgmsg) (m : sgmsg) : Prop :=
  (m_sig_ok m = true -> honestb P (m_key m) = false) /\ sigs_known P soup (m_msg m) = true.

(* ---------- one node ---------- *)
Record node := {
  n_live : rstate;                      (* volatile state of the current incarnation *)
  n_dur : durable;                      (* last applied durable write *)
  n_alive : bool;                       (* false after Panic / RBlocked / RInternal, until a restart *)
  n_notify : option justification       (* last justification handed to the proposer task *)
}.

Definition stops (r : outcome rerr unit) : bool :=
  match r with Panic _ | Err RBlocked | Err RInternal => true | _ => false end.
Definition notify_upd (old : option justification) (es : list effect) : option justification :=
  match last_notify es with Some j => Some j | None => old end.

(* a complete handler invocation (ReplicaRun.run_op, OpIn) *)
Definition node_input (cfg : config) (nd : node) (i : rinput) : node * list effect :=
  let '(s', es, r) := rstep_t cfg (n_live nd) i in
  let '(d', _) := apply_effects (n_dur nd) (r_store_next (n_live nd)) es in
  ({| n_live := s'; n_dur := d'; n_alive := negb (stops r);
      n_notify := notify_upd (n_notify nd) es |}, es).

(* StateMachine::start from a durable state and block store range, then the prologue of run *)
Definition node_boot (cfg : config) (d : durable) (first next : Z) : node * list effect :=
  let s0 := rstart cfg d first next in
  let '(s1, es, r) := rprologue cfg s0 in
  let '(d1, _) := apply_effects d next es in
  ({| n_live := s1; n_dur := d1; n_alive := is_ok r; n_notify := last_notify es |}, es).

(* a crash at the j-th persist of a handler invocation, the write applied or not
   (ReplicaRun.run_op, OpCrash): only the effects before the crash point happen, then the node
   restarts from what is durable.  None: the invocation has no j-th persist. *)
Definition node_crash (cfg : config) (nd : node) (i : rinput) (j : nat) (applied : bool)
  : option (node * list effect) :=
  let '(_, es, _) := rstep_t cfg (n_live nd) i in
  match cut_at_persist es j applied with
  | None => None
  | Some pre =>
      let '(d', next') := apply_effects (n_dur nd) (r_store_next (n_live nd)) pre in
      let '(nd', es1) := node_boot cfg d' (r_store_first (n_live nd)) next' in
      Some (nd', pre ++ es1)
  end.

(* clean stop and restart (ReplicaRun.run_op, OpRestart); also revives a stopped node *)
Definition node_restart (cfg : config) (nd : node) : node * list effect :=
  node_boot cfg (n_dur nd) (r_store_first (n_live nd)) (r_store_next (n_live nd)).

(* ---------- global state ---------- *)
Record gstate := {
  g_node : Z -> node;                   (* only the honest keys matter *)
  g_soup : list sgmsg;                  (* every message ever put on the network *)
  g_plog : list (Z * durable);          (* ghost: every durable write ever applied, in order *)
  g_qlog : list (Z * Z * Z)             (* ghost: every (key, number, hash) ever queued / synced *)
}.

Definition sends_of (k : Z) (es : list effect) : list sgmsg :=
  flat_map (fun e => match e with
                     | ESend x => [{| m_key := k; m_sig_ok := true; m_msg := x |}]
                     | _ => []
                     end) es.
Definition persists_of (k : Z) (es : list effect) : list (Z * durable) :=
  flat_map (fun e => match e with EPersist d => [(k, d)] | _ => [] end) es.
Definition queued_of (k : Z) (es : list effect) : list (Z * Z * Z) :=
  flat_map (fun e => match e with EQueueBlock n h => [(k, n, h)] | _ => [] end) es.

Definition set_node (f : Z -> node) (k : Z) (nd : node) : Z -> node :=
  fun k' => if k' =? k then nd else f k'.

(* node k moves to [fst x] and the effects [snd x] happen *)
Definition absorb (s : gstate) (k : Z) (x : node * list effect) : gstate :=
  {| g_node := set_node (g_node s) k (fst x);
     g_soup := g_soup s ++ sends_of k (snd x);
     g_plog := g_plog s ++ persists_of k (snd x);
     g_qlog := g_qlog s ++ queued_of k (snd x) |}.

Definition add_msg (s : gstate) (m : sgmsg) : gstate :=
  {| g_node := g_node s; g_soup := g_soup s ++ [m]; g_plog := g_plog s; g_qlog := g_qlog s |}.

(* initial state: every node starts from an empty disk and an empty block store *)
Definition honest_keys (P : params) : list Z := filter (honestb P) (map mkey (p_C P)).
Definition boot0 (P : params) (k : Z) : node * list effect :=
  node_boot (pcfg P k) durable_default (p_first P) (p_first P).
Definition ginit (P : params) : gstate :=
  {| g_node := fun k => fst (boot0 P k);
     g_soup := flat_map (fun k => sends_of k (snd (boot0 P k))) (honest_keys P);
     g_plog := flat_map (fun k => persists_of k (snd (boot0 P k))) (honest_keys P);
     g_qlog := flat_map (fun k => queued_of k (snd (boot0 P k))) (honest_keys P) |}.

(* inputs at which a crash can be placed *)
Definition crash_input (s : gstate) (i : rinput) : Prop :=
  match i with IMsg m => In m (g_soup s) | ITimer => True | ISync _ _ => False end.

Inductive pstep (P : params) : gstate -> gstate -> Prop :=
(* any message of the soup, to any live honest node, any number of times, in any order *)
| PDeliver s k m :
    honestb P k = true -> n_alive (g_node s k) = true -> In m (g_soup s) ->
    pstep P s (absorb s k (node_input (pcfg P k) (g_node s k) (IMsg m)))
(* the view timer may fire at any time *)
| PTimer s k :
    honestb P k = true -> n_alive (g_node s k) = true ->
    pstep P s (absorb s k (node_input (pcfg P k) (g_node s k) ITimer))
(* crash inside a handler invocation, at a persist point, the write applied or not *)
| PCrash s k i j applied x :
    honestb P k = true -> n_alive (g_node s k) = true -> crash_input s i ->
    node_crash (pcfg P k) (g_node s k) i j applied = Some x ->
    pstep P s (absorb s k x)
| PRestart s k :
    honestb P k = true ->
    pstep P s (absorb s k (node_restart (pcfg P k) (g_node s k)))
(* block sync: a finalized block whose certificate verifies and contains no forged honest
   signature (it may come from anywhere) *)
| PSync s k n h q :
    honestb P k = true -> n_alive (g_node s k) = true ->
    cqc_verify (p_g P) (p_e P) (p_C P) q = Ok tt -> cqc_knownb P (g_soup s) q = true ->
    hnum (cprop (qmsg q)) = n -> hpay (cprop (qmsg q)) = h ->
    pstep P s (absorb s k (node_input (pcfg P k) (g_node s k) (ISync n h)))
(* the proposer task of an honest node signs a proposal for the justification it was last
   notified of; payload presence and contents are unconstrained *)
| PPropose s k p j :
    honestb P k = true -> n_alive (g_node s k) = true -> n_notify (g_node s k) = Some j ->
    pstep P s (add_msg s {| m_key := k; m_sig_ok := true; m_msg := MProposal p j |})
(* the adversary *)
| PByz s m :
    adv_ok P (g_soup s) m -> pstep P s (add_msg s m).

Inductive preach (P : params) : gstate -> Prop :=
| PReachInit : preach P (ginit P)
| PReachStep s s' : preach P s -> pstep P s s' -> preach P s'.
