(* Glue between the source translator's output for the connection admission code (Gen/Admission.v) and the hand
   model Model/Pool.v.  Hand written, small, part of the trusted base of Properties/C12Gen.v.
   PoolWatch::insert publishes the updated pool iff the closure returned Ok (Watch::send_if_ok works on a copy);
   PoolWatch::remove updates in place.  Both run under the watch lock (H-ATOM). *)
From Coq Require Import ZArith List Bool.
From EC Require Import Lib.Outcome Lib.U64 Lib.RustSem Lib.Obs Model.Handshake Model.Pool.
Import ListNotations.
Open Scope Z_scope.

(* why run_*_stream returned an error *)
Inductive cerr := CHandshake (e : herr) | CPool (e : perr) | CServe.

Definition pool_insert_s (p : pool) (k : Z) : sres pool cerr unit :=
  match insert k p with
  | Ok p' => (p', Ok tt)
  | Err e => (p, Err (CPool e))
  | Panic x => (p, Panic x)
  end.
Definition pool_remove_s (p : pool) (k : Z) : sres pool cerr unit :=
  match remove k p with
  | Ok p' => (p', Ok tt)
  | Err e => (p, Err (CPool e))
  | Panic x => (p, Panic x)
  end.

(* what run_*_stream is specified to do with the pool, given the result of the handshake and of serving the stream:
   handshake -> insert -> serve -> remove; a failed handshake or insert returns early and never removes *)
Definition conn_script (p : pool) (hs : outcome herr Z) (served : outcome unit unit) : sres pool cerr unit :=
  match hs with
  | Err e => (p, Err (CHandshake e))
  | Panic x => (p, Panic x)
  | Ok k =>
      sbind (pool_insert_s p k) (fun p1 _ =>
      sbind (pool_remove_s p1 k) (fun p2 _ =>
      (p2, rmap_err (fun _ => CServe) served)))
  end.
